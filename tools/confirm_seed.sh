#!/bin/bash
# confirm_seed.sh <worktree> <seed out dir> : demo fails with the patch, passes without; existing suite passes with the patch
set -u
WT=$1; OUT=$2
export GOFLAGS=-mod=mod GOPROXY=off GOSUMDB=off GOTOOLCHAIN=local
cd $WT || exit 2
git checkout -q -- . ; git clean -fdq -e out
PKG=$(grep -m1 -o "^package [a-z]*" $OUT/demo_test.go | awk '{print $2}')
DIR=store; [ "$PKG" = "utils" ] && DIR=utils; [ "$PKG" = "gobeansdb" ] && DIR=gobeansdb; [ "$PKG" = "memcache" ] && DIR=memcache; [ "$PKG" = "quicklz" ] && DIR=quicklz
cp $OUT/demo_test.go $DIR/zz_seeded_demo_test.go
NAMES=$(grep -o "^func Test[A-Za-z0-9_]*" $DIR/zz_seeded_demo_test.go | sed 's/func //' | paste -sd'|')
BASE=$(mktemp -d /tmp/seedbase.XXXX)
TAGS=""; grep -q "^//go:build verif" $OUT/demo_test.go && TAGS="-tags verif"   # a demo may use the hook points of /repo
BFLAG=""; [ "$DIR" = "store" ] && BFLAG="-base $BASE"
go test $TAGS -vet=off -count=1 -run "^($NAMES)\$" ./$DIR/ $BFLAG > $OUT/confirm_clean.log 2>&1; RC_CLEAN=$?
git apply $OUT/patch.diff || { echo "patch does not apply"; exit 2; }
go build ./... > $OUT/confirm_build.log 2>&1; RC_BUILD=$?
go test $TAGS -vet=off -count=1 -run "^($NAMES)\$" ./$DIR/ $BFLAG > $OUT/confirm_patched.log 2>&1; RC_PATCHED=$?
rm -f $DIR/zz_seeded_demo_test.go
go test -vet=off -count=1 ./store/ -base $BASE > $OUT/confirm_suite_store.log 2>&1; RC_S1=$?
go test -vet=off -count=1 ./memcache/ ./cmem/ ./utils/ ./quicklz/ ./loghub/ > $OUT/confirm_suite_rest.log 2>&1; RC_S2=$?
git checkout -q -- . ; git clean -fdq -e out; rm -rf $BASE
echo "demo_clean_rc=$RC_CLEAN build_rc=$RC_BUILD demo_patched_rc=$RC_PATCHED suite_store_rc=$RC_S1 suite_rest_rc=$RC_S2" | tee $OUT/confirm.txt
