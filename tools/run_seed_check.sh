#!/bin/bash
# run_seed_check.sh <prop> <patch.diff> [tier] : apply a seeded change to /repo, run the property's check, undo. Serialised by a lock.
P=$1; PATCH=$2; TIER=${3:-quick}
exec 9>/tmp/seedcheck.lock; flock 9
cd /repo && git diff --quiet || { echo "/repo dirty"; exit 3; }
git -C /repo apply "$PATCH" 2>/dev/null || { git -C /repo apply --3way "$PATCH" >/dev/null 2>&1 && git -C /repo reset -q; } || { git -C /repo reset -q --hard HEAD; echo "patch does not apply (conflicts with later hook or fix commits)"; exit 3; }
if grep -rq "^<<<<<<< " /repo/store /repo/memcache /repo/gobeansdb 2>/dev/null; then git -C /repo reset -q --hard HEAD; echo "patch conflicts"; exit 3; fi
cd /verif && ./check $P --tier $TIER > /tmp/seedcheck_$P.log 2>&1; RC=$?
git -C /repo checkout -- . ; git -C /repo clean -fdq
echo "check $P rc=$RC"; grep -E "VIOLATION|MACHINERY|^OK" /tmp/seedcheck_$P.log | head -5; grep -c "KNOWN-FINDING" /tmp/seedcheck_$P.log | sed "s/^/known-finding lines: /"
git -C /verif checkout -- evidence 2>/dev/null
exit 0
