#!/usr/bin/env python3
"""Regenerate MANIFEST.json from lib/props.json (claims) and properties.jsonl (ids)."""
import json, os, subprocess
V = os.path.dirname(os.path.dirname(os.path.abspath(__file__)))
props = [json.loads(l) for l in open(os.path.join(V, "properties.jsonl"))]
cfg = json.load(open(os.path.join(V, "lib", "props.json")))
na = json.load(open(os.path.join(V, "lib", "not_applicable.json"))) if os.path.exists(os.path.join(V, "lib", "not_applicable.json")) else {}
hooks = subprocess.run(["git", "-C", "/repo", "log", "--format=%h %s"], capture_output=True, text=True).stdout.strip().split("\n")
hook_commits = [l.split()[0] for l in hooks if l.split(" ", 1)[1].startswith("verif hooks")]
m = {
 "version": 1,
 "setup_cmd": "./setup",
 "hooks": {"guard": "verif",
           "enable": "go build -tags verif (the harness /verif/harness is built with -tags verif against /repo through a replace directive)",
           "baseline_off_cmd": "cd /repo && go test -mod=mod -json -vet=off -count=1 -timeout 25m ./...",
           "source_commits": hook_commits[::-1], "add_only": True},
 "engines": [
   {"name": "lean-proofs", "path": "lean/", "serves_properties": sorted(cfg), "kind_free_text": "Lean 4 model + theorems (lake build, forbidden-token grep, #print axioms audit of every property theorem)"},
   {"name": "go2lean", "path": "tools/go2lean/", "serves_properties": sorted(cfg), "kind_free_text": "Go->Lean translator of the pure kernels, regenerated on every run (tie A); go/ast structural fact extractor vs tools/expect/facts.json (tie B)"},
   {"name": "hx", "path": "harness/cmd/hx/", "serves_properties": sorted(cfg), "kind_free_text": "Go harness running the real code in-process (-tags verif); its traces are replayed by the compiled Lean driver lean/Driver on model and property oracle (tie C)"}],
 "checks": [],
 "notes": "All checks: ./check Cnn --tier quick|thorough [--seed N]; VERIF_SEED and VERIF_TIER are honoured. Known findings: known_findings.txt. Replays: ./check Cnn --replay <file>.",
 "not_applicable": []
}
for p in props:
    pid = p["id"]
    if pid in cfg:
        c = cfg[pid]
        m["checks"].append({
            "property_id": pid, "quick_cmd": "./check %s --tier quick" % pid, "thorough_cmd": "./check %s --tier thorough" % pid,
            "evidence_file": "evidence/%s.json" % pid, "replay_cmd_template": "./check %s --replay {path}" % pid,
            "engine": "lean-proofs+go2lean+hx:" + ",".join(e[0] for e in c.get("engines", [])),
            "level_claimed": {"category": "proof", "text": c["claim_text"], "design_ref": c.get("design_ref", "DESIGN.md §4 " + pid)},
            "level_note": c["level_note"], "technique": c["technique"]})
    else:
        m["not_applicable"].append({"property_id": pid, "reason": na.get(pid, "not claimed yet: the machinery for this property is still being built (DESIGN.md §8 build order); no check is registered, so nothing is asserted about it")})
json.dump(m, open(os.path.join(V, "MANIFEST.json"), "w"), indent=1)
print("claimed:", [c["property_id"] for c in m["checks"]])
