#!/usr/bin/env python3
"""save_seed.py <property> <seed-id> <agent out dir> <detected_by> : copy a confirmed seeded change into /verif/seeded/<seed-id>/"""
import sys, os, json, shutil, re
prop, sid, out, detected = sys.argv[1:5]
dst = os.path.join("/verif/seeded", sid)
os.makedirs(dst, exist_ok=True)
shutil.copy(os.path.join(out, "patch.diff"), os.path.join(dst, "patch.diff"))
# the demonstration is kept with a non-_test.go name so that nothing ever compiles it by accident
shutil.copy(os.path.join(out, "demo_test.go"), os.path.join(dst, "demo_test.go.txt"))
notes = open(os.path.join(out, "notes.md")).read()
shutil.copy(os.path.join(out, "notes.md"), os.path.join(dst, "notes.md"))
confirm = open(os.path.join(out, "confirm.txt")).read().strip() if os.path.exists(os.path.join(out, "confirm.txt")) else "not re-confirmed"
files = re.findall(r"^\+\+\+ b/(\S+)", open(os.path.join(out, "patch.diff")).read(), re.M)
meta = {
  "property": prop, "seed": sid, "files_changed": files,
  "needs_to_manifest": (re.search(r"(?is)(condition|needs|manifest)[^\n]*\n(.{0,600})", notes) or [None, None, notes[:600]])[2].strip()[:600],
  "written_by": "independent sub-agent given only the property text and a scratch worktree of /repo",
  "confirmed_by_me": "tools/confirm_seed.sh <worktree> <dir>: demo passes on the clean tree, fails with the patch; go build ok; existing suite (store with private -base, memcache, cmem, utils, quicklz, loghub) passes with the patch",
  "confirm_result": confirm,
  "detected_by": detected,
  "how_to_rerun": "git -C /repo apply /verif/seeded/%s/patch.diff && /verif/check %s ; git -C /repo checkout -- ." % (sid, prop)
}
json.dump(meta, open(os.path.join(dst, "meta.json"), "w"), indent=1)
print("saved", dst, confirm)
