#!/bin/bash
# mycheck.sh <prop> [tier] : run a check under the same lock as the seeded-change runs (so /repo is never patched while it runs)
exec 9>/tmp/seedcheck.lock; flock 9
cd /verif && ./check $1 --tier ${2:-quick} 2>&1 | tail -${3:-4}
