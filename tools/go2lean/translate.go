package main

// go2lean translate: regenerate Lean definitions from the pure integer/byte
// kernels of /repo.  Deliberately tiny: every construct outside the subset is a
// loud failure ("translate:<func>: unsupported ..."), never a guess.

import (
	"bytes"
	"encoding/json"
	"fmt"
	"go/ast"
	"go/parser"
	"go/printer"
	"go/token"
	"math/big"
	"os"
	"path/filepath"
	"regexp"
	"sort"
	"strconv"
	"strings"
)

type Unit struct {
	Kind   string            `json:"kind"` // func | const | intarray | ctable | cfunc
	File   string            `json:"file"`
	Func   string            `json:"func"`
	Recv   string            `json:"recv"`
	Lean   string            `json:"lean"`
	Names  []string          `json:"names"`
	Params [][2]string       `json:"params"` // overrides the Go parameter list (name, gotype)
	Locals [][2]string       `json:"locals"` // extra mutable locals initialised to zero
	Subst  map[string]string `json:"subst"`  // printed Go expr -> local/param name
	Calls  map[string]string `json:"calls"`  // printed callee -> "lean:<fn>:<rettype>" | "state:<var>:<fn>" | "expr:<lean>:<type>"
	Ret    []string          `json:"ret"`    // explicit result expressions (names) for void funcs
	RetTy  []string          `json:"retty"`
	Fuel   int               `json:"fuel"`
	Module string            `json:"module"`
}

type Spec struct {
	Units []Unit `json:"units"`
}

type tfail struct{ msg string }

func failf(format string, a ...interface{}) { panic(tfail{fmt.Sprintf(format, a...)}) }

var leanTy = map[string]string{
	"uint8": "UInt8", "byte": "UInt8", "uint16": "UInt16", "uint32": "UInt32", "uint64": "UInt64", "uint": "UInt64",
	"int8": "Int8", "int16": "Int16", "int32": "Int32", "int64": "Int64", "int": "Int64",
	"bool": "Bool", "[]byte": "Bytes", "[]int": "List Int64", "string": "Bytes",
}

func canon(t string) string {
	switch t {
	case "byte":
		return "uint8"
	case "int":
		return "int64"
	case "uint":
		return "uint64"
	case "string":
		return "[]byte"
	}
	return t
}

func isUnsigned(t string) bool { return strings.HasPrefix(canon(t), "uint") }
func isSigned(t string) bool   { return strings.HasPrefix(canon(t), "int") }
func isInt(t string) bool      { return isUnsigned(t) || isSigned(t) }
func width(t string) int {
	t = canon(t)
	n, _ := strconv.Atoi(strings.TrimLeft(t, "uint"))
	return n
}

// conv returns Lean code converting expression e of Go type from to Go type to.
func conv(e, from, to string) string {
	from, to = canon(from), canon(to)
	if from == to {
		return e
	}
	if from == "untyped" {
		return fmt.Sprintf("(%s : %s)", e, leanTy[to])
	}
	if !isInt(from) || !isInt(to) {
		failf("conversion %s -> %s", from, to)
	}
	// Go: convert via sign/zero extension or truncation of the two's complement pattern.
	fw, tw := width(from), width(to)
	chain := e
	if isSigned(from) {
		// extend/truncate in the signed domain, then reinterpret
		if fw != tw {
			chain = fmt.Sprintf("(%s).toInt%d", chain, tw)
		}
		if isUnsigned(to) {
			chain = fmt.Sprintf("(%s).toUInt%d", chain, tw)
		}
	} else {
		if fw != tw {
			chain = fmt.Sprintf("(%s).toUInt%d", chain, tw)
		}
		if isSigned(to) {
			chain = fmt.Sprintf("(%s).toInt%d", chain, tw)
		}
	}
	return chain
}

func toNat(e, t string) string {
	t = canon(t)
	if t == "untyped" {
		return fmt.Sprintf("(%s : Nat)", e)
	}
	if isUnsigned(t) {
		return fmt.Sprintf("(%s).toNat", e)
	}
	if isSigned(t) {
		return fmt.Sprintf("(%s).toNatClampNeg", e)
	}
	failf("toNat of %s", t)
	return ""
}

type fnSig struct {
	lean   string
	params []string // go types
	ret    []string
}

type tr struct {
	fset   *token.FileSet
	u      *Unit
	vars   []map[string]string // scopes: name -> gotype
	sigs   map[string]fnSig    // translated functions by Go name (and Recv.Name)
	consts map[string]string   // const name -> type ("untyped" or typed)
	named  []string            // named results
	ret    []string
	out    *bytes.Buffer
	ind    int
	assigned map[string]bool
}

func (t *tr) src(n ast.Node) string {
	var b bytes.Buffer
	printer.Fprint(&b, t.fset, n)
	return b.String()
}

func (t *tr) lookup(name string) (string, bool) {
	for i := len(t.vars) - 1; i >= 0; i-- {
		if ty, ok := t.vars[i][name]; ok {
			return ty, true
		}
	}
	return "", false
}
func (t *tr) declare(name, ty string) { t.vars[len(t.vars)-1][name] = ty }
func (t *tr) push()                   { t.vars = append(t.vars, map[string]string{}) }
func (t *tr) pop()                    { t.vars = t.vars[:len(t.vars)-1] }
func (t *tr) emit(format string, a ...interface{}) {
	fmt.Fprintf(t.out, "%s%s\n", strings.Repeat("  ", t.ind), fmt.Sprintf(format, a...))
}

func goTypeOf(e ast.Expr) string {
	switch x := e.(type) {
	case *ast.Ident:
		return x.Name
	case *ast.ArrayType:
		if x.Len == nil {
			return "[]" + goTypeOf(x.Elt)
		}
	case *ast.StarExpr:
		return "*" + goTypeOf(x.X)
	case *ast.SelectorExpr:
		return goTypeOf(x.X) + "." + x.Sel.Name
	}
	return "?"
}

func zeroOf(ty string) string {
	ty = canon(ty)
	switch {
	case ty == "bool":
		return "false"
	case strings.HasPrefix(ty, "[]"):
		return "[]"
	case isInt(ty):
		return "0"
	}
	failf("zero value of %s", ty)
	return ""
}

func lty(ty string) string {
	l, ok := leanTy[ty]
	if !ok {
		failf("type %s outside subset", ty)
	}
	return l
}

// unify an untyped operand with a typed one
func unify(a, at, b, bt string) (string, string, string) {
	at, bt = canon(at), canon(bt)
	if at == "untyped" && bt != "untyped" {
		return conv(a, "untyped", bt), b, bt
	}
	if bt == "untyped" && at != "untyped" {
		return a, conv(b, "untyped", at), at
	}
	if at != bt {
		failf("operand types differ: %s vs %s (%s, %s)", at, bt, a, b)
	}
	return a, b, at
}

var shlName = map[string]string{"uint8": "Go.shl8", "uint16": "Go.shl16", "uint32": "Go.shl32", "uint64": "Go.shl64", "int32": "Go.sshl32", "int64": "Go.sshl64"}
var shrName = map[string]string{"uint8": "Go.shr8", "uint16": "Go.shr16", "uint32": "Go.shr32", "uint64": "Go.shr64", "int32": "Go.sshr32", "int64": "Go.sshr64"}

func (t *tr) expr(e ast.Expr) (string, string) {
	if t.u.Subst != nil {
		if v, ok := t.u.Subst[t.src(e)]; ok {
			ty, ok2 := t.lookup(v)
			if !ok2 {
				failf("subst target %s undeclared", v)
			}
			return v, ty
		}
	}
	switch x := e.(type) {
	case *ast.ParenExpr:
		s, ty := t.expr(x.X)
		return "(" + s + ")", ty
	case *ast.BasicLit:
		switch x.Kind {
		case token.INT:
			v := new(big.Int)
			if _, ok := v.SetString(x.Value, 0); !ok {
				failf("int literal %s", x.Value)
			}
			return v.String(), "untyped"
		case token.CHAR:
			c, _, _, err := strconv.UnquoteChar(x.Value[1:len(x.Value)-1], '\'')
			if err != nil {
				failf("char literal %s", x.Value)
			}
			return strconv.Itoa(int(c)), "untyped"
		}
		failf("literal %s", x.Value)
	case *ast.Ident:
		if x.Name == "true" || x.Name == "false" {
			return x.Name, "bool"
		}
		if ty, ok := t.lookup(x.Name); ok {
			return x.Name, ty
		}
		if ty, ok := t.consts[x.Name]; ok {
			if ty == "untyped" {
				return "Gen." + x.Name, "untyped"
			}
			return fmt.Sprintf("(Gen.%s : %s)", x.Name, lty(ty)), ty
		}
		failf("unknown identifier %s", x.Name)
	case *ast.UnaryExpr:
		s, ty := t.expr(x.X)
		switch x.Op {
		case token.SUB:
			return "(-" + s + ")", ty
		case token.NOT:
			return "(!" + s + ")", "bool"
		case token.XOR:
			if canon(ty) == "untyped" {
				failf("^ on untyped")
			}
			return "(~~~" + s + ")", ty
		}
		failf("unary %s", x.Op)
	case *ast.BinaryExpr:
		a, at := t.expr(x.X)
		b, bt := t.expr(x.Y)
		switch x.Op {
		case token.SHL, token.SHR:
			if canon(at) == "untyped" {
				// Go: untyped constant shifted takes the type from context; we only meet
				// this with small literals; keep untyped when the count is untyped too.
				if canon(bt) == "untyped" {
					if x.Op == token.SHL {
						return fmt.Sprintf("(%s <<< %s)", a, b), "untyped"
					}
					return fmt.Sprintf("(%s >>> %s)", a, b), "untyped"
				}
				failf("shift of untyped constant by typed count")
			}
			fn := shlName[canon(at)]
			if x.Op == token.SHR {
				fn = shrName[canon(at)]
			}
			if fn == "" {
				failf("shift on %s", at)
			}
			return fmt.Sprintf("(%s %s %s)", fn, a, toNat(b, bt)), at
		case token.LAND, token.LOR:
			op := "&&"
			if x.Op == token.LOR {
				op = "||"
			}
			return fmt.Sprintf("(%s %s %s)", a, op, b), "bool"
		}
		a, b, ty := unify(a, at, b, bt)
		switch x.Op {
		case token.ADD, token.SUB, token.MUL, token.QUO, token.REM:
			return fmt.Sprintf("(%s %s %s)", a, x.Op.String(), b), ty
		case token.AND:
			return fmt.Sprintf("(%s &&& %s)", a, b), ty
		case token.OR:
			return fmt.Sprintf("(%s ||| %s)", a, b), ty
		case token.XOR:
			return fmt.Sprintf("(%s ^^^ %s)", a, b), ty
		case token.AND_NOT:
			return fmt.Sprintf("(%s &&& ~~~%s)", a, b), ty
		case token.EQL:
			return fmt.Sprintf("(%s == %s)", a, b), "bool"
		case token.NEQ:
			return fmt.Sprintf("(%s != %s)", a, b), "bool"
		case token.LSS, token.LEQ, token.GTR, token.GEQ:
			op := map[token.Token]string{token.LSS: "<", token.LEQ: "≤", token.GTR: ">", token.GEQ: "≥"}[x.Op]
			return fmt.Sprintf("(decide (%s %s %s))", a, op, b), "bool"
		}
		failf("binary %s", x.Op)
	case *ast.CallExpr:
		callee := t.src(x.Fun)
		if t.u.Calls != nil {
			if v, ok := t.u.Calls[callee]; ok {
				parts := strings.SplitN(v, "|", 3)
				switch parts[0] {
				case "expr":
					return parts[1], parts[2]
				case "lean":
					var args []string
					for _, a := range x.Args {
						s, _ := t.expr(a)
						args = append(args, s)
					}
					return fmt.Sprintf("(%s %s)", parts[1], strings.Join(args, " ")), parts[2]
				case "stateget": // v.get() -> fn applied to state var
					ty, _ := t.lookup(parts[1])
					_ = ty
					sig, ok := t.sigs[parts[2]]
					if !ok {
						failf("stateget: unknown fn %s", parts[2])
					}
					return fmt.Sprintf("(Gen.%s %s)", sig.lean, parts[1]), sig.ret[0]
				}
			}
		}
		// conversions
		if id, ok := x.Fun.(*ast.Ident); ok && len(x.Args) == 1 {
			if _, isTy := leanTy[id.Name]; isTy && id.Name != "string" && !strings.HasPrefix(id.Name, "[]") {
				s, ty := t.expr(x.Args[0])
				return conv(s, ty, id.Name), id.Name
			}
			if id.Name == "len" {
				s, ty := t.expr(x.Args[0])
				if !strings.HasPrefix(canon(ty), "[]") {
					failf("len of %s", ty)
				}
				return fmt.Sprintf("(Int64.ofNat (%s).length)", s), "int"
			}
		}
		switch callee {
		case "binary.LittleEndian.Uint16", "binary.LittleEndian.Uint32", "binary.LittleEndian.Uint64":
			s, _ := t.expr(x.Args[0])
			w := strings.TrimPrefix(callee, "binary.LittleEndian.Uint")
			return fmt.Sprintf("(Go.getU%s %s)", w, s), "uint" + w
		}
		name := callee
		if sel, ok := x.Fun.(*ast.SelectorExpr); ok {
			name = sel.Sel.Name // method or pkg.Func: resolved by bare name in sigs
		}
		if sig, ok := t.sigs[name]; ok {
			if len(sig.params) != len(x.Args) {
				failf("call %s: arity", callee)
			}
			var args []string
			for i, a := range x.Args {
				s, ty := t.expr(a)
				if canon(ty) == "untyped" {
					s = conv(s, "untyped", sig.params[i])
				} else if canon(ty) != canon(sig.params[i]) {
					failf("call %s: arg %d type %s want %s", callee, i, ty, sig.params[i])
				}
				args = append(args, s)
			}
			if len(sig.ret) != 1 {
				failf("call %s in expression: %d results", callee, len(sig.ret))
			}
			return fmt.Sprintf("(Gen.%s %s)", sig.lean, strings.Join(args, " ")), sig.ret[0]
		}
		failf("call %s outside subset", callee)
	case *ast.SliceExpr:
		s, ty := t.expr(x.X)
		if !strings.HasPrefix(canon(ty), "[]") {
			failf("slice of %s", ty)
		}
		if x.Slice3 {
			failf("3-index slice")
		}
		lo, hi := "", ""
		if x.Low != nil {
			a, at := t.expr(x.Low)
			lo = toNat(a, at)
		}
		if x.High != nil {
			a, at := t.expr(x.High)
			hi = toNat(a, at)
		}
		switch {
		case lo == "" && hi == "":
			return s, ty
		case lo == "":
			return fmt.Sprintf("(List.take %s %s)", hi, s), ty
		case hi == "":
			return fmt.Sprintf("(List.drop %s %s)", lo, s), ty
		}
		return fmt.Sprintf("(Go.slice %s %s %s)", s, lo, hi), ty
	case *ast.IndexExpr:
		s, ty := t.expr(x.X)
		i, it := t.expr(x.Index)
		cty := canon(ty)
		if !strings.HasPrefix(cty, "[]") {
			failf("index of %s", ty)
		}
		return fmt.Sprintf("(Go.idx %s %s)", s, toNat(i, it)), strings.TrimPrefix(ty, "[]")
	}
	failf("expression %s outside subset", t.src(e))
	return "", ""
}

func (t *tr) typed(e ast.Expr, want string) string {
	s, ty := t.expr(e)
	if canon(ty) == "untyped" {
		return conv(s, "untyped", want)
	}
	if canon(ty) != canon(want) {
		failf("type mismatch: %s is %s, want %s", t.src(e), ty, want)
	}
	return s
}

func (t *tr) retExpr() string {
	if len(t.ret) == 1 {
		return t.ret[0]
	}
	return "(" + strings.Join(t.ret, ", ") + ")"
}

func collectAssigned(n ast.Node, m map[string]bool) {
	ast.Inspect(n, func(n ast.Node) bool {
		switch x := n.(type) {
		case *ast.AssignStmt:
			if x.Tok != token.DEFINE {
				for _, l := range x.Lhs {
					switch y := l.(type) {
					case *ast.Ident:
						m[y.Name] = true
					case *ast.IndexExpr:
						if id, ok := y.X.(*ast.Ident); ok {
							m[id.Name] = true
						}
					}
				}
			}
		case *ast.IncDecStmt:
			if id, ok := x.X.(*ast.Ident); ok {
				m[id.Name] = true
			}
		case *ast.CallExpr:
			if se, ok := x.Fun.(*ast.SelectorExpr); ok && strings.HasPrefix(se.Sel.Name, "PutUint") && len(x.Args) > 0 {
				var base ast.Expr = x.Args[0]
				if sl, ok := base.(*ast.SliceExpr); ok {
					base = sl.X
				}
				if id, ok := base.(*ast.Ident); ok {
					m[id.Name] = true
				}
			}
		}
		return true
	})
}

func (t *tr) assignTo(lhs ast.Expr, rhs string, rty string, rhsNode ast.Expr) {
	// substituted targets (e.g. item.Ver -> ver)
	if t.u.Subst != nil {
		if v, ok := t.u.Subst[t.src(lhs)]; ok {
			ty, _ := t.lookup(v)
			val := rhs
			if canon(rty) == "untyped" {
				val = conv(rhs, "untyped", ty)
			} else if canon(rty) != canon(ty) {
				failf("assign %s: %s vs %s", v, rty, ty)
			}
			t.emit("%s := %s", v, val)
			return
		}
	}
	switch l := lhs.(type) {
	case *ast.Ident:
		ty, ok := t.lookup(l.Name)
		if !ok {
			failf("assign to unknown %s", l.Name)
		}
		val := rhs
		if canon(rty) == "untyped" {
			val = conv(rhs, "untyped", ty)
		} else if canon(rty) != canon(ty) {
			failf("assign %s: %s vs %s", l.Name, rty, ty)
		}
		t.emit("%s := %s", l.Name, val)
	case *ast.IndexExpr:
		base, bty := t.expr(l.X)
		if _, ok := t.lookup(base); !ok {
			failf("element assignment to non-variable %s", base)
		}
		i, it := t.expr(l.Index)
		ety := strings.TrimPrefix(bty, "[]")
		val := rhs
		if canon(rty) == "untyped" {
			val = conv(rhs, "untyped", ety)
		} else if canon(rty) != canon(ety) {
			failf("element assign: %s vs %s", rty, ety)
		}
		t.emit("%s := (%s).set %s %s", base, base, toNat(i, it), val)
	default:
		failf("assignment target %s", t.src(lhs))
	}
}

var opAssign = map[token.Token]token.Token{
	token.ADD_ASSIGN: token.ADD, token.SUB_ASSIGN: token.SUB, token.MUL_ASSIGN: token.MUL, token.QUO_ASSIGN: token.QUO,
	token.REM_ASSIGN: token.REM, token.AND_ASSIGN: token.AND, token.OR_ASSIGN: token.OR, token.XOR_ASSIGN: token.XOR,
	token.SHL_ASSIGN: token.SHL, token.SHR_ASSIGN: token.SHR,
}

func (t *tr) putLE(x *ast.CallExpr, w string) {
	// binary.LittleEndian.PutUintW(dst, v) with dst = b | b[a:] | b[a:c]
	var base ast.Expr = x.Args[0]
	off := "0"
	if se, ok := base.(*ast.SliceExpr); ok {
		base = se.X
		if se.Low != nil {
			a, at := t.expr(se.Low)
			off = toNat(a, at)
		}
		if se.High != nil && se.Low != nil {
			lo, ok1 := se.Low.(*ast.BasicLit)
			hi, ok2 := se.High.(*ast.BasicLit)
			if ok1 && ok2 {
				l, _ := strconv.Atoi(lo.Value)
				h, _ := strconv.Atoi(hi.Value)
				wi, _ := strconv.Atoi(w)
				if h-l != wi/8 {
					failf("PutUint%s into a %d-byte window", w, h-l)
				}
			}
		} else if se.High != nil {
			hi, ok2 := se.High.(*ast.BasicLit)
			if ok2 {
				h, _ := strconv.Atoi(hi.Value)
				wi, _ := strconv.Atoi(w)
				if h != wi/8 {
					failf("PutUint%s into a %d-byte window", w, h)
				}
			}
		}
	}
	b, bty := t.expr(base)
	if canon(bty) != "[]uint8" && bty != "[]byte" {
		failf("PutUint target type %s", bty)
	}
	if _, ok := t.lookup(b); !ok {
		failf("PutUint target %s is not a variable", b)
	}
	v := t.typed(x.Args[1], "uint"+w)
	t.emit("%s := Go.putU%s %s %s %s", b, w, b, off, v)
}

func (t *tr) stmt(s ast.Stmt) {
	switch x := s.(type) {
	case *ast.BlockStmt:
		for _, y := range x.List {
			t.stmt(y)
		}
	case *ast.ExprStmt:
		call, ok := x.X.(*ast.CallExpr)
		if !ok {
			failf("expression statement %s", t.src(s))
		}
		callee := t.src(call.Fun)
		switch callee {
		case "binary.LittleEndian.PutUint16":
			t.putLE(call, "16")
			return
		case "binary.LittleEndian.PutUint32":
			t.putLE(call, "32")
			return
		case "binary.LittleEndian.PutUint64":
			t.putLE(call, "64")
			return
		}
		if t.u.Calls != nil {
			if v, ok := t.u.Calls[callee]; ok {
				parts := strings.SplitN(v, "|", 3)
				if parts[0] == "state" { // hasher.write(x): state var updated by fn
					sig, ok := t.sigs[parts[2]]
					if !ok {
						failf("state call: unknown fn %s", parts[2])
					}
					var args []string
					for i, a := range call.Args {
						args = append(args, t.typed(a, sig.params[i+1]))
					}
					t.emit("%s := Gen.%s %s %s", parts[1], sig.lean, parts[1], strings.Join(args, " "))
					return
				}
				if parts[0] == "skip" {
					return
				}
			}
		}
		if strings.HasPrefix(callee, "logger.") {
			return // logging has no effect on the value computed
		}
		failf("call statement %s outside subset", callee)
	case *ast.DeclStmt:
		gd := x.Decl.(*ast.GenDecl)
		if gd.Tok != token.VAR {
			failf("decl %s", t.src(s))
		}
		for _, sp := range gd.Specs {
			vs := sp.(*ast.ValueSpec)
			for i, n := range vs.Names {
				var ty, val string
				if vs.Type != nil {
					ty = goTypeOf(vs.Type)
					if at, ok := vs.Type.(*ast.ArrayType); ok && at.Len != nil {
						// fixed array of ints, zero-initialised
						ln, _ := strconv.Atoi(at.Len.(*ast.BasicLit).Value)
						ety := goTypeOf(at.Elt)
						ty = "[]" + ety
						val = fmt.Sprintf("List.replicate %d (0 : %s)", ln, lty(ety))
					}
				}
				if val == "" {
					if len(vs.Values) > i {
						if ty != "" {
							val = t.typed(vs.Values[i], ty)
						} else {
							val, ty = t.expr(vs.Values[i])
							if canon(ty) == "untyped" {
								ty = "int"
								val = conv(val, "untyped", ty)
							}
						}
					} else {
						val = zeroOf(ty)
					}
				}
				t.emit("let mut %s : %s := %s", n.Name, lty(ty), val)
				t.declare(n.Name, ty)
			}
		}
	case *ast.AssignStmt:
		if len(x.Lhs) != len(x.Rhs) {
			// multi-value call: a, b := f(x)
			if len(x.Rhs) == 1 {
				if call, ok := x.Rhs[0].(*ast.CallExpr); ok {
					name := t.src(call.Fun)
					if sel, ok := call.Fun.(*ast.SelectorExpr); ok {
						name = sel.Sel.Name
					}
					if sig, ok := t.sigs[name]; ok && len(sig.ret) == len(x.Lhs) {
						var args []string
						for i, a := range call.Args {
							args = append(args, t.typed(a, sig.params[i]))
						}
						var names []string
						for i, l := range x.Lhs {
							id := l.(*ast.Ident)
							if id.Name == "_" {
								names = append(names, "_")
								continue
							}
							if x.Tok == token.DEFINE {
								names = append(names, id.Name)
								t.declare(id.Name, sig.ret[i])
							} else {
								failf("multi-assign to existing vars")
							}
						}
						t.emit("let (%s) := Gen.%s %s", strings.Join(names, ", "), sig.lean, strings.Join(args, " "))
						return
					}
				}
			}
			failf("assignment arity %s", t.src(s))
		}
		if x.Tok == token.DEFINE {
			for i, l := range x.Lhs {
				id, ok := l.(*ast.Ident)
				if !ok {
					failf("define target %s", t.src(l))
				}
				val, ty := t.expr(x.Rhs[i])
				if canon(ty) == "untyped" {
					ty = "int"
					val = conv(val, "untyped", ty)
				}
				if id.Name == "_" {
					continue
				}
				if _, exists := t.vars[len(t.vars)-1][id.Name]; exists {
					t.emit("%s := %s", id.Name, val)
					continue
				}
				mut := ""
				if t.assigned[id.Name] {
					mut = "mut "
				}
				t.emit("let %s%s : %s := %s", mut, id.Name, lty(ty), val)
				t.declare(id.Name, ty)
			}
			return
		}
		if x.Tok == token.ASSIGN {
			if len(x.Lhs) > 1 {
				failf("parallel assignment")
			}
			val, ty := t.expr(x.Rhs[0])
			t.assignTo(x.Lhs[0], val, ty, x.Rhs[0])
			return
		}
		op, ok := opAssign[x.Tok]
		if !ok {
			failf("assignment op %s", x.Tok)
		}
		be := &ast.BinaryExpr{X: x.Lhs[0], Op: op, Y: x.Rhs[0]}
		val, ty := t.expr(be)
		t.assignTo(x.Lhs[0], val, ty, be)
	case *ast.IncDecStmt:
		op := token.ADD
		if x.Tok == token.DEC {
			op = token.SUB
		}
		be := &ast.BinaryExpr{X: x.X, Op: op, Y: &ast.BasicLit{Kind: token.INT, Value: "1"}}
		val, ty := t.expr(be)
		t.assignTo(x.X, val, ty, be)
	case *ast.IfStmt:
		if x.Init != nil {
			failf("if with init")
		}
		c := t.typed(x.Cond, "bool")
		t.emit("if %s then", c)
		t.ind++
		t.push()
		n := t.out.Len()
		t.stmt(x.Body)
		if t.out.Len() == n {
			t.emit("pure ()")
		}
		t.pop()
		t.ind--
		if x.Else != nil {
			t.emit("else")
			t.ind++
			t.push()
			n := t.out.Len()
			t.stmt(x.Else)
			if t.out.Len() == n {
				t.emit("pure ()")
			}
			t.pop()
			t.ind--
		}
	case *ast.ReturnStmt:
		if len(x.Results) == 0 || t.u.Ret != nil {
			t.emit("return %s", t.retExpr())
			return
		}
		if len(x.Results) != len(t.u.RetTy) {
			failf("return arity")
		}
		var rs []string
		for i, r := range x.Results {
			rs = append(rs, t.typed(r, t.u.RetTy[i]))
		}
		if len(rs) == 1 {
			t.emit("return %s", rs[0])
		} else {
			t.emit("return (%s)", strings.Join(rs, ", "))
		}
	case *ast.RangeStmt:
		if x.Tok != token.DEFINE && x.Key != nil {
			failf("range with assignment")
		}
		coll, cty := t.expr(x.X)
		if !strings.HasPrefix(canon(cty), "[]") {
			failf("range over %s", cty)
		}
		ety := strings.TrimPrefix(cty, "[]")
		if cty == "string" {
			failf("range over string (runes)")
		}
		key, val := "_", "_"
		if id, ok := x.Key.(*ast.Ident); ok {
			key = id.Name
		}
		if x.Value != nil {
			val = x.Value.(*ast.Ident).Name
		}
		ast.Inspect(x.Body, func(n ast.Node) bool {
			if b, ok := n.(*ast.BranchStmt); ok {
				failf("%s inside range loop", b.Tok)
			}
			return true
		})
		if key != "_" {
			t.emit("let mut %s : Int64 := 0", key)
		}
		v := val
		if v == "_" {
			v = "_x"
		}
		t.emit("for %s in %s do", v, coll)
		t.ind++
		t.push()
		if key != "_" {
			t.declare(key, "int")
		}
		if val != "_" {
			t.declare(val, ety)
		}
		t.stmt(x.Body)
		if key != "_" {
			t.emit("%s := %s + 1", key, key)
		} else if len(x.Body.List) == 0 {
			t.emit("pure ()")
		}
		t.pop()
		t.ind--
	case *ast.ForStmt:
		// counted: for i := a; i < N; i++ { body }  (i and N not assigned in body)
		if x.Init != nil && x.Cond != nil && x.Post != nil {
			init, ok1 := x.Init.(*ast.AssignStmt)
			cond, ok2 := x.Cond.(*ast.BinaryExpr)
			post, ok3 := x.Post.(*ast.IncDecStmt)
			if ok1 && ok2 && ok3 && init.Tok == token.DEFINE && len(init.Lhs) == 1 && post.Tok == token.INC &&
				(cond.Op == token.LSS) {
				iv := init.Lhs[0].(*ast.Ident).Name
				if t.src(cond.X) != iv || t.src(post.X) != iv {
					failf("for loop shape %s", t.src(x.Cond))
				}
				asg := map[string]bool{}
				collectAssigned(x.Body, asg)
				if asg[iv] {
					failf("loop variable %s assigned in body", iv)
				}
				ast.Inspect(cond.Y, func(n ast.Node) bool {
					if id, ok := n.(*ast.Ident); ok && asg[id.Name] {
						failf("loop bound depends on %s assigned in body", id.Name)
					}
					return true
				})
				ast.Inspect(x.Body, func(n ast.Node) bool {
					if b, ok := n.(*ast.BranchStmt); ok {
						failf("%s inside counted loop", b.Tok)
					}
					return true
				})
				lo, loty := t.expr(init.Rhs[0])
				hi, hity := t.expr(cond.Y)
				ity := "int"
				if canon(loty) != "untyped" {
					ity = loty
				}
				t.emit("for %s_ in [%s:%s] do", iv, toNat(lo, loty), toNat(hi, hity))
				t.ind++
				t.push()
				if isSigned(ity) {
					t.emit("let %s : %s := %s.ofNat %s_", iv, lty(ity), lty(ity), iv)
				} else {
					t.emit("let %s : %s := %s.ofNat %s_", iv, lty(ity), lty(ity), iv)
				}
				t.declare(iv, ity)
				t.stmt(x.Body)
				t.pop()
				t.ind--
				return
			}
		}
		// condition-only loop with explicit fuel
		if x.Init == nil && x.Post == nil && x.Cond != nil && t.u.Fuel > 0 {
			c := t.typed(x.Cond, "bool")
			t.emit("for _fuel in [0:%d] do  -- FUEL: `for cond {}` unrolled with fuel %d", t.u.Fuel, t.u.Fuel)
			t.ind++
			t.emit("if !%s then break", c)
			t.push()
			t.stmt(x.Body)
			t.pop()
			t.ind--
			return
		}
		failf("for loop shape outside subset")
	default:
		failf("statement %T outside subset", s)
	}
}

func findFunc(f *ast.File, name, recv string) *ast.FuncDecl {
	for _, d := range f.Decls {
		fd, ok := d.(*ast.FuncDecl)
		if !ok || fd.Name.Name != name {
			continue
		}
		r := ""
		if fd.Recv != nil && len(fd.Recv.List) == 1 {
			r = strings.TrimPrefix(goTypeOf(fd.Recv.List[0].Type), "*")
		}
		if r == recv {
			return fd
		}
	}
	return nil
}

func (t *tr) function(f *ast.File) string {
	u := t.u
	fd := findFunc(f, u.Func, u.Recv)
	if fd == nil {
		failf("function not found")
	}
	t.vars = []map[string]string{{}}
	t.out = &bytes.Buffer{}
	t.assigned = map[string]bool{}
	collectAssigned(fd.Body, t.assigned)
	for _, v := range u.Calls {
		parts := strings.SplitN(v, "|", 3)
		if parts[0] == "state" {
			t.assigned[parts[1]] = true
		}
	}
	// substituted assignment targets count as assigned locals
	var params [][2]string
	if u.Params != nil {
		params = u.Params
	} else {
		for _, p := range fd.Type.Params.List {
			for _, n := range p.Names {
				params = append(params, [2]string{n.Name, goTypeOf(p.Type)})
			}
		}
	}
	var sigp []string
	var hdr []string
	for _, p := range params {
		hdr = append(hdr, fmt.Sprintf("(%s : %s)", p[0], lty(p[1])))
		t.declare(p[0], p[1])
		sigp = append(sigp, p[1])
	}
	// results
	t.ret = nil
	explicit := u.Ret != nil
	if u.RetTy == nil {
		if fd.Type.Results != nil {
			for _, r := range fd.Type.Results.List {
				if len(r.Names) == 0 {
					u.RetTy = append(u.RetTy, goTypeOf(r.Type))
				}
				for _, n := range r.Names {
					u.RetTy = append(u.RetTy, goTypeOf(r.Type))
					t.named = append(t.named, n.Name)
				}
			}
		}
	}
	t.ind = 1
	for _, p := range params {
		// parameters are mutable locals in Go
		name := p[0]
		subAssigned := false
		for k, v := range u.Subst {
			_ = k
			if v == name {
				subAssigned = true
			}
		}
		if t.assigned[name] || subAssigned {
			t.emit("let mut %s := %s", name, name)
		}
	}
	if fd.Type.Results != nil && !explicit {
		for _, r := range fd.Type.Results.List {
			for _, n := range r.Names {
				if _, ok := t.lookup(n.Name); !ok {
					t.emit("let mut %s : %s := %s", n.Name, lty(goTypeOf(r.Type)), zeroOf(goTypeOf(r.Type)))
					t.declare(n.Name, goTypeOf(r.Type))
				}
				t.ret = append(t.ret, n.Name)
			}
		}
	}
	for _, l := range u.Locals {
		t.emit("let mut %s : %s := %s", l[0], lty(l[1]), zeroOf(l[1]))
		t.declare(l[0], l[1])
	}
	if u.Ret != nil {
		t.ret = u.Ret
	}
	t.stmt(fd.Body)
	// fallthrough return
	last := len(fd.Body.List) - 1
	needRet := last < 0
	if last >= 0 {
		if _, ok := fd.Body.List[last].(*ast.ReturnStmt); !ok {
			needRet = true
		}
	}
	if needRet {
		if len(t.ret) == 0 {
			failf("no result")
		}
		t.emit("return %s", t.retExpr())
	}
	var rty []string
	for _, r := range u.RetTy {
		rty = append(rty, lty(r))
	}
	pos := t.fset.Position(fd.Pos())
	rel, _ := filepath.Rel(repoRoot, pos.Filename)
	head := fmt.Sprintf("/-- regenerated from %s:%d `%s` -/\ndef %s %s : %s := Id.run do\n",
		rel, pos.Line, fd.Name.Name, u.Lean, strings.Join(hdr, " "), strings.Join(rty, " × "))
	t.sigs[fd.Name.Name] = fnSig{u.Lean, sigp, u.RetTy}
	return head + t.out.String()
}

// ---- constants ----

func evalConst(e ast.Expr, iota int, known map[string]*big.Int) (*big.Int, bool) {
	switch x := e.(type) {
	case *ast.BasicLit:
		if x.Kind == token.INT {
			v := new(big.Int)
			if _, ok := v.SetString(x.Value, 0); ok {
				return v, true
			}
		}
		if x.Kind == token.CHAR {
			c, _, _, err := strconv.UnquoteChar(x.Value[1:len(x.Value)-1], '\'')
			if err == nil {
				return big.NewInt(int64(c)), true
			}
		}
	case *ast.Ident:
		if x.Name == "iota" {
			return big.NewInt(int64(iota)), true
		}
		if v, ok := known[x.Name]; ok {
			return v, true
		}
	case *ast.ParenExpr:
		return evalConst(x.X, iota, known)
	case *ast.CallExpr: // typed conversion uint32(…)
		if id, ok := x.Fun.(*ast.Ident); ok && len(x.Args) == 1 {
			if _, isTy := leanTy[id.Name]; isTy {
				return evalConst(x.Args[0], iota, known)
			}
		}
	case *ast.UnaryExpr:
		v, ok := evalConst(x.X, iota, known)
		if ok && x.Op == token.SUB {
			return new(big.Int).Neg(v), true
		}
	case *ast.BinaryExpr:
		a, ok1 := evalConst(x.X, iota, known)
		b, ok2 := evalConst(x.Y, iota, known)
		if ok1 && ok2 {
			r := new(big.Int)
			switch x.Op {
			case token.ADD:
				return r.Add(a, b), true
			case token.SUB:
				return r.Sub(a, b), true
			case token.MUL:
				return r.Mul(a, b), true
			case token.SHL:
				return r.Lsh(a, uint(b.Uint64())), true
			case token.OR:
				return r.Or(a, b), true
			case token.QUO:
				return r.Quo(a, b), true
			}
		}
	}
	return nil, false
}

func constUnit(fset *token.FileSet, f *ast.File, u *Unit, consts map[string]string) string {
	want := map[string]bool{}
	for _, n := range u.Names {
		want[n] = true
	}
	var out bytes.Buffer
	known := map[string]*big.Int{}
	found := map[string]bool{}
	for _, d := range f.Decls {
		gd, ok := d.(*ast.GenDecl)
		if !ok || (gd.Tok != token.CONST && gd.Tok != token.VAR) {
			continue
		}
		var lastVals []ast.Expr
		for i, sp := range gd.Specs {
			vs := sp.(*ast.ValueSpec)
			vals := vs.Values
			if len(vals) == 0 && gd.Tok == token.CONST {
				vals = lastVals
			} else {
				lastVals = vals
			}
			for j, n := range vs.Names {
				if j >= len(vals) {
					continue
				}
				// float constant: keep as decimal fraction
				if bl, ok := vals[j].(*ast.BasicLit); ok && bl.Kind == token.FLOAT && want[n.Name] {
					parts := strings.SplitN(bl.Value, ".", 2)
					den := "1" + strings.Repeat("0", len(parts[1]))
					num := strings.TrimLeft(parts[0]+parts[1], "0")
					if num == "" {
						num = "0"
					}
					fmt.Fprintf(&out, "/-- %s = %s (decimal literal kept exact) -/\ndef %s_num : Nat := %s\ndef %s_den : Nat := %s\n", n.Name, bl.Value, n.Name, num, n.Name, den)
					found[n.Name] = true
					continue
				}
				v, ok := evalConst(vals[j], i, known)
				if !ok {
					continue
				}
				known[n.Name] = v
				if want[n.Name] {
					pos := fset.Position(n.Pos())
					rel, _ := filepath.Rel(repoRoot, pos.Filename)
					if v.Sign() < 0 {
						fmt.Fprintf(&out, "/-- %s:%d -/\ndef %s : Int := %s\n", rel, pos.Line, n.Name, v.String())
					} else {
						fmt.Fprintf(&out, "/-- %s:%d -/\ndef %s : Nat := %s\n", rel, pos.Line, n.Name, v.String())
					}
					consts[n.Name] = "untyped"
					found[n.Name] = true
				}
			}
		}
	}
	for _, n := range u.Names {
		if !found[n] {
			failf("constant %s not found / not evaluable", n)
		}
	}
	return out.String()
}

// intarray: package-level `var X = [N]int{...}` of integer literals
func intArrayUnit(fset *token.FileSet, f *ast.File, u *Unit) string {
	var out bytes.Buffer
	for _, d := range f.Decls {
		gd, ok := d.(*ast.GenDecl)
		if !ok || gd.Tok != token.VAR {
			continue
		}
		for _, sp := range gd.Specs {
			vs := sp.(*ast.ValueSpec)
			for j, n := range vs.Names {
				if n.Name != u.Func || j >= len(vs.Values) {
					continue
				}
				cl, ok := vs.Values[j].(*ast.CompositeLit)
				if !ok {
					failf("not a composite literal")
				}
				var xs []string
				for _, e := range cl.Elts {
					v, ok := evalConst(e, 0, nil)
					if !ok {
						failf("non-literal element")
					}
					xs = append(xs, v.String())
				}
				pos := fset.Position(n.Pos())
				rel, _ := filepath.Rel(repoRoot, pos.Filename)
				fmt.Fprintf(&out, "/-- %s:%d -/\ndef %s : List Int64 := [%s]\n", rel, pos.Line, u.Lean, strings.Join(xs, ", "))
				return out.String()
			}
		}
	}
	failf("array not found")
	return ""
}

// ---- the C CRC routine in store/crc32.go's cgo preamble ----

var reTable = regexp.MustCompile(`(?s)static\s+const\s+uint32_t\s+crc32_table\s*\[\s*256\s*\]\s*=\s*\{(.*?)\}\s*;`)
var reLoop = regexp.MustCompile(`(?s)uint32_t\s+crc32_write\s*\(\s*uint32_t\s+crc\s*,\s*unsigned\s+char\s*\*\s*buf\s*,\s*int\s+len\s*\)\s*\{\s*unsigned\s+char\s*\*\s*end\s*;\s*for\s*\(\s*end\s*=\s*buf\s*\+\s*len\s*;\s*buf\s*<\s*end\s*;\s*\+\+buf\s*\)\s*crc\s*=\s*crc32_table\s*\[\s*\(\s*crc\s*\^\s*\*buf\s*\)\s*&\s*(0x[0-9a-fA-F]+|\d+)\s*\]\s*\^\s*\(\s*crc\s*>>\s*(\d+)\s*\)\s*;\s*return\s+crc\s*;\s*\}`)

func crcUnit(path string) string {
	srcb, err := os.ReadFile(path)
	if err != nil {
		failf("%v", err)
	}
	src := string(srcb)
	m := reTable.FindStringSubmatch(src)
	if m == nil {
		failf("crc32_table not found in the expected shape")
	}
	var vals []string
	for _, tok := range strings.Split(m[1], ",") {
		tok = strings.TrimSpace(tok)
		if tok == "" {
			continue
		}
		v := new(big.Int)
		if _, ok := v.SetString(tok, 0); !ok {
			failf("crc32_table entry %q", tok)
		}
		vals = append(vals, "0x"+fmt.Sprintf("%08x", v.Uint64()))
	}
	if len(vals) != 256 {
		failf("crc32_table has %d entries", len(vals))
	}
	l := reLoop.FindStringSubmatch(src)
	if l == nil {
		failf("crc32_write loop not in the expected shape")
	}
	mask := new(big.Int)
	mask.SetString(l[1], 0)
	var out bytes.Buffer
	out.WriteString("/-- regenerated from the cgo preamble of store/crc32.go -/\ndef crc32_table : Array UInt32 := #[\n")
	for i := 0; i < 256; i += 8 {
		out.WriteString("  " + strings.Join(vals[i:i+8], ", "))
		if i+8 < 256 {
			out.WriteString(",")
		}
		out.WriteString("\n")
	}
	out.WriteString("]\n\n")
	fmt.Fprintf(&out, "/-- one step of the C loop `crc = crc32_table[(crc ^ *buf) & %s] ^ (crc >> %s)` -/\n", l[1], l[2])
	fmt.Fprintf(&out, "def crc32_step (crc : UInt32) (b : UInt8) : UInt32 :=\n  crc32_table[((crc ^^^ b.toUInt32) &&& %s).toNat]! ^^^ (Go.shr32 crc %s)\n\n", mask.String(), l[2])
	out.WriteString("/-- `crc32_write(crc, buf, len)` -/\ndef crc32_write (crc : UInt32) (buf : Bytes) : UInt32 := buf.foldl crc32_step crc\n")
	return out.String()
}

var repoRoot string

func translate(repo, specPath, outDir string) (failed map[string]string) {
	repoRoot = repo
	failed = map[string]string{}
	sb, err := os.ReadFile(specPath)
	if err != nil {
		fmt.Fprintln(os.Stderr, err)
		os.Exit(2)
	}
	var spec Spec
	if err := json.Unmarshal(sb, &spec); err != nil {
		fmt.Fprintln(os.Stderr, "spec:", err)
		os.Exit(2)
	}
	fset := token.NewFileSet()
	files := map[string]*ast.File{}
	get := func(rel string) *ast.File {
		if f, ok := files[rel]; ok {
			return f
		}
		f, err := parser.ParseFile(fset, filepath.Join(repo, rel), nil, parser.ParseComments)
		if err != nil {
			failf("parse %s: %v", rel, err)
		}
		files[rel] = f
		return f
	}
	sigs := map[string]fnSig{}
	consts := map[string]string{}
	mods := map[string]*bytes.Buffer{}
	var order []string
	for i := range spec.Units {
		u := &spec.Units[i]
		mod := u.Module
		if mod == "" {
			mod = "Kernels"
		}
		if _, ok := mods[mod]; !ok {
			mods[mod] = &bytes.Buffer{}
			order = append(order, mod)
		}
		func() {
			defer func() {
				if r := recover(); r != nil {
					if tf, ok := r.(tfail); ok {
						name := u.Func
						if name == "" {
							name = strings.Join(u.Names, ",")
						}
						failed[u.Kind+":"+u.File+":"+name] = tf.msg
						return
					}
					panic(r)
				}
			}()
			switch u.Kind {
			case "const":
				mods[mod].WriteString(constUnit(fset, get(u.File), u, consts))
			case "intarray":
				mods[mod].WriteString(intArrayUnit(fset, get(u.File), u))
				consts[u.Func] = "[]int"
			case "crc":
				mods[mod].WriteString(crcUnit(filepath.Join(repo, u.File)))
				sigs["crc32_write"] = fnSig{"crc32_write", []string{"uint32", "[]byte"}, []string{"uint32"}}
			case "func":
				t := &tr{fset: fset, u: u, sigs: sigs, consts: consts}
				mods[mod].WriteString(t.function(get(u.File)))
			default:
				failf("unit kind %s", u.Kind)
			}
			mods[mod].WriteString("\n")
		}()
	}
	os.MkdirAll(outDir, 0o755)
	sort.Strings(order)
	for _, mod := range order {
		var b bytes.Buffer
		b.WriteString("-- GENERATED by tools/go2lean from /repo on every run. Do not edit, do not commit.\nimport GoBeans.GoSem\n")
		if mod != "Consts" {
			b.WriteString("import GoBeans.Gen.Consts\nimport GoBeans.Spec.Hash\n")
		}
		b.WriteString("set_option linter.unusedVariables false\nnamespace Gen\n\n")
		b.Write(mods[mod].Bytes())
		b.WriteString("end Gen\n")
		p := filepath.Join(outDir, mod+".lean")
		old, _ := os.ReadFile(p)
		if !bytes.Equal(old, b.Bytes()) {
			if err := os.WriteFile(p, b.Bytes(), 0o644); err != nil {
				fmt.Fprintln(os.Stderr, err)
				os.Exit(2)
			}
		}
	}
	return failed
}
