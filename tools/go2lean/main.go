package main

// go2lean — the two source-level ties between /repo and the Lean model:
//   go2lean translate -repo /repo -spec spec.json -out lean/GoBeans/Gen -report r.json
//   go2lean facts     -repo /repo -expect expect.json -report r.json
// Exit status 0 = everything translated / every expected fact holds; 1 = some unit
// failed (report lists which); 2 = usage / IO error.

import (
	"bytes"
	"encoding/json"
	"flag"
	"fmt"
	"go/ast"
	"go/parser"
	"go/printer"
	"go/token"
	"os"
	"path/filepath"
	"sort"
	"strings"
)

type FactExpect struct {
	Name     string   `json:"name"`     // fact id, e.g. "set.order"
	File     string   `json:"file"`     // relative to repo
	Func     string   `json:"func"`     // function name
	Recv     string   `json:"recv"`     // receiver type ("" for plain funcs)
	Sequence []string `json:"sequence"` // must appear as a subsequence of the event list
	Absent   []string `json:"absent"`   // must not appear at all
	Props    []string `json:"props"`    // properties that rely on the fact
	Why      string   `json:"why"`
}

// events of a function body in source order: printed callee of every call,
// prefixed with "defer " / "go " where applicable; "if <cond>" markers are not
// recorded — only call order, which is what the model's atomic steps assume.
func events(fset *token.FileSet, fd *ast.FuncDecl) []string {
	var evs []string
	src := func(n ast.Node) string {
		var b bytes.Buffer
		printer.Fprint(&b, fset, n)
		return b.String()
	}
	var walk func(n ast.Node, prefix string)
	walk = func(n ast.Node, prefix string) {
		ast.Inspect(n, func(n ast.Node) bool {
			switch x := n.(type) {
			case *ast.DeferStmt:
				if fl, ok := x.Call.Fun.(*ast.FuncLit); ok {
					evs = append(evs, "defer func{")
					walk(fl.Body, "")
					evs = append(evs, "}")
				} else {
					for _, a := range x.Call.Args {
						walk(a, "")
					}
					evs = append(evs, "defer "+src(x.Call.Fun))
				}
				return false
			case *ast.GoStmt:
				if fl, ok := x.Call.Fun.(*ast.FuncLit); ok {
					evs = append(evs, "go func{")
					walk(fl.Body, "")
					evs = append(evs, "}")
				} else {
					evs = append(evs, "go "+src(x.Call.Fun))
				}
				return false
			case *ast.CallExpr:
				// arguments are evaluated before the call
				if fl, ok := x.Fun.(*ast.FuncLit); ok {
					walk(fl.Body, "")
				} else {
					walk(x.Fun, "")
				}
				for _, a := range x.Args {
					walk(a, "")
				}
				if _, ok := x.Fun.(*ast.FuncLit); !ok {
					evs = append(evs, src(x.Fun))
				}
				return false
			case *ast.AssignStmt:
				// get-then-set shape etc.: record plain assignments to selector fields
				for _, r := range x.Rhs {
					walk(r, "")
				}
				for _, l := range x.Lhs {
					if se, ok := l.(*ast.SelectorExpr); ok {
						evs = append(evs, "assign "+src(se))
					}
					if ie, ok := l.(*ast.IndexExpr); ok {
						walk(ie, "")
					}
				}
				return false
			}
			return true
		})
	}
	walk(fd.Body, "")
	return evs
}

func subseq(seq, evs []string) (bool, string) {
	i := 0
	for _, e := range evs {
		if i < len(seq) && e == seq[i] {
			i++
		}
	}
	if i < len(seq) {
		return false, seq[i]
	}
	return true, ""
}

func facts(repo, expectPath, reportPath string) int {
	eb, err := os.ReadFile(expectPath)
	if err != nil {
		fmt.Fprintln(os.Stderr, err)
		return 2
	}
	var exps []FactExpect
	if err := json.Unmarshal(eb, &exps); err != nil {
		fmt.Fprintln(os.Stderr, "expect:", err)
		return 2
	}
	fset := token.NewFileSet()
	files := map[string]*ast.File{}
	type res struct {
		Name   string   `json:"name"`
		OK     bool     `json:"ok"`
		Detail string   `json:"detail,omitempty"`
		Props  []string `json:"props"`
		Events []string `json:"events,omitempty"`
	}
	var out []res
	bad := 0
	for _, e := range exps {
		f, ok := files[e.File]
		if !ok {
			f, err = parser.ParseFile(fset, filepath.Join(repo, e.File), nil, 0)
			if err != nil {
				out = append(out, res{e.Name, false, "parse: " + err.Error(), e.Props, nil})
				bad++
				continue
			}
			files[e.File] = f
		}
		fd := findFunc(f, e.Func, e.Recv)
		if fd == nil {
			out = append(out, res{e.Name, false, "function not found", e.Props, nil})
			bad++
			continue
		}
		evs := events(fset, fd)
		r := res{Name: e.Name, OK: true, Props: e.Props}
		if ok, missing := subseq(e.Sequence, evs); !ok {
			r.OK = false
			r.Detail = "expected call order not found; first unmatched: " + missing
		}
		for _, a := range e.Absent {
			for _, ev := range evs {
				if ev == a || strings.Contains(ev, a) {
					r.OK = false
					r.Detail += " unexpected: " + ev
				}
			}
		}
		if !r.OK {
			r.Events = evs
			bad++
		}
		out = append(out, r)
	}
	sort.Slice(out, func(i, j int) bool { return out[i].Name < out[j].Name })
	b, _ := json.MarshalIndent(out, "", " ")
	if reportPath != "" {
		os.WriteFile(reportPath, b, 0o644)
	} else {
		os.Stdout.Write(b)
	}
	if bad > 0 {
		return 1
	}
	return 0
}

func main() {
	if len(os.Args) < 2 {
		fmt.Fprintln(os.Stderr, "usage: go2lean translate|facts|events ...")
		os.Exit(2)
	}
	switch os.Args[1] {
	case "translate":
		fs := flag.NewFlagSet("translate", flag.ExitOnError)
		repo := fs.String("repo", "/repo", "")
		spec := fs.String("spec", "", "")
		out := fs.String("out", "", "")
		report := fs.String("report", "", "")
		fs.Parse(os.Args[2:])
		failed := translate(*repo, *spec, *out)
		b, _ := json.MarshalIndent(failed, "", " ")
		if *report != "" {
			os.WriteFile(*report, b, 0o644)
		}
		if len(failed) > 0 {
			os.Stderr.Write(b)
			os.Exit(1)
		}
	case "facts":
		fs := flag.NewFlagSet("facts", flag.ExitOnError)
		repo := fs.String("repo", "/repo", "")
		exp := fs.String("expect", "", "")
		report := fs.String("report", "", "")
		fs.Parse(os.Args[2:])
		os.Exit(facts(*repo, *exp, *report))
	case "events": // debugging aid: print the event list of one function
		fs := flag.NewFlagSet("events", flag.ExitOnError)
		repo := fs.String("repo", "/repo", "")
		file := fs.String("file", "", "")
		fn := fs.String("func", "", "")
		recv := fs.String("recv", "", "")
		fs.Parse(os.Args[2:])
		fset := token.NewFileSet()
		f, err := parser.ParseFile(fset, filepath.Join(*repo, *file), nil, 0)
		if err != nil {
			fmt.Fprintln(os.Stderr, err)
			os.Exit(2)
		}
		fd := findFunc(f, *fn, *recv)
		if fd == nil {
			fmt.Fprintln(os.Stderr, "not found")
			os.Exit(2)
		}
		for _, e := range events(fset, fd) {
			fmt.Println(e)
		}
	default:
		os.Exit(2)
	}
}
