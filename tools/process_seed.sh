#!/bin/bash
# process_seed.sh <prop> [skipconfirm] : confirm the sub-agent's changes A and B in its worktree, then run the property's quick check against each
P=$1
for X in A B; do
  D=/tmp/wt/$P/out/$X
  [ -f $D/patch.diff ] || { echo "$P-$X: no patch" >> /tmp/seedres_$P.txt; continue; }
  if [ "$2" != "skipconfirm" ]; then (cd /tmp && /verif/tools/confirm_seed.sh /tmp/wt/$P $D > /dev/null 2>&1); fi
  C=$(cat $D/confirm.txt 2>/dev/null)
  echo "$P-$X confirm: $C" >> /tmp/seedres_$P.txt
  case "$C" in
    "demo_clean_rc=0 build_rc=0 demo_patched_rc=1 suite_store_rc=0 suite_rest_rc=0") ;;
    *) echo "$P-$X: NOT CONFIRMED" >> /tmp/seedres_$P.txt; continue;;
  esac
  /verif/tools/run_seed_check.sh $P $D/patch.diff quick > /tmp/seedres_${P}_$X.chk 2>&1
  cp /tmp/seedcheck_$P.log /tmp/seedcheck_${P}_$X.log
  echo "$P-$X check: $(cat /tmp/seedres_${P}_$X.chk | tr '\n' ' ')" >> /tmp/seedres_$P.txt
done
echo "$P done" >> /tmp/seedres_$P.txt
