"""Shared machinery of ./check and ./setup (see DESIGN.md §2.4–2.8)."""
import sys, os, json, subprocess, time, hashlib, re, shutil, fcntl, glob, contextlib

VERIF = os.path.dirname(os.path.dirname(os.path.abspath(__file__)))
REPO = os.environ.get("VERIF_REPO", "/repo")
CACHE = os.path.join(VERIF, ".cache")
LEAN = os.path.join(VERIF, "lean")
GEN = os.path.join(LEAN, "GoBeans", "Gen")
GEN_SNAPSHOT = os.path.join(VERIF, "tools", "expect", "Gen")
NCPU = min(16, os.cpu_count() or 4)

GOENV = dict(os.environ, GOFLAGS="-mod=mod", GOPROXY="off", GOSUMDB="off", GOTOOLCHAIN="local", CGO_ENABLED="1")
GOENV.setdefault("GOCACHE", os.path.join(CACHE, "gocache"))

ALLOWED_AXIOMS = {"propext", "Classical.choice", "Quot.sound"}
FORBIDDEN = re.compile(r"\b(sorry|admit|native_decide|bv_decide|implemented_by|unsafe)\b|^\s*axiom\s|maxHeartbeats\s+0\b")


class MachineryError(Exception):
    pass


def sh(cmd, cwd=None, env=None, timeout=None, stdin=None, capture=True):
    p = subprocess.run(cmd, cwd=cwd, env=env, timeout=timeout, stdin=stdin,
                       stdout=subprocess.PIPE if capture else None,
                       stderr=subprocess.STDOUT if capture else None, text=True, errors="replace")
    return p.returncode, (p.stdout or "")


def sha(paths):
    h = hashlib.sha256()
    for p in sorted(paths):
        h.update(p.encode())
        with open(p, "rb") as f:
            h.update(f.read())
    return h.hexdigest()[:16]


@contextlib.contextmanager
def flock(name):
    os.makedirs(CACHE, exist_ok=True)
    f = open(os.path.join(CACHE, name), "w")
    fcntl.flock(f, fcntl.LOCK_EX)
    try:
        yield
    finally:
        fcntl.flock(f, fcntl.LOCK_UN)
        f.close()


# ---------------------------------------------------------------------------
# per-property configuration
# ---------------------------------------------------------------------------
# units : go2lean units (by Go function / constant name) whose translation the property's
#         theorems depend on -- a failed translation of one of them is a broken tie A.
# facts : names in tools/expect/facts.json the property's model granularity relies on (tie B).
# engines: (engine, cases quick, cases thorough, shards)
PROPS = {}


def load_props():
    global PROPS
    with open(os.path.join(VERIF, "lib", "props.json")) as f:
        PROPS = json.load(f)
    return PROPS


def theorem_names(path):
    """names of `theorem X` declarations in a Lean file, with their line numbers"""
    out = []
    if not os.path.exists(path):
        return out
    with open(path) as f:
        for i, l in enumerate(f, 1):
            m = re.match(r"\s*(?:private\s+|protected\s+)?theorem\s+([A-Za-z0-9_.'!?]+)", l)
            if m:
                out.append((m.group(1), i))
    return out


def lean_imports(path):
    deps = []
    with open(path) as f:
        for l in f:
            m = re.match(r"\s*import\s+([A-Za-z0-9_.]+)", l)
            if m:
                deps.append(m.group(1))
    return deps


def module_path(mod):
    return os.path.join(LEAN, *mod.split(".")) + ".lean"


def transitive_modules(root):
    seen, todo = [], [root]
    while todo:
        m = todo.pop()
        if m in seen or not m.startswith("GoBeans"):
            continue
        p = module_path(m)
        if not os.path.exists(p):
            continue
        seen.append(m)
        todo.extend(lean_imports(p))
    return seen


def strip_lean_comments(src):
    # remove /- ... -/ (nested not handled beyond depth 1 reliably, good enough) and -- comments
    out, i, depth = [], 0, 0
    while i < len(src):
        if src.startswith("/-", i):
            depth += 1
            i += 2
        elif src.startswith("-/", i) and depth > 0:
            depth -= 1
            i += 2
        elif depth > 0:
            if src[i] == "\n":
                out.append("\n")
            i += 1
        elif src.startswith("--", i):
            while i < len(src) and src[i] != "\n":
                i += 1
        else:
            out.append(src[i])
            i += 1
    return "".join(out)


class Run:
    def __init__(self, prop, tier, seed, replay, keep=False):
        load_props()
        if prop not in PROPS:
            raise SystemExit("unknown property %s (have: %s)" % (prop, " ".join(sorted(PROPS))))
        self.prop, self.tier, self.seed, self.replay, self.keep = prop, tier, seed, replay, keep
        self.cfg = PROPS[prop]
        self.t0 = time.time()
        base = os.environ.get("VERIF_SCRATCH") or os.path.join(os.environ.get("TMPDIR", "/tmp"), "verif-scratch-%d" % os.getpid())
        self.scratch = base
        os.makedirs(self.scratch, exist_ok=True)
        self.broken = []      # broken ties / proof obligations: dicts {kind, name, detail}
        self.diffs = []       # oracle/model diffs from the driver
        self.known_hits = {}  # finding key -> count
        self.notes = []
        self.cov = {"evaluations": 0, "distinct_nontrivial": 0, "samples": [], "engines": {}, "input_distribution": {}}
        self.obligations = 0
        self.discharged = 0
        self.axioms = {}
        self.violations = 0

    # ------------------------------------------------------------------ build
    def cleanup(self):
        if not self.keep:
            shutil.rmtree(self.scratch, ignore_errors=True)

    def build_go2lean(self):
        src = glob.glob(os.path.join(VERIF, "tools", "go2lean", "*.go")) + [os.path.join(VERIF, "tools", "go2lean", "go.mod")]
        tag = sha(src)
        out = os.path.join(CACHE, "go2lean-" + tag)
        if not os.path.exists(out):
            for old in glob.glob(os.path.join(CACHE, "go2lean-*")):
                os.remove(old)
            rc, o = sh(["go", "build", "-o", out, "."], cwd=os.path.join(VERIF, "tools", "go2lean"), env=GOENV)
            if rc != 0:
                raise MachineryError("go2lean does not build:\n" + o)
        return out

    def translate(self, g2l):
        """tie A: regenerate Gen from /repo; returns dict unit->message of failed units"""
        rep = os.path.join(self.scratch, "translate.json")
        os.makedirs(GEN, exist_ok=True)
        rc, o = sh([g2l, "translate", "-repo", REPO, "-spec", os.path.join(VERIF, "tools", "go2lean", "spec.json"),
                    "-out", GEN, "-report", rep])
        if rc not in (0, 1):
            raise MachineryError("go2lean translate failed:\n" + o)
        failed = json.load(open(rep)) if os.path.exists(rep) else {}
        return failed

    def facts(self, g2l):
        rep = os.path.join(self.scratch, "facts.json")
        rc, o = sh([g2l, "facts", "-repo", REPO, "-expect", os.path.join(VERIF, "tools", "expect", "facts.json"), "-report", rep])
        if rc not in (0, 1):
            raise MachineryError("go2lean facts failed:\n" + o)
        return json.load(open(rep)) if os.path.exists(rep) else []

    def lake(self, targets):
        rc, o = sh(["lake", "build"] + targets, cwd=LEAN, timeout=3600)
        return rc, o

    def restore_gen_snapshot(self):
        for p in glob.glob(os.path.join(GEN_SNAPSHOT, "*.lean")):
            dst = os.path.join(GEN, os.path.basename(p))
            with open(p, "rb") as f:
                data = f.read()
            old = open(dst, "rb").read() if os.path.exists(dst) else None
            if old != data:
                with open(dst, "wb") as f:
                    f.write(data)

    def gen_diff_summary(self):
        """which regenerated definitions differ from the committed snapshot (informational)"""
        changed = []
        for p in glob.glob(os.path.join(GEN_SNAPSHOT, "*.lean")):
            cur = os.path.join(GEN, os.path.basename(p))
            if not os.path.exists(cur):
                changed.append(os.path.basename(p) + ":missing")
                continue
            a, b = open(p).read(), open(cur).read()
            if a != b:
                da = dict(re.findall(r"def (\S+)(.*?)(?=\n/--|\nend Gen|\Z)", a, re.S))
                db = dict(re.findall(r"def (\S+)(.*?)(?=\n/--|\nend Gen|\Z)", b, re.S))
                for k in sorted(set(da) | set(db)):
                    if da.get(k) != db.get(k):
                        changed.append(k)
        return changed

    def parse_lean_errors(self, out):
        """map `error: path:line:col` to (module file, enclosing theorem)"""
        errs = []
        for m in re.finditer(r"error: ([^\s:]+\.lean):(\d+):(\d+): (.*)", out):
            path, line, msg = m.group(1), int(m.group(2)), m.group(4)
            full = path if os.path.isabs(path) else os.path.join(LEAN, path)
            decl = None
            for name, ln in theorem_names(full):
                if ln <= line:
                    decl = name
            errs.append({"file": os.path.relpath(full, LEAN), "line": line, "decl": decl, "msg": msg[:200]})
        return errs

    def audit(self, mods):
        """forbidden tokens in every module the property depends on + #print axioms"""
        for m in mods + ["Driver.Main"]:
            p = module_path(m) if m.startswith("GoBeans") else os.path.join(LEAN, *m.split(".")) + ".lean"
            if not os.path.exists(p):
                continue
            body = strip_lean_comments(open(p).read())
            for i, l in enumerate(body.split("\n"), 1):
                if FORBIDDEN.search(l):
                    raise MachineryError("forbidden token in %s:%d: %s" % (p, i, l.strip()[:120]))
        props_file = module_path(self.cfg["lean_target"])
        names = [n for n, _ in theorem_names(props_file)]
        if not names:
            raise MachineryError("no theorems in " + props_file)
        tmp = os.path.join(self.scratch, "Audit.lean")
        with open(tmp, "w") as f:
            f.write("import %s\n" % self.cfg["lean_target"])
            for n in names:
                f.write("#print axioms %s\n" % n)
        rc, o = sh(["lake", "env", "lean", tmp], cwd=LEAN, timeout=1200)
        if rc != 0:
            raise MachineryError("axiom audit failed:\n" + o[-2000:])
        axioms = {}
        for m in re.finditer(r"'([^']+)' depends on axioms: \[([^\]]*)\]", o):
            axioms[m.group(1)] = [x.strip() for x in m.group(2).replace("\n", " ").split(",") if x.strip()]
        for m in re.finditer(r"'([^']+)' does not depend on any axioms", o):
            axioms[m.group(1)] = []
        for n in names:
            if n not in axioms:
                raise MachineryError("no axiom report for " + n)
            extra = set(axioms[n]) - ALLOWED_AXIOMS
            if extra:
                raise MachineryError("theorem %s depends on disallowed axioms %s" % (n, sorted(extra)))
        self.axioms = axioms
        return names

    def build_harness(self):
        out = os.path.join(CACHE, "hx")
        hdir = os.path.join(VERIF, "harness")
        # go.sum must match /repo's
        try:
            shutil.copyfile(os.path.join(REPO, "go.sum"), os.path.join(hdir, "go.sum"))
        except OSError:
            pass
        gomod = open(os.path.join(hdir, "go.mod")).read()
        want = "replace github.com/douban/gobeansdb => " + REPO
        if want not in gomod:
            gomod = re.sub(r"replace github.com/douban/gobeansdb => \S+", want, gomod)
            open(os.path.join(hdir, "go.mod"), "w").write(gomod)
        rc, o = sh(["go", "build", "-tags", "verif", "-o", out, "./cmd/hx"], cwd=hdir, env=GOENV, timeout=1800)
        if rc != 0:
            return None, o
        return out, o

    def prepare(self):
        """steps 1-4 + harness build, under the cache lock (checks may run concurrently)"""
        with flock("lock"):
            g2l = self.build_go2lean()
            failed = self.translate(g2l)
            units = set(self.cfg.get("units", []))
            for k, msg in failed.items():
                name = k.split(":")[-1]
                if name in units or any(n in units for n in name.split(",")):
                    self.broken.append({"kind": "translate", "name": "translate:" + name, "detail": msg})
                else:
                    self.notes.append("translation of %s failed (not used by %s): %s" % (k, self.prop, msg))
            gen_changed = self.gen_diff_summary()
            if gen_changed:
                self.notes.append("regenerated definitions differ from the committed snapshot: " + ", ".join(gen_changed[:20]))
            facts = self.facts(g2l)
            need = set(self.cfg.get("facts", []))
            for f in facts:
                if f["name"] in need and not f["ok"]:
                    self.broken.append({"kind": "fact", "name": "fact:" + f["name"], "detail": f.get("detail", "")})
            # driver first (it is needed for the search whatever happens to the proofs)
            rc, o = self.lake(["driver"])
            self.gen_fallback = False
            if rc != 0:
                errs = self.parse_lean_errors(o)
                if any("Gen/" in e["file"] for e in errs) or failed:
                    # the regenerated code does not compile: broken tie; search with the last good Gen
                    for e in errs:
                        if "Gen/" in e["file"]:
                            self.broken.append({"kind": "translate", "name": "translate:compile:%s:%d" % (e["file"], e["line"]), "detail": e["msg"]})
                    self.restore_gen_snapshot()
                    self.gen_fallback = True
                    rc, o = self.lake(["driver"])
                if rc != 0:
                    raise MachineryError("driver does not build:\n" + o[-3000:])
            target = self.cfg["lean_target"]
            mods = transitive_modules(target)
            self.obligations = sum(len(theorem_names(module_path(m))) for m in mods if ".Props." in m or ".Lemmas." in m or ".Model." in m or ".Spec." in m)
            rc, o = self.lake([target])
            if rc != 0:
                errs = self.parse_lean_errors(o)
                if not errs:
                    raise MachineryError("lake build %s failed without a located error:\n%s" % (target, o[-3000:]))
                bad_decls = set()
                for e in errs:
                    nm = e["decl"] or ("%s:%d" % (e["file"], e["line"]))
                    if nm not in bad_decls:
                        bad_decls.add(nm)
                        self.broken.append({"kind": "theorem", "name": "theorem:" + nm, "detail": "%s:%d %s" % (e["file"], e["line"], e["msg"])})
                self.discharged = max(0, self.obligations - len(bad_decls))
                self.proof_ok = False
            else:
                self.proof_ok = True
                self.discharged = self.obligations
                self.audit(mods)
            hx, o = self.build_harness()
            if hx is None:
                # hooks no longer apply to the edited source: the tie cannot be run
                self.broken.append({"kind": "harness", "name": "harness:build", "detail": o[-600:]})
            self.hx = hx
            self.driver = os.path.join(LEAN, ".lake", "build", "bin", "driver")
            # private copies so that a concurrent check's rebuild cannot swap them under us
            if hx:
                shutil.copy2(hx, os.path.join(self.scratch, "hx"))
                self.hx = os.path.join(self.scratch, "hx")
            shutil.copy2(self.driver, os.path.join(self.scratch, "driver"))
            self.driver = os.path.join(self.scratch, "driver")

    # ------------------------------------------------------------------ engines
    def run_engine(self, engine, ncases, shards, extra=None, replay=None, intensify=1):
        """run hx + driver in `shards` parallel processes; collect DIFF lines"""
        if self.hx is None:
            return
        procs = []
        per = max(1, (ncases * intensify + shards - 1) // shards)
        self.runno = getattr(self, "runno", 0) + 1
        for s in range(shards):
            trace = os.path.join(self.scratch, "%s-r%d-%d.trace" % (engine, self.runno, s))
            work = os.path.join(self.scratch, "work-%s-%d" % (engine, s))
            os.makedirs(work, exist_ok=True)
            cmd = [self.hx, engine, "-seed", str(self.seed * 1000003 + self.cfg.get("seed_offset", 0) * 1009 + s), "-n", str(per), "-tier", self.tier, "-out", trace, "-work", work]
            if replay:
                cmd += ["-replay", replay]
            if extra:
                cmd += extra
            log = open(os.path.join(self.scratch, "%s-%d.log" % (engine, s)), "w")
            procs.append((subprocess.Popen(cmd, stdout=log, stderr=subprocess.STDOUT, env=dict(GOENV, GOMAXPROCS="2")), trace, work, log, s))
            if replay:
                break
        eng = self.cov["engines"].setdefault(engine, {"cases": 0, "checked": 0, "diffs": 0, "traces": 0})
        timeout = self.cfg.get("engine_timeout", {}).get(self.tier, 3000)
        for p, trace, work, log, s in procs:
            try:
                rc = p.wait(timeout=timeout)
            except subprocess.TimeoutExpired:
                p.kill()
                raise MachineryError("engine %s shard %d timed out" % (engine, s))
            log.close()
            shutil.rmtree(work, ignore_errors=True)
            if rc != 0:
                tail = open(log.name).read()[-1500:]
                died = rc < 0 or any(w in tail for w in ("SIGSEGV", "signal SIG", "fatal error:", "unexpected fault address", "[signal "))
                if not died:
                    # an uncaught Go panic whose innermost frame is the real code (not the harness): the server would have died too
                    full = open(log.name).read()
                    mp = re.search(r"^panic: .*?\n\ngoroutine \d+ \[running\]:\n(?:panic\(.*\n\s+.*\n)?(\S+)", full, re.M | re.S)
                    if mp and mp.group(1).startswith("github.com/douban/gobeansdb/"):
                        died = True
                        tail = full[full.index("panic: "):][:1500]
                if died:
                    # the process running the REAL code died (a crash inside C code, a Go runtime fatal error): that is a
                    # result about the code, not about the machinery.  Run the shard again with every trace line flushed,
                    # so that the replay holds what had been fed to the code when it died.
                    env2 = dict(GOENV, GOMAXPROCS="2", HX_SYNC="1")
                    subprocess.run(p.args, stdout=subprocess.DEVNULL, stderr=subprocess.DEVNULL, env=env2, timeout=timeout)
                    lines = open(trace, errors="replace").read().split("\n") if os.path.exists(trace) else []
                    body = replay and [l.rstrip("\n") for l in open(replay) if not l.startswith("#")] or [l for l in lines if l and not l.startswith("#")][-400:]
                    self.diffs.append({"engine": engine, "trace": trace, "line": len(lines), "kind": "oracle", "key": "%s/process-died" % self.prop,
                                       "case": None, "died": True, "body": body,
                                       "text": "DIFF kind=oracle key=%s/process-died the process running the real code died (exit %d): %s" % (self.prop, rc, tail[-300:].replace("\n", " ")),
                                       "input": (body[-1] if body else "")[:2000]})
                    procs = [q for q in procs if q[0] is not p]
                    continue
                raise MachineryError("engine %s shard %d exited %d:\n%s" % (engine, s, rc, tail))
        dprocs = []
        for p, trace, work, log, s in procs:
            out = trace + ".out"
            dprocs.append((subprocess.Popen([self.driver, engine], stdin=open(trace), stdout=open(out, "w"), stderr=subprocess.STDOUT), trace, out))
        for p, trace, out in dprocs:
            rc = p.wait(timeout=timeout)
            text = open(out).read()
            if rc != 0 or "SUMMARY" not in text:
                raise MachineryError("driver failed on %s (rc=%s):\n%s" % (trace, rc, text[-1500:]))
            self.collect(engine, trace, text, eng)

    def run_hintdiff(self, ncases, intensify=1):
        """engine hintdiff (C02): the real store writes hint split files, a random subset of them is removed, the store
        reopens; hint file contents and per-key tree items are compared with Model/HintIndex.lean (write path, kept
        prefix + rescan, the tree a start builds, and the replay of the data log).  The harness emits the cases as Lean
        data; the model is evaluated by `lake env lean`."""
        hdir = os.path.join(VERIF, "harness")
        binp = os.path.join(self.scratch, "hintdiff")
        rc, o = sh(["go", "build", "-tags", "verif", "-o", binp, "./cmd/hintdiff"], cwd=hdir, env=GOENV, timeout=1800)
        if rc != 0:
            raise MachineryError("hintdiff does not build:\n" + o[-2000:])
        n = ncases * intensify
        cases = os.path.join(self.scratch, "HintDiffCases.lean")
        rc, o = sh([binp, "-seed", str(self.seed * 1000003 + 77), "-n", str(n), "-out", cases], cwd=self.scratch, env=GOENV, timeout=1800)
        if rc != 0:
            raise MachineryError("hintdiff failed:\n" + o[-2000:])
        body = open(os.path.join(hdir, "cmd", "hintdiff", "HintDiffCheck.lean")).read()
        body = "\n".join(l for l in body.split("\n") if not l.startswith("import ") and not l.startswith("open Store HintIndex"))
        comb = os.path.join(self.scratch, "HintDiffCombined.lean")
        open(comb, "w").write(open(cases).read() + "\n" + body)
        rc, o = sh(["lake", "env", "lean", comb], cwd=LEAN, timeout=3000)
        m1 = re.search(r"(\d+) cases, (\d+) mismatching", o)
        m2 = re.search(r"(\d+) dump cases, (\d+) mismatching", o)
        if rc != 0 or not m1 or not m2:
            raise MachineryError("hintdiff: the model could not be evaluated:\n" + o[-2000:])
        eng = self.cov["engines"].setdefault("hintdiff", {"cases": 0, "checked": 0, "diffs": 0, "traces": 0})
        eng["traces"] += 1
        eng["cases"] += int(m1.group(1)) + int(m2.group(1))
        eng["checked"] += int(m1.group(1)) + int(m2.group(1))
        self.cov["evaluations"] += int(m1.group(1)) + int(m2.group(1))
        self.cov["input_distribution"]["hintdiff.cases.remove-subset-of-idx.s"] = int(m1.group(1))
        self.cov["input_distribution"]["hintdiff.cases.stale-tree-dump"] = int(m2.group(1))
        for l in o.split("\n"):
            if "MISMATCH" in l:
                eng["diffs"] += 1
                keep = os.path.join(VERIF, "replays", "%s-hintdiff-%d.lean" % (self.prop, self.seed))
                os.makedirs(os.path.dirname(keep), exist_ok=True)
                shutil.copyfile(comb, keep)
                self.diffs.append({"engine": "hintdiff", "trace": keep, "line": 0, "kind": "model", "key": None, "case": l.split(":")[0],
                                   "text": "DIFF kind=model hint files / tree of a start differ from Model/HintIndex: " + l[:300], "input": l[:300]})

    def run_collide(self, ncases, intensify=1):
        """engine collide (C13): random histories with forced key-hash collisions on the real store (harness/cmd/collide),
        replayed on the collision-path model Model/Collide.lean by harness/cmd/collide/CollideCheck.lean: every reply and
        position, after every operation the collision table, what the write path sees for every key, every *.idx.s file,
        after a GC pass range / statistics / data files.  The model reproduces every KNOWN deviation of the code from
        the reference map, so a difference between model and implementation is behaviour that is not known."""
        hdir = os.path.join(VERIF, "harness")
        binp = os.path.join(self.scratch, "collide")
        rc, o = sh(["go", "build", "-tags", "verif", "-o", binp, "./cmd/collide"], cwd=hdir, env=GOENV, timeout=1800)
        if rc != 0:
            self.broken.append({"kind": "harness", "name": "harness:build:collide", "detail": o[-400:]})
            return
        eng = self.cov["engines"].setdefault("collide", {"cases": 0, "checked": 0, "diffs": 0, "traces": 0})
        runs = [("corpus", None)] + [(m, i) for i, m in enumerate(["full", "restart", "nomerge", "safe", "gcmate"])]
        for mix, i in runs:
            trace = os.path.join(self.scratch, "collide-%s.trace" % mix)
            if mix == "corpus":
                body = []
                for cp in sorted(glob.glob(os.path.join(VERIF, "corpus", self.prop, "collide-*.txt"))):
                    body += [l.rstrip("\n") for l in open(cp)]
                if not body:
                    continue
                src = os.path.join(self.scratch, "collide-corpus.txt")
                open(src, "w").write("\n".join(body) + "\n")
                cmd = [binp, "-replay", src, "-out", trace]
            else:
                n = max(2, ncases * intensify // 4)
                cmd = [binp, "-seed", str(self.seed * 1000003 + 131 + i), "-n", str(n), "-ops", "70" if self.tier == "quick" else "120", "-mix", mix, "-out", trace]
            rc, o = sh(cmd, cwd=self.scratch, env=dict(GOENV, GOMAXPROCS="2"), timeout=3000)
            if rc != 0 or not os.path.exists(trace):
                raise MachineryError("collide harness failed (%s):\n%s" % (mix, o[-1500:]))
            rc, o = sh(["lake", "env", "lean", "--run", os.path.join(hdir, "cmd", "collide", "CollideCheck.lean"), trace], cwd=LEAN, timeout=3000)
            m = re.search(r"cases=(\d+) cases-with-diff=(\d+) operations-replayed=(\d+) on-colliding-keys=(\d+) comparisons-ok=(\d+) diffs=(\d+) open-race-cases=(\d+) \| client ops inside SafeR prefixes: (\d+), deviating from the reference there: (\d+) \| model replies deviating from the reference map: (\d+)", o)
            if not m:
                raise MachineryError("collide: the model could not be evaluated (%s):\n%s" % (mix, o[-1500:]))
            eng["traces"] += 1
            eng["cases"] += int(m.group(1))
            eng["checked"] += int(m.group(5))
            self.cov["evaluations"] += int(m.group(5))
            d = self.cov["input_distribution"]
            for k, g in (("operations", 3), ("operations-on-colliding-keys", 4), ("open-race-cases-skipped", 7), ("client-ops-inside-SafeR", 8), ("model-predicted-deviations-from-reference", 10)):
                d["collide.%s.%s" % (mix, k)] = int(m.group(g))
            lines = open(trace, errors="replace").read().split("\n")
            for dm in re.finditer(r"DIFF case=(\S+) line=(\d+) kind=(\S+)\n\s+model: (.*)\n\s+real : (.*)", o):
                eng["diffs"] += 1
                self.diffs.append({"engine": "collide", "trace": trace, "line": int(dm.group(2)), "kind": "model", "key": None, "case": dm.group(1),
                                   "text": "DIFF kind=model case=%s the real store differs from the collision-path model at %s: model=%s real=%s" % (dm.group(1), dm.group(3), dm.group(4)[:120], dm.group(5)[:120]),
                                   "input": lines[int(dm.group(2)) - 1][:2000] if 0 < int(dm.group(2)) <= len(lines) else ""})
            if int(m.group(9)) > 0:
                # the theorem C13_safe_with_restarts says: inside the class SafeR the MODEL answers like the reference map
                self.diffs.append({"engine": "collide", "trace": trace, "line": 1, "kind": "model", "key": None, "case": None,
                                   "text": "DIFF kind=model the model deviates from the reference map inside SafeR prefixes (%s operations): the theorem C13_safe_with_restarts does not describe this model" % m.group(9), "input": ""})

    def collect(self, engine, trace, text, eng):
        lines = open(trace, errors="replace").read().split("\n")
        eng["traces"] += 1
        m = re.search(r"SUMMARY lines=(\d+) checked=(\d+) diffs=(\d+)(?: cases=(\d+))?(?: nontrivial=(\d+))?", text)
        checked = int(m.group(2))
        eng["checked"] += checked
        self.cov["evaluations"] += checked
        seen = self.cov.setdefault("_distinct", set())
        for l in lines:
            if l.startswith("#stat "):
                _, k, v = l.split(" ", 2)
                d = self.cov["input_distribution"]
                d[engine + "." + k] = d.get(engine + "." + k, 0) + int(v)
            elif l.startswith("#nontrivial "):
                seen.add(l)
            elif l and not l.startswith("#"):
                lhs = l.split(" => ")[0]
                pref = self.cfg.get("distinct_prefixes")
                if pref is not None:
                    if any(lhs.startswith(p) for p in pref) and lhs not in ("variant clean",):
                        seen.add(hashlib.sha1(lhs.encode()).digest()[:8])
                elif self.nontrivial_line(lhs):
                    seen.add(hashlib.sha1(lhs.encode()).digest()[:8])
        if len(self.cov["samples"]) < 4:
            for l in lines:
                if l and not l.startswith("#"):
                    self.cov["samples"].append(l[:300])
                    if len(self.cov["samples"]) >= 4:
                        break
        for dl in text.split("\n"):
            if dl.startswith("DIFF "):
                eng["diffs"] += 1
                d = dict(re.findall(r"(\w+)=(\S+)", dl.split(" ", 1)[1].split(" ", 3)[0] + " " + " ".join(dl.split(" ")[2:4])))
                ln = int(re.search(r"line=(\d+)", dl).group(1))
                kind = re.search(r"kind=(\w+)", dl).group(1)
                key = re.search(r"key=(\S+)", dl)
                case = re.search(r"case=(\S+)", dl)
                self.diffs.append({"engine": engine, "trace": trace, "line": ln, "kind": kind, "key": key.group(1) if key else None,
                                   "case": case.group(1) if case else None,
                                   "text": dl[:400], "input": lines[ln - 1][:2000] if 0 < ln <= len(lines) else ""})

    def nontrivial_line(self, lhs):
        ws = lhs.split(" ")
        return len(ws) >= 2 and any(w != "-" for w in ws[1:])

    # ------------------------------------------------------------------ verdict
    def load_known(self):
        known = []
        p = os.path.join(VERIF, "known_findings.txt")
        if os.path.exists(p):
            for l in open(p):
                l = l.strip()
                m = re.match(r"(known|fixed): property=(\S+)\s+(.*?)\s*::\s*(.*)", l)
                if not m:
                    continue
                status, prop, mid, what = m.groups()
                key = re.search(r"key=(\S+)", mid)
                wit = re.search(r"witness=(\S+)", mid)
                known.append({"status": status, "property": prop, "key": key.group(1) if key else None,
                              "witness": wit.group(1) if wit else None, "what": what})
        self.other_known = {k["key"] for k in known if k.get("property") != self.prop and k.get("status") == "known" and k.get("key")}
        return [k for k in known if k.get("property") == self.prop]

    def write_replay(self, tag, header, body_lines):
        os.makedirs(os.path.join(VERIF, "replays"), exist_ok=True)
        h = hashlib.sha1(("\n".join(header + body_lines)).encode()).hexdigest()[:10]
        path = os.path.join(VERIF, "replays", "%s-%s-%s.txt" % (self.prop, tag, h))
        with open(path, "w") as f:
            for l in header:
                f.write("#" + l + "\n")
            for l in body_lines:
                f.write(l + "\n")
        return path

    def case_lines(self, d):
        """the trace lines of the failing case (stateful engines mark cases with `case <id>` ... `end`)"""
        if d.get("died"):
            # the last case of what had been fed to the code when the process died
            body = d.get("body") or []
            start = max([i for i, l in enumerate(body) if l.startswith("case ")] or [0])
            return body[start:]
        lines = open(d["trace"], errors="replace").read().split("\n")
        ln = d["line"] - 1
        start = ln
        while start > 0 and not lines[start].startswith("case "):
            start -= 1
        if not lines[start].startswith("case "):
            return [lines[ln]]
        end = ln
        while end < len(lines) - 1 and lines[end] != "end":
            end += 1
        return lines[start:end + 1]

    def verdict(self):
        known = self.load_known()
        known_keys = {k["key"]: k for k in known if k.get("status") == "known"}
        # findings listed for OTHER properties (their own checks report them) are not this property's business
        self.diffs = [d for d in self.diffs if not (d["kind"] == "oracle" and d["key"] in self.other_known)]
        oracle = [d for d in self.diffs if d["kind"] == "oracle"]
        model = [d for d in self.diffs if d["kind"] != "oracle"]
        new_oracle = [d for d in oracle if not (d["key"] and d["key"] in known_keys)]
        for d in oracle:
            if d["key"] and d["key"] in known_keys:
                self.known_hits[d["key"]] = self.known_hits.get(d["key"], 0) + 1
        lines_out = []
        rc = 0
        for k, n in sorted(self.known_hits.items()):
            lines_out.append("KNOWN-FINDING: property=%s %s -- %s (%d occurrence(s) this run)" % (self.prop, k, known_keys[k].get("what", ""), n))
        if new_oracle:
            d = new_oracle[0]
            body = self.case_lines(d)
            path = self.write_replay("input", ["engine " + d["engine"], "oracle-failure " + d["text"][:300], "seed %d tier %s" % (self.seed, self.tier)], body)
            lines_out.append("VIOLATION property=%s replay=%s" % (self.prop, path))
            rc = 1
        elif self.broken or model:
            # the property is no longer shown to hold: a proof obligation or a tie broke and the
            # search (engines above, intensified) found no input on which the oracle fails
            hdr = ["broken " + b["name"] + " :: " + b["detail"][:300].replace("\n", " ") for b in self.broken]
            for d in model[:5]:
                hdr.append("broken corr:%s/%s/%s :: %s" % (self.prop, d["engine"], d["kind"], d["text"][:300]))
            body = self.case_lines(model[0]) if model else []
            if model:
                hdr.insert(0, "engine " + model[0]["engine"])
            path = self.write_replay("broken", hdr + ["seed %d tier %s" % (self.seed, self.tier)], body)
            lines_out.append("VIOLATION property=%s replay=%s no-failing-input-found" % (self.prop, path))
            rc = 1
        self.violations = 1 if rc else 0
        return rc, lines_out

    def probe_broken_cases(self):
        """the model and the implementation went apart on some cases of engine seq but no oracle failed:
        search for a concrete failing input by extending exactly those cases (tree rebuilt from the data files,
        then a get of every key) and letting the oracles judge the extended run"""
        known = {k["key"] for k in self.load_known() if k.get("status") == "known"}
        if any(d["kind"] == "oracle" and d["key"] not in known and d["key"] not in self.other_known for d in self.diffs):
            return
        cases, body = [], []
        for d in self.diffs:
            if d["kind"] == "oracle" or d["engine"] != "seq":
                continue
            cid = (d.get("trace"), d.get("case"))
            if cid in cases or d.get("case") is None:
                continue
            cases.append(cid)
            body += self.case_lines(d)
            if len(cases) >= 24:
                break
        if not cases:
            return
        path = os.path.join(self.scratch, "probe-cases.txt")
        with open(path, "w") as f:
            f.write("#engine seq\n" + "\n".join(body) + "\n")
        self.notes.append("tie broken on %d case(s) without an oracle failure: extended them with a rebuild restart and a get of every key" % len(cases))
        self.run_engine("seq", 1, 1, replay=path, extra=["-mix", "probe"])

    def evidence(self):
        cov = self.cov
        distinct = cov.pop("_distinct", set())
        cov["distinct_nontrivial"] = len(distinct)
        cov["rule"] = self.cfg.get("rule", "")
        cov["obligations"] = self.obligations
        cov["discharged"] = self.discharged
        cov["checker_cmd"] = "cd /verif/lean && lake build %s  (Lean 4 kernel; then `#print axioms` on every theorem of the Props file)" % self.cfg["lean_target"]
        tb = ["Lean 4.33.0 kernel"]
        ax = sorted({a for v in self.axioms.values() for a in v})
        tb.append("axioms used by the property theorems: " + (", ".join(ax) if ax else "none"))
        tb += self.cfg.get("trusted_base", [])
        cov["trusted_base"] = tb
        cov["theorems"] = {k: v for k, v in sorted(self.axioms.items())}
        cov["traces_validated_against_impl"] = sum(e["traces"] for e in cov["engines"].values())
        cov["disagreements_checked"] = len(self.diffs)
        cov["broken"] = self.broken
        cov["known_findings_hit"] = self.known_hits
        cov["notes"] = self.notes
        if not cov["samples"]:
            cov["samples"] = ["(no engine ran)"]
        ev = {
            "property_id": self.prop, "tier": self.tier, "seed": self.seed, "level": "proof",
            "coverage": cov,
            "assumptions": self.cfg.get("assumptions", []),
            "wall_s": round(time.time() - self.t0, 2),
            "violations": self.violations,
        }
        os.makedirs(os.path.join(VERIF, "evidence"), exist_ok=True)
        with open(os.path.join(VERIF, "evidence", self.prop + ".json"), "w") as f:
            json.dump(ev, f, indent=1, default=str)

    # ------------------------------------------------------------------ main
    def execute(self):
        self.prepare()
        intensify = 1
        if self.broken:
            intensify = self.cfg.get("intensify", 5)
            self.notes.append("a proof obligation or tie is broken: intensified search x%d" % intensify)
        if self.replay:
            return self.execute_replay()
        tier_i = 1 if self.tier == "quick" else 2
        # corpus first
        for engine_cfg in self.cfg.get("engines", []):
            engine = engine_cfg[0]
            if engine in ("hintdiff", "collide"):
                continue
            for cp in sorted(glob.glob(os.path.join(VERIF, "corpus", self.prop, engine + "-*.txt"))):
                self.run_engine(engine, 1, 1, replay=cp)
        for engine_cfg in self.cfg.get("engines", []):
            engine, n, shards = engine_cfg[0], engine_cfg[tier_i], engine_cfg[3]
            extra = engine_cfg[4] if len(engine_cfg) > 4 else None
            if engine == "hintdiff":
                self.run_hintdiff(n, intensify=intensify)
                continue
            if engine == "collide":
                self.run_collide(n, intensify=intensify)
                continue
            self.run_engine(engine, n, shards, extra=extra, intensify=intensify)
        self.probe_broken_cases()
        rc, out = self.verdict()
        self.evidence()
        for l in out:
            print(l)
        if rc == 0:
            print("OK property=%s tier=%s seed=%d obligations=%d/%d evaluations=%d wall=%.1fs" % (
                self.prop, self.tier, self.seed, self.discharged, self.obligations, self.cov["evaluations"], time.time() - self.t0))
        return rc

    def execute_replay(self):
        hdr = [l[1:].strip() for l in open(self.replay) if l.startswith("#")]
        engine = None
        for h in hdr:
            if h.startswith("engine "):
                engine = h.split()[1]
        if engine:
            self.run_engine(engine, 1, 1, replay=self.replay)
        rc, out = self.verdict()
        for l in out:
            print(l.replace("replays/", "replays/") if l else l)
        if rc == 0:
            print("ok (replay does not fail on the current tree)")
        return rc
