import Driver.Util
import GoBeans.Model.Codec
import GoBeans.Spec.Hash

/-! engine `codec` (C09): encoder / positional reader / stream scanner of the real code vs the
    model (`Codec.*`, kind=model) and vs the property oracle (kind=oracle):
    (O1) nothing is ever returned that is not byte-identical to an undamaged written record at that offset;
    (O2) a scan yields every record whose stored bytes are intact, with its true offset. -/
namespace Driver.CodecEngine
open Driver _root_.Codec

structure Orig where
  off : Nat
  r : Rec
  enc : Bytes

structure St where
  cfg : Cfg := {}
  caseId : String := ""
  origs : Array Orig := #[]
  base : Bytes := []
  file : Bytes := []
  clean : Bool := true

def bodysum (b : Bytes) : String := s!"{b.length}.{(Gen.utilsFnv1a b).toNat}"

def encSummary (b : Bytes) : String :=
  if b.length ≤ 2048 then tohex b
  else s!"L{b.length}:C{Ref.crc32 b}:F{(Gen.utilsFnv1a b).toNat}"

def applyOp (f : Bytes) (op : String) : Bytes :=
  match op.splitOn ":" with
  | ["flip", p, b] =>
      let pos := p.toNat!; let bit := b.toNat!
      if pos < f.length then f.set pos ((f.getD pos 0) ^^^ (1 <<< bit.toUInt8)) else f
  | ["set", p, h] =>
      let pos := p.toNat!
      let xs := unhex h
      if pos < f.length then Go.splice f pos xs else f
  | ["zero", a, b] =>
      let a := a.toNat!; let b := min b.toNat! f.length
      if a < b then Go.splice f a (List.replicate (b - a) 0) else f
  | ["trunc", n] => f.take n.toNat!
  | _ => f

def fmtRec (r : Rec) : String :=
  s!"{tohex r.key} {bodysum r.body} {r.flag.toNat} {r.ver.toInt} {r.ts.toNat}"

def fmtScanItem (o : Nat) (r : Rec) : String :=
  s!"{o}:{tohex r.key}:{r.ver.toInt}:{r.flag.toNat}:{r.ts.toNat}:{bodysum r.body}"

def errName : RErr → String
  | .shortHead => "shortHead" | .badKeySize => "badKeySize" | .badValueSize => "badValueSize"
  | .shortBody => "shortBody" | .badCRC => "badCRC"

/-- stored bytes (header, key, body — not the padding) of an original are intact in `f` -/
def intact (f : Bytes) (o : Orig) : Bool :=
  let n := 24 + o.r.key.length + o.r.body.length
  o.off + n ≤ f.length && ((f.drop o.off).take n == o.enc.take n)

def parseInt (s : String) : Int :=
  if s.startsWith "-" then - (s.drop 1).toNat! else s.toNat!

def run (lines : Array String) : IO Report := do
  let rep ← IO.mkRef ({} : Report)
  let mut st : St := {}
  let mut ln := 0
  let mut cases := 0
  for l in lines do
    ln := ln + 1
    if l.startsWith "#" then continue
    let (ws, obs) := splitLine l
    match ws with
    | "case" :: id :: opts =>
        let mut cfg : Cfg := {}
        for o in opts do
          match o.splitOn "=" with
          | ["bodymax", n] => cfg := { cfg with bodyMax := Int64.ofNat n.toNat! }
          | ["maxkey", n] => cfg := { cfg with maxKeyLen := Int64.ofNat n.toNat! }
          | _ => pure ()
        st := { cfg := cfg, caseId := id }
        cases := cases + 1
    | ["rec", off, k, b, flag, ver, ts] =>
        let r : Rec := { key := unhex k, body := unhex b, flag := flag.toNat!.toUInt32,
                         ver := Int32.ofInt (parseInt ver), ts := ts.toNat!.toUInt32 }
        let enc := encode r
        if off.toNat! ≠ st.base.length then
          diff rep ln "model" s!"case={st.caseId} record offset impl={off} model={st.base.length}"
        if encSummary enc ≠ obs then
          diff rep ln "model" s!"case={st.caseId} encode differs: model={(encSummary enc).take 80} impl={obs.take 80}"
        -- oracle for the layout: whole blocks, documented field order (checked against an explicit layout)
        let le := fun (v : Nat) => Go.leBytes 4 v
        let crc := Ref.crc32 (le r.ts.toNat ++ le r.flag.toNat ++ le r.ver.toUInt32.toNat ++ le r.key.length ++ le r.body.length ++ r.key ++ r.body)
        let n := 24 + r.key.length + r.body.length
        let padded := (n + 255) / 256 * 256
        let doc := le crc ++ le r.ts.toNat ++ le r.flag.toNat ++ le r.ver.toUInt32.toNat ++ le r.key.length ++ le r.body.length
                    ++ r.key ++ r.body ++ List.replicate (padded - n) 0
        if encSummary doc ≠ obs then
          diff rep ln "oracle" s!"case={st.caseId} key=C09/layout record image is not the documented layout (crc|ts|flag|ver|ksz|vsz|key|value|pad to 256)"
        st := { st with origs := st.origs.push { off := st.base.length, r := r, enc := enc }, base := st.base ++ enc }
        ok rep
    | ["variant", ops] =>
        let f := if ops == "clean" then st.base else (ops.splitOn ",").foldl applyOp st.base
        st := { st with file := f, clean := ops == "clean" }
    | ["readat", off] =>
        let off := off.toNat!
        let m := match decodeAt st.cfg st.file off with
          | .ok (r, _) => "ok " ++ fmtRec r
          | .error e => "err " ++ errName e
        if m ≠ obs then diff rep ln "model" s!"case={st.caseId} readat {off}: model={m.take 100} impl={obs.take 100}"
        if obs.startsWith "ok " then
          -- O1: must be an intact original at this offset, identical
          let good := st.origs.any fun o => o.off == off && intact st.file o && ("ok " ++ fmtRec o.r) == obs
          if !good then diff rep ln "oracle" s!"case={st.caseId} key=C09/returned-damaged readat {off} returned a record that is not an undamaged written record: {obs.take 100}"
        else
          -- an intact record at this offset must be readable
          if st.origs.any fun o => o.off == off && intact st.file o then
            diff rep ln "oracle" s!"case={st.caseId} key=C09/intact-unreadable readat {off} fails on an intact record: {obs}"
        ok rep
    | ["scan", start] =>
        let (rs, e) := scan st.cfg st.file start.toNat!
        let m := s!"{rs.length}" ++ String.join (rs.map fun (o, r) => " " ++ fmtScanItem o r) ++ (if e == .eof then " end=eof" else " end=error")
        if m ≠ obs then diff rep ln "model" s!"case={st.caseId} scan: model={m.take 160} impl={obs.take 160}"
        -- oracle on the implementation's output
        let items := (obs.splitOn " ").filter (fun s => s.contains ':' )
        for it in items do
          let good := st.origs.any fun o => intact st.file o && fmtScanItem o.off o.r == it
          if !good then diff rep ln "oracle" s!"case={st.caseId} key=C09/returned-damaged scan returned {it.take 80}, not an undamaged written record at that offset"
        let endErr := obs.endsWith "end=error"
        for o in st.origs do
          if intact st.file o && !(items.contains (fmtScanItem o.off o.r)) then
            let k := if endErr then "C09/scan-aborted-before-intact-record" else "C09/scan-skipped-intact-record"
            diff rep ln "oracle" s!"case={st.caseId} key={k} intact record at {o.off} not yielded by the scan ({obs.take 60})"
        ok rep
    | ["endvariant"] => pure ()
    | ["end"] => pure ()
    | _ => diff rep ln "driver" s!"unparsed line: {l.take 60}"
  IO.println s!"#cases {cases}"
  rep.get

end Driver.CodecEngine
