import Driver.Util
import GoBeans.Model.Qlz

/-! engine `qlz` (C10, the codec): the real QuickLZ implementations (C library through cgo, Go port) against
    `Model/Qlz.lean` (kind=model: header fields, Go `Compress` bytes, Go `Decompress` / `DecompressSafe` result class and
    bytes on EVERY stream including arbitrary ones, the Go-side pre-checks of `CDecompressSafe`, the allocation) and
    against the oracles of the property (kind=oracle: the four round trips give the original; a safe entry point
    never crashes or hangs; the two decoders agree on whatever both accept). -/
namespace Driver.QlzE
open Driver Qlz

def hexNib (c : UInt8) : UInt8 :=
  if 48 ≤ c ∧ c ≤ 57 then c - 48 else if 97 ≤ c ∧ c ≤ 102 then c - 87 else if 65 ≤ c ∧ c ≤ 70 then c - 55 else 0

/-- "-" is the empty slice; otherwise lowercase hex -/
def unhexA (s : String) : Buf := Id.run do
  if s == "-" then return #[]
  let b := s.toUTF8
  let n := b.size / 2
  let mut out : Buf := Array.mkEmpty n
  for i in [0:n] do
    out := out.push (hexNib (b.get! (2 * i)) * 16 + hexNib (b.get! (2 * i + 1)))
  return out

def fnv64 (b : Buf) : UInt64 := b.foldl (fun h x => (h ^^^ x.toUInt64) * 1099511628211) 14695981039346656037

def okLine (b : Buf) : String := s!"OK {b.size} {(fnv64 b).toNat}"

def kv (ws : List String) (name : String) : Option String :=
  ws.findSome? fun w => if w.startsWith (name ++ "=") then some (w.drop (name.length + 1)).toString else none

def hdrLine (b : Buf) : String :=
  match headerLen b, sizeCompressed b, sizeDecompressed b, levelOf b, cbitOf b with
  | some hl, some sc, some sd, some lv, some cb => s!"hl={hl} sizeC={sc} sizeD={sd} level={lv} cbit={cb} len={b.size}"
  | _, _, _, _, _ => "PANIC"

def safeLine (b : Buf) : String :=
  match decompressSafe b with
  | .ok out => okLine out
  | .error .badSizeC => "ERR sizeC"
  | .error .badSizeD => "ERR sizeD"
  | .error .recovered => "ERR panic"
  | .error .hang => "HANG"

/-- heap bytes the model says `Decompress` requests that depend on the input (the two 4096-entry tables have a
    constant size; the Go compiler keeps them on the stack): destination, and `d2` for a stored stream that passes
    the level check -/
def heapAlloc (b : Buf) : Nat × Nat :=     -- (number of allocations, bytes each)
  match sizeDecompressed b with
  | none => (0, 0)
  | some size =>
    match levelOf b, cbitOf b with
    | some lv, some cb => if (lv = 1 ∨ lv = 3) ∧ cb ≠ 1 then (2, size) else (1, size)
    | _, _ => (1, size)

structure St where
  caseId : String := ""
  orig : Buf := #[]
  streams : List (String × Buf) := []
  goArb : String := ""          -- what DecompressSafe said about the current arbitrary stream
  arbKind : String := ""

def St.stream (st : St) (n : String) : Option Buf := (st.streams.find? (·.1 == n)).map (·.2)
def St.setStream (st : St) (n : String) (b : Buf) : St := { st with streams := (n, b) :: st.streams.filter (·.1 != n) }

def run (lines : Array String) : IO Report := do
  let rep ← IO.mkRef ({} : Report)
  let mut st : St := {}
  let mut ln := 0
  let mut cases := 0
  for l in lines do
    ln := ln + 1
    if l.startsWith "#" || l.isEmpty then continue
    let (ws, obs) := splitLine l
    let cid := st.caseId
    match ws with
    | "case" :: id :: _ =>
        st := { caseId := id }
        cases := cases + 1
    | ["orig", h] => st := { st with orig := unhexA h }
    | ["comp", which] =>
        if obs == "PANIC" || obs == "FAIL" || obs == "NIL" then
          -- model: Go Compress of an empty value returns nil; CCompress of an empty value indexes src[0]
          let want := if st.orig.size = 0 then (if which == "cc" then "PANIC" else "NIL") else "bytes"
          if want ≠ obs then diff rep ln "oracle" s!"case={cid} key=C10/compress-failed {which} of {st.orig.size} bytes gave {obs}"
        else
          let out := unhexA obs
          st := st.setStream which out
          if which == "gc1" || which == "gc3" then
            let m := compress st.orig (if which == "gc1" then 1 else 3)
            match m with
            | none => diff rep ln "model" s!"case={cid} {which}: the model says Compress panics; impl returned {out.size} bytes"
            | some mo =>
              if mo ≠ out then
                diff rep ln "model" s!"case={cid} {which}: Compress bytes differ (model {mo.size} bytes fnv={(fnv64 mo).toNat}, impl {out.size} bytes fnv={(fnv64 out).toNat})"
        ok rep
    | ["hdr", which] =>
        match st.stream which with
        | none => diff rep ln "driver" s!"case={cid} hdr of an unknown stream {which}"
        | some b =>
          let m := hdrLine b
          if m ≠ obs then diff rep ln "model" s!"case={cid} hdr {which}: model={m} impl={obs}"
          -- oracle: the header states the true sizes, the level of the encoder, the 3-byte form only from C below 216 bytes
          let ows := obs.splitOn " "
          let get := fun (k : String) => ((kv ows k).getD "x")
          let wantLevel := if which == "gc1" then "1" else "3"
          let wantHl := if which == "cc" && st.orig.size < 216 then "3" else "9"
          if get "sizeC" ≠ toString b.size || get "sizeD" ≠ toString st.orig.size || get "level" ≠ wantLevel || get "hl" ≠ wantHl then
            diff rep ln "oracle" s!"case={cid} key=C10/header {which}: header {obs} does not describe a {st.orig.size}-byte value in a {b.size}-byte stream"
          if get "cbit" == "0" && b.size ≠ st.orig.size + wantHl.toNat! then
            diff rep ln "oracle" s!"case={cid} key=C10/header {which}: stored form of {st.orig.size} bytes is {b.size} bytes long"
          ok rep
    | ["arb", kind, h] =>
        st := { (st.setStream "arb" (unhexA h)) with goArb := "", arbKind := kind }
    | ["raw", "G", which] =>
        match st.stream which with
        | none => diff rep ln "driver" s!"case={cid} raw of an unknown stream {which}"
        | some b =>
          let m := match decompress b with
            | .ok out => okLine out
            | .panic => "PANIC"
            | .fuel => "HANG"
          let ows := obs.splitOn " alloc="
          let head := ows.headD ""
          if m ≠ head then diff rep ln "model" s!"case={cid} Decompress({st.arbKind}, {b.size} bytes): model={m} impl={head}"
          -- allocation: at least what the model says, at most that plus the allocator's rounding
          match ows with
          | [_, a] =>
              let alloc := a.toNat!
              let (k, each) := heapAlloc b
              let lo := k * each
              let hi := k * (each + each / 4 + 8192) + 32768
              if alloc < lo || alloc > hi then
                diff rep ln "model" s!"case={cid} Decompress allocated {alloc} heap bytes; the model says {k} x {each}"
          | _ => pure ()
          ok rep
    | ["dec", "G", which] =>
        match st.stream which with
        | none => diff rep ln "driver" s!"case={cid} dec of an unknown stream {which}"
        | some b =>
          let m := safeLine b
          if m ≠ obs then diff rep ln "model" s!"case={cid} DecompressSafe({which} {st.arbKind}, {b.size} bytes): model={m} impl={obs}"
          if which == "arb" then
            st := { st with goArb := obs }
            if obs.startsWith "HANG" then diff rep ln "oracle" s!"case={cid} key=C10/go-decoder-hang DecompressSafe did not return"
          else if obs ≠ okLine st.orig then
            diff rep ln "oracle" s!"case={cid} key=C10/roundtrip {which}→Go: expected {okLine st.orig} got {obs}"
          ok rep
    | ["dec", mode, which] =>        -- C, Cg
        match st.stream which with
        | none => diff rep ln "driver" s!"case={cid} dec of an unknown stream {which}"
        | some b =>
          -- model of the Go side of CDecompressSafe: which streams are rejected before C is entered
          let pre : String := match sizeCompressed b with
            | none => "ERR panic"
            | some sc => if b.size ≠ sc then "ERR sizeC" else
              match sizeDecompressed b with
              | none => "ERR panic"
              | some 0 => "ERR panic"          -- Alloc(0) gives an empty slice; &dst.Body[0] panics, recovered
              | some sd => s!"{sd}"
          if pre.startsWith "ERR" then
            if pre ≠ obs then diff rep ln "model" s!"case={cid} CDecompressSafe({which} {st.arbKind}): the Go-side checks reject with {pre}; impl={obs}"
          else
            -- C entered: it returns the announced size or dies; there is no third outcome without QLZ_MEMORY_SAFE
            if obs.startsWith "OK " then
              if (obs.splitOn " ").getD 1 "" ≠ pre then
                diff rep ln "model" s!"case={cid} CDecompressSafe({which}) returned {obs}, announced size {pre}"
            else if obs.startsWith "ERR" then
              diff rep ln "model" s!"case={cid} CDecompressSafe({which} {st.arbKind}): checks pass (sizeD={pre}) but impl={obs}"
          if which == "arb" then
            if obs.startsWith "CRASH" || obs.startsWith "HANG" then
              let key := if mode == "Cg" then "C10/c-decoder-reads-past-input" else "C10/c-decoder-crash"
              diff rep ln "oracle" s!"case={cid} key={key} CDecompressSafe({st.arbKind}, {b.size} bytes) => {obs}"
            else if obs.startsWith "OK" && st.goArb.startsWith "OK" && obs ≠ st.goArb
                    && (levelOf b == some 3 || cbitOf b == some 0) then
              diff rep ln "oracle" s!"case={cid} key=C10/c-go-disagree both decoders accept the stream ({st.arbKind}, level 3 or stored) with different bytes: C={obs} Go={st.goArb}"
          else if obs ≠ okLine st.orig then
            let key := if mode == "Cg" && (obs.startsWith "CRASH") then "C10/c-decoder-reads-past-input" else "C10/roundtrip"
            diff rep ln "oracle" s!"case={cid} key={key} {which}→C ({mode}): expected {okLine st.orig} got {obs}"
          ok rep
    | ["big", mode, h] =>
        let b := unhexA h
        if mode == "G" then
          -- model: sizes from the header, allocation = 2 x size for a stored stream; the result is `size` zero bytes
          let (k, each) := heapAlloc b
          let ows := obs.splitOn " "
          if obs.startsWith "OK" then
            if (kv ows "len") ≠ some (toString each) then diff rep ln "model" s!"big G: len differs from the announced {each}: {obs}"
            if ((kv ows "alloc").getD "0").toNat! < k * each then diff rep ln "model" s!"big G: allocation below {k} x {each}: {obs}"
            diff rep ln "oracle" s!"case={cid} key=C10/nine-bytes-allocate-gigabytes DecompressSafe of a {b.size}-byte input allocated {(kv ows "alloc").getD "?"} bytes and returned {each} bytes without error"
          else if safeLineCheap b ≠ obs then diff rep ln "model" s!"big G: {obs}"
        else
          if obs.startsWith "CRASH" || obs.startsWith "HANG" then
            diff rep ln "oracle" s!"case={cid} key=C10/c-decoder-crash CDecompressSafe of a {b.size}-byte stored stream announcing a gigabyte => {obs}"
        ok rep
    | ["end"] => pure ()
    | _ => diff rep ln "driver" s!"unparsed line: {l.take 60}"
  IO.println s!"#cases {cases}"
  rep.get
where
  /-- the checks of DecompressSafe that do not need the payload -/
  safeLineCheap (b : Buf) : String :=
    match sizeCompressed b with
    | none => "ERR panic"
    | some sc => if b.size ≠ sc then "ERR sizeC" else "OK"

end Driver.QlzE
