import Driver.Util
import GoBeans.Model.Proto
import GoBeans.Model.Codec
import GoBeans.Spec.KV

/-!
  engine proto (C11, C12): replays the byte streams fed to the real ServerConn through `Proto.serveOnce`.
  kind=model : the model and the implementation differ (consumed bytes, reply bytes, closing flag, ledger)
  kind=oracle: the implementation's behaviour contradicts the property itself, whatever the model says:
      C11/panic             a command panicked
      C11/no-reply          a complete command that asks for a reply got none and the connection stays open
      C11/invalid-reply     the bytes written are not one reply of the protocol's grammar
      C11/wrong-value       a get of an ordinary key returned something else than the reference map holds
      C11/desync            the server consumed more or fewer bytes than the command occupies
      C12/idle-nonzero      between commands a read/set buffer is still counted or a token is missing
      C12/final-nonzero     after the final flush a counter is not zero or a token is missing
-/
namespace Driver.Proto
open Driver

def kvOpt (opts : List String) (name : String) : Option String :=
  opts.findSome? fun o => if o.startsWith (name ++ "=") then some (o.drop (name.length + 1)).toString else none

def isDigit (c : UInt8) : Bool := 48 ≤ c && c ≤ 57

def splitLF (b : Bytes) : List Bytes :=
  let rec go : Bytes → Bytes → List Bytes → List Bytes
    | [], cur, acc => (if cur.isEmpty then acc else cur.reverse :: acc).reverse
    | c :: rest, cur, acc => if c = 10 then go rest [] ((c :: cur).reverse :: acc) else go rest (c :: cur) acc
  go b [] []

def sortLines (ls : List Bytes) : List String := ((ls.map tohex).toArray.qsort (· < ·)).toList

def startsWith (b p : Bytes) : Bool := b.take p.length == p

/-- take one CRLF-terminated line -/
def takeLine (b : Bytes) : Option (Bytes × Bytes) :=
  match Proto.readLine b with
  | some l => if Proto.endsCRLF l then some (l, b.drop l.length) else none
  | none => none

partial def matchSeg (cc : Codec.Cfg) : Proto.Seg → Bytes → Option Bytes
  | .lit b, obs => if startsWith obs b then some (obs.drop b.length) else none
  | .ts, obs => if (obs.take 10).length == 10 && (obs.take 10).all isDigit then some (obs.drop 10) else none
  | .recDump key ver flag body, obs =>
    let n := 24 + key.length + body.length
    match Codec.decodeAt cc (obs.take n) 0 with
    | .ok (r, _) =>
      if r.key == key && r.body == body && r.flag.toNat == flag && r.ver.toInt == ver then some (obs.drop n) else none
    | .error _ => none
  | .posOf c o, obs =>
    let b := Proto.itoa c ++ [32] ++ Proto.itoa o
    if startsWith obs b then some (obs.drop b.length) else none
  | .lines ls, obs =>
    let n := (ls.map List.length).sum
    if sortLines (splitLF (obs.take n)) == sortLines ls && (obs.take n).length == n then some (obs.drop n) else none
  | .statsAll, obs =>
    let rec go (o : Bytes) : Bytes := if startsWith o (Proto.ascii "STAT ") then
        match takeLine o with
        | some (_, rest) => go rest
        | none => o
      else o
    some (go obs)
  | .statVal name, obs =>
    if startsWith obs (Proto.ascii "STAT " ++ name ++ [32]) then (takeLine obs).map (·.2) else none

def matchSegs (cc : Codec.Cfg) : List Proto.Seg → Bytes → Option Bytes
  | [], obs => some obs
  | s :: ss, obs => match matchSeg cc s obs with
    | some rest => matchSegs cc ss rest
    | none => none

/-- blocks in any order -/
partial def matchBlocks (cc : Codec.Cfg) (blocks : List (List Proto.Seg)) (obs : Bytes) : Option Bytes :=
  if blocks.isEmpty then some obs else
  let rec try_ (pre : List (List Proto.Seg)) : List (List Proto.Seg) → Option Bytes
    | [] => none
    | b :: rest => match matchSegs cc b obs with
      | some o => matchBlocks cc (pre ++ rest) o
      | none => try_ (pre ++ [b]) rest
  try_ [] blocks

def matchResp (cc : Codec.Cfg) (r : Option Proto.Resp) (obs : Bytes) : Bool :=
  match r with
  | none => obs.isEmpty
  | some r =>
    let (blocks, tail) := r.write
    match matchBlocks cc blocks obs with
    | some o => matchSegs cc tail o == some []
    | none => false

/-! the reply grammar, independent of the model (what `Response.Read` of the project's own client accepts) -/

def statusWords : List String :=
  ["STORED", "NOT_STORED", "DELETED", "NOT_FOUND", "OK", "ERROR", "SERVER_ERROR", "CLIENT_ERROR", "VERSION", "none", "running", "END"]

partial def validValues (obs : Bytes) : Bool :=
  match takeLine obs with
  | none => false
  | some (l, rest) =>
    let parts := Proto.fields (l.take (l.length - 2))
    match parts with
    | [w] => w == Proto.ascii "END" && rest.isEmpty
    | w :: _key :: flag :: len :: more =>
      if w != Proto.ascii "VALUE" || more.length > 1 then false else
      match Proto.atoi flag, Proto.atoi len with
      | some _, some n =>
        if n < 0 then false else
        let n := n.toNat
        if rest.length < n + 2 || (rest.drop n).take 2 != Proto.crlf then false
        else if more.any (fun c => (Proto.atoi c).isNone) then false
        else validValues (rest.drop (n + 2))
      | _, _ => false
    | _ => false

partial def validStats (obs : Bytes) : Bool :=
  match takeLine obs with
  | none => false
  | some (l, rest) =>
    let parts := Proto.fields (l.take (l.length - 2))
    if parts == [Proto.ascii "END"] then rest.isEmpty
    else parts.length == 3 && parts.head? == some (Proto.ascii "STAT") && validStats rest

def validReply (obs : Bytes) : Bool :=
  match takeLine obs with
  | none => false
  | some (l, rest) =>
    let parts := Proto.fields (l.take (l.length - 2))
    match parts with
    | [] => false
    | w :: _ =>
      if w == Proto.ascii "VALUE" then validValues obs
      else if w == Proto.ascii "STAT" then validStats obs
      else if w == Proto.ascii "END" then rest.isEmpty && parts.length == 1
      else if statusWords.any (fun s => Proto.ascii s == w) then rest.isEmpty
      else (Proto.atoi w).isSome && parts.length == 1 && rest.isEmpty

def parseLed (s : String) : Option Proto.Ledger :=
  match (s.splitOn ",").map String.toInt? with
  | [some a, some b, some c, some d, some e, some f, some g, some h, some t] =>
    some { getC := a, getS := b, setC := c, setS := d, flushC := e, flushS := f, allocC := g, allocS := h, tokens := t }
  | _ => none

def fmtLed (l : Proto.Ledger) : String :=
  s!"{l.getC},{l.getS},{l.setC},{l.setS},{l.flushC},{l.flushS},{l.allocC},{l.allocS},{l.tokens}"

structure RunSt where
  cfg  : Proto.Cfg := {}
  st   : Proto.St := {}
  rest : Bytes := []
  sp   : Spec.KV := []
  cid  : String := ""
  dead : Bool := false       -- model and implementation went apart: skip the rest of the case

def run (lines : Array String) : IO Report := do
  let rep ← IO.mkRef ({} : Report)
  let mut rs : RunSt := {}
  let mut ln := 0
  let cc : Codec.Cfg := {}
  for l in lines do
    ln := ln + 1
    let (lhs, obs) := splitLine l
    match lhs with
    | "case" :: cid :: opts =>
      let nat (n : String) (d : Nat) := ((kvOpt opts n).bind String.toNat?).getD d
      let cfg : Proto.Cfg := { bodyInC := nat "bodyinc" 64, bodyMax := nat "bodymax" 1048576,
                               store := { checkVHash := nat "checkvhash" 0 == 1 }, listKey := nat "listkey" 256, version := unhex ((kvOpt opts "version").getD "-") }
      rs := { cfg := cfg, st := { led := { tokens := cfg.maxReq } }, cid := cid }
    | ["stream", hx] => rs := { rs with rest := unhex hx }
    | ["latestream", _] => pure ()
    | "late" :: opts =>
      -- the overdue phase (every command answered RECV_TIMEOUT and dropped): the property alone judges it — when the
      -- connection is idle again nothing of the dropped command may still be counted, every token is back
      let led := ((kvOpt opts "led").bind parseLed).getD {}
      if opts.contains "PANIC" then diff rep ln "oracle" s!"case={rs.cid} key=C11/panic a command panicked (overdue phase)"
      if led.getC ≠ 0 || led.getS ≠ 0 || led.setC ≠ 0 || led.setS ≠ 0 || led.tokens ≠ rs.cfg.maxReq then
        diff rep ln "oracle" s!"case={rs.cid} key=C12/idle-nonzero/overdue a command answered RECV_TIMEOUT was dropped but stays counted: ledger={fmtLed led}"
      ok rep
    | "step" :: opts =>
      if rs.dead then continue
      let cid := rs.cid
      let obsBytes := unhex obs
      let n := ((kvOpt opts "n").bind String.toNat?).getD 0
      let closing := (kvOpt opts "close") == some "1"
      let led := ((kvOpt opts "led").bind parseLed).getD {}
      -- oracles on the implementation alone
      if opts.contains "PANIC" then diff rep ln "oracle" s!"case={cid} key=C11/panic a command panicked"
      if led.getC ≠ 0 || led.getS ≠ 0 || led.setC ≠ 0 || led.setS ≠ 0 || led.tokens ≠ rs.cfg.maxReq then
        diff rep ln "oracle" s!"case={cid} key=C12/idle-nonzero connection idle but ledger={fmtLed led}"
      if !obsBytes.isEmpty && !validReply obsBytes then
        diff rep ln "oracle" s!"case={cid} key=C11/invalid-reply bytes written are not one protocol reply: {(tohex obsBytes).take 120}"
      let ro := Proto.readReq rs.cfg rs.st.led rs.rest
      let complete := ro.res != .net
      if complete && !closing && obsBytes.isEmpty then
        -- a complete command: silent only when it parsed, asked for noreply, and is a command that honours it
        let silentOK := ro.res == .ok && ro.req.noreply
        if !silentOK then diff rep ln "oracle" s!"case={cid} key=C11/no-reply complete command {tohex (rs.rest.take ro.n |>.take 60)} got no reply"
      if complete && n ≠ ro.n then
        diff rep ln "oracle" s!"case={cid} key=C11/desync command occupies {ro.n} bytes, server consumed {n}"
      -- reference map: single ordinary get
      if ro.res == .ok && ro.req.cmd == Proto.ascii "get" then
        match ro.req.keys with
        | [k] =>
          if k.head? != some 64 && k.head? != some 63 && k.length ≤ 250 then
            let want : Option Proto.Resp := match Spec.step { checkVHash := rs.cfg.store.checkVHash } rs.sp (.get k) with
              | (_, .value flag body) => some (.value false [{ key := k, flag := flag, body := [.lit body], len := body.length }])
              | _ => some (.value false [])
            if !matchResp cc want obsBytes then
              diff rep ln "oracle" s!"case={cid} key=C11/wrong-value get {tohex k}: reference map disagrees with reply {(tohex obsBytes).take 100}"
        | _ => pure ()
      -- model
      let s := Proto.serveOnce rs.cfg rs.st rs.rest
      let mut bad := false
      if s.n ≠ n then
        diff rep ln "model" s!"case={cid} consumed: model={s.n} impl={n}"; bad := true
      if s.closing ≠ closing then
        diff rep ln "model" s!"case={cid} closing: model={s.closing} impl={closing}"; bad := true
      if !matchResp cc s.resp obsBytes then
        diff rep ln "model" s!"case={cid} reply: model={reprStr s.resp |>.take 200} impl={(tohex obsBytes).take 160}"; bad := true
      if s.st.led ≠ led then
        diff rep ln "model" s!"case={cid} ledger: model={fmtLed s.st.led} impl={fmtLed led}"; bad := true
      ok rep
      -- advance the reference map by the command's meaning
      let mut sp := rs.sp
      if ro.res == .ok then
        let r := ro.req
        let key := r.keys.headD []
        let scfg : Spec.Cfg := { checkVHash := rs.cfg.store.checkVHash }
        if (r.cmd == Proto.ascii "set" || r.cmd == Proto.ascii "add" || r.cmd == Proto.ascii "replace" || r.cmd == Proto.ascii "cas")
            && Proto.validKeyString key && r.exptime ≥ 0
            && ((r.flag % 4294967296).toNat / 65536) % 2 == 0 then    -- the server-reserved flag bit is outside the client's alphabet: such a set is refused
          sp := (Spec.step scfg sp (.set key r.body (r.flag % 4294967296).toNat r.exptime 0)).1
        else if r.cmd == Proto.ascii "delete" && Proto.validKeyString key then
          sp := (Spec.step scfg sp (.delete key)).1
        else if r.cmd == Proto.ascii "incr" && Proto.validKeyString key then
          match Proto.atoi r.body with
          | some d => sp := (Spec.step scfg sp (.incr key d)).1
          | none => pure ()
      rs := { rs with st := s.st, rest := rs.rest.drop s.n, sp := sp, dead := bad }
    | "final" :: opts =>
      let cid := rs.cid
      let led := ((kvOpt opts "led").bind parseLed).getD {}
      let zero : Proto.Ledger := { tokens := rs.cfg.maxReq }
      if led ≠ zero then
        diff rep ln "oracle" s!"case={cid} key=C12/final-nonzero after flush ledger={fmtLed led}"
      if !rs.dead then
        let f := Proto.flush rs.st
        if f.led ≠ led then diff rep ln "model" s!"case={cid} final ledger: model={fmtLed f.led} impl={fmtLed led}"
      ok rep
    | "wreq" :: opts =>
        -- Request.Write against Proto.writeReq
        let geti := fun n => ((kvOpt opts n).bind String.toInt?).getD 0
        let hexOpt := fun n => unhex ((kvOpt opts n).getD "-")
        let keys := match (kvOpt opts "keys").getD "" with
          | "" => []
          | ks => (ks.splitOn ",").map unhex
        let r : Proto.Req := { cmd := hexOpt "cmd", keys := keys, flag := geti "flag", exptime := geti "exptime", cas := geti "cas",
                               body := hexOpt "body", noreply := (kvOpt opts "noreply") == some "1" }
        let m := Proto.writeReq r
        if tohex m ≠ obs && !(m.isEmpty && obs == "-") then
          diff rep ln "model" s!"case={rs.cid} writeReq: model={(tohex m).take 120} impl={obs.take 120}"
        ok rep
    | ["rreq", hx] =>
        let inp := unhex hx
        let ro := Proto.readReq rs.cfg {} inp
        let m : String := match ro.res with
          | .ok =>
            let ks := ",".intercalate (ro.req.keys.map tohex)
            let isItem := Proto.isStoreCmd ro.req.cmd || ro.req.cmd == Proto.ascii "incr" || ro.req.cmd == Proto.ascii "decr"
            let body := if isItem then tohex ro.req.body else "-"
            s!"OK n={ro.n} cmd={tohex ro.req.cmd} keys={ks} flag={ro.req.flag} exptime={ro.req.exptime} cas={ro.req.cas} body={body} noreply={if ro.req.noreply then 1 else 0}"
          | .net => s!"ERR network_error n={ro.n}"
          | .err .invalidCmd => s!"ERR invalid_cmd n={ro.n}"
          | .err .valueTooLarge => s!"ERR value_too_large n={ro.n}"
          | .err .badChunk => s!"ERR bad_data_chunk n={ro.n}"
          | .err .nonMemcache => s!"ERR non_memcache_command n={ro.n}"
        if m ≠ obs then diff rep ln "model" s!"case={rs.cid} readReq: model={m.take 160} impl={obs.take 160}"
        -- oracle (round trip): the previous line was the request these bytes were written from
        ok rep
    | ["rresp", hx] =>
        let inp := unhex hx
        let m : String := match Proto.readResp rs.cfg 100000 inp [] with
          | none => "ERR"
          | some (r, rest) =>
            let items := (r.items.toArray.qsort (fun a b => tohex a.key < tohex b.key)).toList
            let is := if items.isEmpty then "-" else ",".intercalate (items.map fun it => s!"{tohex it.key}:{it.flag}:{it.cas}:{tohex it.body}")
            s!"OK rest={rest.length} status={tohex r.status} msg={tohex r.msg} items={is}"
        if m ≠ obs && obs ≠ "PANIC" then diff rep ln "model" s!"case={rs.cid} readResp: model={m.take 160} impl={obs.take 160}"
        if obs == "PANIC" then diff rep ln "oracle" s!"case={rs.cid} key=C11/panic the reply parser panicked on {hx.take 80}"
        ok rep
    | ["end"] => pure ()
    | _ => pure ()
  rep.get

end Driver.Proto
