import Driver.Util
import GoBeans.Gen.Kernels
import GoBeans.Spec.Hash

/-! engine `hash` (C16): implementation output vs regenerated code (`Gen`, tie A cross-check)
    and vs the reference definitions (`Ref`, the property oracle). -/
namespace Driver.Hash
open Driver

def check (rep : IO.Ref Report) (ln : Nat) (name : String) (obs : String) (gen : Nat) (ref : Nat) : IO Unit := do
  let o := obs.trim.toNat!
  if gen ≠ o then diff rep ln "model" s!"{name}: impl={o} Gen={gen}"
  if ref ≠ o then diff rep ln "oracle" s!"{name}: impl={o} Ref={ref}"
  ok rep

def run (lines : Array String) : IO Report := do
  let rep ← IO.mkRef ({} : Report)
  let mut ln := 0
  for l in lines do
    ln := ln + 1
    if l.startsWith "#" then continue
    let (ws, obs) := splitLine l
    match ws with
    | ["fnv", h] => let b := unhex h; check rep ln "fnv1a" obs (Gen.fnv1a b).toNat (Ref.fnv1aSigned b)
    | ["ufnv", h] => let b := unhex h; check rep ln "utils.Fnv1a" obs (Gen.utilsFnv1a b).toNat (Ref.fnv1aSigned b)
    | ["mur", h] => let b := unhex h; check rep ln "murmur" obs (Ref.murmurU32 b).toNat (Ref.murmur3_32 b)
    | ["kh", h] => let b := unhex h; check rep ln "keyhash" obs (Gen.getKeyHashDefalut b).toNat (Ref.keyHash b)
    | ["vh", h] => let b := unhex h; check rep ln "vhash" obs (Gen.Getvhash b).toNat (Ref.vhash b)
    | ["crc", h] => let b := unhex h; check rep ln "crc" obs (Gen.crc32_get (Gen.crc32_write 0xFFFFFFFF b)).toNat (Ref.crc32 b)
    | ["crc3", hd, k, h] =>
        let hd := unhex hd; let k := unhex k; let b := unhex h
        check rep ln "getCRC" obs (Gen.getCRC hd k b).toNat (Ref.crc32 (hd.drop 4 ++ k ++ b))
    | ["rcrc", k, body, _, _, _] =>
        -- the CRC field a record is stored with = CRC-32 of everything behind it (header tail, key, value): the
        -- reference over the bytes the writer produced, and the regenerated composition `Gen.getCRC`
        let enc := unhex obs.trim
        let key := unhex k; let val := unhex body
        let stored := Go.getLE 4 enc
        let refv := Ref.crc32 (enc.drop 4)
        if enc.length ≠ 24 + key.length + val.length then diff rep ln "oracle" s!"rcrc: encoded record has {enc.length} bytes, expected {24 + key.length + val.length}"
        if stored ≠ refv then diff rep ln "oracle" s!"record CRC field: stored={stored} reference CRC-32 of the record bytes={refv} (key {key.length} bytes, value {val.length} bytes)"
        let gen := (Gen.getCRC (enc.take 24) key val).toNat
        if gen ≠ stored then diff rep ln "model" s!"record CRC field: stored={stored} Gen.getCRC={gen}"
        ok rep
    | _ => diff rep ln "driver" s!"unparsed line: {l.take 60}"
  rep.get

end Driver.Hash
