import Driver.Util
import Driver.Conc
import Driver.ConcFineE
import GoBeans.Model.ConcGC

/-!
  engine concgc (C05): controlled-schedule correspondence for `Model/ConcGC.lean`.

  The harness (harness/cmd/hx/concgc.go) runs the REAL bucket with client goroutines AND the goroutine of one GC pass
  parked at the hook points that are the micro-step boundaries of the model, releases one goroutine per decision and
  writes, after every decision,
      sched <tid> <act> => en= lab= loc= clk= head= wbs= ch= pend= it= lk= thr= fatal= rerr= g= gloc= gsrc= gdst= gw= gpos= gbuf= grw= gcancel= fails= resp=
  This driver replays the same decisions through `ConcGC.step` and compares after EVERY decision (kind=model):
    the fields of engine concfine on the embedded `base` state (en, lab, loc, clk, head, wbs, ch, it, lk, thr, fatal);
    g = `gpcLabel` of the GC thread, gsrc, gdst, gw (gcWriter open), gpos (its file position, while open), gbuf (bytes in
    its bufio layer), grw (rewriting), fails (gets that ended in an error);
    resp: the reply of an operation that returned at this step (`err` = the get failed: `fails` grew by one).
  At the end of the case: the real per-key histories (failed gets left out, as in the model) against `histOf`
  (kind=model) and against the conditions of the property, `Conc.checkA` / `Conc.checkB` (kind=oracle,
  key=C05/...); a fatal exit is key=C05/fatal-error, a failed get key=C05/operation-error.
  `NOTE` lines report which monitors of the model have fired (hazCold / hazInplace / hazReuse).
-/
namespace Driver.ConcGCE
open Driver
open ConcFine
open Driver.ConcFineE (b01 showInt showChunk showItem showOut showThr pcLoc isIdle insertSorted)

def parseAct (ws : List String) : Option ConcGC.Act :=
  match ws with
  | "gcstart" :: b :: e :: _ => some (.gcStart b.toNat! e.toNat!)
  | ["gcgo"] => some .gcGo
  | ["gccancel"] => some .gcCancel
  | _ => match Driver.ConcFineE.parseAct ws with
    | some (.call op) => some (.call op)
    | some .go => some .go
    | none => none

def isGCAct : ConcGC.Act → Bool
  | .gcStart .. | .gcGo | .gcCancel => true
  | _ => false

/-- the fields of the embedded client state, in the harness's rendering -/
def predictBase (cfg : ConcGC.GCfg) (keys tids : List Nat) (s : ConcGC.State) (en : Bool) : List (String × String) :=
  let o := observe s.base keys
  [("en", b01 en), ("clk", toString s.base.clock), ("head", toString o.head), ("wbs", toString o.wbufSize),
   ("ch", ";".intercalate (o.chunks.map showChunk)), ("it", "|".intercalate (o.items.map showItem)),
   ("lk", b01 s.base.writeLock.isSome ++ b01 s.base.dsLock.isSome ++ b01 s.base.flushLock.isSome),
   ("thr", showThr cfg.fine s.base tids), ("fatal", b01 o.fatal), ("fails", toString s.fails)]

/-- the GC thread -/
def predictGC (s : ConcGC.State) : List (String × String) :=
  let g := s.gc
  let lab := ConcGC.gpcLabel g.pc
  (if g.started then
     [("g", lab), ("gdst", toString g.dst), ("gw", b01 g.wopen), ("gbuf", toString ((g.gbuf.map (·.size)).sum)),
      ("grw", b01 g.rewr), ("gcancel", b01 g.cancel)]
     ++ (if lab == "gc.begin" then [] else [("gsrc", toString g.src)])      -- gc.Src is assigned by the loop header
     ++ (if g.wopen then [("gpos", toString g.wpos)] else [])
   else [("g", "gc.idle")])

/-- GC's initial flush (`flushPendingBelow(end + 1)` at the start of `GCMgr.gc`, /repo fix of F25): every file up to the end
    of the range that still has buffered records is flushed before the pass looks at anything.  In the model this is
    a SCHEDULE, not a new step: a flusher thread (`flush(c, force)`) run to completion for each such file right before
    `gcStart` — so the repaired code always takes the model's path on which the monitor `hazCold` does not fire at the
    start.  If the flush lock is held the real pass waits; the model is left as it is (the decision is then compared
    as usual and shows the difference). -/
def gcInitialFlush (cfg : ConcGC.GCfg) (s : ConcGC.State) (e : Nat) : ConcGC.State := Id.run do
  let mut s := s
  for c in List.range (e + 1) do
    if !(s.base.chunks c).wbuf.isEmpty then
      let tid := 9000 + c
      match ConcGC.liftBase s (invoke s.base tid (.flush (some c) true false)) with
      | none => pure ()
      | some s1 =>
        let mut cur := s1
        let mut fuel := 100000
        while fuel > 0 && !(isIdle (cur.base.thr tid).pc) do
          fuel := fuel - 1
          match ConcGC.cmicro cfg cur tid with
          | some n => cur := n
          | none => fuel := 0
        if isIdle (cur.base.thr tid).pc then s := cur
  return s

def run (lines : Array String) : IO Report := do
  let rep ← IO.mkRef ({} : Report)
  let mut ln := 0
  let mut cid := ""
  let mut sched := ""        -- the schedule's name: part of every oracle key (a known finding names one schedule, not a class)
  let mut cfg : ConcGC.GCfg := {}
  let mut keys : List Nat := []
  let mut tids : List Nat := []
  let mut s : ConcGC.State := ConcGC.init
  let mut evs : Array Driver.ConcFineE.RawEv := #[]
  let mut ndiff := 0
  let mut decisions := 0
  for l in lines do
    ln := ln + 1
    if l.startsWith "#" then continue
    let (ws, obs) := splitLine l
    match ws with
    | "case" :: id :: opts =>
        cid := id
        sched := "concgc-" ++ (if id.endsWith "-api" then (id.dropEnd 4).toString else id)
        cfg := { fine := { dataFileMax := ((Conc.kvOpt opts "dfmax").getD "16").toNat! },
                 bodyMax := ((Conc.kvOpt opts "bodymax").getD "0").toNat! / 256 }
        let nk := (((Conc.kvOpt opts "keys").getD "").splitOn ",").length
        keys := List.range nk
        tids := []; s := ConcGC.init; evs := #[]; ndiff := 0; decisions := 0
    | "cfdisagree" :: _ =>
        diff rep ln "model" s!"case={cid} key=C05/schedule-control {l.take 220}"
    | "open" :: _ =>
        diff rep ln "model" s!"case={cid} key=C05/schedule-control the store did not open: {obs.take 120}"
    | "sched" :: tidS :: actWs =>
        let t := tidS.toNat!
        decisions := decisions + 1
        match parseAct actWs with
        | none => diff rep ln "model" s!"case={cid} key=C05/gc-model unreadable decision: {l.take 120}"
        | some a =>
          if !(isGCAct a) then tids := insertSorted t tids
          let ows := obs.splitOn " "
          match a with
          | .gcStart _ e => s := gcInitialFlush cfg s e
          | _ => pure ()
          let pre := s
          let (s1, en) := match ConcGC.step cfg s t a with
            | some s' => (s', true)
            | none => (s, false)
          s := s1
          let mut exp := predictBase cfg keys tids s en ++ predictGC s
          if !(isGCAct a) then
            let pc := (s.base.thr t).pc
            exp := exp ++ [("lab", pcLabel pc)]
            if !(isIdle pc) then exp := exp ++ [("loc", pcLoc pc)]
            -- the reply the model gives at this decision
            let resp :=
              if en && isIdle pc && !(isIdle (pre.base.thr t).pc) then
                if s.fails == pre.fails + 1 then "err"
                else match s.base.hist.find? (fun e => e.tid == t && e.done && e.ev.resp == pre.base.clock) with
                  | some e => showOut e.ev.out
                  | none => "fl"
              else "-"
            exp := exp ++ [("resp", resp)]
          -- a Fatalf in this step: the real process is gone (the harness sees the goroutine end, its deferred unlocks
          -- run); the model keeps the thread where it is: only the data is compared on that line
          if s.base.fatal then
            exp := exp.filter fun (n, _) => !(["lk", "thr", "lab", "loc", "resp"].contains n)
          let mut bad : List String := []
          for (name, want) in exp do
            let got := (Conc.kvOpt ows name).getD "?"
            let got := if name == "resp" && got.startsWith "err:" then "err" else got
            if got ≠ want then bad := bad ++ [s!"{name}: real {got} model {want}"]
          if bad.isEmpty then ok rep
          else
            ndiff := ndiff + 1
            if ndiff ≤ 3 then
              diff rep ln "model" s!"case={cid} key=C05/gc-model decision {decisions} (thread {t} {" ".intercalate actWs}): {"; ".intercalate bad}"
            else if ndiff == 4 then
              diff rep ln "model" s!"case={cid} key=C05/gc-model further decisions of this case disagree as well (the states have diverged); they are counted, not printed"
            else rep.modify fun r => { r with diffs := r.diffs + 1 }
          if (Conc.kvOpt ows "fatal") == some "1" then
            diff rep ln "oracle" s!"case={cid} key=C05/fatal-error/{sched} a goroutine of the store hit a fatal error (process exit) at decision {decisions}"
    | "ev" :: opts =>
        let geti := fun n => Conc.parseInt ((Conc.kvOpt opts n).getD "0")
        let opc := (Conc.kvOpt opts "op").getD "r"
        let val := (geti "val").toNat
        let ver := (geti "ver").natAbs
        let state := (Conc.kvOpt opts "state").getD "ok"
        let op : _root_.Conc.AOp := if opc == "w" then .write val else if opc == "d" then .delete else .read
        let out : _root_.Conc.Out :=
          if opc == "r" then .got val ver else if ver ≠ 0 then .acc ver else .rej
        if state == "err" then
          diff rep ln "oracle" s!"case={cid} key=C05/operation-error/{sched} an operation ended in an error: {l.take 160}"
        else
          evs := evs.push { key := (geti "key").toNat, cl := (geti "cl").toNat, state := state, line := ln,
                            ev := { op := op, inv := (geti "inv").toNat, resp := (geti "resp").toNat, out := out } }
        ok rep
    | "end" :: opts =>
        IO.println s!"NOTE case={cid} monitors of the model: hazCold={b01 s.hazCold} hazInplace={b01 s.hazInplace} hazReuse={b01 s.hazReuse} fails={s.fails} fatal={b01 s.base.fatal} gc={ConcGC.gpcLabel s.gc.pc}"
        if (Conc.kvOpt opts "ok") ≠ some "1" then
          diff rep ln "model" s!"case={cid} key=C05/schedule-control the harness gave the case up after {decisions} decisions"
        else
          for k in keys do
            let real := (evs.toList.filter (·.key == k)).map (·.ev)
            if s.base.hist.all (·.done) then
              let model := (histOf s.base k).map fun e => { e with lin := 0 }
              let missing := model.filter fun e => !(real.contains e)
              let extra := real.filter fun e => !(model.contains e)
              if !missing.isEmpty || !extra.isEmpty || real.length ≠ model.length then
                diff rep ln "model" s!"case={cid} key=C05/gc-model history of key {k}: only in the model {reprStr missing}, only in the real run {reprStr extra}"
              else ok rep
            if !_root_.Conc.checkA real then
              let badr := real.filter fun r => !_root_.Conc.readOK real r
              diff rep ln "oracle" s!"case={cid} key=C05/stale-or-unwritten-read/{sched} key {k}: {reprStr badr}"
            else ok rep
            if !_root_.Conc.checkB real then
              diff rep ln "oracle" s!"case={cid} key=C05/version-order/{sched} key {k}: accepted writes without distinct versions in real-time order"
            else ok rep
    | _ => pure ()
  rep.get

end Driver.ConcGCE
