import Driver.Util
import GoBeans.Model.Hint
import GoBeans.Model.HintMerge

/-! engine `hint` (C14): real hint writer / reader / index / lookup / merge against the byte-level model
    (kind=model) and the list-level specification (kind=oracle). -/
namespace Driver.HintE
open Driver Hint

def parseIntS (s : String) : Int := if s.startsWith "-" then - ((s.drop 1).toNat!) else s.toNat!

def parseItem (s : String) : Item :=
  match s.splitOn ":" with
  | [kh, ck, off, ver, vh, k] => { khash := kh.toNat!, chunk := ck.toNat!, off := off.toNat!, ver := parseIntS ver, vhash := vh.toNat!, key := unhex k }
  | _ => default

def parseItems (s : String) : List Item := if s == "-" || s == "" then [] else (s.splitOn ",").map parseItem

def fmtItem (it : Item) : String := s!"{it.khash}:{it.chunk}:{it.off}:{it.ver}:{it.vhash}:{tohex it.key}"
def fmtItems (l : List Item) : String := if l.isEmpty then "-" else ",".intercalate (l.map fmtItem)

/-- insertion into a list kept in (khash, key) order (the harness prints the collision table sorted that way) -/
def insK (x : Item) : List Item → List Item
  | [] => [x]
  | y :: ys => if HintMerge.keyLt x y then x :: y :: ys else y :: insK x ys

def kvOpt (ws : List String) (name : String) : Option String :=
  ws.findSome? fun w => if w.startsWith (name ++ "=") then some (w.drop (name.length + 1)).toString else none

structure St where
  interval : Int := 4096
  items : List Item := []
  file : Bytes := []
  idx : List (Nat × Nat) := []
  caseId : String := ""

def run (lines : Array String) : IO Report := do
  let rep ← IO.mkRef ({} : Report)
  let mut st : St := {}
  let mut ln := 0
  let mut cases := 0
  for l in lines do
    ln := ln + 1
    if l.startsWith "#" then continue
    let (ws, obs) := splitLine l
    let cid := st.caseId
    match ws with
    | "case" :: id :: opts =>
        st := { caseId := id, interval := parseIntS ((kvOpt opts "interval").getD "4096") }
        cases := cases + 1
    | "hwrite" :: opts =>
        let ds := ((kvOpt opts "ds").getD "0").toNat!
        let items := parseItems ((kvOpt opts "items").getD "-")
        let f := writeFile st.interval items ds
        if tohex f ≠ obs then
          diff rep ln "model" s!"case={cid} hint file bytes differ (model {f.length} bytes, impl {obs.length / 2} bytes)"
        let idx := match loadIndex f with | .ok i => i | .error _ => []
        st := { st with items := items, file := unhex obs, idx := idx }
        ok rep
    | ["hread"] =>
        let m := match readAll st.file with
          | .ok (items, mt) => s!"ds={mt.datasize} numkey={mt.numKey} items={fmtItems items}"
          | .error _ => "ERR"
        if m ≠ obs then diff rep ln "model" s!"case={cid} hread: model={m.take 120} impl={obs.take 120}"
        -- oracle: exactly the items written, in order
        let want := fmtItems st.items
        if !(obs.endsWith ("items=" ++ want)) then
          diff rep ln "oracle" s!"case={cid} key=C14/roundtrip items read back differ from the items written"
        ok rep
    | ["hindex"] =>
        let m := match loadIndex st.file with
          | .ok idx => if idx.isEmpty then "-" else ",".intercalate (idx.map fun p => s!"{p.1}:{p.2}")
          | .error _ => "ERR"
        if m ≠ obs then diff rep ln "model" s!"case={cid} hindex: model={m.take 120} impl={obs.take 120}"
        -- oracle: every index entry is (hash of an item, the true file offset of that item), offsets increasing
        let offs := (st.items.foldl (fun (acc : List (Nat × Nat) × Nat) it => (acc.1 ++ [(it.khash, acc.2)], acc.2 + itemSize it)) ([], 16)).1
        let entries := if obs == "-" then [] else (obs.splitOn ",").map fun e => match e.splitOn ":" with | [a, b] => (a.toNat!, b.toNat!) | _ => (0, 0)
        for e in entries do
          if !(offs.contains e) then diff rep ln "oracle" s!"case={cid} key=C14/index-entry index entry {e.1}:{e.2} is not (hash, offset) of a written item"
        ok rep
    | ["hlookup", kh, k] =>
        let key := unhex k
        let fmtR := fun (r : Except RErr (Option Item)) => match r with
          | .ok (some it) => fmtItem it | .ok none => "NONE" | .error _ => "ERR"
        let m := fmtR (lookup true st.file st.idx kh.toNat! key)
        if m ≠ obs then diff rep ln "model" s!"case={cid} hlookup {kh}: model={m.take 100} impl={obs.take 100}"
        -- oracle: the item iff present; an absent pair is NONE, never an error
        let want := match st.items.find? (fun it => it.khash == kh.toNat! && it.key == key) with
          | some it => fmtItem it | none => "NONE"
        if want ≠ obs then
          let kind := if obs == "ERR" || obs == "PANIC" then "C14/lookup-error-for-absent-key" else "C14/lookup-wrong"
          diff rep ln "oracle" s!"case={cid} key={kind} lookup of ({kh},{k.take 20}) expected {want.take 80} got {obs.take 80}"
        ok rep
    | "hmerge" :: srcs0 =>
        let forGC := srcs0.head? == some "gc"
        let srcs := if forGC then srcs0.drop 1 else srcs0
        let parsed := srcs.filterMap fun s => match s.splitOn "=" with
          | [ck, its] => some (ck.toNat!, parseItems its) | _ => none
        let ds := (List.range parsed.length).foldl (fun m i => max m (1000 * (i + 1))) 0
        -- model: the k-way heap merge of hintmerge.go step by step (Model/HintMerge.lean, Go's container/heap transcribed)
        let mm := match HintMerge.kway HintMerge.goHeap parsed with
          | .panic => "PANIC"
          | .aborted _ => "ERR"
          | .ok out coll =>
              if forGC then s!"coll={fmtItems ((coll.foldl HintMerge.ctSet []).foldr insK [])}"
              else s!"ds={ds} merged={fmtItems out} coll={fmtItems ((coll.foldl HintMerge.ctSet []).foldr insK [])}"
        if mm ≠ obs then diff rep ln "model" s!"case={cid} hmerge: model={mm.take 200} impl={obs.take 200}"
        -- oracle: the specification (per key the entry of greatest position, in (hash,key) order; every member of every
        -- group of different keys sharing a hash reported) — stated for the inputs the code is meant for: sources
        -- non-empty and strictly sorted, no two entries with the same key AND the same position
        let ne := parsed.filter (fun s => !s.2.isEmpty)     -- a hint file without items contributes nothing
        if obs == "PANIC" then diff rep ln "oracle" s!"case={cid} key=C14/panic-empty-source the merge panicked"
        if HintMerge.srcsOK ne && HintMerge.noTies (HintMerge.allItems ne) then
          let (merged, groups) := merge parsed
          let m := if forGC then s!"coll={fmtItems groups}" else s!"ds={ds} merged={fmtItems merged} coll={fmtItems groups}"
          if m ≠ obs then diff rep ln "oracle" s!"case={cid} key=C14/merge merge result differs from the specification: spec={m.take 200} impl={obs.take 200}"
        ok rep
    | ["end"] => pure ()
    | _ => diff rep ln "driver" s!"unparsed line: {l.take 60}"
  IO.println s!"#cases {cases}"
  rep.get

end Driver.HintE
