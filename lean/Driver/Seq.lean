import Driver.Util
import GoBeans.Model.Store
import GoBeans.Model.GC
import GoBeans.Model.LogView
import GoBeans.Model.Tree
import GoBeans.Model.Crash
import GoBeans.Spec.KV

/-! engine `seq`: a real HStore driven by one client, against
    * the bucket model (`Store.step`, kind=model: replies, positions, data-file inventories) and
    * the reference map (`Spec.step`, kind=oracle: the property statement of C01/C02/C03/C13). -/
namespace Driver.Seq
open Driver

structure Cfg where
  nb : Nat := 1
  served : List Nat := []
  height : Nat := 3
  checkVHash : Bool := false
  dfmax : Nat := 0
  listKey : Nat := 256

structure SpecEntryX where
  verExact : Bool := true      -- false once a version changed without a data write (check_vhash + explicit revision)

/-- one crash state: what the model says recovery gives, and what the property allows -/
structure Snap where
  inGC : Bool
  torn : Bool
  recovered : Store.Bucket
  allowed : List (Bytes × List String)      -- per key: the replies a get may give after recovery (C06)
  exact : List (Bytes × String)             -- per key: the reply required (C07: the value before the pass)
  label : String
  durable : List (Bytes × Store.Pos × Nat × String) := []   -- the acknowledged writes whose record lies completely in the surviving bytes
  life2 : Bool := false     -- taken in the second process life: version numbers are not compared (whether a delete marker's
                            -- version survives the first recovery depends on which index files the kill left — C02's proviso)

structure St where
  cfg : Cfg := {}
  caseId : String := ""
  buckets : Array Store.Bucket := #[]
  spec : Spec.KV := []
  inexact : List Spec.Key := []          -- keys whose version is not compared (C02 proviso)
  dataVer : List (Spec.Key × Int) := []  -- version carried by the last DATA write of each key (what a rebuild recovers)
  scfg : Store.Cfg := {}
  active : Bool := false
  lastFiles : String := ""               -- the implementation's last data-file inventory (independent scan)
  gcPending : Option (Nat × Nat × Nat × String) := none   -- bucket, start, end, inventory before the pass
  -- engine crash
  writes : List (Bytes × Store.Pos × Nat × String) := []  -- acknowledged writes in order: key, position, on-disk size, what a get returns afterwards
  snaps : List (Nat × Snap) := []
  inLife2 : Bool := false
  gcSpec : Option Spec.KV := none                          -- the reference map when the GC pass began (C07)
  gcPre : Option (Store.Bucket × Nat × Nat) := none        -- the bucket model before the pass, and the resolved range
  groups : List (List Bytes) := []                         -- mix collide (C13): keys forced onto one key hash; the model is not compared
  safe : Bool := false                                     -- mix collide-safe: every colliding key was written and read once first; no known finding applies
  phase : String := "plain"                                -- mix collide: the strongest structural event of the case so far (plain < reload < rebuild < gc)

def depthOf (nb : Nat) : Nat := if nb ≥ 256 then 2 else if nb ≥ 16 then 1 else 0

def keyHash (k : Bytes) : Nat := (Gen.getKeyHashDefalut k).toNat

def bucketOf (nb : Nat) (k : Bytes) : Nat :=
  let d := depthOf nb
  if d = 0 then 0 else keyHash k / 2 ^ (64 - 4 * d)

/-- the bucket the REFERENCE key hash (C16) names — the oracle for C15 -/
def refBucketOf (nb : Nat) (k : Bytes) : Nat :=
  let d := depthOf nb
  if d = 0 then 0 else Ref.keyHash k / 2 ^ (64 - 4 * d)

def bodysum (b : Bytes) : String := s!"{b.length}.{(Gen.utilsFnv1a b).toNat}"
def valSummary (b : Bytes) : String := if b.length ≤ 64 then tohex b else "S" ++ bodysum b

def parseInt (s : String) : Int :=
  if s.startsWith "-" then - ((s.drop 1).toNat!) else s.toNat!

def kvOpt (ws : List String) (name : String) : Option String :=
  ws.findSome? fun w => match w.splitOn "=" with
    | [n, v] => if n == name then some v else none
    | _ => none

def fmtPos (bkt : Nat) (p : Option Store.Pos) : String :=
  match p with
  | some p => s!"{bkt}/{p.chunk}:{p.off}"
  | none => "-"

/-- expected on-disk size of an uncompressed record -/
def plainSize (klen blen : Nat) : Nat := (24 + klen + blen + 255) / 256 * 256

def hex16 (n : Nat) : String :=
  String.mk ((List.range 16).map fun i => hexDigit ((n / 16 ^ (15 - i)) % 16))

def hexVal1 (c : Char) : Nat := hexVal c

/-- canonical text of a listing: node lines in order; item lines sorted (leaf order is insertion order) -/
def fmtListing : Tree.Listing → String
  | .nodes ch => "[" ++ "|".intercalate ((List.range ch.length).map fun i =>
      let (h, c) := ch.getD i (0, 0); s!"{String.mk [hexDigit i]}/ {h} {c}") ++ "]"
  | .items es =>
      let lines := (es.map fun e => s!"{hex16 e.khash} {e.vhash} {e.ver}").toArray.qsort (· < ·)
      "[" ++ "|".intercalate lines.toList ++ "]"
  | .none => "NIL"

def canonListing (obs : String) : String :=
  -- sort item lines of an observed listing (node listings keep their order)
  if obs.startsWith "[" && obs.endsWith "]" then
    let body := ((obs.drop 1).dropEnd 1).toString
    let lines := if body.isEmpty then [] else body.splitOn "|"
    if lines.all (fun l => l.contains '/') then obs
    else "[" ++ "|".intercalate (lines.toArray.qsort (· < ·)).toList ++ "]"
  else obs

def contentOfTree (t : List (Nat × Store.TItem)) : Tree.Content :=
  t.map fun (h, it) => { khash := h, ver := it.ver, vhash := it.vhash }

def contentOfSpec (sp : Spec.KV) : Tree.Content :=
  sp.map fun (k, e) => { khash := Ref.keyHash k, ver := e.ver, vhash := if e.ver > 0 then Ref.vhash e.body else 0 }

/-- the listing at a hex prefix, from per-bucket contents -/
def listAt (cfg : Cfg) (content : Nat → Tree.Content) (prefixStr : String) : Tree.Listing :=
  let ds := prefixStr.toList.map hexVal1
  let depth := depthOf cfg.nb
  if ds.length ≥ depth then
    let bkt := Tree.digitsVal (ds.take depth)
    if !(cfg.served.contains bkt) then .items []
    else Tree.listBucket (content bkt) depth cfg.height cfg.listKey ds
  else
    Tree.listUpper (fun b => if cfg.served.contains b then Tree.nodeSum (content b) depth b (cfg.height - 1) else (0, 0)) depth ds

def filesOfModel (buckets : Array Store.Bucket) : String := Id.run do
  let mut out := ""
  let mut bi := 0
  for b in buckets do
    let mut ci := 0
    for c in b.chunkList do
      let onDisk := c.recs.take c.flushed
      if !onDisk.isEmpty then
        let sz := match onDisk.getLast? with
          | some (o, r) => o + r.size
          | none => 0
        let items := ",".intercalate (onDisk.map fun (o, r) => s!"{o}:{tohex r.key}:{r.ver}")
        out := out ++ s!" {bi}/{ci}:{sz}:{items}"
      else if c.created then
        out := out ++ s!" {bi}/{ci}:0:"
      ci := ci + 1
    bi := bi + 1
  return out

def fmtGet (r : Spec.Reply) : String := match r with
  | .value f body => s!"VAL {f} {valSummary body}" | .miss => "MISS" | _ => "ERR"

/-- remember an acknowledged write that put a record on (eventually) disk -/
def noteWrite (st : St) (scfg : Spec.Cfg) (k : Bytes) (pos : Option Store.Pos) (size : Nat) : St :=
  match pos with
  | some p => { st with writes := st.writes ++ [(k, p, size, fmtGet (Spec.step scfg st.spec (.get k)).2)] }
  | none => st

def parseSizes (s : String) : List (Nat × Nat) :=
  if s == "-" then [] else (s.splitOn ",").filterMap fun x => match x.splitOn ":" with
    | [c, n] => some (c.toNat!, n.toNat!)
    | _ => none

def run (lines : Array String) : IO Report := do
  let rep ← IO.mkRef ({} : Report)
  let mut st : St := {}
  let mut ln := 0
  let mut cases := 0
  let mut nontrivial := 0
  let mut caseNontrivial := false
  for l in lines do
    ln := ln + 1
    if l.startsWith "#" then continue
    let (ws, obs) := splitLine l
    let cid := st.caseId
    match ws with
    | "case" :: id :: opts =>
        let nb := ((kvOpt opts "nb").getD "1").toNat!
        let served := (((kvOpt opts "served").getD "").splitOn ",").filterMap (fun s => s.toNat?)
        let cv := (kvOpt opts "checkvhash").getD "0" == "1"
        let dfmax := ((kvOpt opts "dfmax").getD "0").toNat!
        let cfg : Cfg := { nb := nb, served := served, height := ((kvOpt opts "height").getD "3").toNat!, checkVHash := cv, dfmax := dfmax,
                           listKey := ((kvOpt opts "listkey").getD "256").toNat! }
        st := { cfg := cfg, caseId := id, buckets := Array.replicate nb ({} : Store.Bucket), spec := [],
                scfg := { dataFileMax := dfmax, checkVHash := cv, bodyMax := ((kvOpt opts "bodymax").getD "1048576").toNat! }, active := true }
        cases := cases + 1
        caseNontrivial := false
    | ["open"] => st := { st with active := false }
    | "groups" :: gs :: more =>
        st := { st with groups := (gs.splitOn ";").map fun g => (g.splitOn ",").map unhex, safe := more.contains "safe" }
    | _ =>
    if !st.active then continue
    -- mix collide: every key of a group has the key hash of the group's first key
    let hash : Bytes → Nat := fun k => match st.groups.find? (fun g => g.contains k) with
      | some (leader :: _) => keyHash leader
      | _ => keyHash k
    let colliding : Bytes → Bool := fun k => st.groups.any (fun g => g.contains k)
    let opfx : Bytes → String := fun k => if colliding k then "C13" else "C01"
    let servedKey := fun (k : Bytes) => st.cfg.served.contains (bucketOf st.cfg.nb k)
    let scfgSpec : Spec.Cfg := { checkVHash := st.cfg.checkVHash }
    -- C15: the code's (regenerated) key hash must route every key like the reference key hash
    match ws with
    | op :: kh :: _ =>
        if ["set", "del", "incr", "get", "meta"].contains op then
          let k := unhex kh
          if bucketOf st.cfg.nb k ≠ refBucketOf st.cfg.nb k then
            diff rep ln "oracle" s!"case={cid} key=C15/route-hash key {kh.take 40} is routed to bucket {bucketOf st.cfg.nb k} but the leading digits of its reference key hash name bucket {refBucketOf st.cfg.nb k}"
    | _ => pure ()
    match ws with
    | "set" :: kh :: bh :: flag :: rev :: ts :: rest =>
        let k := unhex kh; let body := unhex bh
        let size := ((kvOpt rest "size").getD "0").toNat!
        let bkt := bucketOf st.cfg.nb k
        if !servedKey k then
          if obs ≠ "STORED pos=-" then diff rep ln "oracle" s!"case={cid} key=C15/unserved-bucket-write set on a key of unserved bucket {bkt}: {obs}"
          ok rep
        else
          let b := st.buckets[bkt]!
          let (b', r, pos) := Store.step hash st.scfg b (.set k body flag.toNat! (parseInt rev) ts.toNat! size)
          let m := (if r == .stored then "STORED" else "ERR") ++ " pos=" ++ fmtPos bkt pos
          if m ≠ obs then diffIf st.groups.isEmpty rep ln "model" s!"case={cid} set: model={m} impl={obs}"
          -- C10 decision oracle: the on-disk size is the plain padded size, or smaller only when compression was allowed
          -- (judged on what the IMPLEMENTATION wrote: in mix collide the bucket model is not in step with the store, so
          --  whether the model would have written is no evidence that a record exists)
          if pos.isSome && !(obs.endsWith "pos=-") then
            let plain := plainSize k.length body.length
            let mayCompress : Bool := decide (plain > 256) && (flag.toNat! &&& 0x10) == 0 && (flag.toNat! &&& 0x10000) == 0
            if !(size == plain || (mayCompress && decide (size < plain) && size % 256 == 0 && decide (size > 0))) then
              if colliding k then diff rep ln "oracle" s!"case={cid} key=C13/{if st.safe then "safe/" else ""}write-path-takes-other-keys-item set of a colliding key acknowledged but {size} bytes written (plain {plain})"
              else diff rep ln "oracle" s!"case={cid} key=C10/size record of {k.length}+{body.length} bytes occupies {size} bytes (plain {plain}, compression allowed: {mayCompress})"
          let (sp', sr) := Spec.step scfgSpec st.spec (.set k body flag.toNat! (parseInt rev) ts.toNat!)
          let so : String := if sr == .stored then "STORED" else "NOT_STORED"
          let overflow : Bool := match AMap.get st.spec k with | some e => decide (e.ver.natAbs ≥ 2147483647) | none => false
          if !(obs.startsWith so) then
            if overflow then diff rep ln "oracle" s!"case={cid} key={opfx k}/version-overflow set refused ({obs}) because the stored version has reached the int32 limit"
            else diff rep ln "oracle" s!"case={cid} key={opfx k}/set-status spec={so} impl={obs}"
          -- version proviso: a tree-only version change makes this key's version inexact from now on
          let treeOnly : Bool := st.cfg.checkVHash && pos.isNone && parseInt rev != 0 &&
            (match AMap.get st.spec k with | some e => decide (e.ver > 0) && Ref.vhash e.body == Ref.vhash body | none => false)
          -- F1: same value hash, different bytes: acknowledged but not written
          let stale : Bool := st.cfg.checkVHash && (match AMap.get st.spec k with
            | some e => decide (e.ver > 0) && Ref.vhash e.body == Ref.vhash body && (e.body != body || e.flag != flag.toNat!) | none => false)
          if stale then diff rep ln "oracle" s!"case={cid} key={opfx k}/stale-after-stored/same-vhash set acknowledged STORED but skipped because the 16-bit value hash equals the stored one while bytes or flags differ"
          -- after a version-overflow refusal the reference follows the implementation (the finding is reported once)
          let sp' := if overflow && !(obs.startsWith so) then st.spec else sp'
          let dv := if pos.isSome then (match AMap.get b'.tree (hash k) with | some it => AMap.set st.dataVer k it.ver | none => st.dataVer) else st.dataVer
          st := { st with buckets := st.buckets.set! bkt b', spec := sp', dataVer := dv, inexact := if treeOnly then k :: st.inexact else st.inexact }
          st := noteWrite st scfgSpec k pos size
          caseNontrivial := true
          ok rep
    | "del" :: kh :: rest =>
        let k := unhex kh
        let size := ((kvOpt rest "size").getD "0").toNat!
        let bkt := bucketOf st.cfg.nb k
        if !servedKey k then
          if obs ≠ "DELETED pos=-" then diff rep ln "oracle" s!"case={cid} key=C15/unserved-bucket-write delete on a key of unserved bucket {bkt}: {obs}"
          ok rep
        else
          let b := st.buckets[bkt]!
          let wts := ((kvOpt rest "ts").getD "0").toNat!
          let (b', r, pos) := Store.step hash st.scfg b (.delete k size wts)
          let m := (match r with | .deleted => "DELETED" | .notFound => "NOT_FOUND" | _ => "ERR") ++ " pos=" ++ fmtPos bkt pos
          if m ≠ obs then diffIf st.groups.isEmpty rep ln "model" s!"case={cid} del: model={m} impl={obs}"
          let (sp', sr) := Spec.step scfgSpec st.spec (.delete k)
          let so : String := match sr with | .deleted => "DELETED" | _ => "NOT_FOUND"
          if !(obs.startsWith so) then
            if colliding k then
              -- the write path takes the tree item of the key hash as this key's own old version, whichever key it belongs to
              diff rep ln "oracle" s!"case={cid} key=C13/{if st.safe then "safe/" else ""}write-path-takes-other-keys-item delete of a colliding key: reference says {so}, reply {obs}"
            else diff rep ln "oracle" s!"case={cid} key={opfx k}/delete-status spec={so} impl={obs}"
          if sr == .deleted && pos.isNone && obs.startsWith "DELETED" && !(colliding k) then
            diff rep ln "oracle" s!"case={cid} key={opfx k}/delete-not-written delete acknowledged but no tombstone record written"
          -- colliding keys: the reference follows what the client was told (a refused delete deleted nothing)
          let sp' := if colliding k && !(obs.startsWith so) then (if obs.startsWith "NOT_FOUND" then st.spec else sp') else sp'
          let dv := if pos.isSome then (match AMap.get b'.tree (hash k) with | some it => AMap.set st.dataVer k it.ver | none => st.dataVer) else st.dataVer
          st := { st with buckets := st.buckets.set! bkt b', spec := sp', dataVer := dv }
          st := noteWrite st scfgSpec k pos size
          ok rep
    | "incr" :: kh :: delta :: rest =>
        let k := unhex kh
        let size := ((kvOpt rest "size").getD "0").toNat!
        let bkt := bucketOf st.cfg.nb k
        if !servedKey k then
          if obs ≠ "0 pos=-" then diff rep ln "oracle" s!"case={cid} key=C15/unserved-bucket-write incr on a key of unserved bucket {bkt}: {obs}"
          ok rep
        else
          let b := st.buckets[bkt]!
          let wts := ((kvOpt rest "ts").getD "0").toNat!
          let (b', r, pos) := Store.step hash st.scfg b (.incr k (parseInt delta) size wts)
          let m := (match r with | .num v => s!"{v}" | _ => "ERR") ++ " pos=" ++ fmtPos bkt pos
          if m ≠ obs then diffIf st.groups.isEmpty rep ln "model" s!"case={cid} incr: model={m} impl={obs}"
          let (sp', sr) := Spec.step scfgSpec st.spec (.incr k (parseInt delta))
          let so : String := match sr with | .num v => s!"{v} " | _ => "ERR"
          if !(obs.startsWith so) then diff rep ln "oracle" s!"case={cid} key={if colliding k then s!"C13/{if st.safe then "safe/" else ""}incr/{st.phase}" else "C01/incr-value"} spec={so} impl={obs}"
          let dv := if pos.isSome then (match AMap.get b'.tree (hash k) with | some it => AMap.set st.dataVer k it.ver | none => st.dataVer) else st.dataVer
          st := { st with buckets := st.buckets.set! bkt b', spec := sp', dataVer := dv }
          st := noteWrite st scfgSpec k pos size
          ok rep
    | ["get", kh] =>
        let k := unhex kh
        let bkt := bucketOf st.cfg.nb k
        if !servedKey k then
          if obs ≠ "MISS" then diff rep ln "oracle" s!"case={cid} key=C15/unserved-bucket-read get of a key of unserved bucket {bkt}: {obs}"
          ok rep
        else
          let b := st.buckets[bkt]!
          let (_, r, _) := Store.step hash st.scfg b (.get k)
          let fmt := fun (r : Spec.Reply) => match r with
            | .value f body => s!"VAL {f} {valSummary body}" | .miss => "MISS" | _ => "ERR"
          if fmt r ≠ obs then diffIf st.groups.isEmpty rep ln "model" s!"case={cid} get: model={(fmt r).take 100} impl={obs.take 100}"
          let (_, sr) := Spec.step scfgSpec st.spec (.get k)
          if fmt sr ≠ obs then
            if colliding k then
              let symptom := if obs == "ERR" then "error" else if obs == "MISS" then "live-key-missing"
                else if fmt sr == "MISS" then "deleted-key-back" else "other-or-older-value"
              diff rep ln "oracle" s!"case={cid} key=C13/{if st.safe then "safe/" else ""}{symptom}/{st.phase} get of a colliding key: reference {(fmt sr).take 80} reply {obs.take 80}"
            else diff rep ln "oracle" s!"case={cid} key={opfx k}/get-value spec={(fmt sr).take 100} impl={obs.take 100}"
          ok rep
    | ["meta", kh] =>
        let k := unhex kh
        let bkt := bucketOf st.cfg.nb k
        if !servedKey k then
          if obs ≠ "MISS" then diff rep ln "oracle" s!"case={cid} key=C15/unserved-bucket-read meta of a key of unserved bucket {bkt}: {obs}"
          ok rep
        else
          let b := st.buckets[bkt]!
          let (_, r, pos) := Store.step hash st.scfg b (.info k)
          let ows := obs.splitOn " "
          let m := match r with
            | .info ver vh fl len ts =>
                let tss := match ts with | some t => s!"{t}" | none => ows.getD 4 "?"
                let p := match pos with | some p => s!"{p.chunk} {p.off}" | none => "? ?"
                s!"{ver} {vh} {fl} {len} {tss} {p}"
            | .miss => "MISS" | _ => "ERR"
          if m ≠ obs then diffIf st.groups.isEmpty rep ln "model" s!"case={cid} meta: model={m} impl={obs}"
          let (_, sr) := Spec.step scfgSpec st.spec (.info k)
          match (if colliding k then Spec.Reply.error else sr) with
          | .info ver vh fl len ts =>
              let verOk : Bool := st.inexact.contains k || colliding k || ows.getD 0 "" == s!"{ver}"
              let tsOk : Bool := match ts with | some t => ows.getD 4 "" == s!"{t}" | none => true
              if !(verOk && ows.getD 1 "" == s!"{vh}" && ows.getD 2 "" == s!"{fl}" && ows.getD 3 "" == s!"{len}" && tsOk) then
                diff rep ln "oracle" s!"case={cid} key={opfx k}/meta spec=({ver} {vh} {fl} {len}) impl={obs}"
          | .miss => if obs ≠ "MISS" then diff rep ln "oracle" s!"case={cid} key={opfx k}/meta spec=MISS impl={obs}"
          | _ => pure ()
          ok rep
    | ["unload", b] =>
        -- a served bucket was hot-unloaded: from here on it is an unserved bucket (C15)
        if obs ≠ "ok" then diff rep ln "oracle" s!"case={cid} key=C15/unload hot unload of bucket {b}: {obs}"
        st := { st with cfg := { st.cfg with served := st.cfg.served.filter (· != b.toNat!) } }
    | ["list", pfx] =>
        if !st.groups.isEmpty then continue
        let pfx := if pfx == "-" then "" else pfx
        let depth := depthOf st.cfg.nb
        let m := fmtListing (listAt st.cfg (fun b => contentOfTree (st.buckets[b]!).tree) pfx)
        let o := canonListing obs
        if m ≠ o then diffIf st.groups.isEmpty rep ln "model" s!"case={cid} list {pfx}: model={m.take 160} impl={o.take 160}"
        -- oracle: recomputation from the reference content alone
        let specContent := contentOfSpec st.spec
        let sc := fun (b : Nat) => specContent.filter (fun e => Tree.topDigits e.khash depth == b)
        let sl := listAt st.cfg sc pfx
        match sl with
        | .nodes _ =>
            if fmtListing sl ≠ o then diff rep ln "oracle" s!"case={cid} key=C08/node-summary list {pfx}: content says {(fmtListing sl).take 160} impl={o.take 160}"
        | .items es =>
            -- live entries exactly; tombstones may or may not be listed; nothing else
            let body : String := if o.length ≥ 2 then ((o.drop 1).dropEnd 1).toString else ""
            let lines := if body.isEmpty then [] else body.splitOn "|"
            if lines.any (fun l => l.contains '/') then
              diff rep ln "oracle" s!"case={cid} key=C08/node-summary list {pfx}: content says items, impl lists nodes {o.take 120}"
            else
              let live := (es.filter (fun e => e.ver > 0)).map fun e => s!"{hex16 e.khash} {e.vhash} {e.ver}"
              let tomb := (es.filter (fun e => e.ver < 0)).map fun e => s!"{hex16 e.khash} {e.vhash} {e.ver}"
              let inexactLine := fun (l : String) => st.inexact.any (fun k => l.startsWith (hex16 (Ref.keyHash k)))
              for l in live do
                if !(lines.contains l) && !(inexactLine l) then diff rep ln "oracle" s!"case={cid} key=C08/missing-live-item list {pfx}: live entry {l} not listed"
              for l in lines do
                if !(live.contains l) && !(tomb.contains l) && !(inexactLine l) then
                  diff rep ln "oracle" s!"case={cid} key=C08/spurious-item list {pfx}: listed entry {l} is neither a live key nor a tombstone of the content"
        | .none => pure ()
        ok rep
    | ["flush"] =>
        st := { st with buckets := st.buckets.map fun b => (Store.step hash st.scfg b .flush).1 }
    | "restart" :: opts =>
        if obs ≠ "OK" then
          diff rep ln "oracle" s!"case={cid} key=C02/refused-after-clean-shutdown restart after a clean shutdown: {obs}"
          st := { st with active := false }
        else
          let keep := (kvOpt opts "keeptree").getD "1" == "1"
          let bs := Id.run do
            let mut out : Array Store.Bucket := #[]
            let mut i := 0
            for b in st.buckets do
              out := out.push (if st.cfg.served.contains i then (Store.step hash st.scfg b (.reopen keep)).1 else b)
              i := i + 1
            return out
          -- C02: tombstones are intentionally dropped when the tree is rebuilt
          -- C02: tombstones are intentionally dropped when the tree is rebuilt; a version that was changed
          -- without a data write (check_vhash + explicit revision) falls back to the version in the data
          let sp := if keep then st.spec else
            (st.spec.filter (fun p => p.2.ver > 0)).map fun (k, e) =>
              if st.inexact.contains k then (k, { e with ver := (AMap.get st.dataVer k).getD e.ver }) else (k, e)
          let rank := fun (p : String) => if p == "gc" then 3 else if p == "rebuild" then 2 else if p == "reload" then 1 else 0
          let np := if keep then "reload" else "rebuild"
          st := { st with buckets := bs, spec := sp, inexact := if keep then st.inexact else [],
                          phase := if rank np > rank st.phase then np else st.phase }
          caseNontrivial := true
        ok rep
    | "gc" :: opts =>
        let geti := fun (n : String) => parseInt ((kvOpt opts n).getD "0")
        let bkt := (geti "bkt").toNat
        let b := st.buckets[bkt]!
        let g : Store.GcArgs := { start := geti "begin", stop := geti "end", noGCDays := geti "nogcdays", now := geti "now" }
        let pretend := geti "pretend" == 1
        match Store.gcCheckRange st.scfg b g with
        | .error _ =>
            if obs ≠ "REFUSED" then diffIf st.groups.isEmpty rep ln "model" s!"case={cid} gc range: model=REFUSED impl={obs.take 80}"
        | .ok (s, e) =>
            -- C17 oracle on the resolved range: inside the store, below the head, non-empty start
            if !(obs.startsWith s!"RANGE {s} {e}") then diffIf st.groups.isEmpty rep ln "model" s!"case={cid} gc range: model=RANGE {s} {e} impl={obs.take 80}"
            if obs.startsWith "RANGE" && st.groups.isEmpty then
              let ow := obs.splitOn " "
              let os := (ow.getD 1 "0").toNat!; let oe := (ow.getD 2 "0").toNat!
              if !(os ≤ oe && oe < b.head) then
                diff rep ln "oracle" s!"case={cid} key=C17/range resolved range [{os},{oe}] is not below the head file {b.head}"
              -- age limit: the first file after the range that has data on disk must be older than no_gc_days
              let days : Int := if g.noGCDays < 0 then st.scfg.noGCDays else g.noGCDays
              let succ := (List.range (b.head + 1)).find? (fun i => decide (i > oe) && (b.chunks i).hasDisk)
              match succ with
              | some i =>
                  match (b.chunks i).firstTs with
                  | some ts => if !(g.now - (ts : Int) > days * 86400) then
                      diff rep ln "oracle" s!"case={cid} key=C17/age-limit range [{os},{oe}] accepted although the first record of the next file {i} (ts {ts}) is not older than {days} days at {g.now}"
                  | none => pure ()
              | none => pure ()
            if !pretend && obs.startsWith "RANGE" then
              -- a pass cancelled at a file boundary (CancelGC) has looked at the files [s, stopped): it is the pass over
              -- that shorter range; cancelled before its first file it changes nothing
              let stopped := ((obs.splitOn " ").findSome? fun w => if w.startsWith "stopped=" then (w.drop 8).toNat? else none).getD (e + 1)
              let e := if stopped ≤ e then stopped - 1 else e
              -- (cancelled before its first file the pass still chooses its destination, opens the writer on it — which
              --  creates the file if an earlier pass had removed it — and ends the writing: `gcRun` over no file at all)
              --  When the destination is the first source itself (rewrite in place) nothing has been written and the file
              --  keeps every byte: `endGCWriting` removes it only if its size is 0.
              let (b', stats) := if stopped ≤ s then
                  (if Store.gcDst st.scfg b s == s then (b, ({} : Store.GcStats))
                   else
                     let s0 := Store.gcBegin b (Store.gcDst st.scfg b s) s {}
                     (s0.endWriting, s0.stats))
                else Store.gcRun hash st.scfg b s e
              let m := s!"before={stats.numBefore} released={stats.numReleased} sizebefore={stats.sizeBefore} sizereleased={stats.sizeReleased}"
              if !(obs.endsWith m) then diffIf st.groups.isEmpty rep ln "model" s!"case={cid} gc stats: model={m} impl={obs.take 160}"
              -- model-internal tie: the concrete pass lays the records out as  before ++ kept ++ after
              if stopped > s && (b'.log.map (·.2)) != StoreLemmas.gcAbstract hash b s e then
                diffIf st.groups.isEmpty rep ln "model" s!"case={cid} gc-abstraction: concrete gcRun differs from the abstract pass (Lemmas/GCLog.gcAbstract)"
              st := { st with buckets := st.buckets.set! bkt b', gcPending := (if stopped ≤ s then none else some (bkt, s, e, st.lastFiles)), gcPre := some (b, s, e), phase := "gc" }
              caseNontrivial := true
        ok rep
    | ["files"] =>
        -- oracles on the implementation's files right after a GC pass (C17 touch set, C18 only-current)
        match (if st.groups.isEmpty then st.gcPending else none) with
        | some (bkt, gs, ge, pre) =>
            let seg := fun (txt : String) => ((txt.splitOn " ").filter (· ≠ "")).filterMap fun sg =>
              match sg.splitOn ":" with
              | bc :: _ => match bc.splitOn "/" with
                | [b, c] => if b.toNat! == bkt then some (c.toNat!, sg) else none
                | _ => none
              | _ => none
            let preS := seg pre; let postS := seg obs
            -- C17: every file outside [gs, ge] is untouched, except one earlier file that may only grow
            let mut grown := 0
            for (c, sg) in preS do
              if c < gs || c > ge then
                match postS.find? (fun p => p.1 == c) with
                | some (_, sg2) =>
                    if sg2 ≠ sg then
                      let body := fun (x : String) => ":".intercalate ((x.splitOn ":").drop 2)
                      if c < gs && (body sg2).startsWith (body sg) then grown := grown + 1
                      else diff rep ln "oracle" s!"case={cid} key=C17/touched-outside-range gc [{gs},{ge}] changed file {c}: before={sg.take 120} after={sg2.take 120}"
                | none => diff rep ln "oracle" s!"case={cid} key=C17/touched-outside-range gc [{gs},{ge}] removed file {c} outside the range"
            if grown > 1 then diff rep ln "oracle" s!"case={cid} key=C17/touched-outside-range gc [{gs},{ge}] appended to {grown} files below the range"
            -- relocated records may also go into previously EMPTY slots below the range (new files); nothing may
            -- appear above the range
            for (c, _) in postS do
              if c > ge && !(preS.any (fun p => p.1 == c)) then
                diff rep ln "oracle" s!"case={cid} key=C17/touched-outside-range gc [{gs},{ge}] created file {c} above the range"
            -- C18: inside the range only current records survive, each key once
            let mut seen : List String := []
            for (c, sg) in postS do
              if c ≥ gs && c ≤ ge then
                let items := (":".intercalate ((sg.splitOn ":").drop 2)).splitOn ","
                for it in items do
                  match it.splitOn ":" with
                  | [_, kh, ver] =>
                      let k := unhex kh
                      let v := parseInt ver
                      let cur : Bool := match AMap.get st.spec k with
                        | some e => e.ver == v || st.inexact.contains k
                        | none => decide (v < 0) && decide (gs > 0)   -- a tombstone of a key the (rebuilt) tree no longer knows: kept only by a pass that does not start at file 0 (C18_range_holds_only_current)
                      if !cur then diff rep ln "oracle" s!"case={cid} key=C18/superseded-survives file {c} of the collected range still holds {kh}:{ver}, not the current record of its key"
                      if v > 0 && seen.contains kh then diff rep ln "oracle" s!"case={cid} key=C18/duplicate-record key {kh} appears twice in the collected range"
                      seen := kh :: seen
                  | _ => pure ()
            st := { st with gcPending := none }
        | none => pure ()
        st := { st with lastFiles := obs }
        let m := filesOfModel st.buckets
        -- the model's files hold the flushed prefix; at a restart everything is flushed by close
        let mFlushed := filesOfModel (st.buckets.map fun b => { b with chunks := fun i => { b.chunks i with flushed := (b.chunks i).recs.length } })
        if m.trimAscii.toString != obs.trimAscii.toString && mFlushed.trimAscii.toString != obs.trimAscii.toString then
          let ms := (mFlushed.splitOn " ").filter (· ≠ "")
          let os := (obs.splitOn " ").filter (· ≠ "")
          let firstBad := (ms.zip os).find? (fun (a, b) => a ≠ b)
          let detail := match firstBad with
            | some (a, b) => s!"model={a.take 300} impl={b.take 300}"
            | none => s!"model has {ms.length} files, impl has {os.length}: model-last={(ms.getLast?.getD "").take 150} impl-last={(os.getLast?.getD "").take 150}"
          diffIf st.groups.isEmpty rep ln "model" s!"case={cid} data files differ: {detail}"
        ok rep
    | ["dumphints"] => pure ()
    | ["close"] => st := { st with buckets := st.buckets.map fun b => (Store.step hash st.scfg b .flush).1 }
    | ["history-end"] => pure ()
    | ["gcbegin"] => st := { st with gcSpec := some st.spec }
    | ["gcend"] => st := { st with gcSpec := none }
    | "snap" :: n :: opts =>
        let sizes := parseSizes ((kvOpt opts "sizes").getD "-")
        let cut := fun (i : Nat) => ((sizes.find? (fun p => p.1 == i)).map (·.2)).getD 0
        let present := fun (i : Nat) => sizes.any (fun p => p.1 == i)
        let b := st.buckets[0]!
        let inGC := (kvOpt opts "gc").getD "0" == "1"
        let keys := (st.writes.map (·.1)).eraseDups
        let allowed := keys.map fun k =>
          let ws := st.writes.filter (fun w => w.1 == k)
          -- the last write of k whose record lies completely inside the surviving bytes of its file
          let durableIdx := (List.range ws.length).filter fun i => match ws[i]? with
            | some (_, p, sz, _) => decide (p.off + sz ≤ cut p.chunk)
            | none => false
          match durableIdx.getLast? with
          | some i => (k, (ws.drop i).map (·.2.2.2))
          | none => (k, "MISS" :: ws.map (·.2.2.2))
        let exact := match st.gcSpec with
          | some sp => keys.map fun k => (k, fmtGet (Spec.step scfgSpec sp (.get k)).2)
          | none =>
            -- the state right after an orderly shutdown returned: everything acknowledged must be there (C02)
            if opts.contains "ev=closed" then keys.map fun k => (k, fmtGet (Spec.step scfgSpec st.spec (.get k)).2) else []
        -- C07 tie: the data files of a crash state inside the pass are one of the abstract intermediate states
        --   before ++ kept(processed) ++ tail ++ rest ++ after      (Lemmas/GCCrash.lean)
        if inGC then
          match st.gcPre, kvOpt opts "files" with
          | some (b0, gs, ge), some inv =>
              let fmtR := fun (x : Store.Pos × Store.Rec) => s!"{tohex x.2.key}:{x.2.ver}"
              let observed : List String := if inv == "-" then [] else (inv.splitOn ",").map fun it =>
                match it.splitOn ":" with
                | [_, _, kh, ver] => s!"{kh}:{ver}"
                | _ => it
              let full := b0.log
              let before := full.filter (fun x => decide (x.1.chunk < gs))
              let mid := full.filter (fun x => decide (gs ≤ x.1.chunk) && decide (x.1.chunk ≤ ge))
              let after := full.filter (fun x => decide (x.1.chunk > ge))
              let hasEntry := fun k => (AMap.get b0.tree (hash k)).isSome
              let keep := StoreLemmas.gcKeep hasEntry (decide (gs > 0)) full
              let found := (List.range (mid.length + 1)).any fun j =>
                let processed := mid.take j
                let rest := mid.drop j
                let kept := processed.filter keep
                let lastChunk := (processed.getLast?.map (·.1.chunk)).getD 0
                let curProc := processed.filter (fun x => x.1.chunk == lastChunk)
                (List.range (curProc.length + 1)).any fun t =>
                  let tail := curProc.drop (curProc.length - t)
                  (before ++ kept ++ tail ++ rest ++ after).map fmtR == observed
              -- a write in the middle of an existing file that is not a whole number of blocks (or is cut) may leave
              -- a record half overwritten: that is the byte-granular territory of the known finding, judged by the oracle
              let ws := opts
              let partialInPlace := ws.contains "app=0" && !(ws.contains "cut=0" &&
                (((kvOpt ws "off").getD "0").toNat! % 256 == 0) && (((kvOpt ws "len").getD "0").toNat! % 256 == 0))
              if !found && !partialInPlace then
                diffIf st.groups.isEmpty rep ln "model" s!"case={cid} gc-interm-abstraction: the data files at ({" ".intercalate (opts.filter (fun o => !o.startsWith "files="))}) are none of the abstract intermediate states of the pass [{gs},{ge}]: {(",".intercalate observed).take 300}"
          | _, _ => pure ()
        let sn : Snap := { inGC := inGC, torn := b.tornAt cut, recovered := b.recover hash st.scfg cut present,
                           allowed := allowed, exact := exact, label := " ".intercalate (opts.filter (fun o => !o.startsWith "files=")),
                           durable := st.writes.filter (fun w => decide (w.2.1.off + w.2.2.1 ≤ cut w.2.1.chunk)), life2 := st.inLife2 }
        st := { st with snaps := (n.toNat!, sn) :: st.snaps }
        caseNontrivial := true
    | ["crash", n] =>
        match st.snaps.find? (fun p => p.1 == n.toNat!) with
        | none => diff rep ln "driver" s!"crash of unknown snapshot {n}"
        | some (_, sn) =>
            if obs ≠ "OK" then
              if sn.inGC then
                -- a relocated record that was being APPENDED to the destination file and reached it only in part
                let lw := sn.label.splitOn " "
                let unaligned := (((kvOpt lw "sizes").getD "").splitOn ",").any fun x => match x.splitOn ":" with
                  | [_, n] => n.toNat! % 256 != 0
                  | _ => false
                -- the file being appended to ends in a partial record (also: between the writes of a record larger than the buffer)
                let evFile := ((kvOpt lw "file").getD "").take 3
                let partialEnd := (((kvOpt lw "partial").getD "-").splitOn ",").any fun c => c != "-" && c.toNat? == evFile.toString.toNat?
                let tornAppend := lw.contains "app=1" && (!(lw.contains "cut=0") || unaligned || partialEnd)
                if tornAppend then
                  diff rep ln "oracle" s!"case={cid} key=C07/refused-torn-appended-record the store refuses to start when the kill cut the relocated record being appended to the destination file ({sn.label})"
                else
                  diff rep ln "oracle" s!"case={cid} key=C07/refused-after-kill-in-gc the store refuses to start from the state a kill inside the GC pass leaves ({sn.label})"
              else if !sn.torn then
                diff rep ln "oracle" s!"case={cid} key=C06/refused-without-torn-tail the store refuses to start although no data file ends in a partial record ({sn.label})"
            ok rep
    | ["cget", n, kh] =>
        match st.snaps.find? (fun p => p.1 == n.toNat!) with
        | none => diff rep ln "driver" s!"cget of unknown snapshot {n}"
        | some (_, sn) =>
            let k := unhex kh
            if sn.inGC then
              match sn.exact.find? (fun p => p.1 == k) with
              | some (_, want) =>
                  if obs ≠ want then
                    let lw := sn.label.splitOn " "
                    let partialInPlace := lw.contains "app=0" && !(lw.contains "cut=0" &&
                      (((kvOpt lw "off").getD "0").toNat! % 256 == 0) && (((kvOpt lw "len").getD "0").toNat! % 256 == 0))
                    if partialInPlace then
                      diff rep ln "oracle" s!"case={cid} key=C07/lost-after-partial-inplace-move key {kh.take 40}: before the pass {want.take 60}, after a kill inside an in-place write ({sn.label}) {obs.take 60}"
                    else
                      diff rep ln "oracle" s!"case={cid} key=C07/value-after-kill-in-gc key {kh.take 40}: before the pass {want.take 60}, after a kill inside it ({sn.label}) {obs.take 60}"
              | none => if obs ≠ "MISS" then diff rep ln "oracle" s!"case={cid} key=C07/value-after-kill-in-gc key {kh.take 40} never written reads {obs.take 60}"
            else
              let (_, r, _) := Store.step hash st.scfg sn.recovered (.get k)
              if fmtGet r ≠ obs then diffIf st.groups.isEmpty rep ln "model" s!"case={cid} crash-recovery ({sn.label}) get {kh.take 40}: model={(fmtGet r).take 80} impl={obs.take 80}"
              match sn.exact.find? (fun p => p.1 == k) with
              | some (_, want) =>
                  if obs ≠ want then diff rep ln "oracle" s!"case={cid} key=C02/lost-on-clean-shutdown key {kh.take 40} held {want.take 60} when the orderly shutdown returned and reads {obs.take 60} at the next start ({sn.label})"
              | none => pure ()
              match sn.allowed.find? (fun p => p.1 == k) with
              | some (_, al) =>
                  if !(al.contains obs) then
                    diff rep ln "oracle" s!"case={cid} key=C06/value-after-kill key {kh.take 40} reads {obs.take 60} after a kill at ({sn.label}); allowed: {(" | ".intercalate (al.map (fun x => (x.take 40).toString))).take 200}"
              | none => if obs ≠ "MISS" then diff rep ln "oracle" s!"case={cid} key=C06/value-after-kill key {kh.take 40} never written reads {obs.take 60}"
            ok rep
    | ["life2", n] =>
        -- engine crash, second process life: the kill really happened at crash state n; the store now is what the
        -- model says recovery made of it, the reference map is its content, and of the acknowledged writes only
        -- those that were completely on disk still exist
        match st.snaps.find? (fun p => p.1 == n.toNat!) with
        | none => diff rep ln "driver" s!"life2 of unknown snapshot {n}"
        | some (_, sn) =>
            let b := sn.recovered
            let keys := (st.writes.map (·.1)).eraseDups
            let sp : Spec.KV := keys.foldl (fun m k => match AMap.get b.tree (hash k) with
              | some it => match b.readAt it.pos with
                | some r => AMap.set m k { ver := it.ver, flag := r.flag, body := r.body, ts := r.ts }
                | none => m
              | none => m) []
            let dv : List (Spec.Key × Int) := keys.foldl (fun m k => match AMap.get sp k with
              | some e => AMap.set m k e.ver
              | none => m) []
            st := { st with buckets := #[b], spec := sp, inexact := keys, dataVer := dv, writes := sn.durable, gcSpec := none, lastFiles := "", inLife2 := true }
    | ["clist", n, pfx] =>
        match st.snaps.find? (fun p => p.1 == n.toNat!) with
        | none => diff rep ln "driver" s!"clist of unknown snapshot {n}"
        | some (_, sn) =>
            if !sn.inGC then
              let pfx := if pfx == "-" then "" else pfx
              -- the listing of the recovered tree is the listing of its content (C08), also after an unclean stop
              let content := contentOfTree sn.recovered.tree
              let sl := listAt st.cfg (fun _ => content) pfx
              let o := canonListing obs
              match sl with
              | .nodes _ =>
                  if fmtListing sl ≠ o then diff rep ln "oracle" s!"case={cid} key=C08/node-summary-after-kill list {pfx} after a kill at ({sn.label}): content says {(fmtListing sl).take 160} impl={o.take 160}"
              | .items es =>
                  let body : String := if o.length ≥ 2 then ((o.drop 1).dropEnd 1).toString else ""
                  let lines := if body.isEmpty then [] else body.splitOn "|"
                  if lines.any (fun l => l.contains '/') then
                    diff rep ln "oracle" s!"case={cid} key=C08/node-summary-after-kill list {pfx} after a kill at ({sn.label}): content says items, impl lists nodes {o.take 120}"
                  else
                    let noVer := fun (l : String) => if sn.life2 then " ".intercalate ((l.splitOn " ").dropLast) else l
                    let live := (es.filter (fun e => e.ver > 0)).map fun e => noVer s!"{hex16 e.khash} {e.vhash} {e.ver}"
                    let tombLine := fun (l : String) => (l.splitOn " ").getLast?.map (·.startsWith "-") == some true
                    let lines := lines.filter (fun l => !(sn.life2 && tombLine l)) |>.map noVer
                    for l in live do
                      if !(lines.contains l) then diff rep ln "oracle" s!"case={cid} key=C08/missing-live-item-after-kill list {pfx} after a kill at ({sn.label}): live entry {l} not listed"
                    for l in lines do
                      -- a listed line is a live entry, or a tombstone (negative version) the tree still carries
                      if !(live.contains l) && !(tombLine l) then
                        diff rep ln "oracle" s!"case={cid} key=C08/spurious-item-after-kill list {pfx} after a kill at ({sn.label}): listed entry {l} is not a live key of the recovered content"
              | .none => pure ()
            ok rep
    | ["stray"] =>
        if obs ≠ "-" then diff rep ln "oracle" s!"case={cid} key=C15/stray-file files outside the served buckets' directories: {obs.take 200}"
        ok rep
    | ["fatal"] =>
        diff rep ln "oracle" s!"case={cid} key=C01/fatal-error a goroutine of the store hit a fatal error (the process would exit): {obs.take 200}"
        st := { st with active := false }
    | ["end"] =>
        if caseNontrivial then nontrivial := nontrivial + 1
        st := { st with active := false }
    | _ => diff rep ln "driver" s!"unparsed line: {l.take 60}"
  IO.println s!"#cases {cases} nontrivial={nontrivial}"
  rep.get

end Driver.Seq
