import Driver.Util
import Driver.Conc
import GoBeans.Model.ConcFine

/-!
  engine concfine (C04): controlled-schedule correspondence for `Model/ConcFine.lean`.

  The harness (harness/cmd/hx/concfine.go) runs the REAL bucket with every goroutine parked at the hook points that
  are the micro-step boundaries of the model, releases one goroutine per decision and writes, after every decision,
      sched <tid> <act> => en= lab= loc= clk= head= wbs= ch= pend= it= lk= thr= fatal= rerr= resp=
  This driver replays the same decisions through `ConcFine.step` and compares, after EVERY decision (kind=model):
    en    was the decision enabled (`step` = some; `block`: the goroutine was released and did not move)                 lab   `pcLabel` of the thread that moved
    loc   the locals of that thread the hook point exposes (version, position, chunk, writer offset, n, i, record)
    clk   `State.clock`                                            head, wbs, ch, it, fatal, rerr: `ConcFine.observe`
    lk    the three locks held across micro-steps (real: TryLock probe of the real mutexes)
    thr   for every running thread: label and enabledness (`micro` = some; real: TryLock of the mutex it locks next)
    resp  at a response: the value the real call returned vs the completed history entry of the model
  and at the end of the case the real per-key histories against `histOf` (kind=model) and against the property's
  conditions `Conc.checkA` / `Conc.checkB` (kind=oracle).  `cfdisagree` lines (disagreements the harness saw by
  itself: a released goroutine that did not arrive, bookkeeping ≠ real mutex) are DIFFs of kind=model.
-/
namespace Driver.ConcFineE
open Driver
open ConcFine

def showInt (i : Int) : String := if i < 0 then "-" ++ toString i.natAbs else toString i.natAbs
def b01 (b : Bool) : String := if b then "1" else "0"
def showPos (p : Pos) : String := s!"{p.chunk}:{p.off}"

/-- the locals a hook point exposes, rendered as the harness renders them -/
def pcLoc : PC → String
  | .wSlot q ver => s!"{showInt ver}:{q.sz + 1}"
  | .wAppend _ _ pos => showPos pos
  | .wTreeSet _ _ pos => showPos pos
  | .rBuf _ it => showPos it.pos
  | .rFile _ it => showPos it.pos
  | .fOpen c => toString c
  | .fCheck c woff => s!"{c}:{woff}"
  | .fCount c woff => s!"{c}:{woff}"
  | .fFetch c woff n i _ => s!"{c}:{woff}:{n}:{i}"
  | .fWrite c woff n i _ r => s!"{c}:{woff}:{n}:{i}:{r.off}:{r.size}:{showInt r.ver}"
  | .fDetach c _ _ => toString c
  | _ => "-"

def isIdle : PC → Bool
  | .idle => true
  | _ => false

/-- the chunk a flusher is writing to (between `f.fetch` and `f.write`: where bytes may sit in its bufio layer) -/
def writingTo : PC → Option Nat
  | .fFetch c .. => some c
  | .fWrite c .. => some c
  | _ => none

def showChunk (c : ChunkObs) : String := s!"{c.fileLen},{c.bufLen},{c.diskSize},{c.writingHead},{c.size}"

def showItem : Nat × Option (Int × Nat × Nat) → String
  | (k, none) => s!"{k}:-"
  | (k, some (v, c, o)) => s!"{k}:{showInt v},{c},{o}"

def showOut : Conc.Out → String
  | .acc v => s!"acc:{v}"
  | .rej => "rej"
  | .got a b => s!"got:{a},{b}"

def showThr (cfg : Cfg) (s : State) (tids : List Nat) : String :=
  let l := tids.filterMap fun t =>
    let pc := (s.thr t).pc
    if isIdle pc then none else some s!"{t}:{pcLabel pc}:{b01 (micro cfg s t).isSome}"
  if l.isEmpty then "-" else ",".intercalate l

/-- the fields the model predicts, in the harness's rendering -/
def predict (cfg : Cfg) (keys tids : List Nat) (s : State) (t : Nat) (en : Bool) (resp : String) : List (String × String) :=
  let o := observe s keys
  [("en", b01 en), ("lab", pcLabel (s.thr t).pc), ("loc", pcLoc (s.thr t).pc), ("clk", toString s.clock),
   ("head", toString o.head), ("wbs", toString o.wbufSize),
   ("ch", ";".intercalate (o.chunks.map showChunk)), ("it", "|".intercalate (o.items.map showItem)),
   ("lk", b01 s.writeLock.isSome ++ b01 s.dsLock.isSome ++ b01 s.flushLock.isSome),
   ("thr", showThr cfg s tids), ("fatal", b01 o.fatal), ("rerr", b01 o.readErr), ("resp", resp)]

def insertSorted (t : Nat) : List Nat → List Nat
  | [] => [t]
  | a :: l => if t < a then t :: a :: l else if t = a then a :: l else a :: insertSorted t l

def parseAct (ws : List String) : Option Act :=
  let n := fun (s : String) => s.toNat!
  let chunk := fun (s : String) => if s.startsWith "-" then (none : Option Nat) else some s.toNat!
  match ws with
  | ["go"] => some .go
  | ["block"] => some .go       -- the goroutine was really released in front of a held mutex: the model says "not enabled"
  | "call" :: "write" :: k :: v :: sz :: _ => some (.call (.write (n k) (n v) (n sz)))
  | "call" :: "delete" :: k :: sz :: _ => some (.call (.delete (n k) (n sz)))
  | "call" :: "read" :: k :: _ => some (.call (.read (n k)))
  | "call" :: "flush" :: c :: f :: l :: _ => some (.call (.flush (chunk c) (f == "1") (l == "1")))
  | "spawn" :: "flush" :: c :: f :: l :: _ => some (.call (.flush (chunk c) (f == "1") (l == "1")))
  | _ => none

structure RawEv where
  key : Nat
  cl : Nat
  ev : _root_.Conc.Ev
  state : String
  line : Nat

def run (lines : Array String) : IO Report := do
  let rep ← IO.mkRef ({} : Report)
  let mut ln := 0
  let mut cid := ""
  let mut cfg : Cfg := {}
  let mut keys : List Nat := []
  let mut tids : List Nat := []
  let mut s : State := init
  let mut evs : Array RawEv := #[]
  let mut ndiff := 0           -- model diffs of the current case (the detail of the first few is printed)
  let mut decisions := 0
  for l in lines do
    ln := ln + 1
    if l.startsWith "#" then continue
    let (ws, obs) := splitLine l
    match ws with
    | "case" :: id :: opts =>
        cid := id
        cfg := { dataFileMax := ((Conc.kvOpt opts "dfmax").getD "16").toNat! }
        let nk := (((Conc.kvOpt opts "keys").getD "").splitOn ",").length
        keys := List.range nk
        tids := []; s := init; evs := #[]; ndiff := 0; decisions := 0
    | "cfdisagree" :: _ =>
        diff rep ln "model" s!"case={cid} key=C04/schedule-control {l.take 220}"
    | "open" :: _ =>
        diff rep ln "model" s!"case={cid} key=C04/schedule-control the store did not open: {obs.take 120}"
    | "sched" :: tidS :: actWs =>
        let t := tidS.toNat!
        tids := insertSorted t tids
        decisions := decisions + 1
        let thenT : Option Nat := match actWs with
          | ["go", w] => if w.startsWith "then=" then some (w.drop 5).toString.toNat! else none
          | _ => none
        if let some u := thenT then
          tids := insertSorted u tids
          decisions := decisions + 1
        match parseAct (if thenT.isSome then ["go"] else actWs) with
        | none => diff rep ln "model" s!"case={cid} key=C04/fine-model unreadable decision: {l.take 120}"
        | some a =>
          let ows := obs.splitOn " "
          let pre := s
          let (s1, en1) := match step cfg s t a with
            | some s' => (s', true)
            | none => (s, false)
          -- the response the model gives at this decision
          let resp :=
            if en1 && isIdle (s1.thr t).pc && !(isIdle (pre.thr t).pc) then
              match s1.hist.find? (fun e => e.tid == t && e.done && e.ev.resp == pre.clock) with
              | some e => showOut e.ev.out
              | none => "fl"
            else "-"
          -- `go then=u`: the step of t unlocked the mutex thread u was blocked in; u's micro-step follows at once
          -- (the two overlap in the real run: one observation after both)
          let (s', en, t) := match thenT with
            | none => (s1, en1, t)
            | some u => match step cfg s1 u .go with
              | some s2 => (s2, en1, u)
              | none => (s1, false, u)
          s := s'
          let exp := predict cfg keys tids s t en resp
          let mut bad : List String := []
          for (name, want) in exp do
            let got := (Conc.kvOpt ows name).getD "?"
            if got ≠ want then bad := bad ++ [s!"{name}: real {got} model {want}"]
          -- the refined comparison of the file length: bytes still in a bufio layer need a model flusher writing there
          let pend := ((Conc.kvOpt ows "pend").getD "").splitOn ","
          let mut ci := 0
          for p in pend do
            if p ≠ "0" && p ≠ "" then
              if !(tids.any fun u => writingTo (s.thr u).pc == some ci) then
                bad := bad ++ [s!"pend: {p} bytes buffered for file {ci} but no flusher of the model is writing it"]
            ci := ci + 1
          if bad.isEmpty then ok rep
          else
            ndiff := ndiff + 1
            if ndiff ≤ 3 then
              diff rep ln "model" s!"case={cid} key=C04/fine-model decision {decisions} (thread {t} {" ".intercalate actWs}): {"; ".intercalate bad}"
            else if ndiff == 4 then
              diff rep ln "model" s!"case={cid} key=C04/fine-model further decisions of this case disagree as well (the states have diverged); they are counted, not printed"
            else rep.modify fun r => { r with diffs := r.diffs + 1 }
          if (Conc.kvOpt ows "fatal") == some "1" then
            diff rep ln "oracle" s!"case={cid} key=C04/fatal-error a goroutine of the store hit a fatal error at decision {decisions}"
    | "ev" :: opts =>
        let geti := fun n => Conc.parseInt ((Conc.kvOpt opts n).getD "0")
        let opc := (Conc.kvOpt opts "op").getD "r"
        let val := (geti "val").toNat
        let ver := (geti "ver").natAbs
        let state := (Conc.kvOpt opts "state").getD "ok"
        let op : _root_.Conc.AOp := if opc == "w" then .write val else if opc == "d" then .delete else .read
        let out : _root_.Conc.Out :=
          if opc == "r" then .got val ver else if ver ≠ 0 then .acc ver else .rej
        evs := evs.push { key := (geti "key").toNat, cl := (geti "cl").toNat, state := state, line := ln,
                          ev := { op := op, inv := (geti "inv").toNat, resp := (geti "resp").toNat, out := out } }
        if state == "err" then
          diff rep ln "oracle" s!"case={cid} key=C04/operation-error an operation ended in an error: {l.take 160}"
        ok rep
    | "end" :: opts =>
        if (Conc.kvOpt opts "ok") ≠ some "1" then
          diff rep ln "model" s!"case={cid} key=C04/schedule-control the harness gave the case up after {decisions} decisions (see the cfdisagree / fatal lines above)"
        else
          if !(s.hist.all (·.done)) then
            diff rep ln "model" s!"case={cid} key=C04/fine-model the case ended but the model still has operations that have not returned"
          for k in keys do
            let real := (evs.toList.filter (·.key == k)).map (·.ev)
            let model := (histOf s k).map fun e => { e with lin := 0 }
            -- same operations with the same invocation / response times and results
            let missing := model.filter fun e => !(real.contains e)
            let extra := real.filter fun e => !(model.contains e)
            if !missing.isEmpty || !extra.isEmpty || real.length ≠ model.length then
              diff rep ln "model" s!"case={cid} key=C04/fine-model history of key {k}: only in the model {reprStr missing}, only in the real run {reprStr extra}"
            else ok rep
            -- the property itself, on what the real store answered
            if !_root_.Conc.checkA real then
              let badr := real.filter fun r => !_root_.Conc.readOK real r
              diff rep ln "oracle" s!"case={cid} key=C04/stale-or-unwritten-read key {k}: {reprStr badr}"
            else ok rep
            if !_root_.Conc.checkB real then
              diff rep ln "oracle" s!"case={cid} key=C04/version-order key {k}: accepted writes without distinct versions in real-time order"
            else ok rep
    | _ => pure ()
  rep.get

end Driver.ConcFineE
