import GoBeans.GoSem

namespace Driver

def hexVal (c : Char) : Nat :=
  if '0' ≤ c ∧ c ≤ '9' then c.toNat - '0'.toNat
  else if 'a' ≤ c ∧ c ≤ 'f' then c.toNat - 'a'.toNat + 10
  else if 'A' ≤ c ∧ c ≤ 'F' then c.toNat - 'A'.toNat + 10
  else 0

/-- "-" is the empty string; otherwise lowercase hex -/
def unhex (s : String) : Bytes :=
  if s == "-" then [] else
  let cs := s.toList
  let rec go : List Char → List UInt8 → List UInt8
    | a :: b :: rest, acc => go rest ((hexVal a * 16 + hexVal b).toUInt8 :: acc)
    | _, acc => acc.reverse
  go cs []

def hexDigit (n : Nat) : Char := if n < 10 then Char.ofNat (48 + n) else Char.ofNat (87 + n)

def tohex (b : Bytes) : String :=
  if b.isEmpty then "-" else
  String.mk (b.foldr (fun x acc => hexDigit (x.toNat / 16) :: hexDigit (x.toNat % 16) :: acc) [])

/-- split "op a b c => obs" into (["op","a","b","c"], "obs") -/
def splitLine (l : String) : List String × String :=
  let l := if l.endsWith " =>" then l ++ " " else l
  match l.splitOn " => " with
  | [lhs] => (lhs.splitOn " " |>.filter (· ≠ ""), "")
  | lhs :: rest => (lhs.splitOn " " |>.filter (· ≠ ""), " => ".intercalate rest)
  | [] => ([], "")

partial def readLines (h : IO.FS.Stream) (acc : Array String) : IO (Array String) := do
  let line ← h.getLine
  if line.isEmpty then return acc
  let line := if line.endsWith "\n" then line.dropRight 1 else line
  readLines h (acc.push line)

structure Report where
  checked : Nat := 0
  diffs : Nat := 0

def diff (rep : IO.Ref Report) (lineno : Nat) (kind : String) (detail : String) : IO Unit := do
  rep.modify fun r => { r with diffs := r.diffs + 1 }
  IO.println s!"DIFF line={lineno} kind={kind} {detail}"

def diffIf (c : Bool) (rep : IO.Ref Report) (lineno : Nat) (kind : String) (detail : String) : IO Unit :=
  if c then diff rep lineno kind detail else pure ()

def ok (rep : IO.Ref Report) : IO Unit := rep.modify fun r => { r with checked := r.checked + 1 }

end Driver
