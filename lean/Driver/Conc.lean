import Driver.Util
import GoBeans.Model.Conc

/-!
  engine conc (C04, C05, C17 single pass): recorded concurrent histories, checked per key with `Conc.checkA` / `Conc.checkB`
  (the conditions of the property; Lemmas/Conc.lean proves every atomic execution passes them).  All diffs are of
  kind=oracle: the history itself contradicts the property.
-/
namespace Driver.Conc
open Driver

def kvOpt (ws : List String) (name : String) : Option String :=
  ws.findSome? fun w => if w.startsWith (name ++ "=") then some (w.drop (name.length + 1)).toString else none

def parseInt (s : String) : Int := if s.startsWith "-" then - ((s.drop 1).toString.toNat!) else s.toNat!

structure Raw where
  key : String
  cl : Nat
  ev : _root_.Conc.Ev
  state : String
  line : Nat

def describe (r : Raw) : String :=
  let op := match r.ev.op with | .write v => s!"write#{v}" | .delete => "delete" | .read => "read"
  s!"[cl{r.cl} {op} inv={r.ev.inv} resp={r.ev.resp} out={reprStr r.ev.out}]"

def run (lines : Array String) : IO Report := do
  let rep ← IO.mkRef ({} : Report)
  let mut ln := 0
  let mut cid := ""
  let mut mix := "c04"
  let mut evs : Array Raw := #[]
  let mut finals : List (String × Nat) := []      -- key, value id of the final read
  let mut fileTicks : List Nat := []              -- mix c05: ticks at which the running pass removed or cut a data file
  for l in lines do
    ln := ln + 1
    if l.startsWith "#" then continue
    let (ws, obs) := splitLine l
    match ws with
    | "case" :: id :: opts =>
        cid := id; mix := (kvOpt opts "mix").getD "c04"; evs := #[]; finals := []; fileTicks := []
    | "ev" :: opts =>
        let geti := fun n => parseInt ((kvOpt opts n).getD "0")
        let key := (kvOpt opts "key").getD ""
        let opc := (kvOpt opts "op").getD "r"
        let val := (geti "val").toNat
        let ver := (geti "ver").natAbs
        let state := (kvOpt opts "state").getD "ok"
        let op : _root_.Conc.AOp := if opc == "w" then .write val else if opc == "d" then .delete else .read
        let out : _root_.Conc.Out :=
          if opc == "r" then .got val ver
          else if ver ≠ 0 then .acc ver else .rej
        evs := evs.push { key := key, cl := (geti "cl").toNat, state := state, line := ln,
                          ev := { op := op, inv := (geti "inv").toNat, resp := (geti "resp").toNat, out := out } }
        let pfx := if mix == "c05" then "C05" else "C04"
        if state == "err" then
          -- a get of a client running BESIDE a GC pass (cl ≠ 0; the final reads are client 0) that fails because the pass has
          -- removed the file, or is overwriting the bytes, its position pointed at: the two transient error replies
          -- reproduced step by step by engine concgc (schedules stale-reader, inplace)
          let ec := (kvOpt opts "errclass").getD "other"
          let cl := (geti "cl").toNat
          let sub := if mix == "c05" && opc == "r" && cl ≠ 0 && ec == "nofile" then "/get-beside-pass-file-removed"
                     else if mix == "c05" && opc == "r" && cl ≠ 0 && ec == "decode" then "/get-beside-pass-bytes-overwritten"
                     else if mix == "c05" && opc == "r" && cl ≠ 0 && ec == "foreign" &&
                             fileTicks.any (fun t => decide ((geti "inv").toNat < t) && decide (t < (geti "resp").toNat)) then "/get-across-file-reuse"
                     else ""
          diff rep ln "oracle" s!"case={cid} key={pfx}/operation-error{sub} an operation on key {key.take 24} ended in an error: {l.take 160}"
        if opc == "r" && (geti "val") < 0 then
          diff rep ln "oracle" s!"case={cid} key={pfx}/foreign-value a read of key {key.take 24} returned bytes no client wrote: {l.take 160}"
        ok rep
    | "after-restart" :: opts =>
        let key := (kvOpt opts "key").getD ""
        let val := (parseInt ((kvOpt opts "val").getD "0")).toNat
        match finals.find? (fun p => p.1 == key) with
        | some (_, fv) =>
            if fv ≠ val then diff rep ln "oracle" s!"case={cid} key=C05/after-restart key {key.take 24} held value #{fv} when everything had stopped and reads value #{val} after a restart"
        | none => pure ()
        ok rep
    | "gcfile" :: opts =>
        fileTicks := ((kvOpt opts "tick").getD "0").toNat! :: fileTicks
    | "gcreq" :: opts =>
        let mc := ((kvOpt opts "maxconcurrent").getD "0").toNat!
        if mc > 1 then diff rep ln "oracle" s!"case={cid} key=C17/two-passes-one-bucket {mc} GC passes ran on one bucket at the same time ({l.take 120})"
        ok rep
    | ["fatal"] =>
        let pfx := if mix == "c05" then "C05" else "C04"
        diff rep ln "oracle" s!"case={cid} key={pfx}/fatal-error a goroutine of the store hit a fatal error: {obs.take 200}"
    | ["end"] =>
        -- per key checks
        let pfx := if mix == "c05" then "C05" else "C04"
        let keys := (evs.toList.map (·.key)).eraseDups
        for k in keys do
          let rs := evs.toList.filter (·.key == k)
          let h := rs.map (·.ev)
          -- the final read of the key (issued after everything stopped) is the last event
          match rs.getLast? with
          | some r => match r.ev.out with
            | .got v _ => finals := (k, v) :: finals
            | _ => pure ()
          | none => pure ()
          for r in rs do
            if !_root_.Conc.readOK h r.ev then
              -- say why
              let (val, ver) := match r.ev.out with | .got a b => (a, b) | _ => (0, 0)
              let newer := rs.filter fun w => match _root_.Conc.accVer w.ev.out with
                | some vw => decide (w.ev.resp < r.ev.inv) && decide (vw > ver)
                | none => false
              let why := match newer.head? with
                | some w => s!"older than the write {describe w} acknowledged before the read began"
                | none => s!"no write of this key invoked before the read ended stored value #{val} with version {ver}"
              -- a get of a client that was under way while the pass removed or cut a data file (the mechanism of the concgc
              -- schedules reuse / reuse-delete: the position the reader took is reused by what the pass writes next — a newer
              -- record of the key, a delete marker, or another key's record, which reads as a miss)
              let across := mix == "c05" && r.cl ≠ 0 && (match r.ev.op with | .read => true | _ => false) &&
                fileTicks.any (fun t => decide (r.ev.inv < t) && decide (t < r.ev.resp))
              let sub := if across then "/get-across-file-reuse" else ""
              diff rep r.line "oracle" s!"case={cid} key={pfx}/stale-or-unwritten-read{sub} key {k.take 24} {describe r}: {why}"
          if !_root_.Conc.checkB h then
            let bad := rs.findSome? fun a => rs.findSome? fun b =>
              match _root_.Conc.accVer a.ev.out, _root_.Conc.accVer b.ev.out with
              | some va, some vb =>
                  if (decide (a.ev.resp < b.ev.inv) && !(decide (va < vb))) || (a.line ≠ b.line && va == vb) then some (a, b) else none
              | _, _ => none
            let detail := match bad with
              | some (a, b) => s!"{describe a} and {describe b}"
              | none => ""
            diff rep ln "oracle" s!"case={cid} key={pfx}/version-order key {k.take 24}: accepted writes without distinct versions in real-time order: {detail}"
        evs := #[]
    | _ => pure ()
  rep.get

end Driver.Conc
