import Driver.Util
import Driver.Hash
import Driver.Codec
import Driver.Seq
import Driver.HintE
import Driver.Proto
import Driver.Conc
import Driver.HTreeE
import Driver.ConcFineE
import Driver.ConcGCE
import Driver.Qlz

open Driver

def main (args : List String) : IO UInt32 := do
  let stdin ← IO.getStdin
  let lines ← readLines stdin #[]
  let rep ← match args with
    | ["hash"] => Driver.Hash.run lines
    | ["codec"] => Driver.CodecEngine.run lines
    | ["seq"] => Driver.Seq.run lines
    | ["crash"] => Driver.Seq.run lines
    | ["hint"] => Driver.HintE.run lines
    | ["proto"] => Driver.Proto.run lines
    | ["conc"] => Driver.Conc.run lines
    | ["htree"] => Driver.HTreeE.run lines
    | ["concfine"] => Driver.ConcFineE.run lines
    | ["concgc"] => Driver.ConcGCE.run lines
    | ["qlz"] => Driver.QlzE.run lines
    | _ => do IO.eprintln "usage: driver <engine> < trace"; return 2
  IO.println s!"SUMMARY lines={lines.size} checked={rep.checked} diffs={rep.diffs}"
  return 0
