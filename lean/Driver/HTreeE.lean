import Driver.Util
import GoBeans.Model.HTreeImpl

/-! engine `htree` (C08): the real HTree (every call, every node after every call) against the implementation-level
    model `HTreeImpl` (kind=model) and every listing against the content-level specification `Tree.listBucket` of the
    dictionary the calls built (kind=oracle). -/
namespace Driver.HTreeE
open Driver HTreeImpl Tree

def hex16 (n : Nat) : String :=
  let s := String.mk (Nat.toDigits 16 n)
  String.mk (List.replicate (16 - s.length) '0') ++ s

def hex1 (n : Nat) : String := String.mk (Nat.toDigits 16 n)

def fmtEnt (e : Ent) : String := s!"{hex16 e.khash} {e.vhash} {e.ver}"

def fmtListing : Listing → String
  | .items es => if es.isEmpty then "-" else ";".intercalate (es.map fmtEnt)
  | .nodes ch => ";".intercalate ((ch.zipIdx).map fun (x : (Nat × Nat) × Nat) => s!"{hex1 x.2}/ {x.1.1} {x.1.2}")
  | .none => "-"

def snapshot (t : HTree) : String := Id.run do
  let mut s := ""
  let mut l := 0
  for row in t.inner do
    s := s ++ s!"L{l}:"
    for n in row do
      s := s ++ s!"{n.count},{n.hash},{if n.upd then 1 else 0};"
    s := s ++ "|"
    l := l + 1
  s := s ++ s!"L{l}:"
  for lf in t.leaves do
    s := s ++ s!"{lf.count},{lf.hash};"
  s := s ++ "|"
  return s

def fnv64 (s : String) : Nat :=
  s.toUTF8.foldl (fun h b => ((h ^^^ b.toNat) * 1099511628211) % 18446744073709551616) 14695981039346656037

def tail (t : HTree) : String :=
  let sn := snapshot t
  if sn.length ≤ 3000 then s!"root={rootCountNoUpdate t} snap={fnv64 sn} {sn}" else s!"root={rootCountNoUpdate t} snap={fnv64 sn} -"

def kvOpt (ws : List String) (name : String) : Option String :=
  ws.findSome? fun w => if w.startsWith (name ++ "=") then some (w.drop (name.length + 1)).toString else none

def parseIntS (s : String) : Int := if s.startsWith "-" then - ((s.drop 1).toNat!) else s.toNat!

/-- the dictionary the calls build: one entry per key hash; set = upsert, remove = delete (if the position test passes) -/
def dictSet (d : List Ent) (e : Ent) : List Ent :=
  if d.any (fun x => x.khash == e.khash) then d.map (fun x => if x.khash == e.khash then e else x) else d ++ [e]

def sortEnts (l : List String) : List String := l.toArray.qsort (· < ·) |>.toList

structure St where
  t : Option HTree := none
  depth : Nat := 0
  height : Nat := 0
  thr : Nat := 0
  dict : List Ent := []
  dead : Bool := false       -- the model says the call panics / the implementation panicked

def run (lines : Array String) : IO Report := do
  let rep ← IO.mkRef ({} : Report)
  let mut st : St := {}
  let mut cid := ""
  let mut cases := 0
  let mut ln := 0
  for l in lines do
    ln := ln + 1
    if l.startsWith "#" || l.isEmpty then continue
    let (ws, obs) := splitLine l
    match ws with
    | "case" :: id :: _ => cid := id; cases := cases + 1; st := {}
    | "tree" :: opts =>
        let depth := ((kvOpt opts "depth").getD "0").toNat!
        let bid := ((kvOpt opts "bucket").getD "0").toNat!
        let height := ((kvOpt opts "height").getD "2").toNat!
        st := { t := newHTree depth bid height, depth := depth, height := height, thr := ((kvOpt opts "thr").getD "1").toNat! }
    | ["end"] => pure ()
    | op :: args =>
        if st.dead then continue
        match st.t with
        | none => diff rep ln "model" s!"case={cid} the model refuses this tree configuration"
        | some t =>
          let mop : Option Op := match op, args with
            | "tset", [kh, ver, vh, _, _] => some (.set ⟨kh.toNat!, parseIntS ver, vh.toNat!⟩)
            | "tremove", [kh, how] => some (.remove kh.toNat! (how != "other"))
            | "tmove", [kh, eq, _, _] => some (.movePos kh.toNat! (eq == "eq"))
            | "tupdate", [] => some .update
            | "tlist", [path] => some (.list st.thr (if path == "-" then [] else path.toList.map hexVal))
            | _, _ => none
          match mop with
          | none => diff rep ln "driver" s!"unparsed line: {l.take 60}"
          | some mop =>
            match step t mop with
            | none =>
                if obs != "PANIC" then diff rep ln "model" s!"case={cid} {op}: the model says the call panics, impl={obs.take 80}"
                st := { st with dead := true }
                ok rep
            | some (t', out) =>
                let head := match out, mop with
                  | .done, .movePos kh eq =>
                      -- moved iff the item exists and the old position matched
                      let moved := eq && (HTreeImpl.get t kh).isSome
                      s!"moved={moved} "
                  | .done, _ => ""
                  | .node c h, _ => s!"node={c},{h} "
                  | .listing lst, _ => s!"list={fmtListing lst} "
                  | .err, _ => "ERR "
                let m := head ++ tail t'
                if obs == "PANIC" then
                  diff rep ln "oracle" s!"case={cid} key=C08/panic {op} panicked"
                  st := { st with dead := true }
                else if m ≠ obs then
                  diff rep ln "model" s!"case={cid} {op} {" ".intercalate args |>.take 60}: model={m.take 160} impl={obs.take 160}"
                -- the dictionary and the oracle
                let dict := match mop with
                  | .set e => dictSet st.dict e
                  | .remove kh true => st.dict.filter (fun x => x.khash != kh)
                  | _ => st.dict
                match mop with
                | .list thr ds =>
                    if ds.length ≥ st.depth then
                      let spec := listBucket dict st.depth st.height thr ds
                      let specS := match spec with
                        | .items es => "I " ++ ";".intercalate (sortEnts (es.map fmtEnt))
                        | other => "N " ++ fmtListing other
                      let implS : String :=
                        match (obs.splitOn " ").head? with
                        | some w =>
                          if w.startsWith "list=" then
                            let body := ((obs.drop 5).toString.splitOn " root=").headD ""
                            if body.contains '/' then "N " ++ body
                            else "I " ++ ";".intercalate (sortEnts ((if body == "-" then [] else body.splitOn ";")))
                          else w
                        | none => ""
                      if specS ≠ implS then
                        diff rep ln "oracle" s!"case={cid} key=C08/listing-not-content listing of {" ".intercalate args} is not the listing of the content: spec={specS.take 140} impl={implS.take 140}"
                | _ => pure ()
                st := { st with t := some t', dict := dict }
                ok rep
    | [] => pure ()
  IO.println s!"#cases {cases}"
  rep.get

end Driver.HTreeE
