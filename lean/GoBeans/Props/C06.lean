/-
  C06 — process kill in normal operation never yields wrong or pre-durable data.

  Model: GoBeans/Model/Crash.lean — a kill keeps of every data file the bytes already written to it (`cut i` bytes of
  file `i`; the last write may be cut anywhere), loses the write buffers, and leaves arbitrary index files; the next
  start (`recover`) opens a new head file and serves the replay of the surviving records in (file, offset) order.
  Tied to the real store by engine `crash` (mix c06): before every file-system mutation of a history (data writes
  behind the bufio layer with buffer sizes 256..4096, create, rename of hint and tree files, removes, small-file
  rewrites; forced flushes, hint dumps while records are still buffered, rotations, clean restarts, the orderly
  shutdown) the bucket directory is copied, torn variants of data writes are added (256-byte boundaries and
  unaligned cuts), every copy is opened by a new HStore and every key read: compared with `recover` (kind=model)
  and with the set of values the property allows (kind=oracle: written for that key, not older than the last
  write that had completely reached its data file; a refusal to start only if a data file ends in a partial record).

  Proved here, for every history of set/delete/incr/get/flush/restart over keys with distinct hashes, every
  crash state of the reached bucket (any `cut`, aligned or not) and every key:
   * `C06_recovery_serves_last_durable` — a get after recovery returns exactly the live part of the key's LAST
     DURABLE record (the last record of the key, in write order, that lies completely inside the surviving bytes
     of its file): a value really written for that key, never torn, never another key's, never older than a
     durable one;
   * `C06_last_durable` — "last durable" unfolded: the last element, in log order, among the durable records of the key;
   * `C06_durable_is_written` — that record is a record of the uncrashed log.
  Partial: the refusal clause (a partial record at the end of a data file may make the store refuse to start) is
  judged by the oracle only — the model has no refusal; hint and tree files are abstracted to "recovery equals
  replay", which is exactly what the correspondence checks (and what failed before /repo commit fe79633).
  Colliding key hashes: C13.
-/
import GoBeans.Lemmas.Crash
open Store Spec StoreLemmas

theorem C06_reachable_good (hash : Key → Nat) (K : Key → Prop) (cfg : Store.Cfg) (R : Nat) (ops : List Op)
    (hops : ∀ op ∈ ops, OpOK2 K R op) : Good K (Store.run hash cfg {} ops).1 :=
  good_run hash K cfg R ops {} (good_init K) hops

theorem C06_recovery_serves_last_durable (hash : Key → Nat) (K : Key → Prop) (hInj : InjOn hash K) (cfg : Store.Cfg)
    (R : Nat) (ops : List Op) (hops : ∀ op ∈ ops, OpOK2 K R op)
    (cut : Nat → Nat) (present : Nat → Bool) (k : Key) (hk : K k) :
    let b := (Store.run hash cfg {} ops).1
    (Store.step hash cfg (b.recover hash cfg cut present) (.get k)).2.1 =
      (match lastOf k (b.log.filter (durableP cut)) with
       | some (_, r) => if r.ver > 0 then Reply.value r.flag r.body else Reply.miss
       | none => Reply.miss) := by
  intro b
  have g := C06_reachable_good hash K cfg R ops hops
  exact recover_get hash K hInj cfg b g.read g.keys cut present k hk

theorem C06_last_durable (k : Key) (log : List (Pos × Rec)) (cut : Nat → Nat) :
    lastOf k (log.filter (durableP cut)) = (log.filter (fun y => durableP cut y && decide (y.2.key = k))).getLast? := by
  unfold lastOf
  rw [List.filter_filter]
  congr 2
  funext y
  exact Bool.and_comm _ _

theorem C06_durable_is_written (k : Key) (log : List (Pos × Rec)) (cut : Nat → Nat) (x : Pos × Rec)
    (h : lastOf k (log.filter (durableP cut)) = some x) : x ∈ log ∧ x.2.key = k ∧ durableP cut x = true := by
  obtain ⟨hm, hk⟩ := lastOf_mem k _ _ h
  have := List.mem_filter.mp hm
  exact ⟨this.1, hk, this.2⟩

/-! Non-vacuity: two writes of one key and one of another in file 0; the file cut after the first record, inside
    the second (torn), and after the second. -/
def exHash (k : Key) : Nat := k.length
def exOps : List Op := [.set [1] [10] 0 0 7 256, .set [1] [11] 0 0 8 256, .set [2, 2] [12] 0 0 9 256]
def exB : Bucket := (Store.run exHash {} {} exOps).1
example : (Store.step exHash {} (exB.recover exHash {} (fun _ => 256) (fun i => i == 0)) (.get [1])).2.1 = .value 0 [10] := by decide +kernel
example : (Store.step exHash {} (exB.recover exHash {} (fun _ => 300) (fun i => i == 0)) (.get [1])).2.1 = .value 0 [10] := by decide +kernel
example : (Store.step exHash {} (exB.recover exHash {} (fun _ => 512) (fun i => i == 0)) (.get [1])).2.1 = .value 0 [11] := by decide +kernel
example : (Store.step exHash {} (exB.recover exHash {} (fun _ => 512) (fun i => i == 0)) (.get [2, 2])).2.1 = .miss := by decide +kernel
example : exB.tornAt (fun _ => 300) = true ∧ exB.tornAt (fun _ => 512) = false := by decide +kernel
