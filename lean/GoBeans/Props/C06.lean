/-
  C06 — process kill in normal operation never yields wrong or pre-durable data.

  Model: GoBeans/Model/Crash.lean — a kill keeps of every data file the bytes already written to it (`cut i` bytes of
  file `i`; the last write may be cut anywhere), loses the write buffers, and leaves arbitrary index files; the next
  start (`recover`) opens a new head file and serves the replay of the surviving records in (file, offset) order.
  Tied to the real store by engine `crash` (mix c06): before every file-system mutation of a history (data writes
  behind the bufio layer with buffer sizes 256..4096, create, rename of hint and tree files, removes, small-file
  rewrites; forced flushes, hint dumps while records are still buffered, rotations, clean restarts, the orderly
  shutdown) the bucket directory is copied, torn variants of data writes are added (256-byte boundaries and
  unaligned cuts), every copy is opened by a new HStore and every key read: compared with `recover` (kind=model)
  and with the set of values the property allows (kind=oracle: written for that key, not older than the last
  write that had completely reached its data file; a refusal to start only if a data file ends in a partial record).

  Proved here, for every history of set/delete/incr/get/flush/restart over keys with distinct hashes, every
  crash state of the reached bucket (any `cut`, aligned or not) and every key:
   * `C06_recovery_serves_last_durable` — a get after recovery returns exactly the live part of the key's LAST
     DURABLE record (the last record of the key, in write order, that lies completely inside the surviving bytes
     of its file): a value really written for that key, never torn, never another key's, never older than a
     durable one;
   * `C06_last_durable` — "last durable" unfolded: the last element, in log order, among the durable records of the key;
   * `C06_durable_is_written` — that record is a record of the uncrashed log.
  THROUGH THE INDEX FILES (GoBeans/Model/CrashHint.lean, on top of Model/HintIndex.lean): memory and disk of a bucket —
  per data file its records, the bytes on disk, the hint buffers and the `*.idx.s` files already renamed into place
  (each with the `datasize` and the items it was dumped with, possibly describing records that never reached the data
  file), the tree dump on disk, the close phase — and the operations that produce these states (write, flush to ANY
  byte position, split rotation, dump of any closed split in any order relative to the flush, the steps of close,
  restart); `recover` is `Bucket.open` built from the hint-index definitions, with the "hint beyond data" drop of
  fe79633 as a switch.  For every history and every kill point (`C06_recovery_through_index_files`): if no data file
  ends in a torn record the start comes up and every key's tree entry is, in its live part, `itemOfLast` of the key's
  LAST DURABLE record (exactly that when no tree dump is used), and it points at a complete record of that key inside
  the surviving bytes (`C06_recovered_entry_reads`); a torn tail makes the start refuse and nothing else does
  (`C06_torn_tail_refuses`); with the drop of fe79633 switched off the statement is false — the historical defect as a
  theorem (`C06_historical_code_fails`).
  Partial: a kill DURING a start is not a step of the model; check_vhash off; GC, merged hint, collision table out of
  scope (C07, C13).
  Colliding key hashes: C13.
-/
import GoBeans.Lemmas.Crash
import GoBeans.Lemmas.CrashHint
import GoBeans.Lemmas.CrashLives
open Store Spec StoreLemmas

theorem C06_reachable_good (hash : Key → Nat) (K : Key → Prop) (cfg : Store.Cfg) (R : Nat) (ops : List Op)
    (hops : ∀ op ∈ ops, OpOK2 K R op) : Good K (Store.run hash cfg {} ops).1 :=
  good_run hash K cfg R ops {} (good_init K) hops

theorem C06_recovery_serves_last_durable (hash : Key → Nat) (K : Key → Prop) (hInj : InjOn hash K) (cfg : Store.Cfg)
    (R : Nat) (ops : List Op) (hops : ∀ op ∈ ops, OpOK2 K R op)
    (cut : Nat → Nat) (present : Nat → Bool) (k : Key) (hk : K k) :
    let b := (Store.run hash cfg {} ops).1
    (Store.step hash cfg (b.recover hash cfg cut present) (.get k)).2.1 =
      (match lastOf k (b.log.filter (durableP cut)) with
       | some (_, r) => if r.ver > 0 then Reply.value r.flag r.body else Reply.miss
       | none => Reply.miss) := by
  intro b
  have g := C06_reachable_good hash K cfg R ops hops
  exact recover_get hash K hInj cfg b g.read g.keys cut present k hk

theorem C06_last_durable (k : Key) (log : List (Pos × Rec)) (cut : Nat → Nat) :
    lastOf k (log.filter (durableP cut)) = (log.filter (fun y => durableP cut y && decide (y.2.key = k))).getLast? := by
  unfold lastOf
  rw [List.filter_filter]
  congr 2
  funext y
  exact Bool.and_comm _ _

theorem C06_durable_is_written (k : Key) (log : List (Pos × Rec)) (cut : Nat → Nat) (x : Pos × Rec)
    (h : lastOf k (log.filter (durableP cut)) = some x) : x ∈ log ∧ x.2.key = k ∧ durableP cut x = true := by
  obtain ⟨hm, hk⟩ := StoreLemmas.lastOf_mem_at k _ _ h
  have := List.mem_filter.mp hm
  exact ⟨this.1, hk, this.2⟩

/-! Non-vacuity: two writes of one key and one of another in file 0; the file cut after the first record, inside
    the second (torn), and after the second. -/
def exHash (k : Key) : Nat := k.length
def exOps : List Op := [.set [1] [10] 0 0 7 256, .set [1] [11] 0 0 8 256, .set [2, 2] [12] 0 0 9 256]
def exB : Bucket := (Store.run exHash {} {} exOps).1
example : (Store.step exHash {} (exB.recover exHash {} (fun _ => 256) (fun i => i == 0)) (.get [1])).2.1 = .value 0 [10] := by decide +kernel
example : (Store.step exHash {} (exB.recover exHash {} (fun _ => 300) (fun i => i == 0)) (.get [1])).2.1 = .value 0 [10] := by decide +kernel
example : (Store.step exHash {} (exB.recover exHash {} (fun _ => 512) (fun i => i == 0)) (.get [1])).2.1 = .value 0 [11] := by decide +kernel
example : (Store.step exHash {} (exB.recover exHash {} (fun _ => 512) (fun i => i == 0)) (.get [2, 2])).2.1 = .miss := by decide +kernel
example : exB.tornAt (fun _ => 300) = true ∧ exB.tornAt (fun _ => 512) = false := by decide +kernel


/-! recovery through hint files and tree dump -/
section ThroughIndexFiles
open HintIndex CrashHint CrashHintLemmas

/-- kill at ANY instant of ANY history (data flush, split dumps and tree dump in any order the code allows): without a
    torn tail the start comes up and serves, for every key, its last durable record -/
theorem C06_recovery_through_index_files (hash : Key → Nat) (K : Key → Prop) (cap : Nat) (hInj : InjOn hash K) (hcap : 1 ≤ cap)
    (cfg : Store.Cfg) (ops : List CrashHint.Op) (hops : ∀ op ∈ ops, CrashHintLemmas.OpOK K op)
    (ht : (CrashHint.run hash cfg cap {} ops).torn = false) :
    ∃ st, CrashHint.recover hash cap true (CrashHint.run hash cfg cap {} ops).crash = some st ∧
      ∀ k, K k →
        live (AMap.get st.tree (hash k)) = itemOfLast (lastOf k (durLog (CrashHint.run hash cfg cap {} ops))) ∧
        (usedDump (CrashHint.run hash cfg cap {} ops).crash = none →
          AMap.get st.tree (hash k) = itemOfLast (lastOf k (durLog (CrashHint.run hash cfg cap {} ops)))) :=
  crash_recovery hash K cap hInj hcap cfg ops hops ht

theorem C06_torn_tail_refuses (hash : Key → Nat) (cap : Nat) (chk : Bool) (s : CrashHint.St) (ht : s.torn = true) :
    CrashHint.recover hash cap chk s.crash = none :=
  torn_refuses hash cap chk s ht

theorem C06_recovered_entry_reads (hash : Key → Nat) (K : Key → Prop) (cap : Nat) {s : CrashHint.St}
    (inv : CrashHintLemmas.Inv hash K cap s) (k : Key) (it : TItem)
    (h : itemOfLast (lastOf k (durLog s)) = some it) :
    ∃ r, s.crash.readAt it.pos = some r ∧ r.key = k ∧ r.ver = it.ver ∧ 0 < it.ver ∧ it.vhash = vhashOf r.body ∧
      (it.pos, r) ∈ durLog s :=
  recovered_entry_reads hash K cap inv k it h

/-- without the "hint beyond data" drop (the code before /repo fe79633) the statement is false -/
theorem C06_historical_code_fails :
    ¬ (∀ (ops : List CrashHint.Op), (∀ op ∈ ops, CrashHintLemmas.OpOK HintIndexLemmas.exK op) → (CrashHint.run HintIndexLemmas.exHash {} 2 {} ops).torn = false →
        ∃ st, CrashHint.recover HintIndexLemmas.exHash 2 false (CrashHint.run HintIndexLemmas.exHash {} 2 {} ops).crash = some st ∧
          ∀ k, HintIndexLemmas.exK k → live (AMap.get st.tree (HintIndexLemmas.exHash k)) = itemOfLast (lastOf k (durLog (CrashHint.run HintIndexLemmas.exHash {} 2 {} ops)))) :=
  old_code_fails

end ThroughIndexFiles

/-! several process lives -/

/-- what a kill leaves of a store reached by client commands, flushes, restarts and GC requests, and what the next start
    makes of it, satisfies the invariants the crash theorem needs again (`Good`): C06 composes over any number of lives -/
theorem C06_recovered_store_is_good (hash : Key → Nat) (K : Key → Prop) {cfg : Store.Cfg} {b : Bucket} (w : WF cfg b)
    (hk : ∀ x ∈ b.log, K x.2.key) (cut : Nat → Nat) (present : Nat → Bool) :
    Good K (b.recover hash cfg cut present) ∧ (b.recover hash cfg cut present).log = b.log.filter (durableP cut) :=
  ⟨good_recover hash K w hk cut present, recover_log hash w cut present⟩

/-- two lives: after a first life (client commands, flushes, restarts, GC requests), a kill, the start, a second life
    (client commands, flushes, restarts) on what that start made, a second kill and start, a get returns the live part of
    the key's last record that is durable in the SECOND crash state (engine crash exercises this: mix c06, second life) -/
theorem C06_two_lives (hash : Key → Nat) (K : Key → Prop) (hInj : InjOn hash K) (cfg : Store.Cfg)
    (hcv : cfg.checkVHash = false) (R : Nat) (ops1 : List HOp) (hlen : R + ops1.length < 2147483647)
    (hops1 : ∀ op ∈ ops1, HOpOK K cfg R op) (cut1 : Nat → Nat) (present1 : Nat → Bool)
    (R2 : Nat) (ops2 : List Op) (hops2 : ∀ op ∈ ops2, OpOK2 K R2 op) (cut2 : Nat → Nat) (present2 : Nat → Bool)
    (k : Key) (hk : K k) :
    let b1 := (hrun hash cfg {} ops1).1
    let r1 := b1.recover hash cfg cut1 present1
    let b2 := (Store.run hash cfg r1 ops2).1
    r1.log = b1.log.filter (durableP cut1) ∧
    (Store.step hash cfg (b2.recover hash cfg cut2 present2) (.get k)).2.1 =
      (match lastOf k (b2.log.filter (durableP cut2)) with
       | some (_, r) => if r.ver > 0 then Reply.value r.flag r.body else Reply.miss
       | none => Reply.miss) :=
  second_life_recover_get hash K hInj cfg hcv R ops1 hlen hops1 cut1 present1 R2 ops2 hops2 cut2 present2 k hk
