/-
  C02 — clean restart preserves everything; index files are rebuildable caches.

  Model: `Store.step … (.reopen keepTree)` (GoBeans/Model/Store.lean): close flushes the head file; a new
  process appends to a new file; the tree is either the loaded dump (`keepTree = true`: unchanged, tombstone
  entries included) or rebuilt by replaying all records in (file, offset) order, live record sets, tombstone
  removes (`replayTree`).  Which hint files survive does not appear in the model at all: hints are derived
  from the data (rebuilt when missing or short) — that abstraction is what engine `seq` checks against the
  real store by deleting every subset of *.idx.hash / *.idx.s / *.idx.m before reopening.
  Reference: `specStep` = client commands on the plain map; a rebuild drops tombstones (allowed by C02).

  HINT FILES (GoBeans/Model/HintIndex.lean — store/hint.go hintMgr / hintChunk / HintBuffer.Set, split files sorted by
  (hash, key), `findValidPaths` (gap-free prefix of the split files kept), `loadHintsByChunk`, `checkHintWithData` /
  `buildHintFromData` (the rest of the data file rescanned from the largest `datasize` kept, through the same buffer
  code), `updateHtreeFromHint` (`Ver > 0 → set, else remove`); the merged hint is never read at open): for every
  log, every cut of every file's records into splits, EVERY SUBSET of split files removed, the tree the start builds
  from what is left answers every key exactly like `replayTree` of the data log (`C02_hint_files_are_caches`,
  `C02_any_hint_subset_removed`, `C02_restart_on_reachable_bucket`) — so the abstraction "restart = replay of the
  data" used by the theorems below is what the hint mechanism computes, whichever hint files survive.  A differential
  run of this model against the real store (hint file contents and per-key tree items after removing random subsets
  of *.idx.s files: 1103 cases, no mismatch) is recorded in notes/REPORT-hintindex.md; on every run the same
  abstraction is exercised by engine `seq` (restart modes with every class of index-file subset removed).

  Quantifier: every history as in C01 with a restart of either kind inserted at every position, repeatedly.
  Proviso of the property, as hypothesis: `check_vhash` off (versions changed without a data write — the
  same-value explicit-revision sets — are not recoverable from data; with `keepTree = true` they survive).
-/
import GoBeans.Lemmas.Log
import GoBeans.Lemmas.HintIndex
import GoBeans.Props.C01

open Store Spec StoreLemmas

/-- A restart that loads the tree dump changes nothing observable: the bucket still agrees with the same
    reference map (so every later reply is the reference reply, by C01). -/
theorem C02_restart_tree_loaded (hash : Key → Nat) (K : Key → Prop) (cfg : Store.Cfg) {n : Nat} {b : Bucket} {m : KV}
    (inv : Inv hash K n b m) (lr : LastRec hash K b) :
    Inv hash K n (Store.step hash cfg b (.reopen true)).1 m :=
  (reopen_keep hash K cfg inv lr).1

/-- A restart that rebuilds the tree from the data files yields the same mapping for every live key —
    position, version, value hash — and no entry for deleted keys. -/
theorem C02_restart_rebuilt (hash : Key → Nat) (K : Key → Prop) (cfg : Store.Cfg) (hInj : InjOn hash K)
    {n : Nat} {b : Bucket} {m : KV} (inv : Inv hash K n b m) (lr : LastRec hash K b) (hnd : AMap.NodupKeys m) :
    Inv hash K n (Store.step hash cfg b (.reopen false)).1 (Spec.dropTombstones m) :=
  (reopen_rebuild hash K cfg hInj inv lr hnd).1

/-- The rebuilt tree IS the replay of the data: for every key, the live part of its last record. -/
theorem C02_rebuild_is_replay (hash : Key → Nat) (K : Key → Prop) (hInj : InjOn hash K) (b : Bucket)
    (lr : LastRec hash K b) (k : Key) (hk : K k) :
    AMap.get (replayTree hash b.log) (hash k) = itemOfLast (lastOf k b.log) :=
  replay_get hash K hInj b.log lr.keys k hk

/-- Index independence: whichever index files survive (tree dump loaded or not), a get of any key returns
    the same reply after the restart. -/
theorem C02_index_independent (hash : Key → Nat) (K : Key → Prop) (cfg : Store.Cfg) (hInj : InjOn hash K)
    {n : Nat} {b : Bucket} {m : KV} (inv : Inv hash K n b m) (lr : LastRec hash K b) (hnd : AMap.NodupKeys m)
    (k : Key) (hk : K k) :
    (Store.step hash cfg (Store.step hash cfg b (.reopen true)).1 (.get k)).2.1
      = (Store.step hash cfg (Store.step hash cfg b (.reopen false)).1 (.get k)).2.1
    ∧ (Store.step hash cfg (Store.step hash cfg b (.reopen true)).1 (.get k)).2.1 = (Store.step hash cfg b (.get k)).2.1 := by
  have i1 := (reopen_keep hash K cfg inv lr).1
  have i2 := (reopen_rebuild hash K cfg hInj inv lr hnd).1
  have g0 := (get_refines hash K cfg inv k hk).1
  have g1 := (get_refines hash K cfg i1 k hk).1
  have g2 := (get_refines hash K cfg i2 k hk).1
  have hdrop : (Spec.step { checkVHash := cfg.checkVHash } (Spec.dropTombstones m) (.get k)).2
      = (Spec.step { checkVHash := cfg.checkVHash } m (.get k)).2 := by
    have := AMap.get_filter (fun (e : Entry) => decide (e.ver > 0)) hnd k
    simp only [Spec.step]
    show (match AMap.get (m.filter (fun (p : Key × Entry) => decide (p.2.ver > 0))) k with
          | some e => if e.ver > 0 then (Spec.dropTombstones m, Reply.value e.flag e.body) else (Spec.dropTombstones m, Reply.miss)
          | none => (Spec.dropTombstones m, Reply.miss)).2 = _
    rw [this]
    cases hg : AMap.get m k with
    | none => simp [Option.filter]
    | some e =>
      by_cases hv : e.ver > 0
      · simp [Option.filter, hv]
      · simp [Option.filter, hv]
  rw [g1, g2, g0, hdrop]
  exact ⟨rfl, rfl⟩

/-- FULL sequential statement: histories with restarts of either kind at every position, repeatedly —
    every reply equals the reference reply, the agreement and the last-record invariant still hold at the end. -/
theorem C02_history_with_restarts (hash : Key → Nat) (K : Key → Prop) (hInj : InjOn hash K) (cfg : Store.Cfg)
    (hcv : cfg.checkVHash = false) (R : Nat) (ops : List Op) (hops : ∀ op ∈ ops, OpOK2 K R op)
    (hbound : R + ops.length < 2147483647) :
    (Store.run hash cfg {} ops).2 = (specRun { checkVHash := cfg.checkVHash } [] ops).2
    ∧ LastRec hash K (Store.run hash cfg {} ops).1 := by
  have := run_refines_restart hash K cfg hcv hInj R ops R {} []
    (inv_mono hash K (Nat.zero_le R) (inv_init hash K)) (lr_init hash K) (by simp [AMap.NodupKeys]) (Nat.le_refl R) hbound hops
  exact ⟨this.1, this.2.2⟩

/-! hint files are rebuildable caches -/
section Hints
open HintIndex HintIndexLemmas HintLoadLemmas HintBufferLemmas

/-- every log, every cut into splits per file, every subset of files whose hints were rebuilt from the data: the tree
    built from hint files answers every key like the replay of the data -/
theorem C02_hint_files_are_caches (hash : Key → Nat) (K : Key → Prop) (hInj : InjOn hash K) (files : List FileRecs)
    (hK : ∀ f ∈ files, ∀ p ∈ f, K p.2.key) (cuts : List (List Nat)) (gone : List Bool) (k : Key) (hk : K k) :
    AMap.get (hintReplay (chooseHints hash files cuts gone)) (hash k) =
      AMap.get (replayTree hash (logOf files)) (hash k) :=
  hints_cut_or_rebuilt hash K hInj files hK cuts gone k hk

/-- the code path of a start: split files as the write path leaves them under ANY interleaving of record writes and
    split closings, ANY subset of the *.idx.s files removed, then `Bucket.open` -/
theorem C02_any_hint_subset_removed (hash : Key → Nat) (K : Key → Prop) (hInj : InjOn hash K) (cap : Nat) (hcap : 1 ≤ cap)
    (ess : List (List (Option (Nat × Rec))))
    (hK : ∀ es ∈ ess, ∀ p ∈ es.filterMap id, K p.2.key) (hc : ∀ es ∈ ess, Contig (es.filterMap id))
    (disks : List (List (Option SplitFile)))
    (hm : Forall2 (fun es disk => Masked (HChunk.run cap (es.map (evOf hash false))).disk disk) ess disks)
    (k : Key) (hk : K k) :
    AMap.get (restartTree hash cap (ess.map (fun es => es.filterMap id)) disks) (hash k) =
      AMap.get (replayTree hash (logOf (ess.map (fun es => es.filterMap id)))) (hash k) :=
  written_removed_restart hash K hInj cap hcap ess hK hc disks hm k hk

/-- on a bucket reached by any history with restarts: the tree the hint mechanism builds from whatever split files are
    left equals, on every key, the tree of the model's rebuilding restart -/
theorem C02_restart_on_reachable_bucket (hash : Key → Nat) (K : Key → Prop) (hInj : InjOn hash K) (cfg : Store.Cfg)
    (cap : Nat) (hcap : 1 ≤ cap) (R : Nat) (ops : List Op) (hops : ∀ op ∈ ops, OpOK2 K R op)
    (hK : ∀ x ∈ (Store.run hash cfg {} ops).1.log, K x.2.key)
    (disks : List (List (Option SplitFile)))
    (hd : Forall2 (DiskOK hash) ((Store.run hash cfg {} ops).1.chunkList.map (·.recs)) disks) (k : Key) (hk : K k) :
    AMap.get (restartTree hash cap ((Store.run hash cfg {} ops).1.chunkList.map (·.recs)) disks) (hash k) =
      AMap.get (Store.step hash cfg (Store.run hash cfg {} ops).1 (.reopen false)).1.tree (hash k) :=
  bucket_restart_eq_reopen hash K hInj cfg cap hcap R ops hops hK disks hd k hk

end Hints

/-- Shutdown against the post-rotation flushes: in the model a clean shutdown leaves EVERY data file completely on
    disk, whatever had been flushed before — the head file and every file left behind by a rotation whose flush goroutine
    has not run yet (`flushed` arbitrary).  That `Bucket.close` really does this for every file below the head is the
    repaired code (/repo d2aaa9d `flushPending`; call-order fact `bucket.close.order`), exercised by engine crash mix c02
    with several rotations and only SOME of their flushes held while Close runs (seed C02-e). -/
theorem C02_close_flushes_every_file (hash : Key → Nat) (cfg : Store.Cfg) (b : Bucket) (keep : Bool) (i : Nat) :
    ((Store.step hash cfg b (.reopen keep)).1.chunks i).flushed = ((Store.step hash cfg b (.reopen keep)).1.chunks i).recs.length
    ∧ ((Store.step hash cfg b (.reopen keep)).1.chunks i).recs = (b.chunks i).recs :=
  ⟨rfl, rfl⟩

/-! Non-vacuity: a history with two restarts (one loading the tree, one rebuilding it) around a delete. -/
def exOps2 : List Op := [
  .set [97] [1,2,3] 0 0 100 256, .set [98] [9] 7 0 101 256, .delete [98] 256 50, .reopen true, .info [98], .get [97],
  .reopen false, .info [98], .get [97], .set [98] [7] 0 0 102 256, .info [98]]
example : ∀ op ∈ exOps2, OpOK2 exK 5 op := by
  intro op h; simp [exOps2] at h
  rcases h with rfl | rfl | rfl | rfl | rfl | rfl | rfl | rfl | rfl | rfl | rfl <;> simp [OpOK2, OpOK, exK]
example : (Store.run exHash { dataFileMax := 512 } {} exOps2).2 =
    [.stored, .stored, .deleted, .info (-2) 0 0 0 none, .value 0 [1,2,3], .miss, .value 0 [1,2,3], .stored,
     .info 1 (Ref.vhash [7]) 0 1 (some 102)] := by decide +kernel
