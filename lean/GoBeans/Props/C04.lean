/-
  C04 — concurrent clients see per-key linearizable writes and reads.

  Model: GoBeans/Model/Conc.lean — per key, the register a bucket implements when every accepted write takes effect
  at one instant between its invocation and its response (in the code: the tree update that follows the append, both
  under the bucket write lock; reads take the tree lock per call and copy buffered records under the chunk lock).
  The conditions of the property on a recorded history of one key are the executable checks
      checkA  (a read returns a value some write of that key stored — invoked before the read ended — and not older
               than any write acknowledged before the read began; covers the final reads after everything stopped),
      checkB  (accepted writes have distinct versions; acknowledged-before-issued ⇒ smaller version).
  Engine `conc` (mix c04) records such histories on the real HStore: 2..8 client goroutines × 15..54 operations on
  1..4 shared keys (set with values of 0..3 blocks, delete, read of value+version), a flusher and a hint dumper
  running freely, data files of 8..64 blocks (rotations), hint splits of 2..64 keys, yields/sleeps injected with
  probability 0/20/50/80 % at the hook points (after append before tree update, at the linearisation point, inside
  the flush between write and buffer detach, at rotation), versions taken at the linearisation point.

  Proved here: EVERY atomic execution — any operations, any invocation/linearisation/response times with
  inv < lin < resp and distinct linearisation instants, any number of clients — yields a history that passes both
  checks (`C04_atomic_executions_pass`).  So the oracle states exactly the property and cannot blame an
  implementation whose operations are atomic; conversely a history failing a check has no atomic explanation.
  `C04_register_is_spec` ties the register to the reference map of C01 (version arithmetic of set and delete).
  Partial: that the real bucket IS atomic at that point under every schedule is what the recorded histories test —
  real interleavings are sampled (seeded yield injection), not enumerated; concurrent incr is excluded as documented.
  One genuine defect found by this engine and repaired: two dumpers of one hint split ran together and the writer
  crashed on a nil buffer (/repo "fix: two dumpers of one hint split…").
-/
import GoBeans.Lemmas.Conc
import GoBeans.Spec.KV
open Conc

theorem C04_atomic_executions_pass (ss : List Step) (hv : Valid ss) :
    checkA (run {} ss) = true ∧ checkB (run {} ss) = true :=
  ⟨checkA_sound ss hv, checkB_sound ss hv⟩

/-- the checks do not depend on the order in which the events are listed (the harness lists by invocation time) -/
theorem C04_checkA_perm (h h' : List Ev) (hp : ∀ e, e ∈ h ↔ e ∈ h') (hc : checkA h = true) : checkA h' = true := by
  unfold checkA at *
  rw [List.all_eq_true] at *
  intro e he
  have := hc e ((hp e).2 he)
  unfold readOK at *
  cases ho : e.out with
  | acc v => rfl
  | rej => rfl
  | got val ver =>
    rw [ho] at this
    simp only [Bool.and_eq_true, Bool.or_eq_true, List.any_eq_true, List.all_eq_true] at this ⊢
    refine ⟨?_, ?_⟩
    · rcases this.1 with h1 | ⟨w, hw, h2⟩
      · exact Or.inl h1
      · exact Or.inr ⟨w, (hp w).1 hw, h2⟩
    · intro w hw; exact this.2 w ((hp w).2 hw)

/-- the register's version arithmetic is the reference map's: a set without explicit revision and a delete both
    move the absolute version up by one -/
theorem C04_register_is_spec (oldv : Int) :
    (Spec.nextVersion oldv 0).1.natAbs = oldv.natAbs + 1 ∧ (Spec.nextVersion oldv (-1)).1.natAbs = oldv.natAbs + 1 := by
  unfold Spec.nextVersion
  simp
  omega

/-! Non-vacuity: three clients; the read overlaps the second write and may see either value — both histories pass;
    a read that returns the first value AFTER the second write was acknowledged does not. -/
def exSteps : List Step := [
  { op := .write 11, inv := 1, lin := 2, resp := 3 },
  { op := .write 12, inv := 4, lin := 6, resp := 9 },
  { op := .read, inv := 5, lin := 7, resp := 8 },
  { op := .delete, inv := 10, lin := 11, resp := 12 },
  { op := .read, inv := 13, lin := 14, resp := 15 }]
example : Valid exSteps := by
  refine ⟨?_, ?_⟩
  · intro s hs; simp [exSteps] at hs; rcases hs with rfl | rfl | rfl | rfl | rfl <;> decide
  · simp [exSteps]
example : (run {} exSteps).map (·.out) = [.acc 1, .acc 2, .got 12 2, .acc 3, .got 0 3] := by decide +kernel
def staleHistory : List Ev := [
  { op := .write 11, inv := 1, resp := 3, out := .acc 1 }, { op := .write 12, inv := 4, resp := 9, out := .acc 2 },
  { op := .read, inv := 10, resp := 11, out := .got 11 1 }]
example : checkA staleHistory = false := by decide +kernel
