/-
  C04 — concurrent clients see per-key linearizable writes and reads.

  Model: GoBeans/Model/Conc.lean — per key, the register a bucket implements when every accepted write takes effect
  at one instant between its invocation and its response (in the code: the tree update that follows the append, both
  under the bucket write lock; reads take the tree lock per call and copy buffered records under the chunk lock).
  The conditions of the property on a recorded history of one key are the executable checks
      checkA  (a read returns a value some write of that key stored — invoked before the read ended — and not older
               than any write acknowledged before the read began; covers the final reads after everything stopped),
      checkB  (accepted writes have distinct versions; acknowledged-before-issued ⇒ smaller version).
  Engine `conc` (mix c04) records such histories on the real HStore: 2..8 client goroutines × 15..54 operations on
  1..4 shared keys (set with values of 0..3 blocks, delete, read of value+version), a flusher and a hint dumper
  running freely, data files of 8..64 blocks (rotations), hint splits of 2..64 keys, yields/sleeps injected with
  probability 0/20/50/80 % at the hook points (after append before tree update, at the linearisation point, inside
  the flush between write and buffer detach, at rotation), versions taken at the linearisation point.

  Proved here: EVERY atomic execution — any operations, any invocation/linearisation/response times with
  inv < lin < resp and distinct linearisation instants, any number of clients — yields a history that passes both
  checks (`C04_atomic_executions_pass`).  So the oracle states exactly the property and cannot blame an
  implementation whose operations are atomic; conversely a history failing a check has no atomic explanation.
  `C04_register_is_spec` ties the register to the reference map of C01 (version arithmetic of set and delete).
  FINE-GRAINED MODEL (GoBeans/Model/ConcFine.lean, Lemmas/ConcFine*.lean): one bucket with any number of writers
  (set/delete), readers and flushers, each a program of ATOMIC MICRO-STEPS — one per critical section of the Go code
  (checkAndSet under bkt.writeLock: tree get, slot choice and chunk append under ds.Mutex, tree set; get: tree get,
  buffer lookup+copy under the chunk lock, else file read with no lock; dataStore.flush under flushLock: size check,
  count / fetch under the chunk lock, file write outside it, detach after the stream writer was flushed) — driven by
  an arbitrary scheduler.  Proved for EVERY schedule (`C04_fine_grained`, `C04_fine_grained_inflight`): the recorded
  history of every key is an atomic execution, hence passes both checks; a tree item always points at a readable
  record of its key and version; a position a reader took from the tree stays readable while the record migrates
  from the buffer to the file; the flusher's `Fatalf` size check and read errors are unreachable
  (`C04_no_fatal_no_read_error`); some thread can always move (`C04_no_deadlock`).  The granularity of the
  micro-steps is tied to the code by call-order facts (tie B: bucket.cas.locked, data.append.locked,
  chunk.append.locked, htree.set.locked, htree.get.locked, chunk.inbuffer.copy, chunk.read.buffer.first,
  data.flush.locks, chunk.flush.steps, chunk.flush.ledger) — a lock dropped or a step moved breaks a fact.
  Partial: the model assumes sequential consistency and working mutexes (Go data races such as the unlocked reads
  of ds.wbufSize / getDiskFileSize are outside it); one bucket; no GC (C05), no incr (excluded as documented), no
  explicit revisions, hint dumper not modelled; that real schedules realise nothing else is what the recorded
  histories of engine `conc` test — real interleavings are sampled (seeded yield injection), not enumerated.
  One genuine defect found by this engine and repaired: two dumpers of one hint split ran together and the writer
  crashed on a nil buffer (/repo "fix: two dumpers of one hint split…").
-/
import GoBeans.Lemmas.Conc
import GoBeans.Lemmas.ConcFine
import GoBeans.Spec.KV
open Conc

theorem C04_atomic_executions_pass (ss : List Step) (hv : Valid ss) :
    checkA (run {} ss) = true ∧ checkB (run {} ss) = true :=
  ⟨checkA_sound ss hv, checkB_sound ss hv⟩

/-- C04 on the fine-grained model: after ANY schedule of any number of writers, readers and flushers that ends with
    every operation returned, the recorded history of every key passes both checks of the property. -/
theorem C04_fine_grained (cfg : ConcFine.Cfg) (sched : List (Nat × ConcFine.Act)) (k : Nat)
    (hq : ConcFine.quiescent (ConcFine.exec cfg ConcFine.init sched)) :
    checkA (ConcFine.histOf (ConcFine.exec cfg ConcFine.init sched) k) = true
    ∧ checkB (ConcFine.histOf (ConcFine.exec cfg ConcFine.init sched) k) = true :=
  ConcFine.C04_fine cfg sched k hq

/-- … and at any moment, with the operations still in flight completed at any later time -/
theorem C04_fine_grained_inflight (cfg : ConcFine.Cfg) (sched : List (Nat × ConcFine.Act)) (k fut : Nat)
    (hfut : (ConcFine.exec cfg ConcFine.init sched).clock ≤ fut) :
    checkA (ConcFine.histAt (ConcFine.exec cfg ConcFine.init sched) k fut) = true
    ∧ checkB (ConcFine.histAt (ConcFine.exec cfg ConcFine.init sched) k fut) = true :=
  ConcFine.C04_fine_general cfg sched k fut hfut

/-- under every schedule: the flusher's file-size check never fails and no get ends in a read error -/
theorem C04_no_fatal_no_read_error (cfg : ConcFine.Cfg) (sched : List (Nat × ConcFine.Act)) :
    (ConcFine.exec cfg ConcFine.init sched).fatal = false ∧ (ConcFine.exec cfg ConcFine.init sched).readErr = false :=
  ConcFine.no_fatal_no_read_error cfg sched

/-- the lock structure cannot wedge: whenever some thread is inside an operation, some thread can take a step -/
theorem C04_no_deadlock (cfg : ConcFine.Cfg) (sched : List (Nat × ConcFine.Act)) (t : Nat)
    (hne : ((ConcFine.exec cfg ConcFine.init sched).thr t).pc ≠ .idle) :
    ∃ u, (ConcFine.step cfg (ConcFine.exec cfg ConcFine.init sched) u .go).isSome = true :=
  ConcFine.no_deadlock_reachable cfg sched t hne

/-- the checks do not depend on the order in which the events are listed (the harness lists by invocation time) -/
theorem C04_checkA_perm (h h' : List Ev) (hp : ∀ e, e ∈ h ↔ e ∈ h') (hc : checkA h = true) : checkA h' = true := by
  unfold checkA at *
  rw [List.all_eq_true] at *
  intro e he
  have := hc e ((hp e).2 he)
  unfold readOK at *
  cases ho : e.out with
  | acc v => rfl
  | rej => rfl
  | got val ver =>
    rw [ho] at this
    simp only [Bool.and_eq_true, Bool.or_eq_true, List.any_eq_true, List.all_eq_true] at this ⊢
    refine ⟨?_, ?_⟩
    · rcases this.1 with h1 | ⟨w, hw, h2⟩
      · exact Or.inl h1
      · exact Or.inr ⟨w, (hp w).1 hw, h2⟩
    · intro w hw; exact this.2 w ((hp w).2 hw)

/-- the register's version arithmetic is the reference map's: a set without explicit revision and a delete both
    move the absolute version up by one -/
theorem C04_register_is_spec (oldv : Int) :
    (Spec.nextVersion oldv 0).1.natAbs = oldv.natAbs + 1 ∧ (Spec.nextVersion oldv (-1)).1.natAbs = oldv.natAbs + 1 := by
  unfold Spec.nextVersion
  simp
  omega

/-! Non-vacuity: three clients; the read overlaps the second write and may see either value — both histories pass;
    a read that returns the first value AFTER the second write was acknowledged does not. -/
def exSteps : List Step := [
  { op := .write 11, inv := 1, lin := 2, resp := 3 },
  { op := .write 12, inv := 4, lin := 6, resp := 9 },
  { op := .read, inv := 5, lin := 7, resp := 8 },
  { op := .delete, inv := 10, lin := 11, resp := 12 },
  { op := .read, inv := 13, lin := 14, resp := 15 }]
example : Valid exSteps := by
  refine ⟨?_, ?_⟩
  · intro s hs; simp [exSteps] at hs; rcases hs with rfl | rfl | rfl | rfl | rfl <;> decide
  · simp [exSteps]
example : (run {} exSteps).map (·.out) = [.acc 1, .acc 2, .got 12 2, .acc 3, .got 0 3] := by decide +kernel
def staleHistory : List Ev := [
  { op := .write 11, inv := 1, resp := 3, out := .acc 1 }, { op := .write 12, inv := 4, resp := 9, out := .acc 2 },
  { op := .read, inv := 10, resp := 11, out := .got 11 1 }]
example : checkA staleHistory = false := by decide +kernel
