/-
  C15 — keys are routed to exactly one bucket by the top hash digits.

  Proved here: the regenerated path computation (`Gen.ParsePathUint64`, store/key.go) yields exactly the 16
  hex digits of the 64-bit key hash, most significant first, for every hash; the regenerated `InitTree`
  gives depth 0/1/2 for 1/16/256 buckets.  `KeyInfo.Prepare` folds the first `depth` digits into the bucket id
  (`id = id<<4 + digit`), i.e. the leading hex digits name the bucket.
  Tied by engine `seq`: real HStore with 1/16/256 buckets and served subsets {one, some, all}; the model routes
  by `hash / 16^(16-depth)`; every reply, position and data-file location is compared; any file outside a
  served bucket's directory and any non-miss answer for an unserved bucket is an oracle failure.
  Not proved (partial): the numeric identity fold(digits) = hash / 16^(16-depth) over Int64/UInt64 conversions and
  `GetBucketDir` (fmt.Sprintf, outside the translator's subset) — both covered by the correspondence only.
-/
import GoBeans.Lemmas.Route
open RouteLemmas

/-- digit i of the path = bits [63-4i .. 60-4i] of the key hash, for every hash -/
theorem C15_path_digits (kh : UInt64) :
    Gen.ParsePathUint64 kh zeros16 = (List.range 16).map (fun i => ((Go.shr64 kh (4 * (15 - i))).toInt64 &&& 15)) :=
  parsePath_eq kh

/-- tree depth (= number of leading digits that name the bucket) for the three supported bucket counts,
    whatever the tree height -/
theorem C15_depth (h : Int64) : (Gen.InitTree 1 h).1 = 0 ∧ (Gen.InitTree 16 h).1 = 1 ∧ (Gen.InitTree 256 h).1 = 2 := by
  refine ⟨?_, ?_, ?_⟩ <;> (unfold Gen.InitTree; simp only [Id.run, Std.Legacy.Range.forIn_eq_forIn_range', Std.Legacy.Range.size]; rfl)

/-- the loop `for n > 1 { depth++; n /= 16 }` was translated with fuel 64: it has terminated (n ≤ 1) within the
    fuel for the supported bucket counts -/
example : ∀ nb ∈ [(1 : Int64), 16, 256], (Gen.InitTree nb 3).1 < 3 := by decide +kernel

/-- non-vacuity: the digits of a concrete hash -/
example : Gen.ParsePathUint64 0xc80f795945b78f6b zeros16 = [12, 8, 0, 15, 7, 9, 5, 9, 4, 5, 11, 7, 8, 15, 6, 11] := by decide +kernel
