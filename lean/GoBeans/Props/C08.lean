/-
  C08 — Merkle tree listing is an exact, history-independent function of content.

  Specification (GoBeans/Model/Tree.lean): `nodeSum` / `listBucket` / `listUpper` recompute every per-prefix hash,
  count and item listing from the CONTENT — the set of (key hash, version, value hash) entries — alone.
  Engine `seq` asks the real server `get @<prefix>` for prefixes of every length 0..16 of present keys and of
  neighbours (bucket counts 1/16/256, heights 2..4(8-depth), list-keys threshold 1/2/4/8/256), after arbitrary
  histories with overwrites, deletes, restarts (tree dump loaded or rebuilt from hints) and GC, and compares
  (a) with the listing recomputed from the model tree's content (kind=model) and (b) with the listing recomputed
  from the reference map alone (kind=oracle: node lines exact; item lines: live entries exact, tombstones optional,
  nothing else).

  Proved here (every content, prefix, depth; no bound on the number of keys):
   * history independence: the specification is invariant under any reordering of the content, hence under any
     history that produced the same set of entries (`C08_history_independent`);
   * counts equal the number of live keys under the prefix at every level (`C08_count`);
   * the incremental bookkeeping of `setToLeaf` / `remvoeFromLeaf` (count ±1, hash += Δvhash·lo16(khash>>32) in
     uint16 arithmetic) keeps the leaf summary equal to the sum over its live items, after ANY sequence of
     set / remove on the leaf (`C08_leaf_summary`).
   * IMPLEMENTATION-LEVEL TREE (GoBeans/Model/HTreeImpl.lean — store/htree.go: the `levels` array with
     `Node{count,hash,isHashUpdated}`, the walk of set/remove/movePos that clears the flag of the ancestors, the lazy
     `updateNodes` recomputation from the 16 children, `ListDir`; tied to the real HTree by engine `htree`: every call,
     the reply and EVERY node of every level after every call): for every sequence of set / remove / movePos / Update /
     ListDir — so for every pattern of stale flags — no call panics and every reply equals the content-level
     specification of the content at that moment (`C08_lazy_never_stale`); what a reader obtains for any node at any
     level equals `nodeSum` of the current content (`C08_every_node_exact`); a node found flagged is already exact
     (`C08_flagged_node_is_exact`); after any history the summaries are those of the dictionary the history built
     (`C08_history_to_summary`, `C08_run_output_exact`).
     `C08_root_count_unrefreshed` states what `stats curr_items` reads (the root count WITHOUT an update: the live count
     at the last root refresh — an observation, not part of C08).
  Partial: the byte-level leaf (truncated hashes, C-accelerated search) is validated by the correspondence, not proved.
-/
import GoBeans.Lemmas.Tree
import GoBeans.Lemmas.HTreeImpl
open Tree TreeLemmas

theorem C08_leaf_summary (ops : List LeafOp) :
    let lf := ops.foldl applyOp {}
    (lf.count, lf.hash) = leafSum lf.items := by
  intro lf
  have inv := leaf_reachable_inv ops
  rw [leafSum_eq, ← inv.count, ← inv.hash]

theorem C08_count (c : Content) (below n p : Nat) (h : n + below ≤ 16) :
    (nodeSum c n p below).1 = ((under c n p).filter (fun e => decide (e.ver > 0))).length :=
  node_count c below n p h

theorem C08_history_independent {a b : Content} (h : a.Perm b) (below n p : Nat) :
    nodeSum a n p below = nodeSum b n p below :=
  nodeSum_perm h below n p

/-- tombstones never count and never contribute to a hash -/
theorem C08_tombstones_invisible (c : Content) (t : Ent) (ht : ¬ t.ver > 0) : leafSum (t :: c) = leafSum c := by
  rw [leafSum_eq, leafSum_eq]
  simp [liveCount, hashSum, List.filter_cons, ht]

/-! the implementation-level tree with lazy inner nodes -/
section Impl
open HTreeImpl HTreeImplLemmas

/-- any sequence of calls, any stale pattern: the next call does not panic and its reply (the summary `Update` returns,
    every listing) is the specification of the content at that moment -/
theorem C08_lazy_never_stale (depth bid height : Nat) (t0 t : HTree) (h0 : newHTree depth bid height = some t0)
    (hh : 2 ≤ height) (hr : Reach t0 t) (op : Op) (ok : OpOk t op) :
    ∃ t' out, step t op = some (t', out) ∧ out = specOut t0 (content t) op ∧ Reach t0 t' ∧
      (isReader op = true → content t' = content t) :=
  HTreeImplLemmas.C08_lazy_never_stale depth bid height t0 t h0 hh hr op ok

/-- what a reader obtains for ANY node at ANY level is `nodeSum` of the current content -/
theorem C08_every_node_exact (depth bid height : Nat) (t0 t : HTree) (h0 : newHTree depth bid height = some t0)
    (hh : 2 ≤ height) (hr : Reach t0 t) (level offset : Nat) (hl : level < height) (ho : offset < 16 ^ level) :
    ((updateAt t level offset).2.count, (updateAt t level offset).2.hash)
      = nodeSum (content t) (depth + level) (bid * 16 ^ level + offset) (height - 1 - level) ∧
    (updateAt t level offset).2 = (updateAt t level offset).1.node level offset ∧
    content (updateAt t level offset).1 = content t :=
  HTreeImplLemmas.C08_every_node depth bid height t0 t h0 hh hr level offset hl ho

/-- a node found flagged up to date is exact as it stands -/
theorem C08_flagged_node_is_exact (depth bid height : Nat) (t0 t : HTree) (h0 : newHTree depth bid height = some t0)
    (hh : 2 ≤ height) (hr : Reach t0 t) (level offset : Nat) (hl : level < height) (ho : offset < 16 ^ level)
    (hf : (t.node level offset).upd = true) :
    ((t.node level offset).count, (t.node level offset).hash)
      = nodeSum (content t) (depth + level) (bid * 16 ^ level + offset) (height - 1 - level) :=
  HTreeImplLemmas.C08_flagged_is_exact depth bid height t0 t h0 hh hr level offset hl ho hf

/-- the output of the call at ANY position of ANY sequence is the specification of the content at that moment -/
theorem C08_run_output_exact (t : HTree) (pre post : List Op) (op : Op) (inv : Inv t) (ok : OpsOk t (pre ++ op :: post)) :
    ∃ t1 o1 t2 o2 out, run t pre = some (t1, o1) ∧ run t (pre ++ op :: post) = some (t2, o1 ++ out :: o2) ∧
      out = specOut t (content t1) op :=
  HTreeImplLemmas.run_output_exact t pre post op inv ok

/-- after ANY admissible history from an empty tree, every node summary is `nodeSum` of the dictionary the history
    builds (set = upsert, remove = delete): the listing is a function of content alone -/
theorem C08_history_to_summary (depth bid height : Nat) (t0 t : HTree) (ops : List Op) (outs : List Out)
    (h0 : newHTree depth bid height = some t0) (hh : 2 ≤ height) (ok : ∀ op ∈ ops, OpOk' t0 op)
    (hr : run t0 ops = some (t, outs)) (level offset : Nat) (hl : level < height) (ho : offset < 16 ^ level) :
    ((updateAt t level offset).2.count, (updateAt t level offset).2.hash)
      = nodeSum (absRun [] ops) (depth + level) (bid * 16 ^ level + offset) (height - 1 - level) :=
  HTreeImplLemmas.C08_history_to_summary depth bid height t0 t ops outs h0 hh ok hr level offset hl ho

/-- what `stats curr_items` reads — the root count WITHOUT an update — is the live count at the last root refresh
    (an observation about the code, not part of C08) -/
theorem C08_root_count_unrefreshed (t t' : HTree) (ops : List Op) (outs : List Out) (inv : Inv t) (ok : OpsOk t ops)
    (hr : run t ops = some (t', outs)) : rootCountNoUpdate t' = seenAfter t (rootCountNoUpdate t) ops :=
  HTreeImplLemmas.rootCount_run t t' ops outs inv ok hr

end Impl

/-! non-vacuity: overwrite, delete-then-reset and reordering give the same summary -/
def e1 : Ent := { khash := 0x1234567890abcdef, ver := 2, vhash := 777 }
def e2 : Ent := { khash := 0x1299567890abcdef, ver := 1, vhash := 5 }
example : (([LeafOp.set { e1 with ver := 1, vhash := 3 }, .set e2, .set e1].foldl applyOp {}).count,
           ([LeafOp.set { e1 with ver := 1, vhash := 3 }, .set e2, .set e1].foldl applyOp {}).hash)
        = (([LeafOp.set e2, .set e1, .remove e1.khash, .set e1].foldl applyOp {}).count,
           ([LeafOp.set e2, .set e1, .remove e1.khash, .set e1].foldl applyOp {}).hash) := by decide +kernel
example : nodeSum [e1, e2] 0 0 2 = nodeSum [e2, e1] 0 0 2 := C08_history_independent (List.Perm.swap _ _ _) 2 0 0
