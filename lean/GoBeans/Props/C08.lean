/-
  C08 — Merkle tree listing is an exact, history-independent function of content.

  Specification (GoBeans/Model/Tree.lean): `nodeSum` / `listBucket` / `listUpper` recompute every per-prefix hash,
  count and item listing from the CONTENT — the set of (key hash, version, value hash) entries — alone.
  Engine `seq` asks the real server `get @<prefix>` for prefixes of every length 0..16 of present keys and of
  neighbours (bucket counts 1/16/256, heights 2..4(8-depth), list-keys threshold 1/2/4/8/256), after arbitrary
  histories with overwrites, deletes, restarts (tree dump loaded or rebuilt from hints) and GC, and compares
  (a) with the listing recomputed from the model tree's content (kind=model) and (b) with the listing recomputed
  from the reference map alone (kind=oracle: node lines exact; item lines: live entries exact, tombstones optional,
  nothing else).

  Proved here (every content, prefix, depth; no bound on the number of keys):
   * history independence: the specification is invariant under any reordering of the content, hence under any
     history that produced the same set of entries (`C08_history_independent`);
   * counts equal the number of live keys under the prefix at every level (`C08_count`);
   * the incremental bookkeeping of `setToLeaf` / `remvoeFromLeaf` (count ±1, hash += Δvhash·lo16(khash>>32) in
     uint16 arithmetic) keeps the leaf summary equal to the sum over its live items, after ANY sequence of
     set / remove on the leaf (`C08_leaf_summary`).
  Partial: the byte-level leaf (truncated hashes, C-accelerated search) and the lazy invalidation of inner nodes
  are validated by the correspondence, not proved.
-/
import GoBeans.Lemmas.Tree
open Tree TreeLemmas

theorem C08_leaf_summary (ops : List LeafOp) :
    let lf := ops.foldl applyOp {}
    (lf.count, lf.hash) = leafSum lf.items := by
  intro lf
  have inv := leaf_reachable_inv ops
  rw [leafSum_eq, ← inv.count, ← inv.hash]

theorem C08_count (c : Content) (below n p : Nat) (h : n + below ≤ 16) :
    (nodeSum c n p below).1 = ((under c n p).filter (fun e => decide (e.ver > 0))).length :=
  node_count c below n p h

theorem C08_history_independent {a b : Content} (h : a.Perm b) (below n p : Nat) :
    nodeSum a n p below = nodeSum b n p below :=
  nodeSum_perm h below n p

/-- tombstones never count and never contribute to a hash -/
theorem C08_tombstones_invisible (c : Content) (t : Ent) (ht : ¬ t.ver > 0) : leafSum (t :: c) = leafSum c := by
  rw [leafSum_eq, leafSum_eq]
  simp [liveCount, hashSum, List.filter_cons, ht]

/-! non-vacuity: overwrite, delete-then-reset and reordering give the same summary -/
def e1 : Ent := { khash := 0x1234567890abcdef, ver := 2, vhash := 777 }
def e2 : Ent := { khash := 0x1299567890abcdef, ver := 1, vhash := 5 }
example : (([LeafOp.set { e1 with ver := 1, vhash := 3 }, .set e2, .set e1].foldl applyOp {}).count,
           ([LeafOp.set { e1 with ver := 1, vhash := 3 }, .set e2, .set e1].foldl applyOp {}).hash)
        = (([LeafOp.set e2, .set e1, .remove e1.khash, .set e1].foldl applyOp {}).count,
           ([LeafOp.set e2, .set e1, .remove e1.khash, .set e1].foldl applyOp {}).hash) := by decide +kernel
example : nodeSum [e1, e2] 0 0 2 = nodeSum [e2, e1] 0 0 2 := C08_history_independent (List.Perm.swap _ _ _) 2 0 0
