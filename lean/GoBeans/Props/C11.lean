/-
  C11 — protocol: one well-formed reply per command, binary-safe, never wedged.

  Model: GoBeans/Model/Proto.lean — `readReq` (Request.Read: line, fields, numbers, length-prefixed body and its
  terminator), `process` (Request.Process over the StorageClient: ordinary, '@' and '?' keys), `Resp.write`
  (Response.Write), `serveOnce` (ServerConn.ServeOnce: error classification, reply, close).
  Tied to the real memcache.ServerConn + gobeansdb.StorageClient + HStore by engine `proto`, per served command:
  bytes consumed from the stream, bytes written (byte-exact up to the server clock), closing flag.

  Proved here, for every state and EVERY input byte sequence (`serveOnce` is total: no input makes it fail to return):
   * `C11_cut_stream`  — the stream ends inside a command: no reply, orderly close, all of it consumed;
   * `C11_error_reply` — a complete line that is malformed / too large / badly terminated / unknown: exactly one
                          error reply, the connection stays open, and the server state is untouched
                          (`C11_error_no_effect`), so later commands are unaffected;
   * `C11_one_reply`   — a complete well-formed command: exactly one reply, none iff it said noreply (or is `quit`,
                          which closes; the unsupported append/prepend with noreply also end in an orderly close).
  Partial: that the reply carries the byte-exact value, and that a command consumes exactly its own bytes whatever
  follows, are checked by the correspondence on every run (values with CR, LF, NUL, command look-alikes; pipelined
  and truncated streams; short reads) and are being moved into theorems (request round trip).
-/
import GoBeans.Lemmas.Proto
open Proto

theorem C11_cut_stream (cfg : Cfg) (st : St) (inp : Bytes) (h : (readReq cfg st.led inp).res = .net) :
    (serveOnce cfg st inp).resp = none ∧ (serveOnce cfg st inp).closing = true := by
  unfold serveOnce; simp [h]

theorem C11_error_reply (cfg : Cfg) (st : St) (inp : Bytes) (e : RErr) (h : (readReq cfg st.led inp).res = .err e) :
    (serveOnce cfg st inp).resp.isSome = true ∧ (serveOnce cfg st inp).closing = false := by
  unfold serveOnce
  cases e <;> simp [h]

/-- an incomplete or rejected command leaves the server state exactly as it was -/
theorem C11_error_no_effect (cfg : Cfg) (st : St) (inp : Bytes) (h : (readReq cfg st.led inp).res ≠ .ok) :
    (serveOnce cfg st inp).st = st := by
  have hp := readReq_post cfg st.led inp
  unfold serveOnce
  generalize readReq cfg st.led inp = ro at hp h
  have hput : (if ro.working = true then ro.led.tokPut else ro.led) = st.led := by
    unfold ReadPost at hp
    split at hp
    · exact absurd (by assumption) h
    · rcases hp with ⟨h1, h2⟩ | ⟨h1, h2⟩ <;> simp [h1, h2, tokPut_tokGet]
  simp only []
  split
  · simp only [hput]
  · simp only [hput]
  · simp only [hput]
  · exact absurd (by assumption) h

theorem C11_one_reply (cfg : Cfg) (st : St) (inp : Bytes) (h : (readReq cfg st.led inp).res = .ok) :
    (serveOnce cfg st inp).resp.isSome = (!(readReq cfg st.led inp).req.noreply && (readReq cfg st.led inp).kind != .quit)
    ∧ (serveOnce cfg st inp).closing = ((readReq cfg st.led inp).kind == .quit
          || ((readReq cfg st.led inp).kind == .append && (readReq cfg st.led inp).req.noreply)) := by
  have hp := readReq_post cfg st.led inp
  unfold serveOnce
  generalize readReq cfg st.led inp = ro at hp h
  simp only [h]
  have hk : ro.kind ≠ .none := by
    intro hk; unfold ReadPost at hp; rw [h] at hp; simp only [hk] at hp
  have hnr : ro.kind = .get ∨ ro.kind = .stats ∨ ro.kind = .version ∨ ro.kind = .okOnly ∨ ro.kind = .quit → ro.req.noreply = false := by
    intro hc
    unfold ReadPost at hp; rw [h] at hp
    rcases hc with hc | hc | hc | hc | hc <;> simp only [hc] at hp <;> exact hp.2.2
  have := process_resp cfg { st with led := ro.led } ro.req ro.item ro.kind hk hnr
  generalize process cfg { st with led := ro.led } ro.req ro.item ro.kind = pr at this
  obtain ⟨st1, resp, bufs, quit⟩ := pr
  exact this

/-! Non-vacuity: the three situations occur. -/
example : (readReq {} {} (ascii "set k 0 0 5\r\nab")).res = .net := by decide +kernel
example : (readReq {} {} (ascii "set k 0 0\r\n")).res = .err .invalidCmd := by decide +kernel
example : (readReq {} {} (ascii "set k 0 0 2\r\nabcd\r\n")).res = .err .badChunk := by decide +kernel
example : (readReq {} {} (ascii "get a b c\r\nget d\r\n")).res = .ok ∧ (readReq {} {} (ascii "get a b c\r\nget d\r\n")).n = 11 := by decide +kernel
example : (serveOnce {} {} (ascii "set k 0 0 2 noreply\r\n\r\n\r\n")).resp = none := by decide +kernel
