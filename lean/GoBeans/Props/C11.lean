/-
  C11 — protocol: one well-formed reply per command, binary-safe, never wedged.

  Model: GoBeans/Model/Proto.lean — `readReq` (Request.Read: line, fields, numbers, length-prefixed body and its
  terminator), `process` (Request.Process over the StorageClient: ordinary, '@' and '?' keys), `Resp.write`
  (Response.Write), `serveOnce` (ServerConn.ServeOnce: error classification, reply, close).
  Tied to the real memcache.ServerConn + gobeansdb.StorageClient + HStore by engine `proto`, per served command:
  bytes consumed from the stream, bytes written (byte-exact up to the server clock), closing flag.

  Proved here, for every state and EVERY input byte sequence (`serveOnce` is total: no input makes it fail to return):
   * `C11_cut_stream`  — the stream ends inside a command: no reply, orderly close, all of it consumed;
   * `C11_error_reply` — a complete line that is malformed / too large / badly terminated / unknown: exactly one
                          error reply, the connection stays open, and the server state is untouched
                          (`C11_error_no_effect`), so later commands are unaffected;
   * `C11_one_reply`   — a complete well-formed command: exactly one reply, none iff it said noreply (or is `quit`,
                          which closes; the unsupported append/prepend with noreply also end in an orderly close).
   * request round trip (`C11_roundtrip_get`, `_delete`, `_incr`, `_store`): parsing what `writeReq` (= Request.Write,
     tied byte for byte by engine proto) wrote gives the SAME request back — for a store command whatever bytes the
     value holds (CR, LF, NUL, command look-alikes: `body` is arbitrary) —, consumes EXACTLY the bytes of that
     command and is independent of everything that follows it on the stream (`rest` is arbitrary): pipelining keeps
     requests and replies in step.  Keys and numbers are tokens (non-empty, no space, no LF); numbers are int64.
   * `C11_set_then_get_same_bytes` — end to end through the protocol layer and the bucket model: a served `set`
     followed by a served `get` of that key replies with exactly the bytes and flags that were sent, for any value
     bytes, any other content of the store (keys whose hashes do not collide with it), any noreply flag.
   * reply round trip (Lemmas/ProtoResp*): for EVERY byte string the server may put on the wire for a reply (`Resp.Wire`: blocks
     in any order, as Go's map iteration gives them) a client's `readResp` (= Response.Read) recovers exactly the items
     sent - key, flag, cas and body byte for byte, whatever the bodies hold (CR LF, NUL, "END\r\n", "VALUE ..." look-alikes) -,
     consumes exactly the reply and leaves what follows untouched (pipelining): `C11_reply_values`, `C11_reply_line`,
     `C11_reply_number`; end to end `C11_get_reply_parses_back`: what the server writes for a get / gets of token keys parses
     back to the items it looked up.  Two reply classes Response.Read refuses are proved as such (`C11_reply_none_refused`:
     the "none" of optimize_stat; a STAT line with an empty value).
  Partial: the statement for every reply of `serveOnce` on arbitrary input (`Proto.serveOnce_reply_readable_statement`) is
  stated, not proved (each constructor is; the case split over `process` is missing); the reply forms are tied to the real
  Response.Read by engine proto (`rresp` lines on every third reply).
-/
import GoBeans.Lemmas.Proto
import GoBeans.Lemmas.ProtoRT
import GoBeans.Lemmas.ProtoE2E
import GoBeans.Lemmas.ProtoResp
open Proto

theorem C11_cut_stream (cfg : Cfg) (st : St) (inp : Bytes) (h : (readReq cfg st.led inp).res = .net) :
    (serveOnce cfg st inp).resp = none ∧ (serveOnce cfg st inp).closing = true := by
  unfold serveOnce; simp [h]

theorem C11_error_reply (cfg : Cfg) (st : St) (inp : Bytes) (e : RErr) (h : (readReq cfg st.led inp).res = .err e) :
    (serveOnce cfg st inp).resp.isSome = true ∧ (serveOnce cfg st inp).closing = false := by
  unfold serveOnce
  cases e <;> simp [h]

/-- an incomplete or rejected command leaves the server state exactly as it was -/
theorem C11_error_no_effect (cfg : Cfg) (st : St) (inp : Bytes) (h : (readReq cfg st.led inp).res ≠ .ok) :
    (serveOnce cfg st inp).st = st := by
  have hp := readReq_post cfg st.led inp
  unfold serveOnce
  generalize readReq cfg st.led inp = ro at hp h
  have hput : (if ro.working = true then ro.led.tokPut else ro.led) = st.led := by
    unfold ReadPost at hp
    split at hp
    · exact absurd (by assumption) h
    · rcases hp with ⟨h1, h2⟩ | ⟨h1, h2⟩ <;> simp [h1, h2, tokPut_tokGet]
  simp only []
  split
  · simp only [hput]
  · simp only [hput]
  · simp only [hput]
  · exact absurd (by assumption) h

theorem C11_one_reply (cfg : Cfg) (st : St) (inp : Bytes) (h : (readReq cfg st.led inp).res = .ok) :
    (serveOnce cfg st inp).resp.isSome = (!(readReq cfg st.led inp).req.noreply && (readReq cfg st.led inp).kind != .quit)
    ∧ (serveOnce cfg st inp).closing = ((readReq cfg st.led inp).kind == .quit
          || ((readReq cfg st.led inp).kind == .append && (readReq cfg st.led inp).req.noreply)) := by
  have hp := readReq_post cfg st.led inp
  unfold serveOnce
  generalize readReq cfg st.led inp = ro at hp h
  simp only [h]
  have hk : ro.kind ≠ .none := by
    intro hk; unfold ReadPost at hp; rw [h] at hp; simp only [hk] at hp
  have hnr : ro.kind = .get ∨ ro.kind = .stats ∨ ro.kind = .version ∨ ro.kind = .okOnly ∨ ro.kind = .quit → ro.req.noreply = false := by
    intro hc
    unfold ReadPost at hp; rw [h] at hp
    rcases hc with hc | hc | hc | hc | hc <;> simp only [hc] at hp <;> exact hp.2.2
  have := process_resp cfg { st with led := ro.led } ro.req ro.item ro.kind hk hnr
  generalize process cfg { st with led := ro.led } ro.req ro.item ro.kind = pr at this
  obtain ⟨st1, resp, bufs, quit⟩ := pr
  exact this

/-! ### serialise → parse = identity, exact framing, any payload, any continuation -/

theorem C11_roundtrip_get (cfg : Cfg) (led : Ledger) (gets : Bool) (ks : List Bytes) (rest : Bytes)
    (hks : ∀ k ∈ ks, Tok k) (hne : ks ≠ []) :
    let c := if gets then ascii "gets" else ascii "get"
    let r : Req := { cmd := c, keys := ks }
    (readReq cfg led (writeReq r ++ rest)).res = .ok ∧ (readReq cfg led (writeReq r ++ rest)).req = r
      ∧ (readReq cfg led (writeReq r ++ rest)).n = (writeReq r).length := by
  intro c r
  have hct : Tok c := by cases gets <;> exact ⟨by decide, by decide, by decide⟩
  have h := rt_get cfg led c ks rest (by cases gets <;> decide) (by cases gets <;> decide) (by cases gets <;> decide)
    (by intro t ht; rcases List.mem_cons.mp ht with rfl | ht; exact hct; exact hks t ht) hne
  simp only at h
  rw [h]; exact ⟨rfl, rfl, rfl⟩

theorem C11_roundtrip_delete (cfg : Cfg) (led : Ledger) (k : Bytes) (nr : Bool) (rest : Bytes) (hk : Tok k) :
    let r : Req := { cmd := ascii "delete", keys := [k], noreply := nr }
    (readReq cfg led (writeReq r ++ rest)).res = .ok ∧ (readReq cfg led (writeReq r ++ rest)).req = r
      ∧ (readReq cfg led (writeReq r ++ rest)).n = (writeReq r).length := by
  intro r
  have h := rt_delete cfg led k nr rest hk
  simp only at h
  rw [h]; exact ⟨rfl, rfl, rfl⟩

theorem C11_roundtrip_incr (cfg : Cfg) (led : Ledger) (decr : Bool) (k num : Bytes) (nr : Bool) (rest : Bytes)
    (hk : Tok k) (hn : Tok num) :
    let c := if decr then ascii "decr" else ascii "incr"
    let r : Req := { cmd := c, keys := [k], body := num, noreply := nr }
    (readReq cfg led (writeReq r ++ rest)).res = .ok ∧ (readReq cfg led (writeReq r ++ rest)).req = r
      ∧ (readReq cfg led (writeReq r ++ rest)).n = (writeReq r).length := by
  intro c r
  have hct : Tok c := by cases decr <;> exact ⟨by decide, by decide, by decide⟩
  have h := rt_incr cfg led c k num nr rest (by cases decr <;> decide) (by cases decr <;> decide) (by cases decr <;> decide)
    (by cases decr <;> decide) hct hk hn
  simp only at h
  rw [h]; exact ⟨rfl, rfl, rfl⟩

/-- the six store verbs -/
def storeVerbs : List Bytes := [ascii "set", ascii "add", ascii "replace", ascii "cas", ascii "append", ascii "prepend"]

theorem C11_roundtrip_store (cfg : Cfg) (led : Ledger) (c k : Bytes) (flag exptime cas : Int) (body rest : Bytes) (nr : Bool)
    (hc : c ∈ storeVerbs) (hk : Tok k) (hf : I64 flag) (he : I64 exptime) (hcas : I64 cas)
    (hlen : body.length ≤ cfg.bodyMax) (hlen2 : body.length < 4294967296) :
    let r : Req := { cmd := c, keys := [k], flag := flag, exptime := exptime, cas := if c == ascii "cas" then cas else 0,
                     body := body, noreply := nr }
    (readReq cfg led (writeReq r ++ rest)).res = .ok ∧ (readReq cfg led (writeReq r ++ rest)).req = r
      ∧ (readReq cfg led (writeReq r ++ rest)).n = (writeReq r).length := by
  intro r
  have facts : isStoreCmd c = true ∧ (c == ascii "get" || c == ascii "gets") = false ∧ Tok c := by
    simp only [storeVerbs, List.mem_cons, List.mem_nil_iff, or_false] at hc
    rcases hc with rfl | rfl | rfl | rfl | rfl | rfl <;>
      exact ⟨by decide, by decide, by decide, by decide, by decide⟩
  have h := rt_store cfg led c k flag exptime cas body rest nr facts.1 facts.2.1 facts.2.2 hk hf he hcas hlen hlen2
  simp only at h
  rw [h]; exact ⟨rfl, rfl, rfl⟩

/-! ### binary-safe transfer, end to end -/

/-- (`hflag`: a client flag without the server-reserved bit 0x10000 — a set carrying that bit is refused, NOT_STORED) -/
theorem C11_set_then_get_same_bytes (cfg : Cfg) (hcv : cfg.store.checkVHash = false) (hmk : cfg.maxKeyLen = 250)
    (K : Spec.Key → Prop) (hInj : StoreLemmas.InjOn hashOf K) (n : Nat) (hn : n + 1 < 2147483647)
    (st : St) (m : Spec.KV) (hb : Backed K n st m)
    (k body : Bytes) (flag : Int) (nr : Bool) (buf : Buf)
    (hk : K k) (hv : validKeyString k = true) (hlen : body.length < 2^63)
    (hflag : ((flag % 4294967296).toNat / 65536) % 2 ≠ 1) :
    let rset : Req := { cmd := ascii "set", keys := [k], flag := flag, exptime := 0, body := body, noreply := nr }
    let rget : Req := { cmd := ascii "get", keys := [k] }
    (processGet cfg (processStore cfg st rset buf).1 rget).2.1
      = some (.value false [{ key := k, flag := ((flag % 4294967296).toNat : Int), body := [.lit body], len := body.length }]) :=
  set_then_get cfg hcv hmk K hInj n hn st m hb k body flag nr buf hk hv hlen hflag

/-- on a fresh server, for the single key involved, the hypotheses hold -/
theorem C11_fresh_server_backed (k : Bytes) : Backed (fun x => x = k) 0 ({} : St) [] ∧ StoreLemmas.InjOn hashOf (fun x => x = k) :=
  ⟨StoreLemmas.inv_init hashOf _, fun a b ha hb _ => by rw [ha, hb]⟩

/-! Non-vacuity: the three situations occur; a value made of a terminator and a command look-alike travels unchanged
    and the pipelined command behind it is left untouched. -/
def exSet : Req := { cmd := ascii "set", keys := [ascii "k"], flag := 5, exptime := 0, body := ascii "\r\nget x\r\n" }
example : (readReq {} {} (writeReq exSet ++ ascii "get k\r\n")).req.body = ascii "\r\nget x\r\n" := by decide +kernel
example : (readReq {} {} (writeReq exSet ++ ascii "get k\r\n")).n = 24 ∧ (writeReq exSet).length = 24 := by decide +kernel
example : (readReq {} {} (ascii "set k 0 0 5\r\nab")).res = .net := by decide +kernel
example : (readReq {} {} (ascii "set k 0 0\r\n")).res = .err .invalidCmd := by decide +kernel
example : (readReq {} {} (ascii "set k 0 0 2\r\nabcd\r\n")).res = .err .badChunk := by decide +kernel
example : (readReq {} {} (ascii "get a b c\r\nget d\r\n")).res = .ok ∧ (readReq {} {} (ascii "get a b c\r\nget d\r\n")).n = 11 := by decide +kernel
example : (serveOnce {} {} (ascii "set k 0 0 2 noreply\r\n\r\n\r\n")).resp = none := by decide +kernel

/-! the reply round trip -/

/-- VALUE replies: whatever order the blocks are written in, the client reads back a permutation of exactly the items sent,
    bodies byte for byte, and what follows the reply is left untouched -/
theorem C11_reply_values (cfg : Cfg) (hmax : cfg.bodyMax < 9223372036854775808) (cas : Bool) (vs : List PItem)
    (hv : ∀ p ∈ vs, ItemOK cfg p) (hnd : (vs.map (·.key)).Nodup) (w : Bytes)
    (hw : (Resp.value cas (vs.map RItem.ofLit)).Wire w) :
    ∃ ps : List PItem, ps.Perm vs ∧
      ∀ (rest : Bytes) (fuel : Nat), vs.length + 1 ≤ fuel →
        readResp cfg fuel (w ++ rest) []
          = some ({ status := ascii "END", msg := [], items := ps.map (PItem.norm cas) }, rest) :=
  readResp_wire_value_lit cfg hmax cas vs hv hnd w hw

/-- one-line replies (STORED, NOT_FOUND, DELETED, …, and the error lines with their messages) -/
theorem C11_reply_line (cfg : Cfg) (status msg w : Bytes)
    (hs : (status ∈ endStatuses ∧ msg = []) ∨ (status ∈ msgStatuses ∧ Words msg))
    (hw : (Resp.line status msg).Wire w) (rest : Bytes) (fuel : Nat) (hf : 1 ≤ fuel) :
    readResp cfg fuel (w ++ rest) [] = some ({ status := status, msg := msg, items := [] }, rest) :=
  readResp_wire_line cfg status msg w hs hw rest fuel hf

/-- the number an incr replies with -/
theorem C11_reply_number (cfg : Cfg) (v : Int) (hv : I64 v) (w : Bytes) (hw : (Resp.num (itoa v)).Wire w)
    (rest : Bytes) (fuel : Nat) (hf : 1 ≤ fuel) :
    readResp cfg fuel (w ++ rest) [] = some ({ status := ascii "INCR", msg := itoa v, items := [] }, rest) :=
  readResp_wire_num cfg v hv w hw rest fuel hf

/-- the reply `Response.Read` cannot parse: the "none" of optimize_stat -/
theorem C11_reply_none_refused (cfg : Cfg) (w : Bytes) (hw : (Resp.line (ascii "none") []).Wire w) (rest : Bytes) (fuel : Nat) :
    readResp cfg fuel (w ++ rest) [] = none :=
  readResp_wire_none_refused cfg w hw rest fuel

/-- end to end: a served get / gets of token keys consumes exactly the request, keeps the connection, and every wire form
    of its reply parses back to the items the server looked up (or, for a single key whose lookup failed, to the
    SERVER_ERROR line with its message) -/
theorem C11_get_reply_parses_back (cfg : Cfg) (hmax : cfg.bodyMax < 9223372036854775808) (st : St) (gets : Bool)
    (ks : List Bytes) (more : Bytes) (hks : ∀ k ∈ ks, Tok k) (hne : ks ≠ [])
    (hlen : ∀ k ∈ ks, k.length ≤ cfg.maxKeyLen)
    (hstore : ∀ it ∈ lookedUp cfg st ks, I64 it.flag ∧ it.len ≤ cfg.bodyMax) :
    let r : Req := { cmd := if gets then ascii "gets" else ascii "get", keys := ks }
    let s := serveOnce cfg st (writeReq r ++ more)
    s.n = (writeReq r).length ∧ s.closing = false ∧
    ((s.resp = some (.value gets (lookedUp cfg st ks)) ∧
        ∀ w, (Resp.value gets (lookedUp cfg st ks)).Wire w →
          ∃ (its : List RItem) (ps : List PItem), its.Perm (lookedUp cfg st ks) ∧ Carries its ps ∧
            ∀ (rest : Bytes) (fuel : Nat), (lookedUp cfg st ks).length + 1 ≤ fuel →
              readResp cfg fuel (w ++ rest) []
                = some ({ status := ascii "END", msg := [], items := ps.map (PItem.norm gets) }, rest))
     ∨ (∃ k msg, ks = [k] ∧ (clientGet cfg st k).1 = .err msg ∧ s.resp = some (.line (ascii "SERVER_ERROR") msg) ∧
        ∀ w, (Resp.line (ascii "SERVER_ERROR") msg).Wire w → ∀ (rest : Bytes) (fuel : Nat), 1 ≤ fuel →
          readResp cfg fuel (w ++ rest) [] = some ({ status := ascii "SERVER_ERROR", msg := msg, items := [] }, rest))) :=
  serveOnce_get_roundtrip cfg hmax st gets ks more hks hne hlen hstore
