/-
  C05 — GC running beside live traffic loses no acknowledged write.

  Model: GoBeans/Model/Conc.lean (second part) — for one key: the tree item (version, position) and the value stored
  at every position; a client write/delete appends its record at a fresh position and sets the item (one step, under
  the bucket write lock); GC, per relocated record, appends a copy at a fresh position (`gcCopy`) and later repoints
  the item from the old position to the copy ONLY IF the item still points at the old position (`gcMove`: test and
  update in one step under the tree lock — /repo "fix: GC repoints a tree item…"; before it the repoint was blind).
  Engine `conc` (mix c05) on the real HStore: files laid out over 2..4 process lives, "cold" keys whose current
  records lie in the range, 2..8 clients writing hot keys and reading all keys beside one pass (any range, merge
  on/off), yields injected at GC's per-record steps; in 60% of the cases the pass is PARKED on a chosen cold key
  between its newest-check and the copy, or between copy and repoint, while a client writes that very key; the
  recorded history is checked with the C04 checks, the final value of every key again after a restart.

  Proved here:
   * `C05_gc_invisible` — for every schedule of client operations and GC steps on a key (any interleaving, any
     number of relocations, copies and repoints arbitrarily far apart, positions used once), the register the
     clients see evolves exactly as under the client operations alone; with C04 every such execution passes the
     history checks: no acknowledged write is replaced by the value GC was relocating;
   * `C05_conditional_keeps`, `C05_blind_loses` — a client write placed between copy and repoint survives the
     conditional repoint, and is lost by the blind one (the item keeps the new version and points at the copy of
     the old record — exactly what the engine observed before the repair).
  Partial: reads by position during relocation (`Bucket.get` tolerating a moved position) and cancellation are
  exercised by the engine only; interleavings are sampled plus the targeted placements, not enumerated.
-/
import GoBeans.Lemmas.Conc
open Conc

theorem C05_gc_invisible (steps : List GStep) (s : KeyState) (pend : List (Nat × Nat))
    (hwf : WF s pend steps) (hp : PendOK s pend) :
    (steps.foldl gstep s).reg = (steps.filterMap clientOp).foldl (fun r op => (regStep r op).1) s.reg :=
  gc_invisible steps s pend hwf hp

theorem C05_conditional_keeps (s : KeyState) (old new p v : Nat) (hp : p ≠ old) :
    (gstep (gstep s (.client (.write v) p)) (.gcMove old new)).reg = { ver := s.item.ver + 1, val := v } :=
  gcMove_keeps_client_write s old new p v hp

theorem C05_blind_loses (s : KeyState) (old new p v : Nat) (hp : p ≠ new) :
    (gstep (gstep s (.client (.write v) p)) (.gcMoveBlind old new)).reg = { ver := s.item.ver + 1, val := s.data new } :=
  gcMoveBlind_loses_client_write s old new p v hp

/-! Non-vacuity: the value 7 at position 1; GC copies it to 5, a client writes 9 at position 8, GC repoints. -/
def exK : KeyState := { item := { ver := 1, pos := 1 }, data := fun q => if q = 1 then 7 else 0 }
def exSched : List GStep := [.gcCopy 1 5, .client (.write 9) 8, .gcMove 1 5, .client .read 0]
example : WF exK [] exSched := by
  simp only [WF, exSched, exK, gstep, setData]
  decide
example : (exSched.foldl gstep exK).reg = { ver := 2, val := 9 } := by decide +kernel
example : ([GStep.gcCopy 1 5, .client (.write 9) 8, .gcMoveBlind 1 5].foldl gstep exK).reg = { ver := 2, val := 7 } := by decide +kernel
