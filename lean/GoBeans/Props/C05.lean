/-
  C05 — GC running beside live traffic loses no acknowledged write.

  Model: GoBeans/Model/Conc.lean (second part) — for one key: the tree item (version, position) and the value stored
  at every position; a client write/delete appends its record at a fresh position and sets the item (one step, under
  the bucket write lock); GC, per relocated record, appends a copy at a fresh position (`gcCopy`) and later repoints
  the item from the old position to the copy ONLY IF the item still points at the old position (`gcMove`: test and
  update in one step under the tree lock — /repo "fix: GC repoints a tree item…"; before it the repoint was blind).
  Engine `conc` (mix c05) on the real HStore: files laid out over 2..4 process lives, "cold" keys whose current
  records lie in the range, 2..8 clients writing hot keys and reading all keys beside one pass (any range, merge
  on/off), yields injected at GC's per-record steps; in 60% of the cases the pass is PARKED on a chosen cold key
  between its newest-check and the copy, or between copy and repoint, while a client writes that very key; the
  recorded history is checked with the C04 checks, the final value of every key again after a restart.

  Proved here:
   * `C05_gc_invisible` — for every schedule of client operations and GC steps on a key (any interleaving, any
     number of relocations, copies and repoints arbitrarily far apart, positions used once), the register the
     clients see evolves exactly as under the client operations alone; with C04 every such execution passes the
     history checks: no acknowledged write is replaced by the value GC was relocating;
   * `C05_conditional_keeps`, `C05_blind_loses` — a client write placed between copy and repoint survives the
     conditional repoint, and is lost by the blind one (the item keeps the new version and points at the copy of
     the old record — exactly what the engine observed before the repair).
  FINE-GRAINED MODEL (GoBeans/Model/ConcGC.lean on top of Model/ConcFine.lean): the client writers / readers /
  flushers of C04 plus ONE GC thread of 16 micro-steps at the lock granularity of gc.go / datachunk.go (GC takes no
  bucket-level lock; the chunk lock only inside AppendRecordGC, the tree lock only inside htree.get / movePos; the gc
  writer's own bufio buffer with append and flush as separate steps; Clear split into field reset and file removal;
  destination choice, in-place overwrite, truncate), any scheduler.  Three MONITORS mark schedules in which the code
  leaves the regime the proofs cover (they never change behaviour): `hazInplace` (the destination IS the source: a
  record overwritten in place before the tree is repointed), `hazReuse` (`gc.Dst++` lands on a file this pass has
  emptied), `hazCold` (a flush of a file at or below the range while the pass runs / a source whose buffer was never
  flushed).  For EVERY schedule in which no monitor fires and with the conditional repoint (`C05_fine_grained`,
  `C05_tree_item_readable`, `C05_repoint_keeps_client_write`, `C05_gc_invisible_fine`, `C05_every_boundary`,
  `C05_no_fatal`): per-key histories are atomic executions (failed gets are not events), the tree item of a key
  always points at a record of that key and version readable by the reader's code path, a client write linearised
  after the newest-check survives the repoint, no GC micro-step changes any key's register, at every file boundary
  (also after a cancel) every key holds its last linearised write, no Fatalf.
  TIED to the real store step by step by engine `concgc`: the GC goroutine is parked at every micro-step boundary
  (hook points cg.*), 16 scripted schedules - those of the counterexamples below and a positive control, each also
  through the request path HStore.GC - are run on the real code and `ConcGC.step` is compared after EVERY decision
  (file lengths, buffers, heads, tree items, locks, thread labels, the gc writer's position and buffer, replies).
  With a monitor fired the statements FAIL ON THE MODEL — counterexamples proved by evaluation, and REPRODUCED ON THE
  REAL CODE by engine concgc (`ConcGC.ExReal.*`, Lemmas/ConcGCReal.lean: the schedules of the real runs evaluated in
  the model; DESIGN.md §9.4): F25 (`unflushed_partial_lost`) was REPAIRED in /repo (168eada: the pass flushes the
  files of its range first - in the model a schedule, a flusher run to completion before `gcStart`, on which
  `hazCold` does not fire at the start); the others are KNOWN FINDINGS with schedule-specific keys.  The pass CANCELLED
  at a file boundary is the pass over the shorter range (`C05_cancelled_pass_is_a_shorter_pass`, tied by engine seq:
  CancelGC before the first file / after the first / second one).  The list: `ConcGC.Ex.ce_inplace_get_fails` (a get between the in-place
  overwrite and the repoint fails), `ce_reuse_wrong_value` (a reader parked across the reuse of an emptied file
  returns the key's NEWER value under its older version: `C05_unrestricted_statement_false`), `ce_coldflush_fatal`
  (a delayed flush of a file GC appends to hits Fatalf "wrong data file size"), `ce_unflushed_lost` (F25: a source
  whose post-rotation flush has not run loses acknowledged writes), `ce_stale_reader_fails` (no monitor: a get that
  took its position before the repoint fails after the source file is removed — an error, never a wrong value).
  Partial: sequential consistency, one bucket, one pass, no collisions / hint / collision-table state; interleavings
  on the real code are sampled plus the targeted placements (engine conc), not enumerated.
-/
import GoBeans.Lemmas.Conc
import GoBeans.Lemmas.ConcGC
import GoBeans.Lemmas.ConcGCReal
import GoBeans.Lemmas.GCRefine
open Conc

theorem C05_gc_invisible (steps : List GStep) (s : KeyState) (pend : List (Nat × Nat))
    (hwf : WF s pend steps) (hp : PendOK s pend) :
    (steps.foldl gstep s).reg = (steps.filterMap clientOp).foldl (fun r op => (regStep r op).1) s.reg :=
  gc_invisible steps s pend hwf hp

theorem C05_conditional_keeps (s : KeyState) (old new p v : Nat) (hp : p ≠ old) :
    (gstep (gstep s (.client (.write v) p)) (.gcMove old new)).reg = { ver := s.item.ver + 1, val := v } :=
  gcMove_keeps_client_write s old new p v hp

theorem C05_blind_loses (s : KeyState) (old new p v : Nat) (hp : p ≠ new) :
    (gstep (gstep s (.client (.write v) p)) (.gcMoveBlind old new)).reg = { ver := s.item.ver + 1, val := s.data new } :=
  gcMoveBlind_loses_client_write s old new p v hp

/-! Non-vacuity: the value 7 at position 1; GC copies it to 5, a client writes 9 at position 8, GC repoints. -/
def exK : KeyState := { item := { ver := 1, pos := 1 }, data := fun q => if q = 1 then 7 else 0 }
def exSched : List GStep := [.gcCopy 1 5, .client (.write 9) 8, .gcMove 1 5, .client .read 0]
example : WF exK [] exSched := by
  simp only [WF, exSched, exK, gstep, setData]
  decide
example : (exSched.foldl gstep exK).reg = { ver := 2, val := 9 } := by decide +kernel
example : ([GStep.gcCopy 1 5, .client (.write 9) 8, .gcMoveBlind 1 5].foldl gstep exK).reg = { ver := 2, val := 7 } := by decide +kernel


/-! GC beside clients, fine-grained (every schedule in which no monitor fires) -/

theorem C05_fine_grained (cfg : ConcGC.GCfg) (hb : cfg.blind = false) (sched : List (Nat × ConcGC.Act))
    (hz : ConcGC.noHaz (ConcGC.exec cfg ConcGC.init sched)) (k fut : Nat)
    (hfut : (ConcGC.exec cfg ConcGC.init sched).base.clock ≤ fut) :
    checkA (ConcFine.histAt (ConcGC.exec cfg ConcGC.init sched).base k fut) = true ∧
    checkB (ConcFine.histAt (ConcGC.exec cfg ConcGC.init sched).base k fut) = true :=
  ConcGC.C05_fine_general cfg hb sched hz k fut hfut

theorem C05_repoint_keeps_client_write {cfg : ConcGC.GCfg} {s s' : ConcGC.State} (hb : cfg.blind = false)
    {r : ConcFine.Rec} {off : Nat} (hpc : s.gc.pc = .gMove r off) {it : ConcFine.Item}
    (hit : s.base.tree r.key = some it) (hne : it.pos ≠ ⟨s.gc.src, r.off⟩)
    (h : ConcGC.gmicro cfg s = some s') : s'.base.tree = s.base.tree :=
  ConcGC.repoint_keeps_client_write hb hpc hit hne h

theorem C05_gc_invisible_fine {cfg : ConcGC.GCfg} {s s' : ConcGC.State} (hb : cfg.blind = false) (hi : ConcGC.Inv s)
    (hz : ConcGC.noHaz s') (h : ConcGC.gmicro cfg s = some s') (k : Nat) :
    ConcFine.absReg s'.base k = ConcFine.absReg s.base k :=
  ConcGC.gc_step_invisible hb hi hz h k

theorem C05_every_boundary (cfg : ConcGC.GCfg) (hb : cfg.blind = false) (sched : List (Nat × ConcGC.Act))
    (hz : ConcGC.noHaz (ConcGC.exec cfg ConcGC.init sched)) (hbd : ConcGC.atBoundary (ConcGC.exec cfg ConcGC.init sched) = true) (k : Nat) :
    ConcFine.absReg (ConcGC.exec cfg ConcGC.init sched).base k
        = ConcFine.regFold {} (ConcFine.opsOf (ConcFine.keyHist (ConcGC.exec cfg ConcGC.init sched).base k)) ∧
    ∀ it, (ConcGC.exec cfg ConcGC.init sched).base.tree k = some it →
      ∃ r, ConcFine.lookup ((ConcGC.exec cfg ConcGC.init sched).base.chunks it.pos.chunk) it.pos.off = some r ∧ r.key = k ∧ r.ver = it.ver :=
  ConcGC.boundary_last_write cfg hb sched hz hbd k

theorem C05_no_fatal (cfg : ConcGC.GCfg) (hb : cfg.blind = false) (sched : List (Nat × ConcGC.Act))
    (hz : ConcGC.noHaz (ConcGC.exec cfg ConcGC.init sched)) :
    (ConcGC.exec cfg ConcGC.init sched).base.fatal = false ∧ (ConcGC.exec cfg ConcGC.init sched).base.readErr = false :=
  ConcGC.no_fatal cfg hb sched hz

/-- WITHOUT the monitor hypothesis the statement is false on the model (a reader parked across the reuse of a file the
    pass has emptied) — a candidate finding about the code, not reproduced on the real store -/
theorem C05_unrestricted_statement_false : ¬ ConcGC.C05_fine_statement := ConcGC.C05_fine_statement_false

/-- the statement for the in-place path alone (left open as "believed true" when the model was written) is false as
    well: the schedule of the real run `reuse-delete` (a delete marker lands on the position a parked reader holds) -/
theorem C05_inplace_statement_false : ¬ ConcGC.C05_inplace_statement := ConcGC.ExReal.C05_inplace_statement_false

/-- "(or is cancelled)": a pass cancelled at a file boundary has looked at the files [begin, stop'] for some stop' below
    the end of its range - it IS the pass over that shorter range, which re-establishes every invariant of the store
    with the SAME reference map (so every key holds its last acknowledged write, also after a restart) -/
theorem C05_cancelled_pass_is_a_shorter_pass (hash : Spec.Key → Nat) (K : Spec.Key → Prop) (cfg : Store.Cfg)
    (hInj : StoreLemmas.InjOn hash K) {n : Nat} {b : Store.Bucket} {m : Spec.KV}
    (inv : StoreLemmas.Inv hash K n b m) (lr : StoreLemmas.LastRec hash K b) (w : StoreLemmas.WF cfg b) (nz : StoreLemmas.NoZero b)
    (begin stop stop' : Nat) (h1 : begin ≤ stop') (h2 : stop' ≤ stop) (hs : stop < b.head) :
    StoreLemmas.Inv hash K n (Store.gcRun hash cfg b begin stop').1 m ∧ StoreLemmas.LastRec hash K (Store.gcRun hash cfg b begin stop').1
    ∧ StoreLemmas.WF cfg (Store.gcRun hash cfg b begin stop').1 ∧ StoreLemmas.NoZero (Store.gcRun hash cfg b begin stop').1
    ∧ (Store.gcRun hash cfg b begin stop').1.head = b.head :=
  StoreLemmas.gcRun_refines hash K cfg hInj inv lr w nz begin stop' h1 (by omega)
