/-
  C07 — process kill during GC leaves every key readable with its pre-GC value.

  Model (log view, Lemmas/GCCrash.lean): the pass processes the records of the collected range in order; after any
  number of them the data files hold, in (file, offset) order,
        before ++ relocate(kept(processed)) ++ tail ++ rest ++ after
  where `tail` — what is still on disk of the already processed originals of the source being read — is a suffix of
  `processed` (all of that file's processed records if it is a separate file, the not yet overwritten ones if it
  is the file rewritten in place, none once that file has been read to its end: its stale tail is cut off BEFORE
  any later source file is removed; completed sources are gone).  Recovery after a kill rebuilds the tree by replay
  (tree dump and merged hints are deleted before the pass; C02_rebuild_is_replay, C06).
  Tied to the real store by engine `crash` (mix c07): phased multi-file layouts, one pass over any range
  (destination an earlier file, the first file of the range in place, fresh files), a directory copy before ~70% of
  the pass's file-system mutations (each relocated record's write(s) behind a 256..4096-byte bufio layer, truncate,
  source remove, hint removes/dumps, GC-state write) plus torn variants of the writes; every copy is opened by a
  new HStore and every key read.  Checked per crash state: its data files are one of the abstract intermediate
  states (kind=model, `gc-interm-abstraction`), and every key reads its pre-pass value (kind=oracle).

  Proved here (any log, any split, any number of processed records, any suffix `tail`, any relocation):
   * `C07_every_intermediate_state_reads_as_before` — the live last record of EVERY key in an intermediate state
     equals the one before the pass (no loss, no older version, no resurrection of a deleted key);
   * `C07_after_replay` — hence the tree rebuilt by replay from a crash state has, for every key, a live item iff it
     had one before the pass, with the same version and value hash.
  Partial / known findings (the theorem is about record-granular states; these are byte-granular):
   * a kill INSIDE the write of a relocated record that is being appended leaves a partial record at the end of the
     destination file: the store refuses to start (fail-stop, as C06 allows; C07 does not) — KNOWN-FINDING
     C07/refused-torn-appended-record;
   * a kill inside the in-place write of a multi-block record that moves down by less than its own length leaves
     neither the old nor the new copy decodable: the key's value is lost — KNOWN-FINDING C07/lost-after-partial-inplace-move
     (needs copy-then-switch; not a small fix);
   * before /repo commit "truncate the stale tail…" the in-place file kept its stale tail until the end of the pass
     while later sources were already removed: deleted keys reappeared and older values came back (found by this
     engine; repaired; the theorem's `tail = []` after the in-place file is exactly the repaired behaviour).
  The refinement "the concrete pass visits exactly these states" is checked per crash state, not proved.
-/
import GoBeans.Lemmas.GCCrash
import GoBeans.Props.C03
open Store Spec StoreLemmas

theorem C07_every_intermediate_state_reads_as_before (hasEntry : Key → Bool) (beginPos : Bool) (reloc : Pos → Pos)
    (before m1 tail rest after : List (Pos × Rec))
    (hpre : beginPos = false → before = [])
    (hEntry : ∀ k, hasEntry k = false → ∀ x, lastOf k (before ++ ((m1 ++ tail) ++ rest) ++ after) = some x → x.2.ver < 0)
    (k : Key) :
    liveRec k (before ++ relocate reloc ((m1 ++ tail).filter (gcKeep hasEntry beginPos (before ++ ((m1 ++ tail) ++ rest) ++ after)))
                ++ (tail ++ rest ++ after))
      = liveRec k (before ++ ((m1 ++ tail) ++ rest) ++ after) :=
  gc_interm_preserves hasEntry beginPos reloc before m1 tail rest after hpre hEntry k

/-- the live part of a last record determines the replayed tree item -/
theorem itemOfLast_of_liveRec (k : Key) (l l' : List (Pos × Rec)) (h : liveRec k l = liveRec k l') :
    (itemOfLast (lastOf k l)).map (fun it => (it.ver, it.vhash)) = (itemOfLast (lastOf k l')).map (fun it => (it.ver, it.vhash)) := by
  unfold liveRec at h
  cases h1 : lastOf k l with
  | none =>
    rw [h1] at h
    cases h2 : lastOf k l' with
    | none => rfl
    | some y =>
      rw [h2] at h
      by_cases hv : y.2.ver > 0
      · simp [hv] at h
      · simp [itemOfLast, hv]
  | some x =>
    rw [h1] at h
    cases h2 : lastOf k l' with
    | none =>
      rw [h2] at h
      by_cases hv : x.2.ver > 0
      · simp [hv] at h
      · simp [itemOfLast, hv]
    | some y =>
      rw [h2] at h
      by_cases hv : x.2.ver > 0 <;> by_cases hw : y.2.ver > 0
      · simp [hv, hw] at h
        obtain ⟨p, r⟩ := x; obtain ⟨q, r'⟩ := y
        simp at h; subst h
        simp [itemOfLast, hv]
      · simp [hv, hw] at h
      · simp [hv, hw] at h
      · simp [itemOfLast, hv, hw]

theorem C07_after_replay (hash : Key → Nat) (K : Key → Prop) (hInj : InjOn hash K)
    (hasEntry : Key → Bool) (beginPos : Bool) (reloc : Pos → Pos) (before m1 tail rest after : List (Pos × Rec))
    (hpre : beginPos = false → before = [])
    (hEntry : ∀ k, hasEntry k = false → ∀ x, lastOf k (before ++ ((m1 ++ tail) ++ rest) ++ after) = some x → x.2.ver < 0)
    (hkeys : ∀ x ∈ before ++ ((m1 ++ tail) ++ rest) ++ after, K x.2.key) (k : Key) (hk : K k) :
    let crashed := before ++ relocate reloc ((m1 ++ tail).filter (gcKeep hasEntry beginPos (before ++ ((m1 ++ tail) ++ rest) ++ after)))
                    ++ (tail ++ rest ++ after)
    (AMap.get (replayTree hash crashed) (hash k)).map (fun it => (it.ver, it.vhash))
      = (AMap.get (replayTree hash (before ++ ((m1 ++ tail) ++ rest) ++ after)) (hash k)).map (fun it => (it.ver, it.vhash)) := by
  intro crashed
  have hkeys' : ∀ x ∈ crashed, K x.2.key := by
    intro x hx
    simp only [crashed, List.mem_append] at hx
    rcases hx with (hx | hx) | ((hx | hx) | hx)
    · exact hkeys x (by simp [hx])
    · unfold relocate at hx
      rw [List.mem_map] at hx
      obtain ⟨y, hy, rfl⟩ := hx
      have := (List.mem_filter.mp hy).1
      exact hkeys y (by simp only [List.mem_append] at this ⊢; rcases this with h | h <;> simp [h])
    · exact hkeys x (by simp [hx])
    · exact hkeys x (by simp [hx])
    · exact hkeys x (by simp [hx])
  rw [replay_get hash K hInj crashed hkeys' k hk, replay_get hash K hInj _ hkeys k hk]
  exact itemOfLast_of_liveRec k _ _ (gc_interm_preserves hasEntry beginPos reloc before m1 tail rest after hpre hEntry k)

/-! Non-vacuity, with the repaired defect as the counterexample: file 0 = [A1, B1] rewritten in place, file 1 = [A-del]
    (range starts at file 0, so the delete marker of the unknown key A is dropped).  With the stale tail cut off
    before file 1 is removed the crash state reads A as deleted; the historical state — stale tail [A1, B1] still
    there, file 1 already gone — is NOT of the theorem's form and reads A as live again. -/
def cA1 : Rec := { key := [97], ver := 1, flag := 0, ts := none, body := [1], size := 256 }
def cB1 : Rec := { key := [98], ver := 1, flag := 0, ts := none, body := [3], size := 256 }
def cAd : Rec := { key := [97], ver := -2, flag := 0, ts := none, body := [], size := 256 }
def cMid : List (Pos × Rec) := [(⟨0, 0⟩, cA1), (⟨0, 256⟩, cB1), (⟨1, 0⟩, cAd)]
def cKeep := gcKeep (fun k => k == [98]) false cMid
example : cMid.filter cKeep = [(⟨0, 256⟩, cB1)] := by decide +kernel
-- file 0 read to its end, tail cut off (repaired code), file 1 not yet processed:
example : liveRec [97] (relocate id ((cMid.take 2).filter cKeep) ++ ([] ++ cMid.drop 2)) = none := by decide +kernel
-- everything processed, file 1 removed:
example : liveRec [97] (relocate id (cMid.filter cKeep)) = none := by decide +kernel
-- the historical state: file 1 removed while file 0 still carried its stale tail [A1, B1] behind the relocated B1
example : liveRec [97] (relocate id (cMid.filter cKeep) ++ cMid.take 2) = some cA1 := by decide +kernel
