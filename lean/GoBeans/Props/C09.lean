/-
  C09 — data records round-trip, stay 256-aligned, corruption is detected.

  Model: GoBeans/Model/Codec.lean (`encode` = WriteRecord.append, `decodeAt` = readRecordAt,
  `scan` = the DataStreamReader.Next/nextValid loop), built on the regenerated kernels
  `Gen.encodeHeader/decodeHeader/getCRC/Sizes/IsValidKeySize/IsValidValueSize`; tied to the
  real encoder/reader/scanner byte-for-byte by engine `codec` on every run.
  Quantifier: every record (any key/body bytes, any 32-bit flag/version/timestamp) whose sizes
  the code accepts; every surrounding file content; every number of records.
-/
import GoBeans.Lemmas.Codec

open Codec CodecLemmas

/-- A record occupies a whole number of 256-byte blocks: exactly `Sizes().2` bytes, the least
    multiple of 256 that holds header + key + body. -/
theorem C09_aligned (cfg : Cfg) (r : Rec) (hv : ValidSizes cfg r) :
    (encode r).length = r.padded ∧ r.padded % 256 = 0
      ∧ 24 + r.key.length + r.body.length ≤ r.padded ∧ r.padded < 24 + r.key.length + r.body.length + 256 := by
  have hb := valid_bound hv
  have := padded_facts r hb
  exact ⟨encode_length r hb, this.2.1, this.2.2.1, this.2.2.2⟩

/-- The documented beansdb layout: crc | ts | flag | ver | ksz | vsz (little-endian 32-bit) | key | value | zero padding,
    the crc being CRC-32 (C16 reference) of everything after the crc field up to the end of the value. -/
theorem C09_layout (cfg : Cfg) (r : Rec) (hv : ValidSizes cfg r) :
    ∃ crc : UInt32,
      encode r = le4 crc.toNat ++ le4 r.ts.toNat ++ le4 r.flag.toNat ++ le4 r.ver.toUInt32.toNat
                  ++ le4 r.key.length ++ le4 r.body.length ++ r.key ++ r.body
                  ++ List.replicate (r.padded - (24 + r.key.length + r.body.length)) 0
      ∧ crc.toNat = Ref.crc32 (le4 r.ts.toNat ++ le4 r.flag.toNat ++ le4 r.ver.toUInt32.toNat
                  ++ le4 r.key.length ++ le4 r.body.length ++ r.key ++ r.body) := by
  have hb := valid_bound hv
  have hk : r.ksz.toNat = r.key.length := ksz_toNat r (by have := hv.klen; omega)
  have hvz : r.vsz.toNat = r.body.length := vsz_toNat r (by have := hv.blen; omega)
  refine ⟨Gen.getCRC (hdr z4 r) r.key r.body, ?_, ?_⟩
  · rw [encode_eq r hb, header_eq]; simp [hdr, hk, hvz, recLen, List.append_assoc]
  · rw [HashLemmas.L_crc_chunked _ _ _ (by have := hv.klen; omega) (by have := hv.blen; omega)]
    simp [hdr, hk, hvz, List.append_assoc]

/-- Positional read returns exactly what was written, wherever the record sits in the file. -/
theorem C09_roundtrip_at (cfg : Cfg) (pre post : Bytes) (r : Rec) (hv : ValidSizes cfg r) :
    decodeAt cfg (pre ++ encode r ++ post) pre.length = .ok (r, r.padded) :=
  roundtrip_at cfg pre post r hv

/-- A sequential scan of any number of written records yields each one, in order, with its true
    offset, and ends cleanly. -/
theorem C09_roundtrip_scan (cfg : Cfg) (rs : List Rec) (hv : ∀ r ∈ rs, ValidSizes cfg r) :
    scan cfg (encodeAll rs) 0 = (withOffsets 0 rs, .eof) :=
  roundtrip_scan cfg rs hv

/-- "Any alteration is detected", in the only form true of a 32-bit checksum: a positional read
    returns a record ONLY IF the sizes are valid and the stored CRC equals the CRC-32 (reference
    definition) of the very bytes it returns.  An alteration therefore passes only on a CRC-32
    collision (stated in the trusted base, not hidden). -/
theorem C09_decode_sound (cfg : Cfg) (f : Bytes) (off : Nat) (r : Rec) (n : Nat)
    (h : decodeAt cfg f off = .ok (r, n)) (hlen : f.length < 2^63) :
    let hd := (f.drop off).take 24
    let d := Gen.decodeHeader hd
    Gen.IsValidKeySize cfg.maxKeyLen d.2.2.2.2.1 = true ∧ Gen.IsValidValueSize cfg.bodyMax d.2.2.2.2.2 = true
    ∧ r.key ++ r.body = (f.drop (off + 24)).take (d.2.2.2.2.1.toNat + d.2.2.2.2.2.toNat)
    ∧ d.1.toNat = Ref.crc32 (hd.drop 4 ++ r.key ++ r.body) := by
  intro hd d
  have hs := decode_sound cfg f off r n h
  refine ⟨hs.2.1, hs.2.2.1, hs.2.2.2.1, ?_⟩
  have hkb : (r.key ++ r.body).length ≤ f.length := by
    rw [hs.2.2.2.1, List.length_take, List.length_drop]; omega
  simp at hkb
  rw [hs.2.2.2.2.2.2.1]
  exact HashLemmas.L_crc_chunked _ _ _ (by omega) (by omega)

/-- Resynchronisation (proved part): once the scanner resynchronises at a 256-aligned position `a`
    inside a damaged region in which no aligned position decodes, it finds the first intact
    record after the damage, with its true offset. -/
theorem C09_resync_finds_first_intact_partial (cfg : Cfg) (pre post : Bytes) (r : Rec) (hv : ValidSizes cfg r)
    (a k fuel : Nat) (hpre : pre.length = a + 256 * k) (hf : k < fuel)
    (hbad : ∀ j, j < k → ∃ e, decodeAt cfg (pre ++ encode r ++ post) (a + 256 * j) = .error e) :
    nextValid cfg (pre ++ encode r ++ post) fuel a = some (pre.length, r, r.padded) := by
  have hb := valid_bound hv
  have hpos : 0 < (encode r).length := by rw [encode_length r hb]; have := padded_ge r hb; omega
  rw [hpre]
  apply nextValid_skips cfg _ r r.padded k a fuel hf
  · simp; omega
  · exact hbad
  · rw [← hpre]; exact roundtrip_at cfg pre post r hv

/-- FULL resynchronisation statement: after an arbitrary damaged region of whole blocks in which no
    aligned position decodes (`NoFalseSync`, decidable on a file), a scan from the start of the file
    yields exactly the intact records that follow, each with its true offset — whatever the damaged
    bytes claim as sizes (zero, huge, or in range but past the end of the file).
    (On the tree before commit 2044327 this was false: see known_findings.txt, C09/scan-aborted-before-intact-record.) -/
theorem C09_scan_yields_intact (cfg : Cfg) (pre : Bytes) (rs : List Rec) (hpre : pre.length % 256 = 0)
    (hv : ∀ r ∈ rs, ValidSizes cfg r) (hns : NoFalseSync cfg (pre ++ encodeAll rs) pre.length) :
    (scan cfg (pre ++ encodeAll rs) 0).1 = withOffsets pre.length rs :=
  scan_after_damage cfg pre rs hpre hv hns

def witnessA : Rec := { key := [97], body := [1], flag := 0, ver := 1, ts := 7 }
def witnessB : Rec := { key := [98], body := [2], flag := 0, ver := 1, ts := 8 }
/-- record A with its value-size field (bytes 20..23) overwritten by 1000: in range, but past EOF -/
def witnessPre : Bytes := Go.splice (encode witnessA) 20 (Go.leBytes 4 1000)
/-- the former counterexample: the intact record behind the oversized length is now yielded -/
example : scan {} (witnessPre ++ encodeAll [witnessB]) 0 = ([(256, witnessB)], .eof) := by decide +kernel

/-! Non-vacuity: a concrete non-trivial record meets `ValidSizes`, is 512 bytes long on disk and
    round-trips through both readers. -/
def sampleRec : Rec := { key := [107, 49], body := List.replicate 300 0xAB, flag := 0x204, ver := -3, ts := 1600000000 }
example : ValidSizes {} sampleRec := ⟨by decide +kernel, by decide +kernel, by decide +kernel, by decide +kernel⟩
example : (encode sampleRec).length = 512 := by decide +kernel
example : scan {} (encodeAll [sampleRec, witnessB]) 0 = ([(0, sampleRec), (512, witnessB)], .eof) := by decide +kernel
