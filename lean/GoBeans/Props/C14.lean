/-
  C14 — hint files: faithful round-trip, total lookup, correct merge.

  Model: GoBeans/Model/Hint.lean — byte-level writer (`writeFile`: 16-byte header from the REGENERATED
  `Gen.hintMetaDumps`, 23-byte item heads + keys, sparse index with the code's append rule), sequential reader,
  `loadIndex`, `lookup` (binary search in the sparse index + bounded forward scan), list-level `merge`.
  Tied byte-for-byte to the real hintFileWriter / hintFileReader / loadHintIndex / hintFileIndex.get / merge by
  engine `hint` (files of 0..5000 items, arbitrary hashes incl. 0 and 2^64-1, same-hash groups, index intervals
  1..4096, present / absent / equal-hash-different-key lookups, 1..8-way merges with duplicates).

  Proved here (no bound on the number of items, key lengths ≤ 255, any hashes):
   * an item survives encode → decode unchanged, whatever follows it in the file;
   * reading a region of encoded items sequentially returns exactly those items in order;
   * scanning a hash-sorted region for a (hash, key) pair returns the item if and only if it is present, and
     never an error for an absent pair — provided the reader's offset counter is in step with the file position
     (that is the repaired code: /repo commit 7dc2b09; before it the counter stayed at 16 after the seek and an
     absent key above every stored hash ended in an EOF error: known_findings.txt, C14/lookup-error-for-absent-key).
   * MERGE (GoBeans/Model/HintMerge.lean — the k-way loop of store/hintmerge.go step by step: open every source, the
     priority queue with Go's container/heap Init/Pop/Push transcribed and PROVED to be a priority queue for the
     code's `Less`, the writer's last-item / same-key / same-hash bookkeeping, the final flush; tied to the real
     `merge` by engine `hint`, incl. inputs with repeated chunk ids): for all sources that are non-empty and
     strictly sorted by (hash, key) the merge ends normally (`C14_merge_total`; sources WITHOUT items are skipped and the
     merge never panics: `C14_merge_never_panics` — the repaired code),
     the output is strictly sorted with no key twice, contains only source items, and for every key the entry whose
     (file, offset) position is greatest (`C14_merge_greatest_position`, exactly those without position ties:
     `C14_merge_exact`); an item is reported to the collision table iff it is written and another key shares its
     hash (`C14_merge_reports_collisions`); without ties the code computes exactly the functional specification
     `Hint.merge` (`C14_merge_is_spec`), whatever the queue.
  Partial: the header round trip and the choice of the start entry in the sparse index are validated by the
  correspondence, not proved.  A merge cut short (GC abort, read error) still flushes its collision reports, possibly
  with a position that is not the greatest (`HintMergeLemmas.abort_stale`; notes/REPORT-hintmerge.md) — outside C14's
  quantifier (completed merges).
-/
import GoBeans.Lemmas.HintFile
import GoBeans.Lemmas.HintMerge
open Hint HintLemmas

theorem C14_item_roundtrip (it : Item) (hw : WF it) (rest : Bytes) :
    decItem (encItem it ++ rest) = some (it, 23 + it.key.length) :=
  decItem_encItem it hw rest

theorem C14_read_region (items : List Item) (hw : ∀ it ∈ items, WF it) (pre post : Bytes) (cnt fuel : Nat)
    (hf : items.length < fuel) :
    readFrom (pre ++ encAll items ++ post) (cnt + sizeAll items) fuel pre.length cnt = .ok items :=
  readFrom_items items hw pre post cnt fuel hf

/-- total lookup: present ⇒ the item; absent ⇒ none; never an error -/
theorem C14_lookup_total (kh : Nat) (key : Bytes) (items : List Item) (hw : ∀ it ∈ items, WF it) (hs : SortedByHash items)
    (pre post : Bytes) (cnt fuel : Nat) (hf : items.length < fuel) :
    lookupFrom (pre ++ encAll items ++ post) (cnt + sizeAll items) kh key fuel pre.length cnt
      = .ok (items.find? (fun it => it.khash == kh && it.key == key)) :=
  lookupFrom_sorted kh key items hw hs pre post cnt fuel hf

/-! merge (the real k-way heap merge, `HintMerge.kway HintMerge.goHeap`) -/

theorem C14_merge_total (srcs : List (Nat × List Item)) (hok : HintMerge.srcsOK srcs = true) :
    ∃ out coll, HintMerge.kway HintMerge.goHeap srcs = .ok out coll :=
  HintMergeLemmas.merge_total HintMergeLemmas.goLaws srcs hok

/-- the merge never panics; hint files without items are simply skipped (before /repo "fix: a hint file without items
    made the merge panic" it panicked iff some source was empty: known_findings.txt C14/panic-empty-source) -/
theorem C14_merge_never_panics (srcs : List (Nat × List Item)) :
    HintMerge.kway HintMerge.goHeap srcs ≠ .panic ∧
    HintMerge.kway HintMerge.goHeap srcs = HintMerge.kway HintMerge.goHeap (HintMergeLemmas.nonEmpty srcs) :=
  ⟨HintMergeLemmas.merge_never_panics HintMerge.goHeap srcs, HintMergeLemmas.kway_nonEmpty HintMerge.goHeap srcs⟩

/-- for each key: one entry, taken from a source, with the greatest (file, offset) position -/
theorem C14_merge_greatest_position (srcs : List (Nat × List Item)) (hok : HintMerge.srcsOK srcs = true)
    {out coll : List Item} (h : HintMerge.kway HintMerge.goHeap srcs = .ok out coll) :
    (∀ x ∈ out, x ∈ HintMerge.allItems srcs)
    ∧ (∀ x ∈ out, ∀ x' ∈ out, HintMergeLemmas.SameKey x x' → x = x')
    ∧ (∀ y ∈ HintMerge.allItems srcs, ∃ x ∈ out, HintMergeLemmas.SameKey x y ∧ posKey y ≤ posKey x) :=
  ⟨HintMergeLemmas.merge_mem HintMergeLemmas.goLaws hok h, HintMergeLemmas.merge_unique HintMergeLemmas.goLaws hok h,
   HintMergeLemmas.merge_greatest HintMergeLemmas.goLaws hok h⟩

theorem C14_merge_exact (srcs : List (Nat × List Item)) (hok : HintMerge.srcsOK srcs = true)
    (hnt : HintMerge.noTies (HintMerge.allItems srcs) = true) {out coll : List Item}
    (h : HintMerge.kway HintMerge.goHeap srcs = .ok out coll) (x : Item) :
    x ∈ out ↔ x ∈ HintMerge.allItems srcs ∧ ∀ y ∈ HintMerge.allItems srcs, HintMergeLemmas.SameKey x y → posKey y ≤ posKey x :=
  HintMergeLemmas.merge_exact HintMergeLemmas.goLaws hok hnt h x

/-- every member of every group of different keys sharing a hash is reported; nothing of a singleton group is -/
theorem C14_merge_reports_collisions (srcs : List (Nat × List Item)) (hok : HintMerge.srcsOK srcs = true)
    {out coll : List Item} (h : HintMerge.kway HintMerge.goHeap srcs = .ok out coll) (x : Item) :
    x ∈ coll ↔ x ∈ out ∧ ∃ y ∈ HintMerge.allItems srcs, y.khash = x.khash ∧ y.key ≠ x.key :=
  HintMergeLemmas.merge_coll_iff HintMergeLemmas.goLaws hok h x

/-- the code computes the functional specification (also when hintMgr.Merge passes one reader per chunk: different
    chunk ids exclude ties) -/
theorem C14_merge_is_spec (srcs : List (Nat × List Item)) (hok : HintMerge.srcsOK srcs = true)
    (hd : HintMerge.distinctChunks srcs = true) :
    HintMerge.kway HintMerge.goHeap srcs = .ok (Hint.merge srcs).1 (Hint.merge srcs).2 :=
  HintMergeLemmas.go_merge_eq_spec srcs hok (HintMergeLemmas.noTies_of_distinctChunks srcs hok hd)

/-! Non-vacuity and the former counterexample: three items, an index entry per item (interval 1);
    the absent hash 2^64-1 is "not found" with the counter in step (true) and an error with the historical
    counter (false). -/
def exItems : List Item := [
  { khash := 10, chunk := 0, off := 0, ver := 1, vhash := 7, key := [97, 97] },
  { khash := 20, chunk := 0, off := 256, ver := 1, vhash := 8, key := [98, 98] },
  { khash := 30, chunk := 0, off := 512, ver := -2, vhash := 9, key := [99, 99] }]
def exFile : Bytes := writeFile 1 exItems 4096
example : readAll exFile = .ok (exItems, { indexOffset := 91, numKey := 3, datasize := 4096 }) := by decide +kernel
example : loadIndex exFile = .ok [(10, 16), (20, 41), (30, 66)] := by decide +kernel
example : lookup true exFile [(10, 16), (20, 41), (30, 66)] 18446744073709551615 [122] = .ok none := by decide +kernel
example : lookup false exFile [(10, 16), (20, 41), (30, 66)] 18446744073709551615 [122] = .error .shortItem := by decide +kernel
example : lookup true exFile [(10, 16), (20, 41), (30, 66)] 30 [99, 99] = .ok (exItems.getLast? ) := by decide +kernel
example : ∀ it ∈ exItems, WF it := by
  intro it h; simp [exItems] at h
  rcases h with rfl | rfl | rfl <;> exact ⟨by decide, by decide, by decide, by decide, by decide, by decide⟩
