/-
  C03 — GC never changes what any key reads (no loss, no resurrection).

  Two layers.
  (1) Proved for every log, every range split, every relocation map (no bound on files, records, keys):
      replacing the records of the collected range by the records GC keeps — for a key the tree knows, exactly
      the record the tree points at; for a key the tree does not know, only tombstones and only if the range does
      not start at file 0 — leaves the live last record of EVERY key unchanged (`C03_gc_preserves_reads`).
      Since a rebuilt tree is the replay of the log (C02_rebuild_is_replay), nothing older can come back to life
      after a restart with rebuilt indexes either (`C03_no_resurrection`).
  (2) The concrete pass `Store.gcRun` (destination choice, in-place rewrite, destination switch, truncate, source
      clear — Model/GC.lean) is tied to the real `GCMgr.gc` by engine `seq` (resolved range, statistics, every
      position, every data file) and to layer (1) by a per-run check in the driver (its log equals the abstract
      pass `gcAbstract`).  The layout lemma "gcRun's files read in order are  before ++ kept ++ after" is NOT
      proved: `C03_gcRun_statement` below is the full statement, kept visible.
-/
import GoBeans.Lemmas.GCLog
open Store Spec StoreLemmas

/-- GC preserves what every key reads (abstract log form; see the file header). -/
theorem C03_gc_preserves_reads (hasEntry : Key → Bool) (beginPos : Bool) (reloc : Pos → Pos)
    (before mid after : List (Pos × Rec))
    (hpre : beginPos = false → before = [])
    (hEntry : ∀ k, hasEntry k = false → ∀ x, lastOf k (before ++ mid ++ after) = some x → x.2.ver < 0)
    (k : Key) :
    liveRec k (before ++ relocate reloc (mid.filter (gcKeep hasEntry beginPos (before ++ mid ++ after))) ++ after)
      = liveRec k (before ++ mid ++ after) :=
  gc_preserves_live hasEntry beginPos reloc before mid after hpre hEntry k

/-- No resurrection: rebuilding the tree from the collected files (replay) gives, for every key, a live item iff
    the key was live before GC — same version, same value hash. -/
theorem C03_no_resurrection (hash : Key → Nat) (K : Key → Prop) (hInj : InjOn hash K)
    (hasEntry : Key → Bool) (beginPos : Bool) (reloc : Pos → Pos) (before mid after : List (Pos × Rec))
    (hpre : beginPos = false → before = [])
    (hEntry : ∀ k, hasEntry k = false → ∀ x, lastOf k (before ++ mid ++ after) = some x → x.2.ver < 0)
    (hkeys : ∀ x ∈ before ++ mid ++ after, K x.2.key) (k : Key) (hk : K k) :
    let after' := before ++ relocate reloc (mid.filter (gcKeep hasEntry beginPos (before ++ mid ++ after))) ++ after
    (AMap.get (replayTree hash after') (hash k)).map (fun it => (it.ver, it.vhash))
      = (AMap.get (replayTree hash (before ++ mid ++ after)) (hash k)).map (fun it => (it.ver, it.vhash)) := by
  intro after'
  have hkeys' : ∀ x ∈ after', K x.2.key := by
    intro x hx
    simp only [after', List.mem_append] at hx
    rcases hx with (hx | hx) | hx
    · exact hkeys x (by simp [hx])
    · unfold relocate at hx
      rw [List.mem_map] at hx
      obtain ⟨y, hy, rfl⟩ := hx
      exact hkeys y (by simp [(List.mem_filter.mp hy).1])
    · exact hkeys x (by simp [hx])
  rw [replay_get hash K hInj after' hkeys' k hk, replay_get hash K hInj _ hkeys k hk]
  have hl := gc_preserves_live hasEntry beginPos reloc before mid after hpre hEntry k
  unfold liveRec at hl
  cases h1 : lastOf k after' with
  | none =>
    rw [h1] at hl
    cases h2 : lastOf k (before ++ mid ++ after) with
    | none => rfl
    | some y =>
      rw [h2] at hl
      by_cases hv : y.2.ver > 0
      · simp [hv] at hl
      · simp [itemOfLast, hv]
  | some x =>
    rw [h1] at hl
    cases h2 : lastOf k (before ++ mid ++ after) with
    | none =>
      rw [h2] at hl
      by_cases hv : x.2.ver > 0
      · simp [hv] at hl
      · simp [itemOfLast, hv]
    | some y =>
      rw [h2] at hl
      by_cases hv : x.2.ver > 0 <;> by_cases hw : y.2.ver > 0
      · simp [hv, hw] at hl
        obtain ⟨p, r⟩ := x; obtain ⟨q, r'⟩ := y
        simp at hl; subst hl
        simp [itemOfLast, hv]
      · simp [hv, hw] at hl
      · simp [hv, hw] at hl
      · simp [itemOfLast, hv, hw]

/-- FULL statement about the concrete pass (not proved — the layout lemma is missing; checked per run by the
    driver as `gc-abstraction`, and against the real store by engine `seq`). -/
def C03_gcRun_statement (hash : Key → Nat) (cfg : Store.Cfg) : Prop :=
  ∀ (b : Bucket) (s e : Nat), s ≤ e → e < b.head →
    ((gcRun hash cfg b s e).1.log.map (·.2)) = gcAbstract hash b s e

/-! Non-vacuity: a three-file log where the collected middle file holds a superseded value, the current value of
    another key and a tombstone; the live view is unchanged and the superseded record is gone. -/
def rA1 : Rec := { key := [97], ver := 1, flag := 0, ts := none, body := [1], size := 256 }
def rA2 : Rec := { key := [97], ver := 2, flag := 0, ts := none, body := [2], size := 256 }
def rB1 : Rec := { key := [98], ver := 1, flag := 0, ts := none, body := [3], size := 256 }
def rBd : Rec := { key := [98], ver := -2, flag := 0, ts := none, body := [], size := 256 }
def exBefore : List (Pos × Rec) := [(⟨0, 0⟩, rB1)]
def exMid : List (Pos × Rec) := [(⟨1, 0⟩, rA1), (⟨1, 256⟩, rBd)]
def exAfter : List (Pos × Rec) := [(⟨2, 0⟩, rA2)]
example : exMid.filter (gcKeep (fun k => k == [97] || k == [98]) true (exBefore ++ exMid ++ exAfter)) = [(⟨1, 256⟩, rBd)] := by decide +kernel
example : liveRec [98] (exBefore ++ exMid ++ exAfter) = none ∧ liveRec [97] (exBefore ++ exMid ++ exAfter) = some rA2 := by decide +kernel
