/-
  C03 — GC never changes what any key reads (no loss, no resurrection).

  Three layers, all proved.
  (1) Abstract, for every log, range split, relocation map: replacing the records of the collected range by the records
      GC keeps leaves the live last record of EVERY key unchanged (`C03_gc_preserves_reads`); a rebuilt tree is the
      replay of the log, so nothing older comes back to life after a restart with rebuilt indexes (`C03_no_resurrection`).
  (2) Concrete pass: `Store.gcRun` (Model/GC.lean — destination choice by `gcDst`, append to an earlier file or rewrite
      the first file of the range in place, destination switch when the destination is full, source clear, end of
      writing; tied to the real `GCMgr.gc` by engine `seq`: resolved range, statistics, every position, every data
      file) run on ANY bucket satisfying the invariants of C01/C02 and over any range below the head re-establishes
      ALL of these invariants with the SAME reference map (`C03_gc_refines`): tree and records agree with the
      reference (so every get / meta-get / incr / delete / set afterwards replies as on the uncollected store), the
      tree describes the last record of every key (so a restart with a rebuilt tree serves the same map), files stay
      well formed.  Proof: the pass is a sequence of four abstract steps on a virtual log (Lemmas/GCStep.lean), each
      preserving "the tree slot of a key describes its last record", and the concrete bookkeeping performs exactly
      these steps (Lemmas/GCRun.lean, GCPass.lean) — no bound on files, records, keys, sizes.
  (3) Histories: client commands, flushes, restarts of either kind and GC REQUESTS (arbitrary arguments, through
      `gcCheckRange`; merge on/off does not exist at this level — hint merging does not touch data) in any order and
      number: every reply equals the reference map's, for which a GC request is a no-op (`C03_history_with_gc`).
  Hypotheses: key hash injective on the keys used (colliding keys: C13), `check_vhash` off (as C02), record sizes
  positive and at most `dataFileMax` (an oversized record makes the real GC march past its range: outside every
  quantifier of the property; the generator caps sizes), versions inside int32 (known finding C01/version-overflow).
-/
import GoBeans.Lemmas.GCLog
import GoBeans.Lemmas.GCHistory
import GoBeans.Props.C01
open Store Spec StoreLemmas

/-- GC preserves what every key reads (abstract log form; see the file header). -/
theorem C03_gc_preserves_reads (hasEntry : Key → Bool) (beginPos : Bool) (reloc : Pos → Pos)
    (before mid after : List (Pos × Rec))
    (hpre : beginPos = false → before = [])
    (hEntry : ∀ k, hasEntry k = false → ∀ x, lastOf k (before ++ mid ++ after) = some x → x.2.ver < 0)
    (k : Key) :
    liveRec k (before ++ relocate reloc (mid.filter (gcKeep hasEntry beginPos (before ++ mid ++ after))) ++ after)
      = liveRec k (before ++ mid ++ after) :=
  gc_preserves_live hasEntry beginPos reloc before mid after hpre hEntry k

/-- No resurrection: rebuilding the tree from the collected files (replay) gives, for every key, a live item iff
    the key was live before GC — same version, same value hash. -/
theorem C03_no_resurrection (hash : Key → Nat) (K : Key → Prop) (hInj : InjOn hash K)
    (hasEntry : Key → Bool) (beginPos : Bool) (reloc : Pos → Pos) (before mid after : List (Pos × Rec))
    (hpre : beginPos = false → before = [])
    (hEntry : ∀ k, hasEntry k = false → ∀ x, lastOf k (before ++ mid ++ after) = some x → x.2.ver < 0)
    (hkeys : ∀ x ∈ before ++ mid ++ after, K x.2.key) (k : Key) (hk : K k) :
    let after' := before ++ relocate reloc (mid.filter (gcKeep hasEntry beginPos (before ++ mid ++ after))) ++ after
    (AMap.get (replayTree hash after') (hash k)).map (fun it => (it.ver, it.vhash))
      = (AMap.get (replayTree hash (before ++ mid ++ after)) (hash k)).map (fun it => (it.ver, it.vhash)) := by
  intro after'
  have hkeys' : ∀ x ∈ after', K x.2.key := by
    intro x hx
    simp only [after', List.mem_append] at hx
    rcases hx with (hx | hx) | hx
    · exact hkeys x (by simp [hx])
    · unfold relocate at hx
      rw [List.mem_map] at hx
      obtain ⟨y, hy, rfl⟩ := hx
      exact hkeys y (by simp [(List.mem_filter.mp hy).1])
    · exact hkeys x (by simp [hx])
  rw [replay_get hash K hInj after' hkeys' k hk, replay_get hash K hInj _ hkeys k hk]
  have hl := gc_preserves_live hasEntry beginPos reloc before mid after hpre hEntry k
  unfold liveRec at hl
  cases h1 : lastOf k after' with
  | none =>
    rw [h1] at hl
    cases h2 : lastOf k (before ++ mid ++ after) with
    | none => rfl
    | some y =>
      rw [h2] at hl
      by_cases hv : y.2.ver > 0
      · simp [hv] at hl
      · simp [itemOfLast, hv]
  | some x =>
    rw [h1] at hl
    cases h2 : lastOf k (before ++ mid ++ after) with
    | none =>
      rw [h2] at hl
      by_cases hv : x.2.ver > 0
      · simp [hv] at hl
      · simp [itemOfLast, hv]
    | some y =>
      rw [h2] at hl
      by_cases hv : x.2.ver > 0 <;> by_cases hw : y.2.ver > 0
      · simp [hv, hw] at hl
        obtain ⟨p, r⟩ := x; obtain ⟨q, r'⟩ := y
        simp at hl; subst hl
        simp [itemOfLast, hv]
      · simp [hv, hw] at hl
      · simp [hv, hw] at hl
      · simp [itemOfLast, hv, hw]

/-- The concrete pass refines "nothing happened": every invariant of the bucket is re-established with the SAME
    reference map `m` — hence every later reply, a restart with loaded or rebuilt tree, and a further pass behave as
    on the uncollected store. -/
theorem C03_gc_refines (hash : Key → Nat) (K : Key → Prop) (cfg : Store.Cfg) (hInj : InjOn hash K) {n : Nat} {b : Bucket} {m : KV}
    (inv : Inv hash K n b m) (lr : LastRec hash K b) (w : WF cfg b) (nz : NoZero b)
    (begin stop : Nat) (hbs : begin ≤ stop) (hs : stop < b.head) :
    Inv hash K n (gcRun hash cfg b begin stop).1 m ∧ LastRec hash K (gcRun hash cfg b begin stop).1
    ∧ WF cfg (gcRun hash cfg b begin stop).1 ∧ NoZero (gcRun hash cfg b begin stop).1
    ∧ (gcRun hash cfg b begin stop).1.head = b.head :=
  gcRun_refines hash K cfg hInj inv lr w nz begin stop hbs hs

/-- what one key reads right after a pass: exactly what it read before -/
theorem C03_get_after_gc (hash : Key → Nat) (K : Key → Prop) (cfg : Store.Cfg) (hInj : InjOn hash K) {n : Nat} {b : Bucket} {m : KV}
    (inv : Inv hash K n b m) (lr : LastRec hash K b) (w : WF cfg b) (nz : NoZero b)
    (begin stop : Nat) (hbs : begin ≤ stop) (hs : stop < b.head) (k : Key) (hk : K k) :
    (Store.step hash cfg (gcRun hash cfg b begin stop).1 (.get k)).2.1 = (Store.step hash cfg b (.get k)).2.1
    ∧ (Store.step hash cfg (gcRun hash cfg b begin stop).1 (.info k)).2.1 = (Store.step hash cfg b (.info k)).2.1 := by
  have i1 := (gcRun_refines hash K cfg hInj inv lr w nz begin stop hbs hs).1
  exact ⟨by rw [(get_refines hash K cfg i1 k hk).1, (get_refines hash K cfg inv k hk).1],
         by rw [(info_refines hash K cfg i1 k hk).1, (info_refines hash K cfg inv k hk).1]⟩

/-- FULL sequential statement: histories of client commands, flushes, restarts of either kind and GC requests with
    arbitrary arguments, in any order: every reply equals the reference map's (which ignores GC). -/
theorem C03_history_with_gc (hash : Key → Nat) (K : Key → Prop) (hInj : InjOn hash K) (cfg : Store.Cfg)
    (hcv : cfg.checkVHash = false) (R : Nat) (ops : List HOp) (hops : ∀ op ∈ ops, HOpOK K cfg R op)
    (hbound : R + ops.length < 2147483647) :
    (hrun hash cfg {} ops).2 = (hspec { checkVHash := cfg.checkVHash } [] ops).2
    ∧ HInv hash K cfg (R + ops.length) (hrun hash cfg {} ops).1 (hspec { checkVHash := cfg.checkVHash } [] ops).1 :=
  hrun_refines hash K cfg hcv hInj R ops R {} [] (hinv_mono hash K (Nat.zero_le R) (hinv_init hash K cfg)) (Nat.le_refl R) hbound hops

/-! Non-vacuity: a three-file log where the collected middle file holds a superseded value, the current value of
    another key and a tombstone; the live view is unchanged and the superseded record is gone. -/
def rA1 : Rec := { key := [97], ver := 1, flag := 0, ts := none, body := [1], size := 256 }
def rA2 : Rec := { key := [97], ver := 2, flag := 0, ts := none, body := [2], size := 256 }
def rB1 : Rec := { key := [98], ver := 1, flag := 0, ts := none, body := [3], size := 256 }
def rBd : Rec := { key := [98], ver := -2, flag := 0, ts := none, body := [], size := 256 }
def exBefore : List (Pos × Rec) := [(⟨0, 0⟩, rB1)]
def exMid : List (Pos × Rec) := [(⟨1, 0⟩, rA1), (⟨1, 256⟩, rBd)]
def exAfter : List (Pos × Rec) := [(⟨2, 0⟩, rA2)]
example : exMid.filter (gcKeep (fun k => k == [97] || k == [98]) true (exBefore ++ exMid ++ exAfter)) = [(⟨1, 256⟩, rBd)] := by decide +kernel
example : liveRec [98] (exBefore ++ exMid ++ exAfter) = none ∧ liveRec [97] (exBefore ++ exMid ++ exAfter) = some rA2 := by decide +kernel

/-! Non-vacuity of the history theorem: writes over three small files, a pass over file 0 (both its records are
    superseded: the file goes), reads, a restart with rebuilt tree, a second request resolved from `nextGC`. -/
def exK3 : Key → Prop := fun k => k = [97] ∨ k = [98] ∨ k = [99]
def exCfg3 : Store.Cfg := { dataFileMax := 512, bodyMax := 100 }
def exOps3 : List HOp := [
  .op (.set [97] [1] 0 0 10 256), .op (.set [98] [2] 0 0 10 256), .op (.set [97] [3] 0 0 10 256), .op (.delete [98] 256 10),
  .op (.set [99] [4] 0 0 10 256), .op (.get [97]), .gc { start := 0, stop := -1, noGCDays := 0, now := 100000 },
  .op (.get [97]), .op (.get [98]), .op (.reopen false), .op (.get [97]), .op (.get [98]), .op (.get [99]),
  .gc { start := -1, stop := -1, noGCDays := 0, now := 100000 }, .op (.info [99])]
example : InjOn exHash exK3 := by
  intro a b ha hb _; rcases ha with rfl | rfl | rfl <;> rcases hb with rfl | rfl | rfl <;> simp_all [exHash]
example : ∀ op ∈ exOps3, HOpOK exK3 exCfg3 0 op := by
  intro op h; simp [exOps3] at h
  rcases h with rfl | rfl | rfl | rfl | rfl | rfl | rfl | rfl | rfl | rfl | rfl | rfl | rfl | rfl | rfl <;>
    simp [HOpOK, OpOK3, OpOK, exK3, exCfg3]
example : (hrun exHash exCfg3 {} exOps3).2 =
    [.stored, .stored, .stored, .deleted, .stored, .value 0 [3], .value 0 [3], .miss, .value 0 [3], .miss, .value 0 [4],
     .info 1 (Ref.vhash [4]) 0 1 (some 10)] := by decide +kernel
-- the first request resolves to file 0 and the pass removes both (superseded) records of it
example : (gcCheckRange exCfg3 (hrun exHash exCfg3 {} (exOps3.take 6)).1 { start := 0, stop := -1, noGCDays := 0, now := 100000 }).toOption
    = some (0, 0) := by decide +kernel
example : ((hrun exHash exCfg3 {} (exOps3.take 6)).1.log.length, (hrun exHash exCfg3 {} (exOps3.take 7)).1.log.length) = (5, 3) := by
  decide +kernel
