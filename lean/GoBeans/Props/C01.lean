/-
  C01 — reads return the last value written (single-client model equivalence).

  Model: GoBeans/Model/Store.lean (`Store.step`: checkAndSet / set / incr / get / meta-get / flush with
  data-file rotation, positions `(file, offset)`, tree keyed by key hash), using the REGENERATED
  `Gen.checkAndUpdateVerison` and `Gen.Getvhash`.  Reference: GoBeans/Spec/KV.lean (`Spec.step`, a plain map).
  Tie: engine `seq` runs the real HStore/StorageClient and compares every reply, every position reported
  by `??key` and the record inventory of every data file with the model, and every reply with the reference.

  Quantifier of the theorems: every key hash function that is injective on the keys used (colliding
  keys: C13), every `dataFileMax` and `check_vhash` setting, every finite history of set / delete / incr /
  get / meta-get / flush over those keys, every record size > 0 (i.e. whatever compression decided, C10),
  so every placement of records in write buffer, flushed file, or later files after rotation.
-/
import GoBeans.Lemmas.Store

open Store Spec StoreLemmas

/-- The regenerated version rule equals the documented arithmetic (auto-increment on 0, negated increment on
    delete, an explicit revision accepted only if larger in absolute value) as long as versions stay inside int32. -/
theorem C01_version_arith (oldv rev : Int) (ho : oldv.natAbs < 2147483647) (hr1 : -2147483648 < rev) (hr2 : rev < 2147483648) :
    Store.nextVer oldv rev = Spec.nextVersion oldv rev :=
  nextVer_eq oldv rev ho hr1 hr2

/-- One command: the bucket machine gives the reference map's reply and stays in agreement with it. -/
theorem C01_abs_step_set (hash : Key → Nat) (K : Key → Prop) (cfg : Store.Cfg) (hInj : InjOn hash K) {n : Nat}
    (hn : n + 1 < 2147483647) {b : Bucket} {m : KV} (inv : Inv hash K n b m)
    (k : Key) (body : Bytes) (flag : Nat) (rev : Int) (ts size : Nat)
    (hk : K k) (hs : 0 < size) (hb : body.length < 2^63) (hr0 : 0 ≤ rev) (hrn : rev.natAbs ≤ n) :
    (Store.step hash cfg b (.set k body flag rev ts size)).2.1 = (Spec.step { checkVHash := cfg.checkVHash } m (.set k body flag rev ts)).2
    ∧ Inv hash K (n + 1) (Store.step hash cfg b (.set k body flag rev ts size)).1 (Spec.step { checkVHash := cfg.checkVHash } m (.set k body flag rev ts)).1 :=
  set_refines hash K cfg hInj hn inv k body flag rev ts size hk hs hb hr0 hrn

/-- Every reply of the bucket machine equals the reply of the plain reference map, for every history. -/
theorem C01_refines (hash : Key → Nat) (K : Key → Prop) (hInj : InjOn hash K) (cfg : Store.Cfg) (R : Nat)
    (ops : List Op) (hops : ∀ op ∈ ops, OpOK K R op) (hbound : R + ops.length < 2147483647) :
    (Store.run hash cfg {} ops).2 = (Spec.run { checkVHash := cfg.checkVHash } [] (ops.filterMap Store.cmdOf)).2 :=
  (run_refines hash K cfg hInj R ops R {} [] (inv_mono hash K (Nat.zero_le R) (inv_init hash K)) (Nat.le_refl R) hbound hops).1

/-- ... and the final states still agree, so histories compose (restart and GC theorems start from here). -/
theorem C01_final_agree (hash : Key → Nat) (K : Key → Prop) (hInj : InjOn hash K) (cfg : Store.Cfg) (R : Nat)
    (ops : List Op) (hops : ∀ op ∈ ops, OpOK K R op) (hbound : R + ops.length < 2147483647) :
    Inv hash K (R + ops.length) (Store.run hash cfg {} ops).1
      (Spec.run { checkVHash := cfg.checkVHash } [] (ops.filterMap Store.cmdOf)).1 :=
  (run_refines hash K cfg hInj R ops R {} [] (inv_mono hash K (Nat.zero_le R) (inv_init hash K)) (Nat.le_refl R) hbound hops).2

/-! Non-vacuity: a concrete history with overwrite, explicit revision, delete, re-set, incr, flush and three
    data-file rotations (dataFileMax = 512) meets the hypotheses; its replies are computed by the kernel. -/
def exK : Key → Prop := fun k => k = [97] ∨ k = [98]
def exHash : Key → Nat := fun k => k.length * 1000 + (k.headD 0).toNat
def exOps : List Op := [
  .set [97] [1,2,3] 0 0 100 256, .set [98] [9] 7 0 101 256, .get [97], .set [97] [4] 1 5 102 256, .info [97],
  .flush, .delete [98] 256 0, .get [98], .set [98] [5,5] 0 0 103 256, .incr [97] 3 256 0, .set [97] [52,50] 516 0 104 256,
  .incr [97] 8 256 0, .get [97], .info [98]]
example : InjOn exHash exK := by
  intro a b ha hb _; rcases ha with rfl | rfl <;> rcases hb with rfl | rfl <;> simp_all [exHash]
example : ∀ op ∈ exOps, OpOK exK 5 op := by
  intro op h; simp [exOps] at h
  rcases h with rfl | rfl | rfl | rfl | rfl | rfl | rfl | rfl | rfl | rfl | rfl | rfl | rfl | rfl <;> simp [OpOK, exK]
example : (Store.run exHash { dataFileMax := 512 } {} exOps).2 =
    [.stored, .stored, .value 0 [1,2,3], .stored, .info 5 (Ref.vhash [4]) 1 1 (some 102), .deleted, .miss, .stored,
     .num 0, .stored, .num 50, .value 516 [53, 48], .info 3 (Ref.vhash [5,5]) 0 2 (some 103)] := by decide +kernel
example : (Store.run exHash { dataFileMax := 512 } {} exOps).1.head = 3 := by decide +kernel
