/-
  C12 — request tokens and buffer accounting return to zero at quiescence.

  Model: GoBeans/Model/Proto.lean — one `serveOnce` per call of the real `ServerConn.ServeOnce`, threading the
  ledger (GetData / SetData / FlushData / AllocRL count and size, free request tokens) through the same
  acquire / hand-over / release steps as the code: token taken in `Request.Read`, body allocated and counted as
  SetData, handed to the store (SetData -> FlushData when the record is written, released when it is not),
  read buffers counted as GetData until `CleanBuffer`, token returned by the deferred `RL.Put`, FlushData and
  the C allocation released by the flusher.
  Tied to the real memcache.ServerConn + gobeansdb.StorageClient + HStore by engine `proto`: after every served
  command the eight counters and the free-token count of the implementation must equal the model's, and be all
  zero (tokens = max_req) after the final flush.

  Proved here, for EVERY byte stream (any length, any content, cut anywhere) and any number of served commands:
   * between commands the ledger is exactly the ownership of the write buffer: no read buffer, no set buffer and no
     token is held (`C12_idle_ledger`);
   * after the flush every counter is zero and all tokens are free (`C12_quiescence`).
  Partial: single connection (the schedule quantifier — several connections interleaving inside a command — is
  not modelled; the ledger operations are atomic adds, and each connection's contribution is the one proved here);
  values are not compressed in the model (a compressed value changes only the size carried by FlushData).
  The OOM refusal, malloc failure and connection write errors are not modelled.
-/
import GoBeans.Lemmas.Proto
open Proto

/-- the server at start: nothing stored, nothing buffered, all tokens free -/
def C12_init (cfg : Cfg) : St := { led := zero cfg }

theorem C12_init_quiet (cfg : Cfg) : Quiet cfg (C12_init cfg) := rfl

/-- one served command, whatever the bytes: the ledger stays the ownership of the write buffer -/
theorem C12_step (cfg : Cfg) (st : St) (inp : Bytes) (h : Quiet cfg st) : Quiet cfg (serveOnce cfg st inp).st :=
  serveOnce_quiet cfg st inp h

/-- between commands: get and set counters zero, all tokens free, flush/alloc counters = what the write buffer owns -/
theorem C12_idle_ledger (cfg : Cfg) (fuel : Nat) (inp : Bytes) :
    let st := (serve cfg fuel (C12_init cfg) inp).1
    st.led.getC = 0 ∧ st.led.getS = 0 ∧ st.led.setC = 0 ∧ st.led.setS = 0 ∧ st.led.tokens = cfg.maxReq
    ∧ st.led.flushC = st.pend.length := by
  have h := serve_quiet cfg fuel (C12_init cfg) inp (C12_init_quiet cfg)
  generalize (serve cfg fuel (C12_init cfg) inp).1 = st at h
  unfold Quiet idle at h
  simp only [h]
  have key : ∀ (p : List Buf) (l : Ledger), (p.foldl own l).getC = l.getC ∧ (p.foldl own l).getS = l.getS
      ∧ (p.foldl own l).setC = l.setC ∧ (p.foldl own l).setS = l.setS ∧ (p.foldl own l).tokens = l.tokens
      ∧ (p.foldl own l).flushC = l.flushC + p.length := by
    intro p
    induction p with
    | nil => intro l; simp
    | cons b bs ih =>
      intro l
      simp only [List.foldl_cons, List.length_cons]
      have := ih (own l b)
      have e : (own l b).getC = l.getC ∧ (own l b).getS = l.getS ∧ (own l b).setC = l.setC ∧ (own l b).setS = l.setS
          ∧ (own l b).tokens = l.tokens ∧ (own l b).flushC = l.flushC + 1 := by
        unfold own Ledger.flushAdd; by_cases hb : b.inC = true <;> simp [hb]
      omega
  have := key st.pend (zero cfg)
  simp [zero] at this ⊢
  omega

/-- quiescence: any stream, any number of commands, then the flusher: every counter zero, every token free -/
theorem C12_quiescence (cfg : Cfg) (fuel : Nat) (inp : Bytes) :
    (flush (serve cfg fuel (C12_init cfg) inp).1).led = zero cfg :=
  (flush_zero cfg _ (serve_quiet cfg fuel (C12_init cfg) inp (C12_init_quiet cfg))).1

/-! Non-vacuity: a stream with a stored value above the C threshold, a hit, a malformed command, a body cut short.
    The ledger is not trivially zero in between (one buffer of 70 bytes is owned by the write buffer, in C). -/
def exCfg : Cfg := { bodyInC := 64 }
def exStream : Bytes :=
  ascii "set k 0 0 70\r\n" ++ List.replicate 70 120 ++ ascii "\r\nget k k\r\nset k 0 0\r\nincr n 5\r\nset j 0 0 10\r\nabc"
example : ((serve exCfg 10 (C12_init exCfg) exStream).1.led.flushC,
           (serve exCfg 10 (C12_init exCfg) exStream).1.led.flushS,
           (serve exCfg 10 (C12_init exCfg) exStream).1.led.allocC,
           (serve exCfg 10 (C12_init exCfg) exStream).1.led.allocS) = (2, 70, 1, 70) := by decide +kernel
example : ((serve exCfg 10 (C12_init exCfg) exStream).2.map (fun r => r.isSome)) = [true, true, true, true, false] := by decide +kernel
