/-
  C12 — request tokens and buffer accounting return to zero at quiescence.

  Model: GoBeans/Model/Proto.lean — one `serveOnce` per call of the real `ServerConn.ServeOnce`, threading the
  ledger (GetData / SetData / FlushData / AllocRL count and size, free request tokens) through the same
  acquire / hand-over / release steps as the code: token taken in `Request.Read`, body allocated and counted as
  SetData, handed to the store (SetData -> FlushData when the record is written, released when it is not),
  read buffers counted as GetData until `CleanBuffer`, token returned by the deferred `RL.Put`, FlushData and
  the C allocation released by the flusher.
  Tied to the real memcache.ServerConn + gobeansdb.StorageClient + HStore by engine `proto`: after every served
  command the eight counters and the free-token count of the implementation must equal the model's, and be all
  zero (tokens = max_req) after the final flush.

  Proved here, for EVERY byte stream (any length, any content, cut anywhere) and any number of served commands:
   * between commands the ledger is exactly the ownership of the write buffer: no read buffer, no set buffer and no
     token is held (`C12_idle_ledger`);
   * after the flush every counter is zero and all tokens are free (`C12_quiescence`).
  SEVERAL CONNECTIONS (GoBeans/Model/LedgerConc.lean): every command is the ordered list of ATOMIC micro-operations
  the code performs (token take `<-rl.Chan`, one atomic add on one of the eight counters, hand-over of a buffer to the
  write buffer, I/O, token return), derived per command kind and outcome and PROVED to fold to exactly what
  `Proto.serveOnce` does to the ledger (`C12_micro_ops_are_serve`); any number of connections and flusher threads, an
  arbitrary scheduler, a token take enabled only while a token is free.  For every schedule: the ledger is the idle
  ledger plus what each in-flight command and each flusher currently holds plus what the write buffers own, and the
  free tokens are maxReq minus the connections holding one, never negative (`C12_conc_invariant`); when every
  connection is between commands or closed (also closed mid-body), flushers idle and buffers empty, every counter is
  zero and every token free (`C12_conc_quiescence`); the limiter cannot deadlock and every schedule extends to a
  fully served, flushed state (`C12_conc_no_deadlock`, `C12_conc_drain`).
  Partial:
  values are not compressed in the model (a compressed value changes only the size carried by FlushData).
  The OOM refusal, malloc failure and connection write errors are not modelled.
-/
import GoBeans.Lemmas.Proto
import GoBeans.Lemmas.LedgerConc
open Proto

/-- the server at start: nothing stored, nothing buffered, all tokens free -/
def C12_init (cfg : Cfg) : St := { led := zero cfg }

theorem C12_init_quiet (cfg : Cfg) : Quiet cfg (C12_init cfg) := rfl

/-- one served command, whatever the bytes: the ledger stays the ownership of the write buffer -/
theorem C12_step (cfg : Cfg) (st : St) (inp : Bytes) (h : Quiet cfg st) : Quiet cfg (serveOnce cfg st inp).st :=
  serveOnce_quiet cfg st inp h

/-- between commands: get and set counters zero, all tokens free, flush/alloc counters = what the write buffer owns -/
theorem C12_idle_ledger (cfg : Cfg) (fuel : Nat) (inp : Bytes) :
    let st := (serve cfg fuel (C12_init cfg) inp).1
    st.led.getC = 0 ∧ st.led.getS = 0 ∧ st.led.setC = 0 ∧ st.led.setS = 0 ∧ st.led.tokens = cfg.maxReq
    ∧ st.led.flushC = st.pend.length := by
  have h := serve_quiet cfg fuel (C12_init cfg) inp (C12_init_quiet cfg)
  generalize (serve cfg fuel (C12_init cfg) inp).1 = st at h
  unfold Quiet idle at h
  simp only [h]
  have key : ∀ (p : List Buf) (l : Ledger), (p.foldl own l).getC = l.getC ∧ (p.foldl own l).getS = l.getS
      ∧ (p.foldl own l).setC = l.setC ∧ (p.foldl own l).setS = l.setS ∧ (p.foldl own l).tokens = l.tokens
      ∧ (p.foldl own l).flushC = l.flushC + p.length := by
    intro p
    induction p with
    | nil => intro l; simp
    | cons b bs ih =>
      intro l
      simp only [List.foldl_cons, List.length_cons]
      have := ih (own l b)
      have e : (own l b).getC = l.getC ∧ (own l b).getS = l.getS ∧ (own l b).setC = l.setC ∧ (own l b).setS = l.setS
          ∧ (own l b).tokens = l.tokens ∧ (own l b).flushC = l.flushC + 1 := by
        unfold own Ledger.flushAdd; by_cases hb : b.inC = true <;> simp [hb]
      omega
  have := key st.pend (zero cfg)
  simp [zero] at this ⊢
  omega

/-- quiescence: any stream, any number of commands, then the flusher: every counter zero, every token free -/
theorem C12_quiescence (cfg : Cfg) (fuel : Nat) (inp : Bytes) :
    (flush (serve cfg fuel (C12_init cfg) inp).1).led = zero cfg :=
  (flush_zero cfg _ (serve_quiet cfg fuel (C12_init cfg) inp (C12_init_quiet cfg))).1

/-! several connections, any schedule -/

/-- the micro-operations of a served command fold to exactly what `serveOnce` does to ledger and write buffer -/
theorem C12_micro_ops_are_serve (cfg : Cfg) (fuel : Nat) (st : Proto.St) (inp : Bytes) :
    LedgerConc.applyOps ((LedgerConc.outcomes cfg fuel st inp).flatMap LedgerConc.microOps) st.led = (Proto.serve cfg fuel st inp).1.led
    ∧ st.pend ++ LedgerConc.pushes ((LedgerConc.outcomes cfg fuel st inp).flatMap LedgerConc.microOps) = (Proto.serve cfg fuel st inp).1.pend :=
  LedgerConc.serve_microOps cfg fuel st inp

theorem C12_conc_invariant (cfg : Cfg) (conns : List (List LedgerConc.Outcome)) (nf : Nat) (sched : List LedgerConc.Action) :
    let s := LedgerConc.run (LedgerConc.system cfg conns nf) sched
    s.led = zero cfg + LedgerConc.vsum (s.conns.map LedgerConc.Conn.share) + LedgerConc.vsum (s.flushers.map LedgerConc.Flusher.held)
        + LedgerConc.ownSum s.pend
    ∧ s.led.tokens = (cfg.maxReq : Int) - (s.conns.countP (fun c => LedgerConc.holding c.done))
    ∧ 0 ≤ s.led.tokens ∧ s.led.tokens ≤ cfg.maxReq :=
  LedgerConc.C12_conc_invariant cfg conns nf sched

/-- the C12 statement for any number of concurrent connections and every schedule -/
theorem C12_conc_quiescence (cfg : Cfg) (conns : List (List LedgerConc.Outcome)) (nf : Nat) (sched : List LedgerConc.Action)
    (hc : ∀ os ∈ conns, ∀ o ∈ os, o.clean = true ∧ LedgerConc.RelOK o)
    (hq : LedgerConc.quiescent (LedgerConc.run (LedgerConc.system cfg conns nf) sched) = true) :
    (LedgerConc.run (LedgerConc.system cfg conns nf) sched).led = zero cfg :=
  LedgerConc.C12_conc_quiescence cfg conns nf sched hc hq

theorem C12_conc_no_deadlock (cfg : Cfg) (hm : 1 ≤ cfg.maxReq) (conns : List (List LedgerConc.Outcome)) (nf : Nat)
    (sched : List LedgerConc.Action) (i : Nat)
    (hb : LedgerConc.blocked (LedgerConc.run (LedgerConc.system cfg conns nf) sched) i = true) :
    ∃ j c, j ≠ i ∧ (LedgerConc.run (LedgerConc.system cfg conns nf) sched).conns[j]? = some c ∧ LedgerConc.holding c.done = true
      ∧ (LedgerConc.step (LedgerConc.run (LedgerConc.system cfg conns nf) sched) (.conn j)).isSome = true :=
  LedgerConc.C12_conc_no_deadlock cfg hm conns nf sched i hb

theorem C12_conc_drain (cfg : Cfg) (hm : 1 ≤ cfg.maxReq) (conns : List (List LedgerConc.Outcome)) (nf : Nat) (hnf : 1 ≤ nf)
    (sched : List LedgerConc.Action) :
    ∃ more, LedgerConc.finished (LedgerConc.run (LedgerConc.system cfg conns nf) (sched ++ more)) = true :=
  LedgerConc.C12_conc_drain cfg hm conns nf hnf sched

/-! Non-vacuity: a stream with a stored value above the C threshold, a hit, a malformed command, a body cut short.
    The ledger is not trivially zero in between (one buffer of 70 bytes is owned by the write buffer, in C). -/
def exCfg : Cfg := { bodyInC := 64 }
def exStream : Bytes :=
  ascii "set k 0 0 70\r\n" ++ List.replicate 70 120 ++ ascii "\r\nget k k\r\nset k 0 0\r\nincr n 5\r\nset j 0 0 10\r\nabc"
example : ((serve exCfg 10 (C12_init exCfg) exStream).1.led.flushC,
           (serve exCfg 10 (C12_init exCfg) exStream).1.led.flushS,
           (serve exCfg 10 (C12_init exCfg) exStream).1.led.allocC,
           (serve exCfg 10 (C12_init exCfg) exStream).1.led.allocS) = (2, 70, 1, 70) := by decide +kernel
example : ((serve exCfg 10 (C12_init exCfg) exStream).2.map (fun r => r.isSome)) = [true, true, true, true, false] := by decide +kernel
