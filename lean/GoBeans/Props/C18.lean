/-
  C18 — GC actually reclaims: no superseded record survives in the collected range.

  Proved (abstract log form, every log / range / key): a record of a key the tree knows survives the pass only if
  it is THE last record of its key in the whole store, and no second record of that key survives in the range
  (`C18_only_current`); the statistics kernel `GCFileState.addRecord` (regenerated) counts a record as released
  exactly when it is not kept (`C18_stats`).
  Tied by engine `seq`: after every pass the implementation's files of the range are scanned by an independent
  scanner: every surviving record must be the current record of its key in the reference map (or a tombstone of a
  key the rebuilt tree no longer knows), no live key twice; the per-pass counters (before/released, sizes) equal
  the model's.  Partial: as C03, the concrete layout of `gcRun` is tied to the abstract pass per run, not proved.
-/
import GoBeans.Lemmas.GCLog
open Store Spec StoreLemmas

/-- Only current records of known keys survive, each once. -/
theorem C18_only_current (hasEntry : Key → Bool) (beginPos : Bool) (full mid : List (Pos × Rec)) (x : Pos × Rec)
    (hx : x ∈ mid.filter (gcKeep hasEntry beginPos full)) (he : hasEntry x.2.key = true) :
    lastOf x.2.key full = some x ∧ ∀ y ∈ mid.filter (gcKeep hasEntry beginPos full), y.2.key = x.2.key → y = x :=
  gc_kept_current hasEntry beginPos full mid x hx he

/-- a superseded record (not the last of its key) of a known key never survives -/
theorem C18_superseded_dropped (hasEntry : Key → Bool) (beginPos : Bool) (full mid : List (Pos × Rec)) (x : Pos × Rec)
    (he : hasEntry x.2.key = true) (hnot : lastOf x.2.key full ≠ some x) :
    x ∉ mid.filter (gcKeep hasEntry beginPos full) :=
  fun hx => hnot (gc_kept_current hasEntry beginPos full mid x hx he).1

/-- the regenerated statistics kernel: released counters move exactly for records that are not kept -/
theorem C18_stats (nb nr nrd sb sr sd sbr : Int64) (size : UInt32) (isNewest isDeleted : Bool) :
    let r := Gen.gcAddRecord nb nr nrd sb sr sd sbr size isNewest isDeleted 0
    r.1 = nb + 1 ∧ r.2.1 = (if isNewest then nr else nr + 1)
    ∧ r.2.2.2.1 = sb + (size + 0).toUInt64.toInt64 := by
  unfold Gen.gcAddRecord
  cases isNewest <;> cases isDeleted <;> simp [Id.run] <;> exact ⟨rfl, rfl, rfl⟩
