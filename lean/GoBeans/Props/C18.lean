/-
  C18 — GC actually reclaims: no superseded record survives in the collected range.

  Proved about the concrete pass `Store.gcRun` (Model/GC.lean; tied to the real `GCMgr.gc` by engine `seq`), for every
  bucket satisfying the invariants of C01/C02 and every range below the head (`C18_range_holds_only_current`): every
  record the pass leaves in a file of the range is either THE last record of its key in the whole store with the tree
  pointing at it — so no overwritten or deleted version survives and no key survives twice — or a delete marker of a
  key the tree does not know, which only a pass that does not start at file 0 retains; and the earlier file GC merely
  appended to keeps its old records as a prefix (`C18_appended_file_prefix`).
  Abstract forms (every log / range / key): `C18_only_current`, `C18_superseded_dropped`; the regenerated statistics
  kernel `GCFileState.addRecord` counts a record as released exactly when it is not kept (`C18_stats`).
  Tied by engine `seq`: after every pass the implementation's files of the range are scanned by an independent
  scanner: every surviving record must be the current record of its key in the reference map (or a tombstone of a key
  the rebuilt tree no longer knows), no live key twice; the per-pass counters equal the model's.
  Running the same pass again releases nothing (`C18_second_pass_releases_nothing`): every record is found newest and
  the release counters stay zero.
-/
import GoBeans.Lemmas.GCLog
import GoBeans.Lemmas.GCFiles
import GoBeans.Lemmas.GCAgain
open Store Spec StoreLemmas

/-- After a pass, a file of the range holds only current records (concrete pass, every reachable bucket). -/
theorem C18_range_holds_only_current (hash : Key → Nat) (K : Key → Prop) (cfg : Store.Cfg) (hInj : InjOn hash K)
    {n : Nat} {b : Bucket} {m : KV} (inv : Inv hash K n b m) (lr : LastRec hash K b) (w : WF cfg b) (nz : NoZero b)
    (begin stop : Nat) (hbs : begin ≤ stop) (hs : stop < b.head)
    (i : Nat) (hi1 : begin ≤ i) (hi2 : i ≤ stop) (o : Nat) (r : Rec)
    (hmem : (o, r) ∈ ((gcRun hash cfg b begin stop).1.chunks i).recs) :
    (∃ it, AMap.get (gcRun hash cfg b begin stop).1.tree (hash r.key) = some it ∧ it.pos = { chunk := i, off := o }
        ∧ lastOf r.key (gcRun hash cfg b begin stop).1.log = some (({ chunk := i, off := o } : Pos), r))
    ∨ (AMap.get (gcRun hash cfg b begin stop).1.tree (hash r.key) = none ∧ begin > 0 ∧ r.ver < 0) :=
  gcRun_current hash K cfg hInj inv lr w nz begin stop hbs hs i hi1 hi2 o r hmem

/-- no key the tree knows survives twice in the range -/
theorem C18_each_once (hash : Key → Nat) (K : Key → Prop) (cfg : Store.Cfg) (hInj : InjOn hash K)
    {n : Nat} {b : Bucket} {m : KV} (inv : Inv hash K n b m) (lr : LastRec hash K b) (w : WF cfg b) (nz : NoZero b)
    (begin stop : Nat) (hbs : begin ≤ stop) (hs : stop < b.head)
    (i j : Nat) (hi1 : begin ≤ i) (hi2 : i ≤ stop) (hj1 : begin ≤ j) (hj2 : j ≤ stop) (o o' : Nat) (r r' : Rec)
    (h1 : (o, r) ∈ ((gcRun hash cfg b begin stop).1.chunks i).recs)
    (h2 : (o', r') ∈ ((gcRun hash cfg b begin stop).1.chunks j).recs) (hk : r.key = r'.key)
    (hknown : AMap.get (gcRun hash cfg b begin stop).1.tree (hash r.key) ≠ none) :
    i = j ∧ o = o' ∧ r = r' := by
  rcases gcRun_current hash K cfg hInj inv lr w nz begin stop hbs hs i hi1 hi2 o r h1 with ⟨it, a1, a2, a3⟩ | ⟨a1, _⟩
  · rcases gcRun_current hash K cfg hInj inv lr w nz begin stop hbs hs j hj1 hj2 o' r' h2 with ⟨it', c1, c2, c3⟩ | ⟨c1, _⟩
    · rw [← hk, a3] at c3
      simp only [Option.some.injEq, Prod.mk.injEq, Pos.mk.injEq] at c3
      exact ⟨c3.1.1, c3.1.2, c3.2⟩
    · rw [← hk] at c1; exact absurd c1 hknown
  · exact absurd a1 hknown

/-- the earlier file GC merely appended to keeps its old records (as a prefix) -/
theorem C18_appended_file_prefix (hash : Key → Nat) (K : Key → Prop) (cfg : Store.Cfg) (hInj : InjOn hash K)
    {n : Nat} {b : Bucket} {m : KV} (inv : Inv hash K n b m) (lr : LastRec hash K b) (w : WF cfg b) (nz : NoZero b)
    (begin stop : Nat) (hbs : begin ≤ stop) (hs : stop < b.head) (hd : gcDst cfg b begin < begin) :
    ∃ ext, ((gcRun hash cfg b begin stop).1.chunks (gcDst cfg b begin)).recs = (b.chunks (gcDst cfg b begin)).recs ++ ext :=
  (gcRun_touch hash K cfg hInj inv lr w nz begin stop hbs hs).2.2.1 hd

/-- running the same pass again releases nothing -/
theorem C18_second_pass_releases_nothing (hash : Key → Nat) (K : Key → Prop) (cfg : Store.Cfg) (hInj : InjOn hash K)
    {n : Nat} {b : Bucket} {m : KV} (inv : Inv hash K n b m) (lr : LastRec hash K b) (w : WF cfg b) (nz : NoZero b)
    (begin stop : Nat) (hbs : begin ≤ stop) (hs : stop < b.head) :
    (gcRun hash cfg (gcRun hash cfg b begin stop).1 begin stop).2.numReleased = 0
    ∧ (gcRun hash cfg (gcRun hash cfg b begin stop).1 begin stop).2.sizeReleased = 0 :=
  gcRun_twice_releases_nothing hash K cfg hInj inv lr w nz begin stop hbs hs

/-- Only current records of known keys survive, each once. -/
theorem C18_only_current (hasEntry : Key → Bool) (beginPos : Bool) (full mid : List (Pos × Rec)) (x : Pos × Rec)
    (hx : x ∈ mid.filter (gcKeep hasEntry beginPos full)) (he : hasEntry x.2.key = true) :
    lastOf x.2.key full = some x ∧ ∀ y ∈ mid.filter (gcKeep hasEntry beginPos full), y.2.key = x.2.key → y = x :=
  gc_kept_current hasEntry beginPos full mid x hx he

/-- a superseded record (not the last of its key) of a known key never survives -/
theorem C18_superseded_dropped (hasEntry : Key → Bool) (beginPos : Bool) (full mid : List (Pos × Rec)) (x : Pos × Rec)
    (he : hasEntry x.2.key = true) (hnot : lastOf x.2.key full ≠ some x) :
    x ∉ mid.filter (gcKeep hasEntry beginPos full) :=
  fun hx => hnot (gc_kept_current hasEntry beginPos full mid x hx he).1

/-- the regenerated statistics kernel: released counters move exactly for records that are not kept -/
theorem C18_stats (nb nr nrd sb sr sd sbr : Int64) (size : UInt32) (isNewest isDeleted : Bool) :
    let r := Gen.gcAddRecord nb nr nrd sb sr sd sbr size isNewest isDeleted 0
    r.1 = nb + 1 ∧ r.2.1 = (if isNewest then nr else nr + 1)
    ∧ r.2.2.2.1 = sb + (size + 0).toUInt64.toInt64 := by
  unfold Gen.gcAddRecord
  cases isNewest <;> cases isDeleted <;> simp [Id.run] <;> exact ⟨rfl, rfl, rfl⟩
