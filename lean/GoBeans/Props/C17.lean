/-
  C17 — GC only touches eligible files and runs at most once per bucket.

  Model: `Store.gcCheckRange` / `gcRun` (GoBeans/Model/GC.lean, mirror of store/gc.go gcCheckStart/gcCheckEnd/gc).
  Proved here: every accepted request resolves to a range  start ≤ end < head  (so the file receiving appends
  is never inside it), for ALL integer arguments (negative, beyond the head, any no-GC-days, any clock) and every
  bucket state.  Pretend mode is the range resolution alone — a function with no state output.
  Tied by engine `seq`: requests with arguments from {-2 … head+1}², no_gc_days ∈ {-1,0,1,30,5000}, merge on/off,
  pretend; resolved range, per-file statistics, positions of every key and the record inventory of every data
  file are compared with the model; oracle on the implementation's files: outside the range no existing file is
  rewritten, truncated or removed — at most one earlier file grows (its old content a prefix), relocated
  records may open files in empty slots below the range, nothing changes at or above end+1.
  Single pass per bucket: `C17_one_pass` below — when "is a pass registered?" and "register it" are one step (as
  in HStore.GC since /repo "fix: register the GC pass…"), every interleaving of requests and pass ends keeps at
  most one pass per bucket; `C17_two_step_admits_two` is the historical behaviour (check now, register later inside
  the spawned goroutine): two requests both pass the check.  Tied by engine `conc` (mix c17): two requests for one
  bucket 0..3000 µs apart (with and without the merge preparation), the maximal number of simultaneously running
  passes is observed through hook points at the begin and end of a pass.
  Touch set of the pass itself (`C17_touch`, proved for every reachable bucket and every accepted request): files
  above the resolved range — in particular the head file receiving appends — and files below the first destination
  are left exactly as they were; the destination chosen below the range (the single earlier file GC appends to) keeps
  its old records as a prefix; the destination never lies above the first file of the range.  Not in the model: the
  age limit is part of `gcCheckEnd` (proved only as "the range lies below the head"; its exact choice is tied by
  correspondence), pretend mode (the real code returns before the pass: call-order fact `hstore.gc.check`).
-/
import GoBeans.Lemmas.GCRange
import GoBeans.Lemmas.GCFiles
import GoBeans.Lemmas.GCHistory
open Store

theorem gcBack_le (b : Bucket) (start : Nat) : ∀ fuel e, gcBack b start fuel e ≤ e := StoreLemmas.gcBack_le b start

theorem gcScan_le (b : Bucket) (start : Nat) (now days : Int) :
    ∀ fuel next r, gcScan b start now days fuel next = .ok r → r ≤ next - 1 := StoreLemmas.gcScan_le b start now days

/-- Every accepted GC request, whatever its arguments, resolves to  start ≤ end < head. -/
theorem C17_range (cfg : Cfg) (b : Bucket) (g : GcArgs) (s e : Nat)
    (h : gcCheckRange cfg b g = .ok (s, e)) : s ≤ e ∧ e < b.head := StoreLemmas.gcCheckRange_range cfg b g s e h

/-- Touch set: an accepted request (any arguments) on a bucket satisfying the invariants of C01/C02 leaves every file
    above the resolved range — the head file among them — and every file below the first destination untouched; a
    destination below the range only grows. -/
theorem C17_touch (hash : Spec.Key → Nat) (K : Spec.Key → Prop) (cfg : Cfg) (hInj : StoreLemmas.InjOn hash K)
    {n : Nat} {b : Bucket} {m : Spec.KV} (h : StoreLemmas.HInv hash K cfg n b m) (g : GcArgs) (s e : Nat)
    (hr : gcCheckRange cfg b g = .ok (s, e)) :
    (gcRun hash cfg b s e).1.chunks b.head = b.chunks b.head
    ∧ (∀ i, e < i → (gcRun hash cfg b s e).1.chunks i = b.chunks i)
    ∧ (∀ i, i < gcDst cfg b s → (gcRun hash cfg b s e).1.chunks i = b.chunks i)
    ∧ (gcDst cfg b s < s → ∃ ext, ((gcRun hash cfg b s e).1.chunks (gcDst cfg b s)).recs = (b.chunks (gcDst cfg b s)).recs ++ ext)
    ∧ gcDst cfg b s ≤ s ∧ (gcRun hash cfg b s e).1.head = b.head := by
  obtain ⟨h1, h2⟩ := C17_range cfg b g s e hr
  obtain ⟨t1, t2, t3, t4⟩ := StoreLemmas.gcRun_touch hash K cfg hInj h.inv h.lr h.wf h.nz s e h1 h2
  exact ⟨t2 b.head h2, t2, t1, t3, t4, (StoreLemmas.gcRun_refines hash K cfg hInj h.inv h.lr h.wf h.nz s e h1 h2).2.2.2.2⟩

/-- non-vacuity: a bucket with three flushed files and head 3 (empty) resolves (-1, -1) to [0, 1]: the newest file with data is never collected while the head is empty -/
def exB : Bucket :=
  { chunks := fun i => if i < 3 then { recs := [(0, { key := [97], ver := 1, flag := 0, ts := some 5, body := [], size := 256, wts := 5 })], flushed := 1, size := 256 } else {},
    head := 3 }
example : (gcCheckRange {} exB { start := -1, stop := -1, noGCDays := 0, now := 1000 }).toOption = some (0, 1) := by decide +kernel
example : (gcCheckRange {} exB { start := 4, stop := -1, noGCDays := 0, now := 1000 }).toOption = none := by decide +kernel
example : (gcCheckRange {} exB { start := 0, stop := 7, noGCDays := 30, now := 1000 }).toOption = none := by decide +kernel


/-! ### at most one pass per bucket (schedule part) -/
namespace GCReg

inductive Ev
  | request          -- HStore.GC: test "no pass registered" and register, in one step
  | finish           -- the pass ends and unregisters
deriving DecidableEq, Repr

/-- number of passes running on the bucket -/
def step (running : Nat) : Ev → Nat
  | .request => if running = 0 then 1 else running
  | .finish => running - 1

/-- the historical protocol: the check and the registration are separate steps of each request -/
inductive Ev2
  | check (req : Nat)       -- request `req` looks: allowed iff nothing is registered
  | register (req : Nat)    -- … and later registers and starts its pass, if it was allowed
  | finish
deriving DecidableEq, Repr

structure St2 where
  running : Nat := 0
  allowed : List Nat := []

def step2 (s : St2) : Ev2 → St2
  | .check r => if s.running = 0 then { s with allowed := r :: s.allowed } else s
  | .register r => if s.allowed.contains r then { running := s.running + 1, allowed := s.allowed.erase r } else s
  | .finish => { s with running := s.running - 1 }

end GCReg

theorem C17_one_pass (evs : List GCReg.Ev) : evs.foldl GCReg.step 0 ≤ 1 := by
  have h : ∀ (evs : List GCReg.Ev) (n : Nat), n ≤ 1 → evs.foldl GCReg.step n ≤ 1 := by
    intro evs
    induction evs with
    | nil => intro n hn; exact hn
    | cons e es ih =>
      intro n hn
      apply ih
      cases e <;> simp only [GCReg.step]
      · split <;> omega
      · omega
  exact h evs 0 (by omega)

theorem C17_two_step_admits_two :
    ([GCReg.Ev2.check 1, .check 2, .register 1, .register 2].foldl GCReg.step2 {}).running = 2 := by decide
