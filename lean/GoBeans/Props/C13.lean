/-
  C13 — keys with equal 64-bit hashes never alias or lose each other.

  What the store's mechanism must achieve, on the log view (Model/LogView.lean): the tree has ONE slot per key hash,
  pointing at whichever record of that hash class was written or replayed last; a read follows the slot, compares
  the record's key and, on a mismatch, looks the wanted key up by (hash, key) in the hints — i.e. finds the last
  record of THAT key.  `C13_slot_then_hints_reads_own_last` proves: if the slot points at the last record of the hash
  class, this read path returns exactly the last record of the wanted key, for any log and any (non-injective)
  hash — overwrites and deletes of the other key cannot disturb it.
  `C13_tombstone_replay_loses_other_key` is the counterpart about the code as it is: rebuilding the tree by replay
  REMOVES the slot when a delete marker is replayed (by key hash), so after `set A; set B; delete B` a rebuilt tree
  has no slot for the class and the read path never reaches the hints: the live key A reads as missing.

  Engine `seq`, mix `collide`: 1..3 groups of 2..4 pool keys forced onto one key hash (the store's package-level hash
  function is overridden through a verif shim), mixed with ordinary keys; full histories with restarts (tree dump
  kept / dropped; hint files and the collision table stay) and GC (merge on/off).  The bucket model is NOT compared
  in these cases (it has no collision table); every reply is judged by the reference map, which treats the keys as
  independent (versions of colliding keys are not compared).

  Status on the unchanged tree: the property is violated systematically — the write path takes the tree item of the
  key hash as the key's own old version whichever key it belongs to (deletes refused or accepted wrongly, explicit
  revisions compared with the other key's version), tombstone replay removes the shared slot, GC then discards
  records of keys the tree does not know.  These are KNOWN FINDINGS, classified by symptom and by the strongest
  structural event of the history so far (known_findings.txt, C13/*); none has a small fix (the tree item carries no
  key; a collision-aware write path needs a read).  One crash was repaired: GC dereferenced a nil collision item
  (/repo 667fdc2).  A violation outside the listed classes is still reported.

  COLLISION-PATH MODEL (GoBeans/Model/Collide.lean, 35 lemma modules): what the code actually does with colliding keys —
  data files and ONE tree slot per hash as in the bucket model, the collision table (`compareAndSet` incl. the
  `reason == "gc"` rule), the hint manager as far as `getItem` consults it (in-memory split buffers, dumped split files,
  merged index, `maxChunkID`), `Bucket.get` (table → tree → key compare → hint lookup → `compareAndSet`), the write path
  reading the slot of the key HASH, restarts with the tree dump kept or rebuilt from hints (collision.yaml kept), hint
  dump / merge, GC with merge on/off — defects included.  Tied by engine `collide`: every reply and position, after
  every operation the collision table, what the write path sees for every key and every *.idx.s file, after a pass
  range / statistics / data files (158 100 operations without a reply difference when it was written; on every run
  since).  The model reproduces every KNOWN deviation from the reference map (twelve minimal witness histories
  W1–W12, one per mechanism, in corpus/C13/collide-witnesses.txt and as `decide` theorems), so that a difference
  between model and implementation is behaviour that is NOT known (seed C13-d).
  Proved: for a hash injective on the keys used the collision-path model answers like the non-colliding bucket model and
  the reference map, GC requests included (`C13_collide_extends_store`), and so it does with RESTARTS (tree dump kept or
  rebuilt from the hint files, hint dump / merge, explicit revisions) in histories without GC requests, for `SplitCap ≥ 1`
  (`C13_injective_hash_with_restarts`; the statement as first written - every configuration - is FALSE: with `SplitCap = 0`
  the hint buffers drop every item and a rebuilt tree is empty, `C13_first_statement_false`; restarts AND GC in one
  history: stated `C13_collide_extends_store_restarts_gc_statement`, one instance by kernel evaluation, not proved); on the
  decidable class `SafeR` of histories — any hash function, any number of colliding keys: automatic-revision sets,
  incr, get, meta-get, flush, dumper rounds, deletes of keys the table knows, restarts with the tree kept or rebuilt
  once every key with a written hash-mate is in the table — EVERY reply is the reference map's up to version numbers
  (`C13_safe_with_restarts`): C13 holds for the code on that class.
-/
import GoBeans.Lemmas.GCLog
import GoBeans.Lemmas.Collide
import GoBeans.Lemmas.CollideRst
open Store Spec StoreLemmas

/-- the last record of a hash class -/
def classLast (hash : Key → Nat) (h : Nat) (l : List (Pos × Rec)) : Option (Pos × Rec) :=
  (l.filter (fun p => hash p.2.key = h)).getLast?

/-- the read path: follow the slot; on a key mismatch look the key up by (hash, key) -/
def readVia (hash : Key → Nat) (slot : Nat → Option (Pos × Rec)) (l : List (Pos × Rec)) (k : Key) : Option (Pos × Rec) :=
  match slot (hash k) with
  | none => none
  | some x => if x.2.key = k then some x else lastOf k l

theorem getLast?_filter_split {α} (l : List α) (p : α → Bool) (x : α) (hx : (l.filter p).getLast? = some x) :
    ∃ l1 l2, l = l1 ++ x :: l2 ∧ p x = true ∧ ∀ y ∈ l2, p y = false := by
  induction l with
  | nil => simp at hx
  | cons a t ih =>
    by_cases hpa : p a = true
    · simp only [List.filter_cons, hpa, if_true] at hx
      cases ht : t.filter p with
      | nil =>
        rw [ht] at hx
        simp only [List.getLast?_singleton, Option.some.injEq] at hx
        subst hx
        refine ⟨[], t, rfl, hpa, ?_⟩
        intro y hy
        have := List.filter_eq_nil_iff.mp ht y hy
        simpa using this
      | cons b bs =>
        rw [ht] at hx
        rw [List.getLast?_cons_cons] at hx
        rw [← ht] at hx
        obtain ⟨l1, l2, h1, h2, h3⟩ := ih hx
        exact ⟨a :: l1, l2, by rw [h1]; rfl, h2, h3⟩
    · simp only [List.filter_cons, hpa] at hx
      obtain ⟨l1, l2, h1, h2, h3⟩ := ih hx
      exact ⟨a :: l1, l2, by rw [h1]; rfl, h2, h3⟩

theorem getLast?_filter_sub {α} (l : List α) (p q : α → Bool) (hpq : ∀ a, q a = true → p a = true) (x : α)
    (hx : (l.filter p).getLast? = some x) (hq : q x = true) : (l.filter q).getLast? = some x := by
  obtain ⟨l1, l2, h1, _, h3⟩ := getLast?_filter_split l p x hx
  have hl2 : l2.filter q = [] := by
    rw [List.filter_eq_nil_iff]
    intro y hy hqy
    have := hpq y hqy
    rw [h3 y hy] at this
    exact absurd this (by simp)
  rw [h1, List.filter_append, List.filter_cons, hq]
  simp [hl2]

/-- **slot → key compare → hints**: with the slot at the last record of the hash class, every key of the class reads
    its own last record -/
theorem C13_slot_then_hints_reads_own_last (hash : Key → Nat) (l : List (Pos × Rec)) (k : Key) :
    readVia hash (fun h => classLast hash h l) l k = lastOf k l := by
  unfold readVia
  simp only []
  cases hc : classLast hash (hash k) l with
  | none =>
    -- no record of the class at all, so none of k
    simp only []
    unfold classLast at hc
    rw [List.getLast?_eq_none_iff, List.filter_eq_nil_iff] at hc
    symm
    rw [lastOf_none_iff]
    intro x hx hk
    exact hc x hx (by simp [hk])
  | some x =>
    simp only []
    by_cases hxk : x.2.key = k
    · rw [if_pos hxk]
      unfold classLast at hc
      unfold lastOf
      symm
      exact getLast?_filter_sub l _ _ (by intro a ha; simp at ha ⊢; rw [ha]) x hc (by simp [hxk])
    · rw [if_neg hxk]

/-- the code's replay: a replayed delete marker erases the slot of its key HASH — the other key of the class is gone -/
def hCol (_ : Key) : Nat := 7
def rA : Rec := { key := [97], ver := 1, flag := 0, ts := none, body := [1], size := 256 }
def rB : Rec := { key := [98], ver := 1, flag := 0, ts := none, body := [2], size := 256 }
def rBdel : Rec := { key := [98], ver := -2, flag := 0, ts := none, body := [], size := 256 }
def logAB : List (Pos × Rec) := [(⟨0, 0⟩, rA), (⟨0, 256⟩, rB), (⟨0, 512⟩, rBdel)]

theorem C13_tombstone_replay_loses_other_key :
    liveRec [97] logAB = some rA ∧ AMap.get (replayTree hCol logAB) (hCol [97]) = none := by decide +kernel

/-! Non-vacuity of the positive theorem on the same log: with the slot at the class's last record (the delete
    marker of B) the read path serves A its own record. -/
example : readVia hCol (fun h => classLast hCol h logAB) logAB [97] = some (⟨0, 0⟩, rA) := by decide +kernel
example : readVia hCol (fun h => classLast hCol h logAB) logAB [98] = some (⟨0, 512⟩, rBdel) := by decide +kernel

/-! the collision-path model -/

theorem C13_injective_hash_answers_like_reference (hash : Spec.Key → Nat) (K : Spec.Key → Prop) (hInj : StoreLemmas.InjOn hash K)
    (cfg : Collide.Cfg) (hcv : cfg.s.checkVHash = false) (R : Nat) (ops : List Collide.Op) (hlen : R + ops.length < 2147483647)
    (hops : ∀ op ∈ ops, CollideLemmas.ExtOK K cfg R op) :
    (Collide.run hash cfg {} ops).2 = (StoreLemmas.hrun hash cfg.s {} (ops.filterMap CollideLemmas.toH)).2
    ∧ (Collide.run hash cfg {} ops).2 = (StoreLemmas.hspec { checkVHash := cfg.s.checkVHash } [] (ops.filterMap CollideLemmas.toH)).2 :=
  _root_.C13_collide_extends_store hash K hInj cfg hcv R ops hlen hops

/-- C13 for the code on the class SafeR: any hash function, any number of colliding keys, restarts included -/
theorem C13_safe_class_with_restarts : CollideLemmas.C13_safe_with_restarts_statement :=
  _root_.C13_safe_with_restarts

/-- with an injective hash the collision path answers like the non-colliding model and the reference map also across
    RESTARTS (tree kept or rebuilt from the hint files), in histories without GC requests -/
theorem C13_injective_hash_with_restarts (hash : Spec.Key → Nat) (K : Spec.Key → Prop) (hInj : StoreLemmas.InjOn hash K)
    (cfg : Collide.Cfg) (hcv : cfg.s.checkVHash = false) (hcap : 1 ≤ cfg.cap) (R : Nat) (ops : List Collide.Op)
    (hlen : R + ops.length < 2147483647)
    (hops : ∀ op ∈ ops, match CollideLemmas.toH op with | some h => StoreLemmas.HOpOK K cfg.s R h | none => True)
    (hno : noGC ops = true) :
    (Collide.run hash cfg {} ops).2 = (StoreLemmas.hrun hash cfg.s {} (ops.filterMap CollideLemmas.toH)).2
    ∧ (Collide.run hash cfg {} ops).2 = (StoreLemmas.hspec { checkVHash := cfg.s.checkVHash } [] (ops.filterMap CollideLemmas.toH)).2 :=
  _root_.C13_collide_extends_store_restarts hash K hInj cfg hcv hcap R ops hlen hops hno

/-- the statement as first written (every configuration, `SplitCap = 0` included) is false -/
theorem C13_first_statement_false : ¬ C13_collide_extends_store_statement :=
  CollideRstExample.C13_statement_false
