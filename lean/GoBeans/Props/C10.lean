/-
  C10 — server-side compression is invisible to clients.

  Store level (proved): in the bucket model the compression outcome appears only as the on-disk size of a record
  (`size`, an arbitrary positive input of every write) — and every reply equals the reply of the reference map,
  which has no notion of size at all (C01_refines).  Hence two histories that differ only in what the server
  decided to compress (any decision rule whatsoever) are indistinguishable to the client (`C10_invisible`),
  and the value hash exposed to synchronisation is that of the bytes the client sent (`C10_vhash_uncompressed`).
  Decision rule (regenerated constants): engine `seq` checks on every write that the record occupies either the
  plain padded size or — only when compression was allowed (record > 256 bytes, neither the client-compressed flag
  0x10 nor the reserved 0x10000 set) — a smaller multiple of 256.
  CODEC (GoBeans/Model/Qlz.lean — the GO port of QuickLZ exactly as written: headerLen / SizeDecompressed /
  SizeCompressed, Compress at levels 1 and 3, Decompress with every slice index an explicit bounds check (= a Go
  panic), DecompressSafe; tied to the real code by engine `qlz`: the model's compressor is byte-identical to the Go
  Compress and its decoder agrees with the real Decompress / DecompressSafe on result class, length and digest, also
  on arbitrary and mutated streams).  Proved: the level-3 round trip for ALL inputs — `Compress(x,3)` never panics and
  `Decompress(Compress(x,3)) = x` (`C10_go_roundtrip_level3`; level 3 is the level of the C build, whose output the
  Go decoder must read); the stored ("gave up") form round-trips at both levels; for ARBITRARY bytes `Decompress`
  terminates (`C10_go_decompress_terminates`: at most len − header + 1 passes — `recover` would not catch a hang) and
  `DecompressSafe` returns an error or a slice of exactly the announced length (`C10_go_decompress_safe`); what it
  allocates before any check is bounded by the header only (`C10_alloc_bound` — the 9-byte input of known finding
  C10/nine-bytes-allocate-gigabytes is `QlzLemmas.hostile9_alloc`).
  Engine `qlz` also runs the C implementation (in a child process): round trips C→C, C→Go, Go→C, Go→Go exact on every
  generated value (classes incl. boundary-distance markers); arbitrary bytes into CDecompressSafe: KNOWN FINDINGS
  (the C decoder is built without QLZ_MEMORY_SAFE: crashes / reads past its input).
  Level 1 (Go only, unused by the server; hash-table tokens - the decoder rebuilds the compressor's table while it decodes):
  `C10_go_roundtrip_level1` - `Compress(x,1)` never panics and both decoders give x back, for ALL inputs (Lemmas/Qlz1*).
  Partial: the C code is compared, not modelled.
-/
import GoBeans.Lemmas.Store
import GoBeans.Lemmas.Qlz
import GoBeans.Lemmas.QlzTotal3
import GoBeans.Lemmas.Qlz1Total
open Store Spec StoreLemmas

/-- forget the sizes (the only trace of the compression decision) -/
def eraseSize : Op → Op
  | .set k body flag rev ts _ => .set k body flag rev ts 256
  | .delete k _ w => .delete k 256 w
  | .incr k d _ w => .incr k d 256 w
  | op => op

theorem cmdOf_eraseSize (op : Op) : Store.cmdOf (eraseSize op) = Store.cmdOf op := by
  cases op <;> rfl

theorem opOK_eraseSize (K : Key → Prop) (R : Nat) (op : Op) (h : OpOK K R op) : OpOK K R (eraseSize op) := by
  cases op <;> simp_all [OpOK, eraseSize]

/-- Whatever the server decided to compress (any sizes), the client sees the same replies. -/
theorem C10_invisible (hash : Key → Nat) (K : Key → Prop) (hInj : InjOn hash K) (cfg : Store.Cfg) (R : Nat)
    (ops : List Op) (hops : ∀ op ∈ ops, OpOK K R op) (hbound : R + ops.length < 2147483647) :
    (Store.run hash cfg {} ops).2 = (Store.run hash cfg {} (ops.map eraseSize)).2 := by
  have h1 := (run_refines hash K cfg hInj R ops R {} [] (inv_mono hash K (Nat.zero_le R) (inv_init hash K)) (Nat.le_refl R) hbound hops).1
  have hops' : ∀ op ∈ ops.map eraseSize, OpOK K R op := by
    intro op hop
    rw [List.mem_map] at hop
    obtain ⟨o, ho, rfl⟩ := hop
    exact opOK_eraseSize K R o (hops o ho)
  have h2 := (run_refines hash K cfg hInj R (ops.map eraseSize) R {} [] (inv_mono hash K (Nat.zero_le R) (inv_init hash K))
    (Nat.le_refl R) (by simpa using hbound) hops').1
  have hc : (ops.map eraseSize).filterMap Store.cmdOf = ops.filterMap Store.cmdOf := by
    rw [List.filterMap_map]
    congr 1
    funext op
    exact cmdOf_eraseSize op
  rw [h1, h2, hc]

/-- The value hash the tree (and hence hint files and listings) carries for a live key is the hash of the bytes the
    client sent — it does not depend on the stored (possibly compressed) size. -/
theorem C10_vhash_uncompressed (hash : Key → Nat) (cfg : Store.Cfg) (b : Bucket) (r : Rec) (hv : r.ver > 0) :
    (AMap.get (b.put hash cfg r).1.tree (hash r.key)).map (·.vhash) = some (Store.vhashOf r.body) := by
  simp [Bucket.put, hv]

/-- regenerated thresholds of the decision rule (item.go): the probe is 10 KiB, ratio limit 7/10, block 256 -/
example : Gen.TRY_COMPRESS_SIZE = 10240 ∧ Gen.COMPRESS_RATIO_LIMIT_num = 7 ∧ Gen.COMPRESS_RATIO_LIMIT_den = 10
    ∧ Gen.PADDING = 256 ∧ Gen.FLAG_COMPRESS = 0x10000 ∧ Gen.FLAG_CLIENT_COMPRESS = 0x10 := by decide


/-! the QuickLZ codec (Go port) -/

/-- level 3 (the level of the C build): compression never panics and decompression gives the original back, for every
    non-empty input below 4 GiB -/
theorem C10_go_roundtrip_level3 (x : Qlz.Buf) (hx : x.size ≠ 0) (hsz : x.size + 400 < 2 ^ 32) :
    ∃ c, Qlz.compress x 3 = some c ∧ Qlz.decompress c = .ok x :=
  QlzRT.roundtrip3 x hx hsz

/-- level 1 (hash-table tokens): compression never panics, `Decompress` and `DecompressSafe` give the original back, for every
    non-empty input below 4 GiB -/
theorem C10_go_roundtrip_level1 (x : Qlz.Buf) (hx : x.size ≠ 0) (hsz : x.size + 400 < 2 ^ 32) :
    ∃ c, Qlz.compress x 1 = some c ∧ Qlz.decompress c = .ok x ∧ Qlz.decompressSafe c = .ok x :=
  QlzRT.roundtrip1_safe x hx hsz

/-- the header a level-1 stream carries states its own length and the length of the original -/
theorem C10_go_header_level1 {x c : Qlz.Buf} (hx : x.size ≠ 0) (hsz : x.size + 400 < 2 ^ 32) (h : Qlz.compress x 1 = some c) :
    Qlz.sizeCompressed c = some c.size ∧ Qlz.sizeDecompressed c = some x.size :=
  QlzRT.compress1_header hx hsz h

theorem C10_go_roundtrip_safe_entry {x c : Qlz.Buf} (hx : x.size ≠ 0) (hsz : x.size + 400 < 2 ^ 32)
    (h : Qlz.compress x 3 = some c) : Qlz.decompress c = .ok x ∧ Qlz.decompressSafe c = .ok x :=
  QlzRT.compress3_roundtrip hx hsz h

/-- arbitrary bytes: the decoder loop terminates -/
theorem C10_go_decompress_terminates (s : Qlz.Buf) : Qlz.decompress s ≠ .fuel :=
  QlzLemmas.decompress_terminates s

/-- arbitrary bytes into the safe entry point: an error, or exactly the announced number of bytes -/
theorem C10_go_decompress_safe (s : Qlz.Buf) :
    (∃ out, Qlz.decompressSafe s = .ok out ∧ Qlz.sizeCompressed s = some s.size ∧ Qlz.sizeDecompressed s = some out.size)
    ∨ Qlz.decompressSafe s = .error .badSizeC ∨ Qlz.decompressSafe s = .error .recovered :=
  QlzLemmas.decompressSafe_spec s

theorem C10_alloc_bound {s : Qlz.Buf} {a : Nat} (h : Qlz.allocBeforeChecks s = some a) : a ≤ 4294967295 + 36864 :=
  QlzLemmas.allocBeforeChecks_le h
