/-
  C10 — server-side compression is invisible to clients.

  Store level (proved): in the bucket model the compression outcome appears only as the on-disk size of a record
  (`size`, an arbitrary positive input of every write) — and every reply equals the reply of the reference map,
  which has no notion of size at all (C01_refines).  Hence two histories that differ only in what the server
  decided to compress (any decision rule whatsoever) are indistinguishable to the client (`C10_invisible`),
  and the value hash exposed to synchronisation is that of the bytes the client sent (`C10_vhash_uncompressed`).
  Decision rule (regenerated constants): engine `seq` checks on every write that the record occupies either the
  plain padded size or — only when compression was allowed (record > 256 bytes, neither the client-compressed flag
  0x10 nor the reserved 0x10000 set) — a smaller multiple of 256.
  Codec (QuickLZ C / Go port): NOT proved — ~1000 lines of LZ77 outside this effort; validated by engine `qlz`
  (round trips C→C, C→Go, Go→C, Go→Go over the value classes and thresholds; arbitrary / mutated bytes into the
  safe decompressors in a child process).  See DESIGN.md C10 (partial).
-/
import GoBeans.Lemmas.Store
open Store Spec StoreLemmas

/-- forget the sizes (the only trace of the compression decision) -/
def eraseSize : Op → Op
  | .set k body flag rev ts _ => .set k body flag rev ts 256
  | .delete k _ w => .delete k 256 w
  | .incr k d _ w => .incr k d 256 w
  | op => op

theorem cmdOf_eraseSize (op : Op) : Store.cmdOf (eraseSize op) = Store.cmdOf op := by
  cases op <;> rfl

theorem opOK_eraseSize (K : Key → Prop) (R : Nat) (op : Op) (h : OpOK K R op) : OpOK K R (eraseSize op) := by
  cases op <;> simp_all [OpOK, eraseSize]

/-- Whatever the server decided to compress (any sizes), the client sees the same replies. -/
theorem C10_invisible (hash : Key → Nat) (K : Key → Prop) (hInj : InjOn hash K) (cfg : Store.Cfg) (R : Nat)
    (ops : List Op) (hops : ∀ op ∈ ops, OpOK K R op) (hbound : R + ops.length < 2147483647) :
    (Store.run hash cfg {} ops).2 = (Store.run hash cfg {} (ops.map eraseSize)).2 := by
  have h1 := (run_refines hash K cfg hInj R ops R {} [] (inv_mono hash K (Nat.zero_le R) (inv_init hash K)) (Nat.le_refl R) hbound hops).1
  have hops' : ∀ op ∈ ops.map eraseSize, OpOK K R op := by
    intro op hop
    rw [List.mem_map] at hop
    obtain ⟨o, ho, rfl⟩ := hop
    exact opOK_eraseSize K R o (hops o ho)
  have h2 := (run_refines hash K cfg hInj R (ops.map eraseSize) R {} [] (inv_mono hash K (Nat.zero_le R) (inv_init hash K))
    (Nat.le_refl R) (by simpa using hbound) hops').1
  have hc : (ops.map eraseSize).filterMap Store.cmdOf = ops.filterMap Store.cmdOf := by
    rw [List.filterMap_map]
    congr 1
    funext op
    exact cmdOf_eraseSize op
  rw [h1, h2, hc]

/-- The value hash the tree (and hence hint files and listings) carries for a live key is the hash of the bytes the
    client sent — it does not depend on the stored (possibly compressed) size. -/
theorem C10_vhash_uncompressed (hash : Key → Nat) (cfg : Store.Cfg) (b : Bucket) (r : Rec) (hv : r.ver > 0) :
    (AMap.get (b.put hash cfg r).1.tree (hash r.key)).map (·.vhash) = some (Store.vhashOf r.body) := by
  simp [Bucket.put, hv]

/-- regenerated thresholds of the decision rule (item.go): the probe is 10 KiB, ratio limit 7/10, block 256 -/
example : Gen.TRY_COMPRESS_SIZE = 10240 ∧ Gen.COMPRESS_RATIO_LIMIT_num = 7 ∧ Gen.COMPRESS_RATIO_LIMIT_den = 10
    ∧ Gen.PADDING = 256 ∧ Gen.FLAG_COMPRESS = 0x10000 ∧ Gen.FLAG_CLIENT_COMPRESS = 0x10 := by decide
