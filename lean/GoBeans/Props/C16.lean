/-
  C16 — key hash, value hash and CRC match the historical beansdb definitions.

  Every theorem is about the definitions in `Gen.*`, which tools/go2lean regenerates from
  /repo's store/key.go, utils/hash.go, store/item.go, store/crc32.go and store/datafile.go on
  every run; so the kernel re-checks these statements against what the code says now.
  References (`Ref.*`, GoBeans/Spec/Hash.lean) are plain-`Nat` transcriptions of the
  published algorithms.  Quantifier: every byte string (no bound on length other than Go's
  own `len < 2^63`).
-/
import GoBeans.Lemmas.Hash

open HashLemmas

/-- store.fnv1a is FNV-1a over *sign-extended* bytes (the historical quirk), for every input. -/
theorem C16_fnv (bs : Bytes) : (Gen.fnv1a bs).toNat = Ref.fnv1aSigned bs := L_fnv bs

/-- utils.Fnv1a (used by the value hash) is the same function. -/
theorem C16_fnv_utils (bs : Bytes) : (Gen.utilsFnv1a bs).toNat = Ref.fnv1aSigned bs := utilsFnv_toNat bs

/-- The 64-bit key hash is fnv1a in the high half and MurmurHash3-32 in the low half.
    (`murmur` is a library call: its model `Ref.murmurU32` is tied to the library by the
    `hash` correspondence engine and the test vectors below.) -/
theorem C16_keyhash (bs : Bytes) : (Gen.getKeyHashDefalut bs).toNat = Ref.fnv1aSigned bs * 2^32 + Ref.murmur3_32 bs :=
  L_keyhash bs

/-- The 16-bit value hash, including the switch to first/last 512 bytes above 1024. -/
theorem C16_vhash (bs : Bytes) (hlen : bs.length < 2^63) : (Gen.Getvhash bs).toNat = Ref.vhash bs :=
  L_vhash bs hlen

/-- All 256 table entries equal eight steps of the bitwise recurrence (complete finite check). -/
theorem C16_crc_table : ∀ i : Fin 256, (Gen.crc32_table[i.val]!).toNat = crc8 i.val := L_crc_table

/-- The table-driven C loop computes the bitwise reflected CRC-32 for every byte string. -/
theorem C16_crc (bs : Bytes) : (Gen.crc32_get (Gen.crc32_write 0xFFFFFFFF bs)).toNat = Ref.crc32 bs := L_crc bs

/-- The record CRC (three `write` calls over header[4:], key, body; empty parts skipped)
    is the CRC of the concatenation. -/
theorem C16_crc_chunked (header key body : Bytes) (hk : key.length < 2^63) (hb : body.length < 2^63) :
    (Gen.getCRC header key body).toNat = Ref.crc32 (header.drop 4 ++ key ++ body) :=
  L_crc_chunked header key body hk hb

/-! Non-vacuity / pinning: the references evaluate to the published test vectors, and the
    signed-byte quirk is visible (a byte ≥ 0x80 where signed ≠ unsigned FNV). -/
example : Ref.crc32 "123456789".toUTF8.toList = 0xCBF43926 := by decide +kernel
example : Ref.murmur3_32 "The quick brown fox jumps over the lazy dog".toUTF8.toList = 0x2e4ff723 := by decide +kernel
example : Ref.murmur3_32 [] = 0 := by decide +kernel
example : Ref.fnv1aSigned "test".toUTF8.toList = 2949673445 := by decide +kernel
example : Ref.fnv1aSigned [0x80] ≠ ((2166136261 ^^^ 0x80) * 16777619) % 2^32 := by decide +kernel
example : (Gen.Getvhash (List.replicate 2000 65)).toNat = Ref.vhash (List.replicate 2000 65) := by
  exact C16_vhash _ (by rw [List.length_replicate]; decide)
