/-
  Reference definitions of the historical beansdb hashes, written in plain `Nat`
  arithmetic from the published algorithms — no Go idiom, no fixed-width types.
  These are what C16 compares the regenerated code (`Gen.*`) against.
-/
import GoBeans.GoSem

namespace Ref

/-- a byte, sign-extended to 32 bits (the historical `char`-is-signed quirk) -/
def signExt32 (b : UInt8) : Nat := if b.toNat < 128 then b.toNat else b.toNat + (2^32 - 256)

/-- FNV-1a, 32 bit, over sign-extended bytes -/
def fnv1aSigned (bs : Bytes) : Nat :=
  bs.foldl (fun h b => ((h ^^^ signExt32 b) * 16777619) % 2^32) 2166136261

/-- the 16-bit value hash: length*97 + fnv (whole value, or first/last 512 bytes above 1024) -/
def vhash (bs : Bytes) : Nat :=
  let n := bs.length
  if n ≤ 1024 then (n * 97 + fnv1aSigned bs) % 2^16
  else ((n * 97 + fnv1aSigned (bs.take 512)) * 97 + fnv1aSigned (bs.drop (n - 512))) % 2^16

/-- one bit-step of the reflected CRC-32 (polynomial 0xEDB88320) -/
def crcBit (c : Nat) : Nat := if c % 2 = 1 then (c / 2) ^^^ 0xEDB88320 else c / 2

def crcByte (c : Nat) (b : UInt8) : Nat :=
  crcBit (crcBit (crcBit (crcBit (crcBit (crcBit (crcBit (crcBit (c ^^^ b.toNat))))))))

/-- CRC-32 (IEEE 802.3, zlib): init 0xFFFFFFFF, reflected, final xor 0xFFFFFFFF -/
def crc32 (bs : Bytes) : Nat := (bs.foldl crcByte 0xFFFFFFFF) ^^^ 0xFFFFFFFF

/-! MurmurHash3 x86_32, seed 0 (Appleby), in Nat arithmetic mod 2^32 -/

def rotl32 (x r : Nat) : Nat := ((x * 2^r) % 2^32) ||| (x / 2^(32 - r))

def mmK (k : Nat) : Nat := (rotl32 ((k * 0xcc9e2d51) % 2^32) 15 * 0x1b873593) % 2^32

def mmBlock (h k : Nat) : Nat := ((rotl32 (h ^^^ mmK k) 13) * 5 + 0xe6546b64) % 2^32

def le32 (a b c d : UInt8) : Nat := a.toNat + 256 * b.toNat + 65536 * c.toNat + 16777216 * d.toNat

def mmBody : Nat → Bytes → Nat × Bytes
  | h, a :: b :: c :: d :: rest => mmBody (mmBlock h (le32 a b c d)) rest
  | h, tail => (h, tail)

def mmTail (h : Nat) : Bytes → Nat
  | [a] => h ^^^ mmK a.toNat
  | [a, b] => h ^^^ mmK (a.toNat + 256 * b.toNat)
  | [a, b, c] => h ^^^ mmK (a.toNat + 256 * b.toNat + 65536 * c.toNat)
  | _ => h

def fmix32 (h : Nat) : Nat :=
  let h := h ^^^ (h / 2^16)
  let h := (h * 0x85ebca6b) % 2^32
  let h := h ^^^ (h / 2^13)
  let h := (h * 0xc2b2ae35) % 2^32
  h ^^^ (h / 2^16)

def murmur3_32 (bs : Bytes) : Nat :=
  let (h, tail) := mmBody 0 bs
  fmix32 ((mmTail h tail) ^^^ bs.length)

/-- the 64-bit key hash: fnv1a (signed bytes) in the high half, murmur3 in the low half -/
def keyHash (bs : Bytes) : Nat := fnv1aSigned bs * 2^32 + murmur3_32 bs

end Ref

namespace Ref
/-- the murmur3 library result as the Go code sees it (a `uint32`).  The library lives outside
    /repo; this model of it is tied to the real function by the `hash` correspondence engine. -/
def murmurU32 (bs : Bytes) : UInt32 := (murmur3_32 bs).toUInt32
end Ref
