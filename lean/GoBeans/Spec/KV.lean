/-
  L0 — the reference specification of the key-value behaviour (C01, C02, C03, C13 oracle):
  a plain map  Key → Entry  with the documented version arithmetic.  It knows nothing of
  files, buffers, key hashes, trees or hints.  Short enough to be read in minutes.
-/
import GoBeans.GoSem
import GoBeans.Spec.Hash
import GoBeans.Model.AMap

namespace Spec

abbrev Key := Bytes

structure Entry where
  ver  : Int                -- > 0 live, < 0 tombstone
  flag : Nat
  body : Bytes
  ts   : Option Nat         -- `none`: stamped by the server clock (delete, incr) — not compared
deriving DecidableEq, Repr

inductive Reply
  | stored | notStored | deleted | notFound | miss
  | value (flag : Nat) (body : Bytes)
  | num (n : Int)
  | info (ver : Int) (vhash : Nat) (flag : Nat) (len : Nat) (ts : Option Nat)
  | error
deriving DecidableEq, Repr

inductive Cmd
  | set (k : Key) (body : Bytes) (flag : Nat) (rev : Int) (ts : Nat)
  | delete (k : Key)
  | incr (k : Key) (delta : Int)
  | get (k : Key)
  | info (k : Key)
deriving Repr

structure Cfg where
  checkVHash : Bool := false
deriving Repr

abbrev KV := List (Key × Entry)

def FLAG_INCR : Nat := 0x204

/-- documented version arithmetic: auto-increment on 0, negated increment on delete (rev < 0),
    an explicit revision accepted only if larger in absolute value -/
def nextVersion (oldv rev : Int) : Int × Bool :=
  if rev = 0 then (oldv.natAbs + 1, true)
  else if rev < 0 then (-(oldv.natAbs : Int) - 1, true)
  else if rev.natAbs ≤ oldv.natAbs then (1, false)
  else (rev, true)

/-- one decimal digit more -/
def digitStep (acc : Option Nat) (c : UInt8) : Option Nat :=
  match acc with
  | none => none
  | some n => if 48 ≤ c.toNat ∧ c.toNat ≤ 57 then some (n * 10 + (c.toNat - 48)) else none

/-- a non-empty string of decimal digits -/
def digitsVal (ds : Bytes) : Option Nat := if ds.isEmpty then none else ds.foldl digitStep (some 0)

/-- decimal integer as Go's strconv.Atoi reads it (optional sign, digits only), within int64 -/
def parseInt (b : Bytes) : Option Int :=
  let r : Option Int := match b with
    | [] => none
    | c :: ds =>
      if c = 43 then (digitsVal ds).map Int.ofNat                       -- '+'
      else if c = 45 then (digitsVal ds).map (fun n => - Int.ofNat n)   -- '-'
      else (digitsVal (c :: ds)).map Int.ofNat
  match r with
  | some v => if -9223372036854775808 ≤ v ∧ v ≤ 9223372036854775807 then some v else none
  | none => none

/-- decimal digits, most significant first (fuel 40: exact for n < 10^40, far beyond Go's 64-bit ints) -/
def natDigitsAux : Nat → Nat → Bytes → Bytes
  | 0, _, acc => acc
  | fuel + 1, n, acc =>
    let d := (48 + n % 10).toUInt8
    if n < 10 then d :: acc else natDigitsAux fuel (n / 10) (d :: acc)
def natDigits (n : Nat) : Bytes := natDigitsAux 40 n []
def itoa (v : Int) : Bytes := if v < 0 then 45 :: natDigits v.natAbs else natDigits v.natAbs

/-- Go `int` addition on amd64 wraps around -/
def wrap64 (v : Int) : Int := (Int64.ofInt v).toInt

def step (cfg : Cfg) (m : KV) : Cmd → KV × Reply
  | .set k body flag rev ts =>
    match AMap.get m k with
    | none =>
      let (v, ok) := nextVersion 0 rev
      if ok then (AMap.set m k { ver := v, flag := flag, body := body, ts := some ts }, .stored) else (m, .stored)
    | some e =>
      if cfg.checkVHash ∧ e.ver > 0 ∧ Ref.vhash e.body = Ref.vhash body then
        -- documented: "not really set if vhash is the same"; an explicit revision still replaces the version
        (if rev ≠ 0 then AMap.set m k { e with ver := rev } else m, .stored)
      else
        let (v, ok) := nextVersion e.ver rev
        if ok then (AMap.set m k { ver := v, flag := flag, body := body, ts := some ts }, .stored) else (m, .stored)
  | .delete k =>
    match AMap.get m k with
    | none => (m, .notFound)
    | some e =>
      if e.ver < 0 then (m, .notFound)
      else if cfg.checkVHash ∧ e.ver > 0 ∧ Ref.vhash e.body = 0 then
        -- check_vhash corner: a delete request carries value hash 0, so a stored value whose hash is 0
        -- takes the "same value" shortcut: the version becomes -1 without a tombstone being written
        -- (reported separately as finding C01/delete-not-written)
        (AMap.set m k { e with ver := -1 }, .deleted)
      else (AMap.set m k { ver := -(e.ver.natAbs : Int) - 1, flag := 0, body := [], ts := none }, .deleted)
  | .incr k delta =>
    let write (ver : Int) (v : Int) : KV × Reply :=
      (AMap.set m k { ver := ver, flag := FLAG_INCR, body := itoa v, ts := none }, .num v)
    match AMap.get m k with
    | none => write 1 delta
    | some e =>
      if e.ver < 0 then write 1 delta
      else if e.flag ≠ FLAG_INCR then (m, .num 0)
      else if e.body.length > 22 then (m, .num 0)
      else match parseInt e.body with
        | none => (m, .num 0)
        | some old => write (e.ver + 1) (wrap64 (old + delta))
  | .get k =>
    match AMap.get m k with
    | some e => if e.ver > 0 then (m, .value e.flag e.body) else (m, .miss)
    | none => (m, .miss)
  | .info k =>
    match AMap.get m k with
    | some e => (m, .info e.ver (if e.ver > 0 then Ref.vhash e.body else 0) e.flag e.body.length e.ts)
    | none => (m, .miss)

/-- what a tree rebuild does to the reference: tombstones are intentionally dropped (C02) -/
def dropTombstones (m : KV) : KV := m.filter (fun p => decide (p.2.ver > 0))

def run (cfg : Cfg) : KV → List Cmd → KV × List Reply
  | m, [] => (m, [])
  | m, c :: cs =>
    let (m', r) := step cfg m c
    let (m'', rs) := run cfg m' cs
    (m'', r :: rs)

end Spec
