/-
  GC beside clients: the history invariant, generic in the predicate `P pc out` that says what a thread that has been
  linearised and has not returned yet is going to return (under GC a reader may ALSO end in an error).  The three
  lemmas are `ConcFine.hist_same / hist_log / hist_respond` with `PendPC` abstracted; `hist_drop`: a failing read is
  taken out of the history.  Core-only.
-/
import GoBeans.Lemmas.ConcGCSInv

namespace ConcGC
open ConcFine
open Conc (AOp Out Ev Reg regStep)

structure HInvP (P : PC → Out → Prop) (s : ConcFine.State) : Prop where
  outs : ∀ k, regRun {} (opsOf (keyHist s k)) = outsOf (keyHist s k)
  reg : ∀ k, regFold {} (opsOf (keyHist s k)) = absReg s k
  lin : s.hist.Pairwise (fun a b => a.ev.lin < b.ev.lin)
  times : ∀ e ∈ s.hist, e.ev.inv < e.ev.lin ∧ e.ev.lin < s.clock ∧ (e.done = true → e.ev.lin < e.ev.resp)
  pend : ∀ e ∈ s.hist, e.done = false → P (s.thr e.tid).pc e.ev.out
  inv : ∀ u, (s.thr u).pc ≠ .idle → (s.thr u).inv < s.clock

/-- a micro-step that records nothing -/
theorem hist_sameP {P P' : PC → Out → Prop} {s s' : ConcFine.State} (t : Nat) (hi : HInvP P s) (hh : s'.hist = s.hist) (hclk : s'.clock = s.clock)
    (hthr : ∀ u, u ≠ t → s'.thr u = s.thr u) (hinv : (s'.thr t).pc ≠ .idle → (s'.thr t).inv < s.clock + 1)
    (hpo : ∀ u, u ≠ t → ∀ o, P (s.thr u).pc o → P' (s.thr u).pc o) (hreg : ∀ k, absReg s' k = absReg s k)
    (hpend : ∀ out, P (s.thr t).pc out → P' (s'.thr t).pc out) : HInvP P' s'.tick := by
  have hk : ∀ k, keyHist s'.tick k = keyHist s k := by intro k; unfold keyHist; show s'.hist.filter _ = _; rw [hh]
  refine ⟨?_, ?_, ?_, ?_, ?_, ?_⟩
  · intro k; rw [hk]; exact hi.outs k
  · intro k; rw [hk]; exact (hi.reg k).trans (hreg k).symm
  · show s'.hist.Pairwise _; rw [hh]; exact hi.lin
  · intro e he
    have he' : e ∈ s.hist := by rw [← hh]; exact he
    have := hi.times e he'
    show _ ∧ e.ev.lin < s'.clock + 1 ∧ _
    rw [hclk]; exact ⟨this.1, by omega, this.2.2⟩
  · intro e he hd
    have he' : e ∈ s.hist := by rw [← hh]; exact he
    have := hi.pend e he' hd
    show P' (s'.thr e.tid).pc e.ev.out
    by_cases hu : e.tid = t
    · rw [hu] at this ⊢; exact hpend _ this
    · rw [hthr _ hu]; exact hpo _ hu _ this
  · intro u hne
    have hne : (s'.thr u).pc ≠ .idle := hne
    show (s'.thr u).inv < s'.clock + 1
    rw [hclk]
    by_cases hu : u = t
    · subst hu; exact hinv hne
    · rw [hthr u hu] at hne ⊢; have := hi.inv u hne; omega

/-- a linearisation micro-step -/
theorem hist_logP {P P' : PC → Out → Prop} {s s' : ConcFine.State} (t k : Nat) (op : AOp) (out : Out) (hi : HInvP P s)
    (hh : s'.hist = s.hist ++ [mkEntry t k op (s.thr t).inv out s.clock])
    (hclk : s'.clock = s.clock) (hthr : ∀ u, u ≠ t → s'.thr u = s.thr u)
    (hne : (s.thr t).pc ≠ .idle) (hinv : (s'.thr t).inv = (s.thr t).inv)
    (hpo : ∀ u, u ≠ t → ∀ o, P (s.thr u).pc o → P' (s.thr u).pc o)
    (hout : out = (regStep (absReg s k) op).2) (hreg1 : absReg s' k = (regStep (absReg s k) op).1)
    (hreg2 : ∀ k', k' ≠ k → absReg s' k' = absReg s k')
    (hpre : ∀ o, ¬ P (s.thr t).pc o) (hpost : P' (s'.thr t).pc out) :
    HInvP P' s'.tick := by
  have hk : ∀ k', keyHist s'.tick k' = keyHist s k' ++ (if k = k' then [mkEntry t k op (s.thr t).inv out s.clock] else []) := by
    intro k'; unfold keyHist; show s'.hist.filter _ = _; rw [hh, keyHist_append, mkEntry_key]
  refine ⟨?_, ?_, ?_, ?_, ?_, ?_⟩
  · intro k'
    rw [hk]
    by_cases hkk : k = k'
    · subst hkk
      simp only [if_true, opsOf, outsOf, List.map_append, List.map_cons, List.map_nil]
      rw [regRun_append]
      have h1 := hi.outs k
      have h2 := hi.reg k
      simp only [opsOf, outsOf] at h1 h2
      rw [h1, h2]
      simp only [regRun, hout, mkEntry_op, mkEntry_out]
    · simp only [hkk, if_false, List.append_nil]; exact hi.outs k'
  · intro k'
    rw [hk]
    by_cases hkk : k = k'
    · subst hkk
      simp only [if_true, opsOf, List.map_append, List.map_cons, List.map_nil]
      rw [regFold_append]
      have h2 := hi.reg k
      simp only [opsOf] at h2
      rw [h2]
      simp only [regFold, List.foldl_cons, List.foldl_nil]
      exact hreg1.symm
    · simp only [hkk, if_false, List.append_nil]
      exact (hi.reg k').trans (hreg2 k' (fun e => hkk e.symm)).symm
  · show s'.hist.Pairwise _
    rw [hh, List.pairwise_append]
    refine ⟨hi.lin, List.pairwise_singleton _ _, ?_⟩
    intro a ha b hb
    rw [List.mem_singleton] at hb
    subst hb
    exact (hi.times a ha).2.1
  · intro e he
    have he' : e ∈ s'.hist := he
    rw [hh] at he'
    show _ ∧ e.ev.lin < s'.clock + 1 ∧ _
    rw [hclk]
    rcases List.mem_append.mp he' with h1 | h1
    · have := hi.times e h1; exact ⟨this.1, by omega, this.2.2⟩
    · rw [List.mem_singleton] at h1
      subst h1
      have := hi.inv t hne
      exact ⟨this, Nat.lt_succ_self _, by simp [mkEntry]⟩
  · intro e he hd
    have he' : e ∈ s'.hist := he
    rw [hh] at he'
    show P' (s'.thr e.tid).pc e.ev.out
    rcases List.mem_append.mp he' with h1 | h1
    · have := hi.pend e h1 hd
      by_cases hu : e.tid = t
      · rw [hu] at this; exact absurd this (hpre _)
      · rw [hthr _ hu]; exact hpo _ hu _ this
    · rw [List.mem_singleton] at h1
      subst h1
      exact hpost
  · intro u hne'
    have hne' : (s'.thr u).pc ≠ .idle := hne'
    show (s'.thr u).inv < s'.clock + 1
    rw [hclk]
    by_cases hu : u = t
    · subst hu; rw [hinv]; have := hi.inv u hne; omega
    · rw [hthr u hu] at hne' ⊢; have := hi.inv u hne'; omega

/-- a response micro-step: the open entry of the thread is completed with what the thread actually returns -/
theorem hist_respondP {P P' : PC → Out → Prop} {s s' : ConcFine.State} (t : Nat) (out : Out) (hi : HInvP P s)
    (hh : s'.hist = s.hist.map (complete t s.clock out))
    (hclk : s'.clock = s.clock) (hthr : ∀ u, u ≠ t → s'.thr u = s.thr u) (hidle : (s'.thr t).pc = .idle)
    (hpo : ∀ u, u ≠ t → ∀ o, P (s.thr u).pc o → P' (s.thr u).pc o) (hreg : ∀ k, absReg s' k = absReg s k)
    (hout : ∀ o, P (s.thr t).pc o → o = out) : HInvP P' s'.tick := by
  -- the completion changes `done` and `resp` only
  have hc : ∀ e ∈ s.hist, (complete t s.clock out e).key = e.key ∧ (complete t s.clock out e).tid = e.tid ∧
      (complete t s.clock out e).ev.op = e.ev.op ∧ (complete t s.clock out e).ev.out = e.ev.out ∧
      (complete t s.clock out e).ev.lin = e.ev.lin ∧ (complete t s.clock out e).ev.inv = e.ev.inv := by
    intro e he
    unfold complete
    by_cases hp : e.tid = t ∧ e.done = false
    · rw [if_pos hp]
      have := hi.pend e he hp.2
      rw [hp.1] at this
      exact ⟨rfl, rfl, rfl, (hout _ this).symm, rfl, rfl⟩
    · rw [if_neg hp]; exact ⟨rfl, rfl, rfl, rfl, rfl, rfl⟩
  have hk : ∀ k, keyHist s'.tick k = (keyHist s k).map (complete t s.clock out) := by
    intro k; unfold keyHist; show s'.hist.filter _ = _
    rw [hh]; exact filter_map_key _ _ _ (fun e he => (hc e he).1)
  have hops : ∀ k, opsOf (keyHist s'.tick k) = opsOf (keyHist s k) := by
    intro k; rw [hk]; unfold opsOf
    rw [List.map_map]
    apply List.map_congr_left
    intro e he
    exact (hc e (List.mem_filter.mp he).1).2.2.1
  have houts : ∀ k, outsOf (keyHist s'.tick k) = outsOf (keyHist s k) := by
    intro k; rw [hk]; unfold outsOf
    rw [List.map_map]
    apply List.map_congr_left
    intro e he
    exact (hc e (List.mem_filter.mp he).1).2.2.2.1
  refine ⟨?_, ?_, ?_, ?_, ?_, ?_⟩
  · intro k; rw [hops, houts]; exact hi.outs k
  · intro k; rw [hops]; exact (hi.reg k).trans (hreg k).symm
  · show s'.hist.Pairwise _
    rw [hh, List.pairwise_map]
    refine hi.lin.imp_of_mem ?_
    intro a b ha hb hab
    rw [(hc a ha).2.2.2.2.1, (hc b hb).2.2.2.2.1]; exact hab
  · intro e he
    have he' : e ∈ s'.hist := he
    rw [hh] at he'
    obtain ⟨e0, h0, rfl⟩ := List.mem_map.mp he'
    have ht := hi.times e0 h0
    show _ ∧ _ < s'.clock + 1 ∧ _
    rw [hclk, (hc e0 h0).2.2.2.2.1, (hc e0 h0).2.2.2.2.2]
    refine ⟨ht.1, by omega, ?_⟩
    unfold complete
    by_cases hp : e0.tid = t ∧ e0.done = false
    · simp only [hp, and_self, if_true]; intro _; exact ht.2.1
    · simp only [hp, if_false]; exact ht.2.2
  · intro e he hd
    have he' : e ∈ s'.hist := he
    rw [hh] at he'
    obtain ⟨e0, h0, rfl⟩ := List.mem_map.mp he'
    show P' (s'.thr (complete t s.clock out e0).tid).pc (complete t s.clock out e0).ev.out
    rw [(hc e0 h0).2.1, (hc e0 h0).2.2.2.1]
    have hnt : e0.tid ≠ t ∧ e0.done = false := by
      unfold complete at hd
      by_cases hp : e0.tid = t ∧ e0.done = false
      · simp [hp] at hd
      · simp only [hp, if_false] at hd
        exact ⟨fun e => hp ⟨e, hd⟩, hd⟩
    rw [hthr _ hnt.1]
    exact hpo _ hnt.1 _ (hi.pend e0 h0 hnt.2)
  · intro u hne
    have hne : (s'.thr u).pc ≠ .idle := hne
    show (s'.thr u).inv < s'.clock + 1
    rw [hclk]
    by_cases hu : u = t
    · subst hu; exact absurd hidle hne
    · rw [hthr u hu] at hne ⊢; have := hi.inv u hne; omega

/-- an operation whose recorded outcome is a `got` is a read -/
theorem op_of_got (es : List HEv) : ∀ r : Reg, regRun r (opsOf es) = outsOf es →
    ∀ e ∈ es, (∃ v n, e.ev.out = .got v n) → e.ev.op = .read := by
  induction es with
  | nil => intro r _ e he; simp at he
  | cons a es ih =>
    intro r h e he hg
    simp only [opsOf, outsOf, List.map_cons, regRun, List.cons.injEq] at h
    rcases List.mem_cons.mp he with rfl | he
    · obtain ⟨v, n, hv⟩ := hg
      rw [hv] at h
      cases hop : e.ev.op with
      | read => rfl
      | write w => rw [hop] at h; simp [regStep] at h
      | delete => rw [hop] at h; simp only [regStep] at h; split at h <;> simp at h
    · exact ih _ h.2 e he hg

/-- taking reads out of a run of the register changes neither the other outcomes nor the register reached -/
theorem regRun_filter_reads (p : HEv → Bool) (es : List HEv) : ∀ r : Reg,
    (∀ e ∈ es, p e = false → e.ev.op = .read) → regRun r (opsOf es) = outsOf es →
    regRun r (opsOf (es.filter p)) = outsOf (es.filter p) ∧ regFold r (opsOf (es.filter p)) = regFold r (opsOf es) := by
  induction es with
  | nil => intro r _ _; exact ⟨rfl, rfl⟩
  | cons a es ih =>
    intro r hp h
    simp only [opsOf, outsOf, List.map_cons, regRun, List.cons.injEq] at h
    have ih' := ih (regStep r a.ev.op).1 (fun e he => hp e (List.mem_cons_of_mem _ he)) h.2
    cases hpa : p a with
    | true =>
      simp only [List.filter_cons, hpa, if_true, opsOf, outsOf, List.map_cons, regRun, regFold, List.foldl_cons]
      exact ⟨by rw [h.1]; congr 1; exact ih'.1, ih'.2⟩
    | false =>
      have hrd := hp a List.mem_cons_self hpa
      have hr : (regStep r a.ev.op).1 = r := by rw [hrd]; rfl
      rw [hr] at ih'
      simp only [List.filter_cons, hpa, Bool.false_eq_true, if_false, opsOf, List.map_cons, regFold, List.foldl_cons, hr]
      exact ih'

def dropP (t : Nat) (e : HEv) : Bool := !(decide (e.tid = t) && !e.done)

theorem filter_comm (l : List HEv) (p q : HEv → Bool) : (l.filter p).filter q = (l.filter q).filter p := by
  simp only [List.filter_filter]
  congr 1
  funext x
  exact Bool.and_comm _ _

/-- a get that fails: its open entry (a read) leaves the history -/
theorem hist_dropP {P P' : PC → Out → Prop} {s s' : ConcFine.State} (t : Nat) (hi : HInvP P s)
    (hh : s'.hist = s.hist.filter (dropP t)) (hclk : s'.clock = s.clock)
    (hthr : ∀ u, u ≠ t → s'.thr u = s.thr u) (hidle : (s'.thr t).pc = .idle)
    (hpo : ∀ u, u ≠ t → ∀ o, P (s.thr u).pc o → P' (s.thr u).pc o) (hreg : ∀ k, absReg s' k = absReg s k)
    (hgot : ∀ e ∈ s.hist, e.tid = t → e.done = false → ∃ v n, e.ev.out = .got v n) : HInvP P' s'.tick := by
  have hk : ∀ k, keyHist s'.tick k = (keyHist s k).filter (dropP t) := by
    intro k; unfold keyHist; show s'.hist.filter _ = _
    rw [hh]; exact filter_comm _ _ _
  have hrd : ∀ k, ∀ e ∈ keyHist s k, dropP t e = false → e.ev.op = .read := by
    intro k e he hp
    have hm : e ∈ s.hist := (List.mem_filter.mp he).1
    simp only [dropP, Bool.not_eq_false', Bool.and_eq_true, decide_eq_true_eq, Bool.not_eq_true'] at hp
    exact op_of_got _ _ (hi.outs k) e he (hgot e hm hp.1 hp.2)
  refine ⟨?_, ?_, ?_, ?_, ?_, ?_⟩
  · intro k; rw [hk]; exact (regRun_filter_reads _ _ _ (hrd k) (hi.outs k)).1
  · intro k; rw [hk, (regRun_filter_reads _ _ _ (hrd k) (hi.outs k)).2]; exact (hi.reg k).trans (hreg k).symm
  · show s'.hist.Pairwise _; rw [hh]; exact hi.lin.sublist List.filter_sublist
  · intro e he
    have he' : e ∈ s.hist := by
      have : e ∈ s'.hist := he
      rw [hh] at this; exact (List.mem_filter.mp this).1
    have := hi.times e he'
    show _ ∧ e.ev.lin < s'.clock + 1 ∧ _
    rw [hclk]; exact ⟨this.1, by omega, this.2.2⟩
  · intro e he hd
    have he1 : e ∈ s'.hist := he
    rw [hh] at he1
    obtain ⟨he', hp⟩ := List.mem_filter.mp he1
    have hnt : e.tid ≠ t := by
      intro e1
      simp [dropP, e1, hd] at hp
    show P' (s'.thr e.tid).pc e.ev.out
    rw [hthr _ hnt]
    exact hpo _ hnt _ (hi.pend e he' hd)
  · intro u hne
    have hne : (s'.thr u).pc ≠ .idle := hne
    show (s'.thr u).inv < s'.clock + 1
    rw [hclk]
    by_cases hu : u = t
    · subst hu; exact absurd hidle hne
    · rw [hthr u hu] at hne ⊢; have := hi.inv u hne; omega

end ConcGC
