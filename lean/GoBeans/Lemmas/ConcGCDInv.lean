/-
  GC beside clients: every GC micro-step preserves the data invariant `DInv` (conditional repoint).  Core-only.
-/
import GoBeans.Lemmas.ConcGCEff

namespace ConcGC
open ConcFine

/-- a stored record survives a GC micro-step unless it lies in the source file that is being removed -/
theorem gmicro_keeps {cfg : GCfg} {s s' : State} (hc : GCtl s) (hk : GChk s) (hz : noHaz s')
    (h : gmicro cfg s = some s') (c : Nat) (r : Rec) (hr : Stored (s.base.chunks c) r)
    (hne : ¬ (s.gc.pc = .gRemove ∧ c = s.gc.src)) : Stored (s'.base.chunks c) r := by
  rcases gmicro_chunk_cases hc hk hz h with h1 | ⟨r0, f, off, hpc, _, _, h1⟩ | ⟨hpc, h1⟩
  · unfold Stored; rw [(h1 c).1, (h1 c).2]; exact hr
  · unfold Stored; rw [(h1 c).1, (h1 c).2]
    rcases hr with hr | hr
    · left; by_cases hcd : c = s.gc.dst
      · subst hcd; simp only [if_true]; exact List.mem_append_left _ hr
      · simp only [hcd, if_false]; exact hr
    · exact Or.inr hr
  · unfold Stored; rw [(h1 c).1, (h1 c).2]
    have hcs : c ≠ s.gc.src := fun e => hne ⟨hpc, e⟩
    simp only [hcs, if_false]; exact hr

/-- what a GC micro-step can add: a copy of a record of the source file -/
theorem gmicro_new {cfg : GCfg} {s s' : State} (hc : GCtl s) (hk : GChk s) (hz : noHaz s')
    (h : gmicro cfg s = some s') (c : Nat) (r : Rec) (hr : Stored (s'.base.chunks c) r) :
    Stored (s.base.chunks c) r ∨ ∃ r0 off, r0 ∈ (s.base.chunks s.gc.src).file ∧ r = { r0 with off := off } := by
  rcases gmicro_chunk_cases hc hk hz h with h1 | ⟨r0, f, off, hpc, hr0, _, h1⟩ | ⟨hpc, h1⟩
  · unfold Stored at hr; rw [(h1 c).1, (h1 c).2] at hr; exact Or.inl hr
  · unfold Stored at hr; rw [(h1 c).1, (h1 c).2] at hr
    rcases hr with hr | hr
    · by_cases hcd : c = s.gc.dst
      · subst hcd; simp only [if_true] at hr
        rcases List.mem_append.mp hr with hr | hr
        · exact Or.inl (Or.inl hr)
        · right; exact ⟨r0, off, hr0, by simpa using hr⟩
      · simp only [hcd, if_false] at hr; exact Or.inl (Or.inl hr)
    · exact Or.inl (Or.inr hr)
  · unfold Stored at hr; rw [(h1 c).1, (h1 c).2] at hr
    rcases hr with hr | hr
    · by_cases hcs : c = s.gc.src
      · simp [hcs] at hr
      · simp only [hcs, if_false] at hr; exact Or.inl (Or.inl hr)
    · exact Or.inl (Or.inr hr)

/-- a tree item keeps its stored record over a GC micro-step (no item points into the file being removed) -/
theorem gmicro_item_kept {cfg : GCfg} {s s' : State} (hc : GCtl s) (hk : GChk s) (ht : GTree s) (hz : noHaz s')
    (h : gmicro cfg s = some s') {k : Nat} {it : Item} (hit : s.base.tree k = some it) {r : Rec}
    (hr : StoredAt s.base.chunks it.pos r) : StoredAt s'.base.chunks it.pos r := by
  refine ⟨gmicro_keeps hc hk hz h _ r hr.1 ?_, hr.2⟩
  rintro ⟨hpc, hcs⟩
  obtain ⟨r', hr', _⟩ := ht.g2 (by rw [hpc]; rfl) k it hit hcs
  simp [rem, hpc] at hr'

theorem gmicro_dinv {cfg : GCfg} {s s' : State} (hb : cfg.blind = false) (hc : GCtl s) (hk : GChk s) (ht : GTree s)
    (hd : DInv s) (hz : noHaz s') (h : gmicro cfg s = some s') : DInv s' := by
  obtain ⟨c1, c2, c3⟩ := gmicro_const h
  obtain ⟨t1, t2, _⟩ := gmicro_thr h
  have hX : ∀ c, X s' c ↔ X s c := X_congr c1 c2
  have hst : s.gc.started = true := by
    cases hs : s.gc.started with
    | true => rfl
    | false => simp [gmicro, hc.idle hs] at h
  -- the tree: same items, or one item repointed to the copy
  have htree : ∀ k it', s'.base.tree k = some it' → (∃ it, s.base.tree k = some it ∧ it'.ver = it.ver) ∧
      ∃ r, StoredAt s'.base.chunks it'.pos r ∧ r.key = k ∧ r.ver = it'.ver := by
    intro k it' hit'
    rcases gmicro_tree_cases h with he | ⟨r, off, it, hpc, hit, hcnd, he⟩
    · rw [he] at hit'
      obtain ⟨r0, h1, h2⟩ := hd.tree k it' hit'
      exact ⟨⟨it', hit', rfl⟩, r0, gmicro_item_kept hc hk ht hz h hit' h1, h2⟩
    · rw [he] at hit'
      by_cases hkk : k = r.key
      · simp only [hkk, if_true] at hit'
        obtain rfl := Option.some.inj hit'
        refine ⟨⟨it, by rw [hkk]; exact hit, rfl⟩, { r with off := off }, ?_, hkk.symm, ?_⟩
        · have hm := hk.mv r off hpc
          have hxd : s.gc.dst ≠ s.gc.src := by
            have := (hc.src hst).1
            rcases hc.dst hst with h1 | ⟨h1, _⟩
            · omega
            · rw [hpc] at h1; simp at h1
          exact ⟨gmicro_keeps hc hk hz h _ _ (Or.inl hm) (fun hh => by rw [hpc] at hh; simp at hh), rfl⟩
        · have hp : it.pos = ⟨s.gc.src, r.off⟩ := by
            rcases hcnd with hcnd | hcnd
            · rw [hb] at hcnd; contradiction
            · exact hcnd
          have hxs : X s s.gc.src := by rw [X_iff]; exact ⟨hst, hc.srcp (Or.inl (by rw [hpc]; rfl))⟩
          exact (item_of_rec hk hd hxs (hk.remIn r (by simp [rem, hpc])) hit hp).2.symm
      · simp only [hkk, if_false] at hit'
        obtain ⟨r0, h1, h2⟩ := hd.tree k it' hit'
        exact ⟨⟨it', hit', rfl⟩, r0, gmicro_item_kept hc hk ht hz h hit' h1, h2⟩
  have hnone : ∀ k, s'.base.tree k = none ↔ s.base.tree k = none := by
    intro k
    rcases gmicro_tree_cases h with he | ⟨r, off, it, hpc, hit, hcnd, he⟩
    · rw [he]
    · rw [he]
      by_cases hkk : k = r.key
      · simp [hkk, hit]
      · simp [hkk]
  have hold : ∀ k, oldVer s'.base k = oldVer s.base k := by
    intro k
    unfold oldVer
    cases hit' : s'.base.tree k with
    | none => rw [(hnone k).1 hit']
    | some it' =>
      obtain ⟨⟨it, h1, h2⟩, _⟩ := htree k it' hit'
      rw [h1]; exact h2
  refine ⟨?_, ?_, ?_, ?_, ?_⟩
  · intro c r hr
    rcases gmicro_new hc hk hz h c r hr with h1 | ⟨r0, off, h1, rfl⟩
    · exact hd.recs c r h1
    · exact hd.recs _ r0 (Or.inl h1)
  · intro k it' hit'; exact (htree k it' hit').2
  · intro u
    rw [t1]
    have hwp := hd.wpos u
    refine writerOK_gc hold hnone ?_ hwp (hd.wr u)
    intro pos r _ hpn hsa
    refine ⟨gmicro_keeps hc hk hz h _ r hsa.1 ?_, hsa.2⟩
    rintro ⟨hpc, hcs⟩
    have := hc.srcp (Or.inl (by rw [hpc]; rfl))
    have := (hc.rng hst).2
    omega
  · intro u; rw [t1, t2]; exact hd.wpos u
  · intro u c hf; rw [t1] at hf; rw [hX]; exact hd.fltg u c hf

/-- **GC is invisible, item by item**: after a GC micro-step the item of a key has the version it had, and points at
    a stored record with the value the old item pointed at -/
theorem gmicro_item {cfg : GCfg} {s s' : State} (hb : cfg.blind = false) (hc : GCtl s) (hk : GChk s) (ht : GTree s)
    (hd : DInv s) (hz : noHaz s') (h : gmicro cfg s = some s') {k : Nat} {it' : Item} (hit' : s'.base.tree k = some it') :
    ∃ it r r', s.base.tree k = some it ∧ it'.ver = it.ver ∧ StoredAt s.base.chunks it.pos r ∧
      StoredAt s'.base.chunks it'.pos r' ∧ r'.val = r.val ∧ r.key = k ∧ r.ver = it.ver := by
  have hst : s.gc.started = true := by
    cases hs : s.gc.started with
    | true => rfl
    | false => simp [gmicro, hc.idle hs] at h
  rcases gmicro_tree_cases h with he | ⟨r, off, it, hpc, hit, hcnd, he⟩
  · rw [he] at hit'
    obtain ⟨r0, h1, h2, h3⟩ := hd.tree k it' hit'
    exact ⟨it', r0, r0, hit', rfl, h1, gmicro_item_kept hc hk ht hz h hit' h1, rfl, h2, h3⟩
  · rw [he] at hit'
    by_cases hkk : k = r.key
    · simp only [hkk, if_true] at hit'
      obtain rfl := Option.some.inj hit'
      have hp : it.pos = ⟨s.gc.src, r.off⟩ := by
        rcases hcnd with hcnd | hcnd
        · rw [hb] at hcnd; contradiction
        · exact hcnd
      have hxs : X s s.gc.src := by rw [X_iff]; exact ⟨hst, hc.srcp (Or.inl (by rw [hpc]; rfl))⟩
      have hrf := hk.remIn r (by simp [rem, hpc])
      have hxd : s.gc.dst ≠ s.gc.src := by
        have := (hc.src hst).1
        rcases hc.dst hst with h1 | ⟨h1, _⟩
        · omega
        · rw [hpc] at h1; simp at h1
      refine ⟨it, r, { r with off := off }, by rw [hkk]; exact hit, rfl, ?_, ?_, rfl, hkk.symm, ?_⟩
      · rw [hp]; exact ⟨Or.inl hrf, rfl⟩
      · exact ⟨gmicro_keeps hc hk hz h _ _ (Or.inl (hk.mv r off hpc)) (fun hh => by rw [hpc] at hh; simp at hh), rfl⟩
      · exact (item_of_rec hk hd hxs hrf hit hp).2.symm
    · simp only [hkk, if_false] at hit'
      obtain ⟨r0, h1, h2, h3⟩ := hd.tree k it' hit'
      exact ⟨it', r0, r0, hit', rfl, h1, gmicro_item_kept hc hk ht hz h hit' h1, rfl, h2, h3⟩

theorem gmicro_none {cfg : GCfg} {s s' : State} (h : gmicro cfg s = some s') (k : Nat) :
    s'.base.tree k = none ↔ s.base.tree k = none := by
  rcases gmicro_tree_cases h with he | ⟨r, off, it, hpc, hit, hcnd, he⟩
  · rw [he]
  · rw [he]
    by_cases hkk : k = r.key
    · simp [hkk, hit]
    · simp [hkk]

theorem absReg_of {b : ConcFine.State} {k : Nat} {it : Item} {r : Rec} (hit : b.tree k = some it)
    (hr : StoredAt b.chunks it.pos r) (hrd : Readable (b.chunks it.pos.chunk)) :
    absReg b k = { ver := it.ver.natAbs, val := r.val } := by
  unfold absReg
  rw [hit]
  have := hrd.lookup r hr.1
  rw [hr.2] at this
  simp only [this]

/-- the register of every key is the same before and after a GC micro-step -/
theorem gmicro_absReg {cfg : GCfg} {s s' : State} (hb : cfg.blind = false) (hc : GCtl s) (hk : GChk s) (ht : GTree s)
    (hd : DInv s) (hz : noHaz s') (h : gmicro cfg s = some s')
    (hrd : ∀ c, Readable (s.base.chunks c)) (hrd' : ∀ c, Readable (s'.base.chunks c)) (k : Nat) :
    absReg s'.base k = absReg s.base k := by
  cases hit' : s'.base.tree k with
  | none => rw [absReg_none hit', absReg_none ((gmicro_none h k).1 hit')]
  | some it' =>
    obtain ⟨it, r, r', h1, h2, h3, h4, h5, _⟩ := gmicro_item hb hc hk ht hd hz h hit'
    rw [absReg_of hit' h4 (hrd' _), absReg_of h1 h3 (hrd _), h2, h5]

end ConcGC
