/-
  Helper lemmas for C01 (and C02/C03 later): appends never disturb existing positions; the bucket
  machine refines the reference map command by command (`Inv`, `*_refines`, `run_refines`).
-/
import GoBeans.Model.Store
import GoBeans.Lemmas.Hash
import GoBeans.Lemmas.Version
set_option linter.unusedSimpArgs false
set_option linter.unusedVariables false
namespace StoreLemmas
open Store Spec

/-- offsets inside a file are below its writing head; files above the head are empty -/
structure PosInv (b : Bucket) : Prop where
  below : ∀ i o r, (o, r) ∈ (b.chunks i).recs → o < (b.chunks i).size
  fresh : ∀ i, b.head < i → (b.chunks i).recs = [] ∧ (b.chunks i).size = 0

theorem find_append_old (recs : List (Nat × Rec)) (x : Nat × Rec) (off : Nat) (r : Rec)
    (h : (recs.find? (fun p => p.1 = off)).map (·.2) = some r) :
    ((recs ++ [x]).find? (fun p => p.1 = off)).map (·.2) = some r := by
  rw [List.find?_append]
  cases hf : recs.find? (fun p => p.1 = off) with
  | none => simp [hf] at h
  | some v => simpa [hf] using h

theorem find_append_new (recs : List (Nat × Rec)) (off : Nat) (r : Rec)
    (h : ∀ o r', (o, r') ∈ recs → o ≠ off) :
    ((recs ++ [(off, r)]).find? (fun p => p.1 = off)).map (·.2) = some r := by
  rw [List.find?_append]
  have : recs.find? (fun p => p.1 = off) = none := by
    rw [List.find?_eq_none]
    intro p hp
    have := h p.1 p.2 hp
    simpa using this
  simp [this]

theorem readAt_setChunk (b : Bucket) (i : Nat) (c : Chunk) (q : Pos) :
    (b.setChunk i c).readAt q = if q.chunk = i then c.find q.off else b.readAt q := by
  unfold Bucket.readAt Bucket.setChunk Bucket.chunk
  by_cases h : q.chunk = i <;> simp [h]

theorem chunks_setChunk (b : Bucket) (i : Nat) (c : Chunk) (j : Nat) :
    (b.setChunk i c).chunks j = if j = i then c else b.chunks j := rfl

theorem sealHead_readAt (b : Bucket) (q : Pos) : b.sealHead.readAt q = b.readAt q := by
  unfold Bucket.sealHead
  rw [readAt_setChunk]
  by_cases h : q.chunk = b.head
  · simp [h, Bucket.readAt, Bucket.chunk, Chunk.find]
  · simp [h]

theorem sealHead_recs (b : Bucket) (j : Nat) :
    (b.sealHead.chunks j).recs = (b.chunks j).recs ∧ (b.sealHead.chunks j).size = (b.chunks j).size := by
  unfold Bucket.sealHead
  rw [chunks_setChunk]
  by_cases h : j = b.head
  · subst h; simp
  · simp [h]

theorem sealHead_posInv (b : Bucket) (hp : PosInv b) : PosInv b.sealHead ∧ b.sealHead.head = b.head ∧ b.sealHead.tree = b.tree := by
  refine ⟨⟨?_, ?_⟩, rfl, rfl⟩
  · intro i o r hm
    rw [(sealHead_recs b i).1] at hm; rw [(sealHead_recs b i).2]; exact hp.below i o r hm
  · intro i hi
    rw [(sealHead_recs b i).1, (sealHead_recs b i).2]
    exact hp.fresh i hi

/-- pushing a record at the writing head of file `ck` (= head, or head+1 which is empty) -/
theorem pushRec_spec (b : Bucket) (ck off : Nat) (r : Rec) (hp : PosInv b) (hs : 0 < r.size)
    (hoff : off = (b.chunks ck).size) (hck : b.head ≤ ck) :
    (b.pushRec ck off r).readAt ⟨ck, off⟩ = some r
    ∧ (∀ q r0, b.readAt q = some r0 → (b.pushRec ck off r).readAt q = some r0)
    ∧ PosInv (b.pushRec ck off r)
    ∧ (b.pushRec ck off r).tree = b.tree := by
  have hra : ∀ q, (b.pushRec ck off r).readAt q =
      if q.chunk = ck then (Chunk.find { b.chunks ck with recs := (b.chunks ck).recs ++ [(off, r)], size := off + r.size } q.off) else b.readAt q := by
    intro q
    have := readAt_setChunk b ck { b.chunks ck with recs := (b.chunks ck).recs ++ [(off, r)], size := off + r.size } q
    simpa [Bucket.pushRec, Bucket.readAt, Bucket.chunk] using this
  refine ⟨?_, ?_, ⟨?_, ?_⟩, rfl⟩
  · rw [hra]; simp only [if_true, Chunk.find]
    apply find_append_new
    intro o r' hm
    have := hp.below _ _ _ hm
    omega
  · intro q r0 hq
    rw [hra]
    by_cases h : q.chunk = ck
    · simp only [h, if_true, Chunk.find]
      apply find_append_old
      simpa [Bucket.readAt, Bucket.chunk, Chunk.find, h] using hq
    · simp [h, hq]
  · intro i o r' hm
    have hc : (b.pushRec ck off r).chunks i = if i = ck then { b.chunks ck with recs := (b.chunks ck).recs ++ [(off, r)], size := off + r.size } else b.chunks i := rfl
    rw [hc] at hm ⊢
    by_cases h : i = ck
    · subst h
      simp at hm ⊢
      rcases hm with hm | hm
      · have := hp.below _ _ _ hm; omega
      · obtain ⟨rfl, _⟩ := hm; omega
    · simp [h] at hm ⊢; exact hp.below _ _ _ hm
  · intro i hi
    have hc : (b.pushRec ck off r).chunks i = if i = ck then { b.chunks ck with recs := (b.chunks ck).recs ++ [(off, r)], size := off + r.size } else b.chunks i := rfl
    have hh : (b.pushRec ck off r).head = ck := rfl
    rw [hh] at hi
    rw [hc]
    have : i ≠ ck := by omega
    simp [this]
    exact hp.fresh i (by omega)

theorem append_spec (cfg : Store.Cfg) (b : Bucket) (r : Rec) (hp : PosInv b) (hs : 0 < r.size) :
    (b.append cfg r).1.readAt (b.append cfg r).2 = some r
    ∧ (∀ q r0, b.readAt q = some r0 → (b.append cfg r).1.readAt q = some r0)
    ∧ PosInv (b.append cfg r).1
    ∧ (b.append cfg r).1.tree = b.tree := by
  unfold Bucket.append Bucket.slot
  by_cases hrot : (b.chunks b.head).size + r.size > cfg.dataFileMax
  · simp only [hrot, ↓reduceIte]
    obtain ⟨hp', hh, ht⟩ := sealHead_posInv b hp
    have hf := hp'.fresh (b.head + 1) (by rw [hh]; omega)
    have := pushRec_spec b.sealHead (b.head + 1) 0 r hp' hs (by rw [hf.2]) (by rw [hh]; omega)
    refine ⟨this.1, ?_, this.2.2.1, by rw [this.2.2.2, ht]⟩
    intro q r0 hq
    exact this.2.1 q r0 (by rw [sealHead_readAt]; exact hq)
  · simp only [hrot, ↓reduceIte]
    exact pushRec_spec b b.head _ r hp hs rfl (Nat.le_refl _)

/-! ### refinement: bucket machine ↔ reference map -/

section Refine
variable (hash : Key → Nat) (K : Key → Prop)

/-- the key hash is injective on the keys of the history (colliding keys: C13) -/
def InjOn : Prop := ∀ k1 k2, K k1 → K k2 → hash k1 = hash k2 → k1 = k2

/-- what the tree slot + record of key `k` say equals the reference entry of `k` -/
def Agree (n : Nat) (b : Bucket) (m : KV) (k : Key) : Prop :=
  (AMap.get b.tree (hash k) = none ∧ AMap.get m k = none) ∨
  (∃ it e r, AMap.get b.tree (hash k) = some it ∧ AMap.get m k = some e ∧ b.readAt it.pos = some r ∧ r.key = k
      ∧ e.ver = it.ver ∧ e.flag = r.flag ∧ e.body = r.body ∧ e.ts = r.ts
      ∧ it.vhash = (if it.ver > 0 then vhashOf r.body else 0) ∧ r.body.length < 2^63 ∧ it.ver.natAbs ≤ n)

structure Inv (n : Nat) (b : Bucket) (m : KV) : Prop where
  pos : PosInv b
  agree : ∀ k, K k → Agree hash n b m k

theorem Agree.mono {n n' : Nat} (h : n ≤ n') {b m k} (a : Agree hash n b m k) : Agree hash n' b m k := by
  rcases a with a | ⟨it, e, r, h1, h2, h3, h4, h5, h6, h7, h8, h9, h10, h11⟩
  · exact Or.inl a
  · exact Or.inr ⟨it, e, r, h1, h2, h3, h4, h5, h6, h7, h8, h9, h10, by omega⟩

theorem vhashOf_eq (body : Bytes) (h : body.length < 2^63) : vhashOf body = Ref.vhash body :=
  HashLemmas.L_vhash body h

/-- writing a record for key `k` = `AMap.set` on the reference map -/
theorem put_inv (cfg : Store.Cfg) (hInj : InjOn hash K) {n n' : Nat} (hn : n ≤ n') {b : Bucket} {m : KV}
    (inv : Inv hash K n b m) (r : Rec) (hk : K r.key) (hs : 0 < r.size) (hb : r.body.length < 2^63)
    (hv : r.ver.natAbs ≤ n') :
    Inv hash K n' (b.put hash cfg r).1 (AMap.set m r.key { ver := r.ver, flag := r.flag, body := r.body, ts := r.ts }) := by
  obtain ⟨h1, h2, h3, h4⟩ := append_spec cfg b r inv.pos hs
  unfold Bucket.put
  constructor
  · exact ⟨h3.below, h3.fresh⟩
  · intro k hkK
    by_cases hkk : r.key = k
    · subst hkk
      refine Or.inr ⟨_, _, r, AMap.get_set_self _ _ _, AMap.get_set_self _ _ _, ?_, rfl, rfl, rfl, rfl, rfl, rfl, hb, hv⟩
      exact h1
    · have hne : hash r.key ≠ hash k := fun e => hkk (hInj _ _ hk hkK e)
      have a := (inv.agree k hkK).mono hash hn
      rcases a with ⟨a1, a2⟩ | ⟨it, e, r0, a1, a2, a3, rest⟩
      · refine Or.inl ⟨?_, ?_⟩
        · show AMap.get (AMap.set (b.append cfg r).1.tree (hash r.key) _) (hash k) = none
          rw [AMap.get_set_ne _ _ _ _ hne, h4]; exact a1
        · rw [AMap.get_set_ne _ _ _ _ hkk]; exact a2
      · refine Or.inr ⟨it, e, r0, ?_, ?_, ?_, rest⟩
        · show AMap.get (AMap.set (b.append cfg r).1.tree (hash r.key) _) (hash k) = some it
          rw [AMap.get_set_ne _ _ _ _ hne, h4]; exact a1
        · rw [AMap.get_set_ne _ _ _ _ hkk]; exact a2
        · exact h2 _ _ a3

/-- `Bucket.lookup` on an agreeing bucket: miss, or the record of `k` with the tree item -/
theorem lookup_of_agree {n : Nat} {b : Bucket} {m : KV} {k : Key} (a : Agree hash n b m k) :
    (AMap.get m k = none ∧ b.lookup hash k = .miss) ∨
    (∃ it e r, AMap.get b.tree (hash k) = some it ∧ AMap.get m k = some e ∧ b.lookup hash k = .found r it ∧ r.key = k
      ∧ e.ver = it.ver ∧ e.flag = r.flag ∧ e.body = r.body ∧ e.ts = r.ts
      ∧ it.vhash = (if it.ver > 0 then vhashOf r.body else 0) ∧ r.body.length < 2^63 ∧ it.ver.natAbs ≤ n) := by
  rcases a with ⟨a1, a2⟩ | ⟨it, e, r, a1, a2, a3, a4, rest⟩
  · left; exact ⟨a2, by simp [Bucket.lookup, a1]⟩
  · right; exact ⟨it, e, r, a1, a2, by simp [Bucket.lookup, a1, a3, a4], a4, rest⟩

theorem get_refines (cfg : Store.Cfg) {n : Nat} {b : Bucket} {m : KV} (inv : Inv hash K n b m) (k : Key) (hk : K k) :
    (Store.step hash cfg b (.get k)).2.1 = (Spec.step { checkVHash := cfg.checkVHash } m (.get k)).2
    ∧ (Store.step hash cfg b (.get k)).1 = b ∧ (Spec.step { checkVHash := cfg.checkVHash } m (.get k)).1 = m := by
  rcases lookup_of_agree hash (inv.agree k hk) with ⟨h1, h2⟩ | ⟨it, e, r, _, h2, h3, _, h5, h6, h7, _⟩
  · simp [Store.step, Spec.step, h1, h2]
  · simp only [Store.step, Spec.step, h2, h3, h5, h6, h7]
    by_cases hv : it.ver > 0 <;> simp [hv]

theorem info_refines (cfg : Store.Cfg) {n : Nat} {b : Bucket} {m : KV} (inv : Inv hash K n b m) (k : Key) (hk : K k) :
    (Store.step hash cfg b (.info k)).2.1 = (Spec.step { checkVHash := cfg.checkVHash } m (.info k)).2
    ∧ (Store.step hash cfg b (.info k)).1 = b ∧ (Spec.step { checkVHash := cfg.checkVHash } m (.info k)).1 = m := by
  rcases lookup_of_agree hash (inv.agree k hk) with ⟨h1, h2⟩ | ⟨it, e, r, _, h2, h3, _, h5, h6, h7, h8, _, h10, _⟩
  · simp [Store.step, Spec.step, h1, h2]
  · simp only [Store.step, Spec.step, h2, h3, h5, h6, h7, h8, vhashOf_eq r.body h10]
    simp

theorem nextVersion_set (oldv rev : Int) (h : 0 ≤ rev) :
    (Spec.nextVersion oldv rev).2 = true →
      0 < (Spec.nextVersion oldv rev).1 ∧ ((Spec.nextVersion oldv rev).1.natAbs ≤ oldv.natAbs + 1 ∨ (Spec.nextVersion oldv rev).1 = rev) := by
  unfold Spec.nextVersion
  by_cases h0 : rev = 0
  · simp [h0]; omega
  · have : ¬ rev < 0 := by omega
    by_cases hle : rev.natAbs ≤ oldv.natAbs
    · simp [h0, this, hle]
    · simp [h0, this, hle]; omega

/-- changing only the tree version of `k` (check_vhash + explicit revision) = changing the reference version -/
theorem treeonly_inv (hInj : InjOn hash K) {n n' : Nat} (hn : n ≤ n') {b : Bucket} {m : KV}
    (inv : Inv hash K n b m) (k : Key) (hk : K k) (it : TItem) (e : Entry) (rev : Int)
    (h1 : AMap.get b.tree (hash k) = some it) (h2 : AMap.get m k = some e) (hpos : 0 < it.ver) (vh : Nat)
    (hvh : vh = if rev > 0 then it.vhash else 0)
    (hb : rev.natAbs ≤ n') :
    Inv hash K n' { b with tree := AMap.set b.tree (hash k) { it with ver := rev, vhash := vh } }
      (AMap.set m k { e with ver := rev }) := by
  constructor
  · exact ⟨inv.pos.below, inv.pos.fresh⟩
  · intro k' hk'
    by_cases hkk : k = k'
    · subst hkk
      rcases inv.agree k hk with ⟨a1, _⟩ | ⟨it0, e0, r, a1, a2, a3, a4, a5, a6, a7, a8, a9, a10, _⟩
      · rw [h1] at a1; cases a1
      · rw [h1] at a1; rw [h2] at a2; cases a1; cases a2
        refine Or.inr ⟨_, _, r, AMap.get_set_self _ _ _, AMap.get_set_self _ _ _, a3, a4, rfl, a6, a7, a8, ?_, a10, hb⟩
        simp only [hpos, if_true] at a9
        show vh = _
        rw [hvh, a9]
    · have hne : hash k ≠ hash k' := fun e => hkk (hInj _ _ hk hk' e)
      rcases (inv.agree k' hk').mono hash hn with ⟨a1, a2⟩ | ⟨it0, e0, r0, a1, a2, a3, rest⟩
      · refine Or.inl ⟨?_, ?_⟩
        · show AMap.get (AMap.set b.tree (hash k) _) (hash k') = none
          rw [AMap.get_set_ne _ _ _ _ hne]; exact a1
        · rw [AMap.get_set_ne _ _ _ _ hkk]; exact a2
      · refine Or.inr ⟨it0, e0, r0, ?_, ?_, a3, rest⟩
        · show AMap.get (AMap.set b.tree (hash k) _) (hash k') = some it0
          rw [AMap.get_set_ne _ _ _ _ hne]; exact a1
        · rw [AMap.get_set_ne _ _ _ _ hkk]; exact a2

/-! characterisation of `checkAndSet` by cases (keeps `simp` away from the big proofs) -/

def oldVer (b : Bucket) (h : Nat) : Int := match AMap.get b.tree h with | some it => it.ver | none => 0

theorem cas_none (cfg : Store.Cfg) (b : Bucket) (k : Key) (body : Bytes) (flag : Nat) (rev : Int) (ts : Option Nat) (size wts : Nat)
    (h1 : AMap.get b.tree (hash k) = none) :
    checkAndSet hash cfg b k body flag rev ts size wts =
      (if (nextVer 0 rev).2 = false then (b, .done none)
       else if (nextVer 0 rev).1 < 0 then (b, .notFound)
       else ((b.put hash cfg { key := k, ver := (nextVer 0 rev).1, flag := flag, ts := ts, body := body, size := size, wts := wts }).1,
             .done (some (b.put hash cfg { key := k, ver := (nextVer 0 rev).1, flag := flag, ts := ts, body := body, size := size, wts := wts }).2))) := by
  unfold checkAndSet
  simp only [h1]

theorem cas_some (cfg : Store.Cfg) (b : Bucket) (k : Key) (body : Bytes) (flag : Nat) (rev : Int) (ts : Option Nat) (size wts : Nat)
    (it : TItem) (h1 : AMap.get b.tree (hash k) = some it) :
    checkAndSet hash cfg b k body flag rev ts size wts =
      (if (it.ver > 0 ∧ (if rev ≥ 0 then vhashOf body else 0) = it.vhash) ∧ cfg.checkVHash = true then
         ((if rev ≠ 0 then { b with tree := AMap.set b.tree (hash k) { it with ver := rev, vhash := (if rev ≥ 0 then vhashOf body else 0) } } else b), .done none)
       else if (nextVer it.ver rev).2 = false then (b, .done none)
       else if (nextVer it.ver rev).1 < 0 ∧ it.ver < 0 then (b, .notFound)
       else ((b.put hash cfg { key := k, ver := (nextVer it.ver rev).1, flag := flag, ts := ts, body := body, size := size, wts := wts }).1,
             .done (some (b.put hash cfg { key := k, ver := (nextVer it.ver rev).1, flag := flag, ts := ts, body := body, size := size, wts := wts }).2))) := by
  unfold checkAndSet
  simp only [h1]

theorem step_set (cfg : Store.Cfg) (b : Bucket) (k : Key) (body : Bytes) (flag : Nat) (rev : Int) (ts size : Nat) :
    Store.step hash cfg b (.set k body flag rev ts size) =
      (match checkAndSet hash cfg b k body flag rev (some ts) size ts with
       | (b', .done pos) => (b', .stored, pos)
       | (b', .notFound) => (b', .error, none)) := rfl

theorem spec_set_none (c : Spec.Cfg) (m : KV) (k : Key) (body : Bytes) (flag : Nat) (rev : Int) (ts : Nat)
    (h : AMap.get m k = none) :
    Spec.step c m (.set k body flag rev ts) =
      (if (Spec.nextVersion 0 rev).2 = true then (AMap.set m k { ver := (Spec.nextVersion 0 rev).1, flag := flag, body := body, ts := some ts }, .stored)
       else (m, .stored)) := by
  simp only [Spec.step, h]

theorem spec_set_some (c : Spec.Cfg) (m : KV) (k : Key) (body : Bytes) (flag : Nat) (rev : Int) (ts : Nat) (e : Entry)
    (h : AMap.get m k = some e) :
    Spec.step c m (.set k body flag rev ts) =
      (if c.checkVHash = true ∧ e.ver > 0 ∧ Ref.vhash e.body = Ref.vhash body then
        (if rev ≠ 0 then AMap.set m k { e with ver := rev } else m, .stored)
       else if (Spec.nextVersion e.ver rev).2 = true then
        (AMap.set m k { ver := (Spec.nextVersion e.ver rev).1, flag := flag, body := body, ts := some ts }, .stored)
       else (m, .stored)) := by
  simp only [Spec.step, h]

theorem inv_mono {n n' : Nat} (hn : n ≤ n') {b : Bucket} {m : KV} (inv : Inv hash K n b m) : Inv hash K n' b m :=
  ⟨inv.pos, fun k hk => (inv.agree k hk).mono hash hn⟩

theorem set_refines (cfg : Store.Cfg) (hInj : InjOn hash K) {n : Nat} (hn : n + 1 < 2147483647) {b : Bucket} {m : KV}
    (inv : Inv hash K n b m) (k : Key) (body : Bytes) (flag : Nat) (rev : Int) (ts size : Nat)
    (hk : K k) (hs : 0 < size) (hb : body.length < 2^63) (hr0 : 0 ≤ rev) (hrn : rev.natAbs ≤ n) :
    (Store.step hash cfg b (.set k body flag rev ts size)).2.1
        = (Spec.step { checkVHash := cfg.checkVHash } m (.set k body flag rev ts)).2
    ∧ Inv hash K (n + 1) (Store.step hash cfg b (.set k body flag rev ts size)).1
        (Spec.step { checkVHash := cfg.checkVHash } m (.set k body flag rev ts)).1 := by
  have hvh : vhashOf body = Ref.vhash body := vhashOf_eq body hb
  have hvhif : (if rev ≥ 0 then vhashOf body else 0) = vhashOf body := by simp [hr0]
  rw [step_set]
  rcases inv.agree k hk with ⟨a1, a2⟩ | ⟨it, e, r, a1, a2, a3, a4, a5, a6, a7, a8, a9, a10, a11⟩
  · -- key unknown to both
    have hnv := nextVer_eq 0 rev (by simp) (by omega) (by omega)
    have hset := nextVersion_set 0 rev hr0
    rw [cas_none hash cfg b k body flag rev (some ts) size ts a1, spec_set_none _ m k body flag rev ts a2, hnv]
    cases hok : (Spec.nextVersion 0 rev).2 with
    | false => simp [inv_mono hash K (Nat.le_succ n) inv]
    | true =>
      obtain ⟨hpos, hbd⟩ := hset hok
      have hlt : ¬ (Spec.nextVersion 0 rev).1 < 0 := by omega
      have hv' : (Spec.nextVersion 0 rev).1.natAbs ≤ n + 1 := by
        rcases hbd with h | h
        · simp at h; omega
        · rw [h]; omega
      have := put_inv hash K cfg hInj (Nat.le_succ n) inv
        { key := k, ver := (Spec.nextVersion 0 rev).1, flag := flag, ts := some ts, body := body, size := size, wts := ts } hk hs hb hv'
      simp only [Bool.true_eq_false, if_false, hlt, if_true]
      exact ⟨trivial, this⟩
  · have hov : it.ver.natAbs < 2147483647 := by omega
    have hnv := nextVer_eq it.ver rev hov (by omega) (by omega)
    have hset := nextVersion_set it.ver rev hr0
    rw [cas_some hash cfg b k body flag rev (some ts) size ts it a1, spec_set_some _ m k body flag rev ts e a2, hnv, hvhif, a5]
    have hsame : (it.ver > 0 ∧ vhashOf body = it.vhash) ↔ (it.ver > 0 ∧ Ref.vhash e.body = Ref.vhash body) := by
      by_cases hp : it.ver > 0
      · simp only [hp, if_true] at a9
        rw [a9, a7, vhashOf_eq r.body a10, hvh]
        simp [hp, eq_comm]
      · simp [hp]
    by_cases hc : (it.ver > 0 ∧ vhashOf body = it.vhash) ∧ cfg.checkVHash = true
    · have hc' : cfg.checkVHash = true ∧ it.ver > 0 ∧ Ref.vhash e.body = Ref.vhash body := ⟨hc.2, hsame.1 hc.1⟩
      rw [if_pos hc, if_pos hc']
      by_cases h0 : rev = 0
      · simp only [h0, ne_eq, not_true, if_false]
        exact ⟨trivial, inv_mono hash K (Nat.le_succ n) inv⟩
      · have hrev : 0 < rev := by omega
        have hti := treeonly_inv hash K hInj (Nat.le_succ n) inv k hk it e rev a1 a2 hc.1.1 (vhashOf body)
          (by simp [hrev, hc.1.2]) (by omega)
        simp only [ne_eq, h0, not_false_eq_true, if_true]
        exact ⟨trivial, hti⟩
    · have hc' : ¬ (cfg.checkVHash = true ∧ it.ver > 0 ∧ Ref.vhash e.body = Ref.vhash body) :=
        fun h => hc ⟨hsame.2 h.2, h.1⟩
      rw [if_neg hc, if_neg hc']
      cases hok : (Spec.nextVersion it.ver rev).2 with
      | false => simp [inv_mono hash K (Nat.le_succ n) inv]
      | true =>
        obtain ⟨hpos, hbd⟩ := hset hok
        have hlt : ¬ ((Spec.nextVersion it.ver rev).1 < 0 ∧ it.ver < 0) := by omega
        have hv' : (Spec.nextVersion it.ver rev).1.natAbs ≤ n + 1 := by
          rcases hbd with h | h
          · omega
          · rw [h]; omega
        have := put_inv hash K cfg hInj (Nat.le_succ n) inv
          { key := k, ver := (Spec.nextVersion it.ver rev).1, flag := flag, ts := some ts, body := body, size := size, wts := ts } hk hs hb hv'
        simp only [Bool.true_eq_false, if_false, hlt, if_true]
        exact ⟨trivial, this⟩

theorem step_delete (cfg : Store.Cfg) (b : Bucket) (k : Key) (size wts : Nat) :
    Store.step hash cfg b (.delete k size wts) =
      (match checkAndSet hash cfg b k [] 0 (-1) none size wts with
       | (b', .done pos) => (b', .deleted, pos)
       | (b', .notFound) => (b', .notFound, none)) := rfl

theorem nextVersion_neg (oldv : Int) : Spec.nextVersion oldv (-1) = (-(oldv.natAbs : Int) - 1, true) := by
  simp [Spec.nextVersion]

theorem delete_refines (cfg : Store.Cfg) (hInj : InjOn hash K) {n : Nat} (hn : n + 1 < 2147483647) {b : Bucket} {m : KV}
    (inv : Inv hash K n b m) (k : Key) (size wts : Nat) (hk : K k) (hs : 0 < size) :
    (Store.step hash cfg b (.delete k size wts)).2.1 = (Spec.step { checkVHash := cfg.checkVHash } m (.delete k)).2
    ∧ Inv hash K (n + 1) (Store.step hash cfg b (.delete k size wts)).1 (Spec.step { checkVHash := cfg.checkVHash } m (.delete k)).1 := by
  rw [step_delete]
  have hneg : ¬ ((-1 : Int) ≥ 0) := by decide
  rcases inv.agree k hk with ⟨a1, a2⟩ | ⟨it, e, r, a1, a2, a3, a4, a5, a6, a7, a8, a9, a10, a11⟩
  · have hnv := nextVer_eq 0 (-1) (by simp) (by omega) (by omega)
    rw [cas_none hash cfg b k [] 0 (-1) none size wts a1, hnv, nextVersion_neg]
    simp only [Spec.step, a2]
    simp [inv_mono hash K (Nat.le_succ n) inv]
  · have hov : it.ver.natAbs < 2147483647 := by omega
    have hnv := nextVer_eq it.ver (-1) hov (by omega) (by omega)
    rw [cas_some hash cfg b k [] 0 (-1) none size wts it a1, hnv, nextVersion_neg]
    simp only [hneg, if_false]
    have hspec : Spec.step { checkVHash := cfg.checkVHash } m (.delete k) =
        (if e.ver < 0 then (m, .notFound)
         else if cfg.checkVHash = true ∧ e.ver > 0 ∧ Ref.vhash e.body = 0 then (AMap.set m k { e with ver := -1 }, .deleted)
         else (AMap.set m k { ver := -(e.ver.natAbs : Int) - 1, flag := 0, body := [], ts := none }, .deleted)) := by
      simp only [Spec.step, a2]
    rw [hspec, a5]
    by_cases hc : (it.ver > 0 ∧ 0 = it.vhash) ∧ cfg.checkVHash = true
    · have hnl : ¬ it.ver < 0 := by omega
      have hz : Ref.vhash e.body = 0 := by
        have := a9; simp only [hc.1.1, if_true] at this
        rw [a7, ← vhashOf_eq r.body a10, ← this]; exact hc.1.2.symm
      have hc' : cfg.checkVHash = true ∧ it.ver > 0 ∧ Ref.vhash e.body = 0 := ⟨hc.2, hc.1.1, hz⟩
      rw [if_pos hc, if_neg hnl, if_pos hc']
      have hti := treeonly_inv hash K hInj (Nat.le_succ n) inv k hk it e (-1) a1 a2 hc.1.1 0 (by simp) (by simp)
      simp only [ne_eq, show ¬ ((-1 : Int) = 0) by decide, not_false_eq_true, if_true]
      exact ⟨trivial, hti⟩
    · rw [if_neg hc]
      simp only [Bool.true_eq_false, if_false]
      by_cases hlt : it.ver < 0
      · have : (-(it.ver.natAbs : Int) - 1 < 0 ∧ it.ver < 0) := ⟨by omega, hlt⟩
        rw [if_pos this, if_pos hlt]
        exact ⟨rfl, inv_mono hash K (Nat.le_succ n) inv⟩
      · have h1 : ¬ (-(it.ver.natAbs : Int) - 1 < 0 ∧ it.ver < 0) := fun h => hlt h.2
        have hc' : ¬ (cfg.checkVHash = true ∧ it.ver > 0 ∧ Ref.vhash e.body = 0) := by
          intro h
          apply hc
          refine ⟨⟨h.2.1, ?_⟩, h.1⟩
          have := a9; simp only [h.2.1, if_true] at this
          rw [this, vhashOf_eq r.body a10, ← a7]; exact h.2.2.symm
        rw [if_neg h1, if_neg hlt, if_neg hc']
        have := put_inv hash K cfg hInj (Nat.le_succ n) inv
          { key := k, ver := -(it.ver.natAbs : Int) - 1, flag := 0, ts := none, body := [], size := size, wts := wts } hk hs (by simp) (by simp; omega)
        exact ⟨rfl, this⟩

theorem natDigitsAux_length (fuel n : Nat) (acc : Bytes) : (Spec.natDigitsAux fuel n acc).length ≤ fuel + acc.length := by
  induction fuel generalizing n acc with
  | zero => simp [Spec.natDigitsAux]
  | succ f ih =>
    unfold Spec.natDigitsAux
    simp only []
    split
    · simp; omega
    · have := ih (n / 10) ((48 + n % 10).toUInt8 :: acc)
      simp at this ⊢; omega

theorem itoa_length (v : Int) : (Spec.itoa v).length < 2^63 := by
  unfold Spec.itoa Spec.natDigits
  have := natDigitsAux_length 40 v.natAbs []
  split <;> simp at * <;> omega

theorem incr_write (cfg : Store.Cfg) (hInj : InjOn hash K) {n : Nat} {b : Bucket} {m : KV}
    (inv : Inv hash K n b m) (k : Key) (size wts : Nat) (hk : K k) (hs : 0 < size) (ver v : Int) (hv : ver.natAbs ≤ n + 1) :
    Inv hash K (n + 1) (b.put hash cfg { key := k, ver := ver, flag := Spec.FLAG_INCR, ts := none, body := Spec.itoa v, size := size, wts := wts }).1
      (AMap.set m k { ver := ver, flag := Spec.FLAG_INCR, body := Spec.itoa v, ts := none }) :=
  put_inv hash K cfg hInj (Nat.le_succ n) inv
    { key := k, ver := ver, flag := Spec.FLAG_INCR, ts := none, body := Spec.itoa v, size := size, wts := wts } hk hs (itoa_length v) hv

theorem incr_refines (cfg : Store.Cfg) (hInj : InjOn hash K) {n : Nat} {b : Bucket} {m : KV}
    (inv : Inv hash K n b m) (k : Key) (delta : Int) (size wts : Nat) (hk : K k) (hs : 0 < size) :
    (Store.step hash cfg b (.incr k delta size wts)).2.1 = (Spec.step { checkVHash := cfg.checkVHash } m (.incr k delta)).2
    ∧ Inv hash K (n + 1) (Store.step hash cfg b (.incr k delta size wts)).1 (Spec.step { checkVHash := cfg.checkVHash } m (.incr k delta)).1 := by
  have mono := inv_mono hash K (Nat.le_succ n) inv
  rcases lookup_of_agree hash (inv.agree k hk) with ⟨h1, h2⟩ | ⟨it, e, r, _, h2, h3, _, h5, h6, h7, _, _, _, h11⟩
  · simp only [Store.step, Spec.step, h1, h2]
    exact ⟨by first | rfl | trivial, incr_write hash K cfg hInj inv k size wts hk hs 1 delta (by simp)⟩
  · simp only [Store.step, Spec.step, h2, h3, h5, h6, h7]
    by_cases hneg : it.ver < 0
    · simp only [hneg, ↓reduceIte]
      exact ⟨by first | rfl | trivial, incr_write hash K cfg hInj inv k size wts hk hs 1 delta (by simp)⟩
    · simp only [hneg, ↓reduceIte]
      by_cases hf : r.flag ≠ Spec.FLAG_INCR
      · rw [if_pos hf, if_pos hf]; exact ⟨by first | rfl | trivial, mono⟩
      · rw [if_neg hf, if_neg hf]
        by_cases hl : r.body.length > 22
        · rw [if_pos hl, if_pos hl]; exact ⟨by first | rfl | trivial, mono⟩
        · rw [if_neg hl, if_neg hl]
          cases hp : Spec.parseInt r.body with
          | none => exact ⟨by first | rfl | trivial, mono⟩
          | some old =>
            exact ⟨by first | rfl | trivial, incr_write hash K cfg hInj inv k size wts hk hs (it.ver + 1) (Spec.wrap64 (old + delta)) (by omega)⟩

theorem flush_inv {n : Nat} (cfg : Store.Cfg) {b : Bucket} {m : KV} (inv : Inv hash K n b m) :
    Inv hash K n (Store.step hash cfg b .flush).1 m := by
  have hr : ∀ q, (Store.step hash cfg b .flush).1.readAt q = b.readAt q := by
    intro q
    simp only [Store.step]
    rw [readAt_setChunk]
    by_cases h : q.chunk = b.head
    · simp [h, Bucket.readAt, Bucket.chunk, Chunk.find]
    · simp [h]
  have hc : ∀ j, ((Store.step hash cfg b .flush).1.chunks j).recs = (b.chunks j).recs ∧ ((Store.step hash cfg b .flush).1.chunks j).size = (b.chunks j).size := by
    intro j
    simp only [Store.step, Bucket.chunk]
    rw [chunks_setChunk]
    by_cases h : j = b.head
    · subst h; simp
    · simp [h]
  constructor
  · constructor
    · intro i o r hm
      rw [(hc i).1] at hm; rw [(hc i).2]; exact inv.pos.below i o r hm
    · intro i hi
      rw [(hc i).1, (hc i).2]; exact inv.pos.fresh i hi
  · intro k hk
    rcases inv.agree k hk with a | ⟨it, e, r, a1, a2, a3, rest⟩
    · exact Or.inl a
    · exact Or.inr ⟨it, e, r, a1, a2, by rw [hr]; exact a3, rest⟩

/-- operations of a C01 history: keys from `K`, record sizes positive, bodies of sane length,
    revisions 0 or positive and at most `R` -/
def OpOK (R : Nat) : Op → Prop
  | .set k body _ rev _ size => K k ∧ 0 < size ∧ body.length < 2^63 ∧ 0 ≤ rev ∧ rev.natAbs ≤ R
  | .delete k size _ => K k ∧ 0 < size
  | .incr k _ size _ => K k ∧ 0 < size
  | .get k => K k
  | .info k => K k
  | .flush => True
  | .reopen _ => False

theorem run_refines (cfg : Store.Cfg) (hInj : InjOn hash K) (R : Nat) (ops : List Op) :
    ∀ (n : Nat) (b : Bucket) (m : KV), Inv hash K n b m → R ≤ n → n + ops.length < 2147483647 →
      (∀ op ∈ ops, OpOK K R op) →
      (Store.run hash cfg b ops).2 = (Spec.run { checkVHash := cfg.checkVHash } m (ops.filterMap Store.cmdOf)).2
      ∧ Inv hash K (n + ops.length) (Store.run hash cfg b ops).1 (Spec.run { checkVHash := cfg.checkVHash } m (ops.filterMap Store.cmdOf)).1 := by
  induction ops with
  | nil => intro n b m inv _ _ _; exact ⟨rfl, inv⟩
  | cons op ops ih =>
    intro n b m inv hR hn hops
    have hop := hops op (by simp)
    have hrest : ∀ o ∈ ops, OpOK K R o := fun o ho => hops o (by simp [ho])
    have hlen : (op :: ops).length = ops.length + 1 := rfl
    have key : ∀ (c : Spec.Cmd), Store.cmdOf op = some c →
        (Store.step hash cfg b op).2.1 = (Spec.step { checkVHash := cfg.checkVHash } m c).2 →
        Inv hash K (n + 1) (Store.step hash cfg b op).1 (Spec.step { checkVHash := cfg.checkVHash } m c).1 →
        (Store.run hash cfg b (op :: ops)).2 = (Spec.run { checkVHash := cfg.checkVHash } m ((op :: ops).filterMap Store.cmdOf)).2
        ∧ Inv hash K (n + (op :: ops).length) (Store.run hash cfg b (op :: ops)).1
            (Spec.run { checkVHash := cfg.checkVHash } m ((op :: ops).filterMap Store.cmdOf)).1 := by
      intro c hc hr hinv
      have := ih (n + 1) _ _ hinv (by omega) (by rw [hlen] at hn; omega) hrest
      simp only [Store.run, List.filterMap_cons, hc, Spec.run]
      rw [hlen, show n + (ops.length + 1) = n + 1 + ops.length by omega]
      exact ⟨by rw [hr, this.1], this.2⟩
    cases op with
    | set k body flag rev ts size =>
      obtain ⟨hk, hs, hb, hr0, hrR⟩ := hop
      have := set_refines hash K cfg hInj (by rw [hlen] at hn; omega) inv k body flag rev ts size hk hs hb hr0 (by omega)
      exact key _ rfl this.1 this.2
    | delete k size wts =>
      obtain ⟨hk, hs⟩ := hop
      have := delete_refines hash K cfg hInj (by rw [hlen] at hn; omega) inv k size wts hk hs
      exact key _ rfl this.1 this.2
    | incr k d size wts =>
      obtain ⟨hk, hs⟩ := hop
      have := incr_refines hash K cfg hInj inv k d size wts hk hs
      exact key _ rfl this.1 this.2
    | get k =>
      have := get_refines hash K cfg inv k hop
      exact key _ rfl this.1 (by rw [this.2.1, this.2.2]; exact inv_mono hash K (Nat.le_succ n) inv)
    | info k =>
      have := info_refines hash K cfg inv k hop
      exact key _ rfl this.1 (by rw [this.2.1, this.2.2]; exact inv_mono hash K (Nat.le_succ n) inv)
    | flush =>
      have hinv := flush_inv hash K cfg inv
      have := ih n _ _ hinv hR (by rw [hlen] at hn; omega) hrest
      simp only [Store.run, List.filterMap_cons, Store.cmdOf]
      rw [hlen]
      exact ⟨this.1, inv_mono hash K (by omega) this.2⟩
    | reopen _ => exact absurd hop (by simp [OpOK])

theorem inv_init : Inv hash K 0 ({} : Bucket) ([] : KV) := by
  constructor
  · exact ⟨fun i o r hm => by simp at hm, fun i _ => ⟨rfl, rfl⟩⟩
  · intro k _; exact Or.inl ⟨rfl, rfl⟩
end Refine
end StoreLemmas
