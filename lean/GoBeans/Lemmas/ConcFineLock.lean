/-
  Invariants of the fine-grained interleaving model (Model/ConcFine.lean), layer 1:
    LockInv   who owns bkt.writeLock / ds.Mutex / ds.flushLock  ⇔  where that thread's program counter stands
  preserved by every scheduler decision.  Also: the generic case split over `micro`.  Core-only.
-/
import GoBeans.Lemmas.ConcFineChunk

namespace ConcFine

/-! ### generic case split over `micro` -/

macro "micro_split" h:ident : tactic => `(tactic| (
  unfold micro at $h:ident
  split at $h:ident <;> try dsimp only at $h:ident
  all_goals (repeat' (split at $h:ident))
  all_goals (try contradiction)
  all_goals (have $h:ident := Option.some.inj $h; subst $h)))

/-! ### layer 1: lock owners -/

def holdsW : PC → Bool
  | .wGet _ | .wSlot .. | .wAppend .. | .wDsUnlock .. | .wTreeSet .. | .wUnlock .. => true
  | _ => false
def holdsD : PC → Bool
  | .wAppend .. | .wDsUnlock .. => true
  | _ => false
def holdsF : PC → Bool
  | .fDs1 .. | .fOpen _ | .fCheck .. | .fCount .. | .fFetch .. | .fWrite .. | .fDetach .. | .fDs2 _ | .fUnlock => true
  | _ => false

structure LockInv (s : State) : Prop where
  w : ∀ u, s.writeLock = some u ↔ holdsW (s.thr u).pc = true
  d : ∀ u, s.dsLock = some u ↔ holdsD (s.thr u).pc = true
  f : ∀ u, s.flushLock = some u ↔ holdsF (s.thr u).pc = true

theorem lock_upd {H : PC → Bool} {L L' : Option Nat} {thr thr' : Nat → Thread} {t : Nat}
    (h : ∀ u, L = some u ↔ H (thr u).pc = true) (hthr : ∀ u, u ≠ t → thr' u = thr u)
    (hc : (L' = L ∧ H (thr' t).pc = H (thr t).pc) ∨ (L = none ∧ L' = some t ∧ H (thr' t).pc = true)
          ∨ (L = some t ∧ L' = none ∧ H (thr' t).pc = false)) :
    ∀ u, L' = some u ↔ H (thr' u).pc = true := by
  intro u
  by_cases hu : u = t
  · subst hu
    rcases hc with ⟨h1, h2⟩ | ⟨h1, h2, h3⟩ | ⟨h1, h2, h3⟩
    · rw [h1, h2]; exact h u
    · simp [h2, h3]
    · simp [h2, h3]
  · rw [hthr u hu]
    rcases hc with ⟨h1, _⟩ | ⟨h1, h2, _⟩ | ⟨h1, h2, _⟩
    · rw [h1]; exact h u
    · have := h u; rw [h1] at this
      rw [h2]; constructor
      · intro hh; exact absurd (Option.some.inj hh).symm hu
      · intro hh; exact absurd (this.2 hh) (by simp)
    · have := h u; rw [h1] at this
      rw [h2]; constructor
      · intro hh; simp at hh
      · intro hh; exact absurd (Option.some.inj (this.2 hh)).symm hu

theorem micro_lock (cfg : Cfg) (s s' : State) (t : Nat) (hl : LockInv s) (h : micro cfg s t = some s') : LockInv s' := by
  obtain ⟨hw, hd, hf⟩ := hl
  micro_split h
  all_goals
    refine ⟨lock_upd hw (t := t) ?_ ?_, lock_upd hd (t := t) ?_ ?_, lock_upd hf (t := t) ?_ ?_⟩
  all_goals (try (intro u hu; simp [State.goto, State.log, State.respond, State.setChunk, State.readDone, hu]; done))
  all_goals simp_all [State.goto, State.log, State.respond, State.setChunk, State.readDone, holdsW, holdsD, holdsF]

theorem invoke_lock (s s' : State) (t : Nat) (op : Op) (hl : LockInv s) (h : invoke s t op = some s') : LockInv s' := by
  obtain ⟨hw, hd, hf⟩ := hl
  unfold invoke at h
  split at h <;> try dsimp only at h
  all_goals (repeat' (split at h))
  all_goals (try contradiction)
  all_goals (have h := Option.some.inj h; subst h)
  all_goals
    refine ⟨lock_upd hw (t := t) ?_ ?_, lock_upd hd (t := t) ?_ ?_, lock_upd hf (t := t) ?_ ?_⟩
  all_goals (try (intro u hu; simp [hu]; done))
  all_goals simp_all [holdsW, holdsD, holdsF]

/-- the two kinds of scheduler decision -/
theorem step_cases {cfg : Cfg} {s s' : State} {t : Nat} {a : Act} (h : step cfg s t a = some s') :
    s.fatal = false ∧ ∃ s1, s' = s1.tick ∧ (micro cfg s t = some s1 ∨ ∃ op, invoke s t op = some s1) := by
  unfold step at h
  by_cases hf : s.fatal = true
  · simp [hf] at h
  · simp only [hf] at h
    refine ⟨by simpa using hf, ?_⟩
    cases a with
    | call op =>
      simp only [Bool.false_eq_true, if_false, Option.map_eq_some_iff] at h
      obtain ⟨s1, h1, h2⟩ := h
      exact ⟨s1, h2.symm, Or.inr ⟨op, h1⟩⟩
    | go =>
      simp only [Bool.false_eq_true, if_false, Option.map_eq_some_iff] at h
      obtain ⟨s1, h1, h2⟩ := h
      exact ⟨s1, h2.symm, Or.inl h1⟩

theorem tick_lock (s : State) (h : LockInv s) : LockInv s.tick := ⟨h.w, h.d, h.f⟩

theorem step_lock (cfg : Cfg) (s s' : State) (t : Nat) (a : Act) (hl : LockInv s) (h : step cfg s t a = some s') :
    LockInv s' := by
  obtain ⟨_, s1, rfl, h1 | ⟨op, h1⟩⟩ := step_cases h
  · exact tick_lock _ (micro_lock cfg s s1 t hl h1)
  · exact tick_lock _ (invoke_lock s s1 t op hl h1)

theorem LockInv.uniqW {s : State} (h : LockInv s) {t u : Nat} (ht : holdsW (s.thr t).pc = true)
    (hu : holdsW (s.thr u).pc = true) : u = t := by
  have h1 := (h.w t).2 ht
  have h2 := (h.w u).2 hu
  rw [h1] at h2; exact (Option.some.inj h2).symm
theorem LockInv.uniqD {s : State} (h : LockInv s) {t u : Nat} (ht : holdsD (s.thr t).pc = true)
    (hu : holdsD (s.thr u).pc = true) : u = t := by
  have h1 := (h.d t).2 ht
  have h2 := (h.d u).2 hu
  rw [h1] at h2; exact (Option.some.inj h2).symm
theorem LockInv.uniqF {s : State} (h : LockInv s) {t u : Nat} (ht : holdsF (s.thr t).pc = true)
    (hu : holdsF (s.thr u).pc = true) : u = t := by
  have h1 := (h.f t).2 ht
  have h2 := (h.f u).2 hu
  rw [h1] at h2; exact (Option.some.inj h2).symm

end ConcFine
