/-
  GC beside clients, fine-grained model: the invariants (definitions).
    X s      the chunks the GC pass owns (all chunks up to gc.End once the pass has started)
    GInv     the GC thread's locals agree with the shared state; layout of the chunks GC owns; the part of the source
             file not yet processed covers every tree item that points into the source file
    DInv     every tree item points at a stored record of its key and version (`ConcFine.DataInv` without the
             readers' positions: a reader's position MAY die under GC), a writer's position lies in the head chunk
  Core-only.
-/
import GoBeans.Lemmas.ConcGCLayout

namespace ConcGC
open ConcFine

def X (s : State) : Nat → Prop := fun c => cold s c = true

theorem X_iff (s : State) (c : Nat) : X s c ↔ s.gc.started = true ∧ c ≤ s.gc.gend := by
  simp [X, cold]

/-- the record GC holds in its hands and what the stream reader has not yielded yet -/
def rem (g : GC) : List Rec :=
  match g.pc with
  | .gNext => g.todo
  | .gCheck r | .gEndW r _ | .gBeginW r _ | .gHead r _ | .gBuf r _ _ | .gFlush r _ _ | .gMove r _ => r :: g.todo
  | _ => []

/-- GC is inside the per-record loop or the end-of-file actions of source file `src` -/
def procPC : GPC → Bool
  | .idle | .gBegin | .gFile | .gOpen | .gFinal | .done => false
  | _ => true

/-- the gc writer of the destination is open -/
def openPC : GPC → Bool
  | .idle | .gBegin | .gBeginW .. | .done => false
  | _ => true

/-- bytes accounted in writingHead (under the chunk lock) that have not reached the file yet -/
def pendC (g : GC) (c : Nat) : Nat :=
  match g.pc with
  | .gBuf r _ _ | .gFlush r _ _ => if c = g.dst then r.size else 0
  | _ => 0

def curNotFound : GPC → Option Rec
  | .gEndW r f | .gBeginW r f | .gHead r f | .gBuf r f _ | .gFlush r f _ => if f then none else some r
  | _ => none

def curOff : GPC → Option Nat
  | .gBuf _ _ off | .gFlush _ _ off => some off
  | _ => none

/-- chunk `c` has been emptied by the pass (cleared, or skipped because it was empty) -/
def Dead (s : State) (c : Nat) : Prop :=
  s.gc.started = true ∧ s.gc.gbegin ≤ c ∧ (c < s.gc.src ∨ (c = s.gc.src ∧ s.gc.pc = .gFileDone))

/-- control part: depends on the GC thread's locals and the head only -/
structure GCtl (s : State) : Prop where
  idle : s.gc.started = false → s.gc.pc = .idle
  busy : s.gc.started = true → s.gc.pc ≠ .idle
  rng : s.gc.started = true → s.gc.gbegin ≤ s.gc.gend ∧ s.gc.gend < s.base.newHead
  norew : s.gc.rewr = false
  dst : s.gc.started = true → s.gc.dst < s.gc.gbegin ∨ ((s.gc.pc = .gBegin ∨ ∃ r f, s.gc.pc = .gBeginW r f) ∧ s.gc.dst ≤ s.gc.gbegin)
  src : s.gc.started = true → s.gc.gbegin ≤ s.gc.src ∧ s.gc.src ≤ s.gc.gend + 1
  srcp : procPC s.gc.pc = true ∨ s.gc.pc = .gOpen → s.gc.src ≤ s.gc.gend
  notail : s.gc.pc ≠ .gTail

/-- chunk part -/
structure GChk (s : State) : Prop where
  cold : ∀ c, X s c → ColdOK (s.base.chunks c) ∧ (s.base.chunks c).size = (s.base.chunks c).writingHead
  whf : ∀ c, X s c → ¬ (c = s.gc.src ∧ s.gc.pc = .gRemove) →
          (s.base.chunks c).writingHead = (s.base.chunks c).fsize + pendC s.gc c
  clr : s.gc.pc = .gRemove → (s.base.chunks s.gc.src).writingHead = 0
  dead : ∀ c, Dead s c → (s.base.chunks c).file = []
  wop : openPC s.gc.pc = true → s.gc.wopen = true ∧ s.gc.wpos = (s.base.chunks s.gc.dst).fsize
  off : ∀ o, curOff s.gc.pc = some o → o + pendC s.gc s.gc.dst = (s.base.chunks s.gc.dst).writingHead
  remIn : ∀ r ∈ rem s.gc, r ∈ (s.base.chunks s.gc.src).file
  mv : ∀ r o, s.gc.pc = .gMove r o → ({ r with off := o } : Rec) ∈ (s.base.chunks s.gc.dst).file

/-- tree part -/
structure GTree (s : State) : Prop where
  g2 : procPC s.gc.pc = true → ∀ k it, s.base.tree k = some it → it.pos.chunk = s.gc.src → ∃ r ∈ rem s.gc, r.off = it.pos.off
  nf : ∀ r, curNotFound s.gc.pc = some r → ∀ it, s.base.tree r.key = some it → ¬ X s it.pos.chunk

structure GInv (s : State) : Prop where
  ctl : GCtl s
  chk : GChk s
  tr : GTree s

def WPosOK (head : Nat) : PC → Prop
  | .wAppend _ _ pos | .wDsUnlock _ _ pos | .wTreeSet _ _ pos => pos.chunk = head
  | _ => True

structure DInv (s : State) : Prop where
  recs : ∀ c r, Stored (s.base.chunks c) r → RecOK r
  tree : ∀ k it, s.base.tree k = some it → ∃ r, StoredAt s.base.chunks it.pos r ∧ r.key = k ∧ r.ver = it.ver
  wr : ∀ u, WriterOK s.base (s.base.thr u).pc
  wpos : ∀ u, WPosOK s.base.newHead (s.base.thr u).pc
  fltg : ∀ u c, flushTarget (s.base.thr u).pc = some c → ¬ X s c

/-- every chunk is readable by the reader's code path -/
theorem readable_all {s : State} (hh : HotLay (X s) s.base) (hg : GInv s) (c : Nat) : Readable (s.base.chunks c) := by
  by_cases hx : X s c
  · exact readable_of_cold (hg.chk.cold c hx).1
  · exact readable_of_ok (hh.ok c hx)

end ConcGC
