/-
  Lookups in hint buffers and split files as the collision path uses them (`Collide.bufGet`, `Collide.fileGet`):
  "the item with this (keyhash, key)" — and what one `HintBuffer.Set` does to them.
-/
import GoBeans.Model.Collide
import GoBeans.Lemmas.HintLoad
set_option linter.unusedSimpArgs false
set_option linter.unusedVariables false
namespace CollideLemmas
open Store Spec HintIndex Collide HintBufferLemmas HintLoadLemmas

/-- the item with key hash `h` and key `k` -/
def lk (l : List Item) (h : Nat) (k : Key) : Option Item := l.find? (sameKey (probe h k))

theorem sameKey_probe (h : Nat) (k : Key) (x : Item) : sameKey (probe h k) x = true ↔ x.khash = h ∧ x.key = k := by
  rw [sameKey_iff]; unfold probe; simp only
  constructor <;> (intro a; exact ⟨a.1.symm, a.2.symm⟩)

theorem lk_some {l : List Item} {h : Nat} {k : Key} {x : Item} (e : lk l h k = some x) : x ∈ l ∧ x.khash = h ∧ x.key = k := by
  unfold lk at e
  exact ⟨List.mem_of_find?_eq_some e, (sameKey_probe h k x).mp (List.find?_some e)⟩

theorem lk_none {l : List Item} {h : Nat} {k : Key} : lk l h k = none ↔ ∀ x ∈ l, ¬ (x.khash = h ∧ x.key = k) := by
  unfold lk
  rw [List.find?_eq_none]
  constructor
  · intro a x hx hc; exact a x hx ((sameKey_probe h k x).mpr hc)
  · intro a x hx hc; exact a x hx ((sameKey_probe h k x).mp hc)

theorem lk_of_mem {l : List Item} (hn : NodupKey l) {h : Nat} {k : Key} {x : Item} (hx : x ∈ l) (hh : x.khash = h) (hk : x.key = k) :
    lk l h k = some x := by
  cases e : lk l h k with
  | none => exact absurd ⟨hh, hk⟩ (lk_none.mp e x hx)
  | some y =>
    obtain ⟨hy, hyh, hyk⟩ := lk_some e
    obtain ⟨i, hi⟩ := List.getElem?_of_mem hx
    obtain ⟨j, hj⟩ := List.getElem?_of_mem hy
    have hs : sameKey x y = true := by rw [sameKey_iff]; exact ⟨hh.trans hyh.symm, hk.trans hyk.symm⟩
    have hij := nodup_unique hn hi hj hs
    subst hij
    rw [hi] at hj; cases hj; rfl

theorem nodupKey_perm {l l' : List Item} (hp : l.Perm l') (hn : NodupKey l) : NodupKey l' := by
  unfold NodupKey at *
  exact (hp.pairwise_iff (fun {a b} (hab : sameKey a b = false) => by rw [sameKey_comm]; exact hab)).mp hn

theorem lk_perm {l l' : List Item} (hp : l.Perm l') (hn : NodupKey l) (h : Nat) (k : Key) : lk l h k = lk l' h k := by
  cases e : lk l h k with
  | none =>
    symm; rw [lk_none] at e ⊢
    intro x hx; exact e x (hp.symm.subset hx)
  | some x =>
    obtain ⟨hx, hh, hk⟩ := lk_some e
    exact (lk_of_mem (nodupKey_perm hp hn) (hp.subset hx) hh hk).symm

theorem findIdx_bind_get {α} (l : List α) (p : α → Bool) : (l.findIdx? p).bind (fun i => l[i]?) = l.find? p := by
  induction l with
  | nil => rfl
  | cons a t ih =>
    by_cases ha : p a = true
    · simp [List.findIdx?_cons, ha]
    · simp only [List.findIdx?_cons, ha, List.find?_cons, Bool.false_eq_true, if_false]
      rw [← ih]
      cases t.findIdx? p <;> simp

/-- `HintBuffer.Get` returns the item with that (keyhash, key) -/
theorem bufGet_fst (b : Buf) (hb : BufInv b) (h : Nat) (k : Key) : (bufGet b h k).1 = lk b.items h k := by
  unfold bufGet lk
  simp only
  rw [slot_eq b hb]
  exact findIdx_bind_get _ _

/-- an accepted `Set`: the item is found under its (keyhash, key), every other lookup is as before -/
theorem set_accept (cap : Nat) (b : Buf) (hb : BufInv b) (it : Item) (sz : Nat) (ha : (b.set cap it sz).2 = true) :
    lk (b.set cap it sz).1.items it.khash it.key = some it
    ∧ ∀ h k, ¬ (it.khash = h ∧ it.key = k) → lk (b.set cap it sz).1.items h k = lk b.items h k := by
  obtain ⟨e1, e2⟩ := set_items cap b hb it sz
  rw [ha] at e2
  cases hs : slotSet cap b.items it with
  | none => rw [hs] at e2; simp at e2
  | some items' =>
    rw [hs] at e1
    simp only [Option.getD_some] at e1
    have hp := slotSet_perm hb.nodup hs
    have hb' := set_inv cap b hb it sz
    have hn' : NodupKey (b.set cap it sz).1.items := hb'.nodup
    rw [e1] at hn' ⊢
    constructor
    · exact lk_of_mem hn' (hp.symm.subset (by simp)) rfl rfl
    · intro h k hne
      rw [lk_perm hp hn']
      cases e : lk b.items h k with
      | none =>
        rw [lk_none] at e ⊢
        intro x hx
        rw [List.mem_append] at hx
        rcases hx with hx | hx
        · exact e x (List.mem_filter.mp hx).1
        · simp only [List.mem_singleton] at hx; subst hx; exact hne
      | some x =>
        obtain ⟨hx, hh, hk⟩ := lk_some e
        apply lk_of_mem (nodupKey_perm hp hn')
        · rw [List.mem_append]; left
          rw [List.mem_filter]
          refine ⟨hx, ?_⟩
          cases hsk : sameKey x it with
          | false => rfl
          | true =>
            have := (sameKey_iff x it).mp hsk
            exact absurd ⟨this.1.symm.trans hh, this.2.symm.trans hk⟩ hne
        · exact hh
        · exact hk

/-- a refused `Set` leaves the slots alone -/
theorem set_refuse (cap : Nat) (b : Buf) (hb : BufInv b) (it : Item) (sz : Nat) (ha : (b.set cap it sz).2 = false) :
    (b.set cap it sz).1.items = b.items := by
  obtain ⟨e1, e2⟩ := set_items cap b hb it sz
  rw [ha] at e2
  cases hs : slotSet cap b.items it with
  | none => rw [hs] at e1; simpa using e1
  | some items' => rw [hs] at e2; simp at e2

/-- `Set` on an empty buffer with room for one item -/
theorem set_fresh (cap : Nat) (hcap : 1 ≤ cap) (it : Item) (sz : Nat) :
    (({} : Buf).set cap it sz).1.items = [it] := by
  obtain ⟨e1, _⟩ := set_items cap {} bufInv_empty it sz
  rw [e1]
  have : slotSet cap ([] : List Item) it = some [it] := slotSet_nil cap hcap it
  show (slotSet cap [] it).getD [] = [it]
  rw [this]; rfl

end CollideLemmas
