/- Helper lemmas for C14: hint item encoding round trip, sequential read and sorted lookup over a region of items. -/
import GoBeans.Model.Hint
import GoBeans.Lemmas.Codec
set_option linter.unusedSimpArgs false
set_option linter.unusedVariables false
namespace HintLemmas
open Hint CodecLemmas

/-- field ranges of a well-formed item -/
structure WF (it : Item) : Prop where
  khash : it.khash < 2^64
  chunk : it.chunk < 2^32
  off : it.off < 2^32
  ver : -2147483648 ≤ it.ver ∧ it.ver < 2147483648
  vhash : it.vhash < 2^16
  key : it.key.length < 256

theorem getN_le (n v : Nat) (rest : Bytes) (h : v < 256^n) : getN n (le n v ++ rest) = v := by
  unfold getN le
  rw [getLE_leBytes, Nat.mod_eq_of_lt h]

theorem le_length (n v : Nat) : (le n v).length = n := leBytes_length n v

theorem verU32_roundtrip (v : Int) (h : -2147483648 ≤ v ∧ v < 2147483648) :
    (Int32.ofNat (verU32 v)).toInt = v := by
  unfold verU32
  have h1 : (Int32.ofInt v).toInt = v := Int32.toInt_ofInt_of_le (by omega) (by omega)
  have h2 : Int32.ofNat (Int32.ofInt v).toUInt32.toNat = Int32.ofInt v := by
    apply Int32.toBitVec_inj.mp
    simp [Int32.ofNat, Int32.toUInt32]
    rfl
  rw [h2, h1]

theorem verU32_lt (v : Int) : verU32 v < 256^4 := by
  unfold verU32
  have := (Int32.ofInt v).toUInt32.toNat_lt
  omega

theorem decItem_encItem (it : Item) (hw : WF it) (rest : Bytes) :
    decItem (encItem it ++ rest) = some (it, 23 + it.key.length) := by
  have hlen : (encItem it).length = 23 + it.key.length := by
    simp [encItem, le_length]; omega
  have hksz : (it.key.length.toUInt8).toNat = it.key.length := by
    simp [Nat.toUInt8, UInt8.toNat_ofNat']; have := hw.key; omega
  unfold decItem
  have h1 : ¬ (encItem it ++ rest).length < 23 := by rw [List.length_append, hlen]; omega
  have e22 : (encItem it ++ rest).getD 22 0 = it.key.length.toUInt8 := by
    have : encItem it ++ rest = (le 8 it.khash ++ le 4 it.chunk ++ le 4 it.off ++ le 4 (verU32 it.ver) ++ le 2 it.vhash) ++ (it.key.length.toUInt8 :: (it.key ++ rest)) := by
      simp [encItem, List.append_assoc]
    rw [this]
    have hl : (le 8 it.khash ++ le 4 it.chunk ++ le 4 it.off ++ le 4 (verU32 it.ver) ++ le 2 it.vhash).length = 22 := by simp [le_length]
    rw [List.getD_eq_getElem?_getD, List.getElem?_append_right (by omega), hl]
    simp
  simp only [h1, if_false, e22, hksz]
  have h2 : ¬ (encItem it ++ rest).length < 23 + it.key.length := by rw [List.length_append, hlen]; omega
  simp only [h2, if_false]
  have a8 : getN 8 (encItem it ++ rest) = it.khash := by
    have : encItem it ++ rest = le 8 it.khash ++ (le 4 it.chunk ++ le 4 it.off ++ le 4 (verU32 it.ver) ++ le 2 it.vhash ++ [it.key.length.toUInt8] ++ it.key ++ rest) := by
      simp [encItem, List.append_assoc]
    rw [this, getN_le _ _ _ (by have := hw.khash; omega)]
  have d8 : (encItem it ++ rest).drop 8 = le 4 it.chunk ++ (le 4 it.off ++ le 4 (verU32 it.ver) ++ le 2 it.vhash ++ [it.key.length.toUInt8] ++ it.key ++ rest) := by
    have : encItem it ++ rest = le 8 it.khash ++ (le 4 it.chunk ++ (le 4 it.off ++ le 4 (verU32 it.ver) ++ le 2 it.vhash ++ [it.key.length.toUInt8] ++ it.key ++ rest)) := by
      simp [encItem, List.append_assoc]
    rw [this, List.drop_left' (le_length 8 _)]
  have d12 : (encItem it ++ rest).drop 12 = le 4 it.off ++ (le 4 (verU32 it.ver) ++ le 2 it.vhash ++ [it.key.length.toUInt8] ++ it.key ++ rest) := by
    have : encItem it ++ rest = (le 8 it.khash ++ le 4 it.chunk) ++ (le 4 it.off ++ (le 4 (verU32 it.ver) ++ le 2 it.vhash ++ [it.key.length.toUInt8] ++ it.key ++ rest)) := by
      simp [encItem, List.append_assoc]
    rw [this, List.drop_left' (by simp [le_length])]
  have d16 : (encItem it ++ rest).drop 16 = le 4 (verU32 it.ver) ++ (le 2 it.vhash ++ [it.key.length.toUInt8] ++ it.key ++ rest) := by
    have : encItem it ++ rest = (le 8 it.khash ++ le 4 it.chunk ++ le 4 it.off) ++ (le 4 (verU32 it.ver) ++ (le 2 it.vhash ++ [it.key.length.toUInt8] ++ it.key ++ rest)) := by
      simp [encItem, List.append_assoc]
    rw [this, List.drop_left' (by simp [le_length])]
  have d20 : (encItem it ++ rest).drop 20 = le 2 it.vhash ++ ([it.key.length.toUInt8] ++ it.key ++ rest) := by
    have : encItem it ++ rest = (le 8 it.khash ++ le 4 it.chunk ++ le 4 it.off ++ le 4 (verU32 it.ver)) ++ (le 2 it.vhash ++ ([it.key.length.toUInt8] ++ it.key ++ rest)) := by
      simp [encItem, List.append_assoc]
    rw [this, List.drop_left' (by simp [le_length])]
  have d23 : (encItem it ++ rest).drop 23 = it.key ++ rest := by
    have : encItem it ++ rest = (le 8 it.khash ++ le 4 it.chunk ++ le 4 it.off ++ le 4 (verU32 it.ver) ++ le 2 it.vhash ++ [it.key.length.toUInt8]) ++ (it.key ++ rest) := by
      simp [encItem, List.append_assoc]
    rw [this, List.drop_left' (by simp [le_length])]
  rw [a8, d8, d12, d16, d20, d23, getN_le _ _ _ (by have := hw.chunk; omega), getN_le _ _ _ (by have := hw.off; omega),
      getN_le _ _ _ (verU32_lt _), getN_le _ _ _ (by have := hw.vhash; omega), verU32_roundtrip _ hw.ver, List.take_left' rfl]

def encAll (items : List Item) : Bytes := items.flatMap encItem
def sizeAll (items : List Item) : Nat := (items.map itemSize).sum

theorem encItem_length (it : Item) : (encItem it).length = itemSize it := by
  simp [encItem, le_length, itemSize]; omega

theorem drop_pre (pre a rest : Bytes) : (pre ++ a ++ rest).drop pre.length = a ++ rest := by
  rw [List.append_assoc, List.drop_left' rfl]

/-- sequential read of a region of encoded items returns exactly those items, in order -/
theorem readFrom_items (items : List Item) (hw : ∀ it ∈ items, WF it) :
    ∀ (pre post : Bytes) (cnt fuel : Nat), items.length < fuel →
      readFrom (pre ++ encAll items ++ post) (cnt + sizeAll items) fuel pre.length cnt = .ok items := by
  induction items with
  | nil =>
    intro pre post cnt fuel hf
    match fuel, hf with
    | f + 1, _ => simp [readFrom, sizeAll]
  | cons it rest ih =>
    intro pre post cnt fuel hf
    match fuel, hf with
    | f + 1, hf =>
      have hwi := hw it (by simp)
      have hsz : sizeAll (it :: rest) = itemSize it + sizeAll rest := by simp [sizeAll]
      have hpos : 0 < itemSize it := by simp [itemSize]; omega
      unfold readFrom
      have hc : ¬ cnt ≥ cnt + sizeAll (it :: rest) := by rw [hsz]; omega
      simp only [hc, if_false]
      have hd : (pre ++ encAll (it :: rest) ++ post).drop pre.length = encItem it ++ (encAll rest ++ post) := by
        have : encAll (it :: rest) = encItem it ++ encAll rest := by simp [encAll]
        rw [this, drop_pre]; simp [List.append_assoc]
      rw [hd, decItem_encItem it hwi]
      simp only []
      have hf' : (pre ++ encAll (it :: rest) ++ post) = (pre ++ encItem it) ++ encAll rest ++ post := by
        simp [encAll, List.append_assoc]
      have hl : (pre ++ encItem it).length = pre.length + (23 + it.key.length) := by
        rw [List.length_append, encItem_length]; rfl
      have := ih (fun x hx => hw x (by simp [hx])) (pre ++ encItem it) post (cnt + (23 + it.key.length)) f (by simp at hf; omega)
      rw [hl] at this
      rw [hf', show cnt + sizeAll (it :: rest) = cnt + (23 + it.key.length) + sizeAll rest by rw [hsz]; simp [itemSize]; omega, this]

/-- items are in key-hash order (as `HintBuffer.Dump` and `merge` write them) -/
def SortedByHash : List Item → Prop
  | [] => True
  | it :: rest => (∀ x ∈ rest, it.khash ≤ x.khash) ∧ SortedByHash rest

/-- scanning a sorted region for (hash, key) finds the item iff it is present, and never fails -/
theorem lookupFrom_sorted (kh : Nat) (key : Bytes) (items : List Item) (hw : ∀ it ∈ items, WF it) (hs : SortedByHash items) :
    ∀ (pre post : Bytes) (cnt fuel : Nat), items.length < fuel →
      lookupFrom (pre ++ encAll items ++ post) (cnt + sizeAll items) kh key fuel pre.length cnt
        = .ok (items.find? (fun it => it.khash == kh && it.key == key)) := by
  induction items with
  | nil =>
    intro pre post cnt fuel hf
    match fuel, hf with
    | f + 1, _ => simp [lookupFrom, sizeAll]
  | cons it rest ih =>
    intro pre post cnt fuel hf
    match fuel, hf with
    | f + 1, hf =>
      have hwi := hw it (by simp)
      have hsz : sizeAll (it :: rest) = itemSize it + sizeAll rest := by simp [sizeAll]
      unfold lookupFrom
      have hc : ¬ cnt ≥ cnt + sizeAll (it :: rest) := by rw [hsz]; simp [itemSize]; omega
      simp only [hc, if_false]
      have hd : (pre ++ encAll (it :: rest) ++ post).drop pre.length = encItem it ++ (encAll rest ++ post) := by
        have : encAll (it :: rest) = encItem it ++ encAll rest := by simp [encAll]
        rw [this, drop_pre]; simp [List.append_assoc]
      rw [hd, decItem_encItem it hwi]
      simp only []
      have hf' : (pre ++ encAll (it :: rest) ++ post) = (pre ++ encItem it) ++ encAll rest ++ post := by
        simp [encAll, List.append_assoc]
      have hl : (pre ++ encItem it).length = pre.length + (23 + it.key.length) := by
        rw [List.length_append, encItem_length]; rfl
      have hrec := ih (fun x hx => hw x (by simp [hx])) hs.2 (pre ++ encItem it) post (cnt + (23 + it.key.length)) f (by simp at hf; omega)
      rw [hl] at hrec
      have hcnt : cnt + sizeAll (it :: rest) = cnt + (23 + it.key.length) + sizeAll rest := by rw [hsz]; simp [itemSize]; omega
      by_cases hlt : it.khash < kh
      · have hne : ¬ it.khash = kh := by omega
        simp only [hlt, if_true]
        rw [hf', hcnt, hrec, List.find?_cons]
        have : (it.khash == kh && it.key == key) = false := by simp [hne]
        rw [this]
      · by_cases hgt : it.khash > kh
        · have hne : ¬ it.khash = kh := by omega
          simp only [hlt, if_false, hgt, if_true]
          -- everything after `it` has a hash ≥ it.khash > kh
          have hnone : rest.find? (fun x => x.khash == kh && x.key == key) = none := by
            rw [List.find?_eq_none]
            intro x hx
            have := hs.1 x hx
            have : ¬ x.khash = kh := by omega
            simp [this]
          simp [List.find?_cons, hne, hnone]
        · have heq : it.khash = kh := by omega
          simp only [hlt, if_false, hgt]
          by_cases hk : it.key = key
          · simp [hk, heq, List.find?_cons]
          · simp only [hk, if_false]
            rw [hf', hcnt, hrec, List.find?_cons]
            have : (it.khash == kh && it.key == key) = false := by simp [hk]
            rw [this]
end HintLemmas
