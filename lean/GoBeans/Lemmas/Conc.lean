/-
  Lemmas for C04: every atomic execution of the per-key register passes the history checks `checkA` and `checkB`.
-/
import GoBeans.Model.Conc

namespace Conc

def mkEv (r : Reg) (s : Step) : Ev := { op := s.op, inv := s.inv, resp := s.resp, out := (regStep r s.op).2, lin := s.lin }

def regAfter (r : Reg) (pre : List Step) : Reg := pre.foldl (fun r s => (regStep r s.op).1) r

theorem run_cons (r : Reg) (s : Step) (ss : List Step) : run r (s :: ss) = mkEv r s :: run (regStep r s.op).1 ss := rfl

theorem run_append (r : Reg) (pre post : List Step) : run r (pre ++ post) = run r pre ++ run (regAfter r pre) post := by
  induction pre generalizing r with
  | nil => rfl
  | cons s pre ih => simp only [List.cons_append, run_cons, ih, regAfter, List.foldl_cons]

theorem regStep_ver_le (r : Reg) (op : AOp) : r.ver ≤ (regStep r op).1.ver := by
  cases op <;> simp [regStep] <;> (try split) <;> simp

theorem regAfter_ver_le (r : Reg) (pre : List Step) : r.ver ≤ (regAfter r pre).ver := by
  induction pre generalizing r with
  | nil => exact Nat.le_refl _
  | cons s pre ih =>
    simp only [regAfter, List.foldl_cons]
    exact Nat.le_trans (regStep_ver_le r s.op) (ih _)

/-- an accepted outcome carries the version of the new register state, which is one more than before -/
theorem regStep_acc (r : Reg) (op : AOp) (v : Nat) (h : accVer (regStep r op).2 = some v) :
    v = r.ver + 1 ∧ (regStep r op).1.ver = v ∧ (regStep r op).1.val = valOf op := by
  cases op with
  | write x => simp [regStep, accVer, valOf] at h ⊢; omega
  | delete =>
    by_cases hv : r.val ≠ 0
    · simp [regStep, accVer, hv, valOf] at h ⊢; omega
    · simp [regStep, accVer, hv] at h
  | read => simp [regStep, accVer] at h

/-- an outcome that is not accepted leaves the register as it was -/
theorem regStep_noacc (r : Reg) (op : AOp) (h : accVer (regStep r op).2 = none) : (regStep r op).1 = r := by
  cases op with
  | write x => simp [regStep, accVer] at h
  | delete =>
    by_cases hv : r.val ≠ 0
    · simp [regStep, accVer, hv] at h
    · simp [regStep, hv]
  | read => rfl

/-- every event of a run stems from a step of it -/
theorem mem_run (r : Reg) (ss : List Step) (e : Ev) (h : e ∈ run r ss) :
    ∃ pre s post, ss = pre ++ s :: post ∧ e = mkEv (regAfter r pre) s := by
  induction ss generalizing r with
  | nil => simp [run] at h
  | cons s ss ih =>
    rw [run_cons] at h
    rcases List.mem_cons.mp h with h | h
    · exact ⟨[], s, ss, rfl, h⟩
    · obtain ⟨pre, s', post, h1, h2⟩ := ih _ h
      exact ⟨s :: pre, s', post, by rw [h1]; rfl, by rw [h2]; rfl⟩

/-- accepted versions of a run lie above the start version -/
theorem acc_above (r : Reg) (ss : List Step) (e : Ev) (he : e ∈ run r ss) (v : Nat) (hv : accVer e.out = some v) : r.ver < v := by
  induction ss generalizing r with
  | nil => simp [run] at he
  | cons s ss ih =>
    rw [run_cons] at he
    rcases List.mem_cons.mp he with h | h
    · subst h
      have := (regStep_acc r s.op v hv).1
      omega
    · have := ih _ h
      have := regStep_ver_le r s.op
      omega

/-- accepted versions increase strictly along a run -/
theorem acc_increasing (r : Reg) (ss : List Step) :
    (run r ss).Pairwise (fun x y => ∀ vx vy, accVer x.out = some vx → accVer y.out = some vy → vx < vy) := by
  induction ss generalizing r with
  | nil => exact List.Pairwise.nil
  | cons s ss ih =>
    rw [run_cons]
    refine List.Pairwise.cons ?_ (ih _)
    intro y hy vx vy hx hvy
    have h1 := acc_above _ ss y hy vy hvy
    have h2 := (regStep_acc r s.op vx hx).2.1
    simp only [mkEv] at hx
    omega

/-- the register after a prefix: bounded below by every accepted version of the prefix, and either untouched or set
    by an accepted step of the prefix -/
theorem regAfter_spec (r : Reg) (pre : List Step) :
    (∀ e ∈ run r pre, ∀ v, accVer e.out = some v → v ≤ (regAfter r pre).ver)
    ∧ ((regAfter r pre = r) ∨ ∃ w ∈ run r pre, accVer w.out = some (regAfter r pre).ver ∧ valOf w.op = (regAfter r pre).val) := by
  induction pre generalizing r with
  | nil => exact ⟨by simp [run], Or.inl rfl⟩
  | cons s pre ih =>
    obtain ⟨ih1, ih2⟩ := ih (regStep r s.op).1
    have hra : regAfter r (s :: pre) = regAfter (regStep r s.op).1 pre := rfl
    rw [hra, run_cons]
    refine ⟨?_, ?_⟩
    · intro e he v hv
      rcases List.mem_cons.mp he with h | h
      · subst h
        have := (regStep_acc r s.op v hv).2.1
        have := regAfter_ver_le (regStep r s.op).1 pre
        simp only [mkEv] at hv
        omega
      · exact ih1 e h v hv
    · rcases ih2 with h | ⟨w, hw, h1, h2⟩
      · rw [h]
        cases ha : accVer (regStep r s.op).2 with
        | none => exact Or.inl (regStep_noacc r s.op ha)
        | some v =>
          have := regStep_acc r s.op v ha
          refine Or.inr ⟨mkEv r s, List.mem_cons_self, ?_, ?_⟩
          · simp only [mkEv, ha, this.2.1]
          · simp only [mkEv, this.2.2]
      · exact Or.inr ⟨w, List.mem_cons_of_mem _ hw, h1, h2⟩

theorem mem_run_step (r : Reg) (ss : List Step) (e : Ev) (h : e ∈ run r ss) :
    ∃ s ∈ ss, e.inv = s.inv ∧ e.lin = s.lin ∧ e.resp = s.resp := by
  obtain ⟨pre, s, post, h1, h2⟩ := mem_run r ss e h
  exact ⟨s, by rw [h1]; simp, by rw [h2]; rfl, by rw [h2]; rfl, by rw [h2]; rfl⟩

theorem ev_times (r : Reg) (ss : List Step) (hv : Valid ss) (e : Ev) (h : e ∈ run r ss) : e.inv < e.lin ∧ e.lin < e.resp := by
  obtain ⟨s, hs, h1, h2, h3⟩ := mem_run_step r ss e h
  have := hv.1 s hs
  omega

theorem lin_increasing (r : Reg) (ss : List Step) (hv : ss.Pairwise (fun a b => a.lin < b.lin)) :
    (run r ss).Pairwise (fun x y => x.lin < y.lin) := by
  induction ss generalizing r with
  | nil => exact List.Pairwise.nil
  | cons s ss ih =>
    rw [run_cons]
    rw [List.pairwise_cons] at hv
    refine List.Pairwise.cons ?_ (ih _ hv.2)
    intro y hy
    obtain ⟨s', hs', _, h2, _⟩ := mem_run_step _ ss y hy
    have := hv.1 s' hs'
    simp only [mkEv]
    omega

theorem pairwise_cases {α} (R : α → α → Prop) (l : List α) (h : l.Pairwise R) (a b : α) (ha : a ∈ l) (hb : b ∈ l) :
    a = b ∨ R a b ∨ R b a := by
  induction l with
  | nil => simp at ha
  | cons x l ih =>
    rw [List.pairwise_cons] at h
    rcases List.mem_cons.mp ha with ha | ha <;> rcases List.mem_cons.mp hb with hb | hb
    · exact Or.inl (ha.trans hb.symm)
    · rw [ha]; exact Or.inr (Or.inl (h.1 b hb))
    · rw [hb]; exact Or.inr (Or.inr (h.1 a ha))
    · exact ih h.2 ha hb

theorem checkB_sound (ss : List Step) (hv : Valid ss) : checkB (run {} ss) = true := by
  have hp := (lin_increasing {} ss hv.2).and (acc_increasing {} ss)
  unfold checkB
  rw [Bool.and_eq_true]
  refine ⟨?_, ?_⟩
  · rw [List.all_eq_true]; intro a ha
    rw [List.all_eq_true]; intro b hb
    cases hva : accVer a.out with
    | none => rfl
    | some va =>
      cases hvb : accVer b.out with
      | none => rfl
      | some vb =>
        simp only [Bool.or_eq_true, Bool.not_eq_true', decide_eq_false_iff_not, decide_eq_true_eq]
        by_cases hlt : a.resp < b.inv
        · right
          have ta := ev_times {} ss hv a ha
          have tb := ev_times {} ss hv b hb
          rcases pairwise_cases _ _ hp a b ha hb with h | h | h
          · subst h; omega
          · exact h.2 va vb hva hvb
          · have := h.1; omega
        · left; exact hlt
  · simp only [decide_eq_true_eq]
    have hinc : ((run {} ss).filterMap (fun e => accVer e.out)).Pairwise (· < ·) := by
      rw [List.pairwise_filterMap]
      exact (acc_increasing {} ss).imp (fun {x y} h vx hx vy hy => h vx vy hx hy)
    exact hinc.imp (fun h => Nat.ne_of_lt h)

theorem checkA_sound (ss : List Step) (hv : Valid ss) : checkA (run {} ss) = true := by
  unfold checkA
  rw [List.all_eq_true]
  intro e he
  obtain ⟨pre, s, post, hss, hev⟩ := mem_run {} ss e he
  unfold readOK
  cases hout : e.out with
  | acc v => rfl
  | rej => rfl
  | got val ver =>
    -- the step is a read of the register after `pre`
    have hop : s.op = .read ∧ val = (regAfter {} pre).val ∧ ver = (regAfter {} pre).ver := by
      rw [hev] at hout
      simp only [mkEv] at hout
      cases hs : s.op with
      | write x => simp [hs, regStep] at hout
      | delete => simp only [hs, regStep] at hout; split at hout <;> simp at hout
      | read => simp only [hs, regStep, Out.got.injEq] at hout; exact ⟨rfl, hout.1.symm, hout.2.symm⟩
    obtain ⟨_, hval, hver⟩ := hop
    obtain ⟨hub, hsrc⟩ := regAfter_spec {} pre
    have hrun : run {} ss = run {} pre ++ e :: run (regStep (regAfter {} pre) s.op).1 post := by
      rw [hss, run_append, run_cons, hev]
    have hlin := hv.2
    rw [hss, List.pairwise_append] at hlin
    have hs_mem : s ∈ ss := by rw [hss]; simp
    have hst := hv.1 s hs_mem
    have he_inv : e.inv = s.inv := by rw [hev]; rfl
    have he_resp : e.resp = s.resp := by rw [hev]; rfl
    rw [Bool.and_eq_true]
    refine ⟨?_, ?_⟩
    · rcases hsrc with h | ⟨w, hw, h1, h2⟩
      · rw [Bool.or_eq_true]; left
        rw [h] at hval hver
        simp [hval, hver]
      · rw [Bool.or_eq_true]; right
        rw [List.any_eq_true]
        refine ⟨w, by rw [hrun]; exact List.mem_append_left _ hw, ?_⟩
        obtain ⟨sw, hsw, i1, i2, i3⟩ := mem_run_step {} pre w hw
        have hpre_lt := hlin.2.2 sw hsw s (by simp)
        have hwt := hv.1 sw (by rw [hss]; exact List.mem_append_left _ hsw)
        simp only [Bool.and_eq_true, beq_iff_eq, decide_eq_true_eq]
        refine ⟨⟨by rw [h1, hver], by omega⟩, by rw [h2, hval]⟩
    · rw [List.all_eq_true]
      intro w hw
      cases hvw : accVer w.out with
      | none => rfl
      | some vw =>
        simp only [Bool.or_eq_true, Bool.not_eq_true', decide_eq_false_iff_not, decide_eq_true_eq]
        by_cases hlt : w.resp < e.inv
        · right
          rw [hrun] at hw
          rcases List.mem_append.mp hw with hw | hw
          · rw [hver]; exact hub w hw vw hvw
          · rcases List.mem_cons.mp hw with hw | hw
            · subst hw; rw [hout] at hvw; simp [accVer] at hvw
            · exfalso
              obtain ⟨sw, hsw, i1, i2, i3⟩ := mem_run_step _ post w hw
              have hpost := hlin.2.1
              rw [List.pairwise_cons] at hpost
              have := hpost.1 sw hsw
              have hwt := hv.1 sw (by rw [hss]; simp [hsw])
              omega
        · left; exact hlt

end Conc

/-! ### GC beside clients: the conditional repoint is invisible, the blind one is not -/
namespace Conc

theorem client_step_reg (s : KeyState) (op : AOp) (p : Nat) (hp : p ≠ s.item.pos) :
    (gstep s (.client op p)).reg = (regStep s.reg op).1 := by
  cases op with
  | write v => simp [gstep, KeyState.reg, regStep, setData]
  | delete =>
    by_cases h : s.data s.item.pos ≠ 0
    · simp [gstep, KeyState.reg, regStep, setData, h]
    · simp [gstep, KeyState.reg, regStep, h]
  | read => simp [gstep, KeyState.reg, regStep]

theorem gcCopy_reg (s : KeyState) (old new : Nat) (h : new ≠ s.item.pos) : (gstep s (.gcCopy old new)).reg = s.reg := by
  simp [gstep, KeyState.reg, setData, Ne.symm h]

theorem gcCopy_data (s : KeyState) (old new : Nat) (h : new ≠ old) :
    (gstep s (.gcCopy old new)).data new = (gstep s (.gcCopy old new)).data old := by
  simp [gstep, setData, Ne.symm h]

/-- the conditional repoint changes nothing a client can see, provided the copy holds what the original holds -/
theorem gcMove_reg (s : KeyState) (old new : Nat) (h : s.data new = s.data old) : (gstep s (.gcMove old new)).reg = s.reg := by
  by_cases hp : s.item.pos = old
  · simp [gstep, KeyState.reg, hp, h]
  · simp [gstep, hp]

/-- a client write between GC's copy and its repoint is kept by the conditional repoint … -/
theorem gcMove_keeps_client_write (s : KeyState) (old new p v : Nat) (hp : p ≠ old) :
    (gstep (gstep s (.client (.write v) p)) (.gcMove old new)).reg = { ver := s.item.ver + 1, val := v } := by
  simp [gstep, KeyState.reg, setData, hp]

/-- … and lost by the blind one: the item keeps the NEW version but points at the copy of the OLD record -/
theorem gcMoveBlind_loses_client_write (s : KeyState) (old new p v : Nat) (hp : p ≠ new) :
    (gstep (gstep s (.client (.write v) p)) (.gcMoveBlind old new)).reg = { ver := s.item.ver + 1, val := s.data new } := by
  simp [gstep, KeyState.reg, setData, Ne.symm hp]

end Conc

namespace Conc

/-- a well-formed schedule of client operations and GC steps on one key: records are appended at fresh positions,
    every repoint follows its copy, and only the conditional repoint is used -/
def WF : KeyState → List (Nat × Nat) → List GStep → Prop
  | _, _, [] => True
  | s, pend, st :: rest =>
    match st with
    | .client _ p => p ≠ s.item.pos ∧ (∀ q ∈ pend, p ≠ q.1 ∧ p ≠ q.2) ∧ WF (gstep s st) pend rest
    | .gcCopy o n => n ≠ s.item.pos ∧ n ≠ o ∧ (∀ q ∈ pend, n ≠ q.1 ∧ n ≠ q.2) ∧ WF (gstep s st) ((o, n) :: pend) rest
    | .gcMove o n => (o, n) ∈ pend ∧ WF (gstep s st) pend rest
    | .gcMoveBlind _ _ => False

/-- every pending copy still holds what its original holds -/
def PendOK (s : KeyState) (pend : List (Nat × Nat)) : Prop := ∀ q ∈ pend, s.data q.2 = s.data q.1

theorem client_data (s : KeyState) (op : AOp) (p x : Nat) (hx : x ≠ p) : (gstep s (.client op p)).data x = s.data x := by
  cases op with
  | write v => simp [gstep, setData, hx]
  | delete =>
    by_cases h : s.data s.item.pos ≠ 0
    · simp [gstep, setData, h, hx]
    · simp [gstep, h]
  | read => rfl

/-- **GC steps are invisible**: the register a client sees evolves exactly as under the client operations alone -/
theorem gc_invisible (steps : List GStep) : ∀ (s : KeyState) (pend : List (Nat × Nat)), WF s pend steps → PendOK s pend →
    (steps.foldl gstep s).reg = (steps.filterMap clientOp).foldl (fun r op => (regStep r op).1) s.reg := by
  induction steps with
  | nil => intro s pend _ _; rfl
  | cons st rest ih =>
    intro s pend hwf hp
    cases st with
    | client op p =>
      simp only [WF] at hwf
      obtain ⟨h1, h2, h3⟩ := hwf
      have hp' : PendOK (gstep s (.client op p)) pend := by
        intro q hq
        have := h2 q hq
        rw [client_data s op p q.2 (Ne.symm this.2), client_data s op p q.1 (Ne.symm this.1)]
        exact hp q hq
      simp only [List.foldl_cons, List.filterMap_cons, clientOp]
      rw [ih _ pend h3 hp', client_step_reg s op p h1]
    | gcCopy o n =>
      simp only [WF] at hwf
      obtain ⟨h1, h2, h3, h4⟩ := hwf
      have hp' : PendOK (gstep s (.gcCopy o n)) ((o, n) :: pend) := by
        intro q hq
        rcases List.mem_cons.mp hq with hq | hq
        · subst hq; exact gcCopy_data s o n h2
        · have := h3 q hq
          simp only [gstep, setData, Ne.symm this.1, Ne.symm this.2, if_false]
          exact hp q hq
      simp only [List.foldl_cons, List.filterMap_cons, clientOp]
      rw [ih _ _ h4 hp', gcCopy_reg s o n h1]
    | gcMove o n =>
      simp only [WF] at hwf
      obtain ⟨h1, h2⟩ := hwf
      have hd : (gstep s (.gcMove o n)).data = s.data := by
        simp only [gstep]; split <;> rfl
      have hp' : PendOK (gstep s (.gcMove o n)) pend := by
        intro q hq; rw [hd]; exact hp q hq
      simp only [List.foldl_cons, List.filterMap_cons, clientOp]
      rw [ih _ pend h2 hp', gcMove_reg s o n (hp (o, n) h1)]
    | gcMoveBlind o n => simp only [WF] at hwf

end Conc
