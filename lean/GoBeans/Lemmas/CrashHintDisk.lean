/-
  Crash recovery through the hint files, part 1: ONE data file and its split files.

  A kill leaves of a data file a prefix `durOf recs n` of its records (`n` bytes on disk) and ANY subset of the split
  files of its hint chunk — `DiskOK hash recs files`: the files describe a cut of ALL records `recs` appended so far,
  also those that never reached the data file.  `checkHintWithData` on that directory (`chunk_recover`):
   * a split file with `datasize ≤ n` describes durable records only; the first one with `datasize > n` and every
     file after it is dropped ("hint beyond data") — so the files kept are what `dropBeyond n` keeps, and
     `dropBeyond n files` is `DiskOK` for the DURABLE records (`trim_diskInv`);
   * the rest of the durable records is rescanned: by `HintLoad.load_fileHints` the chunk ends up with split files of
     a cut of exactly the durable records, and they are `DiskOK` again (the next kill is covered by the same lemma).
-/
import GoBeans.Lemmas.HintIndex
import GoBeans.Model.CrashHint
set_option linter.unusedSimpArgs false
set_option linter.unusedVariables false
namespace CrashHintLemmas
open Store Spec StoreLemmas HintIndex HintBufferLemmas HintLoadLemmas HintIndexLemmas CrashHint

/-! ### `chk = true` is the code of Model/HintIndex -/

theorem loadPrefixG_true (ds : Nat) : ∀ (l : List SplitFile) (d : Nat), loadPrefixG true ds l d = loadPrefix ds l d := by
  intro l
  induction l with
  | nil => intro d; rfl
  | cons f rest ih =>
    intro d
    simp only [loadPrefixG, loadPrefix, Bool.true_and, decide_eq_true_eq]
    rw [ih]

theorem checkHintG_true (hash : Key → Nat) (cap : Nat) (recs : FileRecs) (ds : Nat) (disk : List (Option SplitFile)) :
    checkHintG hash cap true recs ds disk = checkHintWithData hash cap recs ds disk := by
  unfold checkHintG checkHintWithData
  rw [loadPrefixG_true]

/-! ### the durable prefix of a data file -/

/-- the records that lie completely inside the first `n` bytes (`Chunk.crash`, `Store.Chunk.durable`) -/
def durOf (recs : FileRecs) (n : Nat) : FileRecs := recs.filter (fun p => decide (p.1 + p.2.size ≤ n))

/-- the file ends inside a record (`Chunk.crash`, `Store.Chunk.torn`) -/
def tornOf (recs : FileRecs) (n : Nat) : Bool := n ≠ 0 && !(recs.any (fun p => p.1 + p.2.size == n))

theorem crash_recs (c : CrashHint.Chunk) : c.crash.recs = durOf c.recs c.onDisk := rfl
theorem crash_torn (c : CrashHint.Chunk) : c.crash.torn = tornOf c.recs c.onDisk := rfl
theorem crash_size (c : CrashHint.Chunk) : c.crash.size = c.onDisk := rfl
theorem crash_hints (c : CrashHint.Chunk) : c.crash.hints = c.files := rfl
theorem crash_created (c : CrashHint.Chunk) : c.crash.created = c.created := rfl

theorem contig_filter {recs : FileRecs} (hc : Contig recs) (p : Nat × Rec → Bool) : Contig (recs.filter p) :=
  ⟨hc.1.filter p, fun q hq => hc.2 q (List.mem_filter.mp hq).1⟩

theorem contig_dur {recs : FileRecs} (hc : Contig recs) (n : Nat) : Contig (durOf recs n) := contig_filter hc _

theorem dataSizeOf_nil : dataSizeOf [] = 0 := rfl

theorem dataSizeOf_snoc (l : FileRecs) (p : Nat × Rec) : dataSizeOf (l ++ [p]) = p.1 + p.2.size := by
  simp [dataSizeOf]

/-- no torn tail: the file size is the end of the last durable record -/
theorem size_of_not_torn {recs : FileRecs} (hc : Contig recs) {n : Nat} (ht : tornOf recs n = false) :
    n = dataSizeOf (durOf recs n) := by
  have hcd := contig_dur hc n
  have hle : dataSizeOf (durOf recs n) ≤ n := by
    unfold dataSizeOf
    cases hl : (durOf recs n).getLast? with
    | none => exact Nat.zero_le _
    | some q =>
      have := List.mem_of_getLast? hl
      unfold durOf at this
      simpa using (List.mem_filter.mp this).2
  unfold tornOf at ht
  by_cases h0 : n = 0
  · omega
  · simp only [ne_eq, h0, not_false_eq_true, decide_true, Bool.true_and, Bool.not_eq_false'] at ht
    rw [List.any_eq_true] at ht
    obtain ⟨p, hp, he⟩ := ht
    have he' : p.1 + p.2.size = n := by simpa using he
    have hpd : p ∈ durOf recs n := by
      unfold durOf
      rw [List.mem_filter]
      exact ⟨hp, by simp [he']⟩
    have := dataSizeOf_bound (durOf recs n) hcd p hpd
    omega

/-- fully flushed: every record is durable -/
theorem dur_full {recs : FileRecs} (hc : Contig recs) : durOf recs (dataSizeOf recs) = recs := by
  unfold durOf
  rw [List.filter_eq_self]
  intro p hp
  simpa using dataSizeOf_bound recs hc p hp

theorem torn_full {recs : FileRecs} (hc : Contig recs) : tornOf recs (dataSizeOf recs) = false := by
  unfold tornOf dataSizeOf
  cases hl : recs.getLast? with
  | none => simp
  | some q =>
    have hq := List.mem_of_getLast? hl
    have : recs.any (fun p => p.1 + p.2.size == q.1 + q.2.size) = true := by
      rw [List.any_eq_true]
      exact ⟨q, hq, by simp⟩
    simp [this]

theorem dataSizeOf_eq_zero {recs : FileRecs} (hc : Contig recs) (h : dataSizeOf recs = 0) : recs = [] := by
  cases recs with
  | nil => rfl
  | cons p l =>
    have h1 := dataSizeOf_bound (p :: l) hc p (by simp)
    have h2 := hc.2 p (by simp)
    omega

theorem dur_zero {recs : FileRecs} (hc : Contig recs) : durOf recs 0 = [] := by
  unfold durOf
  rw [List.filter_eq_nil_iff]
  intro p hp
  have := hc.2 p hp
  simp
  omega

/-! ### "hint beyond data": what `loadHintsByChunk` keeps -/

/-- the split files `findValidPaths` + the loop of `loadHintsByChunk` keep: the gap-free prefix, up to the first file
    whose `datasize` exceeds the data file -/
def dropBeyond (ds : Nat) : List (Option SplitFile) → List (Option SplitFile)
  | some f :: rest => if f.datasize > ds then [] else some f :: dropBeyond ds rest
  | _ => []

theorem loadPrefix_dropBeyond (ds : Nat) : ∀ (disk : List (Option SplitFile)) (d : Nat),
    loadPrefix ds (validPrefix (dropBeyond ds disk)) d = loadPrefix ds (validPrefix disk) d := by
  intro disk
  induction disk with
  | nil => intro d; rfl
  | cons f rest ih =>
    intro d
    cases f with
    | none => simp [dropBeyond, validPrefix]
    | some f =>
      by_cases h : f.datasize > ds
      · simp [dropBeyond, validPrefix, loadPrefix, h]
      · simp only [dropBeyond, h, if_false, validPrefix, loadPrefix]
        rw [ih]

theorem checkHint_dropBeyond (hash : Key → Nat) (cap : Nat) (recs : FileRecs) (ds : Nat) (disk : List (Option SplitFile)) :
    checkHintWithData hash cap recs ds (dropBeyond ds disk) = checkHintWithData hash cap recs ds disk := by
  unfold checkHintWithData
  rw [loadPrefix_dropBeyond]

theorem dropBeyond_pad (ds : Nat) (n : Nat) : ∀ disk : List (Option SplitFile),
    dropBeyond ds (disk ++ List.replicate n none) = dropBeyond ds disk := by
  intro disk
  induction disk with
  | nil => cases n <;> simp [dropBeyond, List.replicate]
  | cons f rest ih =>
    cases f with
    | none => simp [dropBeyond]
    | some f =>
      by_cases h : f.datasize > ds
      · simp [dropBeyond, h]
      · simp [dropBeyond, h, ih]

section Trim
variable (hash : Key → Nat)

/-- The split files kept describe durable records only, and together with "everything else is rescanned" they are a
    correct directory for the DURABLE part of the data file. -/
theorem trim_diskInv (all : FileRecs) (ds : Nat)
    (hb : ds = 0 ∨ ∃ p ∈ durOf all ds, ds ≤ p.1 + p.2.size) :
    ∀ (segs : List FileRecs) (disk : List (Option SplitFile)) (tail : FileRecs), DiskInv hash all segs disk tail →
      ∃ segs' : List FileRecs, segs'.flatten = durOf (segs.flatten ++ tail) ds ∧
        DiskInv hash (durOf all ds) segs' (dropBeyond ds disk ++ [none]) [] := by
  intro segs
  induction segs with
  | nil =>
    intro disk tail h
    cases disk with
    | nil => exact ⟨[durOf tail ds], by simp, by simp [dropBeyond, DiskInv]⟩
    | cons _ _ => simp [DiskInv] at h
  | cons s ss ih =>
    intro disk tail h
    cases disk with
    | nil => simp [DiskInv] at h
    | cons f fs =>
      simp only [DiskInv] at h
      have hstop : ∃ segs' : List FileRecs, segs'.flatten = durOf ((s :: ss).flatten ++ tail) ds ∧
          DiskInv hash (durOf all ds) segs' ([] ++ [none]) [] :=
        ⟨[durOf ((s :: ss).flatten ++ tail) ds], by simp, by simp [DiskInv]⟩
      cases f with
      | none => simpa [dropBeyond] using hstop
      | some f =>
        by_cases hgt : f.datasize > ds
        · simpa [dropBeyond, hgt] using hstop
        · obtain ⟨⟨hsf, hne, hlo, hupf, hbf⟩, hrest⟩ := h
          obtain ⟨segs'', hfl, hdi⟩ := ih fs tail hrest
          have hs : durOf s ds = s := by
            unfold durOf
            rw [List.filter_eq_self]
            intro p hp
            have := hlo p hp
            simp; omega
          refine ⟨s :: segs'', ?_, ?_⟩
          · rw [List.flatten_cons, hfl]
            unfold durOf at hs ⊢
            simp only [List.flatten_cons, List.append_assoc, List.filter_append]
            rw [hs]
          · simp only [dropBeyond, hgt, if_false, List.cons_append, DiskInv]
            refine ⟨⟨hsf, hne, hlo, ?_, ?_⟩, hdi⟩
            · intro q hq
              rw [List.append_nil, hfl] at hq
              unfold durOf at hq
              exact hupf q (List.mem_filter.mp hq).1
            · rcases hb with hb | ⟨p, hp, hle⟩
              · left; omega
              · right; exact ⟨p, hp, by omega⟩

/-- ONE CHUNK.  `recs`: every record appended to the data file, `n` bytes of it on disk and no torn tail; `files`: any
    split files that describe (a cut of) `recs`.  After `checkHintWithData` the chunk has split files of a cut of the
    durable records, and they are a correct directory for them. -/
theorem chunk_recover (cap : Nat) (hcap : 1 ≤ cap) (recs : FileRecs) (files : List (Option SplitFile)) (n : Nat)
    (hc : Contig recs) (hd : DiskOK hash recs files) (ht : tornOf recs n = false) :
    FileHintsOf hash (durOf recs n) ((checkHintG hash cap true (durOf recs n) n files).map (·.items)) ∧
    DiskOK hash (durOf recs n) ((checkHintG hash cap true (durOf recs n) n files).map some) := by
  have hcd := contig_dur hc n
  have hn := size_of_not_torn hc ht
  obtain ⟨segs, m, hfl, hdi⟩ := hd
  have hb : n = 0 ∨ ∃ p ∈ durOf recs n, n ≤ p.1 + p.2.size := by
    cases hl : (durOf recs n).getLast? with
    | none =>
      left
      rw [hn]
      unfold dataSizeOf
      rw [hl]
    | some q =>
      right
      refine ⟨q, List.mem_of_getLast? hl, ?_⟩
      have : dataSizeOf (durOf recs n) = q.1 + q.2.size := by
        unfold dataSizeOf
        rw [hl]
      omega
  obtain ⟨segs', hfl', hdi'⟩ := trim_diskInv hash recs n hb segs _ [] hdi
  rw [List.append_nil, hfl] at hfl'
  rw [dropBeyond_pad] at hdi'
  have hds : ∀ p ∈ durOf recs n, p.1 + p.2.size ≤ n := by
    intro p hp
    unfold durOf at hp
    simpa using (List.mem_filter.mp hp).2
  obtain ⟨segs2, h1, h2, h3⟩ := load_fileHints hash cap hcap (durOf recs n) hcd n hds segs' _ hfl' hdi'
  have e : checkHintWithData hash cap (durOf recs n) n (dropBeyond n files ++ [none]) =
      checkHintG hash cap true (durOf recs n) n files := by
    have := checkHintWithData_pad hash cap (durOf recs n) n (dropBeyond n files) 1
    simp only [List.replicate] at this
    rw [this, checkHint_dropBeyond, checkHintG_true]
  rw [e] at h2 h3
  exact ⟨⟨segs2, h1, h2⟩, ⟨segs2, 0, h1, by simpa using h3⟩⟩

end Trim
end CrashHintLemmas
