/- C14 hint merge, part 4: the array algorithms of Go's container/heap (`HintMerge.goHeap`: heap.Init / heap.Pop /
   heap.Push with up / down over `mergeHeap`) obey `HeapLaws`: elements are neither lost nor duplicated, the heap
   order is established by Init and kept by Pop and Push, and Pop returns an element that no other element is
   `Less` than.  So every theorem of Lemmas/HintMerge.lean holds for the queue the real code runs.  Core-only. -/
import GoBeans.Lemmas.HintMergeLoop
set_option linter.unusedSimpArgs false
set_option linter.unusedVariables false
namespace HintMergeLemmas
open Hint HintMerge

/-! ### Swap -/

/-- the transposition of two indices -/
def tr (i j k : Nat) : Nat := if k = i then j else if k = j then i else k

theorem swap_length (h : List Reader) (i j : Nat) : (swap h i j).length = h.length := by
  unfold swap
  split <;> simp

theorem swap_get (h : List Reader) {i j : Nat} (hi : i < h.length) (hj : j < h.length) (k : Nat) :
    (swap h i j)[k]? = h[tr i j k]? := by
  unfold swap tr
  rw [List.getElem?_eq_getElem hi, List.getElem?_eq_getElem hj]
  simp only
  rw [List.getElem?_set, List.getElem?_set, List.length_set]
  by_cases h1 : j = k
  · subst h1
    by_cases h2 : j = i
    · subst h2; simp [hj]
    · simp [hj, h2, List.getElem?_eq_getElem hi]
  · by_cases h2 : i = k
    · subst h2
      have : ¬ i = j := fun e => h1 e.symm
      simp [h1, hi, this, List.getElem?_eq_getElem hj]
    · have e1 : ¬ k = i := fun e => h2 e.symm
      have e2 : ¬ k = j := fun e => h1 e.symm
      simp [h1, h2, e1, e2]

theorem swap_perm (h : List Reader) (i j : Nat) : (swap h i j).Perm h := by
  unfold swap
  split
  · rename_i a b ha hb
    obtain ⟨hi, rfl⟩ := List.getElem?_eq_some_iff.mp ha
    obtain ⟨hj, rfl⟩ := List.getElem?_eq_some_iff.mp hb
    rw [List.perm_iff_count]
    intro x
    by_cases hij : i = j
    · subst hij
      simp
    · have hj' : j < (h.set i h[j]).length := by rw [List.length_set]; exact hj
      rw [List.count_set hj', List.count_set hi]
      have e : (h.set i h[j])[j] = h[j] := by
        rw [List.getElem_set]; simp [hij]
      rw [e]
      have c1 : (h[i] == x) = true → 0 < List.count x h := by
        intro hx
        have : h[i] = x := by simpa using hx
        rw [← this]
        exact List.count_pos_iff.mpr (List.getElem_mem hi)
      by_cases q1 : (h[i] == x) = true <;> by_cases q2 : (h[j] == x) = true
      · have := c1 q1; simp [q1, q2]; omega
      · have := c1 q1; simp [q1, q2]; omega
      · simp [q1, q2]
      · simp [q1, q2]
  · exact List.Perm.refl _

theorem lessAt_swap (h : List Reader) {i j : Nat} (hi : i < h.length) (hj : j < h.length) (a b : Nat) :
    lessAt (swap h i j) a b = lessAt h (tr i j a) (tr i j b) := by
  unfold lessAt
  rw [swap_get h hi hj, swap_get h hi hj]

theorem tr_left (i j : Nat) : tr i j i = j := by simp [tr]
theorem tr_right (i j : Nat) : tr i j j = i := by
  unfold tr; by_cases h : j = i <;> simp [h]
theorem tr_other {i j k : Nat} (h1 : k ≠ i) (h2 : k ≠ j) : tr i j k = k := by simp [tr, h1, h2]

/-! ### the order at indices -/

/-- `h[a]` is not after `h[b]` -/
def LEat (h : List Reader) (a b : Nat) : Prop := lessAt h b a = false

theorem LEat_refl (h : List Reader) (a : Nat) : LEat h a a := by
  unfold LEat lessAt
  cases h[a]? with
  | none => rfl
  | some x =>
    simp only
    unfold less
    exact (itemLt_false_iff _ _).mpr (ILe_refl _)

theorem LEat_of_lessAt {h : List Reader} {a b : Nat} (hl : lessAt h a b = true) : LEat h a b := by
  unfold LEat
  unfold lessAt at *
  cases ha : h[a]? with
  | none => rw [ha] at hl; simp at hl
  | some x =>
    cases hb : h[b]? with
    | none => rfl
    | some y =>
      rw [ha, hb] at hl
      simp only at hl ⊢
      unfold less at *
      exact (itemLt_false_iff _ _).mpr (ILe_of_ILt ((itemLt_iff _ _).mp hl))

theorem LEat_trans {h : List Reader} {a b c : Nat} (hb : b < h.length) (h1 : LEat h a b) (h2 : LEat h b c) :
    LEat h a c := by
  unfold LEat lessAt at *
  rw [List.getElem?_eq_getElem hb] at h1 h2
  cases ha : h[a]? with
  | none => cases h[c]? <;> rfl
  | some x =>
    cases hc : h[c]? with
    | none => rfl
    | some z =>
      rw [ha] at h1
      rw [hc] at h2
      simp only at h1 h2 ⊢
      unfold less at *
      exact (itemLt_false_iff _ _).mpr
        (ILe_trans ((itemLt_false_iff _ _).mp h1) ((itemLt_false_iff _ _).mp h2))

/-! ### heap order -/

/-- parent index -/
def par (j : Nat) : Nat := (j - 1) / 2

/-- heap order on the index range [0, n), for the links whose parent index is ≥ k -/
def HeapFrom (k n : Nat) (h : List Reader) : Prop :=
  ∀ j, 0 < j → j < n → k ≤ par j → LEat h (par j) j

/-- heap order with a hole at `p` (the element sinking in `down`): every link not starting at `p` holds, and the
    children of `p` are not before `p`'s parent -/
def DownInv (k n p : Nat) (h : List Reader) : Prop :=
  (∀ j, 0 < j → j < n → k ≤ par j → par j ≠ p → LEat h (par j) j) ∧
  (∀ j, 0 < j → j < n → par j = p → 0 < p → k ≤ par p → LEat h (par p) j)

/-- the smaller child, as `down` chooses it -/
def child (n : Nat) (h : List Reader) (p : Nat) : Nat :=
  if 2 * p + 1 + 1 < n ∧ lessAt h (2 * p + 1 + 1) (2 * p + 1) then 2 * p + 1 + 1 else 2 * p + 1

theorem down_succ (n fuel : Nat) (h : List Reader) (p : Nat) :
    down n (fuel + 1) h p =
      if 2 * p + 1 ≥ n then h else
      if lessAt h (child n h p) p = false then h else down n fuel (swap h p (child n h p)) (child n h p) := by
  rw [down]
  simp only [child]
  by_cases h1 : 2 * p + 1 ≥ n
  · simp [h1]
  · simp only [h1, if_false, Bool.not_eq_true']
    split <;> rfl

theorem child_lt {n : Nat} (h : List Reader) {p : Nat} (hj1 : 2 * p + 1 < n) : child n h p < n := by
  unfold child; split
  · rename_i hh; exact hh.1
  · exact hj1

theorem child_par (n : Nat) (h : List Reader) (p : Nat) : par (child n h p) = p ∧ p < child n h p := by
  unfold child par; split <;> omega

theorem down_length (n : Nat) : ∀ (fuel : Nat) (h : List Reader) (p : Nat), (down n fuel h p).length = h.length
  | 0, h, p => rfl
  | fuel + 1, h, p => by
    rw [down_succ]
    split
    · rfl
    · split
      · rfl
      · rw [down_length n fuel, swap_length]

theorem down_perm (n : Nat) : ∀ (fuel : Nat) (h : List Reader) (p : Nat), (down n fuel h p).Perm h
  | 0, h, p => List.Perm.refl _
  | fuel + 1, h, p => by
    rw [down_succ]
    split
    · exact List.Perm.refl _
    · split
      · exact List.Perm.refl _
      · exact (down_perm n fuel _ _).trans (swap_perm _ _ _)

/-- `down` does not touch the slots from `n` on -/
theorem down_frame (n : Nat) : ∀ (fuel : Nat) (h : List Reader) (p : Nat), n ≤ h.length → p < n →
    ∀ m, n ≤ m → (down n fuel h p)[m]? = h[m]?
  | 0, h, p, _, _, m, _ => rfl
  | fuel + 1, h, p, hn, hp, m, hm => by
    rw [down_succ]
    split
    · rfl
    · rename_i hj1
      split
      · rfl
      · have hc := child_lt h (show 2 * p + 1 < n by omega)
        rw [down_frame n fuel _ _ (by rw [swap_length]; exact hn) hc m hm]
        rw [swap_get h (by omega) (by omega)]
        rw [tr_other (by omega) (by omega)]

theorem down_heap (k n : Nat) : ∀ (fuel : Nat) (h : List Reader) (p : Nat), DownInv k n p h → k ≤ p →
    n ≤ h.length → n ≤ fuel + p → HeapFrom k n (down n fuel h p)
  | 0, h, p, hinv, _, _, hf => by
    intro j hj0 hjn hk
    exact hinv.1 j hj0 hjn hk (by unfold par; omega)
  | fuel + 1, h, p, hinv, hkp, hn, hf => by
    rw [down_succ]
    split
    · -- no child in range
      intro j hj0 hjn hk
      exact hinv.1 j hj0 hjn hk (by unfold par; omega)
    · rename_i hj1
      have hj1' : 2 * p + 1 < n := by omega
      have hcn := child_lt h hj1'
      have hcp := child_par n h p
      -- the chosen child is not after its sibling
      have hsib : ∀ j, 0 < j → j < n → par j = p → LEat h (child n h p) j := by
        intro j hj0 hjn hpj
        have hj : j = 2 * p + 1 ∨ j = 2 * p + 2 := by unfold par at hpj; omega
        unfold child
        split
        · rename_i hh
          rcases hj with rfl | rfl
          · exact LEat_of_lessAt hh.2
          · exact LEat_refl _ _
        · rename_i hh
          rcases hj with rfl | rfl
          · exact LEat_refl _ _
          · cases hq : lessAt h (2 * p + 1 + 1) (2 * p + 1) with
            | false => exact hq
            | true => exact absurd ⟨hjn, hq⟩ hh
      generalize child n h p = c at *
      split
      · -- the child is not less: stop
        rename_i hpc
        intro j hj0 hjn hk
        by_cases hpj : par j = p
        · rw [hpj]
          exact LEat_trans (by omega) hpc (hsib j hj0 hjn hpj)
        · exact hinv.1 j hj0 hjn hk hpj
      · -- swap and go on
        rename_i hl
        have hlt : lessAt h c p = true := by
          cases hq : lessAt h c p with
          | false => exact absurd hq hl
          | true => rfl
        have hpl : p < h.length := by omega
        have hcl : c < h.length := by omega
        apply down_heap k n fuel (swap h p c) c ?_ (by omega) (by rw [swap_length]; exact hn) (by omega)
        constructor
        · intro j hj0 hjn hk hpj
          unfold LEat
          rw [lessAt_swap h hpl hcl]
          by_cases h1 : par j = p
          · -- j is a child of p
            have hjp : j ≠ p := by unfold par at h1; omega
            rw [h1, tr_left]
            by_cases h2 : j = c
            · subst h2
              rw [tr_right]
              exact LEat_of_lessAt hlt
            · rw [tr_other hjp h2]
              exact hsib j hj0 hjn h1
          · by_cases h2 : j = p
            · subst h2
              have hpp : par j ≠ j ∧ par j ≠ c := by unfold par at *; omega
              rw [tr_left, tr_other hpp.1 hpp.2]
              exact hinv.2 c (by omega) hcn hcp.1 hj0 hk
            · have hjc : j ≠ c := by intro e; rw [e] at h1; exact h1 hcp.1
              rw [tr_other h2 hjc, tr_other h1 hpj]
              exact hinv.1 j hj0 hjn hk h1
        · intro j hj0 hjn hpj hc0 hk
          unfold LEat
          rw [lessAt_swap h hpl hcl, hcp.1, tr_left]
          have hj : j ≠ p ∧ j ≠ c := by unfold par at hpj; omega
          rw [tr_other hj.1 hj.2]
          have := hinv.1 j hj0 hjn (by rw [hpj]; omega) (by rw [hpj]; omega)
          rw [hpj] at this
          exact this

/-- heap order with a hole at `j` (the element rising in `up`): every link not ending at `j` holds, and the
    children of `j` are not before `j`'s parent -/
def UpInv (n j : Nat) (h : List Reader) : Prop :=
  (∀ l, 0 < l → l < n → l ≠ j → LEat h (par l) l) ∧
  (∀ l, 0 < l → l < n → par l = j → 0 < j → LEat h (par j) l)

theorem up_succ (fuel : Nat) (h : List Reader) (j : Nat) :
    up (fuel + 1) h j =
      if par j = j ∨ lessAt h j (par j) = false then h else up fuel (swap h (par j) j) (par j) := by
  rw [up]
  by_cases hc : par j = j ∨ lessAt h j (par j) = false
  · rw [if_pos hc]
    have hc' : (j - 1) / 2 = j ∨ (!lessAt h j ((j - 1) / 2)) = true := by
      simpa [par] using hc
    rw [if_pos hc']
  · rw [if_neg hc]
    have hc' : ¬ ((j - 1) / 2 = j ∨ (!lessAt h j ((j - 1) / 2)) = true) := by
      simpa [par] using hc
    rw [if_neg hc']
    rfl

theorem up_length : ∀ (fuel : Nat) (h : List Reader) (j : Nat), (up fuel h j).length = h.length
  | 0, h, j => rfl
  | fuel + 1, h, j => by
    rw [up_succ]
    split
    · rfl
    · rw [up_length fuel, swap_length]

theorem up_perm : ∀ (fuel : Nat) (h : List Reader) (j : Nat), (up fuel h j).Perm h
  | 0, h, j => List.Perm.refl _
  | fuel + 1, h, j => by
    rw [up_succ]
    split
    · exact List.Perm.refl _
    · exact (up_perm fuel _ _).trans (swap_perm _ _ _)

theorem up_heap (n : Nat) : ∀ (fuel : Nat) (h : List Reader) (j : Nat), UpInv n j h → j < n → n ≤ h.length →
    j < fuel → HeapFrom 0 n (up fuel h j)
  | 0, h, j, _, _, _, hf => by omega
  | fuel + 1, h, j, hinv, hjn, hn, hf => by
    rw [up_succ]
    split
    · rename_i hstop
      intro l hl0 hln _
      by_cases hlj : l = j
      · subst hlj
        rcases hstop with hs | hs
        · unfold par at hs; omega
        · exact hs
      · exact hinv.1 l hl0 hln hlj
    · rename_i hgo
      have hj0 : par j ≠ j := fun e => hgo (Or.inl e)
      have hlt : lessAt h j (par j) = true := by
        cases hq : lessAt h j (par j) with
        | false => exact absurd (Or.inr hq) hgo
        | true => rfl
      have hij : par j < j ∧ 0 < j := by unfold par at *; omega
      have hil : par j < h.length := by omega
      have hjl : j < h.length := by omega
      generalize hi : par j = i at *
      apply up_heap n fuel (swap h i j) i ?_ (by omega) (by rw [swap_length]; exact hn) (by omega)
      constructor
      · intro l hl0 hln hli
        unfold LEat
        rw [lessAt_swap h hil hjl]
        by_cases h1 : l = j
        · subst h1
          rw [hi, tr_right, tr_left]
          exact LEat_of_lessAt hlt
        · by_cases h2 : par l = i
          · -- a sibling of j
            rw [h2, tr_left, tr_other hli h1]
            have a1 : LEat h j i := LEat_of_lessAt hlt
            have a2 := hinv.1 l hl0 hln h1
            rw [h2] at a2
            exact LEat_trans hil a1 a2
          · by_cases h3 : par l = j
            · -- a child of j
              rw [h3, tr_right, tr_other hli h1]
              have := hinv.2 l hl0 hln h3 hij.2
              rw [hi] at this
              exact this
            · rw [tr_other hli h1, tr_other h2 h3]
              exact hinv.1 l hl0 hln h1
      · intro l hl0 hln hpl hi0
        have hpi : par i ≠ i ∧ par i ≠ j := by unfold par at *; omega
        have hlink : LEat h (par i) i := hinv.1 i hi0 (by omega) (by omega)
        unfold LEat
        rw [lessAt_swap h hil hjl, tr_other hpi.1 hpi.2]
        by_cases h1 : l = j
        · subst h1
          rw [tr_right]
          exact hlink
        · have hli : l ≠ i := by unfold par at hpl; omega
          rw [tr_other hli h1]
          have a2 := hinv.1 l hl0 hln h1
          rw [hpl] at a2
          exact LEat_trans hil hlink a2

/-! ### the laws -/

/-- the heap invariant of container/heap -/
def GoInv (h : List Reader) : Prop := HeapFrom 0 h.length h

/-- the root of a heap is not after any element -/
theorem heap_root {n : Nat} {h : List Reader} (hh : HeapFrom 0 n h) (hn : n ≤ h.length) :
    ∀ j, j < n → LEat h 0 j := by
  intro j
  induction j using Nat.strongRecOn with
  | _ j ih =>
    intro hjn
    by_cases hj0 : j = 0
    · subst hj0; exact LEat_refl _ _
    · have hp : par j < j := by unfold par; omega
      exact LEat_trans (by omega) (ih (par j) hp (by omega)) (hh j (by omega) hjn (Nat.zero_le _))

theorem HeapFrom_congr {k n : Nat} {h h' : List Reader} (e : ∀ j, j < n → h'[j]? = h[j]?)
    (hh : HeapFrom k n h) : HeapFrom k n h' := by
  intro j hj0 hjn hk
  have := hh j hj0 hjn hk
  unfold LEat lessAt at *
  rw [e j hjn, e (par j) (by unfold par; omega)]
  exact this

theorem heapInit_fold (n : Nat) : ∀ (m : Nat) (h : List Reader), h.length = n → HeapFrom m n h →
    HeapFrom 0 n ((List.range m).reverse.foldl (fun a i => down n n a i) h) ∧
    ((List.range m).reverse.foldl (fun a i => down n n a i) h).Perm h
  | 0, h, _, hh => by simpa using hh
  | m + 1, h, hl, hh => by
    rw [List.range_succ, List.reverse_append, List.reverse_singleton, List.singleton_append, List.foldl_cons]
    have hd : HeapFrom m n (down n n h m) := by
      apply down_heap m n n h m ?_ (Nat.le_refl _) (by omega) (by omega)
      constructor
      · intro j hj0 hjn hk hne
        exact hh j hj0 hjn (by omega)
      · intro j hj0 hjn hpj hm0 hk
        unfold par at hk; omega
    obtain ⟨r1, r2⟩ := heapInit_fold n m (down n n h m) (by rw [down_length]; exact hl) hd
    exact ⟨r1, r2.trans (down_perm _ _ _ _)⟩

theorem heapInit_spec (h : List Reader) : GoInv (heapInit h) ∧ (heapInit h).Perm h := by
  have hstart : HeapFrom (h.length / 2) h.length h := by
    intro j hj0 hjn hk
    unfold par at hk; omega
  obtain ⟨r1, r2⟩ := heapInit_fold h.length (h.length / 2) h rfl hstart
  unfold GoInv heapInit
  simp only
  rw [r2.length_eq]
  exact ⟨r1, r2⟩

theorem heapPush_spec (h : List Reader) (r : Reader) (hh : GoInv h) :
    GoInv (heapPush h r) ∧ (heapPush h r).Perm (r :: h) := by
  unfold heapPush GoInv
  rw [up_length]
  have hlen : (h ++ [r]).length = h.length + 1 := by simp
  rw [hlen]
  constructor
  · apply up_heap (h.length + 1) (h.length + 1) (h ++ [r]) h.length ?_ (by omega) (by omega) (by omega)
    constructor
    · intro l hl0 hln hne
      have hl : l < h.length := by omega
      have := hh l hl0 hl (Nat.zero_le _)
      unfold LEat lessAt at *
      have hp : par l < h.length := by unfold par; omega
      rw [List.getElem?_append_left hl, List.getElem?_append_left hp]
      exact this
    · intro l hl0 hln hpl hpos
      unfold par at hpl; omega
  · exact (up_perm _ _ _).trans (List.perm_append_comm.trans (by simp))

theorem heapPop_none (h : List Reader) : heapPop h = none ↔ h = [] := by
  cases h with
  | nil => simp [heapPop]
  | cons a t =>
    unfold heapPop
    simp only
    have : (down ((a :: t).length - 1) ((a :: t).length - 1) (swap (a :: t) 0 ((a :: t).length - 1)) 0).length
        = t.length + 1 := by
      rw [down_length, swap_length]; simp
    have hlt : (a :: t).length - 1 <
        (down ((a :: t).length - 1) ((a :: t).length - 1) (swap (a :: t) 0 ((a :: t).length - 1)) 0).length := by
      rw [this]; simp
    rw [List.getElem?_eq_getElem hlt]
    simp

theorem heapPop_spec (h : List Reader) (x : Reader) (h' : List Reader) (hh : GoInv h)
    (e : heapPop h = some (x, h')) : h.Perm (x :: h') ∧ GoInv h' ∧ ∀ y ∈ h', less y x = false := by
  cases h with
  | nil => simp [heapPop] at e
  | cons a t =>
    unfold heapPop at e
    simp only at e
    have hlen : (a :: t).length - 1 = t.length := by simp
    rw [hlen] at e
    generalize hs : swap (a :: t) 0 t.length = hsw at e
    have hswl : hsw.length = t.length + 1 := by rw [← hs, swap_length]; simp
    generalize hd : down t.length t.length hsw 0 = h1 at e
    have h1l : h1.length = t.length + 1 := by rw [← hd, down_length, hswl]
    have hlt : t.length < h1.length := by omega
    rw [List.getElem?_eq_getElem hlt] at e
    simp only [Option.some.injEq, Prod.mk.injEq] at e
    obtain ⟨ex, eh⟩ := e
    -- the popped element is the old root
    have hxa : x = a := by
      rw [← ex]
      have : h1[t.length]? = some a := by
        by_cases ht : t.length = 0
        · -- single element: nothing moves
          have : t = [] := List.eq_nil_of_length_eq_zero ht
          subst this
          rw [← hd, ← hs]
          simp [down, swap]
        · rw [← hd, down_frame t.length t.length hsw 0 (by omega) (by omega) t.length (Nat.le_refl _)]
          rw [← hs, swap_get (a :: t) (by simp) (by simp), tr_right]
          simp
      rw [List.getElem?_eq_getElem hlt] at this
      exact Option.some.inj this
    have hperm1 : h1.Perm (a :: t) := by
      rw [← hd, ← hs]; exact (down_perm _ _ _ _).trans (swap_perm _ _ _)
    have hsplit : h1 = h' ++ [x] := by
      rw [← eh, ← ex]
      have := List.take_append_getElem hlt
      rw [this, List.take_of_length_le (by omega)]
    have hperm : (a :: t).Perm (x :: h') := by
      refine hperm1.symm.trans ?_
      rw [hsplit]
      exact List.perm_append_comm.trans (by simp)
    refine ⟨hperm, ?_, ?_⟩
    · -- heap order of what is left
      unfold GoInv
      have hl' : h'.length = t.length := by rw [← eh, List.length_take]; omega
      rw [hl']
      have hheap1 : HeapFrom 0 t.length h1 := by
        rw [← hd]
        apply down_heap 0 t.length t.length hsw 0 ?_ (Nat.le_refl _) (by omega) (by omega)
        constructor
        · intro j hj0 hjn _ hne
          have := hh j hj0 (by simp; omega) (Nat.zero_le _)
          unfold LEat at *
          rw [← hs, lessAt_swap (a :: t) (by simp) (by simp)]
          have hp : par j < j := by unfold par; omega
          rw [tr_other (by omega) (by omega), tr_other hne (by omega)]
          exact this
        · intro j hj0 hjn hpj h00
          omega
      apply HeapFrom_congr ?_ hheap1
      intro j hj
      rw [← eh, List.getElem?_take]
      simp [hj]
    · -- the root was not after anything
      intro y hy
      have hya : y ∈ a :: t := hperm.mem_iff.mpr (List.mem_cons_of_mem _ hy)
      obtain ⟨j, hj⟩ := List.mem_iff_getElem?.mp hya
      have hjl : j < (a :: t).length := by
        obtain ⟨hj', _⟩ := List.getElem?_eq_some_iff.mp hj; exact hj'
      have := heap_root hh (Nat.le_refl _) j hjl
      unfold LEat lessAt at this
      rw [hj] at this
      simp only [List.getElem?_cons_zero] at this
      rw [hxa]; exact this

/-- Go's container/heap over `mergeHeap` obeys the laws the merge needs -/
def goLaws : HeapLaws goHeap where
  inv := GoInv
  init_inv := fun l => (heapInit_spec l).1
  init_perm := fun l => (heapInit_spec l).2
  pop_none := fun h _ => heapPop_none h
  pop_some := fun h r h' hh e => heapPop_spec h r h' hh e
  push := fun h r hh => heapPush_spec h r hh


end HintMergeLemmas
