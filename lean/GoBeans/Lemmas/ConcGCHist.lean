/-
  GC beside clients: the history invariant `HInv` of the model with GC.  What a linearised reader is going to return:
  the recorded value — or an error, when the chunk its position lies in has been emptied by the pass (`Dead`).
  Core-only.
-/
import GoBeans.Lemmas.ConcGCHistP

namespace ConcGC
open ConcFine
open Conc (AOp Out Ev Reg regStep)

def readerChunk : PC → Option Nat
  | .rBuf _ it | .rFile _ it => some it.pos.chunk
  | _ => none

/-- what a thread that has passed its linearisation point is going to return -/
def Pend (s : State) (pc : PC) (out : Out) : Prop :=
  PendPC s.base.chunks pc out ∨ ∃ c, readerChunk pc = some c ∧ Dead s c ∧ ∃ v n, out = .got v n

def HInv (s : State) : Prop := HInvP (Pend s) s.base

theorem absReg_eq' {s : State} (hd : DInv s) (hrd : ∀ c, Readable (s.base.chunks c)) {k : Nat} {it : Item}
    (hit : s.base.tree k = some it) :
    ∃ r, StoredAt s.base.chunks it.pos r ∧ r.key = k ∧ r.ver = it.ver ∧ RecOK r ∧
      absReg s.base k = { ver := it.ver.natAbs, val := r.val } := by
  obtain ⟨r, h1, h2, h3⟩ := hd.tree k it hit
  exact ⟨r, h1, h2, h3, hd.recs _ r h1.1, absReg_of hit h1 (hrd _)⟩

theorem absReg_stable' {b b' : ConcFine.State} {k : Nat} (ht : b'.tree k = b.tree k) (g : Grows b.chunks b'.chunks)
    (htr : ∀ it, b.tree k = some it → ∃ r, StoredAt b.chunks it.pos r)
    (hrd : ∀ c, Readable (b.chunks c)) (hrd' : ∀ c, Readable (b'.chunks c)) : absReg b' k = absReg b k := by
  cases hit : b.tree k with
  | none => rw [absReg_none hit, absReg_none (ht.trans hit)]
  | some it =>
    obtain ⟨r, h1⟩ := htr it hit
    rw [absReg_of hit h1 (hrd _), absReg_of (ht.trans hit) (storedAt_grows g h1) (hrd' _)]

/-- the tree update of an accepted write IS one step of the atomic register (`ConcFine.treeSet_reg`) -/
theorem treeSet_reg' {s : State} (hd : DInv s) (hrd : ∀ c, Readable (s.base.chunks c)) {q : WReq} {ver : Int} (hq : QOK q)
    (hw : WPre s.base q ver) :
    regStep (absReg s.base q.key) q.aop = ({ ver := ver.natAbs, val := q.val }, .acc ver.natAbs) := by
  have hver : (absReg s.base q.key).ver = (oldVer s.base q.key).natAbs := by
    unfold oldVer
    cases hit : s.base.tree q.key with
    | none => rw [absReg_none hit]; rfl
    | some it => obtain ⟨r, _, _, _, _, h5⟩ := absReg_eq' hd hrd hit; rw [h5]
  cases hdel : q.del with
  | false =>
    have h1 := cauv_write (oldVer s.base q.key) q hdel
    rw [← hw.1] at h1
    have : ver.natAbs = (absReg s.base q.key).ver + 1 := by rw [hver]; omega
    simp only [WReq.aop, hdel, Bool.false_eq_true, if_false, regStep, this]
  | true =>
    have h1 := cauv_delete (oldVer s.base q.key) q hdel
    rw [← hw.1] at h1
    have hneg : ver < 0 := by omega
    have hv0 := hq.1 hdel
    have : ver.natAbs = (absReg s.base q.key).ver + 1 := by rw [hver]; omega
    have hval : (absReg s.base q.key).val ≠ 0 := by
      cases hit : s.base.tree q.key with
      | none => exact absurd ⟨hneg, Or.inl hit⟩ hw.2
      | some it =>
        obtain ⟨r, _, _, h3, h4, h5⟩ := absReg_eq' hd hrd hit
        rw [h5]
        have hov : oldVer s.base q.key = it.ver := by unfold oldVer; rw [hit]
        have hge : ¬ it.ver < 0 := fun hlt => hw.2 ⟨hneg, Or.inr (by rw [hov]; exact hlt)⟩
        have : 0 < r.ver := by have := h4.1; omega
        exact h4.2.1 this
    simp only [WReq.aop, hdel, if_true, regStep, hval, ne_eq, not_false_eq_true, this, hv0]

/-- the NOT_FOUND answer of a delete IS the atomic register's refusal (`ConcFine.reject_reg`) -/
theorem reject_reg' {s : State} (hd : DInv s) (hrd : ∀ c, Readable (s.base.chunks c)) {q : WReq}
    (hno : (checkAndUpdateVersion (oldVer s.base q.key) q.rev).1 < 0 ∧ (s.base.tree q.key = none ∨ oldVer s.base q.key < 0)) :
    regStep (absReg s.base q.key) q.aop = (absReg s.base q.key, .rej) := by
  have hdel : q.del = true := by
    cases hdel : q.del with
    | true => rfl
    | false => have := cauv_write (oldVer s.base q.key) q hdel; omega
  have hval : (absReg s.base q.key).val = 0 := by
    cases hit : s.base.tree q.key with
    | none => rw [absReg_none hit]
    | some it =>
      obtain ⟨r, _, _, h3, h4, h5⟩ := absReg_eq' hd hrd hit
      rw [h5]
      have hov : oldVer s.base q.key = it.ver := by unfold oldVer; rw [hit]
      rcases hno.2 with h | h
      · rw [hit] at h; contradiction
      · exact h4.2.2 (by omega)
  simp [WReq.aop, hdel, regStep, hval]

theorem dead_X {s : State} (hc : GCtl s) {c : Nat} (hd : Dead s c) : X s c := by
  obtain ⟨d1, d2, d3⟩ := hd
  rw [X_iff]; refine ⟨d1, ?_⟩
  rcases d3 with d3 | ⟨d3, d4⟩
  · have := (hc.src d1).2; omega
  · rw [d3]; exact hc.srcp (Or.inl (by rw [d4]; rfl))

theorem dead_empty {s : State} (hi : SInv s) {c : Nat} (hd : Dead s c) :
    (s.base.chunks c).wbuf = [] ∧ (s.base.chunks c).file = [] :=
  ⟨(hi.chk.cold c (dead_X hi.ctl hd)).1.nobuf, hi.chk.dead c hd⟩

theorem readable_sinv {s : State} (hi : SInv s) (c : Nat) : Readable (s.base.chunks c) := by
  by_cases hx : X s c
  · exact readable_of_cold (hi.chk.cold c hx).1
  · exact readable_of_ok (hi.hot.ok c hx)

theorem pend_nonreader {s : State} {pc : PC} {o : Out} (h : readerChunk pc = none) (hp : Pend s pc o) :
    PendPC s.base.chunks pc o := by
  rcases hp with hp | ⟨c, hc, _⟩
  · exact hp
  · rw [h] at hc; contradiction

/-- a client micro-step loses nothing a pending thread is waiting for -/
theorem pend_client {s : State} {b' : ConcFine.State} (g : Grows s.base.chunks b'.chunks) {pc : PC} {o : Out}
    (hp : Pend s pc o) : Pend { s with base := b' } pc o := by
  rcases hp with hp | hp
  · exact Or.inl (pendPC_grows g hp)
  · exact Or.inr hp

theorem file_find {s : State} (hi : SInv s) {c : Nat} {r : Rec} (hr : r ∈ (s.base.chunks c).file) :
    fileLookup (s.base.chunks c) r.off = some r := by
  by_cases hx : X s c
  · exact contig_find _ _ _ (hi.chk.cold c hx).1.cfile r hr
  · exact contig_find _ _ _ (hi.hot.ok c hx).cfile r hr

end ConcGC
