/-
  C02, hint files as rebuildable caches — the theorems (helper layers: Lemmas/HintIndexCore, HintBuffer, HintLoad).

  The bucket model abstracts a restart without tree dump to `tree := replayTree hash b.log` (replay of every data
  record).  The code never does that: it applies hint split files.  Proved here, for EVERY log, EVERY way the split
  files can have been cut, EVERY subset of them missing at start, and a key hash injective on the keys in use:

      AMap.get (tree built by the code's hint mechanism) (hash k) = AMap.get (replayTree hash log) (hash k)

   * `hintReplay_eq_replay`      (Core)  any family of split files that is, per data file, a cut of its records
   * `hints_cut_or_rebuilt`             per data file: write-path split files of any cut, or the one-scan rebuild
   * `restart_eq_replay`                the code path `findValidPaths → loadHintsByChunk → buildHintFromData →
                                        updateHtreeFromHint` on whatever split files are on disk
   * `written_removed_restart`          … for split files produced by `HintBuffer.Set`/`hintChunk.setItem`/dumper
                                        under any interleaving, then any subset removed
   * `restart_again`                    the files on disk after a start satisfy the same invariant: repeat at will
   * `openTree_get`                     start WITH a tree dump `(tc, ts)`: dump entries survive exactly for the keys
                                        without a record in the chunks applied on top
   * `reopen_tree_is_hintReplay`        the tie to `Store.step … (.reopen false)`
-/
import GoBeans.Lemmas.HintLoad
set_option linter.unusedSimpArgs false
set_option linter.unusedVariables false
namespace HintIndexLemmas
open Store Spec StoreLemmas HintIndex HintBufferLemmas HintLoadLemmas

/-! ### split files of an explicit cut -/

theorem cutBy_flatten {α : Type} (cut : List Nat) : ∀ (l : List α), (cutBy cut l).flatten = l := by
  induction cut with
  | nil => intro l; simp [cutBy]
  | cons n ns ih => intro l; simp [cutBy, ih]

section Top
variable (hash : Key → Nat) (K : Key → Prop)

theorem logFrom_keys' (files : List FileRecs) (hK : ∀ f ∈ files, ∀ p ∈ f, K p.2.key) :
    ∀ x ∈ logOf files, K x.2.key := by
  unfold logOf
  generalize 0 = c
  induction files generalizing c with
  | nil => intro x hx; simp [logFrom] at hx
  | cons f fs ih =>
    intro x hx
    simp only [logFrom, List.mem_append] at hx
    rcases hx with hx | hx
    · obtain ⟨p, hp, rfl⟩ := List.mem_map.mp hx
      exact hK f (by simp) p hp
    · exact ih (fun g hg => hK g (List.mem_cons_of_mem _ hg)) (c + 1) x hx

theorem splitFile_of (scan : Bool) (seg : FileRecs) : SplitFileOf hash seg (splitFile hash scan seg) :=
  ⟨scan, sortItems_perm _⟩

theorem forall2_map_of {α β : Type} {R : α → β → Prop} (f : α → β) (h : ∀ a, R a (f a)) :
    ∀ l : List α, Forall2 R l (l.map f) := by
  intro l
  induction l with
  | nil => exact Forall2.nil
  | cons a l ih => exact Forall2.cons (h a) ih

theorem hintsOfFile_of (cut : List Nat) (recs : FileRecs) : FileHintsOf hash recs (hintsOfFile hash cut recs) :=
  ⟨cutBy cut recs, cutBy_flatten cut recs, forall2_map_of _ (splitFile_of hash false) _⟩

theorem rebuiltHints_of (recs : FileRecs) : FileHintsOf hash recs (rebuiltHints hash recs) :=
  ⟨[recs], by simp, Forall2.cons (splitFile_of hash true recs) Forall2.nil⟩

theorem chooseHints_of (files : List FileRecs) :
    ∀ (cuts : List (List Nat)) (gone : List Bool), Forall2 (FileHintsOf hash) files (chooseHints hash files cuts gone) := by
  induction files with
  | nil => intro _ _; exact Forall2.nil
  | cons f fs ih =>
    intro cuts gone
    unfold chooseHints
    refine Forall2.cons ?_ (ih _ _)
    by_cases hg : gone.headD false = true
    · simp only [hg, if_true]; exact rebuiltHints_of hash f
    · simp only [hg]; exact hintsOfFile_of hash _ f

/-- The statement asked for.  EVERY log (list of data files, each a list of records), EVERY choice of split cuts per
    file, EVERY subset of data files whose hint was replaced by the rebuilt-from-data version, a key hash injective
    on the keys used: the tree built from the hint files answers every key like the replay of the data log. -/
theorem hints_cut_or_rebuilt (hInj : InjOn hash K) (files : List FileRecs) (hK : ∀ f ∈ files, ∀ p ∈ f, K p.2.key)
    (cuts : List (List Nat)) (gone : List Bool) (k : Key) (hk : K k) :
    AMap.get (hintReplay (chooseHints hash files cuts gone)) (hash k) =
      AMap.get (replayTree hash (logOf files)) (hash k) :=
  hintReplay_eq_replay hash K hInj files hK _ (chooseHints_of hash files cuts gone) k hk

/-- the same through `replay_get`: the tree built from hint files holds, per key, the live part of the key's last record -/
theorem hintReplay_get (hInj : InjOn hash K) (files : List FileRecs) (hK : ∀ f ∈ files, ∀ p ∈ f, K p.2.key)
    (hints : List (List (List Item))) (h : Forall2 (FileHintsOf hash) files hints) (k : Key) (hk : K k) :
    AMap.get (hintReplay hints) (hash k) = itemOfLast (lastOf k (logOf files)) := by
  rw [hintReplay_eq_replay hash K hInj files hK hints h k hk]
  exact replay_get hash K hInj (logOf files) (logFrom_keys' K files hK) k hk

/-! ### the code path of a start -/

theorem dataSizeOf_bound (recs : FileRecs) (hc : Contig recs) : ∀ p ∈ recs, p.1 + p.2.size ≤ dataSizeOf recs := by
  intro p hp
  unfold dataSizeOf
  cases hl : recs.getLast? with
  | none =>
    rw [List.getLast?_eq_none_iff] at hl
    subst hl; simp at hp
  | some l =>
    obtain ⟨init, rfl⟩ := List.getLast?_eq_some_iff.mp hl
    have := hc.1
    rw [List.pairwise_append] at this
    rcases List.mem_append.mp hp with hp | hp
    · have := this.2.2 p hp l (by simp)
      simp only
      omega
    · simp at hp; subst hp; exact Nat.le_refl _

/-- what is on disk for one data file, whatever subset of its split files is missing: `disk[j]` is the content of
    `<chunk>.<j>.idx.s` or `none`; split numbers beyond the list have no file either -/
def DiskOK (recs : FileRecs) (disk : List (Option SplitFile)) : Prop :=
  ∃ (segs : List FileRecs) (n : Nat), segs.flatten = recs ∧ DiskInv hash recs segs (disk ++ List.replicate n none) []

theorem validPrefix_pad (n : Nat) : ∀ disk : List (Option SplitFile),
    validPrefix (disk ++ List.replicate n none) = validPrefix disk := by
  intro disk
  induction disk with
  | nil => cases n <;> simp [validPrefix, List.replicate]
  | cons f fs ih =>
    cases f with
    | none => simp [validPrefix]
    | some f => simp [validPrefix, ih]

theorem checkHintWithData_pad (cap : Nat) (recs : FileRecs) (ds : Nat) (disk : List (Option SplitFile)) (n : Nat) :
    checkHintWithData hash cap recs ds (disk ++ List.replicate n none) = checkHintWithData hash cap recs ds disk := by
  unfold checkHintWithData
  rw [validPrefix_pad]

theorem openFiles_spec (cap : Nat) (hcap : 1 ≤ cap) (files : List FileRecs) (disks : List (List (Option SplitFile)))
    (h : Forall2 (DiskOK hash) files disks) : (∀ f ∈ files, Contig f) →
    Forall2 (FileHintsOf hash) files (openHints hash cap files disks) ∧
    Forall2 (DiskOK hash) files (openDisks hash cap files disks) := by
  unfold openHints openDisks
  induction h with
  | nil => intro _; exact ⟨Forall2.nil, Forall2.nil⟩
  | @cons recs disk fs ds hd _ ih =>
    intro hc
    obtain ⟨segs, n, hfl, hdi⟩ := hd
    have hcr := hc recs (by simp)
    obtain ⟨segs', h1, h2, h3⟩ :=
      load_fileHints hash cap hcap recs hcr (dataSizeOf recs) (dataSizeOf_bound recs hcr) segs _ hfl hdi
    rw [checkHintWithData_pad] at h2 h3
    have ih' := ih (fun f hf => hc f (List.mem_cons_of_mem _ hf))
    simp only [openFiles, List.map_cons]
    exact ⟨Forall2.cons ⟨segs', h1, h2⟩ ih'.1, Forall2.cons ⟨segs', 0, h1, by simpa using h3⟩ ih'.2⟩

/-- The code path.  Data files `files` (offsets as the store writes them), on disk per file whatever is left of split
    files that once described it (`DiskOK`): the tree a start builds — gap-free prefix of the split files kept, the rest
    of each data file rescanned from the largest `datasize` kept and indexed through the same buffer code, every split
    file applied in order with `Ver > 0 → set, else remove` — answers every key like the replay of the data log. -/
theorem restart_eq_replay (hInj : InjOn hash K) (cap : Nat) (hcap : 1 ≤ cap) (files : List FileRecs)
    (hK : ∀ f ∈ files, ∀ p ∈ f, K p.2.key) (hc : ∀ f ∈ files, Contig f)
    (disks : List (List (Option SplitFile))) (h : Forall2 (DiskOK hash) files disks) (k : Key) (hk : K k) :
    AMap.get (restartTree hash cap files disks) (hash k) = AMap.get (replayTree hash (logOf files)) (hash k) :=
  hintReplay_eq_replay hash K hInj files hK _ (openFiles_spec hash cap hcap files disks h hc).1 k hk

/-- after a start the split files on disk describe the data files again: the next start (after removing any subset
    again) is covered by the same theorem -/
theorem restart_again (cap : Nat) (hcap : 1 ≤ cap) (files : List FileRecs) (hc : ∀ f ∈ files, Contig f)
    (disks : List (List (Option SplitFile))) (h : Forall2 (DiskOK hash) files disks) :
    Forall2 (DiskOK hash) files (openDisks hash cap files disks) :=
  (openFiles_spec hash cap hcap files disks h hc).2

theorem masked_refl : ∀ d : List (Option SplitFile), Masked d d := by
  intro d
  induction d with
  | nil => exact Masked.nil
  | cons a l ih => exact Masked.keep ih

theorem masked_append {d0 d : List (Option SplitFile)} (hm : Masked d0 d) (pad : List (Option SplitFile)) :
    Masked (d0 ++ pad) (d ++ pad) := by
  induction hm with
  | nil => exact masked_refl pad
  | keep _ ih => exact Masked.keep ih
  | drop _ ih => exact Masked.drop ih

/-- removing any subset of a chunk's split files keeps `DiskOK` -/
theorem diskOK_masked {recs : FileRecs} {d0 d : List (Option SplitFile)} (h : DiskOK hash recs d0) (hm : Masked d0 d) :
    DiskOK hash recs d := by
  obtain ⟨segs, n, h1, h2⟩ := h
  exact ⟨segs, n, h1, diskInv_masked hash recs (masked_append hm _) segs [] h2⟩

/-- … and so does forgetting trailing split numbers that have no file (a directory listing shows files only) -/
theorem diskOK_trim {recs : FileRecs} {d : List (Option SplitFile)} (m : Nat)
    (h : DiskOK hash recs (d ++ List.replicate m none)) : DiskOK hash recs d := by
  obtain ⟨segs, n, h1, h2⟩ := h
  refine ⟨segs, m + n, h1, ?_⟩
  rw [List.append_assoc, List.replicate_append_replicate] at h2
  exact h2

/-- split files as the write path leaves them: per data file ANY interleaving `es` of record writes (`some p`: append +
    `hintMgr.set`) and split closings (`none`: dumper / `forceRotateSplit`), buffers of capacity `cap ≥ 1`, all splits
    dumped at close; then ANY subset of the `*.idx.s` files removed; then a start. -/
theorem written_removed_restart (hInj : InjOn hash K) (cap : Nat) (hcap : 1 ≤ cap)
    (ess : List (List (Option (Nat × Rec))))
    (hK : ∀ es ∈ ess, ∀ p ∈ es.filterMap id, K p.2.key) (hc : ∀ es ∈ ess, Contig (es.filterMap id))
    (disks : List (List (Option SplitFile)))
    (hm : Forall2 (fun es disk => Masked (HChunk.run cap (es.map (evOf hash false))).disk disk) ess disks)
    (k : Key) (hk : K k) :
    AMap.get (restartTree hash cap (ess.map (fun es => es.filterMap id)) disks) (hash k) =
      AMap.get (replayTree hash (logOf (ess.map (fun es => es.filterMap id)))) (hash k) := by
  have hd : Forall2 (DiskOK hash) (ess.map (fun es => es.filterMap id)) disks := by
    clear hK
    induction hm with
    | nil => exact Forall2.nil
    | @cons es disk ess' ds hmask _ ih =>
      refine Forall2.cons ?_ (ih (fun e he => hc e (List.mem_cons_of_mem _ he)))
      obtain ⟨segs, h1, h2⟩ := written_diskInv hash cap hcap es (hc es (by simp)) disk hmask
      exact ⟨segs, 0, h1, by simpa using h2⟩
  apply restart_eq_replay hash K hInj cap hcap _ _ _ disks hd k hk
  · intro f hf p hp
    obtain ⟨es, hes, rfl⟩ := List.mem_map.mp hf
    exact hK es hes p hp
  · intro f hf
    obtain ⟨es, hes, rfl⟩ := List.mem_map.mp hf
    exact hc es hes

/-! ### start with a tree dump -/

/-- the records whose hint items `Bucket.open` applies on top of the dump `(tc, ts)` -/
def openLog (tc : Nat) (ts : Int) : Nat → List FileRecs → List (List (List Item)) → List (Pos × Rec)
  | i, f :: fs, h :: hs =>
    (if i < tc then [] else if (if i = tc then ts + 1 else 0) ≥ (h.length : Int) then [] else fileLog i f)
      ++ openLog tc ts (i + 1) fs hs
  | _, _, _ => []

theorem openGo_agree (hInj : InjOn hash K) (tc : Nat) (ts : Int) (files : List FileRecs)
    (hints : List (List (List Item))) (h : Forall2 (FileHintsOf hash) files hints) :
    (∀ f ∈ files, ∀ p ∈ f, K p.2.key) → ∀ (i : Nat) (t t' : Tree),
    (∀ k, K k → AMap.get t (hash k) = AMap.get t' (hash k)) →
    ∀ k, K k → AMap.get (openGo tc ts i t hints) (hash k) =
      AMap.get ((openLog tc ts i files hints).foldl (replayStep hash) t') (hash k) := by
  induction h with
  | nil => intro _ i t t' hag k hk; simpa [openGo, openLog] using hag k hk
  | @cons recs splits fs hs hf _ ih =>
    intro hK i t t' hag
    have hKr := hK recs (by simp)
    have ih' := ih (fun f hf' => hK f (List.mem_cons_of_mem _ hf')) (i + 1)
    simp only [openGo, openLog]
    by_cases h1 : i < tc
    · simp only [h1, if_true, List.nil_append]
      exact ih' t t' hag
    · simp only [h1, if_false]
      by_cases h2 : (if i = tc then ts + 1 else 0) ≥ (splits.length : Int)
      · simp only [h2, if_true, List.nil_append]
        exact ih' t t' hag
      · simp only [h2, if_false, List.foldl_append]
        exact ih' _ _ (applySplits_file hash K hInj i recs hKr splits hf t t' hag)

theorem openLog_sub (tc : Nat) (ts : Int) :
    ∀ (files : List FileRecs) (hints : List (List (List Item))) (i : Nat) (x : Pos × Rec),
      x ∈ openLog tc ts i files hints → x ∈ logFrom i files := by
  intro files
  induction files with
  | nil => intro hints i x hx; cases hints <;> simp [openLog] at hx
  | cons f fs ih =>
    intro hints i x hx
    cases hints with
    | nil => simp [openLog] at hx
    | cons h hs =>
      simp only [openLog, List.mem_append] at hx
      simp only [logFrom, List.mem_append]
      rcases hx with hx | hx
      · left
        by_cases h1 : i < tc
        · simp [h1] at hx
        · simp only [h1, if_false] at hx
          by_cases h2 : (if i = tc then ts + 1 else 0) ≥ (h.length : Int)
          · simp [h2] at hx
          · simpa [h2] using hx
      · right; exact ih hs (i + 1) x hx

theorem logFrom_keys (files : List FileRecs) (hK : ∀ f ∈ files, ∀ p ∈ f, K p.2.key) :
    ∀ (i : Nat) (x : Pos × Rec), x ∈ logFrom i files → K x.2.key := by
  induction files with
  | nil => intro i x hx; simp [logFrom] at hx
  | cons f fs ih =>
    intro i x hx
    simp only [logFrom, List.mem_append] at hx
    rcases hx with hx | hx
    · obtain ⟨p, hp, rfl⟩ := List.mem_map.mp hx
      exact hK f (by simp) p hp
    · exact ih (fun g hg => hK g (List.mem_cons_of_mem _ hg)) (i + 1) x hx

/-- Start with the tree dump `(tc, ts)` loaded as `t0` (ANY tree): a key with a record in the chunks applied on top of
    the dump reads the live part of its last such record; every other key keeps the dump's entry (tombstone entries
    of the dump included). -/
theorem openTree_get (hInj : InjOn hash K) (tc : Nat) (ts : Int) (files : List FileRecs)
    (hK : ∀ f ∈ files, ∀ p ∈ f, K p.2.key) (hints : List (List (List Item)))
    (h : Forall2 (FileHintsOf hash) files hints) (t0 : Tree) (k : Key) (hk : K k) :
    AMap.get (openTree tc ts t0 hints) (hash k) =
      (match lastOf k (openLog tc ts 0 files hints) with
       | some x => itemOfLast (some x)
       | none => AMap.get t0 (hash k)) := by
  unfold openTree
  rw [openGo_agree hash K hInj tc ts files hints h hK 0 t0 t0 (fun _ _ => rfl) k hk]
  exact replay_from hash K hInj _
    (fun x hx => logFrom_keys K files hK 0 x (openLog_sub tc ts files hints 0 x hx)) k hk t0

/-- without a dump (`TreeID = (0, -1)`, empty tree) the loop is `hintReplay` -/
theorem openGo_nodump (hints : List (List (List Item))) :
    ∀ (i : Nat) (t : Tree), openGo 0 (-1) i t hints = hintReplayFrom i t hints := by
  induction hints with
  | nil => intro i t; rfl
  | cons f fs ih =>
    intro i t
    simp only [openGo, hintReplayFrom]
    rw [ih]
    congr 1
    have h1 : ¬ i < 0 := by omega
    simp only [h1, if_false]
    cases f with
    | nil => simp [applySplits]
    | cons s ss =>
      have : ¬ ((if i = 0 then (-1 : Int) + 1 else 0) ≥ ((s :: ss).length : Int)) := by
        simp only [List.length_cons]
        split <;> omega
      rw [if_neg this]

theorem openTree_nodump (hints : List (List (List Item))) : openTree 0 (-1) [] hints = hintReplay hints :=
  openGo_nodump hints 0 []

/-- which records are applied on top of the dump: chunk `tc` entirely if it has more than `ts + 1` split files —
    from split 0, not from split `ts + 1` — or not at all; every later chunk entirely -/
theorem openLog_at (tc : Nat) (ts : Int) (f : FileRecs) (fs : List FileRecs) (h : List (List Item))
    (hs : List (List (List Item))) (hf : Forall2 (FileHintsOf hash) fs hs) :
    openLog tc ts tc (f :: fs) (h :: hs) =
      (if ts + 1 ≥ (h.length : Int) then [] else fileLog tc f) ++ logFrom (tc + 1) fs := by
  have hlater : ∀ (fs : List FileRecs) (hs : List (List (List Item))), Forall2 (FileHintsOf hash) fs hs →
      ∀ i, tc < i → openLog tc ts i fs hs = logFrom i fs := by
    intro fs hs hf
    induction hf with
    | nil => intro i _; rfl
    | @cons recs splits fs' hs' hfh _ ih =>
      intro i hi
      have h1 : ¬ i < tc := by omega
      have h2 : ¬ i = tc := by omega
      simp only [openLog, logFrom, h1, h2, if_false]
      rw [ih (i + 1) (by omega)]
      congr 1
      cases splits with
      | nil =>
        obtain ⟨segs, hfl, hfa⟩ := hfh
        cases hfa
        simp at hfl
        subst hfl
        simp [fileLog]
      | cons s ss =>
        have : ¬ ((0 : Int) ≥ ((s :: ss).length : Int)) := by simp only [List.length_cons]; omega
        rw [if_neg this]
  simp only [openLog, Nat.lt_irrefl, if_false, if_true]
  rw [hlater fs hs hf (tc + 1) (by omega)]

end Top

/-! ### tie to the bucket model -/

theorem logFrom_range' (g : Nat → FileRecs) (n : Nat) :
    ∀ c, logFrom c ((List.range' c n).map g) = (List.range' c n).flatMap (fun i => fileLog i (g i)) := by
  induction n with
  | zero => intro c; rfl
  | succ n ih =>
    intro c
    rw [List.range'_succ]
    simp only [List.map_cons, logFrom, List.flatMap_cons]
    rw [ih (c + 1)]

/-- `logOf` of the bucket's data files is the bucket's log -/
theorem logOf_bucket (b : Bucket) : logOf (b.chunkList.map (·.recs)) = b.log := by
  unfold logOf Bucket.chunkList Bucket.log
  rw [List.map_map, List.range_eq_range']
  exact logFrom_range' (fun i => (b.chunks i).recs) (b.head + 1) 0

/-- the restart of the bucket model that rebuilds the tree (`Store.step … (.reopen false)`: `replayTree` of the log)
    has, for every key in use, exactly the tree entry the hint mechanism produces from ANY admissible family of hint
    split files of the bucket's data files -/
theorem reopen_tree_is_hintReplay (hash : Key → Nat) (K : Key → Prop) (hInj : InjOn hash K) (cfg : Store.Cfg)
    (b : Bucket) (hK : ∀ x ∈ b.log, K x.2.key) (hints : List (List (List Item)))
    (h : Forall2 (FileHintsOf hash) (b.chunkList.map (·.recs)) hints) (k : Key) (hk : K k) :
    AMap.get (Store.step hash cfg b (.reopen false)).1.tree (hash k) = AMap.get (hintReplay hints) (hash k) := by
  have ht : (Store.step hash cfg b (.reopen false)).1.tree = replayTree hash b.log := rfl
  rw [ht, ← logOf_bucket b]
  symm
  apply hintReplay_eq_replay hash K hInj _ _ hints h k hk
  intro f hf p hp
  obtain ⟨c, hc, rfl⟩ := List.mem_map.mp hf
  unfold Bucket.chunkList at hc
  obtain ⟨i, hi, rfl⟩ := List.mem_map.mp hc
  apply hK (({ chunk := i, off := p.1 } : Pos), p.2)
  unfold Bucket.log
  rw [List.mem_flatMap]
  exact ⟨i, hi, List.mem_map.mpr ⟨p, hp, rfl⟩⟩

/-! ### every reachable bucket has well-formed offsets (the hypothesis `Contig` of the code-path theorems) -/

/-- per data file: records end before the next one starts, none is empty, and all end at or before the file size -/
def DataInv (b : Bucket) : Prop :=
  ∀ i, Contig (b.chunks i).recs ∧ ∀ p ∈ (b.chunks i).recs, p.1 + p.2.size ≤ (b.chunks i).size

theorem dataInv_congr {b b' : Bucket}
    (h : ∀ i, (b'.chunks i).recs = (b.chunks i).recs ∧ (b'.chunks i).size = (b.chunks i).size) (hd : DataInv b) :
    DataInv b' := by
  intro i; rw [(h i).1, (h i).2]; exact hd i

theorem posInv_congr {b b' : Bucket}
    (h : ∀ i, (b'.chunks i).recs = (b.chunks i).recs ∧ (b'.chunks i).size = (b.chunks i).size) (hh : b'.head = b.head)
    (hp : PosInv b) : PosInv b' := by
  constructor
  · intro i o r hm; rw [(h i).1] at hm; rw [(h i).2]; exact hp.below i o r hm
  · intro i hi; rw [(h i).1, (h i).2]; exact hp.fresh i (by rw [← hh]; exact hi)

theorem pushRec_dataInv (b : Bucket) (ck off : Nat) (r : Rec) (hd : DataInv b) (hs : 0 < r.size)
    (hoff : off = (b.chunks ck).size) : DataInv (b.pushRec ck off r) := by
  intro i
  have hc : (b.pushRec ck off r).chunks i =
      if i = ck then { b.chunks ck with recs := (b.chunks ck).recs ++ [(off, r)], size := off + r.size } else b.chunks i := rfl
  rw [hc]
  by_cases h : i = ck
  · subst h
    simp only [if_true]
    obtain ⟨⟨h1, h2⟩, h3⟩ := hd i
    refine ⟨⟨?_, ?_⟩, ?_⟩
    · rw [List.pairwise_append]
      refine ⟨h1, by simp, ?_⟩
      intro a ha c hc'
      simp at hc'; subst hc'
      have := h3 a ha
      simp only; omega
    · intro p hp
      rcases List.mem_append.mp hp with hp | hp
      · exact h2 p hp
      · simp at hp; subst hp; exact hs
    · intro p hp
      rcases List.mem_append.mp hp with hp | hp
      · have := h3 p hp; omega
      · simp at hp; subst hp; exact Nat.le_refl _
  · simp only [h, if_false]; exact hd i

theorem append_dataInv (cfg : Store.Cfg) (b : Bucket) (r : Rec) (hp : PosInv b) (hd : DataInv b) (hs : 0 < r.size) :
    DataInv (b.append cfg r).1 := by
  unfold Bucket.append Bucket.slot
  by_cases hrot : (b.chunks b.head).size + r.size > cfg.dataFileMax
  · simp only [hrot, if_true]
    obtain ⟨hp', hh, _⟩ := sealHead_posInv b hp
    have hf := hp'.fresh (b.head + 1) (by rw [hh]; omega)
    have hd' : DataInv b.sealHead := dataInv_congr (fun i => sealHead_recs b i) hd
    exact pushRec_dataInv b.sealHead (b.head + 1) 0 r hd' hs (by rw [hf.2])
  · simp only [hrot, if_false]
    exact pushRec_dataInv b b.head _ r hd hs rfl

theorem put_pos_data (hash : Key → Nat) (cfg : Store.Cfg) (b : Bucket) (r : Rec) (hp : PosInv b) (hd : DataInv b)
    (hs : 0 < r.size) : PosInv (b.put hash cfg r).1 ∧ DataInv (b.put hash cfg r).1 := by
  have h1 := (append_spec cfg b r hp hs).2.2.1
  have h2 := append_dataInv cfg b r hp hd hs
  have hc : ∀ i, ((b.put hash cfg r).1.chunks i).recs = ((b.append cfg r).1.chunks i).recs ∧
      ((b.put hash cfg r).1.chunks i).size = ((b.append cfg r).1.chunks i).size := fun i => ⟨rfl, rfl⟩
  exact ⟨posInv_congr hc rfl h1, dataInv_congr hc h2⟩

theorem cas_pos_data (hash : Key → Nat) (cfg : Store.Cfg) (b : Bucket) (hp : PosInv b) (hd : DataInv b)
    (k : Key) (body : Bytes) (flag : Nat) (rev : Int) (ts : Option Nat) (size wts : Nat) (hs : 0 < size) :
    PosInv (checkAndSet hash cfg b k body flag rev ts size wts).1 ∧
    DataInv (checkAndSet hash cfg b k body flag rev ts size wts).1 := by
  have hput : ∀ v, PosInv (b.put hash cfg { key := k, ver := v, flag := flag, ts := ts, body := body, size := size, wts := wts }).1 ∧
      DataInv (b.put hash cfg { key := k, ver := v, flag := flag, ts := ts, body := body, size := size, wts := wts }).1 :=
    fun v => put_pos_data hash cfg b _ hp hd hs
  cases h1 : AMap.get b.tree (hash k) with
  | none =>
    rw [cas_none hash cfg b k body flag rev ts size wts h1]
    split
    · exact ⟨hp, hd⟩
    · split
      · exact ⟨hp, hd⟩
      · exact hput _
  | some it =>
    rw [cas_some hash cfg b k body flag rev ts size wts it h1]
    have ht : ∀ t, PosInv ({ b with tree := t } : Bucket) ∧ DataInv ({ b with tree := t } : Bucket) :=
      fun t => ⟨posInv_congr (b := b) (fun i => ⟨rfl, rfl⟩) rfl hp, dataInv_congr (b := b) (fun i => ⟨rfl, rfl⟩) hd⟩
    by_cases hA : (it.ver > 0 ∧ (if rev ≥ 0 then vhashOf body else 0) = it.vhash) ∧ cfg.checkVHash = true
    · rw [if_pos hA]
      by_cases hr : rev ≠ 0
      · rw [if_pos hr]; exact ht _
      · rw [if_neg hr]; exact ⟨hp, hd⟩
    · rw [if_neg hA]
      by_cases hB : (nextVer it.ver rev).2 = false
      · rw [if_pos hB]; exact ⟨hp, hd⟩
      · rw [if_neg hB]
        by_cases hC : (nextVer it.ver rev).1 < 0 ∧ it.ver < 0
        · rw [if_pos hC]; exact ⟨hp, hd⟩
        · rw [if_neg hC]; exact hput _

theorem step_pos_data (hash : Key → Nat) (K : Key → Prop) (cfg : Store.Cfg) {b : Bucket} (hp : PosInv b)
    (hd : DataInv b) (R : Nat) (op : Op) (hop : OpOK2 K R op) :
    PosInv (Store.step hash cfg b op).1 ∧ DataInv (Store.step hash cfg b op).1 := by
  cases op with
  | set k body flag rev ts size =>
    obtain ⟨_, hs, _, _, _⟩ := hop
    have := cas_pos_data hash cfg b hp hd k body flag rev (some ts) size ts hs
    rw [StoreLemmas.step_set]
    generalize checkAndSet hash cfg b k body flag rev (some ts) size ts = res at this
    obtain ⟨b', c⟩ := res
    cases c <;> exact this
  | delete k size wts =>
    obtain ⟨_, hs⟩ := hop
    have := cas_pos_data hash cfg b hp hd k [] 0 (-1) none size wts hs
    rw [step_delete]
    generalize checkAndSet hash cfg b k [] 0 (-1) none size wts = res at this
    obtain ⟨b', c⟩ := res
    cases c <;> exact this
  | incr k d size wts =>
    obtain ⟨_, hs⟩ := hop
    have hput : ∀ ver v, PosInv (b.put hash cfg { key := k, ver := ver, flag := Spec.FLAG_INCR, ts := none, body := Spec.itoa v, size := size, wts := wts }).1 ∧
        DataInv (b.put hash cfg { key := k, ver := ver, flag := Spec.FLAG_INCR, ts := none, body := Spec.itoa v, size := size, wts := wts }).1 :=
      fun ver v => put_pos_data hash cfg b _ hp hd hs
    simp only [Store.step]
    split
    · exact hput _ _
    · exact ⟨hp, hd⟩
    · exact ⟨hp, hd⟩
    · split
      · exact hput _ _
      · split
        · exact ⟨hp, hd⟩
        · split
          · exact ⟨hp, hd⟩
          · split
            · exact ⟨hp, hd⟩
            · exact hput _ _
  | get k => simp only [Store.step]; split <;> (try split) <;> exact ⟨hp, hd⟩
  | info k => simp only [Store.step]; split <;> exact ⟨hp, hd⟩
  | flush =>
    have hc : ∀ i, ((Store.step hash cfg b .flush).1.chunks i).recs = (b.chunks i).recs ∧
        ((Store.step hash cfg b .flush).1.chunks i).size = (b.chunks i).size := by
      intro i
      simp only [Store.step, Bucket.chunk]
      rw [chunks_setChunk]
      by_cases h : i = b.head
      · subst h; simp
      · simp [h]
    exact ⟨posInv_congr hc rfl hp, dataInv_congr hc hd⟩
  | reopen keep =>
    have hf := reopen_facts hash cfg b hp keep
    exact ⟨hf.2.2.1, dataInv_congr (b := b) (fun i => ⟨rfl, rfl⟩) hd⟩

/-- after EVERY history of client commands, flushes and restarts, every data file of the bucket has well-formed
    offsets and its size is the end of its last record -/
theorem run_pos_data (hash : Key → Nat) (K : Key → Prop) (cfg : Store.Cfg) (R : Nat) (ops : List Op) :
    ∀ (b : Bucket), PosInv b → DataInv b → (∀ op ∈ ops, OpOK2 K R op) →
      PosInv (Store.run hash cfg b ops).1 ∧ DataInv (Store.run hash cfg b ops).1 := by
  induction ops with
  | nil => intro b hp hd _; exact ⟨hp, hd⟩
  | cons op ops ih =>
    intro b hp hd hops
    obtain ⟨hp', hd'⟩ := step_pos_data hash K cfg hp hd R op (hops op (by simp))
    have := ih _ hp' hd' (fun o ho => hops o (by simp [ho]))
    simpa [Store.run] using this

theorem dataInv_init : DataInv ({} : Bucket) := by
  intro i
  exact ⟨⟨by simp [Bucket.chunks], by intro p hp; simp [Bucket.chunks] at hp⟩, by intro p hp; simp [Bucket.chunks] at hp⟩

theorem posInv_init : PosInv ({} : Bucket) :=
  ⟨by intro i o r hm; simp [Bucket.chunks] at hm, by intro i _; exact ⟨rfl, rfl⟩⟩

/-- The code path on a reachable bucket.  After any history (client commands, flushes, restarts), whatever is left on
    disk of hint split files that described the data files (`DiskOK`; e.g. any subset of them removed): the tree built
    by the hint mechanism of `Bucket.open` answers every key exactly like the tree of the model's restart
    `Store.step … (.reopen false)`. -/
theorem bucket_restart_eq_reopen (hash : Key → Nat) (K : Key → Prop) (hInj : InjOn hash K) (cfg : Store.Cfg)
    (cap : Nat) (hcap : 1 ≤ cap) (R : Nat) (ops : List Op) (hops : ∀ op ∈ ops, OpOK2 K R op)
    (hK : ∀ x ∈ (Store.run hash cfg {} ops).1.log, K x.2.key)
    (disks : List (List (Option SplitFile)))
    (hd : Forall2 (DiskOK hash) ((Store.run hash cfg {} ops).1.chunkList.map (·.recs)) disks) (k : Key) (hk : K k) :
    AMap.get (restartTree hash cap ((Store.run hash cfg {} ops).1.chunkList.map (·.recs)) disks) (hash k) =
      AMap.get (Store.step hash cfg (Store.run hash cfg {} ops).1 (.reopen false)).1.tree (hash k) := by
  obtain ⟨_, hdi⟩ := run_pos_data hash K cfg R ops {} posInv_init dataInv_init hops
  generalize (Store.run hash cfg {} ops).1 = b at *
  have hc : ∀ f ∈ b.chunkList.map (·.recs), Contig f := by
    intro f hf
    obtain ⟨c, hc, rfl⟩ := List.mem_map.mp hf
    unfold Bucket.chunkList at hc
    obtain ⟨i, _, rfl⟩ := List.mem_map.mp hc
    exact (hdi i).1
  have hfh := (openFiles_spec hash cap hcap _ disks hd hc).1
  exact (reopen_tree_is_hintReplay hash K hInj cfg b hK _ hfh k hk).symm

/-! ### non-vacuity and sanity evaluations -/

def exK : Key → Prop := fun k => k = [97] ∨ k = [98] ∨ k = [99]
def exHash : Key → Nat := fun k => k.length * 1000 + (k.headD 0).toNat
def exRec (k : Nat) (ver : Int) (body : Bytes) (size : Nat := 256) : Rec :=
  { key := [k.toUInt8], ver := ver, flag := 0, ts := some 1, body := body, size := size }
/-- a: set, overwritten, deleted in the next file; b: set, deleted, set again in the next file; c: set three times -/
def exFile0 : FileRecs :=
  [(0, exRec 97 1 [1]), (256, exRec 98 1 [2, 2] 512), (768, exRec 97 2 [3]), (1024, exRec 98 (-2) []), (1280, exRec 99 1 [9])]
def exFile1 : FileRecs :=
  [(0, exRec 98 3 [4]), (256, exRec 99 2 [5]), (512, exRec 97 (-3) []), (768, exRec 99 3 [6])]
def exFiles : List FileRecs := [exFile0, exFile1]
def exLook (t : Tree) : List (Option TItem) := [[97], [98], [99], [100]].map (fun k => AMap.get t (exHash k))

theorem exInj : InjOn exHash exK := by
  intro a b ha hb _
  rcases ha with rfl | rfl | rfl <;> rcases hb with rfl | rfl | rfl <;> simp_all [exHash]

theorem exKeys : ∀ f ∈ exFiles, ∀ p ∈ f, exK p.2.key := by
  intro f hf p hp
  simp [exFiles] at hf
  rcases hf with rfl | rfl
  · simp [exFile0] at hp
    rcases hp with rfl | rfl | rfl | rfl | rfl <;> simp [exK, exRec]
  · simp [exFile1] at hp
    rcases hp with rfl | rfl | rfl | rfl <;> simp [exK, exRec]

theorem exContig : ∀ f ∈ exFiles, Contig f := by
  intro f hf
  simp [exFiles] at hf
  rcases hf with rfl | rfl <;> (unfold Contig; decide)

/-- the hypotheses of the main theorems hold on a concrete log with overwrites, tombstones and two files -/
example (cuts : List (List Nat)) (gone : List Bool) (k : Key) (hk : exK k) :
    AMap.get (hintReplay (chooseHints exHash exFiles cuts gone)) (exHash k) =
      AMap.get (replayTree exHash (logOf exFiles)) (exHash k) :=
  hints_cut_or_rebuilt exHash exK exInj exFiles exKeys cuts gone k hk

/-- … and the two sides evaluate: a deleted, b and c at their last records in file 1 -/
example : exLook (replayTree exHash (logOf exFiles)) =
    [none, some { pos := ⟨1, 0⟩, ver := 3, vhash := vhashOf [4] }, some { pos := ⟨1, 768⟩, ver := 3, vhash := vhashOf [6] }, none] := by
  decide +kernel
example : exLook (hintReplay (chooseHints exHash exFiles [[2, 1], [1]] [false, false])) =
    exLook (replayTree exHash (logOf exFiles)) := by decide +kernel
example : exLook (hintReplay (chooseHints exHash exFiles [[1, 1, 1, 1], []] [true, false])) =
    exLook (replayTree exHash (logOf exFiles)) := by decide +kernel
example : exLook (hintReplay (chooseHints exHash exFiles [] [true, true])) =
    exLook (replayTree exHash (logOf exFiles)) := by decide +kernel

/-- the split files of file 0 cut after 2 and 1 more records: sorted by key hash, one item per key and split, the
    tombstone of b with value hash 0 (write path) -/
example : (hintsOfFile exHash [2, 1] exFile0).map (fun s => s.map (fun it => (it.khash, it.off, it.ver))) =
    [[(1097, 0, 1), (1098, 256, 1)], [(1097, 768, 2)], [(1098, 1024, -2), (1099, 1280, 1)]] := by decide +kernel
/-- a data scan computes the value hash of the tombstone's empty body instead (never reaches the tree) -/
example : ((rebuiltHints exHash exFile0).map (fun s => s.map (fun it => (it.khash, it.off, it.ver, it.vhash == 0)))) =
    [[(1097, 768, 2, false), (1098, 1024, -2, false), (1099, 1280, 1, false)]] := by decide +kernel

/-! the buffer code: capacity 2, so file 0's hint chunk closes a split whenever a third key arrives -/
def exDisk0 : List (Option SplitFile) := (HChunk.run 2 (writeEvents exHash exFile0)).disk
example : (exDisk0.filterMap id).map (fun f => (f.items.map (fun it => (it.khash, it.off, it.ver)), f.datasize)) =
    [([(1097, 768, 2), (1098, 1024, -2)], 1280), ([(1099, 1280, 1)], 1536)] := by decide +kernel

/-- first split file removed: nothing is kept (the numbering must start at 0), the whole file is rescanned -/
example : (checkHintWithData exHash 2 exFile0 (dataSizeOf exFile0) [none, exDisk0.getD 1 none]).map
      (fun f => (f.items.map (fun it => (it.khash, it.off, it.ver)), f.datasize)) =
    [([(1097, 768, 2), (1098, 1024, -2)], 1280), ([(1099, 1280, 1)], 1536)] := by decide +kernel
/-- second split file removed: the first is kept, the scan starts at its `datasize` 1280 -/
example : scanFrom 1280 exFile0 = [(1280, exRec 99 1 [9])] := by decide +kernel
example : exLook (restartTree exHash 2 exFiles [[exDisk0.getD 0 none, none], []]) =
    exLook (replayTree exHash (logOf exFiles)) := by decide +kernel

/-- the code-path theorem applies to that instance: the masked directory is `DiskOK` -/
example (k : Key) (hk : exK k) :
    AMap.get (restartTree exHash 2 exFiles [[exDisk0.getD 0 none, none], []]) (exHash k) =
      AMap.get (replayTree exHash (logOf exFiles)) (exHash k) := by
  have h0 : DiskOK exHash exFile0 [exDisk0.getD 0 none, none] := by
    have := written_diskInv exHash 2 (by omega) (exFile0.map some) (by rw [filterMap_map_some]; exact exContig _ (by simp [exFiles]))
      [exDisk0.getD 0 none, none] (by
        rw [← writeEvents_eq]
        show Masked exDisk0 _
        have : exDisk0 = [exDisk0.getD 0 none, exDisk0.getD 1 none] := by decide +kernel
        rw [this]
        exact Masked.keep (Masked.drop Masked.nil))
    rw [filterMap_map_some] at this
    obtain ⟨segs, h1, h2⟩ := this
    exact ⟨segs, 0, h1, by simpa using h2⟩
  have h1 : DiskOK exHash exFile1 [] := ⟨[exFile1], 1, by simp, by simp [DiskInv]⟩
  exact restart_eq_replay exHash exK exInj 2 (by omega) exFiles exKeys exContig _
    (Forall2.cons h0 (Forall2.cons h1 Forall2.nil)) k hk

/-! `HintBuffer.Set` with two keys on one key hash (the `collisions` map), capacity 3 -/
def exIt (kh k off : Nat) (ver : Int := 1) : Item := { khash := kh, chunk := 0, off := off, ver := ver, vhash := 7, key := [k.toUInt8] }
def exEvs : List Ev := [.set (exIt 5 1 0) 256, .set (exIt 5 2 256) 256, .set (exIt 6 3 512) 256, .set (exIt 5 1 768) 256,
  .set (exIt 5 2 1024 (-2)) 256, .rotate, .set (exIt 9 9 1280) 512, .set (exIt 5 4 1792) 256, .set (exIt 5 7 2048) 256,
  .set (exIt 5 8 2304) 256]
example : ((HChunk.run 3 exEvs).disk.filterMap id).map (fun f => (f.items.map (fun it => (it.khash, (it.key.headD 0).toNat, it.off, it.ver)), f.datasize)) =
    [([(5, 1, 768, 1), (5, 2, 1024, -2), (6, 3, 512, 1)], 1280),
     ([(5, 4, 1792, 1), (5, 7, 2048, 1), (9, 9, 1280, 1)], 2304),     -- closed because full: datasize = START of the refused record
     ([(5, 8, 2304, 1)], 2560)] := by decide +kernel
example : (HChunk.run 3 exEvs).closed.map
      (fun b => (b.index, b.collisions.map (fun p => (p.1, p.2.map (fun q => ((q.1.headD 0).toNat, q.2)))))) =
    [([(5, 1), (6, 2)], [(5, [(2, 1), (1, 0)])]), ([(5, 2), (9, 0)], [(5, [(7, 2), (4, 1)])])] := by decide +kernel
/-- with `SplitCap = 0` every item is refused twice and lost: the hypothesis `1 ≤ cap` is needed -/
example : (HChunk.run 0 [.set (exIt 5 1 0) 256]).disk = [none, none] := by decide +kernel

/-- two keys with one key hash in one split: the split file is sorted by (keyhash, key), so after a rebuild the slot
    belongs to the greater KEY, whereas the replay of the data gives it to the later RECORD — the hypothesis `InjOn` is
    needed (colliding keys: C13, collision table) -/
def exColl : FileRecs := [(0, exRec 98 1 [1]), (256, exRec 97 1 [2])]
example : AMap.get (hintReplay [hintsOfFile (fun _ => 5) [] exColl]) 5 ≠ AMap.get (replayTree (fun _ => 5) (logOf [exColl])) 5 := by
  decide +kernel

/-- start with a tree dump `(0, 0)` that knows a (deleted, entry kept with version -3) and an unrelated key at hash 77:
    chunk 0 (one split file ≤ ts + 1) is skipped, chunk 1 is applied; the tombstone entry of the dump is removed by the
    tombstone item of chunk 1, the unrelated entry survives -/
example :
    let t0 : Tree := [(1097, { pos := ⟨0, 768⟩, ver := 2, vhash := 1 }), (77, { pos := ⟨0, 5⟩, ver := -1, vhash := 0 })]
    let t := openTree 0 0 t0 (chooseHints exHash exFiles [] [false, false])
    (AMap.get t 1097, AMap.get t 1098, AMap.get t 77) =
      (none, some { pos := ⟨1, 0⟩, ver := 3, vhash := vhashOf [4] }, some { pos := ⟨0, 5⟩, ver := -1, vhash := 0 }) := by
  decide +kernel
example : openLog 0 0 0 exFiles (chooseHints exHash exFiles [] [false, false]) = fileLog 1 exFile1 := by decide +kernel

end HintIndexLemmas
