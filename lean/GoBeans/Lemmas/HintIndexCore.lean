/-
  The tree built at start from hint split files = the replay of the data log (C02: hint files are rebuildable
  caches).  For every log, every cut of every file's record sequence into splits, every order of the items inside a
  split file, every mix of write-path and rebuilt-from-data split files, and a key hash injective on the keys used:
  `AMap.get (hintReplay …) (hash k) = AMap.get (replayTree hash log) (hash k)`  (`hintReplay_eq_replay`).
-/
import GoBeans.Lemmas.Log
import GoBeans.Model.HintIndex
set_option linter.unusedSimpArgs false
set_option linter.unusedVariables false
namespace HintIndexLemmas
open Store Spec StoreLemmas HintIndex

/-- two lists related element by element (core has no `Forall2`) -/
inductive Forall2 {α β : Type} (R : α → β → Prop) : List α → List β → Prop
  | nil : Forall2 R [] []
  | cons {a b l₁ l₂} : R a b → Forall2 R l₁ l₂ → Forall2 R (a :: l₁) (b :: l₂)

/-! ### applying one split file: the LAST item of a hash decides its slot -/

/-- the last item of a file that addresses slot `h` -/
def lastWith (h : Nat) (items : List Item) : Option Item := (items.filter (fun it => it.khash = h)).getLast?

/-- what an item leaves in its slot -/
def liveItem (c : Nat) (it : Item) : Option TItem :=
  if it.ver > 0 then some { pos := { chunk := c, off := it.off }, ver := it.ver, vhash := it.vhash } else none

theorem lastWith_cons (h : Nat) (x : Item) (l : List Item) :
    lastWith h (x :: l) = (lastWith h l).or (if x.khash = h then some x else none) := by
  unfold lastWith
  by_cases hx : x.khash = h
  · simp only [List.filter_cons, hx, decide_true, if_true]
    rw [List.getLast?_cons]
    cases (l.filter fun it => it.khash = h).getLast? <;> simp
  · simp [List.filter_cons, hx]

theorem applyFile_get (c : Nat) (items : List Item) :
    ∀ (t : Tree) (h : Nat), AMap.get (applyFile c t items) h =
      (match lastWith h items with
       | some it => liveItem c it
       | none => AMap.get t h) := by
  induction items with
  | nil => intro t h; simp [applyFile, lastWith]
  | cons x l ih =>
    intro t h
    have e : applyFile c t (x :: l) = applyFile c (applyItem c t x) l := rfl
    rw [e, ih, lastWith_cons]
    cases hl : lastWith h l with
    | some y => simp
    | none =>
      simp only [Option.none_or]
      unfold applyItem
      by_cases hx : x.khash = h
      · subst hx
        by_cases hv : x.ver > 0
        · simp [hv, liveItem]
        · simp [hv, liveItem, AMap.get_erase_self]
      · by_cases hv : x.ver > 0
        · simp only [hv, if_true, hx, if_false]
          rw [AMap.get_set_ne _ _ _ _ hx]
        · simp only [hv, if_false, hx]
          rw [AMap.get_erase_ne _ _ _ hx]

/-! ### deduplication inside a split -/

theorem sameKey_iff (a b : Item) : sameKey a b = true ↔ a.khash = b.khash ∧ a.key = b.key := by
  simp [sameKey]

theorem dedupLast_subset {l : List Item} {it : Item} (h : it ∈ dedupLast l) : it ∈ l := by
  induction l with
  | nil => simp [dedupLast] at h
  | cons x l ih =>
    unfold dedupLast at h
    by_cases hd : l.any (sameKey x) = true
    · simp only [hd, if_true] at h; exact List.mem_cons_of_mem _ (ih h)
    · simp only [hd] at h
      rcases List.mem_cons.mp h with h | h
      · subst h; simp
      · exact List.mem_cons_of_mem _ (ih h)

section Keyed
variable (hash : Key → Nat) (K : Key → Prop)

/-- every item carries the hash of its own key, and the key is one of the keys in use -/
def Keyed (l : List Item) : Prop := ∀ it ∈ l, it.khash = hash it.key ∧ K it.key

theorem filter_dedupLast (hInj : InjOn hash K) (l : List Item) (hl : Keyed hash K l) (k : Key) (hk : K k) :
    (dedupLast l).filter (fun it => it.khash = hash k) = (lastWith (hash k) l).toList := by
  induction l with
  | nil => simp [dedupLast, lastWith]
  | cons x l ih =>
    have hl' : Keyed hash K l := fun it hit => hl it (List.mem_cons_of_mem _ hit)
    have ih' := ih hl'
    have hx := hl x (by simp)
    rw [lastWith_cons]
    unfold dedupLast
    by_cases hd : l.any (sameKey x) = true
    · simp only [hd, if_true]
      rw [ih']
      by_cases hxk : x.khash = hash k
      · -- a later item of the same key exists: it decides
        obtain ⟨y, hy, hs⟩ := List.any_eq_true.mp hd
        rw [sameKey_iff] at hs
        have hne : lastWith (hash k) l ≠ none := by
          unfold lastWith
          intro hn
          rw [List.getLast?_eq_none_iff] at hn
          have : y ∈ l.filter (fun it => it.khash = hash k) := by
            simp [List.mem_filter, hy, ← hs.1, hxk]
          rw [hn] at this; simp at this
        cases hlw : lastWith (hash k) l with
        | none => exact absurd hlw hne
        | some z => simp
      · simp [hxk]
    · simp only [hd]
      by_cases hxk : x.khash = hash k
      · -- no later item of this key, hence none of this hash
        have hnone : ∀ y ∈ l, y.khash ≠ hash k := by
          intro y hy hyk
          have hyK := hl' y hy
          have : y.key = x.key := by
            apply hInj _ _ hyK.2 hx.2
            rw [← hyK.1, ← hx.1, hyk, hxk]
          apply hd
          apply List.any_eq_true.mpr
          exact ⟨y, hy, by rw [sameKey_iff]; exact ⟨by rw [hxk, hyk], this.symm⟩⟩
        have h1 : l.filter (fun it => it.khash = hash k) = [] := by
          rw [List.filter_eq_nil_iff]; intro y hy; simpa using hnone y hy
        have h2 : (dedupLast l).filter (fun it => it.khash = hash k) = [] := by
          rw [List.filter_eq_nil_iff]; intro y hy; simpa using hnone y (dedupLast_subset hy)
        have h3 : lastWith (hash k) l = none := by unfold lastWith; rw [h1]; rfl
        simp [List.filter_cons, hxk, h2, h3]
      · simp [List.filter_cons, hxk, ih']

/-- any arrangement of the deduplicated items of a sequence has, per slot, the same deciding item as the sequence -/
theorem lastWith_perm_dedup (hInj : InjOn hash K) (l items : List Item) (hl : Keyed hash K l)
    (hp : items.Perm (dedupLast l)) (k : Key) (hk : K k) :
    lastWith (hash k) items = lastWith (hash k) l := by
  have h1 : (items.filter (fun it => it.khash = hash k)).Perm ((lastWith (hash k) l).toList) := by
    rw [← filter_dedupLast hash K hInj l hl k hk]
    exact hp.filter _
  have h2 : items.filter (fun it => it.khash = hash k) = (lastWith (hash k) l).toList := by
    cases hlw : lastWith (hash k) l with
    | none => rw [hlw] at h1; simpa using h1
    | some z => rw [hlw] at h1; simpa using h1
  unfold lastWith at *
  rw [h2]
  cases (l.filter fun it => it.khash = hash k).getLast? <;> simp

/-! ### items of records -/

theorem mkItem_khash (scan : Bool) (p : Nat × Rec) : (mkItem hash scan p).khash = hash p.2.key := by
  cases scan <;> rfl

theorem mkItem_key (scan : Bool) (p : Nat × Rec) : (mkItem hash scan p).key = p.2.key := by
  cases scan <;> rfl

theorem keyed_map (scan : Bool) (seg : FileRecs) (hseg : ∀ p ∈ seg, K p.2.key) :
    Keyed hash K (seg.map (mkItem hash scan)) := by
  intro it hit
  obtain ⟨p, hp, rfl⟩ := List.mem_map.mp hit
  rw [mkItem_khash, mkItem_key]
  exact ⟨rfl, hseg p hp⟩

/-- an item of a record leaves in the tree what the replay of that record leaves — the value hash of a tombstone
    (0 on the write path, hash of the empty body after a scan) never reaches the tree -/
theorem liveItem_mkItem (scan : Bool) (c : Nat) (p : Nat × Rec) :
    liveItem c (mkItem hash scan p) = itemOfLast (some (({ chunk := c, off := p.1 } : Pos), p.2)) := by
  cases scan
  · by_cases hv : p.2.ver > 0 <;> simp [liveItem, mkItem, itemOfWrite, itemOfLast, hv]
  · by_cases hv : p.2.ver > 0 <;> simp [liveItem, mkItem, itemOfScan, itemOfLast, hv]

theorem lastWith_map (hInj : InjOn hash K) (scan : Bool) (c : Nat) (seg : FileRecs) (hseg : ∀ p ∈ seg, K p.2.key)
    (k : Key) (hk : K k) :
    (lastWith (hash k) (seg.map (mkItem hash scan))).bind (liveItem c) =
      (match lastOf k (fileLog c seg) with
       | some x => itemOfLast (some x)
       | none => none) ∧
    ((lastWith (hash k) (seg.map (mkItem hash scan))).isSome = (lastOf k (fileLog c seg)).isSome) := by
  induction seg with
  | nil => simp [lastWith, lastOf, fileLog]
  | cons p seg ih =>
    have ih' := ih (fun q hq => hseg q (List.mem_cons_of_mem _ hq))
    have hp := hseg p (by simp)
    have e : fileLog c (p :: seg) = (({ chunk := c, off := p.1 } : Pos), p.2) :: fileLog c seg := rfl
    rw [List.map_cons, lastWith_cons, e, lastOf_cons]
    have hiff : ((mkItem hash scan p).khash = hash k) ↔ (p.2.key = k) := by
      rw [mkItem_khash]
      exact ⟨fun h => hInj _ _ hp hk h, fun h => by rw [h]⟩
    cases h1 : lastWith (hash k) (seg.map (mkItem hash scan)) with
    | some y =>
      rw [h1] at ih'
      cases h2 : lastOf k (fileLog c seg) with
      | none => rw [h2] at ih'; simp at ih'
      | some x => rw [h2] at ih'; simpa using ih'.1
    | none =>
      rw [h1] at ih'
      cases h2 : lastOf k (fileLog c seg) with
      | some x => rw [h2] at ih'; simp at ih'
      | none =>
        by_cases hkk : p.2.key = k
        · have := hiff.mpr hkk
          simp [this, hkk, liveItem_mkItem]
        · have : ¬ (mkItem hash scan p).khash = hash k := fun h => hkk (hiff.mp h)
          simp [this, hkk]

/-! ### one split file = the replay of its records -/

/-- `items` is a possible content of the split file of the record run `seg`: the last item per key, in ANY order
    (the code writes them sorted by (keyhash, key)), built on the write path or by a data scan -/
def SplitFileOf (seg : FileRecs) (items : List Item) : Prop :=
  ∃ scan, items.Perm (dedupLast (seg.map (mkItem hash scan)))

/-- applying a split file and replaying its records keep two trees in agreement on every key in use -/
theorem applyFile_split (hInj : InjOn hash K) (c : Nat) (seg : FileRecs) (hseg : ∀ p ∈ seg, K p.2.key)
    (items : List Item) (hs : SplitFileOf hash seg items) (t t' : Tree)
    (hag : ∀ k, K k → AMap.get t (hash k) = AMap.get t' (hash k)) :
    ∀ k, K k → AMap.get (applyFile c t items) (hash k) =
      AMap.get ((fileLog c seg).foldl (replayStep hash) t') (hash k) := by
  intro k hk
  obtain ⟨scan, hp⟩ := hs
  have hlog : ∀ x ∈ fileLog c seg, K x.2.key := by
    intro x hx
    obtain ⟨p, hp', rfl⟩ := List.mem_map.mp hx
    exact hseg p hp'
  rw [applyFile_get, replay_from hash K hInj (fileLog c seg) hlog k hk,
      lastWith_perm_dedup hash K hInj _ items (keyed_map hash K scan seg hseg) hp k hk]
  obtain ⟨h1, h2⟩ := lastWith_map hash K hInj scan c seg hseg k hk
  cases ha : lastWith (hash k) (seg.map (mkItem hash scan)) with
  | some y =>
    rw [ha] at h1 h2
    cases hb : lastOf k (fileLog c seg) with
    | none => rw [hb] at h2; simp at h2
    | some x => rw [hb] at h1; simpa using h1
  | none =>
    rw [ha] at h2
    cases hb : lastOf k (fileLog c seg) with
    | some x => rw [hb] at h2; simp at h2
    | none => exact hag k hk

/-! ### one data file, all data files -/

/-- `splits` are possible split files of the data file with records `recs`: some cut of the record sequence into
    consecutive runs, one split file per run -/
def FileHintsOf (recs : FileRecs) (splits : List (List Item)) : Prop :=
  ∃ segs : List FileRecs, segs.flatten = recs ∧ Forall2 (SplitFileOf hash) segs splits

theorem fileLog_append (c : Nat) (a b : FileRecs) : fileLog c (a ++ b) = fileLog c a ++ fileLog c b := by
  simp [fileLog]

theorem applySplits_segs (hInj : InjOn hash K) (c : Nat) (segs : List FileRecs) (splits : List (List Item))
    (h : Forall2 (SplitFileOf hash) segs splits) :
    (∀ p ∈ segs.flatten, K p.2.key) → ∀ (t t' : Tree), (∀ k, K k → AMap.get t (hash k) = AMap.get t' (hash k)) →
    ∀ k, K k → AMap.get (applySplits c t splits) (hash k) =
      AMap.get ((fileLog c segs.flatten).foldl (replayStep hash) t') (hash k) := by
  induction h with
  | nil => intro _ t t' hag k hk; simpa [applySplits, fileLog] using hag k hk
  | @cons seg items segs' splits' hs _ ih =>
    intro hK t t' hag
    have hseg : ∀ p ∈ seg, K p.2.key := fun p hp => hK p (by simp [hp])
    have hrest : ∀ p ∈ segs'.flatten, K p.2.key := fun p hp => hK p (by simp [hp])
    have e1 : applySplits c t (items :: splits') = applySplits c (applyFile c t items) splits' := rfl
    rw [e1, List.flatten_cons, fileLog_append, List.foldl_append]
    exact ih hrest _ _ (applyFile_split hash K hInj c seg hseg items hs t t' hag)

theorem applySplits_file (hInj : InjOn hash K) (c : Nat) (recs : FileRecs) (hK : ∀ p ∈ recs, K p.2.key)
    (splits : List (List Item)) (h : FileHintsOf hash recs splits) (t t' : Tree)
    (hag : ∀ k, K k → AMap.get t (hash k) = AMap.get t' (hash k)) :
    ∀ k, K k → AMap.get (applySplits c t splits) (hash k) =
      AMap.get ((fileLog c recs).foldl (replayStep hash) t') (hash k) := by
  obtain ⟨segs, rfl, hf⟩ := h
  exact applySplits_segs hash K hInj c segs splits hf hK t t' hag

theorem hintReplayFrom_agree (hInj : InjOn hash K) (files : List FileRecs) (hints : List (List (List Item)))
    (h : Forall2 (FileHintsOf hash) files hints) :
    (∀ f ∈ files, ∀ p ∈ f, K p.2.key) → ∀ (c : Nat) (t t' : Tree),
    (∀ k, K k → AMap.get t (hash k) = AMap.get t' (hash k)) →
    ∀ k, K k → AMap.get (hintReplayFrom c t hints) (hash k) =
      AMap.get ((logFrom c files).foldl (replayStep hash) t') (hash k) := by
  induction h with
  | nil => intro _ c t t' hag k hk; simpa [hintReplayFrom, logFrom] using hag k hk
  | @cons recs splits files' hints' hf _ ih =>
    intro hK c t t' hag
    have e1 : hintReplayFrom c t (splits :: hints') = hintReplayFrom (c + 1) (applySplits c t splits) hints' := rfl
    have e2 : logFrom c (recs :: files') = fileLog c recs ++ logFrom (c + 1) files' := rfl
    rw [e1, e2, List.foldl_append]
    exact ih (fun f hf' => hK f (List.mem_cons_of_mem _ hf')) (c + 1) _ _
      (applySplits_file hash K hInj c recs (hK recs (by simp)) splits hf t t' hag)

/-- MAIN THEOREM.  For every log (list of data files, each a list of records), every family of hint split files
    that can exist for it (per file: any cut into splits, items of a split in any order, each split from the write
    path or from a data scan), and a key hash injective on the keys used: the tree `Bucket.open` builds from the
    hint files answers every key exactly like the replay of all data records in (file, offset) order. -/
theorem hintReplay_eq_replay (hInj : InjOn hash K) (files : List FileRecs) (hK : ∀ f ∈ files, ∀ p ∈ f, K p.2.key)
    (hints : List (List (List Item))) (h : Forall2 (FileHintsOf hash) files hints) (k : Key) (hk : K k) :
    AMap.get (hintReplay hints) (hash k) = AMap.get (replayTree hash (logOf files)) (hash k) :=
  hintReplayFrom_agree hash K hInj files hints h hK 0 [] [] (fun _ _ => rfl) k hk

end Keyed
end HintIndexLemmas
