/-
  `dataStore.AppendRecord` file by file: which file gets the record, at which offset, and that nothing else changes.
-/
import GoBeans.Model.Collide
import GoBeans.Lemmas.Log
set_option linter.unusedSimpArgs false
set_option linter.unusedVariables false
namespace CollideLemmas
open Store Spec HintIndex Collide StoreLemmas

theorem append_rot (cfg : Store.Cfg) (b : Bucket) (r : Rec) (hrot : (b.chunks b.head).size + r.size > cfg.dataFileMax) :
    b.append cfg r = (b.sealHead.pushRec (b.head + 1) 0 r, ⟨b.head + 1, 0⟩) := by
  unfold Bucket.append Bucket.slot
  simp only [hrot, ↓reduceIte]

theorem append_norot (cfg : Store.Cfg) (b : Bucket) (r : Rec) (hrot : ¬ (b.chunks b.head).size + r.size > cfg.dataFileMax) :
    b.append cfg r = (b.pushRec b.head (b.chunks b.head).size r, ⟨b.head, (b.chunks b.head).size⟩) := by
  unfold Bucket.append Bucket.slot
  simp only [hrot, ↓reduceIte]
  rfl

theorem pushRec_recs (b : Bucket) (ck off : Nat) (r : Rec) (c : Nat) :
    ((b.pushRec ck off r).chunks c).recs = if c = ck then (b.chunks ck).recs ++ [(off, r)] else (b.chunks c).recs := by
  unfold Bucket.pushRec
  simp only [chunks_setChunk]
  by_cases h : c = ck
  · simp [h]
  · simp [h]

theorem append_chunks (cfg : Store.Cfg) (b : Bucket) (r : Rec) (hp : PosInv b) :
    ((b.append cfg r).1.chunks (b.append cfg r).2.chunk).recs = (b.chunks (b.append cfg r).2.chunk).recs ++ [((b.append cfg r).2.off, r)]
    ∧ (∀ c, c ≠ (b.append cfg r).2.chunk → ((b.append cfg r).1.chunks c).recs = (b.chunks c).recs)
    ∧ ((b.append cfg r).2.chunk = b.head ∨ (b.append cfg r).2.chunk = b.head + 1)
    ∧ (b.append cfg r).1.head = (b.append cfg r).2.chunk
    ∧ (b.append cfg r).2.off = (b.chunks (b.append cfg r).2.chunk).size
    ∧ (b.append cfg r).2.off ≤ cfg.dataFileMax := by
  by_cases hrot : (b.chunks b.head).size + r.size > cfg.dataFileMax
  · rw [append_rot cfg b r hrot]
    have hf := hp.fresh (b.head + 1) (by omega)
    have hs := sealHead_recs b
    refine ⟨?_, ?_, Or.inr rfl, rfl, ?_, Nat.zero_le _⟩
    · show ((b.sealHead.pushRec (b.head + 1) 0 r).chunks (b.head + 1)).recs = _
      rw [pushRec_recs, if_pos rfl, (hs (b.head + 1)).1]
    · intro c hc
      show ((b.sealHead.pushRec (b.head + 1) 0 r).chunks c).recs = _
      rw [pushRec_recs, if_neg hc, (hs c).1]
    · show 0 = (b.chunks (b.head + 1)).size
      rw [hf.2]
  · rw [append_norot cfg b r hrot]
    refine ⟨?_, ?_, Or.inl rfl, rfl, rfl, ?_⟩
    · show ((b.pushRec b.head _ r).chunks b.head).recs = _
      rw [pushRec_recs, if_pos rfl]
    · intro c hc
      show ((b.pushRec b.head _ r).chunks c).recs = _
      rw [pushRec_recs, if_neg hc]
    · show (b.chunks b.head).size ≤ cfg.dataFileMax
      omega

theorem pushRec_size (b : Bucket) (ck off : Nat) (r : Rec) (c : Nat) :
    ((b.pushRec ck off r).chunks c).size = if c = ck then off + r.size else (b.chunks c).size := by
  unfold Bucket.pushRec
  simp only [chunks_setChunk]
  by_cases h : c = ck
  · simp [h]
  · simp [h]

theorem append_size (cfg : Store.Cfg) (b : Bucket) (r : Rec) :
    ((b.append cfg r).1.chunks (b.append cfg r).2.chunk).size = (b.append cfg r).2.off + r.size
    ∧ (∀ c, c ≠ (b.append cfg r).2.chunk → ((b.append cfg r).1.chunks c).size = (b.chunks c).size) := by
  by_cases hrot : (b.chunks b.head).size + r.size > cfg.dataFileMax
  · rw [append_rot cfg b r hrot]
    have hs := sealHead_recs b
    refine ⟨?_, ?_⟩
    · show ((b.sealHead.pushRec (b.head + 1) 0 r).chunks (b.head + 1)).size = _
      rw [pushRec_size, if_pos rfl]
    · intro c hc
      show ((b.sealHead.pushRec (b.head + 1) 0 r).chunks c).size = _
      rw [pushRec_size, if_neg hc, (hs c).2]
  · rw [append_norot cfg b r hrot]
    refine ⟨?_, ?_⟩
    · show ((b.pushRec b.head _ r).chunks b.head).size = _
      rw [pushRec_size, if_pos rfl]
    · intro c hc
      show ((b.pushRec b.head _ r).chunks c).size = _
      rw [pushRec_size, if_neg hc]

end CollideLemmas
