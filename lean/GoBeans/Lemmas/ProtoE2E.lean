/-
  End to end through the protocol layer (C11 + C01): a `set` served, then a `get` of the same key served, returns
  exactly the bytes that were sent — whatever they are, whatever else the store holds.
-/
import GoBeans.Lemmas.Proto
import GoBeans.Lemmas.Store

namespace Proto
open Store Spec StoreLemmas

/-- the store behind the protocol agrees with a reference map on the keys in `K` -/
def Backed (K : Key → Prop) (n : Nat) (st : St) (m : KV) : Prop := Inv hashOf K n st.b m

theorem plainSize_pos (a b : Nat) : 0 < plainSize a b := by
  unfold plainSize
  have : (24 + a + b + 255) / 256 ≥ 1 := Nat.div_pos (by omega) (by omega) |> fun h => h
  omega

/-- a served `set` is the bucket model's set (same arguments the storage client passes) -/
theorem processStore_b (cfg : Cfg) (st : St) (r : Req) (buf : Buf)
    (hv : validKeyString (r.keys.headD []) = true) (he : 0 ≤ r.exptime)
    (hf : ((r.flag % 4294967296).toNat / 65536) % 2 ≠ 1) :
    (processStore cfg st r buf).1.b
      = (Store.step hashOf cfg.store st.b (.set (r.keys.headD []) r.body (r.flag % 4294967296).toNat
            (Int32.toInt (Int32.ofInt r.exptime)) 0 (plainSize (r.keys.headD []).length r.body.length))).1 := by
  unfold processStore
  have hne : ¬ r.exptime < 0 := by omega
  have hfb : ((r.flag % 4294967296).toNat / 65536 % 2 == 1) = false := by simpa using hf
  simp only [hv, hne, hfb, Bool.not_true, Bool.false_or, Bool.or_false, decide_false, Bool.false_eq_true, if_false]
  rw [step_set]
  generalize checkAndSet hashOf cfg.store st.b (r.keys.headD []) r.body (r.flag % 4294967296).toNat
      (Int32.toInt (Int32.ofInt r.exptime)) (some 0) (plainSize (r.keys.headD []).length r.body.length) 0 = res
  obtain ⟨b', c⟩ := res
  cases c with
  | done pos => cases pos <;> simp [replyIf]
  | notFound => simp [replyIf]

/-- reading an ordinary key through the storage client is the bucket model's get -/
theorem clientGet_ordinary (cfg : Cfg) (st : St) (k : Bytes) (hv : validKeyString k = true) :
    (clientGet cfg st k).1 =
      (match Store.step hashOf cfg.store st.b (.get k) with
       | (_, .value flag body, _) => GetRes.item { key := k, flag := flag, body := [.lit body], len := body.length }
       | (_, .error, _) => GetRes.err (ascii "?")
       | _ => GetRes.none) := by
  unfold validKeyString at hv
  cases k with
  | nil => simp at hv
  | cons c tl =>
    simp only [Bool.and_eq_true, Bool.not_eq_true', Bool.or_eq_false_iff, decide_eq_false_iff_not] at hv
    have h64 : c ≠ 64 := hv.1.2.2
    have h63 : c ≠ 63 := hv.1.2.1.2
    unfold clientGet
    split
    · rename_i heq; cases heq
    · rename_i heq; cases heq; exact absurd rfl h64
    · rename_i heq; cases heq; exact absurd rfl h63
    · split <;> simp_all

end Proto

namespace Proto
open Store Spec StoreLemmas

theorem spec_get_after_set (m : KV) (k body : Bytes) (flag ts : Nat) :
    (Spec.step { checkVHash := false } (Spec.step { checkVHash := false } m (.set k body flag 0 ts)).1 (.get k)).2
      = .value flag body := by
  simp only [Spec.step, Spec.nextVersion]
  cases h : AMap.get m k with
  | none => simp [AMap.get_set_self]
  | some e =>
    simp [AMap.get_set_self]

/-- **set, then get: the same bytes** — whatever the value holds, whatever else is stored -/
theorem set_then_get (cfg : Cfg) (hcv : cfg.store.checkVHash = false) (hmk : cfg.maxKeyLen = 250)
    (K : Key → Prop) (hInj : InjOn hashOf K) (n : Nat) (hn : n + 1 < 2147483647)
    (st : St) (m : KV) (hb : Backed K n st m)
    (k body : Bytes) (flag : Int) (nr : Bool) (buf : Buf)
    (hk : K k) (hv : validKeyString k = true) (hlen : body.length < 2^63)
    (hflag : ((flag % 4294967296).toNat / 65536) % 2 ≠ 1) :
    let rset : Req := { cmd := ascii "set", keys := [k], flag := flag, exptime := 0, body := body, noreply := nr }
    let rget : Req := { cmd := ascii "get", keys := [k] }
    (processGet cfg (processStore cfg st rset buf).1 rget).2.1
      = some (.value false [{ key := k, flag := ((flag % 4294967296).toNat : Int), body := [.lit body], len := body.length }]) := by
  intro rset rget
  have hkeys : rset.keys.headD [] = k := rfl
  have hb1 := processStore_b cfg st rset buf (by rw [hkeys]; exact hv) (by simp [rset]) hflag
  have hrev : Int32.toInt (Int32.ofInt rset.exptime) = 0 := by simp [rset]
  rw [hkeys, hrev] at hb1
  have hsz := plainSize_pos k.length rset.body.length
  obtain ⟨_, hinv⟩ := set_refines hashOf K cfg.store hInj hn hb k body (rset.flag % 4294967296).toNat 0 0
    (plainSize k.length rset.body.length) hk hsz hlen (by omega) (by simp)
  have hget := get_refines hashOf K cfg.store hinv k hk
  rw [hcv] at hget
  have hspec := spec_get_after_set m k body (rset.flag % 4294967296).toNat 0
  -- the bucket after the served set
  have hbody : rset.body = body := rfl
  rw [hbody] at hb1 hinv hget
  generalize hst1 : (processStore cfg st rset buf).1 = st1 at *
  have hstep : (Store.step hashOf cfg.store st1.b (.get k)).2.1 = .value (rset.flag % 4294967296).toNat body := by
    rw [hb1, hget.1]
    exact hspec
  -- the served get
  have hklen : 0 < k.length ∧ k.length ≤ 250 := by
    unfold validKeyString at hv
    cases k with
    | nil => simp at hv
    | cons c tl =>
      simp only [Bool.and_eq_true, decide_eq_true_eq] at hv
      exact ⟨by simp, hv.1.1⟩
  unfold processGet
  have hany : (rget.keys.any fun k => !(decide (0 < k.length) && decide (k.length ≤ cfg.maxKeyLen))) = false := by
    simp [rget, hmk, hklen.1, hklen.2]
  simp only [hany, Bool.false_eq_true, if_false]
  have hkk : rget.keys = [k] := rfl
  simp only [hkk]
  have hcg := clientGet_ordinary cfg st1 k hv
  generalize hsg : Store.step hashOf cfg.store st1.b (.get k) = sg at hstep hcg
  obtain ⟨b2, rep, pos⟩ := sg
  simp only at hstep
  subst hstep
  simp only at hcg
  generalize hcl : clientGet cfg st1 k = cl at hcg
  obtain ⟨gr, bufo⟩ := cl
  simp only at hcg
  subst hcg
  have hg : (ascii "get" == ascii "gets") = false := by decide
  simp [rget, rset, hg]

end Proto
