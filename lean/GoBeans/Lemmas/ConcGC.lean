/-
  C05 for the fine-grained interleaving model WITH the GC thread (Model/ConcGC.lean): clients (set / delete / get),
  flushers and ONE GC pass run as programs of atomic micro-steps at the granularity of the Go code's critical sections;
  a scheduler picks any enabled thread's next micro-step.

  RESULTS (details, Go lines and the witness schedules: section "counterexamples" at the end of this file, REPORT.md):
   (a) the properties do NOT hold for every schedule of the code as it is.  Four interleavings, each found by
       evaluating the model (`decide`), each watched by a monitor flag of the model:
         hazInplace  the destination is rewritten in place (dst == src, the DEFAULT destination when the file before the
                     range is full or the range starts at 0): between the file write of a record that moves down by
                     less than its length and the repoint, the tree item points at overwritten bytes (`ce_inplace_*`);
         hazReuse    a destination file that the pass has emptied before is filled again: a reader that took a position
                     in the old incarnation returns ANOTHER VERSION's value under the old version (`ce_reuse_*`);
         hazCold     a flush of a file of the range beside GC: `Fatalf("wrong data file size")` (`ce_coldflush_fatal`);
                     GC started on a file with buffered records: acknowledged writes lost (`ce_unflushed_lost`, F25);
       and, with NO monitor fired: a get whose position was taken before the repoint fails after `Clear` has removed
       the source file (`ce_stale_reader_fails`): an ERROR, never a wrong value (`C05_fine`).
   (b) for EVERY schedule in which no monitor has fired, with the conditional repoint (`cfg.blind = false`):
       (i)   `tree_item_readable`: the tree item of every key points at a record of that key and version which the
             reader's code path reads NOW; for a chunk of the GC range: from the FILE (the chunk's write buffer is
             empty and the gc writer's own buffer is empty whenever the tree can see the position: `gbuf_empty`);
       (ii)  `repoint_keeps_client_write`, `gc_step_invisible`: the repoint leaves an item alone that a client has
             set since the newest-check; no GC micro-step changes the register of any key; the blind repoint loses
             the write (`ce_blind_loses`);
       (iii) `C05_fine`: the recorded history of every key (failed gets are not events) is an atomic execution in the
             sense of `Conc.Valid` / `Conc.run`, hence passes `checkA` / `checkB`;
       (iv)  `boundary_last_write`: at every file boundary (also after a cancel, and when the pass has finished) the
             item of every key points at a readable record holding the value of its last linearised write.
  Assumed: sequential consistency (a micro-step is atomic), working mutexes, no key-hash collisions, no hint /
  collision-table state, one bucket, one pass, versions unbounded, no I/O errors.  Core-only.
-/
import GoBeans.Lemmas.ConcGCInvAll
import GoBeans.Lemmas.ConcFine

namespace ConcGC
open ConcFine
open Conc (AOp Out Ev Reg regStep)

theorem inv_init : Inv init := by
  have h0 := ConcFine.inv_init
  refine ⟨⟨h0.lock, hotlay_of_chunkInv h0.layout _, ?_, ?_, ?_, ?_⟩, ?_, rfl, rfl⟩
  · refine ⟨?_, ?_, ?_, ?_, ?_, ?_, ?_, ?_⟩ <;> simp [init, procPC]
  · refine ⟨?_, ?_, ?_, ?_, ?_, ?_, ?_, ?_⟩ <;> simp [init, X, cold, Dead, openPC, curOff, rem]
  · refine ⟨?_, ?_⟩ <;> simp [init, procPC, curNotFound]
  · refine ⟨h0.data.recs, h0.data.tree, h0.data.wr, ?_, ?_⟩
    · intro u; trivial
    · intro u c hf; simp [init, flushTarget] at hf
  · exact ⟨h0.hist.outs, h0.hist.reg, h0.hist.lin, h0.hist.times, fun e he => by simp [init] at he, h0.hist.inv⟩

theorem inv_exec (cfg : GCfg) (hb : cfg.blind = false) (sched : List (Nat × Act)) :
    ∀ s, Inv s → noHaz (exec cfg s sched) → Inv (exec cfg s sched) := by
  induction sched with
  | nil => intro s hs _; exact hs
  | cons d rest ih =>
    intro s hs hz
    obtain ⟨t, a⟩ := d
    simp only [exec] at hz ⊢
    cases hst : step cfg s t a with
    | none => rw [hst] at hz; exact ih s hs hz
    | some s1 =>
      rw [hst] at hz
      exact ih s1 (inv_step hb hs (noHaz_back (exec_hazLe cfg rest s1) hz) hst) hz

/-- the invariant holds after EVERY schedule in which no monitor has fired -/
theorem inv_reachable (cfg : GCfg) (hb : cfg.blind = false) (sched : List (Nat × Act))
    (hz : noHaz (exec cfg init sched)) : Inv (exec cfg init sched) :=
  inv_exec cfg hb sched init inv_init hz

/-! ### the gc writer's own buffer -/

def isFlush : GPC → Bool
  | .gFlush .. => true
  | _ => false

/-- the gc writer's bufio buffer holds bytes only between `gcWriter.append` and `gcWriter.wbuf.Flush()` inside one
    `AppendRecordGC` -/
def GB (s : State) : Prop := isFlush s.gc.pc = false → s.gc.gbuf = []

theorem gb_step {cfg : GCfg} {s s' : State} {t : Nat} {a : Act} (hg : GB s) (h : step cfg s t a = some s') : GB s' := by
  unfold step at h
  split at h
  · contradiction
  · cases a with
    | call op =>
      simp only [Option.map_eq_some_iff] at h
      obtain ⟨s1, h1, rfl⟩ := h
      obtain ⟨b', _, rfl⟩ := liftBase_some h1
      exact hg
    | go =>
      simp only [Option.map_eq_some_iff] at h
      obtain ⟨s1, h1, rfl⟩ := h
      rcases cmicro_cases h1 with ⟨_, rfl⟩ | ⟨b', hzv, _, rfl, _, _⟩ <;> exact hg
    | gcStart b e =>
      simp only [Option.map_eq_some_iff] at h
      obtain ⟨s1, h1, rfl⟩ := h
      unfold gcStart at h1
      split at h1
      · contradiction
      · obtain rfl := Option.some.inj h1; intro _; rfl
    | gcGo =>
      simp only [Option.map_eq_some_iff] at h
      obtain ⟨s1, h1, rfl⟩ := h
      unfold GB at hg ⊢
      show isFlush s1.gc.pc = false → s1.gc.gbuf = []
      gmicro_split h1
      all_goals first
        | (intro hh; simp [isFlush] at hh; done)
        | (simp_all [isFlush, State.gcGoto, State.setChunk]; done)
        | (simp only [afterCheck]; split <;> simp_all [isFlush, State.gcGoto])
        | (simp only [beginW]; split <;> simp_all [isFlush, State.setChunk])
        | (simp only [endW]; split <;> simp_all [isFlush, State.gcGoto, State.setChunk])
    | gcCancel => obtain rfl := Option.some.inj h; exact hg

theorem gb_exec (cfg : GCfg) (sched : List (Nat × Act)) : ∀ s, GB s → GB (exec cfg s sched) := by
  induction sched with
  | nil => intro s hs; exact hs
  | cons d rest ih =>
    intro s hs
    obtain ⟨t, a⟩ := d
    simp only [exec]
    cases hst : step cfg s t a with
    | none => exact ih s hs
    | some s1 => exact ih s1 (gb_step hs hst)

/-- under every schedule: at the moment of the repoint (and whenever the GC thread is not inside the flush of
    `AppendRecordGC`) the gc writer's buffer is empty — the relocated bytes are in the FILE -/
theorem gbuf_empty (cfg : GCfg) (sched : List (Nat × Act)) (h : isFlush (exec cfg init sched).gc.pc = false) :
    (exec cfg init sched).gc.gbuf = [] :=
  gb_exec cfg sched init (fun _ => rfl) h

/-! ### (i) the tree item of a key is readable by the reader's code path -/

/-- the tree item of a key points at a record that `GetRecordByOffset` reads NOW — of this key, with the item's
    version, live iff the version is positive.  For a chunk of the GC range the chunk's write buffer is empty: the
    buffer test misses and the record is read from the FILE. -/
theorem tree_item_readable {s : State} (hi : Inv s) {k : Nat} {it : Item} (hit : s.base.tree k = some it) :
    ∃ r, lookup (s.base.chunks it.pos.chunk) it.pos.off = some r ∧ r.key = k ∧ r.ver = it.ver ∧ r.ver ≠ 0 ∧
      (0 < r.ver ↔ r.val ≠ 0) ∧
      (X s it.pos.chunk → bufLookup (s.base.chunks it.pos.chunk) it.pos.off = .miss ∧
                           fileLookup (s.base.chunks it.pos.chunk) it.pos.off = some r) := by
  obtain ⟨r, h1, h2, h3, h4, _⟩ := absReg_eq' hi.sinv.data (readable_sinv hi.sinv) hit
  have := (readable_sinv hi.sinv it.pos.chunk).lookup r h1.1
  rw [h1.2] at this
  refine ⟨r, this, h2, h3, h4.1, ?_, ?_⟩
  · constructor
    · exact h4.2.1
    · intro hv
      rcases Int.lt_trichotomy r.ver 0 with hlt | heq | hgt
      · exact absurd (h4.2.2 hlt) hv
      · exact absurd heq h4.1
      · exact hgt
  · intro hx
    have hnb := (hi.sinv.chk.cold _ hx).1.nobuf
    have hl := lookup_nobuf _ it.pos.off hnb
    exact ⟨bufLookup_nobuf _ _ hnb, by rw [← hl]; exact this⟩

/-- a position a reader took from the tree: its record is still there (buffer-or-file before the buffer test, in the
    FILE after a negative buffer test) — or the chunk has been emptied by the pass and the get will FAIL -/
theorem reader_position {s : State} (hi : Inv s) (e : HEv) (he : e ∈ s.base.hist) (hd : e.done = false) :
    Pend s (s.base.thr e.tid).pc e.ev.out := hi.hist.pend e he hd

/-! ### (ii) the conditional repoint never overwrites a client write -/

/-- `htree.movePos`: an item that no longer points at the record GC looked at (a client has written the key since
    the newest-check) is left alone -/
theorem repoint_keeps_client_write {cfg : GCfg} {s s' : State} (hb : cfg.blind = false) {r : Rec} {off : Nat}
    (hpc : s.gc.pc = .gMove r off) {it : Item} (hit : s.base.tree r.key = some it) (hne : it.pos ≠ ⟨s.gc.src, r.off⟩)
    (h : gmicro cfg s = some s') : s'.base.tree = s.base.tree := by
  simp only [gmicro, hpc, hit, hb, Bool.false_eq_true, false_or, hne, if_false] at h
  obtain rfl := Option.some.inj h
  rfl

/-- **GC is invisible**: no GC micro-step changes the register (version, value read) of any key -/
theorem gc_step_invisible {cfg : GCfg} {s s' : State} (hb : cfg.blind = false) (hi : Inv s) (hz : noHaz s')
    (h : gmicro cfg s = some s') (k : Nat) : absReg s'.base k = absReg s.base k := by
  have hS := sinv_gmicro hb hi.sinv hz h
  exact gmicro_absReg hb hi.sinv.ctl hi.sinv.chk hi.sinv.tr hi.sinv.data hz h (readable_sinv hi.sinv) (readable_sinv hS) k

/-! ### (iii) the recorded history of every key is an atomic execution -/

theorem hist_atomic {s : State} (hi : Inv s) (k fut : Nat) (hfut : s.base.clock ≤ fut) :
    ∃ ss, Conc.Valid ss ∧ histAt s.base k fut = Conc.run {} ss := by
  refine ⟨(keyHist s.base k).map (stepAt fut), ⟨?_, ?_⟩, ?_⟩
  · intro st hst
    obtain ⟨e, he, rfl⟩ := List.mem_map.mp hst
    have hm : e ∈ s.base.hist := (List.mem_filter.mp he).1
    have ht := hi.hist.times e hm
    unfold stepAt
    refine ⟨ht.1, ?_⟩
    cases hd : e.done with
    | true => simp only [if_true]; exact ht.2.2 hd
    | false => simp only [Bool.false_eq_true, if_false]; omega
  · rw [List.pairwise_map]
    exact hi.hist.lin.sublist List.filter_sublist
  · rw [run_of_outs fut _ _ (hi.hist.outs k)]
    rfl

/-- **C05 for the fine-grained model**: after ANY schedule of clients, flushers and the GC thread in which no
    monitor has fired, the history of every key — operations in flight completed at any later time, failed gets left
    out — passes both checks of the property -/
theorem C05_fine_general (cfg : GCfg) (hb : cfg.blind = false) (sched : List (Nat × Act))
    (hz : noHaz (exec cfg init sched)) (k fut : Nat) (hfut : (exec cfg init sched).base.clock ≤ fut) :
    Conc.checkA (histAt (exec cfg init sched).base k fut) = true ∧
    Conc.checkB (histAt (exec cfg init sched).base k fut) = true := by
  obtain ⟨ss, hv, he⟩ := hist_atomic (inv_reachable cfg hb sched hz) k fut hfut
  rw [he]
  exact ⟨Conc.checkA_sound ss hv, Conc.checkB_sound ss hv⟩

theorem C05_fine (cfg : GCfg) (hb : cfg.blind = false) (sched : List (Nat × Act)) (hz : noHaz (exec cfg init sched))
    (k : Nat) (hq : quiescent (exec cfg init sched).base) :
    Conc.checkA (histOf (exec cfg init sched).base k) = true ∧ Conc.checkB (histOf (exec cfg init sched).base k) = true := by
  rw [histOf_eq_histAt hq k (exec cfg init sched).base.clock]
  exact C05_fine_general cfg hb sched hz k _ (Nat.le_refl _)

/-- no `Fatalf`, no index panic of the flusher; a get either returns the linearised value or is counted in `fails` -/
theorem no_fatal (cfg : GCfg) (hb : cfg.blind = false) (sched : List (Nat × Act)) (hz : noHaz (exec cfg init sched)) :
    (exec cfg init sched).base.fatal = false ∧ (exec cfg init sched).base.readErr = false :=
  ⟨(inv_reachable cfg hb sched hz).alive, (inv_reachable cfg hb sched hz).noerr⟩

/-! ### (iv) at a file boundary every key holds its last linearised write -/

/-- at every moment — in particular when the GC thread stands at a file boundary, has been cancelled there, or has
    finished — the register of every key (version of the tree item, value the reader's code path reads at the item's
    position) is the register reached by the key's linearised operations: the item points at the last linearised write -/
theorem boundary_last_write (cfg : GCfg) (hb : cfg.blind = false) (sched : List (Nat × Act))
    (hz : noHaz (exec cfg init sched)) (_hbd : atBoundary (exec cfg init sched) = true) (k : Nat) :
    absReg (exec cfg init sched).base k = regFold {} (opsOf (keyHist (exec cfg init sched).base k)) ∧
    ∀ it, (exec cfg init sched).base.tree k = some it →
      ∃ r, lookup ((exec cfg init sched).base.chunks it.pos.chunk) it.pos.off = some r ∧ r.key = k ∧ r.ver = it.ver := by
  have hi := inv_reachable cfg hb sched hz
  refine ⟨(hi.hist.reg k).symm, ?_⟩
  intro it hit
  obtain ⟨r, h1, h2, h3, _⟩ := tree_item_readable hi hit
  exact ⟨r, h1, h2, h3⟩

end ConcGC

/-! ### non-vacuity, sanity evaluations, counterexamples -/
namespace ConcGC
namespace Ex
open ConcFine

def cfg : GCfg := { fine := { dataFileMax := 6 } }
def gos (t n : Nat) : List (Nat × Act) := List.replicate n (t, .go)
def ggo (n : Nat) : List (Nat × Act) := List.replicate n (0, .gcGo)
def wr (t k v sz : Nat) : List (Nat × Act) := [(t, .call (.write k v sz))] ++ gos t 7
def rd (t k : Nat) : List (Nat × Act) := [(t, .call (.read k))] ++ gos t 3
def fl (t c n : Nat) : List (Nat × Act) := [(t, .call (.flush (some c) true false))] ++ gos t (10 + 2 * n)

/-- file 0 = [key 1], file 1 = [key 2 (superseded), key 3], head file 2 = [key 2]; files 0 and 1 flushed -/
def setup : List (Nat × Act) := wr 1 1 11 1 ++ wr 1 2 12 4 ++ wr 1 3 13 0 ++ wr 1 2 22 0 ++ fl 3 0 1 ++ fl 3 1 2
def s0 : State := exec cfg init setup
example : s0.base.newHead = 2 ∧ (s0.base.chunks 0).file = [⟨1, 1, 11, 0, 2⟩] ∧
    (s0.base.chunks 1).file = [⟨2, 1, 12, 0, 5⟩, ⟨3, 1, 13, 5, 1⟩] ∧ (s0.base.chunks 2).wbuf = [⟨2, 2, 22, 0, 1⟩] := by
  decide +kernel
-- `pickDst`: the file before the range is not full: it is the destination
example : pickDst cfg s0.base.chunks 1 = 0 ∧ pickDst cfg s0.base.chunks 0 = 0 := by decide +kernel

/-- GC of file 1 into file 0.  GC has checked key 3 (newest); reader 2 takes key 3's position (1,5) from the tree;
    writer 4 sets key 3 := 33 (acknowledged); GC appends the copy, flushes it, repoints (conditionally: no effect),
    clears file 1; reader 2 reads its position: the file is gone; reader 5 reads key 3 -/
def schedN : List (Nat × Act) :=
  setup ++ [(0, .gcStart 1 1)] ++ ggo 7 ++ [(2, .call (.read 3)), (2, .go)] ++ wr 4 3 33 0 ++ ggo 10 ++ gos 2 2 ++ rd 5 3
def sN : State := exec cfg init schedN

theorem sN_noHaz : noHaz sN := by unfold noHaz; decide +kernel
theorem sN_quiescent : quiescent sN.base := by unfold quiescent; decide +kernel
-- at the moment of the repoint the copy is in the destination FILE, the gc writer's buffer is empty
example : let s := exec cfg init (setup ++ [(0, .gcStart 1 1)] ++ ggo 10)
    s.gc.pc = .gMove ⟨3, 1, 13, 5, 1⟩ 2 ∧ s.gc.gbuf = [] ∧ (s.base.chunks 0).wbuf = [] ∧
    (s.base.chunks 0).file = [⟨1, 1, 11, 0, 2⟩, ⟨3, 1, 13, 2, 1⟩] := by decide +kernel
-- the pass is finished, the acknowledged write survived, file 1 is gone, the copy of the OLD value is garbage in file 0
example : sN.gc.pc = .done ∧ sN.gc.moved = 0 ∧ sN.base.tree 3 = some ⟨2, ⟨2, 1⟩⟩ ∧ (sN.base.chunks 1).file = [] ∧
    (sN.base.chunks 0).file = [⟨1, 1, 11, 0, 2⟩, ⟨3, 1, 13, 2, 1⟩] := by decide +kernel
/-- **the reader whose position died**: with no monitor fired, the get of reader 2 ENDS IN AN ERROR (`Clear`,
    datachunk.go:43, removed the file between the reader's htree.get, bucket.go:419, and its read, datachunk.go:164) -/
theorem ce_stale_reader_fails : noHaz sN ∧ sN.fails = 1 := ⟨sN_noHaz, by decide +kernel⟩
example : histOf sN.base 3 = [
    { op := .write 13, inv := 17, resp := 24, out := .acc 1, lin := 23 },
    { op := .write 33, inv := 71, resp := 78, out := .acc 2, lin := 77 },
    { op := .read, inv := 91, resp := 93, out := .got 33 2, lin := 92 }] := by decide +kernel
/-- the hypotheses of `C05_fine` are satisfiable on a schedule with a GC pass, a write inside the window and a dying reader -/
example : Conc.checkA (histOf sN.base 3) = true ∧ Conc.checkB (histOf sN.base 3) = true :=
  C05_fine cfg rfl schedN sN_noHaz 3 sN_quiescent

/-- **the blind repoint loses the acknowledged write** (UpdateHtreePos before commit 1f5e306): same schedule, the
    item of key 3 keeps version 2 and points at the copy of the OLD value 13; the get returns (13, version 2) -/
theorem ce_blind_loses : let s := exec { cfg with blind := true } init schedN
    noHaz s ∧ s.base.tree 3 = some ⟨2, ⟨0, 2⟩⟩ ∧ Conc.checkA (histOf s.base 3) = false := by
  unfold noHaz; decide +kernel

end Ex
end ConcGC

namespace ConcGC
namespace Ex
open ConcFine

/-! #### counterexample: rewriting in place (monitor `hazInplace`) -/

/-- file 0 = [key 1 v1 (superseded, 1 block), key 2 (3 blocks at offset 1), key 1 v2]; flushed; head = file 1 -/
def setupI : List (Nat × Act) := wr 1 1 11 0 ++ wr 1 2 12 2 ++ wr 1 1 21 0 ++ wr 1 5 15 1 ++ fl 3 0 3
/-- gc(0,0): the destination is the source (gc.go:221: `gc.Dst = startChunkID`, beginGCWriting sets
    `rewriting`, data.go:200 opens WITHOUT append at offset 0).  Key 2 moves from offset 1 to offset 0: after the file
    write (datachunk.go:75) and before the repoint (gc.go:351) the item of key 2 points at offset 1 = the middle of the
    new copy -/
def schedI : List (Nat × Act) := setupI ++ [(0, .gcStart 0 0)] ++ ggo 10
def sI : State := exec cfg init schedI
theorem ce_inplace_item_unreadable :
    sI.hazInplace = true ∧ sI.hazCold = false ∧ sI.hazReuse = false ∧ sI.gc.pc = .gMove ⟨2, 1, 12, 1, 3⟩ 0 ∧
    sI.base.tree 2 = some ⟨1, ⟨0, 1⟩⟩ ∧ lookup (sI.base.chunks 0) 1 = none ∧
    (sI.base.chunks 0).file = [⟨1, 2, 21, 4, 1⟩, ⟨2, 1, 12, 0, 3⟩] := by decide +kernel
/-- a get of key 2 linearised in that window fails (an error, not a wrong value) -/
theorem ce_inplace_get_fails : (exec cfg sI (rd 2 2)).fails = 1 := by decide +kernel

/-! #### counterexample: a destination file the pass has emptied before (monitor `hazReuse`) -/

/-- file 0 = [key 9, 5 blocks], file 1 = [key 7 v1, key 8 v1], file 2 = [key 7 v2, key 8 v2]; reader 2 has taken
    key 7's position (1,0) with version 1 from the tree BEFORE key 7 was rewritten, and has not read yet -/
def setupR : List (Nat × Act) :=
  wr 1 9 19 4 ++ wr 1 7 17 1 ++ wr 1 8 18 2 ++ [(2, .call (.read 7)), (2, .go)] ++ wr 1 7 27 1 ++ wr 1 8 28 2 ++
  wr 1 6 16 1 ++ fl 3 0 1 ++ fl 3 1 2 ++ fl 3 2 2
/-- gc(1,2): file 1 holds nothing current and is removed; the first record of file 2 does not fit into file 0:
    `gc.Dst++` (gc.go:330) makes the emptied file 1 the destination and key 7 v2 lands at (1,0); now reader 2 reads -/
def schedR : List (Nat × Act) := setupR ++ [(0, .gcStart 1 2)] ++ ggo 22 ++ gos 2 2
def sR : State := exec cfg init schedR
theorem sR_clock : sR.base.clock ≤ 1000 := by decide +kernel
theorem ce_reuse_wrong_value :
    sR.hazReuse = true ∧ sR.hazInplace = false ∧ sR.hazCold = false ∧ sR.fails = 0 ∧
    histAt sR.base 7 1000 = [
      { op := .write 17, inv := 9, resp := 16, out := .acc 1, lin := 15 },
      { op := .read, inv := 25, resp := 118, out := .got 27 1, lin := 26 },
      { op := .write 27, inv := 27, resp := 34, out := .acc 2, lin := 33 }] ∧
    Conc.checkA (histAt sR.base 7 1000) = false := by decide +kernel

/-! #### counterexamples: a file of the range that is flushed / not yet flushed (monitor `hazCold`) -/

/-- a flush of file 0 (the goroutine `go ds.flush(newHead-1, true)` of data.go:80, delayed) opens the file
    (w.offset = 2 blocks), GC's AppendRecordGC bumps `size` to 3 under the chunk lock (datachunk.go:64-67) and has
    not written yet, the flusher compares (data.go:132-136): Fatalf("wrong data file size") -/
theorem ce_coldflush_fatal :
    let s := exec cfg init (setup ++ [(0, .gcStart 1 1)] ++ ggo 7 ++ [(6, .call (.flush (some 0) true false))] ++
                            gos 6 4 ++ ggo 1 ++ gos 6 1)
    s.hazCold = true ∧ s.hazInplace = false ∧ s.hazReuse = false ∧ s.base.fatal = true := by decide +kernel

/-- F25: gc(1,1) while file 1's records are still in its write buffer (the post-rotation flush has not run): the
    stream reader sees an empty file, `Clear` drops the buffer and removes the file; key 3's acknowledged write is
    gone: the item points at nothing, the get fails -/
theorem ce_unflushed_lost :
    let s := exec cfg init (wr 1 1 11 1 ++ wr 1 2 12 4 ++ wr 1 3 13 0 ++ wr 1 2 22 0 ++ fl 3 0 1 ++
                            [(0, .gcStart 1 1)] ++ ggo 10 ++ rd 5 3)
    s.hazCold = true ∧ s.gc.pc = .done ∧ s.base.tree 3 = some ⟨1, ⟨1, 5⟩⟩ ∧ (s.base.chunks 1).wbuf = [] ∧
    (s.base.chunks 1).file = [] ∧ s.fails = 1 := by decide +kernel

-- a pass may be cancelled at a file boundary: the flag is looked at only at the loop head
example : let s := exec cfg s0 ([(0, .gcStart 1 1), (0, .gcCancel)] ++ ggo 4)
    s.gc.pc = .done ∧ (s.base.chunks 1).file = [⟨2, 1, 12, 0, 5⟩, ⟨3, 1, 13, 5, 1⟩] ∧ atBoundary s = true := by
  decide +kernel
-- a second start is refused (one pass), a range that reaches the head is refused
example : (gcStart cfg sN 0 0).isNone = true ∧ (gcStart cfg s0 1 2).isNone = true ∧ (gcStart cfg s0 2 1).isNone = true := by
  decide +kernel

end Ex
end ConcGC

/-! ### the full-strength statements (kept visible) -/
namespace ConcGC
open ConcFine

/-- (i) at full strength: for EVERY schedule the tree item of every key is readable -/
def tree_item_readable_statement : Prop :=
  ∀ (cfg : GCfg) (sched : List (Nat × Act)) (k : Nat) (it : Item), cfg.blind = false →
    (exec cfg init sched).base.tree k = some it →
    ∃ r, lookup ((exec cfg init sched).base.chunks it.pos.chunk) it.pos.off = some r ∧ r.key = k

/-- FALSE for the code as it is: rewriting in place (`Ex.ce_inplace_item_unreadable`) -/
theorem tree_item_readable_statement_false : ¬ tree_item_readable_statement := by
  intro h
  have hb : Ex.cfg.blind = false := rfl
  have ht := Ex.ce_inplace_item_unreadable.2.2.2.2.1
  have hl := Ex.ce_inplace_item_unreadable.2.2.2.2.2.1
  unfold Ex.sI at ht hl
  obtain ⟨r, hr, _⟩ := h Ex.cfg Ex.schedI 2 ⟨1, ⟨0, 1⟩⟩ hb ht
  dsimp only at hr
  rw [hl] at hr
  cases hr

/-- (iii) at full strength: for EVERY schedule the history of every key passes the checks -/
def C05_fine_statement : Prop :=
  ∀ (cfg : GCfg) (sched : List (Nat × Act)) (k fut : Nat), cfg.blind = false →
    (exec cfg init sched).base.clock ≤ fut →
    Conc.checkA (histAt (exec cfg init sched).base k fut) = true ∧ Conc.checkB (histAt (exec cfg init sched).base k fut) = true

/-- FALSE for the code as it is: a destination file that the pass emptied before (`Ex.ce_reuse_wrong_value`) -/
theorem C05_fine_statement_false : ¬ C05_fine_statement := by
  intro h
  have hb : Ex.cfg.blind = false := rfl
  have hc := Ex.sR_clock
  have h2 := Ex.ce_reuse_wrong_value.2.2.2.2.2
  unfold Ex.sR at hc h2
  have h1 := (h Ex.cfg Ex.schedR 7 1000 hb hc).1
  rw [h2] at h1
  exact Bool.noConfusion h1

/-- NOT PROVED (believed true; see REPORT.md): with rewriting in place allowed but no re-filled file and no flush in
    the range, a get may fail but never returns a wrong value, i.e. the checks still pass -/
def C05_inplace_statement : Prop :=
  ∀ (cfg : GCfg) (sched : List (Nat × Act)) (k fut : Nat), cfg.blind = false →
    (exec cfg init sched).hazCold = false → (exec cfg init sched).hazReuse = false →
    (exec cfg init sched).base.clock ≤ fut →
    Conc.checkA (histAt (exec cfg init sched).base k fut) = true ∧ Conc.checkB (histAt (exec cfg init sched).base k fut) = true

/-- what IS proved towards it: the same with `hazInplace = false` (`C05_fine_general`) -/
theorem C05_inplace_partial (cfg : GCfg) (sched : List (Nat × Act)) (k fut : Nat) (hb : cfg.blind = false)
    (h1 : (exec cfg init sched).hazCold = false) (h2 : (exec cfg init sched).hazReuse = false)
    (h3 : (exec cfg init sched).hazInplace = false) (hf : (exec cfg init sched).base.clock ≤ fut) :
    Conc.checkA (histAt (exec cfg init sched).base k fut) = true ∧ Conc.checkB (histAt (exec cfg init sched).base k fut) = true :=
  C05_fine_general cfg hb sched ⟨h1, h3, h2⟩ k fut hf

end ConcGC
