/-
  Reply round trip (C11), part 9: the served `get` / `gets`.  The bytes the server model writes for a well-formed
  `get`/`gets` parse back (`readResp`) to exactly the items it looked up; a storage error comes back as the same
  SERVER_ERROR message.
-/
import GoBeans.Lemmas.ProtoRespMulti

namespace Proto

theorem processGet_resp (cfg : Cfg) (st : St) (c : Bytes) (ks : List Bytes)
    (hlen : ∀ k ∈ ks, 0 < k.length ∧ k.length ≤ cfg.maxKeyLen) :
    ((processGet cfg st { cmd := c, keys := ks }).2.1 = some (.value (c == ascii "gets") (lookedUp cfg st ks))
      ∨ ∃ k msg, ks = [k] ∧ (clientGet cfg st k).1 = .err msg
          ∧ (processGet cfg st { cmd := c, keys := ks }).2.1 = some (.line (ascii "SERVER_ERROR") msg))
    ∧ (processGet cfg st { cmd := c, keys := ks }).2.2.2 = false := by
  have hany : (ks.any fun k => !(decide (0 < k.length) && decide (k.length ≤ cfg.maxKeyLen))) = false := by
    rw [List.any_eq_false]; intro k hk; simp [hlen k hk]
  unfold processGet
  simp only [hany, Bool.false_eq_true, if_false]
  split
  · rename_i k
    rcases hcg : clientGet cfg st k with ⟨gr, buf⟩
    cases gr <;> simp [lookedUp, hcg]
  · rename_i hns
    have hl : lookedUp cfg st ks = (multiGet cfg st ks []).1 := by
      unfold lookedUp
      split
      · exact absurd rfl (hns _)
      · rfl
    rw [hl]
    simp

/-- a served `get`/`gets` written by `writeReq`: consumes exactly the request, replies with what `processGet` replies -/
theorem serveOnce_get (cfg : Cfg) (st : St) (gets : Bool) (ks : List Bytes) (more : Bytes)
    (hks : ∀ k ∈ ks, Tok k) (hne : ks ≠ []) :
    let r : Req := { cmd := if gets then ascii "gets" else ascii "get", keys := ks }
    (serveOnce cfg st (writeReq r ++ more)).n = (writeReq r).length
    ∧ (serveOnce cfg st (writeReq r ++ more)).resp = (processGet cfg { st with led := st.led.tokGet } r).2.1
    ∧ (serveOnce cfg st (writeReq r ++ more)).closing = (processGet cfg { st with led := st.led.tokGet } r).2.2.2 := by
  intro r
  have hct : Tok (if gets then ascii "gets" else ascii "get") := by cases gets <;> exact ⟨by decide, by decide, by decide⟩
  have h := rt_get cfg st.led (if gets then ascii "gets" else ascii "get") ks more
    (by cases gets <;> decide) (by cases gets <;> decide) (by cases gets <;> decide)
    (by intro t ht; rcases List.mem_cons.mp ht with rfl | ht; exact hct; exact hks t ht) hne
  simp only at h
  unfold serveOnce
  rw [h]
  simp only [process]
  generalize processGet cfg { st with led := st.led.tokGet } r = p
  obtain ⟨st1, resp, bufs, quit⟩ := p
  exact ⟨rfl, rfl, rfl⟩

/-- **the served `get` / `gets`, end to end on the wire.**  For a well-formed request (keys are tokens within the key
    length limit), whatever follows it on the stream:
    the server consumes exactly the request, keeps the connection open, and
    * either replies VALUE…END for exactly the items it looked up, and EVERY byte string `Response.Write` may emit for
      that reply (blocks in any order, any clock value, any record encoding) parses back — whatever follows it — to
      those items: same keys, flags, bodies the items' segments stand for (for an ordinary key: the stored bytes,
      byte for byte), no cas… in the order they travelled, leaving exactly the bytes that follow;
    * or (single key, storage error) replies SERVER_ERROR with a message that parses back unchanged.
    `hstore`: the looked-up flags are int64 and the values fit BodyMax (what `set` accepts). -/
theorem serveOnce_get_roundtrip (cfg : Cfg) (hmax : cfg.bodyMax < 9223372036854775808) (st : St) (gets : Bool)
    (ks : List Bytes) (more : Bytes) (hks : ∀ k ∈ ks, Tok k) (hne : ks ≠ [])
    (hlen : ∀ k ∈ ks, k.length ≤ cfg.maxKeyLen)
    (hstore : ∀ it ∈ lookedUp cfg st ks, I64 it.flag ∧ it.len ≤ cfg.bodyMax) :
    let r : Req := { cmd := if gets then ascii "gets" else ascii "get", keys := ks }
    let s := serveOnce cfg st (writeReq r ++ more)
    s.n = (writeReq r).length ∧ s.closing = false ∧
    ((s.resp = some (.value gets (lookedUp cfg st ks)) ∧
        ∀ w, (Resp.value gets (lookedUp cfg st ks)).Wire w →
          ∃ (its : List RItem) (ps : List PItem), its.Perm (lookedUp cfg st ks) ∧ Carries its ps ∧
            ∀ (rest : Bytes) (fuel : Nat), (lookedUp cfg st ks).length + 1 ≤ fuel →
              readResp cfg fuel (w ++ rest) []
                = some ({ status := ascii "END", msg := [], items := ps.map (PItem.norm gets) }, rest))
     ∨ (∃ k msg, ks = [k] ∧ (clientGet cfg st k).1 = .err msg ∧ s.resp = some (.line (ascii "SERVER_ERROR") msg) ∧
        ∀ w, (Resp.line (ascii "SERVER_ERROR") msg).Wire w → ∀ (rest : Bytes) (fuel : Nat), 1 ≤ fuel →
          readResp cfg fuel (w ++ rest) [] = some ({ status := ascii "SERVER_ERROR", msg := msg, items := [] }, rest))) := by
  intro r s
  obtain ⟨hn, hresp, hclose⟩ := serveOnce_get cfg st gets ks more hks hne
  have hl : ∀ k ∈ ks, 0 < k.length ∧ k.length ≤ cfg.maxKeyLen := fun k hk =>
    ⟨List.length_pos_iff.mpr (hks k hk).1, hlen k hk⟩
  obtain ⟨hpr, hq⟩ := processGet_resp cfg { st with led := st.led.tokGet } (if gets then ascii "gets" else ascii "get") ks hl
  have hcas : ((if gets then ascii "gets" else ascii "get") == ascii "gets") = gets := by cases gets <;> decide
  rw [lookedUp_led, hcas] at hpr
  refine ⟨hn, hclose.trans hq, ?_⟩
  rcases hpr with hv | ⟨k, msg, hk1, hk2, hk3⟩
  · left
    refine ⟨hresp.trans hv, ?_⟩
    intro w hw
    obtain ⟨hspec, hnd⟩ := lookedUp_spec cfg st ks
    have hok : ∀ it ∈ lookedUp cfg st ks, it.OK cfg := by
      intro it hit
      obtain ⟨k, hk, hcg⟩ := hspec it hit
      have hg := clientGet_good cfg st k it hcg
      have hs := hstore it hit
      exact ⟨by rw [hg.1]; exact hks k hk, hs.1, by rw [hg.2.1]; constructor <;> decide, hs.2, hg.lenOK⟩
    exact readResp_wire_value_nodup cfg hmax gets _ hok hnd w hw
  · right
    rw [clientGet_led] at hk2
    refine ⟨k, msg, hk1, hk2, hresp.trans hk3, ?_⟩
    intro w hw rest fuel hf
    obtain ⟨toks, ht, rfl⟩ := clientGet_err_words cfg st k msg (hks k (by simp [hk1])) hk2
    exact readResp_wire_line_msg cfg _ toks w (by decide) ht hw rest fuel hf

/-- an ordinary key that is stored: the client gets the stored bytes back, byte for byte, and nothing else -/
theorem serveOnce_get_one_lit (cfg : Cfg) (hmax : cfg.bodyMax < 9223372036854775808) (st : St) (gets : Bool)
    (k : Bytes) (flag : Int) (body more : Bytes) (hk : Tok k) (hlen : k.length ≤ cfg.maxKeyLen)
    (hcg : (clientGet cfg st k).1 = .item { key := k, flag := flag, body := [.lit body], len := body.length })
    (hf : I64 flag) (hb : body.length ≤ cfg.bodyMax) :
    let r : Req := { cmd := if gets then ascii "gets" else ascii "get", keys := [k] }
    ∀ w, (serveOnce cfg st (writeReq r ++ more)).resp.elim False (fun x => x.Wire w) →
      ∀ (rest : Bytes) (fuel : Nat), 2 ≤ fuel →
        readResp cfg fuel (w ++ rest) []
          = some ({ status := ascii "END", msg := [], items := [{ key := k, flag := flag, cas := 0, body := body }] }, rest) := by
  intro r w hw rest fuel hfuel
  have hlu : lookedUp cfg st [k] = [{ key := k, flag := flag, body := [.lit body], len := body.length }] := by
    simp [lookedUp, hcg]
  have h := serveOnce_get_roundtrip cfg hmax st gets [k] more (by simpa using hk) (by simp) (by simpa using hlen)
    (by rw [hlu]; simpa using ⟨hf, hb⟩)
  simp only at h
  obtain ⟨_, _, h⟩ := h
  rcases h with ⟨hr, h⟩ | ⟨k', msg, hk1, hk2, _⟩
  · rw [hr] at hw
    obtain ⟨its, ps, hperm, hc, hread⟩ := h w hw
    rw [hlu] at hperm hread
    have : its = [{ key := k, flag := flag, body := [.lit body], len := body.length }] := List.perm_singleton.mp hperm
    subst this
    match ps, hc with
    | [p], hc =>
      obtain ⟨⟨k1, k2, k3, k4⟩, _⟩ := hc
      have k4' : p.body = body := SegsBytes.single_lit_inv k4
      rw [hread rest fuel (by simpa using hfuel)]
      have : p.norm gets = { key := k, flag := flag, cas := 0, body := body } := by
        cases p; simp only at k1 k2 k3 k4'; subst k1 k2 k3 k4'; cases gets <;> rfl
      simp [this]
  · simp only [List.cons.injEq, and_true] at hk1
    subst hk1
    rw [hcg] at hk2
    cases hk2

/-! ### every one-line reply of the server model -/

/-- one statement for the status lines: a status of `Response.Read`'s table, with no message (the six plain words) or
    with a message made of words (the four that carry one) -/
theorem readResp_wire_line (cfg : Cfg) (status msg w : Bytes)
    (hs : (status ∈ endStatuses ∧ msg = []) ∨ (status ∈ msgStatuses ∧ Words msg))
    (hw : (Resp.line status msg).Wire w) (rest : Bytes) (fuel : Nat) (hf : 1 ≤ fuel) :
    readResp cfg fuel (w ++ rest) [] = some ({ status := status, msg := msg, items := [] }, rest) := by
  rcases hs with ⟨h1, rfl⟩ | ⟨h1, toks, ht, rfl⟩
  · exact readResp_wire_line_end cfg status w h1 hw rest fuel hf
  · exact readResp_wire_line_msg cfg status toks w h1 ht hw rest fuel hf

/-- the fixed messages of `serveOnce` / `process` are words -/
theorem server_messages_words : ∀ m ∈ [ascii "invalid cmd", ascii "value too large", ascii "bad data chunk",
    ascii "key length error", ascii "invalid number", ascii "NOT_FOUND", ascii "operation not support", []], Words m := by
  intro m hm
  simp only [List.mem_cons, List.mem_nil_iff, or_false] at hm
  rcases hm with rfl | rfl | rfl | rfl | rfl | rfl | rfl | rfl
  · exact ⟨[ascii "invalid", ascii "cmd"], toks_of_all _ (by decide), by decide⟩
  · exact ⟨[ascii "value", ascii "too", ascii "large"], toks_of_all _ (by decide), by decide⟩
  · exact ⟨[ascii "bad", ascii "data", ascii "chunk"], toks_of_all _ (by decide), by decide⟩
  · exact ⟨[ascii "key", ascii "length", ascii "error"], toks_of_all _ (by decide), by decide⟩
  · exact ⟨[ascii "invalid", ascii "number"], toks_of_all _ (by decide), by decide⟩
  · exact ⟨[ascii "NOT_FOUND"], toks_of_all _ (by decide), by decide⟩
  · exact ⟨[ascii "operation", ascii "not", ascii "support"], toks_of_all _ (by decide), by decide⟩
  · exact ⟨[], by simp, rfl⟩

/-! ### left open (stated, not proved) -/

/-- the round trip for EVERY reply of `serveOnce`, whatever the input bytes: not proved here (needs: the keys `readReq`
    hands on are tokens; a case split over `process`).  The excluded classes are exactly the two refused ones
    (`readResp_wire_none_refused`, `readResp_wire_stat_refused`): the reply "none" and STAT lines with non-token values. -/
def serveOnce_reply_readable_statement : Prop :=
  ∀ (cfg : Cfg) (st : St) (inp : Bytes) (r : Resp) (w rest : Bytes),
    cfg.bodyMax < 9223372036854775808 → Words cfg.version →
    (serveOnce cfg st inp).resp = some r →
    r ≠ .line (ascii "none") [] →
    (∀ msg, r = .stat msg → ∀ nvs, w = statLines nvs ++ endLine → ∀ nv ∈ nvs, Tok nv.1 ∧ Tok nv.2) →
    (∀ c items, r = .value c items → ∀ it ∈ items, I64 it.flag ∧ it.len ≤ cfg.bodyMax) →
    (∀ m, r = .num m → ∃ v, I64 v ∧ m = itoa v) →
    r.Wire w →
    ∃ (p : PResp) (fuel0 : Nat), ∀ fuel, fuel0 ≤ fuel → readResp cfg fuel (w ++ rest) [] = some (p, rest)

end Proto
