/- Helper lemmas for C08: leaf summary bookkeeping = content sum; node counts; permutation invariance. -/
import GoBeans.Model.Tree
set_option linter.unusedSimpArgs false
set_option linter.unusedVariables false
namespace TreeLemmas
open Tree

def liveCount (l : List Ent) : Nat := (l.filter (fun e => decide (e.ver > 0))).length
def hashSum (l : List Ent) : Nat := ((l.filter (fun e => decide (e.ver > 0))).map contrib).sum

theorem leafSum_fold (l : List Ent) (c h : Nat) :
    l.foldl (fun (acc : Nat × Nat) e => if e.ver > 0 then (acc.1 + 1, (acc.2 + contrib e) % M16) else acc) (c, h % M16)
      = (c + liveCount l, (h + hashSum l) % M16) := by
  induction l generalizing c h with
  | nil => simp [liveCount, hashSum]
  | cons e l ih =>
    simp only [List.foldl_cons]
    by_cases hv : e.ver > 0
    · simp only [hv, if_true]
      rw [Nat.mod_add_mod, ih]
      simp [liveCount, hashSum, hv, List.filter_cons]
      constructor
      · omega
      · congr 1; omega
    · simp only [hv, if_false]
      rw [ih]
      simp [liveCount, hashSum, hv, List.filter_cons]

theorem leafSum_eq (l : List Ent) : leafSum l = (liveCount l, hashSum l % M16) := by
  have := leafSum_fold l 0 0
  simpa [leafSum] using this

theorem modmul (x a k : Nat) : (x + (a % M16) * k) % M16 = (x + a * k) % M16 := by
  rw [Nat.add_mod, Nat.mul_mod, Nat.mod_mod, ← Nat.mul_mod, ← Nat.add_mod]

theorem hash_update (R S A k So Ae : Nat) (hS : S < M16) (hSo : So % M16 = (S * k) % M16) (hAe : Ae % M16 = (A * k) % M16) :
    ((R + So) % M16 + ((A + M16 - S) % M16) * k) % M16 = (R + Ae) % M16 := by
  rw [modmul]
  have hle : S * k ≤ (A + M16) * k := Nat.mul_le_mul_right k (by omega)
  have e : (A + M16 - S) * k = A * k + M16 * k - S * k := by rw [Nat.sub_mul, Nat.add_mul]
  rw [e]
  rw [Nat.add_mul] at hle
  generalize A * k = X at *
  generalize S * k = Y at *
  unfold M16 at *
  omega

theorem liveCount_append (a b : List Ent) : liveCount (a ++ b) = liveCount a + liveCount b := by
  simp [liveCount, List.filter_append]
theorem hashSum_append (a b : List Ent) : hashSum (a ++ b) = hashSum a + hashSum b := by
  simp [hashSum, List.filter_append]

def isLive (e : Ent) : Bool := decide (e.ver > 0)
theorem liveCount_single (e : Ent) : liveCount [e] = if e.ver > 0 then 1 else 0 := by
  by_cases h : e.ver > 0 <;> simp [liveCount, h]
theorem hashSum_single (e : Ent) : hashSum [e] = if e.ver > 0 then contrib e else 0 := by
  by_cases h : e.ver > 0 <;> simp [hashSum, h]

structure LeafInv (lf : Leaf) : Prop where
  count : lf.count = liveCount lf.items
  hash : lf.hash = hashSum lf.items % M16
  nodup : (lf.items.map (·.khash)).Nodup

theorem leaf_init : LeafInv {} := ⟨rfl, rfl, by simp⟩

theorem find_none_iff (lf : Leaf) (kh : Nat) : lf.find kh = none ↔ ∀ x ∈ lf.items, x.khash ≠ kh := by
  unfold Leaf.find
  rw [List.find?_eq_none]
  try simp

theorem find_split (lf : Leaf) (kh : Nat) (o : Ent) (h : lf.find kh = some o) (hn : (lf.items.map (·.khash)).Nodup) :
    o.khash = kh ∧ ∃ pre post, lf.items = pre ++ o :: post ∧ (∀ x ∈ pre, x.khash ≠ kh) ∧ (∀ x ∈ post, x.khash ≠ kh) := by
  unfold Leaf.find at h
  rw [List.find?_eq_some_iff_append] at h
  obtain ⟨hk, pre, post, hl, hpre⟩ := h
  have hk' : o.khash = kh := by simpa using hk
  refine ⟨hk', pre, post, hl, ?_, ?_⟩
  · intro x hx; have := hpre x hx; simpa using this
  · intro x hx e
    rw [hl] at hn
    simp only [List.map_append, List.map_cons] at hn
    have := (List.nodup_append.mp hn).2.1
    rw [List.nodup_cons] at this
    apply this.1
    rw [List.mem_map]
    exact ⟨x, hx, by rw [e, hk']⟩

theorem contrib_mod (e : Ent) : contrib e % M16 = ((e.vhash % M16) * ((e.khash / 2^32) % M16)) % M16 := by
  unfold contrib
  rw [Nat.mod_mod, Nat.mul_mod, Nat.mod_mod]

theorem map_replace (pre post : List Ent) (o e : Ent) (kh : Nat) (ho : o.khash = kh) (he : e.khash = kh)
    (hpre : ∀ x ∈ pre, x.khash ≠ kh) (hpost : ∀ x ∈ post, x.khash ≠ kh) :
    (pre ++ o :: post).map (fun x => if x.khash == e.khash then e else x) = pre ++ e :: post := by
  rw [List.map_append, List.map_cons]
  have h1 : pre.map (fun x => if x.khash == e.khash then e else x) = pre := by
    conv => rhs; rw [← List.map_id pre]
    apply List.map_congr_left
    intro x hx; have := hpre x hx; simp [he, this]
  have h2 : post.map (fun x => if x.khash == e.khash then e else x) = post := by
    conv => rhs; rw [← List.map_id post]
    apply List.map_congr_left
    intro x hx; have := hpost x hx; simp [he, this]
  rw [h1, h2]; simp [ho, he]

/-- `setToLeaf` keeps  (count, hash) = summary recomputed from the items -/
theorem leaf_set_inv (lf : Leaf) (e : Ent) (inv : LeafInv lf) : LeafInv (lf.set e) := by
  unfold Leaf.set
  cases hf : lf.find e.khash with
  | none =>
    have hne := (find_none_iff lf e.khash).1 hf
    simp only []
    refine ⟨?_, ?_, ?_⟩
    · simp only [liveCount_append, liveCount_single, inv.count]
      split <;> omega
    · simp only [hashSum_append, hashSum_single, inv.hash]
      by_cases hv : e.ver > 0
      · simp only [hv, if_true]
        have := hash_update (hashSum lf.items) 0 (e.vhash % M16) ((e.khash / 2^32) % M16) 0 (contrib e) (by decide) (by simp) (contrib_mod e)
        simpa using this
      · simp only [hv, if_false]
        have := hash_update (hashSum lf.items) 0 0 ((e.khash / 2^32) % M16) 0 0 (by decide) (by simp) (by simp)
        simpa using this
    · rw [List.map_append, List.nodup_append]
      refine ⟨inv.nodup, by simp, ?_⟩
      intro a ha b hb
      simp at hb; subst hb
      rw [List.mem_map] at ha
      obtain ⟨x, hx, rfl⟩ := ha
      exact hne x hx
  | some o =>
    obtain ⟨hok, pre, post, hl, hpre, hpost⟩ := find_split lf e.khash o hf inv.nodup
    simp only []
    have hitems : lf.items.map (fun x => if x.khash == e.khash then e else x) = pre ++ e :: post := by
      rw [hl]; exact map_replace pre post o e e.khash hok rfl hpre hpost
    rw [hitems]
    have hc0 : lf.count = liveCount pre + (if o.ver > 0 then 1 else 0) + liveCount post := by
      rw [inv.count, hl, liveCount_append, show o :: post = [o] ++ post from rfl, liveCount_append, liveCount_single]; omega
    have hh0 : lf.hash = (hashSum pre + hashSum post + (if o.ver > 0 then contrib o else 0)) % M16 := by
      rw [inv.hash, hl, hashSum_append, show o :: post = [o] ++ post from rfl, hashSum_append, hashSum_single]
      congr 1; omega
    refine ⟨?_, ?_, ?_⟩
    · rw [liveCount_append, show e :: post = [e] ++ post from rfl, liveCount_append, liveCount_single, hc0]
      by_cases h1 : o.ver > 0 <;> by_cases h2 : e.ver > 0 <;> simp [h1, h2] <;> omega
    · rw [hashSum_append, show e :: post = [e] ++ post from rfl, hashSum_append, hashSum_single, hh0]
      have hk : (o.khash / 2^32) % M16 = (e.khash / 2^32) % M16 := by rw [hok]
      have co := contrib_mod o
      rw [hk] at co
      have ce := contrib_mod e
      by_cases h1 : o.ver > 0 <;> by_cases h2 : e.ver > 0
      · simp only [h1, h2, if_true]
        have := hash_update (hashSum pre + hashSum post) (o.vhash % M16) (e.vhash % M16) ((e.khash / 2^32) % M16) (contrib o) (contrib e)
          (Nat.mod_lt _ (by decide)) co ce
        rw [this]; congr 1; omega
      · simp only [h1, h2, if_true, if_false]
        have := hash_update (hashSum pre + hashSum post) (o.vhash % M16) 0 ((e.khash / 2^32) % M16) (contrib o) 0
          (Nat.mod_lt _ (by decide)) co (by simp)
        simp only [Nat.zero_add, Nat.add_zero, Nat.sub_zero] at this ⊢
        rw [this]
      · simp only [h1, h2, if_true, if_false]
        have := hash_update (hashSum pre + hashSum post) 0 (e.vhash % M16) ((e.khash / 2^32) % M16) 0 (contrib e)
          (by decide) (by simp) ce
        simp only [Nat.zero_add, Nat.add_zero, Nat.sub_zero] at this ⊢
        rw [this]; congr 1; omega
      · simp only [h1, h2, if_false]
        have := hash_update (hashSum pre + hashSum post) 0 0 ((e.khash / 2^32) % M16) 0 0 (by decide) (by simp) (by simp)
        simp only [Nat.zero_add, Nat.add_zero, Nat.sub_zero] at this ⊢
        rw [this]
    · have : (pre ++ e :: post).map (·.khash) = lf.items.map (·.khash) := by
        rw [hl]; simp [hok]
      rw [this]; exact inv.nodup

/-- `remvoeFromLeaf` keeps the invariant -/
theorem leaf_remove_inv (lf : Leaf) (kh : Nat) (inv : LeafInv lf) : LeafInv (lf.remove kh) := by
  unfold Leaf.remove
  cases hf : lf.find kh with
  | none => exact inv
  | some o =>
    obtain ⟨hok, pre, post, hl, hpre, hpost⟩ := find_split lf kh o hf inv.nodup
    simp only []
    have hitems : lf.items.filter (fun x => x.khash != kh) = pre ++ post := by
      rw [hl, List.filter_append, List.filter_cons]
      have h1 : pre.filter (fun x => x.khash != kh) = pre := List.filter_eq_self.mpr (fun x hx => by simpa using hpre x hx)
      have h2 : post.filter (fun x => x.khash != kh) = post := List.filter_eq_self.mpr (fun x hx => by simpa using hpost x hx)
      rw [h1, h2]; simp [hok]
    rw [hitems]
    have hc0 : lf.count = liveCount pre + (if o.ver > 0 then 1 else 0) + liveCount post := by
      rw [inv.count, hl, liveCount_append, show o :: post = [o] ++ post from rfl, liveCount_append, liveCount_single]; omega
    have hh0 : lf.hash = (hashSum pre + hashSum post + (if o.ver > 0 then contrib o else 0)) % M16 := by
      rw [inv.hash, hl, hashSum_append, show o :: post = [o] ++ post from rfl, hashSum_append, hashSum_single]
      congr 1; omega
    refine ⟨?_, ?_, ?_⟩
    · rw [liveCount_append, hc0]
      by_cases h1 : o.ver > 0 <;> simp [h1]
    · rw [hashSum_append, hh0]
      by_cases h1 : o.ver > 0
      · simp only [h1, if_true]
        have co := contrib_mod o
        rw [hok] at co
        have hlt : (o.vhash % M16 * (kh / 2 ^ 32 % M16)) % M16 < M16 := Nat.mod_lt _ (by decide)
        generalize hX : (o.vhash % M16 * (kh / 2 ^ 32 % M16)) % M16 = X at *
        have hc : contrib o % M16 = X := co
        unfold M16 at *
        omega
      · simp [h1]
    · have : (pre ++ post).map (·.khash) = ((lf.items.map (·.khash)).filter (· != kh)) := by
        rw [hl]; simp [List.filter_append, List.filter_cons, hok]
        have e1 : List.filter (fun x => x != kh) (List.map (fun x => x.khash) pre) = List.map (fun x => x.khash) pre := by
          apply List.filter_eq_self.mpr; intro x hx; rw [List.mem_map] at hx; obtain ⟨y, hy, rfl⟩ := hx; simpa using hpre y hy
        have e2 : List.filter (fun x => x != kh) (List.map (fun x => x.khash) post) = List.map (fun x => x.khash) post := by
          apply List.filter_eq_self.mpr; intro x hx; rw [List.mem_map] at hx; obtain ⟨y, hy, rfl⟩ := hx; simpa using hpost y hy
        rw [e1, e2]
      rw [this]
      exact List.Nodup.sublist List.filter_sublist inv.nodup

/-- every leaf reachable from the empty leaf by any sequence of set / remove has  summary = content sum -/
inductive LeafOp | set (e : Ent) | remove (kh : Nat)
def applyOp (lf : Leaf) : LeafOp → Leaf
  | .set e => lf.set e
  | .remove kh => lf.remove kh

theorem leaf_reachable_inv (ops : List LeafOp) : LeafInv (ops.foldl applyOp {}) := by
  have : ∀ lf, LeafInv lf → LeafInv (ops.foldl applyOp lf) := by
    induction ops with
    | nil => intro lf h; exact h
    | cons op ops ih =>
      intro lf h
      apply ih
      cases op with
      | set e => exact leaf_set_inv lf e h
      | remove kh => exact leaf_remove_inv lf kh h
  exact this {} leaf_init

/-! ### the specification is a function of the content SET (history independence) -/

theorem leafSum_perm {a b : List Ent} (h : a.Perm b) : leafSum a = leafSum b := by
  rw [leafSum_eq, leafSum_eq]
  have hf := h.filter (fun e => decide (e.ver > 0))
  have h1 : liveCount a = liveCount b := hf.length_eq
  have h2 : hashSum a = hashSum b := (hf.map contrib).sum_nat
  rw [h1, h2]

theorem nodeSum_perm {a b : Content} (h : a.Perm b) : ∀ (below n p : Nat), nodeSum a n p below = nodeSum b n p below := by
  intro below
  induction below with
  | zero => intro n p; exact leafSum_perm (h.filter _)
  | succ k ih =>
    intro n p
    unfold nodeSum
    have : (List.range 16).map (fun i => nodeSum a (n + 1) (p * 16 + i) k) = (List.range 16).map (fun i => nodeSum b (n + 1) (p * 16 + i) k) := by
      apply List.map_congr_left; intro i _; exact ih (n + 1) (p * 16 + i)
    rw [this]

/-- the number a leaf node reports is the number of live entries under its prefix -/
theorem leaf_count (c : Content) (n p : Nat) :
    (nodeSum c n p 0).1 = ((under c n p).filter (fun e => decide (e.ver > 0))).length := by
  simp [nodeSum, leafSum_eq, liveCount]

theorem foldl_add_sum (l : List (Nat × Nat)) (a : Nat) : l.foldl (fun a x => a + x.1) a = a + (l.map (·.1)).sum := by
  induction l generalizing a with
  | nil => simp
  | cons x l ih => simp [List.foldl_cons, ih]; omega

theorem topDigits_succ (kh n : Nat) (hn : n < 16) : topDigits kh (n + 1) / 16 = topDigits kh n := by
  unfold topDigits
  rw [Nat.div_div_eq_div_mul]
  congr 1
  have : 16 - n = (16 - (n + 1)) + 1 := by omega
  rw [this, Nat.pow_succ]

theorem zero_sum16 : ((List.range 16).map (fun _ => 0)).sum = 0 := by decide

theorem one_hot16 (r : Nat) (hr : r < 16) : ((List.range 16).map (fun i => if r = i then 1 else 0)).sum = 1 := by
  have key : ∀ (j : Fin 16), ((List.range 16).map (fun i => if j.val = i then 1 else 0)).sum = 1 := by decide
  exact key ⟨r, hr⟩

theorem child_indicator_t (t p : Nat) :
    ((List.range 16).map (fun i => if t == p * 16 + i then 1 else 0)).sum = (if t / 16 == p then 1 else 0) := by
  by_cases hp : t / 16 = p
  · have hlt : t % 16 < 16 := Nat.mod_lt _ (by decide)
    have hcongr : (List.range 16).map (fun i => if t == p * 16 + i then 1 else 0)
        = (List.range 16).map (fun i => if t % 16 = i then 1 else 0) := by
      apply List.map_congr_left
      intro i _
      by_cases hi : t % 16 = i
      · have : t = p * 16 + i := by omega
        rw [if_pos hi, if_pos (by simpa using this)]
      · have : ¬ t = p * 16 + i := by omega
        rw [if_neg hi, if_neg (by simpa using this)]
    rw [hcongr, one_hot16 _ hlt]
    simp [hp]
  · have hcongr : (List.range 16).map (fun i => if t == p * 16 + i then 1 else 0) = (List.range 16).map (fun _ => 0) := by
      apply List.map_congr_left
      intro i hi
      have hi' : i < 16 := List.mem_range.mp hi
      have : ¬ t = p * 16 + i := by omega
      rw [if_neg (by simpa using this)]
    rw [hcongr, zero_sum16]
    simp [hp]

/-- for each entry, exactly one of the 16 children of a prefix claims it (if the prefix does) -/
theorem child_indicator (kh n p : Nat) (hn : n < 16) :
    ((List.range 16).map (fun i => if topDigits kh (n + 1) == p * 16 + i then 1 else 0)).sum
      = (if topDigits kh n == p then 1 else 0) := by
  rw [child_indicator_t, topDigits_succ kh n hn]

theorem sum_map_add (f g : Nat → Nat) (l : List Nat) : (l.map (fun i => f i + g i)).sum = (l.map f).sum + (l.map g).sum := by
  induction l with
  | nil => rfl
  | cons x l ih => rw [List.map_cons, List.map_cons, List.map_cons, List.sum_cons, List.sum_cons, List.sum_cons, ih]; omega

theorem liveCount_children (c : Content) (n p : Nat) (hn : n < 16) :
    ((List.range 16).map (fun i => liveCount (under c (n + 1) (p * 16 + i)))).sum = liveCount (under c n p) := by
  induction c with
  | nil =>
    have : (List.range 16).map (fun i => liveCount (under ([] : Content) (n + 1) (p * 16 + i))) = (List.range 16).map (fun _ => 0) := by
      apply List.map_congr_left; intro i _; rfl
    rw [this, zero_sum16]; rfl
  | cons e c ih =>
    have hcons : ∀ m q, liveCount (under (e :: c) m q) = (if topDigits e.khash m == q then (if e.ver > 0 then 1 else 0) else 0) + liveCount (under c m q) := by
      intro m q
      unfold under liveCount
      by_cases h1 : topDigits e.khash m == q <;> by_cases h2 : e.ver > 0 <;> simp [List.filter_cons, h1, h2] <;> omega
    rw [hcons n p, ← ih]
    have : (List.range 16).map (fun i => liveCount (under (e :: c) (n + 1) (p * 16 + i)))
         = (List.range 16).map (fun i => (if topDigits e.khash (n + 1) == p * 16 + i then (if e.ver > 0 then 1 else 0) else 0) + liveCount (under c (n + 1) (p * 16 + i))) := by
      apply List.map_congr_left; intro i _; exact hcons (n + 1) (p * 16 + i)
    rw [this]
    rw [sum_map_add]
    suffices hh : ((List.range 16).map (fun i => if topDigits e.khash (n + 1) == p * 16 + i then (if e.ver > 0 then 1 else 0) else 0)).sum
        = (if topDigits e.khash n == p then (if e.ver > 0 then 1 else 0) else 0) by rw [hh]
    by_cases hv : e.ver > 0
    · simp only [hv, if_true]
      exact child_indicator e.khash n p hn
    · simp only [hv, if_false]
      have : (List.range 16).map (fun i => if topDigits e.khash (n + 1) == p * 16 + i then 0 else 0) = (List.range 16).map (fun _ => 0) := by
        apply List.map_congr_left; intro i _; split <;> rfl
      rw [this, zero_sum16]; split <;> rfl

/-- **counts equal the number of live keys under the prefix**, at every level -/
theorem node_count (c : Content) : ∀ (below n p : Nat), n + below ≤ 16 → (nodeSum c n p below).1 = liveCount (under c n p) := by
  intro below
  induction below with
  | zero => intro n p _; simp [nodeSum, leafSum_eq]
  | succ k ih =>
    intro n p h
    unfold nodeSum
    simp only []
    rw [foldl_add_sum, Nat.zero_add, List.map_map]
    have : (List.range 16).map ((fun x : Nat × Nat => x.1) ∘ fun i => nodeSum c (n + 1) (p * 16 + i) k)
         = (List.range 16).map (fun i => liveCount (under c (n + 1) (p * 16 + i))) := by
      apply List.map_congr_left; intro i _; exact ih (n + 1) (p * 16 + i) (by omega)
    rw [this]
    exact liveCount_children c n p (by omega)
end TreeLemmas
