/-
  `HintBuffer.Set` (store/hint.go:124-164) with its two lookup maps (`index`: keyhash → slot, `collisions`:
  keyhash → key → slot) computes "find the slot by (keyhash, key); replace in place, or append if there is room"
  (`slotSet`) — for every sequence of `Set` calls, colliding hashes included (`set_items`, `set_inv`).
-/
import GoBeans.Model.HintIndex
set_option linter.unusedSimpArgs false
set_option linter.unusedVariables false
namespace HintBufferLemmas
open HintIndex Spec

theorem sameKey_iff (a b : Item) : sameKey a b = true ↔ a.khash = b.khash ∧ a.key = b.key := by
  simp [sameKey]

theorem sameKey_false (a b : Item) : sameKey a b = false ↔ ¬ (a.khash = b.khash ∧ a.key = b.key) := by
  rw [← sameKey_iff]; simp

theorem sameKey_comm (a b : Item) : sameKey a b = sameKey b a := by
  apply Bool.eq_iff_iff.mpr
  rw [sameKey_iff, sameKey_iff]
  constructor <;> (intro h; exact ⟨h.1.symm, h.2.symm⟩)

theorem sameKey_trans {a b c : Item} (h1 : sameKey a b = true) (h2 : sameKey b c = true) : sameKey a c = true := by
  rw [sameKey_iff] at *
  exact ⟨h1.1.trans h2.1, h1.2.trans h2.2⟩

/-- no two slots hold the same (keyhash, key) -/
def NodupKey (items : List Item) : Prop := items.Pairwise (fun a b => sameKey a b = false)

theorem nodup_unique {items : List Item} (h : NodupKey items) {i j : Nat} {x y : Item}
    (hi : items[i]? = some x) (hj : items[j]? = some y) (hs : sameKey x y = true) : i = j := by
  unfold NodupKey at h
  rw [List.pairwise_iff_getElem] at h
  obtain ⟨hil, hix⟩ := List.getElem?_eq_some_iff.mp hi
  obtain ⟨hjl, hjy⟩ := List.getElem?_eq_some_iff.mp hj
  rcases Nat.lt_trichotomy i j with hlt | heq | hgt
  · have := h i j hil hjl hlt
    rw [hix, hjy, hs] at this; cases this
  · exact heq
  · have := h j i hjl hil hgt
    rw [hix, hjy, sameKey_comm, hs] at this; cases this

theorem nodup_of_idx {items : List Item}
    (h : ∀ (i j : Nat) (x y : Item), items[i]? = some x → items[j]? = some y → sameKey x y = true → i = j) : NodupKey items := by
  unfold NodupKey
  rw [List.pairwise_iff_getElem]
  intro i j hi hj hlt
  cases hs : sameKey items[i] items[j] with
  | false => rfl
  | true =>
    have := h i j _ _ (List.getElem?_eq_getElem hi) (List.getElem?_eq_getElem hj) hs
    omega

theorem findIdx_of_nodup {items : List Item} (h : NodupKey items) {i : Nat} {y it : Item}
    (hi : items[i]? = some y) (hs : sameKey it y = true) : items.findIdx? (sameKey it) = some i := by
  obtain ⟨hil, hiy⟩ := List.getElem?_eq_some_iff.mp hi
  rw [List.findIdx?_eq_some_iff_getElem]
  refine ⟨hil, by rw [hiy]; exact hs, ?_⟩
  intro j hji hsj
  have hjl : j < items.length := by omega
  have : sameKey items[j] y = true := sameKey_trans (by rw [sameKey_comm]; simpa using hsj) hs
  have := nodup_unique h (List.getElem?_eq_getElem hjl) hi this
  omega

/-! ### the invariant of the two maps -/

structure Inv3 (items : List Item) (index : List (Nat × Nat)) (colls : List (Nat × List (Key × Nat))) : Prop where
  nodup : NodupKey items
  /-- an `index` entry points at a used slot holding an item of that hash -/
  idxSound : ∀ kh i, AMap.get index kh = some i → ∃ x, items[i]? = some x ∧ x.khash = kh
  /-- every hash in the buffer has an `index` entry -/
  idxCompl : ∀ x ∈ items, (AMap.get index x.khash).isSome = true
  /-- a hash without a collision entry occurs with one key only -/
  colNone : ∀ kh, AMap.get colls kh = none → ∀ x ∈ items, ∀ y ∈ items, x.khash = kh → y.khash = kh → x.key = y.key
  /-- a collision entry points at the slot of exactly that (hash, key) -/
  colSound : ∀ kh keys key i, AMap.get colls kh = some keys → AMap.get keys key = some i →
    ∃ x, items[i]? = some x ∧ x.khash = kh ∧ x.key = key
  /-- a hash with a collision entry has ALL its keys in it -/
  colCompl : ∀ kh keys i x, AMap.get colls kh = some keys → items[i]? = some x → x.khash = kh →
    AMap.get keys x.key = some i
  colIdx : ∀ kh keys, AMap.get colls kh = some keys → (AMap.get index kh).isSome = true

def BufInv (b : Buf) : Prop := Inv3 b.items b.index b.collisions

theorem bufInv_empty : BufInv {} := by
  refine ⟨by simp [NodupKey], ?_, ?_, ?_, ?_, ?_, ?_⟩ <;> simp [AMap.get]

/-- the lookup of `Set` finds the slot holding the item's (keyhash, key), if there is one -/
theorem slot_eq (b : Buf) (hb : BufInv b) (it : Item) : b.slot it = b.items.findIdx? (sameKey it) := by
  unfold Buf.slot Buf.isColl Buf.key0 Buf.idx0
  cases hr : AMap.get b.index it.khash with
  | none =>
    simp only [Option.isSome_none, Bool.false_and, Bool.false_eq_true, if_false]
    symm
    rw [List.findIdx?_eq_none_iff]
    intro x hx
    cases hs : sameKey it x with
    | false => rfl
    | true =>
      have hs' := (sameKey_iff it x).mp hs
      have := hb.idxCompl x hx
      rw [← hs'.1, hr] at this
      simp at this
  | some idx =>
    obtain ⟨x, hx, hxk⟩ := hb.idxSound _ _ hr
    have hxm : x ∈ b.items := List.mem_of_getElem? hx
    have hgd : b.items.getD idx default = x := by
      rw [List.getD_eq_getElem?_getD, hx]; rfl
    simp only [Option.getD_some, hgd, Option.isSome_some, Bool.true_and]
    by_cases hk : it.key = x.key
    · simp only [hk, ne_eq, not_true_eq_false, decide_false, Bool.false_eq_true, if_false]
      symm
      exact findIdx_of_nodup hb.nodup hx (by rw [sameKey_iff]; exact ⟨hxk.symm, hk⟩)
    · simp only [ne_eq, hk, not_false_eq_true, decide_true, if_true]
      cases hc : AMap.get b.collisions it.khash with
      | none =>
        symm
        rw [List.findIdx?_eq_none_iff]
        intro y hy
        cases hs : sameKey it y with
        | false => rfl
        | true =>
          have hs' := (sameKey_iff it y).mp hs
          have := hb.colNone _ hc y hy x hxm hs'.1.symm hxk
          exact absurd (by rw [hs'.2, this]) hk
      | some keys =>
        simp only
        cases hkk : AMap.get keys it.key with
        | none =>
          symm
          rw [List.findIdx?_eq_none_iff]
          intro y hy
          cases hs : sameKey it y with
          | false => rfl
          | true =>
            have hs' := (sameKey_iff it y).mp hs
            obtain ⟨j, hj⟩ := List.getElem?_of_mem hy
            have := hb.colCompl _ _ j y hc hj hs'.1.symm
            rw [← hs'.2, hkk] at this
            cases this
        | some i =>
          obtain ⟨y, hy, hyk, hykey⟩ := hb.colSound _ _ _ _ hc hkk
          symm
          exact findIdx_of_nodup hb.nodup hy (by rw [sameKey_iff]; exact ⟨hyk.symm, hykey.symm⟩)

/-- `Set` on the items = `slotSet` -/
theorem set_items (cap : Nat) (b : Buf) (hb : BufInv b) (it : Item) (sz : Nat) :
    (b.set cap it sz).1.items = (slotSet cap b.items it).getD b.items ∧
    (b.set cap it sz).2 = (slotSet cap b.items it).isSome := by
  unfold Buf.set slotSet
  rw [slot_eq b hb it]
  cases b.items.findIdx? (sameKey it) with
  | none =>
    by_cases hc : b.items.length ≥ cap
    · simp [hc]
    · simp [hc, Buf.place]
  | some i => simp [Buf.place]

/-- `maxoffset`: the END of an accepted record, the START of a refused one -/
theorem set_maxoffset (cap : Nat) (b : Buf) (it : Item) (sz : Nat) :
    (b.set cap it sz).1.maxoffset =
      if (b.set cap it sz).2 then (if it.off + sz > b.maxoffset then it.off + sz else b.maxoffset)
      else (if it.off > b.maxoffset then it.off else b.maxoffset) := by
  unfold Buf.set
  cases b.slot it with
  | none =>
    by_cases hc : b.items.length ≥ cap
    · simp [hc]
    · simp [hc, Buf.place]
  | some i => simp [Buf.place]

/-! ### the invariant is kept -/

/-- slot `idx` now holds `it`; every other slot is as before and holds another (keyhash, key); the old content of
    slot `idx`, if any, had the same (keyhash, key) -/
structure Upd (items items' : List Item) (idx : Nat) (it : Item) : Prop where
  self : items'[idx]? = some it
  other : ∀ j, j ≠ idx → items'[j]? = items[j]?
  diff : ∀ j z, j ≠ idx → items[j]? = some z → sameKey it z = false
  same : ∀ z, items[idx]? = some z → sameKey it z = true

theorem upd_replace {items : List Item} (h : NodupKey items) {i : Nat} {it : Item}
    (hf : items.findIdx? (sameKey it) = some i) : Upd items (items.set i it) i it := by
  rw [List.findIdx?_eq_some_iff_getElem] at hf
  obtain ⟨hil, hs, _⟩ := hf
  refine ⟨List.getElem?_set_self hil, fun j hj => List.getElem?_set_ne (Ne.symm hj), ?_, ?_⟩
  · intro j z hj hz
    cases hsz : sameKey it z with
    | false => rfl
    | true =>
      have : sameKey items[i] z = true := sameKey_trans (by rw [sameKey_comm]; exact hs) hsz
      have := nodup_unique h (List.getElem?_eq_getElem hil) hz this
      omega
  · intro z hz
    rw [List.getElem?_eq_getElem hil] at hz
    cases hz; exact hs

theorem upd_append {items : List Item} {it : Item}
    (hf : items.findIdx? (sameKey it) = none) : Upd items (items ++ [it]) items.length it := by
  rw [List.findIdx?_eq_none_iff] at hf
  refine ⟨by simp, ?_, ?_, ?_⟩
  · intro j hj
    by_cases hlt : j < items.length
    · exact List.getElem?_append_left hlt
    · have h1 : items[j]? = none := by rw [List.getElem?_eq_none_iff]; omega
      have h2 : (items ++ [it])[j]? = none := by
        rw [List.getElem?_eq_none_iff]; simp; omega
      rw [h1, h2]
  · intro j z _ hz
    have := hf z (List.mem_of_getElem? hz)
    simpa using this
  · intro z hz
    have : items[items.length]? = none := by rw [List.getElem?_eq_none_iff]; omega
    rw [this] at hz; cases hz

theorem upd_mem {items items' : List Item} {idx : Nat} {it : Item} (u : Upd items items' idx it) {z : Item}
    (hz : z ∈ items') : z = it ∨ (z ∈ items ∧ sameKey it z = false) := by
  obtain ⟨j, hj⟩ := List.getElem?_of_mem hz
  by_cases hji : j = idx
  · subst hji; rw [u.self] at hj; cases hj; exact Or.inl rfl
  · rw [u.other j hji] at hj
    exact Or.inr ⟨List.mem_of_getElem? hj, u.diff j z hji hj⟩

theorem upd_nodup {items items' : List Item} {idx : Nat} {it : Item} (u : Upd items items' idx it)
    (h : NodupKey items) : NodupKey items' := by
  apply nodup_of_idx
  intro i j x y hi hj hs
  by_cases hii : i = idx
  · by_cases hji : j = idx
    · omega
    · subst hii
      rw [u.self] at hi; cases hi
      rw [u.other j hji] at hj
      have := u.diff j y hji hj
      rw [hs] at this; cases this
  · by_cases hji : j = idx
    · subst hji
      rw [u.self] at hj; cases hj
      rw [u.other i hii] at hi
      have := u.diff i x hii hi
      rw [sameKey_comm, hs] at this; cases this
    · rw [u.other i hii] at hi
      rw [u.other j hji] at hj
      exact nodup_unique h hi hj hs

/-- the first collision of a hash creates its entry with the key already there: still consistent -/
theorem colls1_inv (b : Buf) (hb : BufInv b) (it : Item) : Inv3 b.items b.index (b.colls1 it) := by
  unfold Buf.colls1
  by_cases hc : (b.isColl it && (AMap.get b.collisions it.khash).isNone) = true
  · simp only [hc, if_true]
    simp only [Bool.and_eq_true, Option.isNone_iff_eq_none] at hc
    obtain ⟨hcoll, hnone⟩ := hc
    unfold Buf.isColl at hcoll
    simp only [Bool.and_eq_true, decide_eq_true_eq] at hcoll
    obtain ⟨hsome, hne⟩ := hcoll
    obtain ⟨idx, hr⟩ := Option.isSome_iff_exists.mp hsome
    obtain ⟨x, hx, hxk⟩ := hb.idxSound _ _ hr
    have hxm : x ∈ b.items := List.mem_of_getElem? hx
    have hidx0 : b.idx0 it = idx := by unfold Buf.idx0; rw [hr]; rfl
    have hkey0 : b.key0 it = x.key := by
      unfold Buf.key0; rw [hidx0, List.getD_eq_getElem?_getD, hx]; rfl
    rw [hidx0, hkey0]
    have hget : ∀ kh, AMap.get (AMap.set b.collisions it.khash [(x.key, idx)]) kh =
        if it.khash = kh then some [(x.key, idx)] else AMap.get b.collisions kh := by
      intro kh
      by_cases hk : it.khash = kh
      · subst hk; simp
      · rw [AMap.get_set_ne _ _ _ _ hk]; simp [hk]
    refine ⟨hb.nodup, hb.idxSound, hb.idxCompl, ?_, ?_, ?_, ?_⟩
    · intro kh hn
      rw [hget] at hn
      by_cases hk : it.khash = kh
      · simp [hk] at hn
      · simp only [hk, if_false] at hn; exact hb.colNone kh hn
    · intro kh keys key i hg hgk
      rw [hget] at hg
      by_cases hk : it.khash = kh
      · simp only [hk, if_true, Option.some.injEq] at hg
        subst hg
        by_cases hkk : x.key = key
        · simp [AMap.get, hkk] at hgk
          subst hgk
          exact ⟨x, hx, by rw [hxk, hk], hkk⟩
        · simp [AMap.get, hkk] at hgk
      · simp only [hk, if_false] at hg; exact hb.colSound kh keys key i hg hgk
    · intro kh keys i y hg hy hyk
      rw [hget] at hg
      by_cases hk : it.khash = kh
      · simp only [hk, if_true, Option.some.injEq] at hg
        subst hg
        have hym : y ∈ b.items := List.mem_of_getElem? hy
        have hkeq : y.key = x.key := hb.colNone _ hnone y hym x hxm (by rw [hyk, hk]) hxk
        have : i = idx := nodup_unique hb.nodup hy hx (by rw [sameKey_iff]; exact ⟨by rw [hyk, hxk, hk], hkeq⟩)
        subst this
        simp [AMap.get, hkeq]
      · simp only [hk, if_false] at hg; exact hb.colCompl kh keys i y hg hy hyk
    · intro kh keys hg
      rw [hget] at hg
      by_cases hk : it.khash = kh
      · rw [← hk]; exact hsome
      · simp only [hk, if_false] at hg; exact hb.colIdx kh keys hg
  · simp only [hc]
    exact hb

/-- `place` when the hash's slot held the same key or the hash was new: the collision map is not touched -/
theorem place_plain {items items' : List Item} {index : List (Nat × Nat)} {colls : List (Nat × List (Key × Nat))}
    {idx : Nat} {it : Item} (h : Inv3 items index colls) (u : Upd items items' idx it)
    (hnew : items[idx]? = none → AMap.get index it.khash = none) :
    Inv3 items' (AMap.set index it.khash idx) colls := by
  have hgi : ∀ kh, AMap.get (AMap.set index it.khash idx) kh = if it.khash = kh then some idx else AMap.get index kh := by
    intro kh
    by_cases hk : it.khash = kh
    · subst hk; simp
    · rw [AMap.get_set_ne _ _ _ _ hk]; simp [hk]
  -- an old item of the hash being set has the key being set, if the hash has no collision entry
  have hold : AMap.get colls it.khash = none → ∀ z ∈ items, z.khash = it.khash → z.key = it.key := by
    intro hn z hz hzk
    cases hi : items[idx]? with
    | none =>
      have := h.idxCompl z hz
      rw [hzk, hnew hi] at this; simp at this
    | some y =>
      have hs := (sameKey_iff it y).mp (u.same y hi)
      have := h.colNone _ hn z hz y (List.mem_of_getElem? hi) hzk hs.1.symm
      rw [this, hs.2]
  refine ⟨upd_nodup u h.nodup, ?_, ?_, ?_, ?_, ?_, ?_⟩
  · intro kh i hg
    rw [hgi] at hg
    by_cases hk : it.khash = kh
    · simp only [hk, if_true, Option.some.injEq] at hg
      subst hg; exact ⟨it, u.self, hk⟩
    · simp only [hk, if_false] at hg
      obtain ⟨x, hx, hxk⟩ := h.idxSound kh i hg
      have hne : i ≠ idx := by
        intro e; subst e
        have := (sameKey_iff it x).mp (u.same x hx)
        exact hk (by rw [this.1, hxk])
      exact ⟨x, by rw [u.other i hne]; exact hx, hxk⟩
  · intro z hz
    rw [hgi]
    by_cases hk : it.khash = z.khash
    · simp [hk]
    · simp only [hk, if_false]
      rcases upd_mem u hz with rfl | ⟨hzo, _⟩
      · exact absurd rfl hk
      · exact h.idxCompl z hzo
  · intro kh hn x hx y hy hxk hyk
    rcases upd_mem u hx with rfl | ⟨hxo, _⟩
    · rcases upd_mem u hy with rfl | ⟨hyo, _⟩
      · rfl
      · subst hxk; exact (hold hn y hyo hyk).symm
    · rcases upd_mem u hy with rfl | ⟨hyo, _⟩
      · subst hyk; exact hold hn x hxo hxk
      · exact h.colNone kh hn x hxo y hyo hxk hyk
  · intro kh keys key i hg hgk
    obtain ⟨x, hx, hxk, hxkey⟩ := h.colSound kh keys key i hg hgk
    by_cases hi : i = idx
    · subst hi
      have hs := (sameKey_iff it x).mp (u.same x hx)
      exact ⟨it, u.self, by rw [hs.1, hxk], by rw [hs.2, hxkey]⟩
    · exact ⟨x, by rw [u.other i hi]; exact hx, hxk, hxkey⟩
  · intro kh keys i x hg hx hxk
    by_cases hi : i = idx
    · subst hi
      rw [u.self] at hx; cases hx
      cases hio : items[i]? with
      | none =>
        have := h.colIdx kh keys hg
        rw [← hxk, hnew hio] at this; simp at this
      | some y =>
        have hs := (sameKey_iff it y).mp (u.same y hio)
        have := h.colCompl kh keys i y hg hio (by rw [← hs.1, hxk])
        rw [hs.2]; exact this
    · rw [u.other i hi] at hx
      exact h.colCompl kh keys i x hg hx hxk
  · intro kh keys hg
    rw [hgi]
    by_cases hk : it.khash = kh
    · simp [hk]
    · simp only [hk, if_false]; exact h.colIdx kh keys hg

/-- `place` on the collision path: the key's entry in the hash's collision map is set to the slot -/
theorem place_coll {items items' : List Item} {index : List (Nat × Nat)} {colls : List (Nat × List (Key × Nat))}
    {idx : Nat} {it : Item} {keys1 : List (Key × Nat)} (h : Inv3 items index colls) (u : Upd items items' idx it)
    (hk1 : AMap.get colls it.khash = some keys1) :
    Inv3 items' (AMap.set index it.khash idx) (AMap.set colls it.khash (AMap.set keys1 it.key idx)) := by
  have hgi : ∀ kh, AMap.get (AMap.set index it.khash idx) kh = if it.khash = kh then some idx else AMap.get index kh := by
    intro kh
    by_cases hk : it.khash = kh
    · subst hk; simp
    · rw [AMap.get_set_ne _ _ _ _ hk]; simp [hk]
  have hgc : ∀ kh, AMap.get (AMap.set colls it.khash (AMap.set keys1 it.key idx)) kh =
      if it.khash = kh then some (AMap.set keys1 it.key idx) else AMap.get colls kh := by
    intro kh
    by_cases hk : it.khash = kh
    · subst hk; simp
    · rw [AMap.get_set_ne _ _ _ _ hk]; simp [hk]
  refine ⟨upd_nodup u h.nodup, ?_, ?_, ?_, ?_, ?_, ?_⟩
  · intro kh i hg
    rw [hgi] at hg
    by_cases hk : it.khash = kh
    · simp only [hk, if_true, Option.some.injEq] at hg
      subst hg; exact ⟨it, u.self, hk⟩
    · simp only [hk, if_false] at hg
      obtain ⟨x, hx, hxk⟩ := h.idxSound kh i hg
      have hne : i ≠ idx := by
        intro e; subst e
        have := (sameKey_iff it x).mp (u.same x hx)
        exact hk (by rw [this.1, hxk])
      exact ⟨x, by rw [u.other i hne]; exact hx, hxk⟩
  · intro z hz
    rw [hgi]
    by_cases hk : it.khash = z.khash
    · simp [hk]
    · simp only [hk, if_false]
      rcases upd_mem u hz with rfl | ⟨hzo, _⟩
      · exact absurd rfl hk
      · exact h.idxCompl z hzo
  · intro kh hn x hx y hy hxk hyk
    rw [hgc] at hn
    by_cases hk : it.khash = kh
    · simp [hk] at hn
    · simp only [hk, if_false] at hn
      rcases upd_mem u hx with rfl | ⟨hxo, _⟩
      · exact absurd hxk hk
      · rcases upd_mem u hy with rfl | ⟨hyo, _⟩
        · exact absurd hyk hk
        · exact h.colNone kh hn x hxo y hyo hxk hyk
  · intro kh keys key i hg hgk
    rw [hgc] at hg
    by_cases hk : it.khash = kh
    · simp only [hk, if_true, Option.some.injEq] at hg
      subst hg
      by_cases hkk : it.key = key
      · subst hkk
        rw [AMap.get_set_self] at hgk
        cases hgk
        exact ⟨it, u.self, hk, rfl⟩
      · rw [AMap.get_set_ne _ _ _ _ hkk] at hgk
        obtain ⟨x, hx, hxk, hxkey⟩ := h.colSound _ keys1 key i hk1 hgk
        have hne : i ≠ idx := by
          intro e; subst e
          have := (sameKey_iff it x).mp (u.same x hx)
          exact hkk (by rw [this.2, hxkey])
        exact ⟨x, by rw [u.other i hne]; exact hx, by rw [hxk, hk], hxkey⟩
    · simp only [hk, if_false] at hg
      obtain ⟨x, hx, hxk, hxkey⟩ := h.colSound kh keys key i hg hgk
      have hne : i ≠ idx := by
        intro e; subst e
        have := (sameKey_iff it x).mp (u.same x hx)
        exact hk (by rw [this.1, hxk])
      exact ⟨x, by rw [u.other i hne]; exact hx, hxk, hxkey⟩
  · intro kh keys i x hg hx hxk
    rw [hgc] at hg
    by_cases hk : it.khash = kh
    · simp only [hk, if_true, Option.some.injEq] at hg
      subst hg
      by_cases hi : i = idx
      · subst hi
        rw [u.self] at hx; cases hx
        exact AMap.get_set_self _ _ _
      · rw [u.other i hi] at hx
        have hd := u.diff i x hi hx
        have hkk : it.key ≠ x.key := by
          intro e
          have : sameKey it x = true := by rw [sameKey_iff]; exact ⟨by rw [hxk, hk], e⟩
          rw [this] at hd; cases hd
        rw [AMap.get_set_ne _ _ _ _ hkk]
        exact h.colCompl _ keys1 i x hk1 hx (by rw [hxk, hk])
    · simp only [hk, if_false] at hg
      have hi : i ≠ idx := by
        intro e; subst e
        rw [u.self] at hx; cases hx
        exact hk hxk
      rw [u.other i hi] at hx
      exact h.colCompl kh keys i x hg hx hxk
  · intro kh keys hg
    rw [hgi]
    by_cases hk : it.khash = kh
    · simp [hk]
    · rw [hgc] at hg
      simp only [hk, if_false] at hg ⊢; exact h.colIdx kh keys hg

/-- on the collision path the hash has a collision entry after the collision block -/
theorem colls1_some (b : Buf) (it : Item) (hc : b.isColl it = true) :
    ∃ keys1, AMap.get (b.colls1 it) it.khash = some keys1 := by
  unfold Buf.colls1
  cases hg : AMap.get b.collisions it.khash with
  | none => simp [hc, hg]
  | some keys => simp [hc, hg]

theorem place_inv (b : Buf) (hb : BufInv b) (it : Item) (sz idx : Nat) (items' : List Item)
    (u : Upd b.items items' idx it) (hnew : b.items[idx]? = none → b.slot it = none) :
    BufInv (b.place it sz idx items') := by
  unfold BufInv Buf.place
  have h1 := colls1_inv b hb it
  by_cases hc : b.isColl it = true
  · obtain ⟨keys1, hk1⟩ := colls1_some b it hc
    simp only [hc, if_true, hk1, Option.getD_some]
    exact place_coll h1 u hk1
  · simp only [hc]
    apply place_plain h1 u
    intro hi
    have := hnew hi
    unfold Buf.slot at this
    simpa [hc] using this

/-- EVERY `Set` keeps the two maps consistent with the slots -/
theorem set_inv (cap : Nat) (b : Buf) (hb : BufInv b) (it : Item) (sz : Nat) : BufInv (b.set cap it sz).1 := by
  have hs := slot_eq b hb it
  unfold Buf.set
  cases hf : b.items.findIdx? (sameKey it) with
  | none =>
    rw [hf] at hs
    rw [hs]
    by_cases hc : b.items.length ≥ cap
    · simp only [hc, if_true]
      exact colls1_inv b hb it
    · simp only [hc, if_false]
      exact place_inv b hb it sz _ _ (upd_append hf) (fun _ => hs)
  | some i =>
    rw [hf] at hs
    rw [hs]
    simp only
    apply place_inv b hb it sz _ _ (upd_replace hb.nodup hf)
    intro hi
    rw [List.findIdx?_eq_some_iff_getElem] at hf
    obtain ⟨hil, _⟩ := hf
    rw [List.getElem?_eq_none_iff] at hi
    omega

end HintBufferLemmas
