/-
  Invariants of the fine-grained interleaving model (Model/ConcFine.lean), layer 4: the recorded history.
    HistInv  per key, the outcomes recorded at the linearisation micro-steps are exactly those of the atomic register
             of Model/Conc.lean run over the operations in the order of their linearisation points, and the register
             reached is the one the bucket holds now (`absReg`); linearisation times increase, lie strictly
             between invocation and response; an operation that has been linearised but has not returned yet WILL
             return the recorded outcome (for a get: the record at the position it took from the tree stays
             readable and is the same record, whatever writers and flushers do meanwhile).
  Preserved by every scheduler decision.  Core-only.
-/
import GoBeans.Lemmas.ConcFineData
import GoBeans.Lemmas.Conc

namespace ConcFine
open Conc (AOp Out Ev Reg regStep)

/-! ### the atomic register run over a list of operations -/

def regRun (r : Reg) : List AOp → List Out
  | [] => []
  | op :: ops => (regStep r op).2 :: regRun (regStep r op).1 ops

def regFold (r : Reg) (ops : List AOp) : Reg := ops.foldl (fun r op => (regStep r op).1) r

theorem regRun_append (r : Reg) (a b : List AOp) : regRun r (a ++ b) = regRun r a ++ regRun (regFold r a) b := by
  induction a generalizing r with
  | nil => rfl
  | cons op a ih => simp only [List.cons_append, regRun, ih, regFold, List.foldl_cons]

theorem regFold_append (r : Reg) (a b : List AOp) : regFold r (a ++ b) = regFold (regFold r a) b := by
  simp only [regFold, List.foldl_append]

/-! ### the register the bucket holds -/

theorem absReg_eq {s : State} (hc : ChunkInv s) (hd : DataInv s) {k : Nat} {it : Item} (hit : s.tree k = some it) :
    ∃ r, StoredAt s.chunks it.pos r ∧ r.key = k ∧ r.ver = it.ver ∧ RecOK r ∧
      absReg s k = { ver := it.ver.natAbs, val := r.val } := by
  obtain ⟨r, h1, h2, h3⟩ := hd.tree k it hit
  refine ⟨r, h1, h2, h3, hd.recs _ r h1.1, ?_⟩
  unfold absReg
  rw [hit]
  have := (hc.ok it.pos.chunk).lookup r h1.1
  rw [h1.2] at this
  simp only [this]

theorem absReg_none {s : State} {k : Nat} (hit : s.tree k = none) : absReg s k = {} := by
  unfold absReg; rw [hit]

/-- **read stability**: whatever a micro-step of whatever thread does to buffers and files, the register of a
    key whose tree item it does not touch stays what it was -/
theorem absReg_stable {s s' : State} {k : Nat} (ht : s'.tree k = s.tree k) (g : Grows s.chunks s'.chunks)
    (hd : DataInv s) (hc : ChunkInv s) (hc' : ChunkInv s') : absReg s' k = absReg s k := by
  cases hit : s.tree k with
  | none => rw [absReg_none hit, absReg_none (ht.trans hit)]
  | some it =>
    obtain ⟨r, h1, _, _, _, h5⟩ := absReg_eq hc hd hit
    rw [h5]
    unfold absReg
    rw [ht, hit]
    have h1' := storedAt_grows g h1
    have := (hc'.ok it.pos.chunk).lookup r h1'.1
    rw [h1'.2] at this
    simp only [this]

/-! ### the history invariant -/

def keyHist (s : State) (k : Nat) : List HEv := s.hist.filter (fun e => e.key = k)

def opsOf (es : List HEv) : List AOp := es.map (·.ev.op)
def outsOf (es : List HEv) : List Out := es.map (·.ev.out)

/-- what a thread that has passed its linearisation point is going to return -/
def PendPC (ch : Nat → Chunk) (pc : PC) (out : Out) : Prop :=
  match pc with
  | .wUnlock _ o => out = o
  | .rRet _ => out = .got 0 0
  | .rBuf k it => ∃ r, StoredAt ch it.pos r ∧ r.key = k ∧ out = .got r.val it.ver.natAbs
  | .rFile k it => ∃ r, r ∈ (ch it.pos.chunk).file ∧ r.off = it.pos.off ∧ r.key = k ∧ out = .got r.val it.ver.natAbs
  | _ => False

theorem pendPC_grows {ch ch' : Nat → Chunk} (g : Grows ch ch') {pc : PC} {out : Out} (h : PendPC ch pc out) :
    PendPC ch' pc out := by
  cases pc with
  | rBuf k it => obtain ⟨r, h1, h2⟩ := h; exact ⟨r, storedAt_grows g h1, h2⟩
  | rFile k it => obtain ⟨r, h1, h2⟩ := h; exact ⟨r, (g _ _).1 h1, h2⟩
  | wUnlock k o => exact h
  | rRet k => exact h
  | _ => exact h

structure HistInv (s : State) : Prop where
  outs : ∀ k, regRun {} (opsOf (keyHist s k)) = outsOf (keyHist s k)
  reg : ∀ k, regFold {} (opsOf (keyHist s k)) = absReg s k
  lin : s.hist.Pairwise (fun a b => a.ev.lin < b.ev.lin)
  times : ∀ e ∈ s.hist, e.ev.inv < e.ev.lin ∧ e.ev.lin < s.clock ∧ (e.done = true → e.ev.lin < e.ev.resp)
  pend : ∀ e ∈ s.hist, e.done = false → PendPC s.chunks (s.thr e.tid).pc e.ev.out
  inv : ∀ u, (s.thr u).pc ≠ .idle → (s.thr u).inv < s.clock

/-- a micro-step that records nothing -/
theorem hist_same {s s' : State} (t : Nat) (hi : HistInv s) (hh : s'.hist = s.hist) (hclk : s'.clock = s.clock)
    (hthr : ∀ u, u ≠ t → s'.thr u = s.thr u) (hinv : (s'.thr t).pc ≠ .idle → (s'.thr t).inv < s.clock + 1)
    (g : Grows s.chunks s'.chunks) (hreg : ∀ k, absReg s' k = absReg s k)
    (hpend : ∀ out, PendPC s.chunks (s.thr t).pc out → PendPC s'.chunks (s'.thr t).pc out) : HistInv s'.tick := by
  have hk : ∀ k, keyHist s'.tick k = keyHist s k := by intro k; unfold keyHist; show s'.hist.filter _ = _; rw [hh]
  refine ⟨?_, ?_, ?_, ?_, ?_, ?_⟩
  · intro k; rw [hk]; exact hi.outs k
  · intro k; rw [hk]; exact (hi.reg k).trans (hreg k).symm
  · show s'.hist.Pairwise _; rw [hh]; exact hi.lin
  · intro e he
    have he' : e ∈ s.hist := by rw [← hh]; exact he
    have := hi.times e he'
    show _ ∧ e.ev.lin < s'.clock + 1 ∧ _
    rw [hclk]; exact ⟨this.1, by omega, this.2.2⟩
  · intro e he hd
    have he' : e ∈ s.hist := by rw [← hh]; exact he
    have := hi.pend e he' hd
    show PendPC s'.chunks (s'.thr e.tid).pc e.ev.out
    by_cases hu : e.tid = t
    · rw [hu] at this ⊢; exact hpend _ this
    · rw [hthr _ hu]; exact pendPC_grows g this
  · intro u hne
    have hne : (s'.thr u).pc ≠ .idle := hne
    show (s'.thr u).inv < s'.clock + 1
    rw [hclk]
    by_cases hu : u = t
    · subst hu; exact hinv hne
    · rw [hthr u hu] at hne ⊢; have := hi.inv u hne; omega

theorem keyHist_append (l : List HEv) (e : HEv) (k : Nat) :
    (l ++ [e]).filter (fun e => e.key = k) = l.filter (fun e => e.key = k) ++ (if e.key = k then [e] else []) := by
  rw [List.filter_append]
  congr 1
  by_cases h : e.key = k <;> simp [h]

/-- the entry `State.log` appends -/
def mkEntry (t k : Nat) (op : AOp) (inv : Nat) (out : Out) (lin : Nat) : HEv :=
  { tid := t, key := k, done := false, ev := { op := op, inv := inv, resp := 0, out := out, lin := lin } }

@[simp] theorem mkEntry_key (t k : Nat) (op : AOp) (i : Nat) (o : Out) (l : Nat) : (mkEntry t k op i o l).key = k := rfl
@[simp] theorem mkEntry_tid (t k : Nat) (op : AOp) (i : Nat) (o : Out) (l : Nat) : (mkEntry t k op i o l).tid = t := rfl
@[simp] theorem mkEntry_done (t k : Nat) (op : AOp) (i : Nat) (o : Out) (l : Nat) : (mkEntry t k op i o l).done = false := rfl
@[simp] theorem mkEntry_op (t k : Nat) (op : AOp) (i : Nat) (o : Out) (l : Nat) : (mkEntry t k op i o l).ev.op = op := rfl
@[simp] theorem mkEntry_out (t k : Nat) (op : AOp) (i : Nat) (o : Out) (l : Nat) : (mkEntry t k op i o l).ev.out = o := rfl
@[simp] theorem mkEntry_lin (t k : Nat) (op : AOp) (i : Nat) (o : Out) (l : Nat) : (mkEntry t k op i o l).ev.lin = l := rfl
@[simp] theorem mkEntry_inv (t k : Nat) (op : AOp) (i : Nat) (o : Out) (l : Nat) : (mkEntry t k op i o l).ev.inv = i := rfl

/-- a linearisation micro-step -/
theorem hist_log {s s' : State} (t k : Nat) (op : AOp) (out : Out) (hi : HistInv s)
    (hh : s'.hist = s.hist ++ [mkEntry t k op (s.thr t).inv out s.clock])
    (hclk : s'.clock = s.clock) (hthr : ∀ u, u ≠ t → s'.thr u = s.thr u)
    (hne : (s.thr t).pc ≠ .idle) (hinv : (s'.thr t).inv = (s.thr t).inv)
    (g : Grows s.chunks s'.chunks)
    (hout : out = (regStep (absReg s k) op).2) (hreg1 : absReg s' k = (regStep (absReg s k) op).1)
    (hreg2 : ∀ k', k' ≠ k → absReg s' k' = absReg s k')
    (hpre : ∀ o, ¬ PendPC s.chunks (s.thr t).pc o) (hpost : PendPC s'.chunks (s'.thr t).pc out) :
    HistInv s'.tick := by
  have hk : ∀ k', keyHist s'.tick k' = keyHist s k' ++ (if k = k' then [mkEntry t k op (s.thr t).inv out s.clock] else []) := by
    intro k'; unfold keyHist; show s'.hist.filter _ = _; rw [hh, keyHist_append, mkEntry_key]
  refine ⟨?_, ?_, ?_, ?_, ?_, ?_⟩
  · intro k'
    rw [hk]
    by_cases hkk : k = k'
    · subst hkk
      simp only [if_true, opsOf, outsOf, List.map_append, List.map_cons, List.map_nil]
      rw [regRun_append]
      have h1 := hi.outs k
      have h2 := hi.reg k
      simp only [opsOf, outsOf] at h1 h2
      rw [h1, h2]
      simp only [regRun, hout, mkEntry_op, mkEntry_out]
    · simp only [hkk, if_false, List.append_nil]; exact hi.outs k'
  · intro k'
    rw [hk]
    by_cases hkk : k = k'
    · subst hkk
      simp only [if_true, opsOf, List.map_append, List.map_cons, List.map_nil]
      rw [regFold_append]
      have h2 := hi.reg k
      simp only [opsOf] at h2
      rw [h2]
      simp only [regFold, List.foldl_cons, List.foldl_nil]
      exact hreg1.symm
    · simp only [hkk, if_false, List.append_nil]
      exact (hi.reg k').trans (hreg2 k' (fun e => hkk e.symm)).symm
  · show s'.hist.Pairwise _
    rw [hh, List.pairwise_append]
    refine ⟨hi.lin, List.pairwise_singleton _ _, ?_⟩
    intro a ha b hb
    rw [List.mem_singleton] at hb
    subst hb
    exact (hi.times a ha).2.1
  · intro e he
    have he' : e ∈ s'.hist := he
    rw [hh] at he'
    show _ ∧ e.ev.lin < s'.clock + 1 ∧ _
    rw [hclk]
    rcases List.mem_append.mp he' with h1 | h1
    · have := hi.times e h1; exact ⟨this.1, by omega, this.2.2⟩
    · rw [List.mem_singleton] at h1
      subst h1
      have := hi.inv t hne
      exact ⟨this, Nat.lt_succ_self _, by simp [mkEntry]⟩
  · intro e he hd
    have he' : e ∈ s'.hist := he
    rw [hh] at he'
    show PendPC s'.chunks (s'.thr e.tid).pc e.ev.out
    rcases List.mem_append.mp he' with h1 | h1
    · have := hi.pend e h1 hd
      by_cases hu : e.tid = t
      · rw [hu] at this; exact absurd this (hpre _)
      · rw [hthr _ hu]; exact pendPC_grows g this
    · rw [List.mem_singleton] at h1
      subst h1
      exact hpost
  · intro u hne'
    have hne' : (s'.thr u).pc ≠ .idle := hne'
    show (s'.thr u).inv < s'.clock + 1
    rw [hclk]
    by_cases hu : u = t
    · subst hu; rw [hinv]; have := hi.inv u hne; omega
    · rw [hthr u hu] at hne' ⊢; have := hi.inv u hne'; omega

theorem filter_map_key (l : List HEv) (f : HEv → HEv) (k : Nat) (hf : ∀ e ∈ l, (f e).key = e.key) :
    (l.map f).filter (fun e => e.key = k) = (l.filter (fun e => e.key = k)).map f := by
  induction l with
  | nil => rfl
  | cons a l ih =>
    have ha := hf a List.mem_cons_self
    have ih' := ih (fun e he => hf e (List.mem_cons_of_mem _ he))
    simp only [List.map_cons, List.filter_cons, ha]
    by_cases hk : a.key = k
    · simp only [hk, decide_true, if_true, List.map_cons, ih']
    · simp only [hk, decide_false, Bool.false_eq_true, if_false, ih']

/-- a response micro-step: the open entry of the thread is completed with what the thread actually returns -/
theorem hist_respond {s s' : State} (t : Nat) (out : Out) (hi : HistInv s)
    (hh : s'.hist = s.hist.map (complete t s.clock out))
    (hclk : s'.clock = s.clock) (hthr : ∀ u, u ≠ t → s'.thr u = s.thr u) (hidle : (s'.thr t).pc = .idle)
    (g : Grows s.chunks s'.chunks) (hreg : ∀ k, absReg s' k = absReg s k)
    (hout : ∀ o, PendPC s.chunks (s.thr t).pc o → o = out) : HistInv s'.tick := by
  -- the completion changes `done` and `resp` only
  have hc : ∀ e ∈ s.hist, (complete t s.clock out e).key = e.key ∧ (complete t s.clock out e).tid = e.tid ∧
      (complete t s.clock out e).ev.op = e.ev.op ∧ (complete t s.clock out e).ev.out = e.ev.out ∧
      (complete t s.clock out e).ev.lin = e.ev.lin ∧ (complete t s.clock out e).ev.inv = e.ev.inv := by
    intro e he
    unfold complete
    by_cases hp : e.tid = t ∧ e.done = false
    · rw [if_pos hp]
      have := hi.pend e he hp.2
      rw [hp.1] at this
      exact ⟨rfl, rfl, rfl, (hout _ this).symm, rfl, rfl⟩
    · rw [if_neg hp]; exact ⟨rfl, rfl, rfl, rfl, rfl, rfl⟩
  have hk : ∀ k, keyHist s'.tick k = (keyHist s k).map (complete t s.clock out) := by
    intro k; unfold keyHist; show s'.hist.filter _ = _
    rw [hh]; exact filter_map_key _ _ _ (fun e he => (hc e he).1)
  have hops : ∀ k, opsOf (keyHist s'.tick k) = opsOf (keyHist s k) := by
    intro k; rw [hk]; unfold opsOf
    rw [List.map_map]
    apply List.map_congr_left
    intro e he
    exact (hc e (List.mem_filter.mp he).1).2.2.1
  have houts : ∀ k, outsOf (keyHist s'.tick k) = outsOf (keyHist s k) := by
    intro k; rw [hk]; unfold outsOf
    rw [List.map_map]
    apply List.map_congr_left
    intro e he
    exact (hc e (List.mem_filter.mp he).1).2.2.2.1
  refine ⟨?_, ?_, ?_, ?_, ?_, ?_⟩
  · intro k; rw [hops, houts]; exact hi.outs k
  · intro k; rw [hops]; exact (hi.reg k).trans (hreg k).symm
  · show s'.hist.Pairwise _
    rw [hh, List.pairwise_map]
    refine hi.lin.imp_of_mem ?_
    intro a b ha hb hab
    rw [(hc a ha).2.2.2.2.1, (hc b hb).2.2.2.2.1]; exact hab
  · intro e he
    have he' : e ∈ s'.hist := he
    rw [hh] at he'
    obtain ⟨e0, h0, rfl⟩ := List.mem_map.mp he'
    have ht := hi.times e0 h0
    show _ ∧ _ < s'.clock + 1 ∧ _
    rw [hclk, (hc e0 h0).2.2.2.2.1, (hc e0 h0).2.2.2.2.2]
    refine ⟨ht.1, by omega, ?_⟩
    unfold complete
    by_cases hp : e0.tid = t ∧ e0.done = false
    · simp only [hp, and_self, if_true]; intro _; exact ht.2.1
    · simp only [hp, if_false]; exact ht.2.2
  · intro e he hd
    have he' : e ∈ s'.hist := he
    rw [hh] at he'
    obtain ⟨e0, h0, rfl⟩ := List.mem_map.mp he'
    show PendPC s'.chunks (s'.thr (complete t s.clock out e0).tid).pc (complete t s.clock out e0).ev.out
    rw [(hc e0 h0).2.1, (hc e0 h0).2.2.2.1]
    have hnt : e0.tid ≠ t ∧ e0.done = false := by
      unfold complete at hd
      by_cases hp : e0.tid = t ∧ e0.done = false
      · simp [hp] at hd
      · simp only [hp, if_false] at hd
        exact ⟨fun e => hp ⟨e, hd⟩, hd⟩
    rw [hthr _ hnt.1]
    exact pendPC_grows g (hi.pend e0 h0 hnt.2)
  · intro u hne
    have hne : (s'.thr u).pc ≠ .idle := hne
    show (s'.thr u).inv < s'.clock + 1
    rw [hclk]
    by_cases hu : u = t
    · subst hu; exact absurd hidle hne
    · rw [hthr u hu] at hne ⊢; have := hi.inv u hne; omega

end ConcFine
