/-
  Lazy Merkle tree (C08), part 4: how the CONTENT of the implementation tree evolves.
  The content (items of all leaves) behaves as a dictionary keyed by key hash: `set` = upsert (up to order),
  `remove` (position test passed) = delete, `remove` (position test failed) / `movePos` / readers = unchanged.
  With the main theorems this gives the end-to-end statement: what any reader returns after any history is the
  specification evaluated on the dictionary that history builds (`C08_history_to_summary`).
  Core-only.
-/
import GoBeans.Lemmas.HTreeImplMain
set_option linter.unusedSimpArgs false
set_option linter.unusedVariables false
namespace HTreeImplLemmas
open Tree TreeLemmas HTreeImpl

/-! ### one leaf -/

theorem leaf_set_items_perm (lf : Leaf) (e : Ent) (inv : LeafInv lf) :
    (lf.set e).items.Perm (e :: lf.items.filter (fun x => x.khash != e.khash)) := by
  unfold Leaf.set
  cases hf : lf.find e.khash with
  | none =>
    have hne := (find_none_iff lf e.khash).1 hf
    simp only []
    have : lf.items.filter (fun x => x.khash != e.khash) = lf.items :=
      List.filter_eq_self.mpr (fun x hx => by simpa using hne x hx)
    rw [this]
    exact List.perm_append_comm
  | some o =>
    obtain ⟨hok, pre, post, hl, hpre, hpost⟩ := find_split lf e.khash o hf inv.nodup
    simp only []
    have hitems : lf.items.map (fun x => if x.khash == e.khash then e else x) = pre ++ e :: post := by
      rw [hl]; exact map_replace pre post o e e.khash hok rfl hpre hpost
    rw [hitems, hl, List.filter_append, List.filter_cons]
    have h1 : pre.filter (fun x => x.khash != e.khash) = pre := List.filter_eq_self.mpr (fun x hx => by simpa using hpre x hx)
    have h2 : post.filter (fun x => x.khash != e.khash) = post := List.filter_eq_self.mpr (fun x hx => by simpa using hpost x hx)
    rw [h1, h2]
    simp only [hok, bne_self_eq_false, Bool.false_eq_true, if_false]
    exact List.perm_middle

theorem leaf_remove_items (lf : Leaf) (kh : Nat) : (lf.remove kh).items = lf.items.filter (fun x => x.khash != kh) := by
  unfold Leaf.remove
  cases hf : lf.find kh with
  | none =>
    have hne := (find_none_iff lf kh).1 hf
    simp only []
    exact (List.filter_eq_self.mpr (fun x hx => by simpa using hne x hx)).symm
  | some o => rfl

theorem leaf_reset_items (lf : Leaf) (it : Ent) (inv : LeafInv lf) (hf : lf.find it.khash = some it) :
    (lf.set it).items = lf.items := by
  obtain ⟨hok, pre, post, hl, hpre, hpost⟩ := find_split lf it.khash it hf inv.nodup
  unfold Leaf.set
  rw [hf]
  simp only []
  rw [hl]; exact map_replace pre post it it it.khash rfl rfl hpre hpost

/-! ### the content around one leaf -/

theorem leaf_getElem (t : HTree) (j : Nat) (h : j < t.leaves.length) : t.leaf j = t.leaves[j] := by
  unfold HTree.leaf
  rw [List.getD_eq_getElem?_getD, List.getElem?_eq_getElem h]; rfl

theorem content_split (t : HTree) (off : Nat) (h : off < t.leaves.length) :
    content t = (t.leaves.take off).flatMap (·.items) ++ ((t.leaf off).items ++ (t.leaves.drop (off + 1)).flatMap (·.items)) := by
  unfold content
  conv => lhs; rw [← List.take_append_drop off t.leaves, List.drop_eq_getElem_cons h]
  rw [List.flatMap_append, List.flatMap_cons, leaf_getElem t off h]

theorem content_setLeaf (t : HTree) (off : Nat) (lf : Leaf) (h : off < t.leaves.length) :
    content (t.setLeaf off lf) = (t.leaves.take off).flatMap (·.items) ++ (lf.items ++ (t.leaves.drop (off + 1)).flatMap (·.items)) := by
  unfold content HTree.setLeaf
  simp only [List.set_eq_take_append_cons_drop, h, if_true, List.flatMap_append, List.flatMap_cons]

/-- a key hash routed to leaf `off` occurs in no other leaf -/
theorem other_leaves (t : HTree) (inv : LeavesInv t) (kh : Nat) (hk : LeafKeyOk t kh) :
    (∀ x ∈ (t.leaves.take (leafOffset t kh)).flatMap (·.items), x.khash ≠ kh) ∧
    (∀ x ∈ (t.leaves.drop (leafOffset t kh + 1)).flatMap (·.items), x.khash ≠ kh) := by
  have key : ∀ j (hj : j < t.leaves.length), j ≠ leafOffset t kh → ∀ x ∈ (t.leaves[j]'hj).items, x.khash ≠ kh := by
    intro j hj hne x hx hkx
    rw [← leaf_getElem t j hj] at hx
    have h1 := inv.routed j x hx
    unfold LeafKeyOk at hk
    rw [hkx, hk] at h1
    omega
  constructor
  · intro x hx
    rw [List.mem_flatMap] at hx
    obtain ⟨lf, hlf, hx⟩ := hx
    obtain ⟨i, hi, rfl⟩ := List.getElem_of_mem hlf
    rw [List.getElem_take] at hx
    have hi' := hi
    rw [List.length_take] at hi'
    exact key i (by omega) (by omega) x hx
  · intro x hx
    rw [List.mem_flatMap] at hx
    obtain ⟨lf, hlf, hx⟩ := hx
    obtain ⟨i, hi, rfl⟩ := List.getElem_of_mem hlf
    rw [List.getElem_drop] at hx
    have hi' := hi
    rw [List.length_drop] at hi'
    exact key _ (by omega) (by omega) x hx

theorem leafOffset_lt (t : HTree) (kh : Nat) (hs : Shape t) : leafOffset t kh < t.leaves.length := by
  rw [hs.leaves]
  unfold leafOffset
  have : t.height - 1 = t.inner.length := by unfold HTree.height; omega
  rw [this]; exact offsetAt_lt _ _ _

/-! ### writers on the content -/

/-- `set` is an upsert of the dictionary keyed by key hash (up to the order of items) -/
theorem content_set (t t' : HTree) (e : Ent) (inv : Inv t) (hk : KeyOk t e.khash) (hs : HTreeImpl.set t e = some t') :
    (content t').Perm (e :: (content t).filter (fun x => x.khash != e.khash)) := by
  obtain ⟨t1, hg, g⟩ := getLeafAndInvalidNodes_spec t e.khash inv.h2
  have ht : t' = t1.setLeaf (leafOffset t e.khash) ((t1.leaf (leafOffset t e.khash)).set e) := by
    simp [HTreeImpl.set, hg] at hs; exact hs.symm
  have hlt := leafOffset_lt t e.khash inv.shape
  have hl : t1.leaf (leafOffset t e.khash) = t.leaf (leafOffset t e.khash) := by unfold HTree.leaf; rw [g.leaves]
  obtain ⟨o1, o2⟩ := other_leaves t inv.leaves e.khash (keyOk_leaf t e.khash inv.shape hk)
  have f1 := List.filter_eq_self.mpr (fun x hx => by simpa using o1 x hx :
    ∀ x ∈ (t.leaves.take (leafOffset t e.khash)).flatMap (·.items), (x.khash != e.khash) = true)
  have f3 := List.filter_eq_self.mpr (fun x hx => by simpa using o2 x hx :
    ∀ x ∈ (t.leaves.drop (leafOffset t e.khash + 1)).flatMap (·.items), (x.khash != e.khash) = true)
  rw [ht, content_setLeaf _ _ _ (by rw [g.leaves]; exact hlt), g.leaves, hl, content_split t _ hlt,
    List.filter_append, List.filter_append, f1, f3]
  have hp := leaf_set_items_perm (t.leaf (leafOffset t e.khash)) e (inv.leaves.leaf _)
  refine ((List.Perm.append_left _ (List.Perm.append_right _ hp))).trans ?_
  simp only [List.cons_append]
  exact List.perm_middle

/-- `remove` whose position test passes deletes the key hash; otherwise the content is unchanged -/
theorem content_remove (t t' : HTree) (kh : Nat) (p : Bool) (inv : Inv t) (hk : KeyOk t kh) (hs : remove t kh p = some t') :
    content t' = if p then (content t).filter (fun x => x.khash != kh) else content t := by
  obtain ⟨t1, hg, g⟩ := getLeafAndInvalidNodes_spec t kh inv.h2
  cases p with
  | false =>
    have ht : t' = t1 := by simp [remove, hg] at hs; exact hs.symm
    rw [ht]; exact content_congr _ _ g.leaves
  | true =>
    have ht : t' = t1.setLeaf (leafOffset t kh) ((t1.leaf (leafOffset t kh)).remove kh) := by
      simp [remove, hg] at hs; exact hs.symm
    have hlt := leafOffset_lt t kh inv.shape
    have hl : t1.leaf (leafOffset t kh) = t.leaf (leafOffset t kh) := by unfold HTree.leaf; rw [g.leaves]
    obtain ⟨o1, o2⟩ := other_leaves t inv.leaves kh (keyOk_leaf t kh inv.shape hk)
    have f1 := List.filter_eq_self.mpr (fun x hx => by simpa using o1 x hx :
      ∀ x ∈ (t.leaves.take (leafOffset t kh)).flatMap (·.items), (x.khash != kh) = true)
    have f3 := List.filter_eq_self.mpr (fun x hx => by simpa using o2 x hx :
      ∀ x ∈ (t.leaves.drop (leafOffset t kh + 1)).flatMap (·.items), (x.khash != kh) = true)
    rw [ht, content_setLeaf _ _ _ (by rw [g.leaves]; exact hlt), g.leaves, hl, if_pos rfl, content_split t _ hlt,
      List.filter_append, List.filter_append, f1, f3, leaf_remove_items]

/-- `movePos` (GC repointing) never changes the content (key hash, version, value hash) -/
theorem content_movePos (t t' : HTree) (kh : Nat) (p : Bool) (inv : Inv t) (hs : movePos t kh p = some t') :
    content t' = content t := by
  unfold movePos at hs
  cases hf : get t kh with
  | none => rw [hf] at hs; simp at hs; rw [← hs]
  | some it =>
    rw [hf] at hs
    cases p with
    | false => simp at hs; rw [← hs]
    | true =>
      simp only [if_true] at hs
      obtain ⟨hkh, hm⟩ := find_khash _ _ _ hf
      obtain ⟨t1, hg, g⟩ := getLeafAndInvalidNodes_spec t it.khash inv.h2
      have ht : t' = t1.setLeaf (leafOffset t it.khash) ((t1.leaf (leafOffset t it.khash)).set it) := by
        simp [HTreeImpl.set, hg] at hs; exact hs.symm
      have hlt := leafOffset_lt t it.khash inv.shape
      have hl : t1.leaf (leafOffset t it.khash) = t.leaf (leafOffset t it.khash) := by unfold HTree.leaf; rw [g.leaves]
      have hf' : (t.leaf (leafOffset t it.khash)).find it.khash = some it := by
        unfold HTreeImpl.get at hf; rw [hkh]; exact hf
      rw [ht, content_setLeaf _ _ _ (by rw [g.leaves]; exact hlt), g.leaves, hl,
        leaf_reset_items _ it (inv.leaves.leaf _) hf', ← content_split t _ hlt]

/-! ### history → dictionary → summaries -/

/-- the dictionary a call leaves behind -/
def absStep (c : Content) : Op → Content
  | .set e => e :: c.filter (fun x => x.khash != e.khash)
  | .remove kh true => c.filter (fun x => x.khash != kh)
  | _ => c

/-- the dictionary a history builds from the empty tree -/
def absRun (c : Content) (ops : List Op) : Content := ops.foldl absStep c

/-- admissible histories: keys belong to the bucket (also those removed), listing paths are well formed -/
def OpOk' (t : HTree) : Op → Prop
  | .remove kh _ => KeyOk t kh
  | op => OpOk t op

theorem opOk'_ok (t : HTree) (op : Op) (h : OpOk' t op) : OpOk t op := by
  cases op <;> first | exact h | trivial

theorem opOk'_params {t s : HTree} (h : SameParams t s) (op : Op) (ok : OpOk' t op) : OpOk' s op := by
  cases op with
  | remove kh p => unfold OpOk' KeyOk at *; rw [h.1, h.2.1]; exact ok
  | set e => exact (opOk_params h (.set e) ok : OpOk s (.set e))
  | list thr ds => exact (opOk_params h (.list thr ds) ok : OpOk s (.list thr ds))
  | movePos _ _ => trivial
  | update => trivial

theorem absStep_perm (a b : Content) (h : a.Perm b) (op : Op) : (absStep a op).Perm (absStep b op) := by
  cases op with
  | set e => exact List.Perm.cons _ (h.filter _)
  | remove kh p => cases p with
    | true => exact h.filter _
    | false => exact h
  | movePos _ _ => exact h
  | update => exact h
  | list _ _ => exact h

theorem absRun_perm (ops : List Op) : ∀ (a b : Content), a.Perm b → (absRun a ops).Perm (absRun b ops) := by
  induction ops with
  | nil => intro a b h; exact h
  | cons o os ih => intro a b h; exact ih _ _ (absStep_perm a b h o)

theorem content_step (t t' : HTree) (op : Op) (out : Out) (inv : Inv t) (ok : OpOk' t op) (hs : step t op = some (t', out)) :
    (content t').Perm (absStep (content t) op) := by
  cases op with
  | set e =>
    have : HTreeImpl.set t e = some t' := by
      simp [step] at hs; obtain ⟨a, h1, h2⟩ := hs; rw [h1, h2.1]
    exact content_set t t' e inv ok this
  | remove kh p =>
    have : remove t kh p = some t' := by
      simp [step] at hs; obtain ⟨a, h1, h2⟩ := hs; rw [h1, h2.1]
    rw [content_remove t t' kh p inv ok this]
    cases p <;> exact List.Perm.refl _
  | movePos kh p =>
    have : movePos t kh p = some t' := by
      simp [step] at hs; obtain ⟨a, h1, h2⟩ := hs; rw [h1, h2.1]
    rw [content_movePos t t' kh p inv this]; exact List.Perm.refl _
  | update =>
    obtain ⟨t'', out', h1, _, _, _, h5⟩ := step_exact t .update inv trivial
    rw [hs] at h1
    have e : t' = t'' := congrArg Prod.fst (Option.some.inj h1)
    rw [e, h5 rfl]; exact List.Perm.refl _
  | list thr ds =>
    obtain ⟨t'', out', h1, _, _, _, h5⟩ := step_exact t (.list thr ds) inv ok
    rw [hs] at h1
    have e : t' = t'' := congrArg Prod.fst (Option.some.inj h1)
    rw [e, h5 rfl]; exact List.Perm.refl _

theorem content_run (t t' : HTree) (ops : List Op) (outs : List Out) (inv : Inv t) (ok : ∀ op ∈ ops, OpOk' t op)
    (hr : run t ops = some (t', outs)) : (content t').Perm (absRun (content t) ops) := by
  induction ops generalizing t outs with
  | nil => simp [run] at hr; rw [← hr.1]; exact List.Perm.refl _
  | cons op ops ih =>
    obtain ⟨t1, out, h1, h2, h3, _, _⟩ := step_exact t op inv (opOk'_ok t op (ok op (by simp)))
    obtain ⟨t2, outs2, g1, _⟩ := run_total t1 ops h2 (fun o ho => opOk_params h3 o (opOk'_ok t o (ok o (by simp [ho]))))
    have e : t' = t2 := by simp [run, h1, g1] at hr; exact hr.1.symm
    subst e
    have p1 := content_step t t1 op out inv (ok op (by simp)) h1
    have p2 := ih t1 outs2 h2 (fun o ho => opOk'_params h3 o (ok o (by simp [ho]))) g1
    exact p2.trans (absRun_perm ops _ _ p1)

/-- **end to end**: after ANY admissible history from `newHTree`, `updateNodes(level, offset)` - on whatever
    pattern of stale flags that history left - returns `Tree.nodeSum` of the DICTIONARY the history builds
    (`absRun []`: set = upsert, remove = delete), at every level and offset -/
theorem C08_history_to_summary (depth bid height : Nat) (t0 t : HTree) (ops : List Op) (outs : List Out)
    (h0 : newHTree depth bid height = some t0) (hh : 2 ≤ height) (ok : ∀ op ∈ ops, OpOk' t0 op)
    (hr : run t0 ops = some (t, outs)) (level offset : Nat) (hl : level < height) (ho : offset < 16 ^ level) :
    ((updateAt t level offset).2.count, (updateAt t level offset).2.hash)
      = nodeSum (absRun [] ops) (depth + level) (bid * 16 ^ level + offset) (height - 1 - level) := by
  obtain ⟨inv0, _, _, _, hc⟩ := newHTree_inv depth bid height t0 h0 hh
  obtain ⟨t2, outs2, g1, _, _, g4, _⟩ := run_total t0 ops inv0 (fun o h => opOk'_ok t0 o (ok o h))
  have e : t = t2 := by rw [hr] at g1; exact congrArg Prod.fst (Option.some.inj g1)
  subst e
  have hp := content_run t0 t ops outs inv0 ok hr
  rw [hc] at hp
  rw [(C08_every_node depth bid height t0 t h0 hh g4 level offset hl ho).1]
  exact nodeSum_perm hp _ _ _

end HTreeImplLemmas
