/-
  Invariants of the fine-grained interleaving model (Model/ConcFine.lean), layer 2:
    ChunkInv  layout of every chunk and its data file while a flush may be in progress (`ChunkOK` with the number
              of records the flusher has written so far), chunks above the head are untouched, and the locals of
              the flusher (writer offset = file length, snapshot n ≤ buffer length, fetched record = wbuf[i]) and
              of the appending writer (position = head chunk, its writing head) agree with the shared state.
  Preserved by every scheduler decision.  Consequence: the flusher never hits `Fatalf` / an index panic.  Core-only.
-/
import GoBeans.Lemmas.ConcFineLock

namespace ConcFine

/-- how many records of chunk `c`'s buffer the thread with this program counter has already written to the file -/
def prog (c : Nat) : PC → Nat
  | .fFetch c' _ _ i _ => if c' = c then i else 0
  | .fWrite c' _ _ i _ _ => if c' = c then i else 0
  | .fDetach c' n _ => if c' = c then n else 0
  | _ => 0

def progress (s : State) (c : Nat) : Nat :=
  match s.flushLock with
  | some t => prog c (s.thr t).pc
  | none => 0

def FlushOK (ch : Nat → Chunk) : PC → Prop
  | .fCheck c woff => woff = (ch c).fsize
  | .fCount c woff => woff = (ch c).fsize
  | .fFetch c woff n i _ => woff = (ch c).fsize ∧ i ≤ n ∧ n ≤ (ch c).wbuf.length
  | .fWrite c woff n i _ r => woff = (ch c).fsize ∧ i < n ∧ n ≤ (ch c).wbuf.length ∧ (ch c).wbuf[i]? = some r
  | .fDetach c n _ => n ≤ (ch c).wbuf.length
  | _ => True

def SlotOK (ch : Nat → Chunk) (head : Nat) : PC → Prop
  | .wAppend _ _ pos => pos.chunk = head ∧ pos.off = (ch head).writingHead
  | _ => True

structure ChunkInv (s : State) : Prop where
  ok : ∀ c, ChunkOK (s.chunks c) (progress s c)
  above : ∀ c, s.newHead < c → (s.chunks c).writingHead = 0
  fl : ∀ u, FlushOK s.chunks (s.thr u).pc
  slot : ∀ u, SlotOK s.chunks s.newHead (s.thr u).pc

theorem flushOK_of_not_holdsF {ch : Nat → Chunk} {pc : PC} (h : holdsF pc = false) : FlushOK ch pc := by
  cases pc <;> simp_all [holdsF, FlushOK]

theorem slotOK_of_not_holdsD {ch : Nat → Chunk} {hd : Nat} {pc : PC} (h : holdsD pc = false) : SlotOK ch hd pc := by
  cases pc <;> simp_all [holdsD, SlotOK]

theorem slotOK_congr {ch ch' : Nat → Chunk} {hd : Nat} {pc : PC} (h : ∀ d, (ch' d).writingHead = (ch d).writingHead)
    (hs : SlotOK ch hd pc) : SlotOK ch' hd pc := by
  cases pc <;> simp_all [SlotOK]

/-- an append to one buffer does not disturb a running flush -/
theorem flushOK_append {ch : Nat → Chunk} {pc : PC} (c0 : Nat) (r : Rec) (wh sz : Nat) (h : FlushOK ch pc) :
    FlushOK (fun d => if d = c0 then { ch c0 with wbuf := (ch c0).wbuf ++ [r], writingHead := wh, size := sz } else ch d) pc := by
  cases pc with
  | fCheck c woff => simp only [FlushOK] at h ⊢; by_cases hc : c = c0 <;> simp [hc, h] <;> (subst hc; exact h)
  | fCount c woff => simp only [FlushOK] at h ⊢; by_cases hc : c = c0 <;> simp [hc, h] <;> (subst hc; exact h)
  | fFetch c woff n i fl =>
    simp only [FlushOK] at h ⊢
    by_cases hc : c = c0
    · subst hc; simp only [if_true, List.length_append, List.length_singleton]; omega
    · simp only [hc, if_false]; exact h
  | fWrite c woff n i fl r' =>
    simp only [FlushOK] at h ⊢
    by_cases hc : c = c0
    · subst hc
      simp only [if_true, List.length_append, List.length_singleton]
      refine ⟨h.1, h.2.1, by omega, ?_⟩
      rw [List.getElem?_append_left (by omega)]; exact h.2.2.2
    · simp only [hc, if_false]; exact h
  | fDetach c n fl =>
    simp only [FlushOK] at h ⊢
    by_cases hc : c = c0
    · subst hc; simp only [if_true, List.length_append, List.length_singleton]; omega
    · simp only [hc, if_false]; exact h
  | _ => trivial

theorem progress_same {s s' : State} {t : Nat} (hthr : ∀ u, u ≠ t → s'.thr u = s.thr u)
    (hf : s'.flushLock = s.flushLock) (hp : ∀ c, prog c (s'.thr t).pc = prog c (s.thr t).pc) :
    ∀ c, progress s' c = progress s c := by
  intro c
  unfold progress
  rw [hf]
  cases s.flushLock with
  | none => rfl
  | some u =>
    by_cases hu : u = t
    · subst hu; exact hp c
    · simp only [hthr u hu]

theorem progress_holder {s : State} {t : Nat} (h : s.flushLock = some t) (c : Nat) :
    progress s c = prog c (s.thr t).pc := by
  unfold progress; rw [h]

/-- a micro-step that leaves chunks and head alone -/
theorem layout_frame {s s' : State} (t : Nat) (hc : ChunkInv s)
    (hthr : ∀ u, u ≠ t → s'.thr u = s.thr u) (hch : s'.chunks = s.chunks) (hh : s'.newHead = s.newHead)
    (hprog : ∀ c, progress s' c = progress s c)
    (hfl : FlushOK s'.chunks (s'.thr t).pc) (hsl : SlotOK s'.chunks s'.newHead (s'.thr t).pc) : ChunkInv s' := by
  refine ⟨?_, ?_, ?_, ?_⟩
  · intro c; rw [hch, hprog]; exact hc.ok c
  · intro c hlt; rw [hch]; rw [hh] at hlt; exact hc.above c hlt
  · intro u
    by_cases hu : u = t
    · subst hu; exact hfl
    · rw [hthr u hu, hch]; exact hc.fl u
  · intro u
    by_cases hu : u = t
    · subst hu; exact hsl
    · rw [hthr u hu, hch, hh]; exact hc.slot u

local macro "others" : tactic =>
  `(tactic| (intro u hu; simp [State.goto, State.log, State.respond, State.readDone, State.setChunk, hu]))

local macro "frame_case" t:ident hc:ident hpc:ident : tactic => `(tactic| (
  refine layout_frame $t $hc (by others) rfl rfl
    (progress_same (t := $t) (by others) rfl
      (by intro c; simp [State.goto, State.log, State.respond, State.readDone, prog, $hpc:ident])) ?_
    (by simp [State.goto, State.log, State.respond, State.readDone, SlotOK])
  first
    | (simp [State.goto, State.log, State.respond, State.readDone, FlushOK]; done)
    | simp only [State.goto, State.log, State.respond, State.readDone, if_true, FlushOK]))

theorem not_holdsD_of_ne {s : State} (hl : LockInv s) {t u : Nat} (ht : holdsD (s.thr t).pc = true) (hu : u ≠ t) :
    holdsD (s.thr u).pc = false := by
  cases hd : holdsD (s.thr u).pc with
  | false => rfl
  | true => exact absurd (hl.uniqD ht hd) hu

theorem not_holdsF_of_ne {s : State} (hl : LockInv s) {t u : Nat} (ht : holdsF (s.thr t).pc = true) (hu : u ≠ t) :
    holdsF (s.thr u).pc = false := by
  cases hd : holdsF (s.thr u).pc with
  | false => rfl
  | true => exact absurd (hl.uniqF ht hd) hu

theorem micro_layout (cfg : Cfg) (s s' : State) (t : Nat) (hl : LockInv s) (hc : ChunkInv s)
    (h : micro cfg s t = some s') : ChunkInv s' := by
  have hfo := hc.fl t
  have hso := hc.slot t
  cases hpc : (s.thr t).pc with
  | idle => simp [micro, hpc] at h
  | wLock q =>
    simp only [micro, hpc] at h
    split at h
    · obtain rfl := Option.some.inj h; frame_case t hc hpc
    · contradiction
  | wGet q =>
    simp only [micro, hpc] at h
    split at h <;> (obtain rfl := Option.some.inj h; frame_case t hc hpc)
  | wSlot q ver =>
    simp only [micro, hpc] at h
    split at h
    · rename_i hds
      split at h
      · have hs := (Option.some.inj h).symm
        have hthr : ∀ u, u ≠ t → s'.thr u = s.thr u := by subst hs; others
        have hpc' : (s'.thr t).pc = .wAppend q ver ⟨s.newHead + 1, 0⟩ := by subst hs; simp [State.goto]
        have hch : s'.chunks = s.chunks := by subst hs; rfl
        have hh : s'.newHead = s.newHead + 1 := by subst hs; rfl
        have hfl : s'.flushLock = s.flushLock := by subst hs; rfl
        clear hs h
        refine ⟨?_, ?_, ?_, ?_⟩
        · intro c
          rw [progress_same hthr hfl (by intro c; rw [hpc', hpc]; rfl), hch]
          exact hc.ok c
        · intro c hlt; rw [hch]; exact hc.above c (by omega)
        · intro u
          by_cases hu : u = t
          · subst hu; rw [hpc']; trivial
          · rw [hthr u hu, hch]; exact hc.fl u
        · intro u
          by_cases hu : u = t
          · subst hu; rw [hpc', hch, hh]; exact ⟨rfl, (hc.above _ (Nat.lt_succ_self _)).symm⟩
          · rw [hthr u hu]
            apply slotOK_of_not_holdsD
            cases hd : holdsD (s.thr u).pc with
            | false => rfl
            | true => have := (hl.d u).2 hd; rw [hds] at this; contradiction
      · obtain rfl := Option.some.inj h; frame_case t hc hpc
    · contradiction
  | wAppend q ver pos =>
    simp only [micro, hpc] at h
    rw [hpc] at hso
    simp only [SlotOK] at hso
    have hs := (Option.some.inj h).symm
    have hthr : ∀ u, u ≠ t → s'.thr u = s.thr u := by subst hs; others
    have hpc' : (s'.thr t).pc = .wDsUnlock q ver pos := by subst hs; simp [State.goto]
    have hch : s'.chunks = fun d => if d = s.newHead then
        { s.chunks s.newHead with wbuf := (s.chunks s.newHead).wbuf ++ [q.toRec ver pos.off],
                                  writingHead := (s.chunks s.newHead).writingHead + (q.toRec ver pos.off).size,
                                  size := (s.chunks s.newHead).writingHead + (q.toRec ver pos.off).size }
        else s.chunks d := by subst hs; rfl
    have hh : s'.newHead = s.newHead := by subst hs; rfl
    have hfl : s'.flushLock = s.flushLock := by subst hs; rfl
    clear hs h
    have htD : holdsD (s.thr t).pc = true := by rw [hpc]; rfl
    refine ⟨?_, ?_, ?_, ?_⟩
    · intro c
      rw [progress_same hthr hfl (by intro c; rw [hpc', hpc]; rfl), hch]
      by_cases hcn : c = s.newHead
      · subst hcn
        simp only [if_true]
        exact (hc.ok s.newHead).append (q.toRec ver pos.off) hso.2 (by simp [WReq.toRec])
      · simp only [hcn, if_false]; exact hc.ok c
    · intro c hlt
      rw [hh] at hlt
      have : c ≠ s.newHead := by omega
      rw [hch]; simp only [this, if_false]; exact hc.above c hlt
    · intro u
      by_cases hu : u = t
      · subst hu; rw [hpc']; trivial
      · rw [hthr u hu, hch]
        exact flushOK_append s.newHead _ _ _ (hc.fl u)
    · intro u
      by_cases hu : u = t
      · subst hu; rw [hpc']; trivial
      · rw [hthr u hu]
        exact slotOK_of_not_holdsD (not_holdsD_of_ne hl htD hu)
  | wDsUnlock q ver pos =>
    simp only [micro, hpc] at h
    obtain rfl := Option.some.inj h; frame_case t hc hpc
  | wTreeSet q ver pos =>
    simp only [micro, hpc] at h
    obtain rfl := Option.some.inj h; frame_case t hc hpc
  | wUnlock k out =>
    simp only [micro, hpc] at h
    obtain rfl := Option.some.inj h; frame_case t hc hpc
  | rGet k =>
    simp only [micro, hpc] at h
    split at h <;> (obtain rfl := Option.some.inj h; frame_case t hc hpc)
  | rBuf k it =>
    simp only [micro, hpc] at h
    split at h <;> (obtain rfl := Option.some.inj h; frame_case t hc hpc)
  | rFile k it =>
    simp only [micro, hpc] at h
    obtain rfl := Option.some.inj h; frame_case t hc hpc
  | rRet k =>
    simp only [micro, hpc] at h
    obtain rfl := Option.some.inj h; frame_case t hc hpc
  | fPre c force late =>
    simp only [micro, hpc] at h
    split at h <;> (obtain rfl := Option.some.inj h; frame_case t hc hpc)
  | fLock c force late =>
    simp only [micro, hpc] at h
    split at h
    · rename_i hfl
      obtain rfl := Option.some.inj h
      refine layout_frame t hc (by others) rfl rfl ?_ (by simp [State.goto, FlushOK]) (by simp [State.goto, SlotOK])
      intro c
      simp [progress, State.goto, prog, hfl]
    · contradiction
  | fDs1 c force late =>
    simp only [micro, hpc] at h
    split at h
    · split at h
      · obtain rfl := Option.some.inj h; frame_case t hc hpc
      · split at h <;> (obtain rfl := Option.some.inj h; frame_case t hc hpc)
    · contradiction
  | fOpen c =>
    simp only [micro, hpc] at h
    obtain rfl := Option.some.inj h; frame_case t hc hpc
  | fCheck c woff =>
    simp only [micro, hpc] at h
    rw [hpc] at hfo; simp only [FlushOK] at hfo
    split at h
    · obtain rfl := Option.some.inj h
      exact ⟨hc.ok, hc.above, hc.fl, hc.slot⟩
    · obtain rfl := Option.some.inj h; frame_case t hc hpc; exact hfo
  | fCount c woff =>
    simp only [micro, hpc] at h
    rw [hpc] at hfo; simp only [FlushOK] at hfo
    obtain rfl := Option.some.inj h; frame_case t hc hpc
    exact ⟨hfo, Nat.zero_le _, Nat.le_refl _⟩
  | fFetch c woff n i fl =>
    simp only [micro, hpc] at h
    rw [hpc] at hfo; simp only [FlushOK] at hfo
    split at h
    · rename_i hlt
      split at h
      · rename_i r hr
        obtain rfl := Option.some.inj h; frame_case t hc hpc
        exact ⟨hfo.1, hlt, hfo.2.2, hr⟩
      · obtain rfl := Option.some.inj h
        exact ⟨hc.ok, hc.above, hc.fl, hc.slot⟩
    · rename_i hlt
      obtain rfl := Option.some.inj h
      have hin : i = n := by omega
      subst hin
      frame_case t hc hpc
      exact hfo.2.2
  | fWrite c woff n i fl r =>
    simp only [micro, hpc] at h
    rw [hpc] at hfo; simp only [FlushOK] at hfo
    obtain ⟨hwo, hin, hnl, hget⟩ := hfo
    have hlk : s.flushLock = some t := (hl.f t).2 (by rw [hpc]; rfl)
    have htF : holdsF (s.thr t).pc = true := by rw [hpc]; rfl
    have hw := (hc.ok c).write r (by rw [progress_holder hlk, hpc]; simpa [prog] using hget)
    have hs := (Option.some.inj h).symm
    have hthr : ∀ u, u ≠ t → s'.thr u = s.thr u := by subst hs; others
    have hpc' : (s'.thr t).pc = .fFetch c (woff + r.size) n (i + 1) (fl + r.size) := by subst hs; simp [State.goto]
    have hch : s'.chunks = fun d => if d = c then
        { s.chunks c with file := (s.chunks c).file ++ [{ r with off := (s.chunks c).fsize }],
                          fsize := (s.chunks c).fsize + r.size } else s.chunks d := by subst hs; rw [hwo]; rfl
    have hh : s'.newHead = s.newHead := by subst hs; rfl
    have hfl : s'.flushLock = some t := by subst hs; exact hlk
    clear hs h
    refine ⟨?_, ?_, ?_, ?_⟩
    · intro c0
      rw [progress_holder hfl, hpc', hch]
      by_cases hcc : c0 = c
      · subst hcc
        simp only [prog, if_true]
        have := hw.2
        rw [progress_holder hlk, hpc] at this
        simpa [prog] using this
      · have hcc' : ¬ c = c0 := fun e => hcc e.symm
        simp only [prog, hcc, hcc', if_false]
        have := hc.ok c0
        rw [progress_holder hlk, hpc] at this
        simpa [prog, hcc'] using this
    · intro c0 hlt
      rw [hh] at hlt
      have := hc.above c0 hlt
      rw [hch]
      by_cases hcc : c0 = c
      · subst hcc; simpa using this
      · simpa [hcc] using this
    · intro u
      by_cases hu : u = t
      · subst hu
        rw [hpc', hch]
        simp only [if_true, FlushOK]
        exact ⟨by omega, by omega, hnl⟩
      · rw [hthr u hu]
        exact flushOK_of_not_holdsF (not_holdsF_of_ne hl htF hu)
    · intro u
      have hsl : SlotOK s.chunks s.newHead (s'.thr u).pc := by
        by_cases hu : u = t
        · subst hu; rw [hpc']; trivial
        · rw [hthr u hu]; exact hc.slot u
      rw [hh]
      refine slotOK_congr ?_ hsl
      intro d
      rw [hch]
      by_cases hd : d = c
      · subst hd; simp
      · simp [hd]
  | fDetach c n fl =>
    simp only [micro, hpc] at h
    rw [hpc] at hfo; simp only [FlushOK] at hfo
    have hlk : s.flushLock = some t := (hl.f t).2 (by rw [hpc]; rfl)
    have htF : holdsF (s.thr t).pc = true := by rw [hpc]; rfl
    have hs := (Option.some.inj h).symm
    have hthr : ∀ u, u ≠ t → s'.thr u = s.thr u := by subst hs; others
    have hpc' : (s'.thr t).pc = .fDs2 fl := by subst hs; simp [State.goto]
    have hch : s'.chunks = fun d => if d = c then { s.chunks c with wbuf := (s.chunks c).wbuf.drop n } else s.chunks d := by
      subst hs; rfl
    have hh : s'.newHead = s.newHead := by subst hs; rfl
    have hfl : s'.flushLock = some t := by subst hs; exact hlk
    clear hs h
    refine ⟨?_, ?_, ?_, ?_⟩
    · intro c0
      rw [progress_holder hfl, hpc', hch]
      have := hc.ok c0
      rw [progress_holder hlk, hpc] at this
      by_cases hcc : c0 = c
      · subst hcc
        simp only [prog, if_true] at this ⊢
        exact this.detach
      · have hcc' : ¬ c = c0 := fun e => hcc e.symm
        simp only [prog, hcc, if_false]
        simpa [prog, hcc'] using this
    · intro c0 hlt
      rw [hh] at hlt
      have := hc.above c0 hlt
      rw [hch]
      by_cases hcc : c0 = c
      · subst hcc; simpa using this
      · simpa [hcc] using this
    · intro u
      by_cases hu : u = t
      · subst hu; rw [hpc']; trivial
      · rw [hthr u hu]
        exact flushOK_of_not_holdsF (not_holdsF_of_ne hl htF hu)
    · intro u
      have hsl : SlotOK s.chunks s.newHead (s'.thr u).pc := by
        by_cases hu : u = t
        · subst hu; rw [hpc']; trivial
        · rw [hthr u hu]; exact hc.slot u
      rw [hh]
      refine slotOK_congr ?_ hsl
      intro d
      rw [hch]
      by_cases hd : d = c
      · subst hd; simp
      · simp [hd]
  | fDs2 fl =>
    simp only [micro, hpc] at h
    split at h
    · obtain rfl := Option.some.inj h; frame_case t hc hpc
    · contradiction
  | fUnlock =>
    simp only [micro, hpc] at h
    obtain rfl := Option.some.inj h
    have hlk : s.flushLock = some t := (hl.f t).2 (by rw [hpc]; rfl)
    refine layout_frame t hc (by others) rfl rfl ?_ (by simp [State.goto, FlushOK]) (by simp [State.goto, SlotOK])
    intro c
    simp [progress, State.goto, prog, hlk, hpc]

theorem invoke_layout (s s' : State) (t : Nat) (op : Op) (hc : ChunkInv s) (h : invoke s t op = some s') :
    ChunkInv s' := by
  unfold invoke at h
  split at h
  · rename_i hpc
    dsimp only at h
    have key : ∀ pc : PC, (∀ c, prog c pc = 0) → FlushOK s.chunks pc → SlotOK s.chunks s.newHead pc →
        ChunkInv { s with thr := fun u => if u = t then { pc := pc, inv := s.clock } else s.thr u } := by
      intro pc h1 h2 h3
      refine layout_frame t hc (by intro u hu; simp [hu]) rfl rfl
        (progress_same (t := t) (by intro u hu; simp [hu]) rfl ?_) (by simpa using h2) (by simpa using h3)
      intro c; simp only [↓reduceIte]; rw [h1, hpc]; rfl
    cases op with
    | write k v sz =>
      dsimp only at h
      split at h
      · contradiction
      · obtain rfl := Option.some.inj h; exact key _ (by intro c; rfl) trivial trivial
    | delete k sz => obtain rfl := Option.some.inj h; exact key _ (by intro c; rfl) trivial trivial
    | read k => obtain rfl := Option.some.inj h; exact key _ (by intro c; rfl) trivial trivial
    | flush c force late => obtain rfl := Option.some.inj h; exact key _ (by intro c; rfl) trivial trivial
  · contradiction

theorem tick_layout (s : State) (h : ChunkInv s) : ChunkInv s.tick := ⟨h.ok, h.above, h.fl, h.slot⟩

theorem step_layout (cfg : Cfg) (s s' : State) (t : Nat) (a : Act) (hl : LockInv s) (hc : ChunkInv s)
    (h : step cfg s t a = some s') : ChunkInv s' := by
  obtain ⟨_, s1, rfl, h1 | ⟨op, h1⟩⟩ := step_cases h
  · exact tick_layout _ (micro_layout cfg s s1 t hl hc h1)
  · exact tick_layout _ (invoke_layout s s1 t op hc h1)

end ConcFine
