/-
  C13 (b) with restarts: the read path under `RInv`.
-/
import GoBeans.Lemmas.CollideR
import GoBeans.Lemmas.CollideSafeRead
set_option linter.unusedSimpArgs false
set_option linter.unusedVariables false
namespace CollideLemmas
open Store Spec HintIndex Collide StoreLemmas HintBufferLemmas

section
variable (hash : Key → Nat)

/-- before the first restart `RInv` contains the invariant of one process life -/
theorem rinv_sinv {cfg : Collide.Cfg} {st : State} {x : TrkR} {n : Nat} (inv : RInv hash cfg st x n) (hr : x.restarted = false) :
    SInv hash cfg st x.t n :=
  { pos := inv.pos, ra := inv.ra, ob := inv.ob, spec := inv.spec, wr := inv.wr, vers := inv.vers, tab := inv.tab,
    tabc := inv.tabc, tabne := inv.tabne,
    slot := fun h ti hti => by
      obtain ⟨o, r, h1, _, _, _, h5, h6, h7⟩ := inv.slot h ti hti
      exact ⟨o, r, h7 hr, h1, h6 (Or.inl hr), h5⟩,
    own := fun k hk => inv.own k hk (Or.inl hr),
    hgood := inv.hgood, hmerged := inv.hmerged, hex := inv.hex, hmax := inv.hmax hr }

theorem lastOf_factsR {cfg : Collide.Cfg} {st : State} {x : TrkR} {n : Nat} (inv : RInv hash cfg st x n) {k : Key} {p : Pos} {r : Rec}
    (h : lastOf k st.b.log = some (p, r)) :
    st.b.readAt p = some r ∧ r.key = k ∧ (p.off, r) ∈ (st.b.chunks p.chunk).recs ∧ p.chunk ≤ st.b.head := by
  rw [lastOf_log] at h
  obtain ⟨h1, h2⟩ := lastDown_some h
  obtain ⟨h3, h4⟩ := lastIn_mem h2
  exact ⟨inv.ra _ _ _ h3, h4, h3, by omega⟩

theorem not_reg_of_tget_noneR {cfg : Collide.Cfg} {st : State} {x : TrkR} {n : Nat} (inv : RInv hash cfg st x n) {k : Key}
    (h : tget st.ct (hash k) k = none) : k ∉ x.t.reg := by
  intro hk
  have := inv.tabc k hk
  rw [h] at this; simp at this

theorem others_mem (t : Trk) {o k : Key} (how : o ∈ t.written) (hh : hash o = hash k) (hne : o ≠ k) : o ∈ t.others hash k := by
  unfold Trk.others
  rw [List.mem_filter]
  exact ⟨how, by simp [hh, hne]⟩

/-- after a restart a written key the table does not know has no written hash-mate -/
theorem others_nil_of_unreg {cfg : Collide.Cfg} {st : State} {x : TrkR} {n : Nat} (inv : RInv hash cfg st x n) (hr : x.restarted = true)
    {k : Key} (hw : k ∈ x.t.written) (hnr : k ∉ x.t.reg) : x.t.others hash k = [] := by
  cases ho : x.t.others hash k with
  | nil => rfl
  | cons a l => exact absurd (inv.alld hr k hw (by rw [ho]; simp)) hnr

/-- the owner map never changes what a read of an unregistered key does after a restart, nor before one when the slot is the key's own -/
theorem afterGet_own {cfg : Collide.Cfg} {st : State} {x : TrkR} {n : Nat} (inv : RInv hash cfg st x n) {k : Key}
    (hw : k ∈ x.t.written) (hnr : k ∉ x.t.reg) (hown : x.restarted = true ∨ AMap.get x.t.owner (hash k) = some k) :
    x.t.afterGet hash k = x.t := by
  unfold Trk.afterGet
  rw [if_pos ⟨hw, hnr⟩]
  cases ho : AMap.get x.t.owner (hash k) with
  | none => rfl
  | some o =>
    simp only
    have hok : o = k := by
      rcases hown with hr | he
      · obtain ⟨how, hho⟩ := inv.ownw _ _ ho
        cases hd : decide (o = k) with
        | true => simpa using hd
        | false =>
          have hne : o ≠ k := by simpa using hd
          have := others_mem hash x.t how hho hne
          rw [others_nil_of_unreg hash inv hr hw hnr] at this
          cases this
      · rw [ho] at he; cases he; rfl
    rw [if_pos hok]

/-- a read through a foreign slot before the first restart: both keys enter the table -/
theorem detect_invR {cfg : Collide.Cfg} {st : State} {x : TrkR} {n : Nat} (inv : RInv hash cfg st x n) (hr : x.restarted = false)
    (k o : Key) (i1 i2 : Item)
    (h1 : i1.key = o ∧ i1.khash = hash o ∧ ∃ r, lastOf o st.b.log = some (⟨i1.chunk, i1.off⟩, r) ∧ i1.ver = r.ver)
    (h2 : i2.key = k ∧ i2.khash = hash k ∧ ∃ r, lastOf k st.b.log = some (⟨i2.chunk, i2.off⟩, r) ∧ i2.ver = r.ver) :
    RInv hash cfg { st with ct := (st.ct.compareAndSet i1 false).compareAndSet i2 false }
      { x with t := { x.t with reg := k :: o :: x.t.reg } } n := by
  have s := detect_inv hash (rinv_sinv hash inv hr) k o i1 i2 h1 h2
  exact { pos := inv.pos, ra := inv.ra, ob := inv.ob, spec := inv.spec, wr := inv.wr, vers := inv.vers,
          tab := s.tab, tabc := s.tabc, tabne := s.tabne,
          slot := fun h ti hti => by
            obtain ⟨o', r, a1, a2, a3, a4, a5, a6, a7⟩ := inv.slot h ti hti
            exact ⟨o', r, a1, a2, a3, a4, a5, fun _ => a6 (Or.inl hr), a7⟩,
          ownw := inv.ownw,
          own := fun k' hk' _ => inv.own k' hk' (Or.inl hr),
          hgood := inv.hgood, hmerged := inv.hmerged, hex := inv.hex, hmax := inv.hmax, sound := inv.sound,
          dsok := inv.dsok, dsfull := inv.dsfull, szpos := inv.szpos, le := inv.le, tidle := inv.tidle,
          alld := fun hr' => by rw [hr] at hr'; cases hr' }

/-- what a read returns: the key's last record — or, after a restart, a plain miss for a key whose last record is a
    delete marker that the rebuilt tree has dropped -/
def ReadOK (res : GetRes) (l : Option (Pos × Rec)) : Prop :=
  res = readOf l ∨ (res = .miss ∧ ∃ p r, l = some (p, r) ∧ r.ver < 0)

theorem get_specR {cfg : Collide.Cfg} {st : State} {x : TrkR} {n : Nat} (inv : RInv hash cfg st x n) (k : Key) :
    RInv hash cfg (st.get hash k).1 { x with t := x.t.afterGet hash k } n
    ∧ (st.get hash k).1.b = st.b
    ∧ ReadOK (st.get hash k).2 (lastOf k st.b.log) := by
  unfold State.get
  rw [memMeta_eq]
  cases htg : tget st.ct (hash k) k with
  | some it =>
    obtain ⟨_, hreg, hkey, _, r, hl, hv⟩ := inv.tab _ _ _ htg
    obtain ⟨hra, hrk, _, _⟩ := lastOf_factsR hash inv hl
    simp only [hra, hrk, if_true]
    rw [afterGet_reg hash x.t k hreg, hl]
    exact ⟨inv, by first | rfl | trivial, Or.inl (by simp [readOf, hv])⟩
  | none =>
    have hnr := not_reg_of_tget_noneR hash inv htg
    simp only
    cases htr : AMap.get st.b.tree (hash k) with
    | none =>
      simp only
      cases hl : lastOf k st.b.log with
      | none =>
        have hnw : k ∉ x.t.written := by
          intro hw
          have := (inv.wr k).mp hw
          rw [hl] at this; simp at this
        rw [afterGet_unwritten hash x.t k hnw]
        exact ⟨inv, by first | rfl | trivial, Or.inl rfl⟩
      | some y =>
        obtain ⟨p, r⟩ := y
        have hw : k ∈ x.t.written := (inv.wr k).mpr (by rw [hl]; rfl)
        -- the slot is gone although the key has records: only after a restart, and only for a deleted key
        have hdead : r.ver < 0 := by
          by_cases hd : r.ver < 0
          · exact hd
          · exfalso
            have hs := inv.spec k
            rw [hl] at hs
            cases he : AMap.get x.t.m k with
            | none => rw [he] at hs; exact hs.elim
            | some e =>
              rw [he] at hs
              have hne := hs.1
              have hpos : r.ver > 0 := by simp only at hne; omega
              cases hrs : x.restarted with
              | false =>
                obtain ⟨ti, hti⟩ := inv.own k hw (Or.inl hrs)
                rw [htr] at hti; cases hti
              | true =>
                obtain ⟨ti, hti⟩ := inv.own k hw (Or.inr ⟨hnr, p, r, hl, hpos⟩)
                rw [htr] at hti; cases hti
        have hag : x.t.afterGet hash k = x.t := by
          cases hrs : x.restarted with
          | false =>
            obtain ⟨ti, hti⟩ := inv.own k hw (Or.inl hrs)
            rw [htr] at hti; cases hti
          | true => exact afterGet_own hash inv hw hnr (Or.inl hrs)
        rw [hag]
        exact ⟨inv, by first | rfl | trivial, Or.inr ⟨rfl, p, r, rfl, hdead⟩⟩
    | some ti =>
      obtain ⟨o, ro, hho, hra, hrk, hmem, hvo, hlast, hownr⟩ := inv.slot _ _ htr
      simp only [hra]
      by_cases hok : o = k
      · -- the slot is the key's own (the key is not in the table: the slot is exact)
        subst hok
        simp only [hrk, if_true]
        have hlo := hlast (Or.inr hnr)
        have hw : o ∈ x.t.written := (inv.wr o).mpr (by rw [hlo]; rfl)
        have hag : x.t.afterGet hash o = x.t := by
          cases hrs : x.restarted with
          | false => exact afterGet_own hash inv hw hnr (Or.inr (hownr hrs))
          | true => exact afterGet_own hash inv hw hnr (Or.inl hrs)
        rw [hag, hlo]
        exact ⟨inv, by first | rfl | trivial, Or.inl (by simp [readOf, hvo])⟩
      · -- the slot belongs to another key of the same hash
        have hne : ¬ ro.key = k := by rw [hrk]; exact hok
        have hsame : ¬ hash ro.key ≠ hash k := by rw [hrk, hho]; simp
        simp only [hne, if_false, hsame]
        cases hl : lastOf k st.b.log with
        | none =>
          rw [getItem_none_of_unwritten hash inv st.ct.hidChunk k hl]
          simp only
          have hnw : k ∉ x.t.written := by
            intro hw
            have := (inv.wr k).mp hw
            rw [hl] at this; simp at this
          rw [afterGet_unwritten hash x.t k hnw]
          exact ⟨inv, by first | rfl | trivial, Or.inl rfl⟩
        | some y =>
          obtain ⟨p, rk⟩ := y
          have hw : k ∈ x.t.written := (inv.wr k).mpr (by rw [hl]; rfl)
          have how : o ∈ x.t.written := by
            rw [inv.wr o]
            cases hlo : lastOf o st.b.log with
            | some _ => rfl
            | none =>
              exfalso
              unfold lastOf at hlo
              rw [List.getLast?_eq_none_iff, List.filter_eq_nil_iff] at hlo
              exact hlo _ hmem (by simp [hrk])
          rcases Bool.eq_false_or_eq_true x.restarted with hrs | hrs
          · exfalso
            have := others_mem hash x.t how (by rw [hho]) hok
            rw [others_nil_of_unreg hash inv hrs hw hnr] at this
            cases this
          · have s := rinv_sinv hash inv hrs
            have hgi := getItem_spec hash s st.ct.hidChunk k
            cases hg : st.hs.getItem st.ct.hidChunk (hash k) k with
            | none => rw [hg, hl] at hgi; exact hgi.elim
            | some z =>
              obtain ⟨hit, chunkID⟩ := z
              rw [hg, hl] at hgi
              obtain ⟨g1, g2, g3, g4, g5⟩ := hgi
              simp only at g1 g2 g3 g4 g5
              obtain ⟨hrak, _, _, _⟩ := lastOf_factsR hash inv hl
              have hag : x.t.afterGet hash k = { x.t with reg := k :: o :: x.t.reg } := by
                unfold Trk.afterGet
                rw [if_pos ⟨hw, hnr⟩, hownr hrs]
                simp [hok]
              have hpos : ({ chunk := chunkID, off := hit.off } : Pos) = p := by
                cases p; simp only at g1 g2; subst g1; subst g2; rfl
              simp only [hpos, hrak]
              rw [hag]
              refine ⟨?_, by first | rfl | trivial, Or.inl (by simp [readOf])⟩
              apply detect_invR hash inv hrs k o
              · refine ⟨hrk, by rw [hho], ro, ?_, rfl⟩
                simp only
                exact hlast (Or.inl hrs)
              · refine ⟨g4, g5, rk, ?_, g3⟩
                simp only
                rw [hpos]; exact hl

end
end CollideLemmas
