/-
  C13 (a) with restarts: `Collide.reopen` against `Store.step … (.reopen _)` — same data files, same head, trees in
  agreement on every key in use; no collision state appears; the restart invariant holds again.
-/
import GoBeans.Lemmas.CollideRstOpen2
set_option linter.unusedSimpArgs false
set_option linter.unusedVariables false
namespace CollideLemmas
open Store Spec HintIndex Collide HintBufferLemmas HintLoadLemmas HintIndexLemmas StoreLemmas

section
variable (hash : Key → Nat) (K : Key → Prop)

theorem hsNC_closeAll (n : Nat) (hs : Hints) (h : HsNC hash K hs) : HsNC hash K (closeAll hs n) := by
  unfold closeAll
  induction n with
  | zero => exact h
  | succ n ih =>
    rw [List.range_succ, List.foldl_append]
    exact hsNC_trydump hash K _ ih n true

theorem ckNC_loaded (ck : HCk) (h : CkNC hash K ck) (size : Nat) : CkNC hash K (loadedCk ck size) := by
  unfold loadedCk
  split
  · exact ckNC_empty hash K
  · exact ⟨bufOK_empty hash K, h.2⟩

theorem log_nil_of (b : Bucket) (h : ∀ i, (b.chunks i).recs = []) : b.log = [] := by
  rw [log_as_fileLog b 0 (Nat.zero_le _) (fun j _ => h j)]
  rfl

theorem tree_none_of_log_nil {b : Bucket} (lr : LastRec hash K b) (hl : b.log = []) (k : Key) (hk : K k) :
    AMap.get b.tree (hash k) = none := by
  rcases lr.last k hk with ⟨it, r, _, e2, _⟩ | ⟨e1, _⟩
  · rw [hl] at e2; cases e2
  · exact e1

/-- the result of the comparison -/
structure ReopenRes (st' : State) (bs : Bucket) : Prop where
  chunks : st'.b.chunks = bs.chunks
  head : st'.b.head = bs.head
  tree : ∀ k, K k → AMap.get st'.b.tree (hash k) = AMap.get bs.tree (hash k)
  nc : NoColl hash K st'
  ri : RI hash st'

def ReopenOK (cfg : Collide.Cfg) (st : State) (kt : Bool) : Prop :=
  ReopenRes hash K (st.reopen hash cfg kt) (Store.step hash cfg.s st.b (.reopen kt)).1

theorem reopen_none_ok (cfg : Collide.Cfg) {st : State} {m : KV} {n : Nat} (nc : NoColl hash K st)
    (h : HInv hash K cfg.s n st.b m) (ri : RI hash st) (kt : Bool)
    (hnone : lastNonEmpty ((List.range (st.b.head + 1)).map (fun i => { st.b.chunks i with flushed := (st.b.chunks i).recs.length })) = none)
    (hall : ∀ j, j ≤ st.b.head → ¬ Exists' st.b j) : ReopenOK hash K cfg st kt := by
  have hrecs : ∀ i, (st.b.chunks i).recs = [] ∧ (st.b.chunks i).size = 0 := by
    intro i
    by_cases hi : i ≤ st.b.head
    · exact not_exists_empty h.wf.posInv (hall i hi)
    · exact h.wf.fresh i (by omega)
  have hlog : st.b.log = [] := log_nil_of st.b (fun i => (hrecs i).1)
  have e : st.reopen hash cfg kt =
      { b := { chunks := fun i => { st.b.chunks i with flushed := (st.b.chunks i).recs.length }, head := 0, tree := [], nextGC := st.b.nextGC },
        ct := st.ctFile.getD {}, hs := { maxDumped := (0, -1) }, treeID := (0, -1), treeFile := none, ctFile := st.ctFile } := by
    unfold State.reopen
    simp only [hnone]
  have es : (Store.step hash cfg.s st.b (.reopen kt)).1 =
      { chunks := fun i => { st.b.chunks i with flushed := (st.b.chunks i).recs.length }, head := 0,
        tree := if kt then st.b.tree else replayTree hash st.b.log, nextGC := st.b.nextGC } := by
    simp only [Store.step, hnone]
  unfold ReopenOK
  rw [e, es]
  refine ⟨rfl, rfl, ?_, ?_, ?_⟩
  · intro k hk
    show AMap.get ([] : Tree) (hash k) = AMap.get (if kt then st.b.tree else replayTree hash st.b.log) (hash k)
    cases kt with
    | true => simp only [if_true]; rw [tree_none_of_log_nil hash K h.lr hlog k hk]; rfl
    | false => simp only [Bool.false_eq_true, if_false]; rw [hlog]; rfl
  · refine ⟨?_, fun c => ckNC_empty hash K⟩
    show (st.ctFile.getD {}).items = []
    cases hc : st.ctFile with
    | none => rfl
    | some t => exact ri.ctf t hc
  · refine ⟨⟨?_, fun c sp hsp => (by cases hsp), fun c _ => rfl, fun c j hj => (by cases hj)⟩, Or.inl rfl, Or.inl rfl, ?_, ri.ctf⟩
    · intro c
      show CkI hash false (st.b.chunks c).recs (st.b.chunks c).recs [] {}
      rw [(hrecs c).1]; exact ckI_empty hash false []
    · intro c hsz
      have : (st.b.chunks c).size > 0 := hsz
      rw [(hrecs c).2] at this; omega

end
end CollideLemmas
