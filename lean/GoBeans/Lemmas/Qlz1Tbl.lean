/-
  QuickLZ (C10) — the compressor half of the level-1 round trip, part 2: THE TWO HASH TABLES.  `TInv1 s st dht lh`
  relates the compressor's tables at the top of a pass (`hashtable`, `cachetable`, `hashCounter`, `lits`, `fetch`) to
  the table `dht` and the variable `lastHashed = lh` the decoder has when it reaches the same position: the decoder
  lags by `min lits 2` positions, and once it has caught up (`hashUpdLit` over the pending positions) its table IS the
  compressor's.  `tinv_lit` / `tinv_mat`: the relation is kept by a literal pass and by a match pass;
  `lookup1`: at a match the slot named by the token holds, in the decoder's table, a position from which the copy
  reproduces the source (the position the compressor saw, or — in the run-of-one-byte case — three bytes back).
  Core-only.
-/
import GoBeans.Lemmas.Qlz1Enc
set_option linter.unusedVariables false
set_option linter.unusedSimpArgs false
namespace QlzRT
open Qlz QlzLemmas

theorem xor_eq_zero {a b : Nat} (h : a ^^^ b = 0) : a = b := by
  have := congrArg (· ^^^ b) h
  simp [Nat.xor_assoc] at this
  exact this

structure TInv1 (s : Buf) (st : CSt) (dht : Array Int) (lh : Int) : Prop where
  hts : st.ht.size = 4096
  cas : st.cache.size = 4096
  hcs : st.hc.size = 4096
  dhs : dht.size = 4096
  litle : st.lits ≤ st.src
  lhe : lh = (st.src : Int) - 1 - ((min st.lits 2 : Nat) : Int)
  sync : ∃ ht', hashUpdLit s (min st.lits 2) dht lh = some (ht', (st.src : Int) - 1)
    ∧ ∀ h : Nat, h < 4096 → ht'[h]? = (st.ht[h]?).map Int.ofNat
  rep : 3 ≤ st.lits → ∀ f, fastRead s (st.src - 3) 3 = some f → dht[hashOf f]? = some ((st.src : Int) - 3)
  fetch : (st.src : Int) ≤ (s.size : Int) - 11 → fastRead s st.src 3 = some st.fetch
  cache : ∀ (h o cf : Nat) (cnt : UInt8), st.ht[h]? = some o → st.cache[h]? = some cf → st.hc[h]? = some cnt → cnt ≠ 0 →
    o < st.src ∧ fastRead s o 3 = some cf

/-- the decoder, caught up through the current position, has the compressor's next table -/
theorem sync_step {s : Buf} {st : CSt} {dht : Array Int} {lh : Int} (hi : TInv1 s st dht lh)
    (hf : fastRead s st.src 3 = some st.fetch) :
    ∃ ht2, hashUpdLit s (min st.lits 2 + 1) dht lh = some (ht2, (st.src : Int))
      ∧ ht2.size = 4096
      ∧ ∀ h : Nat, h < 4096 → ht2[h]? = ((st.ht.setIfInBounds (hashOf st.fetch) st.src)[h]?).map Int.ofNat := by
  obtain ⟨ht', h1, h2⟩ := hi.sync
  have hs' : ht'.size = 4096 := by rw [(hashUpdLit_get _ _ _ _ _ _ h1).1, hi.dhs]
  have hh := hashOf_lt st.fetch
  refine ⟨ht'.setIfInBounds (hashOf st.fetch) (st.src : Int), ?_, by rw [Array.size_setIfInBounds]; exact hs', ?_⟩
  · rw [hashUpdLit_add, h1]
    simp only
    exact hashUpdLit_one (by omega) hs' hf
  · intro h hlt
    rw [Array.getElem?_setIfInBounds, Array.getElem?_setIfInBounds]
    by_cases hk : hashOf st.fetch = h
    · rw [if_pos hk, if_pos hk, if_pos (by omega), if_pos (by rw [hi.hts]; omega)]
      rfl
    · rw [if_neg hk, if_neg hk]
      exact h2 h hlt

theorem cache_step {s : Buf} {ht cache : Array Nat} {hc hc' : Array UInt8} {src src' fetch : Nat} (hlt : src < src')
    (hf : fastRead s src 3 = some fetch) (hts : ht.size = 4096) (cas : cache.size = 4096)
    (hhc : ∀ (h : Nat) (cnt : UInt8), hashOf fetch ≠ h → hc'[h]? = some cnt → hc[h]? = some cnt)
    (hold : ∀ (h o cf : Nat) (cnt : UInt8), ht[h]? = some o → cache[h]? = some cf → hc[h]? = some cnt → cnt ≠ 0 →
      o < src ∧ fastRead s o 3 = some cf) :
    ∀ (h o cf : Nat) (cnt : UInt8), (ht.setIfInBounds (hashOf fetch) src)[h]? = some o →
      (cache.setIfInBounds (hashOf fetch) fetch)[h]? = some cf → hc'[h]? = some cnt → cnt ≠ 0 →
      o < src' ∧ fastRead s o 3 = some cf := by
  intro h o cf cnt h1 h2 h3 h4
  rw [Array.getElem?_setIfInBounds] at h1 h2
  have hh := hashOf_lt fetch
  by_cases hk : hashOf fetch = h
  · rw [if_pos hk, if_pos (by omega)] at h1 h2
    cases h1; cases h2
    exact ⟨hlt, hf⟩
  · rw [if_neg hk] at h1 h2
    obtain ⟨g1, g2⟩ := hold h o cf cnt h1 h2 (hhc h cnt hk h3) h4
    exact ⟨by omega, g2⟩

/-- a literal pass keeps the relation; the decoder's `hashUpdLit` after the literal is the `dht1`, `lh1` produced -/
theorem tinv_lit {s : Buf} {st st' : CSt} {dht : Array Int} {lh : Int} {b2 : UInt8} (hi : TInv1 s st dht lh)
    (hsrc : (st.src : Int) ≤ (s.size : Int) - 11)
    (e1 : st'.src = st.src + 1) (e2 : st'.lits = st.lits + 1)
    (e3 : st'.ht = st.ht.setIfInBounds (hashOf st.fetch) st.src)
    (e4 : st'.cache = st.cache.setIfInBounds (hashOf st.fetch) st.fetch)
    (e5 : st'.hc = st.hc.setIfInBounds (hashOf st.fetch) 1)
    (hb2 : s[st.src + 1 + 2]? = some b2) (e6 : st'.fetch = ((st.fetch >>> 8) &&& 0xffff) ||| (b2.toNat <<< 16)) :
    ∃ dht1 lh1, hashUpdLit s (((st.src + 1 : Nat) : Int) - 3 - lh).toNat dht lh = some (dht1, lh1) ∧ TInv1 s st' dht1 lh1 := by
  have hf := hi.fetch hsrc
  obtain ⟨ht2, k1, k2, k3⟩ := sync_step hi hf
  have hlh := hi.lhe
  have hle := hi.litle
  have hsplit : min st.lits 2 + 1 = (((st.src + 1 : Nat) : Int) - 3 - lh).toNat + min (st.lits + 1) 2 := by omega
  rw [hsplit, hashUpdLit_add] at k1
  cases hn : hashUpdLit s (((st.src + 1 : Nat) : Int) - 3 - lh).toNat dht lh with
  | none => rw [hn] at k1; cases k1
  | some r =>
    obtain ⟨dht1, lh1⟩ := r
    rw [hn] at k1
    simp only at k1
    have hlh1 := hashUpdLit_lh _ _ _ _ _ _ hn
    have hsz1 := (hashUpdLit_get _ _ _ _ _ _ hn).1
    refine ⟨dht1, lh1, rfl, ?_⟩
    refine ⟨by rw [e3, Array.size_setIfInBounds]; exact hi.hts, by rw [e4, Array.size_setIfInBounds]; exact hi.cas,
      by rw [e5, Array.size_setIfInBounds]; exact hi.hcs, by rw [hsz1]; exact hi.dhs, by rw [e1, e2]; omega,
      by rw [e1, e2]; omega, ?_, ?_, ?_, ?_⟩
    · refine ⟨ht2, ?_, ?_⟩
      · rw [e2, e1, k1]
        congr 2; omega
      · rw [e3]; exact k3
    · intro h3 f hf3
      rw [e2] at h3
      rw [e1] at hf3 ⊢
      have hn1 : (((st.src + 1 : Nat) : Int) - 3 - lh).toNat = 1 := by omega
      rw [hn1] at hn
      have hm : lh + 1 = ((st.src + 1 - 3 : Nat) : Int) := by omega
      rw [hashUpdLit_one hm hi.dhs hf3] at hn
      simp only [Option.some.injEq, Prod.mk.injEq] at hn
      obtain ⟨rfl, _⟩ := hn
      rw [Array.getElem?_setIfInBounds, if_pos rfl, if_pos (by rw [hi.dhs]; exact hashOf_lt f)]
      congr 1; omega
    · intro _
      rw [e1, e6]
      exact fetch_shift3 hf hb2
    · rw [e3, e4, e1]
      apply cache_step (by omega) hf hi.hts hi.cas _ hi.cache
      intro h cnt hk hc
      rw [e5, Array.getElem?_setIfInBounds, if_neg hk] at hc
      exact hc

/-- a match pass keeps the relation; the decoder's `hashUpdMatch` (as `hashUpdLit`) produces `dht'` -/
theorem tinv_mat {s : Buf} {st st' : CSt} {dht : Array Int} {lh : Int} {ml : Nat} (hi : TInv1 s st dht lh)
    (hsrc : (st.src : Int) ≤ (s.size : Int) - 11) (hml : 1 ≤ ml)
    (e1 : st'.src = st.src + ml) (e2 : st'.lits = 0)
    (e3 : st'.ht = st.ht.setIfInBounds (hashOf st.fetch) st.src)
    (e4 : st'.cache = st.cache.setIfInBounds (hashOf st.fetch) st.fetch)
    (e5 : st'.hc = st.hc) (e6 : fastRead s st'.src 3 = some st'.fetch) :
    ∃ dht', hashUpdLit s ((st.src : Int) - lh).toNat dht lh = some (dht', (st.src : Int))
      ∧ TInv1 s st' dht' (((st.src + ml : Nat) : Int) - 1) := by
  have hf := hi.fetch hsrc
  obtain ⟨ht2, k1, k2, k3⟩ := sync_step hi hf
  have hlh := hi.lhe
  have hle := hi.litle
  have hsplit : min st.lits 2 + 1 = ((st.src : Int) - lh).toNat := by omega
  rw [hsplit] at k1
  refine ⟨ht2, k1, ?_⟩
  refine ⟨by rw [e3, Array.size_setIfInBounds]; exact hi.hts, by rw [e4, Array.size_setIfInBounds]; exact hi.cas,
    by rw [e5]; exact hi.hcs, k2, by rw [e2]; omega, by rw [e1, e2]; omega, ?_, ?_, fun _ => e6, ?_⟩
  · refine ⟨ht2, ?_, ?_⟩
    · rw [e2, e1]; simp [hashUpdLit]
    · rw [e3]; exact k3
  · intro h3; rw [e2] at h3; omega
  · rw [e3, e4, e1]
    apply cache_step (by omega) hf hi.hts hi.cas _ hi.cache
    intro h cnt hk hc
    rw [e5] at hc
    exact hc

theorem bytes3_inj {a0 a1 a2 b0 b1 b2 : UInt8}
    (h : a0.toNat + a1.toNat * 256 + a2.toNat * 65536 = b0.toNat + b1.toNat * 256 + b2.toNat * 65536) :
    a0 = b0 ∧ a1 = b1 ∧ a2 = b2 := by
  have := a0.toNat_lt; have := a1.toNat_lt; have := a2.toNat_lt
  have := b0.toNat_lt; have := b1.toNat_lt; have := b2.toNat_lt
  refine ⟨UInt8.toNat_inj.mp (by omega), UInt8.toNat_inj.mp (by omega), UInt8.toNat_inj.mp (by omega)⟩

/-- AT A MATCH: the slot named by the token holds, in the DECODER's table, a position from which the copy reproduces
    the source -/
theorem lookup1 {s : Buf} {st : CSt} {dht : Array Int} {lh : Int} {o cached ml : Nat} {cnt : UInt8} (hi : TInv1 s st dht lh)
    (hsrc : (st.src : Int) ≤ (s.size : Int) - 11)
    (ho : st.ht[hashOf st.fetch]? = some o) (hca : st.cache[hashOf st.fetch]? = some cached)
    (hcn : st.hc[hashOf st.fetch]? = some cnt) (hx : cached ^^^ st.fetch = 0) (hcnt : cnt ≠ 0)
    (hrep : (st.src : Int) - (o : Int) > 2 ∨ Rep1 s st.src o st.lits) (hml : 3 ≤ ml) (hend : st.src + ml + 4 ≤ s.size)
    (hext : ∀ j, 3 ≤ j → j < ml → s[o + j]? = s[st.src + j]?) :
    ∃ off : Nat, dht[hashOf st.fetch]? = some ((st.src : Int) - (off : Int)) ∧ 1 ≤ off ∧ off ≤ st.src
      ∧ ∀ j, j < ml → s[st.src + j]? = s[st.src - off + j]? := by
  obtain ⟨hosrc, hfo⟩ := hi.cache _ _ _ _ ho hca hcn hcnt
  have hce := xor_eq_zero hx
  subst hce
  have hfs := hi.fetch hsrc
  obtain ⟨a0, a1, a2, ga0, ga1, ga2, ea⟩ := fastRead3 hfo
  obtain ⟨b0, b1, b2, gb0, gb1, gb2, eb⟩ := fastRead3 hfs
  obtain ⟨q0, q1, q2⟩ := bytes3_inj (ea.symm.trans eb)
  subst q0 q1 q2
  have hall : ∀ j, j < ml → s[o + j]? = s[st.src + j]? := by
    intro j hj
    by_cases h3 : 3 ≤ j
    · exact hext j h3 hj
    · have : j = 0 ∨ j = 1 ∨ j = 2 := by omega
      rcases this with rfl | rfl | rfl
      · simp only [Nat.add_zero]; rw [ga0, gb0]
      · rw [ga1, gb1]
      · rw [ga2, gb2]
  have hh := hashOf_lt st.fetch
  rcases hrep with hfar | hr
  · -- the position the compressor saw is already in the decoder's table
    refine ⟨st.src - o, ?_, by omega, by omega, ?_⟩
    · obtain ⟨ht', s1, s2⟩ := hi.sync
      have hv : ht'[hashOf st.fetch]? = some (o : Int) := by rw [s2 _ hh, ho]; rfl
      rcases (hashUpdLit_get _ _ _ _ _ _ s1).2 (hashOf st.fetch) with hg | ⟨p, p1, p2, p3⟩
      · rw [← hg, hv]
        congr 1; omega
      · rw [hv] at p3
        have := Option.some.inj p3
        have := hi.lhe
        omega
    · intro j hj
      rw [show st.src - (st.src - o) + j = o + j by omega]
      exact (hall j hj).symm
  · -- a run of one byte: the decoder's entry is three bytes back
    obtain ⟨r1, r2, r3, r4, r5, r6, r7, r8⟩ := hr
    obtain ⟨c3, hc3⟩ := getElem?_ok (a := s) (i := st.src - 3) (by omega)
    obtain ⟨c2, hc2⟩ := getElem?_ok (a := s) (i := st.src - 2) (by omega)
    obtain ⟨c1, hc1⟩ := getElem?_ok (a := s) (i := st.src - 1) (by omega)
    rw [show st.src + 1 = st.src + 1 from rfl] at r7
    simp only [gb0, gb1, gb2, hc3, hc2, hc1, Option.getD_some] at r4 r5 r6 r7 r8
    subst r4 r5 r6 r7 r8
    have hf3 : fastRead s (st.src - 3) 3 = some st.fetch := by
      rw [fastRead3_mk hc3 (by rw [show st.src - 3 + 1 = st.src - 2 by omega]; exact hc2)
        (by rw [show st.src - 3 + 2 = st.src - 1 by omega]; exact hc1)]
      rw [eb]
    have hrun : ∀ i, i < ml + 3 → s[st.src - 3 + i]? = some a0 := by
      intro i
      induction i with
      | zero => intro _; exact hc3
      | succ i ih =>
        intro hi'
        by_cases h3 : i + 1 < 3
        · have : i = 0 ∨ i = 1 := by omega
          rcases this with rfl | rfl
          · rw [show st.src - 3 + (0 + 1) = st.src - 2 by omega]; exact hc2
          · rw [show st.src - 3 + (1 + 1) = st.src - 1 by omega]; exact hc1
        · have := hall (i + 1 - 3) (by omega)
          rw [show st.src - 3 + (i + 1) = st.src + (i + 1 - 3) by omega, ← this,
            show o + (i + 1 - 3) = st.src - 3 + i by omega]
          exact ih (by omega)
    refine ⟨3, hi.rep r2 _ hf3, by omega, by omega, ?_⟩
    intro j hj
    rw [hrun j (by omega), show st.src + j = st.src - 3 + (j + 3) by omega, hrun (j + 3) (by omega)]

end QlzRT
