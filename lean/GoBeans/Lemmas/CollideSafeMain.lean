/-
  C13 (b): histories of the class `Safe` answer like the reference map (`safe_refines`).
-/
import GoBeans.Lemmas.CollideSafeOps2
set_option linter.unusedSimpArgs false
set_option linter.unusedVariables false
namespace CollideLemmas
open Store Spec HintIndex Collide StoreLemmas HintBufferLemmas

section
variable (hash : Key → Nat)

theorem step_safe {cfg : Collide.Cfg} (hcv : cfg.s.checkVHash = false) (hdf : cfg.s.dataFileMax < 4294967296) (hcap : 1 ≤ cfg.cap)
    {st : State} {t : Trk} {n : Nat} (hn : n + 1 < 2147483647) (inv : SInv hash cfg st t n) (op : Collide.Op) (t' : Trk)
    (h : t.step hash op = some t') : StepOK hash cfg st t n op t' := by
  cases op with
  | set k body flag rev ts size =>
    simp only [Trk.step] at h
    by_cases hc : rev = 0 ∧ 0 < size ∧ body.length < 2^63
    · rw [if_pos hc] at h
      obtain ⟨h0, h1, h2⟩ := hc
      subst h0
      cases h
      exact set_safe hash hcv hdf hcap hn inv k body flag ts size h1 h2
    · rw [if_neg hc] at h; cases h
  | delete k size wts =>
    simp only [Trk.step] at h
    by_cases hc : 0 < size ∧ (k ∈ t.reg ∨ t.others hash k = [])
    · rw [if_pos hc] at h
      simp only [Option.some.injEq] at h
      subst h
      exact delete_safe hash hcv hdf hcap hn inv k size wts hc.1 hc.2
    · rw [if_neg hc] at h; cases h
  | incr k d size wts =>
    simp only [Trk.step] at h
    by_cases hc : 0 < size
    · rw [if_pos hc] at h
      simp only [Option.some.injEq] at h
      subst h
      exact incr_safe hash hdf hcap inv k d size wts hc
    · rw [if_neg hc] at h; cases h
  | get k => simp only [Trk.step] at h; cases h; exact get_safe hash inv k
  | info k => simp only [Trk.step] at h; cases h; exact info_safe hash inv k
  | flush => simp only [Trk.step] at h; cases h; exact flush_safe hash inv
  | hintDump => simp only [Trk.step] at h; cases h; exact dump_safe hash inv
  | reopen kt => simp only [Trk.step] at h; cases h
  | hintMerge => simp only [Trk.step] at h; cases h
  | gc g m => simp only [Trk.step] at h; cases h

theorem sinv_init (cfg : Collide.Cfg) : SInv hash cfg {} {} 0 := by
  refine { pos := ⟨?_, ?_⟩, ra := ?_, ob := ?_, spec := ?_, wr := ?_, vers := ?_, tab := ?_, tabc := ?_, tabne := ?_,
           slot := ?_, own := ?_, hgood := ?_, hmerged := rfl, hex := ?_, hmax := ?_ }
  · intro i o r hm; exact absurd hm (by simp [Bucket.chunks])
  · intro i _; exact ⟨rfl, rfl⟩
  · intro c o r hm; exact absurd hm (by simp [Bucket.chunks])
  · intro c o r hm; exact absurd hm (by simp [Bucket.chunks])
  · intro k; exact True.intro
  · intro k; constructor
    · intro h; cases h
    · intro h; cases h
  · intro x hx; cases hx
  · intro h k it hg; cases hg
  · intro k hk; cases hk
  · intro h hh; cases hh
  · intro h ti hti; cases hti
  · intro k hk; cases hk
  · intro j; exact ⟨bufInv_empty, fun sp hsp => by cases hsp⟩
  · intro c k
    have : ((({} : State).hs.chunks c).get (hash k) k) = none := rfl
    rw [this]
    exact True.intro
  · intro c hne; exact absurd rfl hne

theorem run_safe {cfg : Collide.Cfg} (hcv : cfg.s.checkVHash = false) (hdf : cfg.s.dataFileMax < 4294967296) (hcap : 1 ≤ cfg.cap)
    (ops : List Collide.Op) :
    ∀ (st : State) (t : Trk) (n : Nat), SInv hash cfg st t n → n + ops.length < 2147483647 →
      ∀ t', Trk.run hash t ops = some t' →
      (Collide.run hash cfg st ops).2.map coarse = (Spec.run {} t.m (ops.filterMap Collide.cmdOf)).2.map coarse := by
  induction ops with
  | nil => intro st t n _ _ t' _; rfl
  | cons op ops ih =>
    intro st t n inv hn t' hrun
    unfold Trk.run at hrun
    cases hst : t.step hash op with
    | none => rw [hst] at hrun; cases hrun
    | some t1 =>
      rw [hst] at hrun
      simp only at hrun
      have hlen : (op :: ops).length = ops.length + 1 := rfl
      obtain ⟨i1, i2⟩ := step_safe hash hcv hdf hcap (by rw [hlen] at hn; omega) inv op t1 hst
      have ih' := ih _ t1 (n + 1) i1 (by rw [hlen] at hn; omega) t' hrun
      unfold Collide.run
      simp only
      cases hc : Collide.cmdOf op with
      | none =>
        rw [hc] at i2
        simp only at i2
        simp only [List.filterMap_cons, hc]
        rw [ih', i2]
      | some c =>
        rw [hc] at i2
        simp only at i2
        obtain ⟨j1, j2⟩ := i2
        simp only [List.filterMap_cons, hc]
        unfold Spec.run
        simp only [List.map_cons]
        rw [ih', j1, j2]

end
end CollideLemmas
