/-
  C13 (a) WITH RESTARTS — results.

  1. `C13_collide_extends_store_statement` (Lemmas/Collide.lean) is FALSE as written: it quantifies over every
     `Collide.Cfg`, also `SplitCap = 0`, where hint buffers drop every item and a tree rebuilt from the hint files is
     empty (`C13_statement_false`: set, restart without tree dump, get — by kernel evaluation).
  2. `C13_collide_extends_store_restarts`: with `1 ≤ cfg.cap` (the only change to the hypotheses on `cfg`) and histories
     WITHOUT GC REQUESTS — client commands with explicit revisions, flush, the hint dumper's round, hint merges and
     RESTARTS in both modes (tree dump kept / rebuilt from the hint files), in any order — the replies of `Collide.run`
     are those of `hrun` on the translated history, and of the reference.  Proof: `CollideLemmas.rst_run`
     (invariant `RI`: every hint chunk describes exactly the records of its data file in order, `CkI`; closed splits are
     files; `maxDumpedHintID` bounds every split id and names an existing data file; the tree dump id is at most
     `maxDumpedHintID`), `CollideLemmas.reopen_ok` (`Collide.reopen` against `Store.step … (.reopen _)`: same data files,
     same head, trees in agreement on every key in use).
  3. OPEN: `C13_collide_extends_store_restarts_gc_statement` — the same with GC requests admitted (the corrected form of
     the original statement).  What is missing: `RI` through `Collide.gcRun` (hint chunks of the GC destination /
     cleared sources against `GCPass.vrecs`; with merge: the empty split `forceRotateSplit` leaves).
-/
import GoBeans.Lemmas.CollideRstMain
import GoBeans.Lemmas.Collide

open Store Spec Collide CollideLemmas StoreLemmas

/-- no GC request in the history -/
def noGC (ops : List Collide.Op) : Bool := ops.all (fun op => match op with | .gc _ _ => false | _ => true)

/-- **(a) with restarts**, histories without GC requests, `SplitCap ≥ 1` -/
theorem C13_collide_extends_store_restarts (hash : Key → Nat) (K : Key → Prop) (hInj : InjOn hash K) (cfg : Collide.Cfg)
    (hcv : cfg.s.checkVHash = false) (hcap : 1 ≤ cfg.cap) (R : Nat) (ops : List Collide.Op) (hlen : R + ops.length < 2147483647)
    (hops : ∀ op ∈ ops, match toH op with | some h => HOpOK K cfg.s R h | none => True) (hno : noGC ops = true) :
    (Collide.run hash cfg {} ops).2 = (hrun hash cfg.s {} (ops.filterMap toH)).2
    ∧ (Collide.run hash cfg {} ops).2 = (hspec { checkVHash := cfg.s.checkVHash } [] (ops.filterMap toH)).2 := by
  have nc0 : NoColl hash K ({} : Collide.State) := ⟨rfl, fun _ => ckNC_empty hash K⟩
  have h0 : HInv hash K cfg.s R ({} : Collide.State).b [] := hinv_mono hash K (Nat.zero_le R) (hinv_init hash K cfg.s)
  have hok : ∀ op ∈ ops, RstOK K cfg R op := by
    intro op hop
    refine ⟨hops op hop, ?_⟩
    intro g mg e
    unfold noGC at hno
    rw [List.all_eq_true] at hno
    have := hno op hop
    rw [e] at this
    cases this
  have e1 := rst_run hash K hInj cfg hcv hcap R ops {} [] R nc0 h0 (ri_init hash) (Nat.le_refl R) hlen hok
  refine ⟨?_, e1⟩
  rw [e1]
  have hl : (ops.filterMap toH).length ≤ ops.length := List.length_filterMap_le _ _
  refine (hrun_refines hash K cfg.s hcv hInj R (ops.filterMap toH) R {} [] h0 (Nat.le_refl R) (by omega) ?_).1.symm
  intro h hh
  rw [List.mem_filterMap] at hh
  obtain ⟨op, hop, ht⟩ := hh
  have := hops op hop
  rw [ht] at this
  exact this

/-- the corrected full statement (GC requests admitted) — OPEN -/
def C13_collide_extends_store_restarts_gc_statement : Prop :=
  ∀ (hash : Key → Nat) (K : Key → Prop), InjOn hash K → ∀ (cfg : Collide.Cfg), cfg.s.checkVHash = false → 1 ≤ cfg.cap →
    ∀ (R : Nat) (ops : List Collide.Op), R + ops.length < 2147483647 →
    (∀ op ∈ ops, match toH op with | some h => HOpOK K cfg.s R h | none => True) →
    (Collide.run hash cfg {} ops).2 = (hrun hash cfg.s {} (ops.filterMap toH)).2

namespace CollideRstExample
open CollideWitness CollideExample

/-! ### the statement as written is false: `SplitCap = 0` -/

def cfg0 : Collide.Cfg := { cap := 0 }
def ops0 : List Collide.Op := [.set kA [1] 0 0 T 256, .reopen false, .get kA]

theorem ops0_ok : ∀ op ∈ ops0, match toH op with | some h => HOpOK exK cfg0.s 0 h | none => True := by
  intro op hop
  simp only [ops0, List.mem_cons, List.mem_nil_iff, or_false] at hop
  rcases hop with rfl | rfl | rfl <;> simp [toH, HOpOK, OpOK3, OpOK, exK, cfg0, kA, kX, T]

/-- the model's replies after the restart differ: the rebuilt tree is empty -/
theorem ops0_differ : (Collide.run hW cfg0 {} ops0).2 = [.stored, .miss] ∧ (hrun hW cfg0.s {} (ops0.filterMap toH)).2 = [.stored, .value 0 [1]] := by
  decide +kernel

theorem C13_statement_false : ¬ C13_collide_extends_store_statement := by
  intro h
  have := h hW exK exInj cfg0 rfl 0 ops0 (by decide) ops0_ok
  rw [ops0_differ.1, ops0_differ.2] at this
  cases this

/-! ### non-vacuity: restarts in both modes, explicit revision, delete markers, dumper rounds, a hint merge, small files -/

def rstOps : List Collide.Op :=
  [.set kA [1] 0 0 T 256, .set kX [9] 0 3 T 256, .hintDump, .delete kX 256 T, .reopen false, .info kX, .set kX [8] 0 0 T 256,
   .flush, .hintMerge, .reopen true, .get kA, .get kX, .incr kX 4 256 T, .set kA [2] 0 0 T 256, .reopen true, .info kX,
   .delete kA 256 T, .reopen false, .get kA, .info kA, .set kA [3] 0 0 T 256, .info kA]

theorem rstOps_ok : ∀ op ∈ rstOps, match toH op with | some h => HOpOK exK exCfg.s 3 h | none => True := by
  intro op hop
  simp only [rstOps, List.mem_cons, List.mem_nil_iff, or_false] at hop
  rcases hop with rfl | rfl | rfl | rfl | rfl | rfl | rfl | rfl | rfl | rfl | rfl | rfl | rfl | rfl | rfl | rfl | rfl | rfl | rfl | rfl | rfl | rfl <;>
    simp [toH, HOpOK, OpOK3, OpOK, exK, exCfg, kA, kX, T]

example : (Collide.run hW exCfg {} rstOps).2 = (hrun hW exCfg.s {} (rstOps.filterMap toH)).2 :=
  (C13_collide_extends_store_restarts hW exK exInj exCfg rfl (by decide) 3 rstOps (by decide) rstOps_ok (by decide)).1

/-- the replies (version numbers across rebuilds included) -/
example : (Collide.run hW exCfg {} rstOps).2 =
    [.stored, .stored, .deleted, .miss, .stored, .value 0 [1], .value 0 [8], .num 0, .stored, .info 1 (vhashOf [8]) 0 1 (some T),
     .deleted, .miss, .miss, .stored, .info 1 (vhashOf [3]) 0 1 (some T)] := by decide +kernel

/-! ### the open statement on a concrete history with restarts AND GC requests (merge on and off): kernel evaluation -/

def gcOps : List Collide.Op :=
  [.set kA [1] 0 0 T 256, .set kX [9] 0 3 T 256, .set kA [2] 0 0 T 256, .delete kX 256 T, .flush, gcAll 0 0 true, .reopen true,
   .info kX, .get kA, .set kX [7] 0 0 T 256, .set kA [4] 0 0 T 256, .flush, gcAll (-1) (-1) false, .reopen false, .info kX, .get kA,
   gcAll 0 1 true, .reopen true, .get kX, .info kA]

theorem gcOps_ok : ∀ op ∈ gcOps, match toH op with | some h => HOpOK exK exCfg.s 3 h | none => True := by
  intro op hop
  simp only [gcOps, List.mem_cons, List.mem_nil_iff, or_false] at hop
  rcases hop with rfl | rfl | rfl | rfl | rfl | rfl | rfl | rfl | rfl | rfl | rfl | rfl | rfl | rfl | rfl | rfl | rfl | rfl | rfl | rfl <;>
    simp [toH, HOpOK, OpOK3, OpOK, exK, exCfg, gcAll, kA, kX, T]

example : (Collide.run hW exCfg {} gcOps).2 = (hrun hW exCfg.s {} (gcOps.filterMap toH)).2 := by decide +kernel

end CollideRstExample
