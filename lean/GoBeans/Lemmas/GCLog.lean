/-
  GC on the log view: replacing the records of the collected range by the kept ones (relocated) never
  changes what any key reads (`gc_preserves_live`), and the kept records of known keys are current and unique.
  The connection "concrete `gcRun` produces exactly before ++ kept ++ after" is checked per run by the
  driver (engine seq, kind=model "gc-abstraction"), not proved (DESIGN.md, C03 partial).
-/
import GoBeans.Lemmas.Log
import GoBeans.Model.GC
set_option linter.unusedSimpArgs false
set_option linter.unusedVariables false
namespace StoreLemmas
open Store Spec

theorem lastOf_append (k : Key) (a b : List (Pos × Rec)) : lastOf k (a ++ b) = (lastOf k b).or (lastOf k a) := by
  unfold lastOf
  rw [List.filter_append, List.getLast?_append]

theorem lastOf_mem {k : Key} {l : List (Pos × Rec)} {x : Pos × Rec} (h : lastOf k l = some x) : x ∈ l ∧ x.2.key = k := by
  unfold lastOf at h
  have := List.mem_of_getLast? h
  simpa [List.mem_filter] using this

theorem lastOf_none_iff (k : Key) (l : List (Pos × Rec)) : lastOf k l = none ↔ ∀ x ∈ l, x.2.key ≠ k := by
  unfold lastOf
  rw [List.getLast?_eq_none_iff, List.filter_eq_nil_iff]
  simp

theorem lastOf_relocate (f : Pos → Pos) (k : Key) (l : List (Pos × Rec)) :
    (lastOf k (relocate f l)).map (·.2) = (lastOf k l).map (·.2) := by
  unfold lastOf relocate
  rw [List.filter_map]
  simp only [Function.comp_def]
  rw [List.getLast?_map]
  cases (l.filter fun x => decide (x.2.key = k)).getLast? <;> rfl

theorem getLast?_filter_beq {xs : List (Pos × Rec)} {r : Pos × Rec} (h : xs.getLast? = some r) :
    (xs.filter (fun x => x == r)).getLast? = some r := by
  obtain ⟨ys, rfl⟩ := List.getLast?_eq_some_iff.mp h
  simp [List.filter_append]

/-- among the records of `k` in `mid`, keeping "the last of k overall" keeps exactly it, if it lies in `mid` -/
theorem lastOf_filter_keep_entry (hasEntry : Key → Bool) (bp : Bool) (full mid : List (Pos × Rec)) (k : Key)
    (he : hasEntry k = true) (r : Pos × Rec) (hfull : lastOf k full = some r) (hmid : lastOf k mid = some r) :
    lastOf k (mid.filter (gcKeep hasEntry bp full)) = some r := by
  have hkey : r.2.key = k := (lastOf_mem hmid).2
  unfold lastOf at hmid ⊢
  rw [List.filter_filter]
  have : mid.filter (fun x => decide (x.2.key = k) && gcKeep hasEntry bp full x)
       = (mid.filter (fun x => decide (x.2.key = k))).filter (fun x => x == r) := by
    rw [List.filter_filter]
    apply List.filter_congr
    intro x _
    by_cases hx : x.2.key = k
    · simp only [hx, decide_true, Bool.true_and, gcKeep, he, if_true, hfull]
      by_cases e : x = r
      · subst e; simp
      · have : ¬ r = x := fun h => e h.symm
        simp [beq_eq_false_iff_ne.mpr e, beq_eq_false_iff_ne.mpr this]
    · have : (x == r) = false := by
        simp; intro e; subst e; exact hx hkey
      simp [hx, this]
  rw [this]
  exact getLast?_filter_beq hmid

theorem lastOf_filter_none (P : Pos × Rec → Bool) (k : Key) (mid : List (Pos × Rec)) (h : lastOf k mid = none) :
    lastOf k (mid.filter P) = none := by
  rw [lastOf_none_iff] at h ⊢
  intro x hx; exact h x (List.mem_filter.mp hx).1

/-- **GC preserves what every key reads** (abstract log form).  `full = before ++ mid ++ after`; the pass
    replaces `mid` by its kept records, relocated.  Hypotheses: the tree describes last records
    (`hEntry`: a key without tree entry has no live last record — LastRec), and a pass that may drop
    tombstones starts at the first file (`hpre`). -/
theorem gc_preserves_live (hasEntry : Key → Bool) (bp : Bool) (f : Pos → Pos) (before mid after : List (Pos × Rec))
    (hpre : bp = false → before = [])
    (hEntry : ∀ k, hasEntry k = false → ∀ x, lastOf k (before ++ mid ++ after) = some x → x.2.ver < 0)
    (k : Key) :
    liveRec k (before ++ relocate f (mid.filter (gcKeep hasEntry bp (before ++ mid ++ after))) ++ after)
      = liveRec k (before ++ mid ++ after) := by
  unfold liveRec
  rw [lastOf_append, lastOf_append, lastOf_append (a := before ++ mid), lastOf_append (a := before)]
  cases ha : lastOf k after with
  | some r => simp
  | none =>
    simp only [Option.none_or]
    cases hm : lastOf k mid with
    | some r =>
      have hfull : lastOf k (before ++ mid ++ after) = some r := by
        rw [lastOf_append, lastOf_append, ha, hm]; simp
      by_cases he : hasEntry k = true
      · -- the tree points at r: it is kept, and it still shadows whatever `before` holds
        have hk := lastOf_filter_keep_entry hasEntry bp (before ++ mid ++ after) mid k he r hfull hm
        have hr := lastOf_relocate f k (mid.filter (gcKeep hasEntry bp (before ++ mid ++ after)))
        rw [hk] at hr
        cases hrel : lastOf k (relocate f (mid.filter (gcKeep hasEntry bp (before ++ mid ++ after)))) with
        | none => rw [hrel] at hr; simp at hr
        | some y =>
          rw [hrel] at hr
          simp at hr
          simp [hr]
      · -- the tree does not know k: its last record r is not live; nothing live can surface
        have he' : hasEntry k = false := by simpa using he
        have hlt : r.2.ver < 0 := hEntry k he' r hfull
        have hnl : ¬ r.2.ver > 0 := by omega
        simp only [Option.some_or, Option.bind_some, hnl, if_false]
        -- after the pass: the last record of k is a kept tombstone of mid, or comes from `before`
        cases hrel : lastOf k (relocate f (mid.filter (gcKeep hasEntry bp (before ++ mid ++ after)))) with
        | some y =>
          -- kept records of an unknown key are tombstones
          have hy := lastOf_mem hrel
          obtain ⟨hyin, hyk⟩ := hy
          unfold relocate at hyin
          rw [List.mem_map] at hyin
          obtain ⟨x, hx, rfl⟩ := hyin
          have hkeep := (List.mem_filter.mp hx).2
          have hxk : x.2.key = k := hyk
          simp only [gcKeep, hxk, he', Bool.false_eq_true, if_false, Bool.and_eq_true, decide_eq_true_eq] at hkeep
          have : ¬ x.2.ver > 0 := by omega
          simp [this]
        | none =>
          simp only [Option.none_or]
          -- nothing of k kept: then bp = false (otherwise the tombstone r would have been kept) or r is not a tombstone…
          by_cases hb : bp = true
          · -- r is a tombstone of an unknown key in a pass that keeps them: it was kept — contradiction
            exfalso
            have hrin : r ∈ mid ∧ r.2.key = k := lastOf_mem hm
            have : r ∈ mid.filter (gcKeep hasEntry bp (before ++ mid ++ after)) := by
              rw [List.mem_filter]
              refine ⟨hrin.1, ?_⟩
              simp [gcKeep, hrin.2, he', hb, hlt]
            have hnone := (lastOf_none_iff k _).1 hrel (f r.1, r.2) (by unfold relocate; exact List.mem_map.mpr ⟨r, this, rfl⟩)
            exact hnone hrin.2
          · have hb' : bp = false := by simpa using hb
            rw [hpre hb']; simp [lastOf_nil]
    | none =>
      have h1 := lastOf_filter_none (gcKeep hasEntry bp (before ++ mid ++ after)) k mid hm
      have h2 : lastOf k (relocate f (mid.filter (gcKeep hasEntry bp (before ++ mid ++ after)))) = none := by
        rw [lastOf_none_iff] at h1 ⊢
        intro y hy
        unfold relocate at hy
        rw [List.mem_map] at hy
        obtain ⟨x, hx, rfl⟩ := hy
        exact h1 x hx
      rw [h2]

/-- C18 (abstract): a kept record of a key the tree knows is THE last record of that key, and it is the only
    kept record of that key. -/
theorem gc_kept_current (hasEntry : Key → Bool) (bp : Bool) (full mid : List (Pos × Rec)) (x : Pos × Rec)
    (hx : x ∈ mid.filter (gcKeep hasEntry bp full)) (he : hasEntry x.2.key = true) :
    lastOf x.2.key full = some x
    ∧ ∀ y ∈ mid.filter (gcKeep hasEntry bp full), y.2.key = x.2.key → y = x := by
  have hk := (List.mem_filter.mp hx).2
  simp only [gcKeep, he, if_true, beq_iff_eq] at hk
  refine ⟨hk, ?_⟩
  intro y hy hyk
  have hky := (List.mem_filter.mp hy).2
  simp only [gcKeep, hyk, he, if_true, beq_iff_eq] at hky
  rw [hk] at hky
  exact (Option.some.inj hky).symm

end StoreLemmas
