/-
  Lazy Merkle tree (C08), part 2: the CONTENT side.
  `LeavesInv`: every leaf's (count, hash) is the sum over its items (`TreeLemmas.LeafInv`) and every item sits in
  the leaf its key hash routes to.  Under it, the fold of leaf summaries (`subSum`) IS the specification
  `Tree.nodeSum` of the content (the items of all leaves), and `collectItems` lists exactly the content under a prefix.
  Core-only.
-/
import GoBeans.Lemmas.HTreeImplBase
set_option linter.unusedSimpArgs false
set_option linter.unusedVariables false
namespace HTreeImplLemmas
open Tree TreeLemmas HTreeImpl

/-! ### key-hash digits -/

theorem topDigits_step (kh n : Nat) (hn : n < 16) : topDigits kh (n + 1) = topDigits kh n * 16 + pathDigit kh n := by
  unfold topDigits pathDigit
  have e1 : 16 - (n + 1) = 15 - n := by omega
  have e2 : 16 - n = (15 - n) + 1 := by omega
  rw [e1, e2, Nat.pow_succ, ← Nat.div_div_eq_div_mul]
  generalize kh / 16 ^ (15 - n) = x
  omega

theorem offsetAt_lt (kh depth k : Nat) : offsetAt kh depth k < 16 ^ k := by
  induction k with
  | zero => simp [offsetAt]
  | succ k ih =>
    have := pathDigit_lt kh (depth + k)
    rw [offsetAt, Nat.pow_succ]; omega

theorem topDigits_offsetAt (kh depth k : Nat) (h : depth + k ≤ 16) :
    topDigits kh (depth + k) = topDigits kh depth * 16 ^ k + offsetAt kh depth k := by
  induction k with
  | zero => simp [offsetAt]
  | succ k ih =>
    rw [← Nat.add_assoc, topDigits_step _ _ (by omega), ih (by omega), offsetAt, Nat.pow_succ, Nat.add_mul, Nat.mul_assoc]
    omega

/-! ### leaves -/

structure LeavesInv (t : HTree) : Prop where
  leaf : ∀ j, LeafInv (t.leaf j)
  routed : ∀ j, ∀ x ∈ (t.leaf j).items,
    topDigits x.khash (t.depth + t.height - 1) = t.bucketID * 16 ^ (t.height - 1) + j

theorem mem_set_items (lf : Leaf) (e x : Ent) (h : x ∈ (lf.set e).items) : x ∈ lf.items ∨ x = e := by
  unfold Leaf.set at h
  cases hf : lf.find e.khash with
  | none =>
    rw [hf] at h
    simp only [List.mem_append, List.mem_singleton] at h
    exact h
  | some o =>
    rw [hf] at h
    simp only [List.mem_map] at h
    obtain ⟨y, hy, rfl⟩ := h
    by_cases hk : (y.khash == e.khash) = true
    · right; simp [hk]
    · left; simp [hk]; exact hy

theorem mem_remove_items (lf : Leaf) (kh : Nat) (x : Ent) (h : x ∈ (lf.remove kh).items) : x ∈ lf.items := by
  unfold Leaf.remove at h
  cases hf : lf.find kh with
  | none => rw [hf] at h; exact h
  | some o =>
    rw [hf] at h
    exact (List.mem_filter.mp h).1

theorem leafInv_default : LeafInv ({} : Leaf) := leaf_init

/-- replacing leaf `off` by a leaf that is consistent and holds only items routed to `off` -/
theorem leavesInv_setLeaf (t : HTree) (off : Nat) (lf : Leaf) (inv : LeavesInv t) (h1 : LeafInv lf)
    (h2 : ∀ x ∈ lf.items, topDigits x.khash (t.depth + t.height - 1) = t.bucketID * 16 ^ (t.height - 1) + off) :
    LeavesInv (t.setLeaf off lf) := by
  refine ⟨?_, ?_⟩
  · intro j
    rw [leaf_setLeaf]
    split
    · exact h1
    · exact inv.leaf j
  · intro j x hx
    rw [leaf_setLeaf] at hx
    show topDigits x.khash (t.depth + t.height - 1) = t.bucketID * 16 ^ (t.height - 1) + j
    split at hx
    · rename_i hc; rw [← hc.1]; exact h2 x hx
    · exact inv.routed j x hx

/-! ### chunks of the leaf array: the leaves below a node -/

def chunk (ls : List Leaf) (below o : Nat) : List Leaf := (ls.drop (o * 16 ^ below)).take (16 ^ below)

/-- the items below the node that is `below` levels above the leaves at offset `o`, in leaf order -/
def sub (t : HTree) (below o : Nat) : Content := (chunk t.leaves below o).flatMap (·.items)

theorem concat_slices (ls : List Leaf) (a m k : Nat) :
    (List.range k).flatMap (fun i => (ls.drop (a + i * m)).take m) = (ls.drop a).take (k * m) := by
  induction k with
  | zero => simp
  | succ k ih =>
    rw [List.range_succ, List.flatMap_append, ih]
    simp only [List.flatMap_cons, List.flatMap_nil, List.append_nil]
    rw [Nat.succ_mul, List.take_add, List.drop_drop]

theorem chunk_succ (ls : List Leaf) (below o : Nat) :
    chunk ls (below + 1) o = (List.range 16).flatMap (fun i => chunk ls below (o * 16 + i)) := by
  unfold chunk
  have := concat_slices ls (o * 16 ^ (below + 1)) (16 ^ below) 16
  rw [show 16 * 16 ^ below = 16 ^ (below + 1) by rw [Nat.pow_succ, Nat.mul_comm]] at this
  rw [← this]
  congr 1
  funext i
  congr 2
  rw [Nat.add_mul, Nat.pow_succ, Nat.mul_assoc, Nat.mul_comm 16 (16 ^ below)]

theorem sub_succ (t : HTree) (below o : Nat) :
    sub t (below + 1) o = (List.range 16).flatMap (fun i => sub t below (o * 16 + i)) := by
  unfold sub
  rw [chunk_succ, List.flatMap_assoc]

theorem sub_zero (t : HTree) (o : Nat) : sub t 0 o = (t.leaf o).items := by
  unfold sub chunk HTree.leaf
  simp only [Nat.pow_zero, Nat.mul_one, List.getD_eq_getElem?_getD]
  cases h : t.leaves.drop o with
  | nil =>
    have : t.leaves.length ≤ o := by simpa using h
    rw [List.getElem?_eq_none this]; rfl
  | cons a rest =>
    have : t.leaves[o]? = some a := by
      have h2 := List.getElem?_drop (xs := t.leaves) (i := o) (j := 0)
      rw [h] at h2
      simpa using h2.symm
    rw [this]; simp

theorem content_eq_sub (t : HTree) (hs : Shape t) : content t = sub t (t.height - 1) 0 := by
  unfold content sub chunk
  have : t.height - 1 = t.inner.length := by unfold HTree.height; omega
  rw [this, Nat.zero_mul, List.drop_zero, ← hs.leaves, List.take_length]

/-- items below node (l, o) carry the node's prefix -/
theorem sub_routed (t : HTree) (hs : Shape t) (inv : LeavesInv t) : ∀ (below l o : Nat), l + below + 1 = t.height →
    ∀ x ∈ sub t below o, topDigits x.khash (t.depth + l) = t.bucketID * 16 ^ l + o := by
  intro below
  induction below with
  | zero =>
    intro l o hl x hx
    rw [sub_zero] at hx
    have := inv.routed o x hx
    have e1 : t.depth + t.height - 1 = t.depth + l := by omega
    have e2 : t.height - 1 = l := by omega
    rw [e1, e2] at this; exact this
  | succ b ih =>
    intro l o hl x hx
    rw [sub_succ, List.mem_flatMap] at hx
    obtain ⟨i, hi, hx⟩ := hx
    have hi' : i < 16 := List.mem_range.mp hi
    have h1 := ih (l + 1) (o * 16 + i) (by omega) x hx
    have hb := hs.bound
    have h2 := topDigits_succ x.khash (t.depth + l) (by omega)
    rw [← Nat.add_assoc] at h1
    rw [← h2, h1, Nat.pow_succ, ← Nat.mul_assoc]
    omega

theorem flatMap_single {α : Type} (n i : Nat) (hi : i < n) (X : List α) :
    (List.range n).flatMap (fun j => if j = i then X else []) = X := by
  induction n with
  | zero => omega
  | succ n ih =>
    rw [List.range_succ, List.flatMap_append]
    simp only [List.flatMap_cons, List.flatMap_nil, List.append_nil]
    by_cases h : i = n
    · subst h
      have : (List.range i).flatMap (fun j => if j = i then X else []) = [] := by
        rw [List.flatMap_eq_nil_iff]
        intro j hj
        have : j < i := List.mem_range.mp hj
        rw [if_neg (by omega)]
      rw [this]; simp
    · rw [ih (by omega), if_neg (fun h' => h h'.symm)]; simp

theorem under_under (c : Content) (n p i : Nat) (hn : n < 16) (hi : i < 16) :
    under c (n + 1) (p * 16 + i) = under (under c n p) (n + 1) (p * 16 + i) := by
  unfold under
  rw [List.filter_filter]
  apply List.filter_congr
  intro x _
  by_cases h : topDigits x.khash (n + 1) = p * 16 + i
  · have := topDigits_succ x.khash n hn
    have h2 : topDigits x.khash n = p := by rw [← this, h]; omega
    simp [h, h2]
  · simp [h]

theorem under_sub_child (t : HTree) (hs : Shape t) (inv : LeavesInv t) (below l o i : Nat) (hl : l + below + 2 = t.height)
    (hi : i < 16) :
    under (sub t (below + 1) o) (t.depth + (l + 1)) (t.bucketID * 16 ^ (l + 1) + (o * 16 + i)) = sub t below (o * 16 + i) := by
  rw [sub_succ]
  unfold under
  rw [List.filter_flatMap]
  have : (fun j => (sub t below (o * 16 + j)).filter (fun e => topDigits e.khash (t.depth + (l + 1)) == t.bucketID * 16 ^ (l + 1) + (o * 16 + i)))
       = (fun j => if j = i then sub t below (o * 16 + i) else []) := by
    funext j
    by_cases hj : j = i
    · subst hj
      rw [if_pos rfl, List.filter_eq_self]
      intro x hx
      have := sub_routed t hs inv below (l + 1) (o * 16 + j) (by omega) x hx
      simp [this]
    · rw [if_neg hj, List.filter_eq_nil_iff]
      intro x hx
      have := sub_routed t hs inv below (l + 1) (o * 16 + j) (by omega) x hx
      simp [this]; omega
  rw [this, flatMap_single 16 i hi]

/-- **the items under a node's prefix are exactly the items of the leaves below the node** (same order) -/
theorem under_content (t : HTree) (hs : Shape t) (inv : LeavesInv t) : ∀ (l o : Nat), l + 1 ≤ t.height → o < 16 ^ l →
    under (content t) (t.depth + l) (t.bucketID * 16 ^ l + o) = sub t (t.height - 1 - l) o := by
  intro l
  induction l with
  | zero =>
    intro o _ ho
    have : o = 0 := by simpa using ho
    subst this
    rw [content_eq_sub t hs, Nat.sub_zero]
    unfold under
    rw [List.filter_eq_self]
    intro x hx
    have := sub_routed t hs inv (t.height - 1) 0 0 (by unfold HTree.height; omega) x hx
    simp at this
    simp [this]
  | succ l ih =>
    intro o hl ho
    have hb := hs.bound
    have ho1 : o / 16 < 16 ^ l := by rw [Nat.pow_succ] at ho; omega
    have ho2 : o % 16 < 16 := Nat.mod_lt _ (by decide)
    have e : t.bucketID * 16 ^ (l + 1) + o = (t.bucketID * 16 ^ l + o / 16) * 16 + o % 16 := by
      rw [Nat.pow_succ, ← Nat.mul_assoc]; omega
    have hsub := under_sub_child t hs inv (t.height - 1 - (l + 1)) l (o / 16) (o % 16) (by omega) ho2
    have e3 : o / 16 * 16 + o % 16 = o := by omega
    rw [e3] at hsub
    rw [← hsub]
    rw [e, ← Nat.add_assoc, under_under _ _ _ _ (by omega) ho2, ih (o / 16) (by omega) ho1]
    have e2 : t.height - 1 - l = (t.height - 1 - (l + 1)) + 1 := by omega
    rw [e2]

/-! ### the fold of the leaf summaries is the specification of the content -/

theorem lv_eq_leafSum (t : HTree) (inv : LeavesInv t) (o : Nat) : lv t o = leafSum (t.leaf o).items := by
  have := inv.leaf o
  rw [leafSum_eq, ← this.count, ← this.hash]; rfl

theorem nodeSum_eq_subSum (t : HTree) (hs : Shape t) (inv : LeavesInv t) : ∀ (below l o : Nat), l + below + 1 = t.height →
    o < 16 ^ l → nodeSum (content t) (t.depth + l) (t.bucketID * 16 ^ l + o) below = subSum (lv t) below o := by
  intro below
  induction below with
  | zero =>
    intro l o hl ho
    show leafSum (under (content t) (t.depth + l) (t.bucketID * 16 ^ l + o)) = lv t o
    rw [under_content t hs inv l o (by omega) ho, lv_eq_leafSum t inv]
    have : t.height - 1 - l = 0 := by omega
    rw [this, sub_zero]
  | succ b ih =>
    intro l o hl ho
    rw [nodeSum_succ]
    unfold subSum
    congr 1
    apply List.map_congr_left
    intro i hi
    have hi' : i < 16 := List.mem_range.mp hi
    have := ih (l + 1) (o * 16 + i) (by omega) (by rw [Nat.pow_succ]; omega)
    rw [← this]
    congr 1
    rw [Nat.pow_succ, ← Nat.mul_assoc]; omega

/-- `collectItems` = the items below the node that pass the filter, in leaf order -/
theorem collectItems_eq (t : HTree) (keep : Ent → Bool) : ∀ (below o : Nat),
    collectItems t keep below o = (sub t below o).filter keep := by
  intro below
  induction below with
  | zero => intro o; rw [sub_zero]; rfl
  | succ b ih =>
    intro o
    rw [sub_succ, List.filter_flatMap]
    unfold collectItems
    congr 1
    funext i
    exact ih (o * 16 + i)

end HTreeImplLemmas
