/-
  C13 (b) with restarts: incr, flush, the hint dumper's round under `RInv`.
-/
import GoBeans.Lemmas.CollideROps
set_option linter.unusedSimpArgs false
set_option linter.unusedVariables false
namespace CollideLemmas
open Store Spec HintIndex Collide StoreLemmas HintBufferLemmas

section
variable (hash : Key → Nat)

theorem writeOK_afterGet (t : Trk) (k : Key) (h : t.writeOK hash k = true) : (t.afterGet hash k).writeOK hash k = true := by
  unfold Trk.afterGet
  split
  · split
    · split
      · exact h
      · unfold Trk.writeOK Trk.others Trk.det at *
        simp only [Bool.or_eq_true, List.isEmpty_iff, List.any_eq_true, List.any_cons] at h ⊢
        rcases h with h | ⟨y, hy, hyh⟩
        · exact Or.inl h
        · exact Or.inr (Or.inr (Or.inr ⟨y, hy, hyh⟩))
    · exact h
  · exact h

theorem incr_writeR {cfg : Collide.Cfg} (hdf : cfg.s.dataFileMax < 4294967296) (hcap : 1 ≤ cfg.cap)
    {st1 : State} {x : TrkR} {n : Nat} (k : Key) (g1 : RInv hash cfg st1 { x with t := x.t.afterGet hash k } n)
    (hw : x.restarted = true → x.t.writeOK hash k = true)
    (size wts : Nat) (hsz : 0 < size) (v ve val : Int) (hv : 0 < v) (hve : 0 < ve) (hvb : v.natAbs ≤ n + 1) :
    RInv hash cfg (st1.put hash cfg { key := k, ver := v, flag := Spec.FLAG_INCR, ts := none, body := Spec.itoa val, size := size, wts := wts }).1
      { x with t := (x.t.afterGet hash k).afterWrite hash k (AMap.set x.t.m k { ver := ve, flag := Spec.FLAG_INCR, body := Spec.itoa val, ts := none }) } (n + 1) := by
  have := put_invR hash hdf hcap g1 { key := k, ver := v, flag := Spec.FLAG_INCR, ts := none, body := Spec.itoa val, size := size, wts := wts } hsz hvb
    (AMap.set x.t.m k { ver := ve, flag := Spec.FLAG_INCR, body := Spec.itoa val, ts := none })
    (by intro k' hk'; simp only; rw [afterGet_m]; exact AMap.get_set_ne _ _ _ _ (Ne.symm hk'))
    (by simp only [AMap.get_set_self, LogSpec]; exact ⟨by omega, ⟨fun _ => hve, fun _ => hv⟩, fun _ => by simp, itoa_length val, by omega⟩)
    (by intro hr; exact writeOK_afterGet hash x.t k (hw hr))
  exact this

theorem incr_safeR {cfg : Collide.Cfg} (hdf : cfg.s.dataFileMax < 4294967296) (hcap : 1 ≤ cfg.cap)
    {st : State} {x : TrkR} {n : Nat} (inv : RInv hash cfg st x n) (k : Key) (d : Int) (size wts : Nat) (hsz : 0 < size)
    (hw : x.restarted = true → x.t.writeOK hash k = true) :
    StepOKR hash cfg st x n (.incr k d size wts)
      { x with t := (if incrWrites x.t.m k then (x.t.afterGet hash k).afterWrite hash k (Spec.step {} x.t.m (.incr k d)).1
                     else { (x.t.afterGet hash k) with m := (Spec.step {} x.t.m (.incr k d)).1 }) } := by
  obtain ⟨g1, g2, _⟩ := get_specR hash inv k
  unfold StepOKR
  simp only [Collide.cmdOf, Collide.step]
  rcases read_cases hash inv k with ⟨h1, h2⟩ | ⟨p, r, e, h1, hl, he, h4, h5, h6, _, he0⟩
  · -- nothing live: the counter starts at the delta
    rw [h1]
    have hcond : (match AMap.get x.t.m k with | none => True | some e => e.ver < 0) := by
      rcases h2 with h2 | ⟨e, h2, h3⟩
      · rw [h2]; trivial
      · rw [h2]; exact h3
    have hiw : incrWrites x.t.m k = true := by
      unfold incrWrites
      rcases h2 with h2 | ⟨e, h2, h3⟩
      · rw [h2]
      · rw [h2]; simp [h3]
    rw [spec_incr_write x.t.m k d hcond, hiw]
    simp only [coarse, if_true, and_self, and_true]
    exact ⟨incr_writeR hash hdf hcap k g1 hw size wts hsz 1 1 d (by omega) (by omega) (by simp), rfl⟩
  · rw [h1]
    simp only
    by_cases hpos : r.ver > 0
    · have hev : e.ver > 0 := h5.mp hpos
      obtain ⟨a, b, _⟩ := h6 hev
      have hnle : ¬ r.ver ≤ 0 := by omega
      have hnlt : ¬ e.ver < 0 := by omega
      rw [if_neg hnle]
      by_cases hf : r.flag ≠ Spec.FLAG_INCR
      · have hsp : Spec.step {} x.t.m (.incr k d) = (x.t.m, .num 0) := by
          unfold Spec.step; simp [he, hnlt, a, hf]
        have hiw : incrWrites x.t.m k = false := by unfold incrWrites; simp [he, hnlt, a, hf]
        rw [hsp, hiw, if_pos hf]
        simp only [coarse, Bool.false_eq_true, if_false, and_self, and_true]
        rw [afterGet_setm]
        exact inv_monoR hash (Nat.le_succ n) g1
      · have hf' : r.flag = Spec.FLAG_INCR := by simpa using hf
        rw [if_neg hf]
        by_cases hlen : r.body.length > 22
        · have hsp : Spec.step {} x.t.m (.incr k d) = (x.t.m, .num 0) := by
            unfold Spec.step; simp [he, hnlt, a, hf', b, hlen]
          have hiw : incrWrites x.t.m k = false := by unfold incrWrites; simp [he, hnlt, a, hf', b, hlen]
          rw [hsp, hiw, if_pos hlen]
          simp only [coarse, Bool.false_eq_true, if_false, and_self, and_true]
          rw [afterGet_setm]
          exact inv_monoR hash (Nat.le_succ n) g1
        · rw [if_neg hlen]
          cases hp : Spec.parseInt r.body with
          | none =>
            have hsp : Spec.step {} x.t.m (.incr k d) = (x.t.m, .num 0) := by
              unfold Spec.step; simp [he, hnlt, a, hf', b, hlen, hp]
            have hiw : incrWrites x.t.m k = false := by unfold incrWrites; simp [he, hnlt, a, hf', b, hlen, hp]
            rw [hsp, hiw]
            simp only [coarse, Bool.false_eq_true, if_false, and_self, and_true]
            rw [afterGet_setm]
            exact inv_monoR hash (Nat.le_succ n) g1
          | some old =>
            have hsp : Spec.step {} x.t.m (.incr k d) =
                (AMap.set x.t.m k { ver := e.ver + 1, flag := Spec.FLAG_INCR, body := Spec.itoa (Spec.wrap64 (old + d)), ts := none },
                 .num (Spec.wrap64 (old + d))) := by
              unfold Spec.step; simp [he, hnlt, a, hf', b, hlen, hp]
            have hiw : incrWrites x.t.m k = true := by unfold incrWrites; simp [he, hnlt, a, hf', b, hlen, hp]
            rw [hsp, hiw]
            simp only [coarse, if_true, and_self, and_true]
            have hvb := inv.vers _ (CollideLemmas.lastOf_mem hl)
            exact ⟨incr_writeR hash hdf hcap k g1 hw size wts hsz (r.ver + 1) (e.ver + 1) _ (by omega) (by omega) (by simp only at hvb; omega), rfl⟩
    · have hle : r.ver ≤ 0 := by omega
      have hev : e.ver < 0 := by
        have : ¬ e.ver > 0 := fun c => hpos (h5.mpr c)
        omega
      have hiw : incrWrites x.t.m k = true := by unfold incrWrites; simp [he, hev]
      rw [spec_incr_write x.t.m k d (by rw [he]; exact hev), hiw, if_pos hle]
      simp only [coarse, if_true, and_self, and_true]
      exact ⟨incr_writeR hash hdf hcap k g1 hw size wts hsz 1 1 d (by omega) (by omega) (by simp), rfl⟩

/-- the dumper's round, with the bookkeeping -/
theorem dumpAll_r (n : Nat) (hs : Hints) (good : ∀ j, CkGood (hs.chunks j)) :
    (∀ j y, InCk ((hs.dumpAll n).chunks j) y ↔ InCk (hs.chunks j) y)
    ∧ (∀ a, isLarger a hs.maxDumped.1 hs.maxDumped.2 = true → isLarger a (hs.dumpAll n).maxDumped.1 (hs.dumpAll n).maxDumped.2 = true)
    ∧ (∀ j, (hs.chunks j).last.items = [] → ((hs.dumpAll n).chunks j).last.items = [])
    ∧ (∀ j sz, ((∀ sp ∈ (hs.chunks j).old, ∀ f, sp.file = some f → f.datasize ≤ sz) ∧ (hs.chunks j).last.maxoffset ≤ sz) →
         ((∀ sp ∈ ((hs.dumpAll n).chunks j).old, ∀ f, sp.file = some f → f.datasize ≤ sz) ∧ ((hs.dumpAll n).chunks j).last.maxoffset ≤ sz))
    ∧ (∀ j sz, ((∃ sp ∈ (hs.chunks j).old, ∃ f, sp.file = some f ∧ f.datasize = sz) ∨ ((hs.chunks j).last.items ≠ [] ∧ (hs.chunks j).last.maxoffset = sz)) →
         ((∃ sp ∈ ((hs.dumpAll n).chunks j).old, ∃ f, sp.file = some f ∧ f.datasize = sz)
           ∨ (((hs.dumpAll n).chunks j).last.items ≠ [] ∧ ((hs.dumpAll n).chunks j).last.maxoffset = sz))) := by
  unfold Hints.dumpAll
  induction n with
  | zero => exact ⟨fun _ _ => Iff.rfl, fun _ h => h, fun _ h => h, fun _ _ h => h, fun _ _ h => h⟩
  | succ n ih =>
    rw [List.range_succ, List.foldl_append]
    simp only [List.foldl_cons, List.foldl_nil]
    obtain ⟨i1, i2, i3, i4, i5⟩ := ih
    obtain ⟨d1, _, _, _⟩ := dumpAll_spec n hs good
    unfold Hints.dumpAll at d1
    generalize (List.range n).foldl (fun hs i => hs.trydump i false) hs = hs1 at i1 i2 i3 i4 i5 d1
    obtain ⟨t1, t2, _, t4, t5, t6⟩ := trydump_r hs1 n false (d1 n)
    obtain ⟨_, _, u3, _, _⟩ := trydump_spec hs1 n false (d1 n).ok
    refine ⟨?_, fun a h => t2 a (i2 a h), ?_, ?_, ?_⟩
    · intro j y
      by_cases hj : j = n
      · subst hj; rw [t1]; exact i1 j y
      · rw [u3 j hj]; exact i1 j y
    · intro j h
      by_cases hj : j = n
      · subst hj; exact t4 (i3 j h)
      · rw [u3 j hj]; exact i3 j h
    · intro j sz h
      by_cases hj : j = n
      · subst hj
        obtain ⟨a, b⟩ := i4 j sz h
        exact t5 sz a b
      · rw [u3 j hj]; exact i4 j sz h
    · intro j sz h
      by_cases hj : j = n
      · subst hj; exact t6 sz (i5 j sz h)
      · rw [u3 j hj]; exact i5 j sz h

/-- the invariant does not look at the flushed counters -/
theorem rinv_congr_b {cfg : Collide.Cfg} {st : State} {x : TrkR} {n : Nat} (inv : RInv hash cfg st x n) (b' : Bucket)
    (hr : ∀ i, (b'.chunks i).recs = (st.b.chunks i).recs) (hz : ∀ i, (b'.chunks i).size = (st.b.chunks i).size)
    (hh : b'.head = st.b.head) (ht : b'.tree = st.b.tree) : RInv hash cfg { st with b := b' } x n := by
  have hlog : b'.log = st.b.log := by
    rw [log_eq, log_eq, hh]
    apply flatMap_congr_range
    intro i _
    unfold recsAt
    rw [hr]
  have hra : ∀ p, b'.readAt p = st.b.readAt p := by
    intro p
    unfold Bucket.readAt Bucket.chunk Chunk.find
    rw [hr]
  refine { pos := ⟨?_, ?_⟩, ra := ?_, ob := ?_, spec := ?_, wr := ?_, vers := ?_, tab := ?_, tabc := inv.tabc, tabne := inv.tabne,
           slot := ?_, ownw := inv.ownw, own := ?_, hgood := inv.hgood, hmerged := inv.hmerged, hex := ?_, hmax := ?_,
           sound := ?_, dsok := ?_, dsfull := ?_, szpos := ?_, le := inv.le, tidle := inv.tidle, alld := inv.alld }
  · intro i o r hm
    show o < (b'.chunks i).size
    rw [hz]; exact inv.pos.below i o r (by rw [← hr]; exact hm)
  · intro i hi
    show (b'.chunks i).recs = [] ∧ (b'.chunks i).size = 0
    rw [hr, hz]; exact inv.pos.fresh i (by rw [← hh]; exact hi)
  · intro c o r hm
    show b'.readAt ⟨c, o⟩ = some r
    rw [hra]; exact inv.ra c o r (by rw [← hr]; exact hm)
  · intro c o r hm
    exact inv.ob c o r (by rw [← hr]; exact hm)
  · intro k; show LogSpec (lastOf k b'.log) _; rw [hlog]; exact inv.spec k
  · intro k; show _ ↔ (lastOf k b'.log).isSome = true; rw [hlog]; exact inv.wr k
  · intro y hy
    have hy' : y ∈ b'.log := hy
    rw [hlog] at hy'; exact inv.vers y hy'
  · intro h k it hg
    show _ ∧ _ ∧ _ ∧ _ ∧ ∃ r, lastOf k b'.log = _ ∧ _
    rw [hlog]; exact inv.tab h k it hg
  · intro h ti hti
    have hti' : AMap.get b'.tree h = some ti := hti
    show ∃ o r, _ ∧ b'.readAt ti.pos = some r ∧ _ ∧ (ti.pos, r) ∈ b'.log ∧ _ ∧ (_ → lastOf o b'.log = _) ∧ _
    rw [hlog]; rw [ht] at hti'
    obtain ⟨o, r, a1, a2, a3, a4, a5, a6, a7⟩ := inv.slot h ti hti'
    exact ⟨o, r, a1, by rw [hra]; exact a2, a3, a4, a5, a6, a7⟩
  · intro k hk hc
    show ∃ ti, AMap.get b'.tree (hash k) = some ti
    rw [ht]
    apply inv.own k hk
    rcases hc with hc | ⟨hc1, p, r, hc2, hc3⟩
    · exact Or.inl hc
    · have hc2' : lastOf k b'.log = some (p, r) := hc2
      rw [hlog] at hc2'
      exact Or.inr ⟨hc1, p, r, hc2', hc3⟩
  · intro c k
    show HintAt hash k _ (lastIn k (b'.chunks c).recs)
    rw [hr]; exact inv.hex c k
  · intro hrs c hne
    have hne' : (b'.chunks c).recs ≠ [] := hne
    rw [hr] at hne'; exact inv.hmax hrs c hne'
  · intro c y hy
    obtain ⟨r, a1, a2, a3, a4⟩ := inv.sound c y hy
    exact ⟨r, by show (y.off, r) ∈ (b'.chunks c).recs; rw [hr]; exact a1, a2, a3, a4⟩
  · intro c
    show _ ∧ _ ≤ (b'.chunks c).size
    rw [hz]; exact inv.dsok c
  · intro c hne
    have hne' : (b'.chunks c).recs ≠ [] := hne
    rw [hr] at hne'
    show _ ∨ (_ ∧ _ = (b'.chunks c).size)
    rw [hz]; exact inv.dsfull c hne'
  · intro c hzp
    have hzp' : (b'.chunks c).size > 0 := hzp
    show (b'.chunks c).recs ≠ []
    rw [hr]; rw [hz] at hzp'; exact inv.szpos c hzp'

theorem flush_safeR {cfg : Collide.Cfg} {st : State} {x : TrkR} {n : Nat} (inv : RInv hash cfg st x n) :
    StepOKR hash cfg st x n .flush x := by
  unfold StepOKR
  simp only [Collide.cmdOf, Collide.step, and_true]
  apply inv_monoR hash (Nat.le_succ n)
  apply rinv_congr_b hash inv
  · intro i
    unfold Bucket.chunk
    rw [chunks_setChunk]
    by_cases h : i = st.b.head
    · subst h; simp
    · simp [h]
  · intro i
    unfold Bucket.chunk
    rw [chunks_setChunk]
    by_cases h : i = st.b.head
    · subst h; simp
    · simp [h]
  · rfl
  · rfl

theorem dump_safeR {cfg : Collide.Cfg} {st : State} {x : TrkR} {n : Nat} (inv : RInv hash cfg st x n) :
    StepOKR hash cfg st x n .hintDump x := by
  unfold StepOKR
  simp only [Collide.cmdOf, Collide.step, and_true]
  obtain ⟨d1, d2, d3, d4⟩ := dumpAll_spec (st.b.head + 1) st.hs inv.hgood
  obtain ⟨e1, e2, e3, e4, e5⟩ := dumpAll_r (st.b.head + 1) st.hs inv.hgood
  apply inv_monoR hash (Nat.le_succ n)
  exact { pos := inv.pos, ra := inv.ra, ob := inv.ob, spec := inv.spec, wr := inv.wr, vers := inv.vers, tab := inv.tab,
          tabc := inv.tabc, tabne := inv.tabne, slot := inv.slot, ownw := inv.ownw, own := inv.own, hgood := d1,
          hmerged := by show (st.hs.dumpAll (st.b.head + 1)).merged = none; rw [d4]; exact inv.hmerged,
          hex := fun c k => by
            show HintAt hash k (((st.hs.dumpAll (st.b.head + 1)).chunks c).get (hash k) k) _
            rw [d2]; exact inv.hex c k,
          hmax := fun hr c hne => by
            show c ≤ (st.hs.dumpAll (st.b.head + 1)).maxChunk
            rw [d3]; exact inv.hmax hr c hne,
          sound := fun c y hy => inv.sound c y ((e1 c y).mp hy),
          dsok := fun c => e4 c _ (inv.dsok c),
          dsfull := fun c hne => e5 c _ (inv.dsfull c hne), szpos := inv.szpos,
          le := fun c hgt => by
            have hgt' : c > (st.hs.dumpAll (st.b.head + 1)).maxChunk := hgt
            rw [d3] at hgt'
            exact e3 c (inv.le c hgt'),
          tidle := e2 _ inv.tidle, alld := inv.alld }

end
end CollideLemmas
