/-
  GC beside clients: the history invariant `HInv` is preserved by the remaining scheduler decisions: an invocation, a
  failing get, a GC micro-step (GC IS INVISIBLE: no entry, no register changes; a position a reader holds either
  keeps its record or its chunk is dead from now on), the start and the cancellation of the pass.  Core-only.
-/
import GoBeans.Lemmas.ConcGCHistStep

namespace ConcGC
open ConcFine
open Conc (AOp Out Ev Reg regStep)

theorem hinv_invoke {s : State} {b' : ConcFine.State} {t : Nat} {op : Op} (hi : HInv s)
    (h : invoke s.base t op = some b') : HInv ({ s with base := b' } : State).tick := by
  obtain ⟨pc, rfl, _, _, _, hidle⟩ := invoke_eq h
  refine hist_sameP (P := Pend s) t hi rfl rfl (by intro u hu; simp [hu]) (by intro _; simp) (fun u _ o hp => hp)
    (fun k => rfl) ?_
  intro out hp; rw [hidle] at hp; exact False.elim (pend_nonreader rfl hp)

theorem hinv_readFail {s : State} {t : Nat} (hi : HInv s)
    (hpc : (∃ k it, (s.base.thr t).pc = .rBuf k it) ∨ ∃ k it, (s.base.thr t).pc = .rFile k it) :
    HInv (readFail s t).tick := by
  refine hist_dropP (P := Pend s) t hi rfl rfl (by intro u hu; simp [readFail, hu]) (by simp [readFail])
    (fun u _ o hp => hp) (fun k => rfl) ?_
  intro e he het hd
  have hp := hi.pend e he hd
  rw [het] at hp
  rcases hp with hp | ⟨_, _, _, hg⟩
  · rcases hpc with ⟨k, it, h⟩ | ⟨k, it, h⟩
    · rw [h] at hp; obtain ⟨r, _, _, h3⟩ := hp; exact ⟨_, _, h3⟩
    · rw [h] at hp; obtain ⟨r, _, _, _, h3⟩ := hp; exact ⟨_, _, h3⟩
  · exact hg

/-- a chunk the pass has emptied stays emptied -/
theorem gmicro_dead_mono {cfg : GCfg} {s s' : State} (h : gmicro cfg s = some s') (c : Nat) (hd : Dead s c) : Dead s' c := by
  obtain ⟨d1, d2, d3⟩ := hd
  obtain ⟨c1, _, c3⟩ := gmicro_const h
  refine ⟨by rw [c1]; exact d1, by rw [c3]; exact d2, ?_⟩
  cases hpc : s.gc.pc with
  | gFileDone =>
    simp only [gmicro, hpc] at h
    obtain rfl := Option.some.inj h
    left; show c < s.gc.src + 1
    rcases d3 with d3 | ⟨d3, _⟩ <;> omega
  | gBegin =>
    simp only [gmicro, hpc, beginW] at h
    obtain rfl := Option.some.inj h
    rw [hpc] at d3; simp at d3
    left; split <;> exact d3
  | gBeginW r f =>
    simp only [gmicro, hpc, beginW] at h
    obtain rfl := Option.some.inj h
    rw [hpc] at d3; simp at d3
    left; split <;> exact d3
  | gEndW r f =>
    simp only [gmicro, hpc, endW] at h
    obtain rfl := Option.some.inj h
    rw [hpc] at d3; simp at d3
    left; split <;> exact d3
  | gFinal =>
    simp only [gmicro, hpc, endW] at h
    obtain rfl := Option.some.inj h
    rw [hpc] at d3; simp at d3
    left; simp only [State.gcGoto]; split <;> exact d3
  | gCheck r =>
    rw [hpc] at d3; simp at d3
    simp only [gmicro, hpc, afterCheck] at h
    repeat' (split at h)
    all_goals (obtain rfl := Option.some.inj h; left; exact d3)
  | gFile =>
    rw [hpc] at d3; simp at d3
    simp only [gmicro, hpc] at h
    repeat' (split at h)
    all_goals (obtain rfl := Option.some.inj h; left; first | exact d3 | (show c < s.gc.src + 1; omega))
  | _ =>
    rw [hpc] at d3; simp at d3
    simp only [gmicro, hpc] at h
    repeat' (split at h)
    all_goals (first | contradiction | (obtain rfl := Option.some.inj h; left; exact d3))

theorem gmicro_keeps_file {cfg : GCfg} {s s' : State} (hc : GCtl s) (hk : GChk s) (hz : noHaz s')
    (h : gmicro cfg s = some s') (c : Nat) (r : Rec) (hr : r ∈ (s.base.chunks c).file)
    (hne : ¬ (s.gc.pc = .gRemove ∧ c = s.gc.src)) : r ∈ (s'.base.chunks c).file := by
  rcases gmicro_chunk_cases hc hk hz h with h1 | ⟨r0, f, off, hpc, _, _, h1⟩ | ⟨hpc, h1⟩
  · rw [(h1 c).1]; exact hr
  · rw [(h1 c).2]
    by_cases hcd : c = s.gc.dst
    · subst hcd; simp only [if_true]; exact List.mem_append_left _ hr
    · simp only [hcd, if_false]; exact hr
  · rw [(h1 c).2]
    have hcs : c ≠ s.gc.src := fun e => hne ⟨hpc, e⟩
    simp only [hcs, if_false]; exact hr

theorem gmicro_remove_dead {cfg : GCfg} {s s' : State} (hc : GCtl s) (h : gmicro cfg s = some s')
    (hpc : s.gc.pc = .gRemove) : Dead s' s.gc.src := by
  have hst : s.gc.started = true := by
    cases hs : s.gc.started with
    | true => rfl
    | false => rw [hc.idle hs] at hpc; cases hpc
  simp only [gmicro, hpc] at h
  obtain rfl := Option.some.inj h
  exact ⟨hst, (hc.src hst).1, Or.inr ⟨rfl, rfl⟩⟩

/-- what a linearised thread is waiting for survives a GC micro-step — or its chunk is dead from now on -/
theorem pend_gmicro {cfg : GCfg} {s s' : State} (hc : GCtl s) (hk : GChk s) (hz : noHaz s')
    (h : gmicro cfg s = some s') {pc : PC} {o : Out} (hp : Pend s pc o) : Pend s' pc o := by
  rcases hp with hp | ⟨c, hcc, hd, hg⟩
  · cases pc with
    | rBuf k it =>
      obtain ⟨r, h1, h2, h3⟩ := hp
      by_cases hne : s.gc.pc = .gRemove ∧ it.pos.chunk = s.gc.src
      · right
        refine ⟨it.pos.chunk, rfl, ?_, _, _, h3⟩
        rw [hne.2]; exact gmicro_remove_dead hc h hne.1
      · left; exact ⟨r, ⟨gmicro_keeps hc hk hz h _ r h1.1 hne, h1.2⟩, h2, h3⟩
    | rFile k it =>
      obtain ⟨r, h1, h2, h3, h4⟩ := hp
      by_cases hne : s.gc.pc = .gRemove ∧ it.pos.chunk = s.gc.src
      · right
        refine ⟨it.pos.chunk, rfl, ?_, _, _, h4⟩
        rw [hne.2]; exact gmicro_remove_dead hc h hne.1
      · left; exact ⟨r, gmicro_keeps_file hc hk hz h _ r h1 hne, h2, h3, h4⟩
    | wUnlock k o' => left; exact hp
    | rRet k => left; exact hp
    | _ => exact False.elim hp
  · right; exact ⟨c, hcc, gmicro_dead_mono h c hd, hg⟩

theorem hinv_gmicro {cfg : GCfg} {s s' : State} (hb : cfg.blind = false) (hI : SInv s) (hI' : SInv s') (hi : HInv s)
    (hz : noHaz s') (h : gmicro cfg s = some s') : HInv s'.tick := by
  obtain ⟨t1, _, t3, t4, _⟩ := gmicro_thr h
  have hreg := gmicro_absReg hb hI.ctl hI.chk hI.tr hI.data hz h (readable_sinv hI) (readable_sinv hI')
  refine hist_sameP (P := Pend s) (P' := Pend s') 0 hi t3 t4 (fun u _ => by rw [t1]) ?_
    (fun u _ o hp => pend_gmicro hI.ctl hI.chk hz h hp) hreg ?_
  · intro hne
    rw [t1] at hne ⊢
    have := hi.inv 0 hne; omega
  · intro o hp; rw [t1]; exact pend_gmicro hI.ctl hI.chk hz h hp

end ConcGC
