/-
  Reply round trip (C11), part 4: from `Resp.write` to the bytes on the wire and back through `readResp`.
  For every reply `r` and every byte string `w` that `Response.Write` may emit for it (`r.Wire w`):
  `readResp` of `w ++ rest` gives the parsed form of `r` and leaves exactly `rest`.
-/
import GoBeans.Lemmas.ProtoRespLine

namespace Proto

theorem perm_map_inv {α β : Type} (f : α → β) {l l2 : List β} (h : l.Perm l2) :
    ∀ m : List α, l2 = m.map f → ∃ m' : List α, m'.Perm m ∧ l = m'.map f := by
  induction h with
  | nil => intro m hm; exact ⟨[], by cases m <;> simp_all, rfl⟩
  | cons x _ ih =>
    intro m hm
    cases m with
    | nil => simp at hm
    | cons a m0 =>
      simp only [List.map_cons, List.cons.injEq] at hm
      obtain ⟨m', hp, he⟩ := ih m0 hm.2
      exact ⟨a :: m', hp.cons a, by simp [hm.1, he]⟩
  | swap x y l =>
    intro m hm
    cases m with
    | nil => simp at hm
    | cons a m1 =>
      cases m1 with
      | nil => simp at hm
      | cons b m0 =>
        simp only [List.map_cons, List.cons.injEq] at hm
        exact ⟨b :: a :: m0, List.Perm.swap a b m0, by simp [hm.1, hm.2.1, hm.2.2]⟩
  | trans _ _ ih1 ih2 =>
    intro m hm
    obtain ⟨m1, hp1, he1⟩ := ih2 m hm
    obtain ⟨m2, hp2, he2⟩ := ih1 m1 he1
    exact ⟨m2, hp2.trans hp1, he2⟩

/-! ### the tail-only replies -/

theorem wire_tail_only {r : Resp} {w : Bytes} (h0 : r.write.1 = []) (hw : r.Wire w) : SegsBytes r.write.2 w := by
  obtain ⟨blocks, tl, hp, _, htl, rfl⟩ := hw
  rw [h0] at hp
  have : blocks = [] := by
    have := hp.eq_nil
    cases blocks with
    | nil => rfl
    | cons b bs => simp at this
  subst this
  simpa using htl

theorem wire_line {status msg w : Bytes} (hw : (Resp.line status msg).Wire w) : w = lineWire status msg :=
  (wire_tail_only rfl hw).single_lit_inv

theorem wire_num {msg w : Bytes} (hw : (Resp.num msg).Wire w) : w = numWire msg :=
  (wire_tail_only rfl hw).single_lit_inv

/-- STORED, NOT_STORED, DELETED, NOT_FOUND, OK (and a bare END): the same status comes back -/
theorem readResp_wire_line_end (cfg : Cfg) (status w : Bytes) (hs : status ∈ endStatuses)
    (hw : (Resp.line status []).Wire w) (rest : Bytes) (fuel : Nat) (hf : 1 ≤ fuel) :
    readResp cfg fuel (w ++ rest) [] = some ({ status := status, msg := [], items := [] }, rest) := by
  obtain ⟨f, rfl⟩ : ∃ f, fuel = f + 1 := ⟨fuel - 1, by omega⟩
  rw [wire_line hw]; exact readResp_line_end cfg f status rest [] hs

/-- ERROR, CLIENT_ERROR, SERVER_ERROR, VERSION: the same status and the same message come back
    (a message is words separated by single spaces, or empty) -/
theorem readResp_wire_line_msg (cfg : Cfg) (status : Bytes) (toks : List Bytes) (w : Bytes) (hs : status ∈ msgStatuses)
    (ht : ∀ t ∈ toks, Tok t) (hw : (Resp.line status (joinSp toks)).Wire w) (rest : Bytes) (fuel : Nat) (hf : 1 ≤ fuel) :
    readResp cfg fuel (w ++ rest) [] = some ({ status := status, msg := joinSp toks, items := [] }, rest) := by
  obtain ⟨f, rfl⟩ : ∃ f, fuel = f + 1 := ⟨fuel - 1, by omega⟩
  rw [wire_line hw]; exact readResp_line_msg cfg f status toks rest [] hs ht

/-- the number an `incr` replies with: status INCR, the same digits -/
theorem readResp_wire_num (cfg : Cfg) (v : Int) (hv : I64 v) (w : Bytes) (hw : (Resp.num (itoa v)).Wire w)
    (rest : Bytes) (fuel : Nat) (hf : 1 ≤ fuel) :
    readResp cfg fuel (w ++ rest) [] = some ({ status := ascii "INCR", msg := itoa v, items := [] }, rest) := by
  obtain ⟨f, rfl⟩ : ∃ f, fuel = f + 1 := ⟨fuel - 1, by omega⟩
  rw [wire_num hw]; exact readResp_num cfg f v hv rest []

/-- the class `Response.Read` refuses: a status word outside its table ("none", the reply of `optimize_stat`) -/
theorem readResp_wire_none_refused (cfg : Cfg) (w : Bytes) (hw : (Resp.line (ascii "none") []).Wire w)
    (rest : Bytes) (fuel : Nat) : readResp cfg fuel (w ++ rest) [] = none := by
  rw [wire_line hw]; exact readResp_none_refused cfg fuel rest []

/-! ### VALUE replies -/

/-- the rendered body of an item has the length its header announces -/
def RItem.LenOK (it : RItem) : Prop := ∀ b, SegsBytes it.body b → b.length = it.len

/-- what the round trip needs of an item: a token as key, int64 numbers, a length within BodyMax, an honest length -/
def RItem.OK (cfg : Cfg) (it : RItem) : Prop :=
  Tok it.key ∧ I64 it.flag ∧ I64 it.cas ∧ it.len ≤ cfg.bodyMax ∧ it.LenOK

/-- `ps` are the items `its` as they travel: same key, flag, cas, in the same order, and a body the item's segments
    stand for (for a literal body: exactly those bytes, `Carries_lit`) -/
def Carries : List RItem → List PItem → Prop
  | [], [] => True
  | it :: its, p :: ps => (p.key = it.key ∧ p.flag = it.flag ∧ p.cas = it.cas ∧ SegsBytes it.body p.body) ∧ Carries its ps
  | _, _ => False

def valueSegs (cas : Bool) (it : RItem) : List Seg :=
  [Seg.lit (ascii "VALUE " ++ it.key ++ sp ++ itoa it.flag ++ sp ++ itoa it.len ++ (if cas then sp ++ itoa it.cas else []) ++ crlf)]
    ++ it.body ++ [Seg.lit crlf]

theorem write_value (cas : Bool) (items : List RItem) :
    (Resp.value cas items).write = (items.map (valueSegs cas), [Seg.lit endLine]) := rfl

theorem valueSegs_bytes (cas : Bool) (it : RItem) (x : Bytes) (h : SegsBytes (valueSegs cas it) x) (hl : it.LenOK) :
    ∃ p : PItem, p.key = it.key ∧ p.flag = it.flag ∧ p.cas = it.cas ∧ SegsBytes it.body p.body ∧ p.body.length = it.len
      ∧ x = valueBlock cas p := by
  unfold valueSegs at h
  obtain ⟨b12, b3, h12, h3, rfl⟩ := SegsBytes.append_inv h
  obtain ⟨b1, b2, h1, h2, rfl⟩ := SegsBytes.append_inv h12
  have e1 := h1.single_lit_inv
  have e3 := h3.single_lit_inv
  refine ⟨{ key := it.key, flag := it.flag, cas := it.cas, body := b2 }, rfl, rfl, rfl, h2, hl b2 h2, ?_⟩
  have hv : ascii "VALUE " = ascii "VALUE" ++ sp := by decide
  rw [e1, e3, valueBlock, valueHead, hl b2 h2, hv]
  cases cas <;> simp [joinSp, List.append_assoc]

theorem blocks_value (cas : Bool) (blocks : List (List Seg × Bytes)) :
    ∀ its : List RItem, blocks.map (·.1) = its.map (valueSegs cas) → (∀ p ∈ blocks, SegsBytes p.1 p.2) →
      (∀ it ∈ its, it.LenOK) →
      ∃ ps : List PItem, Carries its ps ∧ (∀ p ∈ ps, ∃ it ∈ its, p.key = it.key ∧ p.flag = it.flag ∧ p.cas = it.cas ∧ p.body.length = it.len)
        ∧ ps.length = its.length ∧ (blocks.map (·.2)).flatten = (ps.map (valueBlock cas)).flatten := by
  induction blocks with
  | nil =>
    intro its hm _ _
    cases its with
    | nil => exact ⟨[], trivial, by simp, rfl, rfl⟩
    | cons _ _ => simp at hm
  | cons b bs ih =>
    intro its hm hb hl
    cases its with
    | nil => simp at hm
    | cons it its0 =>
      simp only [List.map_cons, List.cons.injEq] at hm
      obtain ⟨ps, hc, hmem, hlen, hfl⟩ := ih its0 hm.2 (fun p hp => hb p (by simp [hp])) (fun i hi => hl i (by simp [hi]))
      have hb0 := hb b (by simp)
      rw [hm.1] at hb0
      obtain ⟨p, k1, k2, k3, k4, k5, k6⟩ := valueSegs_bytes cas it b.2 hb0 (hl it (by simp))
      refine ⟨p :: ps, ⟨⟨k1, k2, k3, k4⟩, hc⟩, ?_, by simp [hlen], by simp [k6, hfl]⟩
      intro q hq
      rcases List.mem_cons.mp hq with rfl | hq
      · exact ⟨it, by simp, k1, k2, k3, k5⟩
      · obtain ⟨i, hi, h⟩ := hmem q hq
        exact ⟨i, by simp [hi], h⟩

/-- **VALUE replies, any order of the blocks**: the items come back — key, flag, cas (0 when the reply carries none),
    body byte for byte — collected by `putItem` in the order they travelled, and exactly the reply's bytes are consumed.
    Fuel: number of items + 1. -/
theorem readResp_wire_value (cfg : Cfg) (hmax : cfg.bodyMax < 9223372036854775808) (cas : Bool) (items : List RItem)
    (hit : ∀ it ∈ items, it.OK cfg) (w : Bytes) (hw : (Resp.value cas items).Wire w) :
    ∃ (its : List RItem) (ps : List PItem), its.Perm items ∧ Carries its ps ∧
      ∀ (rest : Bytes) (fuel : Nat) (acc : List PItem), items.length + 1 ≤ fuel →
        readResp cfg fuel (w ++ rest) acc
          = some ({ status := ascii "END", msg := [], items := (ps.map (PItem.norm cas)).foldl putItem acc }, rest) := by
  obtain ⟨blocks, tl, hp, hb, htl, rfl⟩ := hw
  rw [write_value] at hp htl
  obtain ⟨its, hperm, hmap⟩ := perm_map_inv (valueSegs cas) hp items rfl
  have hits : ∀ it ∈ its, it.OK cfg := fun it h => hit it (hperm.mem_iff.mp h)
  obtain ⟨ps, hc, hmem, hlen, hfl⟩ := blocks_value cas blocks its hmap hb (fun it h => (hits it h).2.2.2.2)
  refine ⟨its, ps, hperm, hc, ?_⟩
  intro rest fuel acc hf
  have hps : ∀ p ∈ ps, ItemOK cfg p := by
    intro p hp
    obtain ⟨it, hi, k1, k2, k3, k5⟩ := hmem p hp
    obtain ⟨o1, o2, o3, o4, _⟩ := hits it hi
    exact ⟨by rw [k1]; exact o1, by rw [k2]; exact o2, by rw [k3]; exact o3, by rw [k5]; exact o4⟩
  have := readResp_values cfg hmax cas ps hps rest fuel (by rw [hlen, hperm.length_eq]; exact hf) acc
  rw [htl.single_lit_inv, hfl]
  exact this

end Proto
