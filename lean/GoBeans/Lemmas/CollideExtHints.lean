/-
  C13 (a), hint side: with a key hash injective on the keys in use no hint buffer ever reports a collision
  (`getItemCollision_nocoll`), whatever sequence of setItem / trydump / rotate / clear the bucket went through.
-/
import GoBeans.Lemmas.CollideHints
set_option linter.unusedSimpArgs false
set_option linter.unusedVariables false
namespace CollideLemmas
open Store Spec HintIndex Collide HintBufferLemmas HintLoadLemmas HintIndexLemmas StoreLemmas

section
variable (hash : Key → Nat) (K : Key → Prop)

def BufOK (b : Buf) : Prop := BufInv b ∧ Keyed hash K b.items

def SplitNC (sp : HSplit) : Prop := (∀ b, sp.buf = some b → BufOK hash K b) ∧ (∀ f, sp.file = some f → Keyed hash K f.items)

def CkNC (ck : HCk) : Prop := BufOK hash K ck.last ∧ ∀ sp ∈ ck.old, SplitNC hash K sp

def HsNC (hs : Hints) : Prop := ∀ c, CkNC hash K (hs.chunks c)

theorem bufOK_empty : BufOK hash K {} := ⟨bufInv_empty, fun it hit => by cases hit⟩

theorem set_mem (cap : Nat) (b : Buf) (hb : BufInv b) (it : Item) (sz : Nat) {x : Item}
    (hx : x ∈ (b.set cap it sz).1.items) : x ∈ b.items ∨ x = it := by
  obtain ⟨e1, _⟩ := set_items cap b hb it sz
  rw [e1] at hx
  cases hs : slotSet cap b.items it with
  | none => rw [hs] at hx; exact Or.inl hx
  | some items' =>
    rw [hs] at hx
    have hp := slotSet_perm hb.nodup hs
    have := hp.subset hx
    rw [List.mem_append] at this
    rcases this with h | h
    · exact Or.inl (List.mem_filter.mp h).1
    · exact Or.inr (by simpa using h)

theorem bufOK_set (cap : Nat) (b : Buf) (hb : BufOK hash K b) (it : Item) (sz : Nat) (hit : it.khash = hash it.key ∧ K it.key) :
    BufOK hash K (b.set cap it sz).1 := by
  refine ⟨set_inv cap b hb.1 it sz, ?_⟩
  intro x hx
  rcases set_mem cap b hb.1 it sz hx with h | h
  · exact hb.2 x h
  · rw [h]; exact hit

theorem ckNC_setItem (cap : Nat) (ck : HCk) (h : CkNC hash K ck) (it : Item) (sz : Nat) (hit : it.khash = hash it.key ∧ K it.key) :
    CkNC hash K (ck.setItem cap it sz).1 := by
  unfold HCk.setItem
  simp only
  by_cases ha : (ck.last.set cap it sz).2 = true
  · rw [if_pos ha]
    exact ⟨bufOK_set hash K cap _ h.1 it sz hit, h.2⟩
  · rw [if_neg ha]
    refine ⟨bufOK_set hash K cap _ (bufOK_empty hash K) it sz hit, ?_⟩
    intro sp hsp
    rw [List.mem_append] at hsp
    rcases hsp with h0 | h0
    · exact h.2 sp h0
    · simp only [List.mem_singleton] at h0
      subst h0
      refine ⟨?_, fun f hf => by cases hf⟩
      intro b hb
      simp only [Option.some.injEq] at hb
      subst hb
      exact bufOK_set hash K cap _ h.1 it sz hit

theorem splitNC_dumpIf {sp : HSplit} (h : SplitNC hash K sp) : SplitNC hash K (dumpIf sp) := by
  unfold dumpIf
  by_cases hn : sp.needDump = true
  · rw [if_pos hn]
    unfold HSplit.dumped
    cases hb : sp.buf with
    | none => simp only; exact h
    | some b =>
      simp only
      refine ⟨fun b' hb' => (by cases hb'), ?_⟩
      intro f hf
      simp only [Option.some.injEq] at hf
      subst hf
      intro x hx
      have : x ∈ sortItems b.items := hx
      exact (h.1 b hb).2 x ((sortItems_perm _).subset this)
  · rw [if_neg hn]; exact h

theorem hsNC_trydump (hs : Hints) (h : HsNC hash K hs) (c : Nat) (dl : Bool) : HsNC hash K (hs.trydump c dl) := by
  intro j
  unfold Hints.trydump
  simp only
  have e1 := dumpOldGo_fst c (hs.chunks c).old 0 hs.maxDumped
  have hold : ∀ sp ∈ (hs.chunks c).old.map dumpIf, SplitNC hash K sp := by
    intro sp hsp
    rw [List.mem_map] at hsp
    obtain ⟨s0, hs0, rfl⟩ := hsp
    exact splitNC_dumpIf hash K ((h c).2 s0 hs0)
  split
  · simp only [setCk_chunks]
    by_cases hj : j = c
    · rw [if_pos hj, e1]; exact ⟨(h c).1, hold⟩
    · rw [if_neg hj]; exact h j
  · simp only [setCk_chunks]
    by_cases hj : j = c
    · rw [if_pos hj, e1]
      refine ⟨bufOK_empty hash K, ?_⟩
      intro sp hsp
      rw [List.mem_append] at hsp
      rcases hsp with h0 | h0
      · exact hold sp h0
      · simp only [List.mem_singleton] at h0
        subst h0
        refine ⟨fun b hb => (by cases hb), ?_⟩
        intro f hf
        simp only [Option.some.injEq] at hf
        subst hf
        intro x hx
        have : x ∈ sortItems (hs.chunks c).last.items := hx
        exact (h c).1.2 x ((sortItems_perm _).subset this)
    · rw [if_neg hj]; exact h j

theorem hsNC_setCk (hs : Hints) (h : HsNC hash K hs) (c : Nat) (ck : HCk) (hck : CkNC hash K ck) : HsNC hash K (hs.setCk c ck) := by
  intro j
  rw [setCk_chunks]
  by_cases hj : j = c
  · rw [if_pos hj]; exact hck
  · rw [if_neg hj]; exact h j

theorem hsNC_setItem (cap : Nat) (hs : Hints) (h : HsNC hash K hs) (it : Item) (c : Nat) (sz : Nat)
    (hit : it.khash = hash it.key ∧ K it.key) : HsNC hash K (hs.setItem cap it c sz).1 := by
  unfold Hints.setItem
  simp only
  have h1 := hsNC_setCk hash K hs h c _ (ckNC_setItem hash K cap (hs.chunks c) (h c) it sz hit)
  intro j
  split
  · exact hsNC_trydump hash K _ h1 c false j
  · exact h1 j

theorem hsNC_dumpAll (n : Nat) (hs : Hints) (h : HsNC hash K hs) : HsNC hash K (hs.dumpAll n) := by
  unfold Hints.dumpAll
  induction n with
  | zero => exact h
  | succ n ih =>
    rw [List.range_succ, List.foldl_append]
    exact hsNC_trydump hash K _ ih n false

theorem ckNC_rotate (ck : HCk) (h : CkNC hash K ck) : CkNC hash K ck.rotate := by
  unfold HCk.rotate
  refine ⟨bufOK_empty hash K, ?_⟩
  intro sp hsp
  rw [List.mem_append] at hsp
  rcases hsp with h0 | h0
  · exact h.2 sp h0
  · simp only [List.mem_singleton] at h0
    subst h0
    exact ⟨fun b hb => by simp only [Option.some.injEq] at hb; subst hb; exact h.1, fun f hf => by cases hf⟩

theorem ckNC_empty : CkNC hash K {} := ⟨bufOK_empty hash K, fun sp hsp => by cases hsp⟩

/-- a buffer whose items carry the hashes of their own keys never reports a collision for a key in use -/
theorem bufGet_nocoll (hInj : InjOn hash K) (b : Buf) (hb : BufOK hash K b) (k : Key) (hk : K k) : (bufGet b (hash k) k).2 = false := by
  unfold bufGet Buf.isColl Buf.key0 Buf.idx0
  simp only
  cases hi : AMap.get b.index (probe (hash k) k).khash with
  | none => simp
  | some i =>
    obtain ⟨x, hx, hxk⟩ := hb.1.idxSound _ _ hi
    have hxm : x ∈ b.items := List.mem_of_getElem? hx
    obtain ⟨k1, k2⟩ := hb.2 x hxm
    have hgd : b.items.getD i default = x := by rw [List.getD_eq_getElem?_getD, hx]; rfl
    have : x.key = k := hInj _ _ k2 hk (by rw [← k1, hxk]; rfl)
    simp only [Option.getD_some, hgd, Option.isSome_some, Bool.true_and]
    simp [probe, this]

theorem ckCollGo_nocoll (hInj : InjOn hash K) (k : Key) (hk : K k) (l : List (Option Buf)) (hl : ∀ b, some b ∈ l → BufOK hash K b) :
    (ckCollGo (hash k) k l false).2.1 = false := by
  induction l with
  | nil => rfl
  | cons o rest ih =>
    cases o with
    | none => rfl
    | some b =>
      unfold ckCollGo
      have hc := bufGet_nocoll hash K hInj b (hl b (by simp)) k hk
      cases hg : bufGet b (hash k) k with
      | mk it c =>
        rw [hg] at hc
        simp only at hc
        subst hc
        cases it with
        | some x => rfl
        | none => exact ih (fun b' hb' => hl b' (by simp [hb']))

theorem getItemCollision_nocoll (hInj : InjOn hash K) (hs : Hints) (h : HsNC hash K hs) (k : Key) (hk : K k) :
    (hs.getItemCollision (hash k) k).2.2 = false := by
  unfold Hints.getItemCollision
  generalize hs.maxChunk + 1 = n
  have key : ∀ n acc, acc.2.2 = false → (getItemCollGo hs (hash k) k n acc).2.2 = false := by
    intro n
    induction n with
    | zero => intro acc ha; exact ha
    | succ i ih =>
      intro acc ha
      unfold getItemCollGo
      simp only
      have hc : ((hs.chunks i).getItemCollision (hash k) k).2.1 = false := by
        unfold HCk.getItemCollision
        apply ckCollGo_nocoll hash K hInj k hk
        intro b hb
        simp only [List.mem_cons, Option.some.injEq, List.mem_map, List.mem_reverse] at hb
        rcases hb with hb | ⟨sp, hsp, hb⟩
        · rw [hb]; exact (h i).1
        · exact ((h i).2 sp hsp).1 b hb
      rw [hc]
      simp only [Bool.false_or]
      split
      · rfl
      · exact ih _ rfl
  exact key n _ rfl

end
end CollideLemmas
