/-
  GC beside clients, fine-grained model (Model/ConcGC.lean): basic lemmas.
    * the destination chosen by `pickDst` lies at or below the start of the range;
    * a write at the end of a contiguous file is an append; reading a chunk with an empty write buffer goes to the file;
    * `Readable`: what the reader's two micro-steps find for a stored record (holds for `ChunkOK` chunks and for the
      chunks GC owns);
    * what a GC micro-step can change in the embedded client state (`gmicro_frame`).
  Core-only.
-/
import GoBeans.Model.ConcGC
import GoBeans.Lemmas.ConcFineHist

namespace ConcGC
open ConcFine

theorem pickDstAux_le (cfg : GCfg) (ch : Nat → Chunk) (start : Nat) : ∀ i, i ≤ start → pickDstAux cfg ch start i ≤ start := by
  intro i
  induction i with
  | zero => intro _; simp [pickDstAux]
  | succ i ih =>
    intro h
    simp only [pickDstAux]
    split
    · split
      · omega
      · split <;> omega
    · exact ih (by omega)

theorem pickDst_le (cfg : GCfg) (ch : Nat → Chunk) (start : Nat) : pickDst cfg ch start ≤ start :=
  pickDstAux_le cfg ch start start (Nat.le_refl _)

/-- in a contiguous file nothing overlaps a write at its end -/
theorem filter_no_overlap (l : List Rec) (a b : Nat) (h : Contig a l b) (sz : Nat) :
    l.filter (fun x => !overlaps x b sz) = l := by
  rw [List.filter_eq_self]
  intro x hx
  have := contig_mem l a b h x hx
  simp only [overlaps, Bool.not_eq_eq_eq_not, Bool.not_true, decide_eq_false_iff_not]
  omega

theorem writeAt_end (ch : Chunk) (r : Rec) (h : Contig 0 ch.file ch.fsize) :
    writeAt ch ch.fsize r = { ch with file := ch.file ++ [{ r with off := ch.fsize }], fsize := ch.fsize + r.size } := by
  unfold writeAt
  rw [filter_no_overlap _ _ _ h]
  congr 1
  omega

theorem bufLookup_nobuf (ch : Chunk) (off : Nat) (h : ch.wbuf = []) : bufLookup ch off = .miss := by
  unfold bufLookup; rw [h]

theorem lookup_nobuf (ch : Chunk) (off : Nat) (h : ch.wbuf = []) : lookup ch off = fileLookup ch off := by
  unfold lookup; rw [bufLookup_nobuf ch off h]

/-- what the reader's code path (buffer test under the chunk lock, else the file) finds for every stored record -/
def Readable (ch : Chunk) : Prop :=
  ∀ r, Stored ch r → bufLookup ch r.off = .found r ∨ (bufLookup ch r.off = .miss ∧ r ∈ ch.file ∧ fileLookup ch r.off = some r)

theorem Readable.lookup {ch : Chunk} (h : Readable ch) (r : Rec) (hr : Stored ch r) : lookup ch r.off = some r := by
  unfold ConcFine.lookup
  rcases h r hr with h1 | ⟨h1, _, h3⟩
  · rw [h1]
  · rw [h1]; exact h3

theorem Readable.inj {ch : Chunk} (h : Readable ch) (r r' : Rec) (hr : Stored ch r) (hr' : Stored ch r')
    (ho : r.off = r'.off) : r = r' := by
  have h1 := h.lookup r hr
  have h2 := h.lookup r' hr'
  rw [ho, h2] at h1
  exact (Option.some.inj h1).symm

theorem readable_of_ok {ch : Chunk} {w : Nat} (h : ChunkOK ch w) : Readable ch := fun r hr => h.read r hr

/-- a chunk GC owns: no write buffer, a contiguous file (writing head and size are GC's business) -/
structure ColdOK (ch : Chunk) : Prop where
  nobuf : ch.wbuf = []
  cfile : Contig 0 ch.file ch.fsize

theorem readable_of_cold {ch : Chunk} (h : ColdOK ch) : Readable ch := by
  intro r hr
  right
  have hf : r ∈ ch.file := by
    rcases hr with hr | hr
    · exact hr
    · rw [h.nobuf] at hr; simp at hr
  exact ⟨bufLookup_nobuf ch _ h.nobuf, hf, contig_find _ _ _ h.cfile r hf⟩

theorem coldOK_of_ok {ch : Chunk} (h : ChunkOK ch 0) (hb : ch.wbuf = []) : ColdOK ch := ⟨hb, h.cfile⟩

theorem ColdOK.sizes {ch : Chunk} (h : ChunkOK ch 0) (hb : ch.wbuf = []) : ch.writingHead = ch.fsize ∧ ch.size = ch.fsize := by
  have := h.cbuf
  rw [hb] at this
  simp only [List.drop_nil, Contig] at this
  have hs := h.size
  omega

end ConcGC

namespace ConcGC
open ConcFine

macro "gmicro_split" h:ident : tactic => `(tactic| (
  unfold gmicro at $h:ident
  dsimp only at $h:ident
  split at $h:ident
  all_goals (repeat' (split at $h:ident))
  all_goals (try contradiction)
  all_goals (have $h:ident := Option.some.inj $h; subst $h)))

/-- a GC micro-step touches, of the clients' state, only chunks and tree -/
theorem gmicro_base {cfg : GCfg} {s s' : State} (h : gmicro cfg s = some s') :
    s'.base = { s.base with chunks := s'.base.chunks, tree := s'.base.tree } ∧ s'.fails = s.fails ∧ s'.hazCold = s.hazCold := by
  gmicro_split h
  all_goals first
    | exact ⟨rfl, rfl, rfl⟩
    | (simp only [afterCheck]; split <;> exact ⟨rfl, rfl, rfl⟩)
    | (simp only [beginW]; split <;> exact ⟨rfl, rfl, rfl⟩)
    | (simp only [endW]; split <;> exact ⟨rfl, rfl, rfl⟩)

end ConcGC

namespace ConcGC
open ConcFine

/-- `beginGCWriting` when no monitor fires: the destination is an older file below the range, opened for append -/
def beginApp (s : State) (pc : GPC) : State :=
  { (s.setChunk s.gc.dst { s.base.chunks s.gc.dst with writingHead := (s.base.chunks s.gc.dst).size }) with
      gc := { s.gc with pc := pc, wopen := true, wpos := (s.base.chunks s.gc.dst).fsize } }

theorem beginW_nohaz {s : State} {c : Nat} {pc : GPC} (hr : s.gc.rewr = false)
    (h1 : (beginW s c pc).hazInplace = false) (h2 : (beginW s c pc).hazReuse = false) :
    s.gc.dst ≠ c ∧ s.gc.dst < s.gc.gbegin ∧ beginW s c pc = beginApp s pc := by
  unfold beginW at h1 h2 ⊢
  by_cases hd : s.gc.dst = c
  · simp [hd] at h1
  · simp only [hd, if_false] at h1 h2 ⊢
    simp only [Bool.or_eq_false_iff, decide_eq_false_iff_not] at h2
    refine ⟨hd, by omega, ?_⟩
    simp only [beginApp, hr, Bool.false_eq_true, if_false]
    have h3 : (s.hazReuse || decide (s.gc.gbegin ≤ s.gc.dst)) = s.hazReuse := by simp [h2.1, h2.2]
    rw [h3]
    rfl

end ConcGC
