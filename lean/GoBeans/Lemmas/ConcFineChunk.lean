/-
  Chunk-level lemmas for the fine-grained interleaving model (Model/ConcFine.lean):
  contiguous record lists, Go's `sort.Search`, the buffer test of `GetRecordByOffsetInBuffer`, and the layout
  invariant `ChunkOK` of one dataChunk + data file with a flush in progress.  Core-only.
-/
import GoBeans.Model.ConcFine

namespace ConcFine

/-- the records of `l` lie back to back from offset `a` to offset `b`, each of positive size -/
def Contig : Nat → List Rec → Nat → Prop
  | a, [], b => a = b
  | a, r :: l, b => r.off = a ∧ 0 < r.size ∧ Contig (a + r.size) l b

theorem contig_append (l1 l2 : List Rec) (a b : Nat) :
    Contig a (l1 ++ l2) b ↔ ∃ m, Contig a l1 m ∧ Contig m l2 b := by
  induction l1 generalizing a with
  | nil => simp [Contig]
  | cons r l ih =>
    simp only [List.cons_append, Contig, ih]
    constructor
    · rintro ⟨h1, h2, m, h3, h4⟩; exact ⟨m, ⟨h1, h2, h3⟩, h4⟩
    · rintro ⟨m, ⟨h1, h2, h3⟩, h4⟩; exact ⟨h1, h2, m, h3, h4⟩

theorem contig_end_unique (l : List Rec) (a b b' : Nat) (h : Contig a l b) (h' : Contig a l b') : b = b' := by
  induction l generalizing a with
  | nil => simp only [Contig] at h h'; omega
  | cons r l ih => exact ih _ h.2.2 h'.2.2

theorem contig_le (l : List Rec) (a b : Nat) (h : Contig a l b) : a ≤ b := by
  induction l generalizing a with
  | nil => simp only [Contig] at h; omega
  | cons r l ih => have := ih _ h.2.2; omega

theorem contig_mem (l : List Rec) (a b : Nat) (h : Contig a l b) (r : Rec) (hr : r ∈ l) :
    a ≤ r.off ∧ r.off + r.size ≤ b ∧ 0 < r.size := by
  induction l generalizing a with
  | nil => simp at hr
  | cons x l ih =>
    rcases List.mem_cons.mp hr with rfl | hr
    · have := contig_le _ _ _ h.2.2
      have := h.1; have := h.2.1
      omega
    · have := ih _ h.2.2 hr
      have := h.2.1
      omega

/-- around a member: everything before starts earlier, everything behind starts later -/
theorem contig_split (l1 l2 : List Rec) (r : Rec) (a b : Nat) (h : Contig a (l1 ++ r :: l2) b) :
    (∀ x ∈ l1, x.off < r.off) ∧ (∀ x ∈ l2, r.off < x.off) ∧ a ≤ r.off ∧ r.off + r.size ≤ b := by
  obtain ⟨m, h1, h2⟩ := (contig_append _ _ _ _).mp h
  have hm : r.off = m := h2.1
  refine ⟨?_, ?_, ?_, ?_⟩
  · intro x hx; have := contig_mem _ _ _ h1 x hx; omega
  · intro x hx; have := contig_mem _ _ _ h2.2.2 x hx; have := h2.2.1; omega
  · have := contig_le _ _ _ h1; omega
  · have := contig_le _ _ _ h2.2.2; omega

theorem contig_find (l : List Rec) (a b : Nat) (h : Contig a l b) (r : Rec) (hr : r ∈ l) :
    l.find? (fun x => decide (x.off = r.off)) = some r := by
  obtain ⟨l1, l2, rfl⟩ := List.append_of_mem hr
  obtain ⟨h1, _, _, _⟩ := contig_split _ _ _ _ _ h
  rw [List.find?_append]
  have : l1.find? (fun x => decide (x.off = r.off)) = none := by
    rw [List.find?_eq_none]
    intro x hx
    have := h1 x hx
    simp only [decide_eq_true_eq]; omega
  rw [this]
  simp

/-- two stored records at one offset are one record -/
theorem contig_inj (l : List Rec) (a b : Nat) (h : Contig a l b) (r r' : Rec) (hr : r ∈ l) (hr' : r' ∈ l)
    (ho : r.off = r'.off) : r = r' := by
  have h1 := contig_find l a b h r hr
  have h2 := contig_find l a b h r' hr'
  rw [ho, h2] at h1
  exact (Option.some.inj h1).symm

/-! ### sort.Search -/

theorem searchAux_spec (f : Nat → Bool) (k N : Nat) (hlo : ∀ x, x < k → f x = false)
    (hhi : ∀ x, k ≤ x → x < N → f x = true) :
    ∀ (fuel i j : Nat), i ≤ k → k ≤ j → j ≤ N → j - i ≤ fuel → searchAux f fuel i j = k := by
  intro fuel
  induction fuel with
  | zero => intro i j h1 h2 _ h4; simp only [searchAux]; omega
  | succ fuel ih =>
    intro i j h1 h2 h3 h4
    simp only [searchAux]
    by_cases hij : i < j
    · simp only [hij, if_true]
      by_cases hh : (i + j) / 2 < k
      · rw [hlo _ hh]
        simp only [Bool.not_false, if_true]
        exact ih _ _ (by omega) h2 h3 (by omega)
      · rw [hhi _ (by omega) (by omega)]
        simp only [Bool.not_true, Bool.false_eq_true, if_false]
        exact ih _ _ h1 (by omega) (by omega) (by omega)
    · simp only [hij, if_false]; omega

theorem sortSearch_spec (f : Nat → Bool) (k n : Nat) (hk : k ≤ n) (hlo : ∀ x, x < k → f x = false)
    (hhi : ∀ x, k ≤ x → x < n → f x = true) : sortSearch n f = k :=
  searchAux_spec f k n hlo hhi n 0 n (Nat.zero_le _) hk (Nat.le_refl _) (by omega)

theorem offAt_left (l1 l2 : List Rec) (i : Nat) (h : i < l1.length) : ∃ x ∈ l1, offAt (l1 ++ l2) i = x.off := by
  refine ⟨l1[i], List.getElem_mem h, ?_⟩
  simp only [offAt, List.getElem?_append_left h, List.getElem?_eq_getElem h]

theorem offAt_right (l1 l2 : List Rec) (r : Rec) (i : Nat) (h1 : l1.length ≤ i) (h2 : i < (l1 ++ r :: l2).length) :
    offAt (l1 ++ r :: l2) i = r.off ∨ ∃ x ∈ l2, offAt (l1 ++ r :: l2) i = x.off := by
  simp only [offAt, List.getElem?_append_right h1]
  by_cases h : i - l1.length = 0
  · left; simp [h]
  · right
    obtain ⟨j, hj⟩ : ∃ j, i - l1.length = j + 1 := ⟨i - l1.length - 1, by omega⟩
    simp only [List.length_append, List.length_cons] at h2
    have hjl : j < l2.length := by omega
    refine ⟨l2[j], List.getElem_mem hjl, ?_⟩
    simp [hj, hjl]

/-- a buffered record is found by the buffer test (bounds, binary search, offset comparison) -/
theorem bufLookup_mem (ch : Chunk) (a : Nat) (h : Contig a ch.wbuf ch.writingHead) (r : Rec) (hr : r ∈ ch.wbuf) :
    bufLookup ch r.off = .found r := by
  obtain ⟨l1, l2, hl⟩ := List.append_of_mem hr
  rw [hl] at h
  obtain ⟨h1, h2, h3, h4⟩ := contig_split _ _ _ _ _ h
  have hsz := (contig_mem _ _ _ h r (by simp)).2.2
  unfold bufLookup
  cases hw : ch.wbuf with
  | nil => rw [hw] at hr; simp at hr
  | cons r0 rest =>
    have hr0 : r0.off ≤ r.off := by
      have : r0.off = a := by rw [hl] at hw; rw [hw] at h; exact h.1
      omega
    have hcond : ¬ (r.off < r0.off ∨ r.off ≥ ch.writingHead) := by omega
    simp only [hcond, if_false]
    rw [← hw]
    have hidx : sortSearch ch.wbuf.length (fun i => decide (offAt ch.wbuf i ≥ r.off)) = l1.length := by
      apply sortSearch_spec
      · rw [hl]; simp
      · intro x hx
        rw [hl]
        obtain ⟨y, hy, he⟩ := offAt_left l1 (r :: l2) x hx
        rw [he]; have := h1 y hy
        simp only [decide_eq_false_iff_not]; omega
      · intro x hx1 hx2
        rw [hl] at hx2 ⊢
        rcases offAt_right l1 l2 r x hx1 hx2 with he | ⟨y, hy, he⟩
        · rw [he]; simp
        · rw [he]; have := h2 y hy; simp only [decide_eq_true_eq]; omega
    rw [hidx]
    have hlen : ¬ l1.length ≥ ch.wbuf.length := by rw [hl]; simp
    simp only [hlen, if_false]
    have hget : ch.wbuf[l1.length]? = some r := by rw [hl]; simp
    rw [hget]
    simp

/-- an offset below the start of the buffer is not looked for in the buffer -/
theorem bufLookup_below (ch : Chunk) (m off : Nat) (h : Contig m ch.wbuf ch.writingHead) (ho : off < m) :
    bufLookup ch off = .miss := by
  unfold bufLookup
  cases hw : ch.wbuf with
  | nil => rfl
  | cons r0 rest =>
    rw [hw] at h
    have : off < r0.off := by have := h.1; omega
    simp [this]

/-! ### layout of one chunk while `w` of its buffered records have been written by the running flush -/

structure ChunkOK (ch : Chunk) (w : Nat) : Prop where
  base : ∃ b, ch.file = b ++ ch.wbuf.take w
  cfile : Contig 0 ch.file ch.fsize
  cbuf : Contig ch.fsize (ch.wbuf.drop w) ch.writingHead
  wle : w ≤ ch.wbuf.length
  size : ch.size = ch.writingHead

/-- a record is stored in the chunk: in the file or in the write buffer -/
def Stored (ch : Chunk) (r : Rec) : Prop := r ∈ ch.file ∨ r ∈ ch.wbuf

/-- file and buffer together: one contiguous list from offset 0 to the writing head -/
theorem ChunkOK.all {ch : Chunk} {w : Nat} (h : ChunkOK ch w) :
    ∃ b m, ch.file = b ++ ch.wbuf.take w ∧ Contig 0 b m ∧ Contig m ch.wbuf ch.writingHead := by
  obtain ⟨b, hb⟩ := h.base
  have h1 := h.cfile
  rw [hb] at h1
  obtain ⟨m, h2, h3⟩ := (contig_append _ _ _ _).mp h1
  refine ⟨b, m, hb, h2, ?_⟩
  have : ch.wbuf = ch.wbuf.take w ++ ch.wbuf.drop w := (List.take_append_drop w ch.wbuf).symm
  rw [this]
  exact (contig_append _ _ _ _).mpr ⟨_, h3, h.cbuf⟩

theorem ChunkOK.contig_all {ch : Chunk} {w : Nat} (h : ChunkOK ch w) :
    ∃ b, Contig 0 (b ++ ch.wbuf) ch.writingHead ∧ (∀ r, Stored ch r → r ∈ b ++ ch.wbuf) := by
  obtain ⟨b, m, hb, h1, h2⟩ := h.all
  refine ⟨b, (contig_append _ _ _ _).mpr ⟨m, h1, h2⟩, ?_⟩
  intro r hr
  rcases hr with hr | hr
  · rw [hb] at hr
    rcases List.mem_append.mp hr with hr | hr
    · exact List.mem_append_left _ hr
    · exact List.mem_append_right _ (List.mem_of_mem_take hr)
  · exact List.mem_append_right _ hr

/-- what the reader's two micro-steps find for a stored record: the buffered copy, or — only when the record has
    left the buffer — the record in the file -/
theorem ChunkOK.read {ch : Chunk} {w : Nat} (h : ChunkOK ch w) (r : Rec) (hr : Stored ch r) :
    bufLookup ch r.off = .found r ∨ (bufLookup ch r.off = .miss ∧ r ∈ ch.file ∧ fileLookup ch r.off = some r) := by
  obtain ⟨b, m, hb, h1, h2⟩ := h.all
  by_cases hw : r ∈ ch.wbuf
  · left; exact bufLookup_mem ch m h2 r hw
  · right
    have hf : r ∈ ch.file := by
      rcases hr with hr | hr
      · exact hr
      · exact absurd hr hw
    have hbm : r ∈ b := by
      rw [hb] at hf
      rcases List.mem_append.mp hf with hf | hf
      · exact hf
      · exact absurd (List.mem_of_mem_take hf) hw
    have := contig_mem _ _ _ h1 r hbm
    exact ⟨bufLookup_below ch m r.off h2 (by omega), hf, contig_find _ _ _ h.cfile r hf⟩

theorem ChunkOK.lookup {ch : Chunk} {w : Nat} (h : ChunkOK ch w) (r : Rec) (hr : Stored ch r) :
    lookup ch r.off = some r := by
  unfold ConcFine.lookup
  rcases h.read r hr with h1 | ⟨h1, _, h3⟩
  · rw [h1]
  · rw [h1]; exact h3

/-- two stored records at one offset are one record -/
theorem ChunkOK.inj {ch : Chunk} {w : Nat} (h : ChunkOK ch w) (r r' : Rec) (hr : Stored ch r) (hr' : Stored ch r')
    (ho : r.off = r'.off) : r = r' := by
  have h1 := h.lookup r hr
  have h2 := h.lookup r' hr'
  rw [ho, h2] at h1
  exact (Option.some.inj h1).symm

/-- `getDiskFileSize` = length of the file, when no flush is in progress -/
theorem ChunkOK.disk {ch : Chunk} (h : ChunkOK ch 0) : diskFileSize ch = ch.fsize := by
  have h2 := h.cbuf
  simp only [List.drop_zero] at h2
  unfold diskFileSize
  cases hw : ch.wbuf with
  | nil => rw [hw] at h2; simp only [Contig] at h2; simp only [h.size]; omega
  | cons r0 rest => rw [hw] at h2; exact h2.1

theorem chunkOK_empty : ChunkOK {} 0 :=
  ⟨⟨[], rfl⟩, rfl, rfl, Nat.le_refl _, rfl⟩

/-- dataChunk.AppendRecord at the writing head -/
theorem ChunkOK.append {ch : Chunk} {w : Nat} (h : ChunkOK ch w) (r : Rec) (ho : r.off = ch.writingHead)
    (hs : 0 < r.size) :
    ChunkOK { ch with wbuf := ch.wbuf ++ [r], writingHead := ch.writingHead + r.size,
                      size := ch.writingHead + r.size } w := by
  obtain ⟨b, hb⟩ := h.base
  have hw := h.wle
  refine ⟨⟨b, ?_⟩, h.cfile, ?_, ?_, rfl⟩
  · simp only [List.take_append_of_le_length hw]; exact hb
  · simp only [List.drop_append_of_le_length hw]
    exact (contig_append _ _ _ _).mpr ⟨_, h.cbuf, ho, hs, rfl⟩
  · simp only [List.length_append]; omega

/-- the flusher writes buffered record number `w` at the end of the file -/
theorem ChunkOK.write {ch : Chunk} {w : Nat} (h : ChunkOK ch w) (r : Rec) (hr : ch.wbuf[w]? = some r) :
    r.off = ch.fsize ∧
    ChunkOK { ch with file := ch.file ++ [{ r with off := ch.fsize }], fsize := ch.fsize + r.size } (w + 1) := by
  have hlt : w < ch.wbuf.length := by
    rcases Nat.lt_or_ge w ch.wbuf.length with h1 | h1
    · exact h1
    · rw [List.getElem?_eq_none h1] at hr; simp at hr
  have hget : ch.wbuf[w] = r := by
    rw [List.getElem?_eq_getElem hlt] at hr; exact Option.some.inj hr
  have hdrop : ch.wbuf.drop w = r :: ch.wbuf.drop (w + 1) := by
    rw [← hget]; exact List.drop_eq_getElem_cons hlt
  have hc := h.cbuf
  rw [hdrop] at hc
  have hoff : r.off = ch.fsize := hc.1
  refine ⟨hoff, ?_⟩
  have hrr : { r with off := ch.fsize } = r := by rw [← hoff]
  rw [hrr]
  obtain ⟨b, hb⟩ := h.base
  refine ⟨⟨b, ?_⟩, ?_, hc.2.2, hlt, h.size⟩
  · simp only [hb, List.append_assoc]
    congr 1
    rw [List.take_add_one, hr]; rfl
  · exact (contig_append _ _ _ _).mpr ⟨_, h.cfile, hoff, hc.2.1, rfl⟩

/-- the flusher detaches the `w` records it has written -/
theorem ChunkOK.detach {ch : Chunk} {w : Nat} (h : ChunkOK ch w) : ChunkOK { ch with wbuf := ch.wbuf.drop w } 0 :=
  ⟨⟨ch.file, by simp⟩, h.cfile, by simpa using h.cbuf, Nat.zero_le _, h.size⟩

/-- nothing is lost: a record stored before the detach is stored after it -/
theorem ChunkOK.detach_stored {ch : Chunk} {w : Nat} (h : ChunkOK ch w) (r : Rec) (hr : Stored ch r) :
    Stored { ch with wbuf := ch.wbuf.drop w } r := by
  rcases hr with hr | hr
  · exact Or.inl hr
  · rw [← List.take_append_drop w ch.wbuf] at hr
    rcases List.mem_append.mp hr with hr | hr
    · obtain ⟨b, hb⟩ := h.base
      left; show r ∈ ch.file; rw [hb]; exact List.mem_append_right _ hr
    · exact Or.inr hr

end ConcFine
