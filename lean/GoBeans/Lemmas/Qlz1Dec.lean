/-
  QuickLZ (C10) — the decoder half of the level-1 round trip.  `Enc1 c x p q cw ht lh` is a certificate that the
  stream `c`, read from position `p` with `cw` left of the current control word, encodes `x[q..]` in the level-1 format
  for a decoder whose hash table is `ht` and whose `lastHashed` is `lh` (literal passes, match passes whose token names
  a hash-table slot, the final literal run).  `dec1_loop` / `dec1`: the model of the Go `Decompress` run on a
  certified stream returns exactly `x`.  Core-only.
-/
import GoBeans.Lemmas.Qlz1Hash
set_option linter.unusedVariables false
set_option linter.unusedSimpArgs false
namespace QlzRT
open Qlz QlzLemmas

/-- `Enc1 c x p q cw ht lh`: read from position `p` with `cw` left of the current control word, the stream `c` encodes
    `x[q..]` given that `x[..q]` has been produced and the decoder's table / `lastHashed` are `ht` / `lh`. -/
inductive Enc1 (c x : Buf) : Nat → Nat → Nat → Array Int → Int → Prop
  | lit {p q cw p' cw' : Nat} {ht ht' : Array Int} {lh lh' : Int} (b b2 : UInt8) :
      cwAt c p cw = some (p', cw') → cw' &&& 1 = 0 → ((q : Nat) : Int) ≤ (x.size : Int) - 11 →
      (fastRead c p' 3).isSome → c[p']? = some b → x[q]? = some b → c[p' + 1 + 2]? = some b2 →
      -1 ≤ lh → lh < (q : Int) →
      hashUpdLit x (((q + 1 : Nat) : Int) - 3 - lh).toNat ht lh = some (ht', lh') →
      Enc1 c x (p' + 1) (q + 1) (cw' >>> 1) ht' lh' → Enc1 c x p q cw ht lh
  | mat {p q cw p' cw' f off : Nat} {ht ht' : Array Int} {lh : Int} :
      cwAt c p cw = some (p', cw') → cw' &&& 1 = 1 → ((q : Nat) : Int) ≤ (x.size : Int) - 11 →
      fastRead c p' 3 = some f → ht[(tok1 f).2.1]? = some ((q : Int) - ((off : Nat) : Int)) →
      1 ≤ off → off ≤ q → 3 ≤ (tok1 f).1 → q + (tok1 f).1 + 4 ≤ x.size →
      (∀ j, j < (tok1 f).1 → x[q + j]? = x[q - off + j]?) →
      -1 ≤ lh → lh < (q : Int) → ht.size = 4096 →
      hashUpdLit x ((q : Int) - lh).toNat ht lh = some (ht', (q : Int)) →
      (fastRead c (p' + (tok1 f).2.2) 3).isSome →
      Enc1 c x (p' + (tok1 f).2.2) (q + (tok1 f).1) (cw' >>> 1) ht' (((q + (tok1 f).1 : Nat) : Int) - 1) →
      Enc1 c x p q cw ht lh
  | fin {p q cw p' cw' : Nat} {ht : Array Int} {lh : Int} :
      cwAt c p cw = some (p', cw') → cw' &&& 1 = 0 → ¬ (((q : Nat) : Int) ≤ (x.size : Int) - 11) → q ≤ x.size →
      TailEnc c x p' q cw' → Enc1 c x p q cw ht lh

/-- the decoder's variables at the top of a pass, related to a position of the certificate -/
structure DInv1 (c x : Buf) (st : St) (p q cw : Nat) (ht : Array Int) (lh : Int) : Prop where
  src : st.src = p
  dst : st.dst = q
  cword : st.cword = cw
  size : st.dest.size = x.size
  pre : ∀ j, j < q → st.dest[j]? = x[j]?
  ht : st.ht = ht
  lh : st.lastHashed = lh
  fetch : cw ≠ 1 → ((q : Nat) : Int) ≤ (x.size : Int) - 11 → fastRead c p 3 = some st.fetch

theorem loadCword1 {c x : Buf} {st : St} {p q cw p' cw' : Nat} {ht : Array Int} {lh : Int} (hi : DInv1 c x st p q cw ht lh)
    (hcw : cwAt c p cw = some (p', cw'))
    (hf : ((q : Nat) : Int) ≤ (x.size : Int) - 11 → (fastRead c p' 3).isSome) :
    ∃ st1, loadCword c 1 ((x.size : Int) - 11) st = some st1 ∧ st1.src = p' ∧ st1.cword = cw' ∧ st1.dst = q ∧ st1.dest = st.dest
      ∧ st1.ht = ht ∧ st1.lastHashed = lh
      ∧ (((q : Nat) : Int) ≤ (x.size : Int) - 11 → fastRead c p' 3 = some st1.fetch) ∧ p ≤ p' := by
  unfold cwAt at hcw
  unfold loadCword
  by_cases h1 : cw = 1
  · rw [if_pos h1] at hcw
    rw [if_pos (by rw [hi.cword]; exact h1)]
    split at hcw
    · contradiction
    · rename_i W hW
      cases hcw
      rw [hi.src, hW]
      simp only
      by_cases hq : ((q : Nat) : Int) ≤ (x.size : Int) - 11
      · rw [if_pos (by rw [hi.dst]; exact hq)]
        have := hf hq
        rw [Option.isSome_iff_exists] at this
        obtain ⟨f, hf'⟩ := this
        simp only [if_true]
        rw [hf']
        exact ⟨_, rfl, rfl, rfl, hi.dst, rfl, hi.ht, hi.lh, fun _ => rfl, by omega⟩
      · rw [if_neg (by rw [hi.dst]; exact hq)]
        exact ⟨_, rfl, rfl, rfl, hi.dst, rfl, hi.ht, hi.lh, fun h => absurd h hq, by omega⟩
  · rw [if_neg h1] at hcw
    cases hcw
    rw [if_neg (by rw [hi.cword]; exact h1)]
    exact ⟨st, rfl, hi.src, hi.cword, hi.dst, rfl, hi.ht, hi.lh, fun h => hi.fetch h1 h, by omega⟩

/-- THE DECODER ON A CERTIFIED LEVEL-1 STREAM: from any state of the main loop that corresponds to a position of the
    certificate, the loop returns exactly `x` -/
theorem dec1_loop {c x : Buf} {p q cw : Nat} {ht : Array Int} {lh : Int} (h : Enc1 c x p q cw ht lh) :
    ∀ (st : St), DInv1 c x st p q cw ht lh → ∀ fuel, c.size - p < fuel → loop c 1 x.size fuel st = .ok x := by
  induction h with
  | @lit p q cw p' cw' ht ht' lh lh' b b2 hcw hbit hq hfr hc hx hb2 hl1 hl2 hupd _ ih =>
    intro st hi fuel hfuel
    obtain ⟨n, rfl⟩ : ∃ n, fuel = n + 1 := ⟨fuel - 1, by omega⟩
    obtain ⟨st1, hl, s1, s2, s3, s4, s5, s6, s7, s8⟩ := loadCword1 hi hcw (fun _ => hfr)
    have hqx : q < x.size := (Array.getElem?_eq_some_iff.mp hx).1
    obtain ⟨d1, hd1⟩ := wr_ok b (by rw [hi.size]; exact hqx : q < st.dest.size)
    have hpre1 : ∀ j, j < q + 1 → d1[j]? = x[j]? := by
      intro j hj
      rw [wr_get hd1 j]
      by_cases hjq : j = q
      · subst hjq; simp [hx]
      · simp only [hjq, if_false]; exact hi.pre j (by omega)
    have hupd1 : hashUpdLit d1 (((q + 1 : Nat) : Int) - 3 - lh).toNat ht lh = some (ht', lh') := by
      rw [hashUpdLit_congr hpre1 _ _ _ hl1 (by intro hn; omega), hupd]
    have hlit : litStep c 1 st1 = some (⟨p' + 1, q + 1, cw' >>> 1, d1, ht', lh',
        ((st1.fetch >>> 8) &&& 0xffff) ||| (b2.toNat <<< 16)⟩ : St) := by
      unfold litStep
      rw [s1, hc]
      simp only
      rw [s4, s3, hd1]
      simp only [if_true]
      rw [s5, s6, hupd1]
      simp only
      rw [hb2, s2]
    unfold loop step
    simp only
    rw [hl]
    simp only
    rw [s2, if_neg (by rw [hbit]; omega), s3, if_pos hq, hlit]
    simp only [Option.map_some]
    apply ih
    · refine ⟨rfl, rfl, rfl, by simp only; rw [wr_size hd1, hi.size], hpre1, rfl, rfl, ?_⟩
      intro _ _
      exact fetch_shift3 (s7 hq) hb2
    · have := getElem?_some_lt hb2
      omega
  | @mat p q cw p' cw' f off ht ht' lh hcw hbit hq hf hoff ho1 ho2 hml hend hx hl1 hl2 hsz hupd hnext _ ih =>
    intro st hi fuel hfuel
    obtain ⟨n, rfl⟩ : ∃ n, fuel = n + 1 := ⟨fuel - 1, by omega⟩
    obtain ⟨st1, hl, s1, s2, s3, s4, s5, s6, s7, s8⟩ := loadCword1 hi hcw (fun _ => by rw [hf]; rfl)
    have hfe : st1.fetch = f := by
      have := s7 hq
      rw [hf] at this
      exact (Option.some.inj this).symm
    obtain ⟨f', hf'⟩ := Option.isSome_iff_exists.mp hnext
    obtain ⟨d3, hc3, hs3, hp3⟩ := copyFrom_match ho1 ho2 3 0 st.dest hi.size (by omega) (fun j hj => hx j (by omega)) (by simpa using hi.pre)
    obtain ⟨d, hcd, hsd, hpd⟩ := copyFrom_match ho1 ho2 ((tok1 f).1 - 3) 3 d3 hs3 (by omega) (fun j hj => hx j (by omega)) (by simpa using hp3)
    have hpd' : ∀ j, j < q + (tok1 f).1 → d[j]? = x[j]? := fun j hj => hpd j (by omega)
    obtain ⟨m, hm⟩ : ∃ m : Nat, lh + 1 = (m : Int) := ⟨(lh + 1).toNat, by omega⟩
    obtain ⟨f0, hf0⟩ := fastRead_isSome (c := d) (p := m) 3 (by omega)
    have hf0' : fastReadI d (lh + 1) 3 = some f0 := by rw [fastReadI_nat d _ m 3 hm]; exact hf0
    obtain ⟨htd, fd, e1, e2⟩ := hashUpdMatch_lit d ((q : Int) - lh).toNat ht lh f0 hl1 hsz hf0' (by omega)
    have hupdd : hashUpdLit d ((q : Int) - lh).toNat ht lh = some (ht', (q : Int)) := by
      rw [hashUpdLit_congr hpd' _ _ _ hl1 (by intro hn; omega), hupd]
    rw [hupdd] at e2
    simp only [Option.some.injEq, Prod.mk.injEq] at e2
    obtain ⟨rfl, _⟩ := e2
    have hmat : matchStep c 1 st1 = some (⟨p' + (tok1 f).2.2, q + (tok1 f).1, cw' >>> 1, d, ht',
        ((q + (tok1 f).1 : Nat) : Int) - 1, f'⟩ : St) := by
      unfold matchStep
      rw [decodeMatch1 (o := (q : Int) - ((off : Nat) : Int)) (by rw [s1, hfe]; exact hf) (by rw [s5, hfe]; exact hoff), hfe, s3, s4]
      simp only
      rw [hc3]
      simp only
      rw [hcd]
      simp only [if_true]
      rw [s6, hf0']
      simp only
      rw [s5, e1]
      simp only
      rw [s1, hf', s2]
    unfold loop step
    simp only
    rw [hl]
    simp only
    rw [s2, if_pos hbit, hmat]
    simp only [Option.map_some]
    apply ih
    · exact ⟨rfl, rfl, rfl, hsd, hpd', rfl, rfl, fun _ _ => hf'⟩
    · have := fastRead_some_lt hf'
      have : 2 ≤ (tok1 f).2.2 := by rcases tok1_len f with h | h <;> omega
      omega
  | @fin p q cw p' cw' ht lh hcw hbit hq hle ht' =>
    intro st hi fuel hfuel
    obtain ⟨n, rfl⟩ : ∃ n, fuel = n + 1 := ⟨fuel - 1, by omega⟩
    obtain ⟨st1, hl, s1, s2, s3, s4, s5, s6, s7, s8⟩ := loadCword1 hi hcw (fun h => absurd h hq)
    have := tailLoop_enc ht' st.dest hi.size hi.pre hle
    unfold loop step
    simp only
    rw [hl]
    simp only
    rw [s2, if_neg (by rw [hbit]; omega), s3, if_neg hq, s1, s4, this]
    simp only [Option.map_some]

/-- `Decompress` of a stream with a level-1 header announcing `len x` whose body is certified to encode `x` -/
theorem dec1 {c x : Buf} (hh : headerLen c = some 9) (hsd : sizeDecompressed c = some x.size) (hlv : levelOf c = some 1)
    (hcb : cbitOf c = some 1) (henc : Enc1 c x 9 0 1 (Array.replicate 4096 0) (-1)) : decompress c = .ok x := by
  unfold decompress decompressFuel
  rw [hsd, hh, hlv, hcb]
  simp only
  rw [if_neg (by omega)]
  simp only [show ¬ ((1 : Nat) ≠ 1) by omega, if_false]
  apply dec1_loop henc
  · exact ⟨rfl, rfl, rfl, by simp [initSt], fun j hj => by omega, rfl, rfl, fun h => absurd rfl h⟩
  · have := (headerLen_cases hh).2
    omega

end QlzRT
