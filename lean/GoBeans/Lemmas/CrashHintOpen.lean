/-
  Crash recovery through the hint files, part 3: the start (`Bucket.open`, model `openSt`) on the directory a kill
  leaves of ANY state that satisfies the invariant of part 2 and has no torn tail:
   * `open_hints`        per data file the split files `open` ends up with are files of a cut of the DURABLE records
   * `open_tree_nodump`  no usable tree dump: the tree entry of every key is exactly `itemOfLast (last durable record)`
   * `open_tree_entry`   with a tree dump `(tc, ts)`: a key with a durable record in the chunks applied on top of the
                         dump gets `itemOfLast` of its last such record, every other key keeps the dump's entry
   * `open_tree_live`    in both cases the LIVE part of the entry is `itemOfLast (last durable record)`
   * `open_inv`          the state after the start satisfies the invariant again (so kills and starts can be repeated)
-/
import GoBeans.Lemmas.CrashHintInv
set_option linter.unusedSimpArgs false
set_option linter.unusedVariables false
namespace CrashHintLemmas
open Store Spec StoreLemmas HintIndex HintBufferLemmas HintLoadLemmas HintIndexLemmas CrashHint

/-! ### `ListFiles` -/

theorem numFiles_le : ∀ l : List DFile, numFiles l ≤ l.length := by
  intro l
  induction l with
  | nil => simp [numFiles]
  | cons f fs ih =>
    simp only [numFiles, List.length_cons]
    split
    · omega
    · split <;> omega

/-- beyond `newHead` no data file exists -/
theorem numFiles_drop : ∀ l : List DFile, ∀ f ∈ l.drop (numFiles l), f.created = false := by
  intro l
  induction l with
  | nil => intro f hf; simp at hf
  | cons g gs ih =>
    intro f hf
    simp only [numFiles] at hf
    by_cases h1 : numFiles gs > 0
    · simp only [h1, if_true, List.drop_succ_cons] at hf
      exact ih f hf
    · have h0 : numFiles gs = 0 := by omega
      simp only [h1, if_false] at hf
      by_cases h2 : g.created = true
      · simp only [h2, if_true, List.drop_succ_cons, List.drop_zero] at hf
        apply ih f
        rw [h0]; simpa using hf
      · simp only [h2, Bool.false_eq_true, if_false, List.drop_zero, List.mem_cons] at hf
        rcases hf with rfl | hf
        · simpa using h2
        · apply ih f
          rw [h0]; simpa using hf

theorem numFiles_created {l : List DFile} {j : Nat} {f : DFile} (h : l[j]? = some f) (hc : f.created = true) :
    j < numFiles l := by
  by_cases hj : j < numFiles l
  · exact hj
  · exfalso
    have : (l.drop (numFiles l))[j - numFiles l]? = some f := by
      rw [List.getElem?_drop]
      have : numFiles l + (j - numFiles l) = j := by omega
      rw [this]; exact h
    have := numFiles_drop l f (List.mem_of_getElem? this)
    rw [hc] at this
    simp at this

/-! ### helpers -/

theorem forall2_map_mem {α β γ : Type} {R : β → γ → Prop} (f : α → β) (g : α → γ) :
    ∀ l : List α, (∀ a ∈ l, R (f a) (g a)) → Forall2 R (l.map f) (l.map g) := by
  intro l
  induction l with
  | nil => intro _; exact Forall2.nil
  | cons a l ih =>
    intro h
    exact Forall2.cons (h a (by simp)) (ih (fun b hb => h b (List.mem_cons_of_mem _ hb)))

theorem lastOf_append_none {k : Key} {a b : List (Pos × Rec)} (h : lastOf k (a ++ b) = none) :
    lastOf k a = none ∧ lastOf k b = none := by
  rw [lastOf_append] at h
  cases hb : lastOf k b with
  | some x => rw [hb] at h; simp at h
  | none => rw [hb] at h; simpa using h

/-! ### which durable records `open` applies on top of a tree dump -/

section Open
variable (hash : Key → Nat) (K : Key → Prop) (cap : Nat)

/-- `n` leading data files are the ones the dump knows (`tc` among them).  A key with a record in the part of the log
    applied on top of the dump: its last record there is its last record altogether.  A key without: all its records
    lie in the files the dump knows. -/
theorem openLog_last (tc : Nat) (ts : Int) (files : List FileRecs) (hints : List (List (List Item)))
    (h : Forall2 (FileHintsOf hash) files hints) :
    ∀ (i n : Nat), i ≤ tc → tc < i + n → ∀ k : Key,
      (match lastOf k (openLog tc ts i files hints) with
       | some x => lastOf k (logFrom i files) = some x
       | none => lastOf k (logFrom i files) = lastOf k (logFrom i (files.take n))) := by
  induction h with
  | nil => intro i n _ _ k; simp [openLog, logFrom, lastOf]
  | @cons f hs fs hss hf hrest ih =>
    intro i n hi hn k
    obtain ⟨m, rfl⟩ : ∃ m, n = m + 1 := ⟨n - 1, by omega⟩
    by_cases h1 : i < tc
    · have e1 : openLog tc ts i (f :: fs) (hs :: hss) = openLog tc ts (i + 1) fs hss := by
        simp [openLog, h1]
      have ih' := ih (i + 1) m (by omega) (by omega) k
      rw [e1]
      simp only [logFrom, List.take_succ_cons, lastOf_append]
      cases hl : lastOf k (openLog tc ts (i + 1) fs hss) with
      | some x => rw [hl] at ih'; simp only at ih' ⊢; rw [ih']; rfl
      | none => rw [hl] at ih'; simp only at ih' ⊢; rw [ih']
    · have hitc : i = tc := by omega
      subst hitc
      rw [openLog_at hash i ts f fs hs hss hrest]
      simp only [logFrom, List.take_succ_cons]
      -- the files behind: the known ones are a prefix
      have hsplit : logFrom (i + 1) fs = logFrom (i + 1) (fs.take m) ++ logFrom (i + 1 + (fs.take m).length) (fs.drop m) := by
        rw [← logFrom_append, List.take_append_drop]
      by_cases h2 : ts + 1 ≥ (hs.length : Int)
      · simp only [h2, if_true, List.nil_append, lastOf_append]
        cases hl : lastOf k (logFrom (i + 1) fs) with
        | some x => simp
        | none =>
          simp only [Option.none_or]
          rw [hsplit] at hl
          rw [(lastOf_append_none hl).1]
          rfl
      · simp only [h2, if_false]
        cases hl : lastOf k (fileLog i f ++ logFrom (i + 1) fs) with
        | some x => rfl
        | none =>
          simp only
          obtain ⟨ha, hb⟩ := lastOf_append_none hl
          rw [hsplit] at hb
          rw [lastOf_append, (lastOf_append_none hb).1, ha]
          rfl

/-! ### the directory of a state -/

theorem crash_files (s : St) : s.crash.files = s.all.map Chunk.crash := rfl
theorem crash_dump (s : St) : s.crash.dump = s.dump := rfl

/-- the durable records, file by file -/
def durFiles (s : St) : List FileRecs := s.all.map (fun c => durOf c.recs c.onDisk)

theorem durLog_eq (s : St) : durLog s = logOf (durFiles s) := by
  unfold durLog durFiles
  rw [crash_files, List.map_map]
  rfl

theorem torn_iff (s : St) : s.torn = false ↔ ∀ c ∈ s.all, tornOf c.recs c.onDisk = false := by
  unfold St.torn
  rw [crash_files, List.any_map]
  constructor
  · intro h c hc
    have := List.any_eq_false.mp h c hc
    simpa [crash_torn] using this
  · intro h
    rw [List.any_eq_false]
    intro c hc
    have := h c hc
    simp [crash_torn, this]

theorem keptHints_eq (s : St) : keptHints hash cap true s.crash =
    s.all.map (fun c => (checkHintG hash cap true (durOf c.recs c.onDisk) c.onDisk c.files).map (·.items)) := by
  unfold keptHints keptFiles
  rw [crash_files, List.map_map, List.map_map]
  rfl

theorem keptFiles_eq (s : St) : keptFiles hash cap true s.crash =
    s.all.map (fun c => checkHintG hash cap true (durOf c.recs c.onDisk) c.onDisk c.files) := by
  unfold keptFiles
  rw [crash_files, List.map_map]
  rfl

/-- per data file, the split files `open` ends up with are split files of a cut of the durable records -/
theorem open_hints (hcap : 1 ≤ cap) {s : St} (inv : Inv hash K cap s) (ht : s.torn = false) :
    Forall2 (FileHintsOf hash) (durFiles s) (keptHints hash cap true s.crash) := by
  rw [keptHints_eq]
  unfold durFiles
  apply forall2_map_mem
  intro c hc
  have hok := inv.chunks c hc
  exact (chunk_recover hash cap hcap c.recs c.files c.onDisk hok.contig (chunk_diskOK hash K cap hcap hok)
    ((torn_iff s).mp ht c hc)).1

theorem durFiles_keys {s : St} (inv : Inv hash K cap s) : ∀ f ∈ durFiles s, ∀ p ∈ f, K p.2.key := by
  intro f hf p hp
  unfold durFiles at hf
  obtain ⟨c, hc, rfl⟩ := List.mem_map.mp hf
  unfold durOf at hp
  exact (inv.chunks c hc).keys p (List.mem_filter.mp hp).1

/-- NO TREE DUMP (none on disk, or one beyond the data files): the tree is rebuilt from the hint files alone, and the
    entry of every key is the live part of its last durable record — exactly, as a replay of the durable log gives it -/
theorem open_tree_nodump (hInj : InjOn hash K) (hcap : 1 ≤ cap) {s : St} (inv : Inv hash K cap s) (ht : s.torn = false)
    (hd : usedDump s.crash = none) (k : Key) (hk : K k) :
    AMap.get (openedTree hash cap true s.crash) (hash k) = itemOfLast (lastOf k (durLog s)) := by
  unfold openedTree
  rw [hd]
  simp only
  rw [openTree_nodump, durLog_eq,
    hintReplay_eq_replay hash K hInj (durFiles s) (durFiles_keys hash K cap inv) _ (open_hints hash K cap hcap inv ht) k hk]
  exact replay_get hash K hInj _ (logFrom_keys K (durFiles s) (durFiles_keys hash K cap inv) 0) k hk

/-- WITH A TREE DUMP `t = (tc, ts, tree)`: what the entry of a key is -/
theorem open_tree_entry (hInj : InjOn hash K) (hcap : 1 ≤ cap) {s : St} (inv : Inv hash K cap s) (ht : s.torn = false)
    (t : TreeDump) (hd : usedDump s.crash = some t) (k : Key) (hk : K k) :
    AMap.get (openedTree hash cap true s.crash) (hash k) =
      (match lastOf k (openLog t.tc t.ts 0 (durFiles s) (keptHints hash cap true s.crash)) with
       | some x => itemOfLast (some x)
       | none => AMap.get t.tree (hash k)) := by
  unfold openedTree
  rw [hd]
  exact openTree_get hash K hInj t.tc t.ts (durFiles s) (durFiles_keys hash K cap inv) _
    (open_hints hash K cap hcap inv ht) t.tree k hk

theorem usedDump_some {d : Disk} {t : TreeDump} (h : usedDump d = some t) : d.dump = some t ∧ t.tc < numFiles d.files := by
  unfold usedDump at h
  cases hd : d.dump with
  | none => rw [hd] at h; simp at h
  | some t' =>
    rw [hd] at h
    simp only at h
    by_cases hb : t'.tc ≥ numFiles d.files
    · simp [hb] at h
    · simp only [hb, if_false, Option.some.injEq] at h
      subst h
      exact ⟨rfl, by omega⟩

/-- the files a dump knows are completely on disk: their durable records are all their records -/
theorem dur_of_flushed {A : List CrashHint.Chunk} (hok : ∀ c ∈ A, ChunkOK hash K cap c) (hfl : ∀ c ∈ A, Flushed c) :
    A.map (fun c => durOf c.recs c.onDisk) = A.map (·.recs) := by
  apply List.map_congr_left
  intro c hc
  rw [hfl c hc]
  exact dur_full (hok c hc).contig

/-- MAIN LEMMA of the start.  Whatever tree dump is on disk: the live part of the entry of every key is the live part
    of the key's last durable record. -/
theorem open_tree_live (hInj : InjOn hash K) (hcap : 1 ≤ cap) {s : St} (inv : Inv hash K cap s) (ht : s.torn = false)
    (k : Key) (hk : K k) :
    live (AMap.get (openedTree hash cap true s.crash) (hash k)) = itemOfLast (lastOf k (durLog s)) := by
  cases hd : usedDump s.crash with
  | none =>
    rw [open_tree_nodump hash K cap hInj hcap inv ht hd k hk]
    exact live_itemOfLast _
  | some t =>
    rw [open_tree_entry hash K cap hInj hcap inv ht t hd k hk]
    obtain ⟨hdump, _⟩ := usedDump_some hd
    rw [crash_dump] at hdump
    obtain ⟨_, A, B, hAB, htc, _, hfl, htr⟩ := inv.dump t hdump
    have hokA : ∀ c ∈ A, ChunkOK hash K cap c := fun c hc => inv.chunks c (by rw [hAB]; simp [hc])
    have hfiles : durFiles s = A.map (·.recs) ++ B.map (fun c => durOf c.recs c.onDisk) := by
      unfold durFiles
      rw [hAB, List.map_append, dur_of_flushed hash K cap hokA hfl]
    have htake : (durFiles s).take A.length = A.map (·.recs) := by
      rw [hfiles]
      have : A.length = (A.map (·.recs)).length := by simp
      rw [this, List.take_left]
    have hl := openLog_last hash t.tc t.ts (durFiles s) _ (open_hints hash K cap hcap inv ht) 0 A.length
      (Nat.zero_le _) (by omega) k
    rw [durLog_eq]
    cases hx : lastOf k (openLog t.tc t.ts 0 (durFiles s) (keptHints hash cap true s.crash)) with
    | some x =>
      rw [hx] at hl
      simp only at hl ⊢
      unfold logOf
      rw [hl]
      exact live_itemOfLast _
    | none =>
      rw [hx] at hl
      simp only at hl ⊢
      unfold logOf
      rw [hl, htake]
      exact htr k hk

/-! ### the state after the start -/

theorem openMax_spec (tc : Nat) (ts : Int) (hts : -1 ≤ ts) : ∀ (kept : List (List SplitFile)) (i : Nat) (m : Nat × Int),
    openMaxGo tc ts i m kept = m ∨
      ∃ j fl, kept[j]? = some fl ∧ fl ≠ [] ∧ (openMaxGo tc ts i m kept).1 = i + j := by
  intro kept
  induction kept with
  | nil => intro i m; left; rfl
  | cons f fs ih =>
    intro i m
    simp only [openMaxGo]
    by_cases h1 : i < tc
    · simp only [h1, if_true]
      rcases ih (i + 1) m with h | ⟨j, fl, hj, hne, he⟩
      · left; exact h
      · right; exact ⟨j + 1, fl, by simpa using hj, hne, by rw [he]; omega⟩
    · simp only [h1, if_false]
      by_cases h2 : (if i = tc then ts + 1 else 0) ≥ (f.length : Int)
      · simp only [h2, if_true]
        rcases ih (i + 1) m with h | ⟨j, fl, hj, hne, he⟩
        · left; exact h
        · right; exact ⟨j + 1, fl, by simpa using hj, hne, by rw [he]; omega⟩
      · simp only [h2, if_false]
        have hf : f ≠ [] := by
          intro e
          subst e
          simp only [List.length_nil, Int.natCast_zero] at h2
          split at h2
          · omega
          · omega
        rcases ih (i + 1) (i, (if i = tc then ts + 1 else 0) + (f.length : Int) - 1) with h | ⟨j, fl, hj, hne, he⟩
        · right; exact ⟨0, f, by simp, hf, by rw [h]; rfl⟩
        · right; exact ⟨j + 1, fl, by simpa using hj, hne, by rw [he]; omega⟩

/-- the chunk of an existing data file after the start: the durable records, file-only splits -/
def convC (c : CrashHint.Chunk) : CrashHint.Chunk :=
  { recs := durOf c.recs c.onDisk, onDisk := c.onDisk, created := c.created, hint := {},
    files := (checkHintG hash cap true (durOf c.recs c.onDisk) c.onDisk c.files).map some }

theorem open_prev (s : St) : (openSt hash cap true s.crash).prev =
    (s.all.take (numFiles s.crash.files)).map (convC hash cap) := by
  unfold openSt
  simp only
  rw [crash_files, ← List.map_take, List.map_map]
  rfl

theorem open_head (s : St) : (openSt hash cap true s.crash).head = {} := rfl
theorem open_tree (s : St) : (openSt hash cap true s.crash).tree = openedTree hash cap true s.crash := rfl
theorem open_maxDumped (s : St) : (openSt hash cap true s.crash).maxDumped = openedMax hash cap true s.crash := rfl

theorem convC_ok (hcap : 1 ≤ cap) {c : CrashHint.Chunk} (hok : ChunkOK hash K cap c) (ht : tornOf c.recs c.onDisk = false) :
    ChunkOK hash K cap (convC hash cap c) ∧ Flushed (convC hash cap c) := by
  have hsz := size_of_not_torn hok.contig ht
  refine ⟨⟨contig_dur hok.contig _, ?_, ?_, hok.nocreate, Or.inl ⟨rfl, rfl, ?_⟩⟩, ?_⟩
  · intro p hp
    have : p ∈ durOf c.recs c.onDisk := hp
    unfold durOf at this
    exact hok.keys p (List.mem_filter.mp this).1
  · show c.onDisk ≤ dataSizeOf (durOf c.recs c.onDisk)
    omega
  · exact (chunk_recover hash cap hcap c.recs c.files c.onDisk hok.contig (chunk_diskOK hash K cap hcap hok) ht).2
  · exact hsz

/-- a chunk beyond `newHead` has no durable record -/
theorem dur_dropped {s : St} (inv : Inv hash K cap s) :
    ∀ c ∈ s.all.drop (numFiles s.crash.files), durOf c.recs c.onDisk = [] := by
  intro c hc
  have hcm : c ∈ s.all := List.mem_of_mem_drop hc
  have h1 : c.crash ∈ s.crash.files.drop (numFiles s.crash.files) := by
    rw [crash_files, ← List.map_drop]
    exact List.mem_map_of_mem hc
  have h2 := numFiles_drop _ _ h1
  rw [crash_created] at h2
  have hok := inv.chunks c hcm
  rw [hok.nocreate h2]
  exact dur_zero hok.contig

theorem numFiles_le_all (s : St) : numFiles s.crash.files ≤ s.all.length := by
  have := numFiles_le s.crash.files
  rw [crash_files, List.length_map] at this
  exact this

/-- the records the new process knows are the durable records -/
theorem open_memLog {s : St} (inv : Inv hash K cap s) : memLog (openSt hash cap true s.crash) = durLog s := by
  rw [durLog_eq]
  unfold memLog St.all
  rw [open_prev, open_head]
  have h1 : (s.all.take (numFiles s.crash.files)).map (convC hash cap) ++ [({} : CrashHint.Chunk)] =
      ((s.all.take (numFiles s.crash.files)).map (convC hash cap) ++ [({} : CrashHint.Chunk)]) := rfl
  simp only [List.map_append, List.map_map, List.map_singleton]
  have h2 : durFiles s = (s.all.take (numFiles s.crash.files)).map (fun c => durOf c.recs c.onDisk) ++
      (s.all.drop (numFiles s.crash.files)).map (fun c => durOf c.recs c.onDisk) := by
    unfold durFiles
    rw [← List.map_append, List.take_append_drop]
  rw [h2]
  unfold logOf
  rw [logFrom_append, logFrom_append]
  have e1 : logFrom (0 + (List.map ((fun x => x.recs) ∘ convC hash cap) (List.take (numFiles s.crash.files) s.all)).length)
      [({} : CrashHint.Chunk).recs] = [] := by
    apply logFrom_empties
    intro f hf
    simp at hf
    exact hf
  have e2 : logFrom (0 + (List.map (fun c => durOf c.recs c.onDisk) (List.take (numFiles s.crash.files) s.all)).length)
      ((s.all.drop (numFiles s.crash.files)).map (fun c => durOf c.recs c.onDisk)) = [] := by
    apply logFrom_empties
    intro f hf
    obtain ⟨c, hc, rfl⟩ := List.mem_map.mp hf
    exact dur_dropped hash K cap inv c hc
  rw [e1, e2]
  rfl

/-- a chunk that has split files after the start has a data file -/
theorem kept_nonempty_lt {s : St} (inv : Inv hash K cap s) {j : Nat} {fl : List SplitFile}
    (hj : (keptFiles hash cap true s.crash)[j]? = some fl) (hne : fl ≠ []) : j < numFiles s.crash.files := by
  rw [keptFiles_eq, List.getElem?_map] at hj
  cases hc : s.all[j]? with
  | none => rw [hc] at hj; simp at hj
  | some c =>
    rw [hc] at hj
    simp only [Option.map_some, Option.some.injEq] at hj
    have hok := inv.chunks c (List.mem_of_getElem? hc)
    have hcr : c.created = true := by
      cases hcc : c.created with
      | true => rfl
      | false =>
        exfalso
        have h0 := hok.nocreate hcc
        rw [h0] at hj
        apply hne
        rw [← hj]
        simp [checkHintG]
    apply numFiles_created (f := c.crash)
    · rw [crash_files, List.getElem?_map, hc]; rfl
    · rw [crash_created]; exact hcr

theorem openedMax_spec {s : St} (inv : Inv hash K cap s) :
    ((usedDump s.crash = none ∧ openedMax hash cap true s.crash = (0, -1)) ∨
     (∃ t, usedDump s.crash = some t ∧ openedMax hash cap true s.crash = (t.tc, t.ts)) ∨
     (openedMax hash cap true s.crash).1 < numFiles s.crash.files) := by
  unfold openedMax
  cases hd : usedDump s.crash with
  | none =>
    simp only
    rcases openMax_spec 0 (-1) (by omega) (keptFiles hash cap true s.crash) 0 (0, -1) with h | ⟨j, fl, hj, hne, he⟩
    · left; exact ⟨trivial, h⟩
    · right; right
      rw [he]
      have := kept_nonempty_lt hash K cap inv hj hne
      omega
  | some t =>
    simp only
    obtain ⟨hdump, _⟩ := usedDump_some hd
    rw [crash_dump] at hdump
    obtain ⟨hts, _⟩ := inv.dump t hdump
    rcases openMax_spec t.tc t.ts (by omega) (keptFiles hash cap true s.crash) 0 (t.tc, t.ts) with h | ⟨j, fl, hj, hne, he⟩
    · right; left; exact ⟨t, rfl, h⟩
    · right; right
      rw [he]
      have := kept_nonempty_lt hash K cap inv hj hne
      omega

/-- THE START PRESERVES THE INVARIANT: kill at any instant, restart, carry on (and be killed again) -/
theorem open_inv (hInj : InjOn hash K) (hcap : 1 ≤ cap) {s : St} (inv : Inv hash K cap s) (ht : s.torn = false) :
    Inv hash K cap (openSt hash cap true s.crash) := by
  have hnle := numFiles_le_all s
  have hplen : (openSt hash cap true s.crash).prev.length = numFiles s.crash.files := by
    rw [open_prev, List.length_map, List.length_take]
    omega
  have hprevok : ∀ c ∈ (openSt hash cap true s.crash).prev, ChunkOK hash K cap c ∧ Flushed c := by
    intro c hc
    rw [open_prev] at hc
    obtain ⟨c0, hc0, rfl⟩ := List.mem_map.mp hc
    have hm : c0 ∈ s.all := List.mem_of_mem_take hc0
    exact convC_ok hash K cap hcap (inv.chunks c0 hm) ((torn_iff s).mp ht c0 hm)
  have htree : ∀ k, K k → live (AMap.get (openSt hash cap true s.crash).tree (hash k)) =
      itemOfLast (lastOf k (memLog (openSt hash cap true s.crash))) := by
    intro k hk
    rw [open_memLog hash K cap inv, open_tree]
    exact open_tree_live hash K cap hInj hcap inv ht k hk
  have hmax := openedMax_spec hash K cap inv
  refine ⟨?_, cur_fresh hash cap, htree, ?_, ?_, ?_⟩
  · intro c hc
    simp only [St.all, List.mem_append, List.mem_singleton] at hc
    rcases hc with hc | hc
    · exact (hprevok c hc).1
    · rw [hc, open_head]; exact chunkOK_fresh hash K cap
  · rw [open_maxDumped, hplen]
    rcases hmax with ⟨_, h⟩ | ⟨t, hd, h⟩ | h
    · rw [h]; exact Nat.zero_le _
    · rw [h]; exact Nat.le_of_lt (usedDump_some hd).2
    · exact Nat.le_of_lt h
  · intro h; simp [openSt] at h
  · intro d hd
    cases hu : usedDump s.crash with
    | some t =>
      have hd' : (openSt hash cap true s.crash).dump = some t := by simp [openSt, hu]
      rw [hd'] at hd
      cases hd
      obtain ⟨hdump, htn⟩ := usedDump_some hu
      rw [crash_dump] at hdump
      obtain ⟨hts, A, B, hAB, htc, _, hfl, htr⟩ := inv.dump d hdump
      have hokA : ∀ c ∈ A, ChunkOK hash K cap c := fun c hc => inv.chunks c (by rw [hAB]; simp [hc])
      refine ⟨hts, (A.take (numFiles s.crash.files)).map (convC hash cap),
        (B.take (numFiles s.crash.files - A.length)).map (convC hash cap) ++ [({} : CrashHint.Chunk)], ?_, ?_, by simp, ?_, ?_⟩
      · simp only [St.all]
        rw [open_prev, open_head, hAB, List.take_append, List.map_append, List.append_assoc]
      · rw [List.length_map, List.length_take]; omega
      · intro c hc
        obtain ⟨c0, hc0, rfl⟩ := List.mem_map.mp hc
        have hm : c0 ∈ s.all := by rw [hAB]; simp [List.mem_of_mem_take hc0]
        exact (convC_ok hash K cap hcap (inv.chunks c0 hm) ((torn_iff s).mp ht c0 hm)).2
      · intro k hk
        rw [htr k hk]
        congr 2
        -- the files the dump knows: nothing changes for them; those beyond `newHead` are empty
        have e1 : ((A.take (numFiles s.crash.files)).map (convC hash cap)).map (·.recs) =
            (A.take (numFiles s.crash.files)).map (·.recs) := by
          rw [List.map_map]
          apply List.map_congr_left
          intro c hc
          have hcA : c ∈ A := List.mem_of_mem_take hc
          show durOf c.recs c.onDisk = c.recs
          rw [hfl c hcA]
          exact dur_full (hokA c hcA).contig
        have e2 : A.map (·.recs) = (A.take (numFiles s.crash.files)).map (·.recs) ++
            (A.drop (numFiles s.crash.files)).map (·.recs) := by
          rw [← List.map_append, List.take_append_drop]
        rw [e1, e2]
        unfold logOf
        rw [logFrom_append]
        have e3 : logFrom (0 + ((A.take (numFiles s.crash.files)).map (·.recs)).length)
            ((A.drop (numFiles s.crash.files)).map (·.recs)) = [] := by
          apply logFrom_empties
          intro f hf
          obtain ⟨c, hc, rfl⟩ := List.mem_map.mp hf
          have hcA : c ∈ A := List.mem_of_mem_drop hc
          have hcd : c ∈ s.all.drop (numFiles s.crash.files) := by
            rw [hAB, List.drop_append]
            exact List.mem_append_left _ hc
          have := dur_dropped hash K cap inv c hcd
          rw [hfl c hcA, dur_full (hokA c hcA).contig] at this
          exact this
        rw [e3, List.append_nil]
    | none =>
      have hd' : (openSt hash cap true s.crash).dump =
          (if numFiles s.crash.files = 0 ∨ (openedMax hash cap true s.crash).2 < 0 then none
           else some { tc := (openedMax hash cap true s.crash).1, ts := (openedMax hash cap true s.crash).2,
                       tree := openedTree hash cap true s.crash }) := by simp [openSt, hu]
      rw [hd'] at hd
      by_cases hg : numFiles s.crash.files = 0 ∨ (openedMax hash cap true s.crash).2 < 0
      · simp [hg] at hd
      · simp only [hg, if_false, Option.some.injEq] at hd
        subst hd
        have hlt : (openedMax hash cap true s.crash).1 < numFiles s.crash.files := by
          rcases hmax with ⟨_, h⟩ | ⟨t, hd, _⟩ | h
          · exfalso; apply hg; right; rw [h]; decide
          · rw [hu] at hd; cases hd
          · exact h
        refine ⟨by simp only; omega, (openSt hash cap true s.crash).prev, [({} : CrashHint.Chunk)], rfl, ?_, by simp,
          fun c hc => (hprevok c hc).2, ?_⟩
        · simp only; rw [hplen]; exact hlt
        · intro k hk
          have := htree k hk
          rw [open_tree] at this
          simp only
          rw [this]
          congr 2
          unfold memLog St.all logOf
          rw [List.map_append, logFrom_append]
          have : logFrom (0 + ((openSt hash cap true s.crash).prev.map (·.recs)).length)
              ([(openSt hash cap true s.crash).head].map (·.recs)) = [] := by
            apply logFrom_empties
            intro f hf
            simp [open_head] at hf
            exact hf
          rw [this, List.append_nil]

end Open
end CrashHintLemmas
