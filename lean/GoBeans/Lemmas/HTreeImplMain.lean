/-
  Lazy Merkle tree (C08), main theorems about Model/HTreeImpl.lean (the inner levels of store/htree.go).

  `Inv` = shape ∧ `TreeInv` (a node flagged isHashUpdated holds exactly the fold of what is below it, and everything
  below it is flagged) ∧ `LeavesInv` (leaf summaries = sums over their items; items routed to their leaf) ∧ height ≥ 2.
  It holds for `newHTree`, and is preserved by every call (set / remove / movePos / Update / ListDir) — hence for every
  sequence of calls and every pattern of stale flags.  Under it every reader, after the lazy update it triggers
  itself, returns the SPECIFICATION (`Tree.nodeSum` / `Tree.listBucket`) of the current content (the items of all
  leaves): lazy invalidation never serves a stale summary.  The one reader that does NOT update first
  (`HStore.NumKey`, `stats curr_items`) returns the number of live keys at the time of the last refresh of the root.
  Core-only.
-/
import GoBeans.Lemmas.HTreeImplContent
set_option linter.unusedSimpArgs false
set_option linter.unusedVariables false
namespace HTreeImplLemmas
open Tree TreeLemmas HTreeImpl

/-! ### digits of a listing path -/

theorem digitsVal_fold (ds : List Nat) (a : Nat) :
    ds.foldl (fun a d => a * 16 + d) a = a * 16 ^ ds.length + digitsVal ds := by
  induction ds generalizing a with
  | nil => simp [digitsVal]
  | cons d ds ih =>
    unfold digitsVal
    rw [List.foldl_cons, List.foldl_cons, ih, ih (0 * 16 + d), List.length_cons, Nat.pow_succ, Nat.add_mul, Nat.zero_mul,
      Nat.zero_add, Nat.mul_assoc, Nat.mul_comm (16 ^ ds.length) 16, Nat.add_assoc]

theorem digitsVal_append (a b : List Nat) : digitsVal (a ++ b) = digitsVal a * 16 ^ b.length + digitsVal b := by
  unfold digitsVal
  rw [List.foldl_append, digitsVal_fold]
  rfl

theorem digitsVal_cons (d : Nat) (ds : List Nat) : digitsVal (d :: ds) = d * 16 ^ ds.length + digitsVal ds := by
  have := digitsVal_append [d] ds
  simpa [digitsVal] using this

theorem digitsVal_lt (ds : List Nat) (h : ∀ d ∈ ds, d < 16) : digitsVal ds < 16 ^ ds.length := by
  induction ds with
  | nil => simp [digitsVal]
  | cons d ds ih =>
    have h1 : d < 16 := h d (by simp)
    have h2 := ih (fun x hx => h x (by simp [hx]))
    rw [digitsVal_cons, List.length_cons, Nat.pow_succ]
    have : d * 16 ^ ds.length ≤ 15 * 16 ^ ds.length := Nat.mul_le_mul_right _ (by omega)
    omega

/-- the value of the first `n` digits -/
theorem digitsVal_take (ds : List Nat) (n : Nat) (h : ∀ d ∈ ds, d < 16) (hn : n ≤ ds.length) :
    digitsVal ds / 16 ^ (ds.length - n) = digitsVal (ds.take n) := by
  have hl : (ds.drop n).length = ds.length - n := List.length_drop
  have hlt := digitsVal_lt (ds.drop n) (fun d hd => h d (List.mem_of_mem_drop hd))
  rw [hl] at hlt
  have hv : digitsVal ds = digitsVal (ds.take n) * 16 ^ (ds.length - n) + digitsVal (ds.drop n) := by
    rw [← hl, ← digitsVal_append, List.take_append_drop]
  rw [hv, Nat.add_comm, Nat.add_mul_div_right _ _ (Nat.pow_pos (by decide)), Nat.div_eq_of_lt hlt, Nat.zero_add]

theorem topDigits_shift (kh n L : Nat) (h1 : n ≤ L) (h2 : L ≤ 16) : topDigits kh L / 16 ^ (L - n) = topDigits kh n := by
  unfold topDigits
  rw [Nat.div_div_eq_div_mul, ← Nat.pow_add]
  congr 2; omega

/-! ### the invariant -/

structure Inv (t : HTree) : Prop where
  shape : Shape t
  tree : TreeInv t
  leaves : LeavesInv t
  h2 : 2 ≤ t.height

/-- same parameters (depth, bucket, height) -/
def SameParams (t s : HTree) : Prop := s.depth = t.depth ∧ s.bucketID = t.bucketID ∧ s.height = t.height

theorem SameParams.refl (t : HTree) : SameParams t t := ⟨rfl, rfl, rfl⟩
theorem SameParams.trans {a b c : HTree} (h1 : SameParams a b) (h2 : SameParams b c) : SameParams a c :=
  ⟨h2.1.trans h1.1, h2.2.1.trans h1.2.1, h2.2.2.trans h1.2.2⟩

theorem leavesInv_congr (t s : HTree) (h1 : s.leaves = t.leaves) (h2 : s.depth = t.depth) (h3 : s.bucketID = t.bucketID)
    (h4 : s.inner.length = t.inner.length) (inv : LeavesInv t) : LeavesInv s := by
  have hh : s.height = t.height := by unfold HTree.height; rw [h4]
  have hl : ∀ j, s.leaf j = t.leaf j := by intro j; unfold HTree.leaf; rw [h1]
  refine ⟨fun j => by rw [hl]; exact inv.leaf j, ?_⟩
  intro j x hx
  rw [hl] at hx
  rw [h2, h3, hh]
  exact inv.routed j x hx

theorem content_congr (t s : HTree) (h : s.leaves = t.leaves) : content s = content t := by
  unfold content; rw [h]

/-- the tree `newHTree` returns -/
def fresh (depth bid height : Nat) : HTree :=
  ⟨depth, bid, (List.range (height - 1)).map (fun i => List.replicate (16 ^ i) {}), List.replicate (16 ^ (height - 1)) {}⟩

theorem newHTree_eq (depth bid height : Nat) (t : HTree) (h : newHTree depth bid height = some t) :
    t = fresh depth bid height ∧ depth + height ≤ 8 ∧ 1 ≤ height := by
  unfold newHTree at h
  by_cases h1 : depth + height > Gen.MAX_DEPTH
  · rw [if_pos h1] at h; exact absurd h (by simp)
  · by_cases h0 : height = 0
    · rw [if_neg h1, if_pos h0] at h; exact absurd h (by simp)
    · rw [if_neg h1, if_neg h0] at h
      refine ⟨(Option.some.inj h).symm, ?_, by omega⟩
      unfold Gen.MAX_DEPTH at h1; omega

theorem fresh_height (depth bid height : Nat) (h : 1 ≤ height) : (fresh depth bid height).height = height := by
  simp [fresh, HTree.height]; omega

theorem fresh_innerNode (depth bid height l o : Nat) : (fresh depth bid height).innerNode l o = {} := by
  simp only [fresh, HTree.innerNode, List.getD_eq_getElem?_getD, List.getElem?_map]
  by_cases hl : l < height - 1
  · rw [List.getElem?_range hl]
    simp only [Option.map_some, Option.getD_some]
    by_cases ho : o < 16 ^ l
    · rw [List.getElem?_replicate, if_pos ho]; rfl
    · rw [List.getElem?_replicate, if_neg ho]; rfl
  · have : (List.range (height - 1))[l]? = none := List.getElem?_eq_none (by simpa using hl)
    rw [this]; rfl

theorem fresh_leaf (depth bid height j : Nat) : (fresh depth bid height).leaf j = {} := by
  simp only [fresh, HTree.leaf, List.getD_eq_getElem?_getD, List.getElem?_replicate]
  split <;> rfl

/-- `newHTree`: all inner flags false, leaves empty -/
theorem newHTree_inv (depth bid height : Nat) (t : HTree) (h : newHTree depth bid height = some t) (hh : 2 ≤ height) :
    Inv t ∧ t.depth = depth ∧ t.bucketID = bid ∧ t.height = height ∧ content t = [] := by
  obtain ⟨rfl, hb, h1⟩ := newHTree_eq depth bid height t h
  have hheight := fresh_height depth bid height h1
  have hflag : ∀ l o, ((fresh depth bid height).node l o).upd = true → l + 1 = height := by
    intro l o hf
    by_cases hl : l + 1 = height
    · exact hl
    · rw [node_inner _ _ _ (by rw [hheight]; exact hl), fresh_innerNode] at hf
      exact absurd hf (by decide)
  refine ⟨⟨?_, ?_, ?_, by rw [hheight]; exact hh⟩, rfl, rfl, hheight, ?_⟩
  · refine ⟨?_, ?_, ?_⟩
    · intro l hl
      have hl' : l < height - 1 := by simpa [fresh] using hl
      simp only [fresh, List.getD_eq_getElem?_getD, List.getElem?_map, List.getElem?_range hl']
      simp
    · simp [fresh]
    · rw [hheight]; exact hb
  · refine ⟨?_, ?_⟩
    · intro l o hf
      have hl := hflag l o hf
      rw [node_leaf _ _ _ (by rw [hheight]; exact hl)]
      have : (fresh depth bid height).height - 1 - l = 0 := by rw [hheight]; omega
      rw [this]; rfl
    · intro l o i _ hf hl1
      have hl := hflag l o hf
      rw [hheight] at hl1; omega
  · refine ⟨?_, ?_⟩
    · intro j; rw [fresh_leaf]; exact leaf_init
    · intro j x hx; rw [fresh_leaf] at hx; exact absurd hx (by simp)
  · simp [content, fresh]

/-! ### writers keep the invariant -/

/-- the key belongs to this bucket: its first `depth` digits are the bucket id (`KeyInfo.Prepare` routes by them) -/
def KeyOk (t : HTree) (kh : Nat) : Prop := topDigits kh t.depth = t.bucketID

/-- the key's leaf-level prefix is the prefix of the leaf `getLeaf` selects -/
def LeafKeyOk (t : HTree) (kh : Nat) : Prop :=
  topDigits kh (t.depth + t.height - 1) = t.bucketID * 16 ^ (t.height - 1) + leafOffset t kh

theorem keyOk_leaf (t : HTree) (kh : Nat) (hs : Shape t) (h : KeyOk t kh) : LeafKeyOk t kh := by
  unfold LeafKeyOk leafOffset
  have hb := hs.bound
  have h1 : 1 ≤ t.height := by unfold HTree.height; omega
  have e : t.depth + t.height - 1 = t.depth + (t.height - 1) := by omega
  rw [e, topDigits_offsetAt _ _ _ (by omega), h]

/-- common part of set / remove: invalidate, then replace the leaf by a consistent one -/
theorem touch_inv (t t1 : HTree) (kh : Nat) (lf : Leaf) (inv : Inv t) (g : GLRes t t1 (leafOffset t kh))
    (h1 : LeafInv lf)
    (h2 : ∀ x ∈ lf.items, topDigits x.khash (t.depth + t.height - 1) = t.bucketID * 16 ^ (t.height - 1) + leafOffset t kh) :
    Inv (t1.setLeaf (leafOffset t kh) lf) ∧ SameParams t (t1.setLeaf (leafOffset t kh) lf) := by
  have hh1 : t1.height = t.height := by unfold HTree.height; rw [g.len]
  have li1 : LeavesInv t1 := leavesInv_congr t t1 g.leaves g.depth g.bid g.len inv.leaves
  refine ⟨⟨shape_setLeaf _ _ _ (g.shape inv.shape), ?_, ?_, by rw [height_setLeaf, hh1]; exact inv.h2⟩,
    g.depth, g.bid, by rw [height_setLeaf, hh1]⟩
  · refine treeInv_touch t t1 (t1.setLeaf (leafOffset t kh) lf) (leafOffset t kh) inv.tree g rfl ?_
    intro j hj
    rw [leaf_setLeaf, if_neg (by intro h; exact hj h.1.symm)]
  · apply leavesInv_setLeaf t1 _ lf li1 h1
    rw [g.depth, g.bid, hh1]; exact h2

theorem untouched_inv (t t1 : HTree) (off : Nat) (inv : Inv t) (g : GLRes t t1 off) : Inv t1 ∧ SameParams t t1 := by
  have hh1 : t1.height = t.height := by unfold HTree.height; rw [g.len]
  refine ⟨⟨g.shape inv.shape, ?_, leavesInv_congr t t1 g.leaves g.depth g.bid g.len inv.leaves, by rw [hh1]; exact inv.h2⟩,
    g.depth, g.bid, hh1⟩
  exact treeInv_touch t t1 t1 off inv.tree g rfl (fun _ _ => rfl)

theorem set_inv (t : HTree) (e : Ent) (inv : Inv t) (hk : LeafKeyOk t e.khash) :
    ∃ t', HTreeImpl.set t e = some t' ∧ Inv t' ∧ SameParams t t' := by
  obtain ⟨t1, hg, g⟩ := getLeafAndInvalidNodes_spec t e.khash inv.h2
  refine ⟨t1.setLeaf (leafOffset t e.khash) ((t1.leaf (leafOffset t e.khash)).set e), ?_, ?_⟩
  · unfold HTreeImpl.set; rw [hg]
  · have hl : t1.leaf (leafOffset t e.khash) = t.leaf (leafOffset t e.khash) := by unfold HTree.leaf; rw [g.leaves]
    apply touch_inv t t1 e.khash _ inv g
    · rw [hl]; exact leaf_set_inv _ _ (inv.leaves.leaf _)
    · intro x hx
      rw [hl] at hx
      rcases mem_set_items _ _ _ hx with hx | rfl
      · exact inv.leaves.routed _ x hx
      · exact hk

theorem remove_inv (t : HTree) (kh : Nat) (p : Bool) (inv : Inv t) :
    ∃ t', remove t kh p = some t' ∧ Inv t' ∧ SameParams t t' := by
  obtain ⟨t1, hg, g⟩ := getLeafAndInvalidNodes_spec t kh inv.h2
  cases p with
  | false =>
    refine ⟨t1, ?_, untouched_inv t t1 _ inv g⟩
    unfold remove; rw [hg]; rfl
  | true =>
    refine ⟨t1.setLeaf (leafOffset t kh) ((t1.leaf (leafOffset t kh)).remove kh), ?_, ?_⟩
    · unfold remove; rw [hg]; rfl
    · have hl : t1.leaf (leafOffset t kh) = t.leaf (leafOffset t kh) := by unfold HTree.leaf; rw [g.leaves]
      apply touch_inv t t1 kh _ inv g
      · rw [hl]; exact leaf_remove_inv _ _ (inv.leaves.leaf _)
      · intro x hx
        rw [hl] at hx
        exact inv.leaves.routed _ x (mem_remove_items _ _ _ hx)

theorem find_khash (lf : Leaf) (kh : Nat) (it : Ent) (h : lf.find kh = some it) : it.khash = kh ∧ it ∈ lf.items := by
  unfold Leaf.find at h
  have h1 := List.find?_some h
  have h2 := List.mem_of_find?_eq_some h
  exact ⟨by simpa using h1, h2⟩

theorem movePos_inv (t : HTree) (kh : Nat) (p : Bool) (inv : Inv t) :
    ∃ t', movePos t kh p = some t' ∧ Inv t' ∧ SameParams t t' := by
  unfold movePos
  cases hf : get t kh with
  | none => exact ⟨t, rfl, inv, SameParams.refl t⟩
  | some it =>
    cases p with
    | false => exact ⟨t, rfl, inv, SameParams.refl t⟩
    | true =>
      simp only [if_true]
      obtain ⟨hk, hm⟩ := find_khash _ _ _ hf
      apply set_inv t it inv
      unfold LeafKeyOk
      have := inv.leaves.routed _ it hm
      rw [hk]; rw [hk] at this
      exact this

/-! ### readers -/

/-- a flagged node holds the SPECIFICATION of the content below it -/
theorem flagged_exact (t : HTree) (inv : Inv t) (l o : Nat) (hl : l + 1 ≤ t.height) (ho : o < 16 ^ l)
    (hf : (t.node l o).upd = true) :
    ((t.node l o).count, (t.node l o).hash)
      = nodeSum (content t) (t.depth + l) (t.bucketID * 16 ^ l + o) (t.height - 1 - l) := by
  rw [inv.tree.exact l o hf, nodeSum_eq_subSum t inv.shape inv.leaves (t.height - 1 - l) l o (by omega) ho]

structure ReadRes (t : HTree) (level offset : Nat) (r : HTree × Node) : Prop where
  inv : Inv r.1
  params : SameParams t r.1
  leaves : r.1.leaves = t.leaves
  exact : (r.2.count, r.2.hash)
    = nodeSum (content t) (t.depth + level) (t.bucketID * 16 ^ level + offset) (t.height - 1 - level)
  ret : r.2 = r.1.node level offset
  flagged : r.2.upd = true
  frame : Frame level t r.1

/-- **the lazy update returns the specification**: whatever the pattern of stale flags, `updateNodes(level, offset)`
    returns (count, hash) = `Tree.nodeSum` of the current content at that node, and leaves the invariant intact -/
theorem updateAt_exact (t : HTree) (level offset : Nat) (inv : Inv t) (hl : level + 1 ≤ t.height) (ho : offset < 16 ^ level) :
    ReadRes t level offset (updateAt t level offset) := by
  unfold updateAt
  have r := updateNodes_spec (t.height - 1 - level) t level offset inv.shape inv.tree (by omega) ho
  have hh := r.ext.height
  have hinv : Inv (updateNodes (t.height - 1 - level) t level offset).1 :=
    ⟨r.shape, r.inv, leavesInv_congr t _ r.ext.leaves r.ext.depth r.ext.bid r.ext.len inv.leaves, by rw [hh]; exact inv.h2⟩
  refine ⟨hinv, ⟨r.ext.depth, r.ext.bid, hh⟩, r.ext.leaves, ?_, r.ret, r.flagged, r.frame⟩
  have hf := r.flagged
  rw [r.ret] at hf ⊢
  rw [flagged_exact _ hinv level offset (by rw [hh]; exact hl) ho hf, content_congr _ _ r.ext.leaves, r.ext.depth, r.ext.bid, hh]

/-- `HTree.Update` returns the root summary of the content -/
theorem update_exact (t : HTree) (inv : Inv t) :
    ((update t).2.count, (update t).2.hash) = nodeSum (content t) t.depth t.bucketID (t.height - 1) ∧
    Inv (update t).1 ∧ SameParams t (update t).1 ∧ content (update t).1 = content t := by
  have r := updateAt_exact t 0 0 inv (by have := inv.h2; omega) (by simp)
  refine ⟨?_, r.inv, r.params, content_congr _ _ r.leaves⟩
  have := r.exact
  simpa [update] using this

/-- the path handed to `ListDir`: at most 16 hex digits, the first `depth` of them naming this bucket -/
structure PathOk (t : HTree) (ds : List Nat) : Prop where
  len : ds.length ≤ 16
  digits : ∀ d ∈ ds, d < 16
  bucket : t.depth ≤ ds.length → digitsVal (ds.take t.depth) = t.bucketID

theorem listPos_eq (t : HTree) (ds : List Nat) :
    (if ds.length = t.depth then ((0 : Nat), (0 : Nat)) else getNodePos t ds) = getNodePos t ds := by
  by_cases h : ds.length = t.depth
  · rw [if_pos h]
    unfold getNodePos
    have h1 : min ds.length (t.depth + t.height - 1) = t.depth := by
      have : 1 ≤ t.height := by unfold HTree.height; omega
      omega
    simp only [h1, Nat.sub_self]
    have : (ds.take t.depth).drop t.depth = [] := by
      rw [List.drop_eq_nil_iff, List.length_take]; omega
    rw [this]; rfl
  · rw [if_neg h]

/-- where `getNode` lands: level, offset, and the prefix value of that node -/
theorem getNodePos_spec (t : HTree) (ds : List Nat) (hp : PathOk t ds) (hd : t.depth ≤ ds.length) (h1 : 1 ≤ t.height) :
    let l := min ds.length (t.depth + t.height - 1)
    (getNodePos t ds).1 = l - t.depth ∧ (getNodePos t ds).1 + 1 ≤ t.height ∧ (getNodePos t ds).2 < 16 ^ (getNodePos t ds).1 ∧
    digitsVal (ds.take l) = t.bucketID * 16 ^ (getNodePos t ds).1 + (getNodePos t ds).2 ∧ t.depth + (getNodePos t ds).1 = l := by
  intro l
  have hl : l = min ds.length (t.depth + t.height - 1) := rfl
  have hld : t.depth ≤ l := by omega
  have hlL : l ≤ ds.length := by omega
  have e1 : (getNodePos t ds).1 = l - t.depth := rfl
  have e2 : (getNodePos t ds).2 = digitsVal ((ds.take l).drop t.depth) := rfl
  have hlen : ((ds.take l).drop t.depth).length = l - t.depth := by rw [List.length_drop, List.length_take]; omega
  have hdig : ∀ d ∈ (ds.take l).drop t.depth, d < 16 :=
    fun d hd => hp.digits d (List.mem_of_mem_take (List.mem_of_mem_drop hd))
  have hlt := digitsVal_lt _ hdig
  rw [hlen] at hlt
  refine ⟨e1, by omega, by rw [e1, e2]; exact hlt, ?_, by omega⟩
  have hsplit : ds.take l = (ds.take l).take t.depth ++ (ds.take l).drop t.depth := (List.take_append_drop _ _).symm
  have htt : (ds.take l).take t.depth = ds.take t.depth := by rw [List.take_take]; congr 1; omega
  rw [hsplit, digitsVal_append, htt, hp.bucket hd, hlen, e1, e2]

theorem sub_congr (s t : HTree) (h : s.leaves = t.leaves) (below o : Nat) : sub s below o = sub t below o := by
  unfold sub; rw [h]

theorem listBucket_unfold (c : Content) (depth height thr : Nat) (ds : List Nat) :
    listBucket c depth height thr ds =
      if min ds.length (depth + height - 1) - depth ≥ height - 1 ∨
          (nodeSum c (min ds.length (depth + height - 1)) (digitsVal (ds.take (min ds.length (depth + height - 1))))
            (height - 1 - (min ds.length (depth + height - 1) - depth))).1 < thr
      then .items (under c ds.length (digitsVal ds))
      else .nodes ((List.range 16).map (fun i =>
        ((nodeSum c (min ds.length (depth + height - 1) + 1)
            (digitsVal (ds.take (min ds.length (depth + height - 1))) * 16 + i)
            (height - 2 - (min ds.length (depth + height - 1) - depth))).2,
         (nodeSum c (min ds.length (depth + height - 1) + 1)
            (digitsVal (ds.take (min ds.length (depth + height - 1))) * 16 + i)
            (height - 2 - (min ds.length (depth + height - 1) - depth))).1))) := rfl

/-- the mask comparison of `listDir` selects the items whose top `L` digits are the path -/
theorem keepItem_eq (ds : List Nat) : keepItem ds = (fun e => topDigits e.khash ds.length == digitsVal ds) := by
  funext e
  unfold keepItem maskTop pathKeyHash topDigits
  have hpos : 0 < 16 ^ (16 - ds.length) := Nat.pow_pos (by decide)
  by_cases h : e.khash / 16 ^ (16 - ds.length) = digitsVal ds
  · simp [h]
  · have : ¬ (e.khash / 16 ^ (16 - ds.length) * 16 ^ (16 - ds.length) = digitsVal ds * 16 ^ (16 - ds.length)) :=
      fun h' => h (Nat.eq_of_mul_eq_mul_right hpos h')
    rw [beq_false_of_ne this, beq_false_of_ne h]

/-- **`listDir` = the specification `Tree.listBucket` of the current content**, for every pattern of stale flags -/
theorem listDir_exact (t : HTree) (thr : Nat) (ds : List Nat) (inv : Inv t) (hp : PathOk t ds) (hd : t.depth ≤ ds.length) :
    (listDir t thr ds).2 = listBucket (content t) t.depth t.height thr ds ∧
    Inv (listDir t thr ds).1 ∧ SameParams t (listDir t thr ds).1 ∧ (listDir t thr ds).1.leaves = t.leaves := by
  have h1 : 1 ≤ t.height := by have := inv.h2; omega
  obtain ⟨e1, e2, e3, e4, e5⟩ := getNodePos_spec t ds hp hd h1
  unfold listDir
  simp only [listPos_eq, keepItem_eq]
  generalize hpos : getNodePos t ds = pos at *
  generalize hl : min ds.length (t.depth + t.height - 1) = l at *
  have r := updateAt_exact t pos.1 pos.2 inv e2 e3
  rw [listBucket_unfold, hl, ← e1]
  have hnode : nodeSum (content t) l (digitsVal (ds.take l)) (t.height - 1 - pos.1)
      = ((updateAt t pos.1 pos.2).2.count, (updateAt t pos.1 pos.2).2.hash) := by
    rw [r.exact, e4, e5]
  rw [hnode]
  by_cases hc : pos.1 ≥ t.height - 1 ∨ (updateAt t pos.1 pos.2).2.count < thr
  · rw [if_pos hc, if_pos hc]
    refine ⟨?_, r.inv, r.params, r.leaves⟩
    simp only []
    congr 1
    rw [collectItems_eq, sub_congr _ t r.leaves, ← under_content t inv.shape inv.leaves pos.1 pos.2 e2 e3]
    unfold under
    rw [List.filter_filter]
    apply List.filter_congr
    intro x _
    by_cases hx : topDigits x.khash ds.length = digitsVal ds
    · have h2 : topDigits x.khash (t.depth + pos.1) = t.bucketID * 16 ^ pos.1 + pos.2 := by
        rw [e5, ← e4, ← topDigits_shift x.khash l ds.length (by omega) hp.len, hx, digitsVal_take ds l hp.digits (by omega)]
      simp [hx, h2]
    · simp [hx]
  · rw [if_neg hc, if_neg hc]
    refine ⟨?_, r.inv, r.params, r.leaves⟩
    simp only []
    congr 1
    apply List.map_congr_left
    intro i hi
    have hi' : i < 16 := List.mem_range.mp hi
    have hlev : pos.1 + 1 < t.height := by omega
    have hf : ((updateAt t pos.1 pos.2).1.node (pos.1 + 1) (pos.2 * 16 + i)).upd = true := by
      apply r.inv.tree.down pos.1 pos.2 i hi'
      · rw [← r.ret]; exact r.flagged
      · rw [r.params.2.2]; exact hlev
    have hex := flagged_exact _ r.inv (pos.1 + 1) (pos.2 * 16 + i) (by rw [r.params.2.2]; omega)
      (by rw [Nat.pow_succ]; omega) hf
    rw [content_congr _ _ r.leaves, r.params.1, r.params.2.1, r.params.2.2] at hex
    have ea : l + 1 = t.depth + (pos.1 + 1) := by omega
    have eb : digitsVal (ds.take l) * 16 + i = t.bucketID * 16 ^ (pos.1 + 1) + (pos.2 * 16 + i) := by
      rw [e4, Nat.pow_succ, ← Nat.mul_assoc]; omega
    have ec : t.height - 2 - pos.1 = t.height - 1 - (pos.1 + 1) := by omega
    rw [ea, eb, ec, ← hex]

/-! ### every call, every sequence of calls -/

/-- what the callers of the tree guarantee: a key set into the tree belongs to its bucket; a listing path has at
    most 16 hex digits and (when long enough) names the bucket -/
def OpOk (t : HTree) : Op → Prop
  | .set e => KeyOk t e.khash
  | .list _ ds => PathOk t ds
  | _ => True

/-- what a call must return according to the SPECIFICATION, as a function of the content `c` alone -/
def specOut (t : HTree) (c : Content) : Op → Out
  | .update => .node (nodeSum c t.depth t.bucketID (t.height - 1)).1 (nodeSum c t.depth t.bucketID (t.height - 1)).2
  | .list thr ds => if ds.length < t.depth then .err else .listing (listBucket c t.depth t.height thr ds)
  | _ => .done

def isReader : Op → Bool
  | .update => true
  | .list _ _ => true
  | _ => false

theorem opOk_params {t s : HTree} (h : SameParams t s) (op : Op) (ok : OpOk t op) : OpOk s op := by
  cases op with
  | set e => unfold OpOk KeyOk at *; rw [h.1, h.2.1]; exact ok
  | list thr ds =>
    unfold OpOk at *
    exact ⟨ok.len, ok.digits, by rw [h.1, h.2.1]; exact ok.bucket⟩
  | remove _ _ => trivial
  | movePos _ _ => trivial
  | update => trivial

theorem specOut_params {t s : HTree} (h : SameParams t s) (c : Content) (op : Op) : specOut s c op = specOut t c op := by
  cases op <;> simp [specOut, h.1, h.2.1, h.2.2]

/-- **one call**: it does not panic, keeps the invariant, and its output is the specification of the current content;
    readers do not change the content -/
theorem step_exact (t : HTree) (op : Op) (inv : Inv t) (ok : OpOk t op) :
    ∃ t' out, step t op = some (t', out) ∧ Inv t' ∧ SameParams t t' ∧ out = specOut t (content t) op ∧
      (isReader op = true → content t' = content t) := by
  cases op with
  | set e =>
    obtain ⟨t', h1, h2, h3⟩ := set_inv t e inv (keyOk_leaf t e.khash inv.shape ok)
    exact ⟨t', .done, by simp [step, h1], h2, h3, rfl, by simp [isReader]⟩
  | remove kh p =>
    obtain ⟨t', h1, h2, h3⟩ := remove_inv t kh p inv
    exact ⟨t', .done, by simp [step, h1], h2, h3, rfl, by simp [isReader]⟩
  | movePos kh p =>
    obtain ⟨t', h1, h2, h3⟩ := movePos_inv t kh p inv
    exact ⟨t', .done, by simp [step, h1], h2, h3, rfl, by simp [isReader]⟩
  | update =>
    obtain ⟨h1, h2, h3, h4⟩ := update_exact t inv
    refine ⟨(update t).1, _, rfl, h2, h3, ?_, fun _ => h4⟩
    unfold specOut
    rw [← h1]
  | list thr ds =>
    by_cases hd : ds.length < t.depth
    · refine ⟨t, .err, by simp [step, ListDir, hd], inv, SameParams.refl t, by simp [specOut, hd], fun _ => rfl⟩
    · obtain ⟨h1, h2, h3, h4⟩ := listDir_exact t thr ds inv ok (by omega)
      refine ⟨(listDir t thr ds).1, .listing (listDir t thr ds).2, by simp [step, ListDir, hd], h2, h3, ?_,
        fun _ => content_congr _ _ h4⟩
      simp [specOut, hd, h1]

/-- trees reachable from `t0` by calls whose arguments are admissible -/
inductive Reach (t0 : HTree) : HTree → Prop
  | init : Reach t0 t0
  | step (t t' : HTree) (op : Op) (out : Out) : Reach t0 t → OpOk t op → step t op = some (t', out) → Reach t0 t'

theorem reach_inv (t0 t : HTree) (inv0 : Inv t0) (h : Reach t0 t) : Inv t ∧ SameParams t0 t := by
  induction h with
  | init => exact ⟨inv0, SameParams.refl t0⟩
  | step t t' op out _ ok hs ih =>
    obtain ⟨t'', out', h1, h2, h3, _, _⟩ := step_exact t op ih.1 ok
    rw [hs] at h1
    have := Option.some.inj h1
    have e : t' = t'' := congrArg Prod.fst this
    subst e
    exact ⟨h2, ih.2.trans h3⟩

/-- **C08, lazy inner nodes never serve a stale summary.**  In every tree reachable from `newHTree` by ANY sequence
    of set / remove / movePos / Update / ListDir (so for every pattern of stale flags), every call returns exactly
    what the specification computes from the current content (the items of the leaves). -/
theorem C08_lazy_never_stale (depth bid height : Nat) (t0 t : HTree) (h0 : newHTree depth bid height = some t0)
    (hh : 2 ≤ height) (hr : Reach t0 t) (op : Op) (ok : OpOk t op) :
    ∃ t' out, step t op = some (t', out) ∧ out = specOut t0 (content t) op ∧ Reach t0 t' ∧
      (isReader op = true → content t' = content t) := by
  have inv0 := (newHTree_inv depth bid height t0 h0 hh).1
  obtain ⟨inv, hp⟩ := reach_inv t0 t inv0 hr
  obtain ⟨t', out, h1, _, _, h4, h5⟩ := step_exact t op inv ok
  exact ⟨t', out, h1, by rw [h4, specOut_params hp], Reach.step t t' op out hr ok h1, h5⟩

/-- **every level, every offset**: in a reachable tree, `updateNodes(level, offset)` returns the specification
    `Tree.nodeSum` of the content at that node, and the node it leaves behind is flagged and holds that value -/
theorem C08_every_node (depth bid height : Nat) (t0 t : HTree) (h0 : newHTree depth bid height = some t0)
    (hh : 2 ≤ height) (hr : Reach t0 t) (level offset : Nat) (hl : level < height) (ho : offset < 16 ^ level) :
    ((updateAt t level offset).2.count, (updateAt t level offset).2.hash)
      = nodeSum (content t) (depth + level) (bid * 16 ^ level + offset) (height - 1 - level) ∧
    (updateAt t level offset).2 = (updateAt t level offset).1.node level offset ∧
    content (updateAt t level offset).1 = content t := by
  obtain ⟨inv0, hd, hb, hhe, _⟩ := newHTree_inv depth bid height t0 h0 hh
  obtain ⟨inv, hp⟩ := reach_inv t0 t inv0 hr
  have r := updateAt_exact t level offset inv (by rw [hp.2.2, hhe]; omega) ho
  refine ⟨?_, r.ret, content_congr _ _ r.leaves⟩
  rw [r.exact, hp.1, hp.2.1, hp.2.2, hd, hb, hhe]

/-- a node found flagged is exact as it stands (no update needed) -/
theorem C08_flagged_is_exact (depth bid height : Nat) (t0 t : HTree) (h0 : newHTree depth bid height = some t0)
    (hh : 2 ≤ height) (hr : Reach t0 t) (level offset : Nat) (hl : level < height) (ho : offset < 16 ^ level)
    (hf : (t.node level offset).upd = true) :
    ((t.node level offset).count, (t.node level offset).hash)
      = nodeSum (content t) (depth + level) (bid * 16 ^ level + offset) (height - 1 - level) := by
  obtain ⟨inv0, hd, hb, hhe, _⟩ := newHTree_inv depth bid height t0 h0 hh
  obtain ⟨inv, hp⟩ := reach_inv t0 t inv0 hr
  rw [flagged_exact t inv level offset (by rw [hp.2.2, hhe]; omega) ho hf, hp.1, hp.2.1, hp.2.2, hd, hb, hhe]

theorem Reach.trans {a b c : HTree} (h1 : Reach a b) (h2 : Reach b c) : Reach a c := by
  induction h2 with
  | init => exact h1
  | step x y o out _ ok hs ih => exact Reach.step x y o out ih ok hs

/-! #### sequences (`run`) -/

def OpsOk (t : HTree) (ops : List Op) : Prop := ∀ op ∈ ops, OpOk t op

/-- a sequence of admissible calls never panics (height ≥ 2) and ends in a reachable tree -/
theorem run_total (t : HTree) (ops : List Op) (inv : Inv t) (ok : OpsOk t ops) :
    ∃ t' outs, run t ops = some (t', outs) ∧ Inv t' ∧ SameParams t t' ∧ Reach t t' ∧ outs.length = ops.length := by
  induction ops generalizing t with
  | nil => exact ⟨t, [], rfl, inv, SameParams.refl t, Reach.init, rfl⟩
  | cons op ops ih =>
    obtain ⟨t1, out, h1, h2, h3, _, _⟩ := step_exact t op inv (ok op (by simp))
    obtain ⟨t2, outs, g1, g2, g3, g4, g5⟩ := ih t1 h2 (fun o ho => opOk_params h3 o (ok o (by simp [ho])))
    have hr1 : Reach t t1 := Reach.step t t1 op out Reach.init (ok op (by simp)) h1
    exact ⟨t2, out :: outs, by simp [run, h1, g1], g2, h3.trans g3, hr1.trans g4, by simp [g5]⟩

theorem run_append (t : HTree) (a b : List Op) :
    run t (a ++ b) = match run t a with
      | none => none
      | some (t1, o1) => match run t1 b with
        | none => none
        | some (t2, o2) => some (t2, o1 ++ o2) := by
  induction a generalizing t with
  | nil => simp only [List.nil_append, run]; cases run t b with
    | none => rfl
    | some r => rfl
  | cons op a ih =>
    simp only [List.cons_append, run]
    cases hs : step t op with
    | none => rfl
    | some r =>
      obtain ⟨t1, o⟩ := r
      simp only []
      rw [ih t1]
      cases run t1 a with
      | none => rfl
      | some r1 =>
        obtain ⟨t2, o1⟩ := r1
        simp only []
        cases run t2 b with
        | none => rfl
        | some r2 => rfl

/-- **the output of the call at ANY position of ANY sequence** is the specification of the content at that moment -/
theorem run_output_exact (t : HTree) (pre post : List Op) (op : Op) (inv : Inv t) (ok : OpsOk t (pre ++ op :: post)) :
    ∃ t1 o1 t2 o2 out, run t pre = some (t1, o1) ∧ run t (pre ++ op :: post) = some (t2, o1 ++ out :: o2) ∧
      out = specOut t (content t1) op := by
  obtain ⟨t1, o1, h1, inv1, p1, _, _⟩ := run_total t pre inv (fun o ho => ok o (by simp [ho]))
  obtain ⟨ta, out, s1, inva, pa, s4, _⟩ := step_exact t1 op inv1 (opOk_params p1 op (ok op (by simp)))
  obtain ⟨t2, o2, h2, _, _, _, _⟩ := run_total ta post inva (fun o ho => opOk_params (p1.trans pa) o (ok o (by simp [ho])))
  refine ⟨t1, o1, t2, o2, out, h1, ?_, by rw [s4, specOut_params p1]⟩
  rw [run_append, h1]
  simp only [run, s1, h2]

/-! ### the reader that does NOT update first: `HStore.NumKey` (`stats curr_items`) -/

/-- the calls that refresh `levels[0][0]`: `Update`, and `ListDir` of the bucket's own path -/
def refreshesRoot (t : HTree) : Op → Bool
  | .update => true
  | .list _ ds => ds.length == t.depth
  | _ => false

theorem root_spec_count (t : HTree) (inv : Inv t) :
    (nodeSum (content t) t.depth t.bucketID (t.height - 1)).1 = liveCount (content t) := by
  have hb := inv.shape.bound
  have h2 := inv.h2
  rw [node_count (content t) (t.height - 1) t.depth t.bucketID (by omega)]
  have := under_content t inv.shape inv.leaves 0 0 (by omega) (by simp)
  simp only [Nat.pow_zero, Nat.mul_one, Nat.add_zero, Nat.sub_zero] at this
  rw [this, ← content_eq_sub t inv.shape]

theorem rootCount_touch (t t1 : HTree) (off : Nat) (lf : Leaf) (inv : Inv t) (g : GLRes t t1 off) :
    rootCountNoUpdate (t1.setLeaf off lf) = rootCountNoUpdate t ∧ rootCountNoUpdate t1 = rootCountNoUpdate t := by
  have hh1 : t1.height = t.height := by unfold HTree.height; rw [g.len]
  have h2 := inv.h2
  have key : (t1.innerNode 0 0).count = (t.innerNode 0 0).count := by
    by_cases hc : Cleared t.height off 0 0
    · rw [g.hit 0 0 hc]; rfl
    · rw [g.miss 0 0 hc]
  unfold rootCountNoUpdate
  rw [node_inner (t1.setLeaf off lf) 0 0 (by rw [height_setLeaf, hh1]; omega), node_inner t1 0 0 (by rw [hh1]; omega),
    node_inner t 0 0 (by omega), innerNode_setLeaf]
  exact ⟨key, key⟩

theorem listDir_fst (t : HTree) (thr : Nat) (ds : List Nat) :
    (listDir t thr ds).1 = (updateAt t (getNodePos t ds).1 (getNodePos t ds).2).1 := by
  unfold listDir
  simp only [listPos_eq]
  split <;> rfl

/-- **what `curr_items` shows**: a writer never changes `levels[0][0].count` (it only clears the flag), a reader
    of a node below the root does not touch it either; only `Update` and the listing of the bucket root refresh it -
    to the number of live keys of the content at that moment -/
theorem rootCount_step (t t' : HTree) (op : Op) (out : Out) (inv : Inv t) (ok : OpOk t op)
    (hs : step t op = some (t', out)) :
    rootCountNoUpdate t' = if refreshesRoot t op then liveCount (content t') else rootCountNoUpdate t := by
  have h2 := inv.h2
  cases op with
  | set e =>
    obtain ⟨t1, hg, g⟩ := getLeafAndInvalidNodes_spec t e.khash inv.h2
    have : t' = t1.setLeaf (leafOffset t e.khash) ((t1.leaf (leafOffset t e.khash)).set e) := by
      simp [step, HTreeImpl.set, hg] at hs; exact hs.1.symm
    rw [this]; simp only [refreshesRoot]
    exact (rootCount_touch t t1 _ _ inv g).1
  | remove kh p =>
    obtain ⟨t1, hg, g⟩ := getLeafAndInvalidNodes_spec t kh inv.h2
    simp only [refreshesRoot]
    cases p with
    | false =>
      have : t' = t1 := by simp [step, remove, hg] at hs; exact hs.1.symm
      rw [this]; exact (rootCount_touch t t1 _ {} inv g).2
    | true =>
      have : t' = t1.setLeaf (leafOffset t kh) ((t1.leaf (leafOffset t kh)).remove kh) := by
        simp [step, remove, hg] at hs; exact hs.1.symm
      rw [this]; exact (rootCount_touch t t1 _ _ inv g).1
  | movePos kh p =>
    simp only [refreshesRoot]
    cases hf : get t kh with
    | none =>
      have : t' = t := by simp [step, movePos, hf] at hs; exact hs.1.symm
      rw [this]; rfl
    | some it =>
      cases p with
      | false =>
        have : t' = t := by simp [step, movePos, hf] at hs; exact hs.1.symm
        rw [this]; rfl
      | true =>
        obtain ⟨t1, hg, g⟩ := getLeafAndInvalidNodes_spec t it.khash inv.h2
        have : t' = t1.setLeaf (leafOffset t it.khash) ((t1.leaf (leafOffset t it.khash)).set it) := by
          simp [step, movePos, hf, HTreeImpl.set, hg] at hs; exact hs.1.symm
        rw [this]
        exact (rootCount_touch t t1 _ _ inv g).1
  | update =>
    have : t' = (update t).1 := by simp [step] at hs; exact hs.1.symm
    rw [this]
    simp only [refreshesRoot, if_true]
    obtain ⟨h1, hinv, _, h4⟩ := update_exact t inv
    have r := updateAt_exact t 0 0 inv (by omega) (by simp)
    unfold rootCountNoUpdate
    show ((updateAt t 0 0).1.node 0 0).count = _
    rw [← r.ret, h4, ← root_spec_count t inv]
    have := congrArg Prod.fst h1
    simpa [update] using this
  | list thr ds =>
    by_cases hd : ds.length < t.depth
    · have : t' = t := by simp [step, ListDir, hd] at hs; exact hs.1.symm
      rw [this]
      have : refreshesRoot t (.list thr ds) = false := by simp [refreshesRoot]; omega
      rw [this]; rfl
    · have ht : t' = (listDir t thr ds).1 := by simp [step, ListDir, hd] at hs; exact hs.1.symm
      rw [ht, listDir_fst]
      have h1 : 1 ≤ t.height := by omega
      obtain ⟨e1, e2, e3, e4, e5⟩ := getNodePos_spec t ds ok (by omega) h1
      have r := updateAt_exact t (getNodePos t ds).1 (getNodePos t ds).2 inv e2 e3
      by_cases hroot : ds.length = t.depth
      · have hr : refreshesRoot t (.list thr ds) = true := by simp [refreshesRoot, hroot]
        rw [hr, if_pos rfl]
        have hlev : (getNodePos t ds).1 = 0 := by rw [e1]; omega
        have hoff : (getNodePos t ds).2 = 0 := by have := e3; rw [hlev] at this; simpa using this
        unfold rootCountNoUpdate
        have hex := r.exact
        rw [hlev, hoff] at hex r ⊢
        rw [← r.ret, content_congr _ _ r.leaves, ← root_spec_count t inv]
        have := congrArg Prod.fst hex
        simpa using this
      · have hr : refreshesRoot t (.list thr ds) = false := by simp [refreshesRoot, hroot]
        rw [hr]
        have hlev : 0 < (getNodePos t ds).1 := by rw [e1]; omega
        unfold rootCountNoUpdate
        rw [r.frame 0 0 hlev]; rfl

/-- the value `NumKey` reports after a run, told from the contents along the run: the live-key count at the last
    refresh of the root, `seen` if there was none -/
def seenAfter : HTree → Nat → List Op → Nat
  | _, seen, [] => seen
  | t, seen, op :: ops =>
    match step t op with
    | none => seen
    | some (t1, _) => seenAfter t1 (if refreshesRoot t op then liveCount (content t1) else seen) ops

theorem rootCount_run (t t' : HTree) (ops : List Op) (outs : List Out) (inv : Inv t) (ok : OpsOk t ops)
    (hr : run t ops = some (t', outs)) : rootCountNoUpdate t' = seenAfter t (rootCountNoUpdate t) ops := by
  induction ops generalizing t outs with
  | nil => simp [run] at hr; rw [← hr.1]; rfl
  | cons op ops ih =>
    obtain ⟨t1, out, h1, h2, h3, _, _⟩ := step_exact t op inv (ok op (by simp))
    obtain ⟨t2, outs2, g1, _⟩ := run_total t1 ops h2 (fun o ho => opOk_params h3 o (ok o (by simp [ho])))
    have e : t' = t2 := by simp [run, h1, g1] at hr; exact hr.1.symm
    subst e
    have := ih t1 outs2 h2 (fun o ho => opOk_params h3 o (ok o (by simp [ho]))) g1
    rw [this, rootCount_step t t1 op out inv (ok op (by simp)) h1]
    simp only [seenAfter, h1]

/-- writers alone never move the reported count: after any number of set / remove / movePos the tree still reports
    what it reported before (0 for a tree that was never listed), whatever its content has become -/
theorem rootCount_writers_only (t t' : HTree) (ops : List Op) (outs : List Out) (inv : Inv t) (ok : OpsOk t ops)
    (hw : ∀ op ∈ ops, isReader op = false) (hr : run t ops = some (t', outs)) :
    rootCountNoUpdate t' = rootCountNoUpdate t := by
  induction ops generalizing t outs with
  | nil => simp [run] at hr; rw [← hr.1]
  | cons op ops ih =>
    obtain ⟨t1, out, h1, h2, h3, _, _⟩ := step_exact t op inv (ok op (by simp))
    obtain ⟨t2, outs2, g1, _⟩ := run_total t1 ops h2 (fun o ho => opOk_params h3 o (ok o (by simp [ho])))
    have e : t' = t2 := by simp [run, h1, g1] at hr; exact hr.1.symm
    subst e
    rw [ih t1 outs2 h2 (fun o ho => opOk_params h3 o (ok o (by simp [ho]))) (fun o ho => hw o (by simp [ho])) g1,
      rootCount_step t t1 op out inv (ok op (by simp)) h1]
    have : refreshesRoot t op = false := by
      have := hw op (by simp)
      cases op <;> simp [isReader, refreshesRoot] at this ⊢
    rw [this]; rfl

/-! ### `load` and `ListTop` -/

theorem treeInv_of_unflagged (t : HTree) (h : ∀ l o, (t.innerNode l o).upd = false) : TreeInv t := by
  have hflag : ∀ l o, (t.node l o).upd = true → l + 1 = t.height := by
    intro l o hf
    by_cases hl : l + 1 = t.height
    · exact hl
    · rw [node_inner _ _ _ hl, h] at hf; exact absurd hf (by decide)
  refine ⟨?_, ?_⟩
  · intro l o hf
    have hl := hflag l o hf
    rw [node_leaf _ _ _ hl]
    have : t.height - 1 - l = 0 := by omega
    rw [this]; rfl
  · intro l o i _ hf hl1
    have := hflag l o hf; omega

/-- `load` into a tree whose inner nodes are unflagged (as `newHTree` leaves them): if the dumped leaves are
    consistent (`LeavesInv`: summaries = sums over items, items in their leaves - the content of a dump written by
    `dump`, which is not re-checked by `load`), the loaded tree satisfies the invariant; all inner nodes are stale -/
theorem load_inv (t t' : HTree) (leaves : List Leaf) (hs : Shape t) (h2 : 2 ≤ t.height)
    (hfresh : ∀ l o, (t.innerNode l o).upd = false) (hl : load t leaves = some t') (hli : LeavesInv t') :
    Inv t' ∧ SameParams t t' ∧ (∀ l o, (t'.innerNode l o).upd = false) ∧ rootCountNoUpdate t' = rootCountNoUpdate t := by
  unfold load at hl
  by_cases hlen : leaves.length < 16 ^ (t.height - 1)
  · rw [if_pos hlen] at hl; exact absurd hl (by simp)
  · rw [if_neg hlen] at hl
    have ht := (Option.some.inj hl).symm
    subst ht
    have hinner : ∀ l o, HTree.innerNode { t with leaves := leaves.take (16 ^ (t.height - 1)) } l o = t.innerNode l o :=
      fun _ _ => rfl
    refine ⟨⟨⟨hs.rows, ?_, hs.bound⟩, treeInv_of_unflagged _ (fun l o => by rw [hinner]; exact hfresh l o), hli, h2⟩,
      ⟨rfl, rfl, rfl⟩, fun l o => by rw [hinner]; exact hfresh l o, ?_⟩
    · show (leaves.take (16 ^ (t.height - 1))).length = 16 ^ t.inner.length
      have : t.height - 1 = t.inner.length := by unfold HTree.height; omega
      rw [List.length_take, this]; rw [this] at hlen; omega
    · unfold rootCountNoUpdate
      rw [node_inner _ 0 0 (by show 0 + 1 ≠ t.height; omega), node_inner t 0 0 (by omega), hinner]

/-- `ListTop` keeps the invariant and the content -/
theorem listTop_inv (t : HTree) (inv : Inv t) (hp : PathOk t (listTopPath t.bucketID)) :
    Inv (listTop t) ∧ SameParams t (listTop t) ∧ content (listTop t) = content t := by
  unfold listTop ListDir
  by_cases hd : (listTopPath t.bucketID).length < t.depth
  · rw [if_pos hd]; exact ⟨inv, SameParams.refl t, rfl⟩
  · rw [if_neg hd]
    obtain ⟨_, h2, h3, h4⟩ := listDir_exact t Gen.ThresholdListKeyDefault (listTopPath t.bucketID) inv hp (by omega)
    exact ⟨h2, h3, content_congr _ _ h4⟩

/-- 16 buckets (depth 1): the path is the bucket's own digit, `ListTop` refreshes the root -/
theorem listTop_depth1 (t : HTree) (inv : Inv t) (hd : t.depth = 1) (hb : t.bucketID < 16) :
    rootCountNoUpdate (listTop t) = liveCount (content t) := by
  have hpath : listTopPath t.bucketID = [t.bucketID] := by unfold listTopPath; rw [if_pos hb]
  have hp : PathOk t [t.bucketID] :=
    ⟨by simp, by intro d h; simp at h; omega, by intro _; rw [hd]; simp [digitsVal]⟩
  have hstep : step t (.list Gen.ThresholdListKeyDefault [t.bucketID]) = some (listTop t, .listing (listDir t Gen.ThresholdListKeyDefault [t.bucketID]).2) := by
    simp [step, listTop, ListDir, hpath, hd]
  have := rootCount_step t _ (.list Gen.ThresholdListKeyDefault [t.bucketID]) _ inv hp hstep
  rw [this]
  have hr : refreshesRoot t (.list Gen.ThresholdListKeyDefault [t.bucketID]) = true := by simp [refreshesRoot, hd]
  rw [hr, if_pos rfl, (listTop_inv t inv (by rw [hpath]; exact hp)).2.2]

/-- 256 buckets (depth 2), bucket id below 16: "%x" gives ONE digit, `ListDir` answers "too short", nothing is updated -/
theorem listTop_depth2_small (t : HTree) (hd : t.depth = 2) (hb : t.bucketID < 16) : listTop t = t := by
  simp [listTop, ListDir, listTopPath, hb, hd]

/-- one bucket (depth 0, bucket 0): the path is "0", i.e. the level-1 node 0, not the root: the root count is not
    refreshed -/
theorem listTop_depth0 (t : HTree) (inv : Inv t) (hd : t.depth = 0) (hb : t.bucketID = 0) :
    rootCountNoUpdate (listTop t) = rootCountNoUpdate t := by
  have hpath : listTopPath t.bucketID = [0] := by unfold listTopPath; rw [hb]; rfl
  have hp : PathOk t [0] :=
    ⟨by decide, by intro d h; simp at h; omega, by intro _; rw [hd, hb]; rfl⟩
  have hstep : step t (.list Gen.ThresholdListKeyDefault [0]) = some (listTop t, .listing (listDir t Gen.ThresholdListKeyDefault [0]).2) := by
    simp [step, listTop, ListDir, hpath, hd]
  have := rootCount_step t _ (.list Gen.ThresholdListKeyDefault [0]) _ inv hp hstep
  rw [this]
  have hr : refreshesRoot t (.list Gen.ThresholdListKeyDefault [0]) = false := by simp [refreshesRoot, hd]
  rw [hr]; rfl

end HTreeImplLemmas
