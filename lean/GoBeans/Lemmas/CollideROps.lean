/-
  C13 (b) with restarts: the client operations under `RInv`.
-/
import GoBeans.Lemmas.CollideRPut
import GoBeans.Lemmas.CollideSafeOps2
set_option linter.unusedSimpArgs false
set_option linter.unusedVariables false
namespace CollideLemmas
open Store Spec HintIndex Collide StoreLemmas HintBufferLemmas

section
variable (hash : Key → Nat)

def StepOKR (cfg : Collide.Cfg) (st : State) (x : TrkR) (n : Nat) (op : Collide.Op) (x' : TrkR) : Prop :=
  RInv hash cfg (Collide.step hash cfg st op).1 x' (n + 1)
  ∧ (match Collide.cmdOf op with
     | some c => x'.t.m = (Spec.step {} x.t.m c).1 ∧ coarse (Collide.step hash cfg st op).2.1 = coarse (Spec.step {} x.t.m c).2
     | none => x'.t.m = x.t.m)

theorem inv_monoR {cfg : Collide.Cfg} {st : State} {x : TrkR} {n n' : Nat} (h : n ≤ n') (inv : RInv hash cfg st x n) :
    RInv hash cfg st x n' :=
  { inv with vers := fun y hy => by have := inv.vers y hy; omega }

theorem memMeta_boundR {cfg : Collide.Cfg} {st : State} {x : TrkR} {n : Nat} (inv : RInv hash cfg st x n) (k : Key) (mm : TItem)
    (h : st.memMeta hash k = some mm) : mm.ver.natAbs ≤ n := by
  rw [memMeta_eq] at h
  cases htg : tget st.ct (hash k) k with
  | some it =>
    rw [htg] at h
    simp only [Option.some.injEq] at h
    obtain ⟨_, _, _, _, r, hl, hv⟩ := inv.tab _ _ _ htg
    have := inv.vers _ (CollideLemmas.lastOf_mem hl)
    rw [← h]; simp only; rw [hv]; exact this
  | none =>
    rw [htg] at h
    simp only at h
    obtain ⟨o, r, _, _, _, hm, hv, _⟩ := inv.slot _ _ h
    have := inv.vers _ hm
    rw [hv]; exact this

theorem baseVer_boundR {cfg : Collide.Cfg} {st : State} {x : TrkR} {n : Nat} (inv : RInv hash cfg st x n) (k : Key) :
    (baseVer hash st k).natAbs ≤ n := by
  unfold baseVer
  cases hm : st.memMeta hash k with
  | none => simp
  | some it => exact memMeta_boundR hash inv k it hm

/-- the read part of get / meta / incr, with the reply-relevant facts about the reference entry -/
theorem read_cases {cfg : Collide.Cfg} {st : State} {x : TrkR} {n : Nat} (inv : RInv hash cfg st x n) (k : Key) :
    ((st.get hash k).2 = .miss ∧ (AMap.get x.t.m k = none ∨ ∃ e, AMap.get x.t.m k = some e ∧ e.ver < 0))
    ∨ (∃ p r e, (st.get hash k).2 = .found r r.ver p ∧ lastOf k st.b.log = some (p, r) ∧ AMap.get x.t.m k = some e
        ∧ r.ver ≠ 0 ∧ (r.ver > 0 ↔ e.ver > 0) ∧ (e.ver > 0 → e.flag = r.flag ∧ e.body = r.body ∧ e.ts = r.ts)
        ∧ r.body.length < 2^63 ∧ e.ver ≠ 0) := by
  obtain ⟨_, _, g3⟩ := get_specR hash inv k
  have hs := inv.spec k
  rcases g3 with g3 | ⟨g3, p, r, hl, hd⟩
  · cases hl : lastOf k st.b.log with
    | none =>
      rw [hl] at hs g3
      cases he : AMap.get x.t.m k with
      | none => exact Or.inl ⟨g3, Or.inl rfl⟩
      | some e => rw [he] at hs; exact hs.elim
    | some y =>
      obtain ⟨p, r⟩ := y
      rw [hl] at hs g3
      cases he : AMap.get x.t.m k with
      | none => rw [he] at hs; exact hs.elim
      | some e =>
        rw [he] at hs
        obtain ⟨a, b, c, d, e'⟩ := hs
        exact Or.inr ⟨p, r, e, g3, rfl, rfl, a, b, c, d, e'⟩
  · rw [hl] at hs
    cases he : AMap.get x.t.m k with
    | none => rw [he] at hs; exact hs.elim
    | some e =>
      rw [he] at hs
      obtain ⟨a, b, _, _, e'⟩ := hs
      simp only at a b
      refine Or.inl ⟨g3, Or.inr ⟨e, rfl, ?_⟩⟩
      have : ¬ e.ver > 0 := fun c => by have := b.mpr c; omega
      omega

theorem get_safeR {cfg : Collide.Cfg} {st : State} {x : TrkR} {n : Nat} (inv : RInv hash cfg st x n) (k : Key) :
    StepOKR hash cfg st x n (.get k) { x with t := x.t.afterGet hash k } := by
  obtain ⟨g1, _, _⟩ := get_specR hash inv k
  unfold StepOKR
  simp only [Collide.cmdOf, Collide.step, afterGet_m, Spec.step]
  refine ⟨?_, ?_, ?_⟩
  · have := inv_monoR hash (Nat.le_succ n) g1
    cases (st.get hash k).2 with
    | miss => exact this
    | err => exact this
    | found r v p => simp only; split <;> exact this
  · cases AMap.get x.t.m k with
    | none => rfl
    | some e => simp only; split <;> rfl
  · rcases read_cases hash inv k with ⟨h1, h2⟩ | ⟨p, r, e, h1, _, h3, h4, h5, h6, _, _⟩
    · rw [h1]
      rcases h2 with h2 | ⟨e, h2, h3⟩
      · rw [h2]
      · rw [h2]
        have : ¬ e.ver > 0 := by omega
        simp [this]
    · rw [h1, h3]
      simp only
      by_cases hv : r.ver > 0
      · have hev := h5.mp hv
        obtain ⟨a, b, _⟩ := h6 hev
        simp [hv, hev, a, b]
      · have hev : ¬ e.ver > 0 := fun c => hv (h5.mpr c)
        simp [hv, hev]

theorem info_safeR {cfg : Collide.Cfg} {st : State} {x : TrkR} {n : Nat} (inv : RInv hash cfg st x n) (k : Key) :
    StepOKR hash cfg st x n (.info k) { x with t := x.t.afterGet hash k } := by
  obtain ⟨g1, _, _⟩ := get_specR hash inv k
  unfold StepOKR
  simp only [Collide.cmdOf, Collide.step, afterGet_m, Spec.step]
  refine ⟨?_, ?_, ?_⟩
  · have := inv_monoR hash (Nat.le_succ n) g1
    cases (st.get hash k).2 with
    | miss => exact this
    | err => exact this
    | found r v p => exact this
  · cases AMap.get x.t.m k with
    | none => rfl
    | some e => rfl
  · rcases read_cases hash inv k with ⟨h1, h2⟩ | ⟨p, r, e, h1, _, h3, h4, h5, h6, h7, _⟩
    · rw [h1]
      rcases h2 with h2 | ⟨e, h2, h3⟩
      · rw [h2]
      · rw [h2]
        have : ¬ e.ver > 0 := by omega
        simp [coarse, this]
    · rw [h1, h3]
      simp only [coarse]
      by_cases hv : r.ver > 0
      · have hev := h5.mp hv
        obtain ⟨a, b, c⟩ := h6 hev
        simp [hv, hev, a, b, c, vhashOf_eq r.body h7]
      · have hev : ¬ e.ver > 0 := fun c => hv (h5.mpr c)
        simp [hv, hev]

theorem set_safeR {cfg : Collide.Cfg} (hcv : cfg.s.checkVHash = false) (hdf : cfg.s.dataFileMax < 4294967296) (hcap : 1 ≤ cfg.cap)
    {st : State} {x : TrkR} {n : Nat} (hn : n + 1 < 2147483647) (inv : RInv hash cfg st x n)
    (k : Key) (body : Bytes) (flag ts size : Nat) (hsz : 0 < size) (hbl : body.length < 2^63)
    (hw : x.restarted = true → x.t.writeOK hash k = true) :
    StepOKR hash cfg st x n (.set k body flag 0 ts size)
      { x with t := x.t.afterWrite hash k (Spec.step {} x.t.m (.set k body flag 0 ts)).1 } := by
  have hb := baseVer_boundR hash inv k
  unfold StepOKR
  simp only [Collide.cmdOf, Collide.step]
  rw [cas_set0 hash cfg hcv st k body flag (some ts) size ts (by omega), spec_set0]
  simp only [coarse, and_self, and_true, true_and]
  refine ⟨?_, rfl⟩
  apply put_invR hash hdf hcap inv _ hsz
  · simp only; omega
  · intro k' hk'
    exact AMap.get_set_ne _ _ _ _ (Ne.symm hk')
  · simp only [AMap.get_set_self, LogSpec]
    refine ⟨by omega, ⟨fun _ => by omega, fun _ => by omega⟩, fun _ => by simp, hbl, by omega⟩
  · exact hw

theorem written_of_mem_log {cfg : Collide.Cfg} {st : State} {x : TrkR} {n : Nat} (inv : RInv hash cfg st x n) {p : Pos} {r : Rec}
    (hm : (p, r) ∈ st.b.log) : r.key ∈ x.t.written := by
  rw [inv.wr r.key]
  cases hlo : lastOf r.key st.b.log with
  | some _ => rfl
  | none =>
    exfalso
    unfold lastOf at hlo
    rw [List.getLast?_eq_none_iff, List.filter_eq_nil_iff] at hlo
    exact hlo _ hm (by simp)

theorem memMeta_ownR {cfg : Collide.Cfg} {st : State} {x : TrkR} {n : Nat} (inv : RInv hash cfg st x n) (k : Key)
    (hok : k ∈ x.t.reg ∨ x.t.others hash k = []) :
    (st.memMeta hash k = none ∧ (lastOf k st.b.log = none ∨ ∃ p r, lastOf k st.b.log = some (p, r) ∧ r.ver < 0))
    ∨ (∃ mm p r, st.memMeta hash k = some mm ∧ lastOf k st.b.log = some (p, r) ∧ mm.ver = r.ver) := by
  rw [memMeta_eq]
  cases htg : tget st.ct (hash k) k with
  | some it =>
    obtain ⟨_, _, _, _, r, hl, hv⟩ := inv.tab _ _ _ htg
    exact Or.inr ⟨_, _, r, rfl, hl, hv⟩
  | none =>
    have hnr := not_reg_of_tget_noneR hash inv htg
    have hoth : x.t.others hash k = [] := by
      rcases hok with h | h
      · exact absurd h hnr
      · exact h
    simp only
    cases htr : AMap.get st.b.tree (hash k) with
    | none =>
      left
      refine ⟨rfl, ?_⟩
      cases hl : lastOf k st.b.log with
      | none => exact Or.inl rfl
      | some y =>
        obtain ⟨p, r⟩ := y
        right
        refine ⟨p, r, rfl, ?_⟩
        have hw : k ∈ x.t.written := (inv.wr k).mpr (by rw [hl]; rfl)
        have hs := inv.spec k
        rw [hl] at hs
        cases he : AMap.get x.t.m k with
        | none => rw [he] at hs; exact hs.elim
        | some e =>
          rw [he] at hs
          have hne := hs.1
          simp only at hne
          by_cases hd : r.ver < 0
          · exact hd
          · exfalso
            have hpos : r.ver > 0 := by omega
            rcases Bool.eq_false_or_eq_true x.restarted with hrs | hrs
            · obtain ⟨ti, hti⟩ := inv.own k hw (Or.inr ⟨hnr, p, r, hl, hpos⟩)
              rw [htr] at hti; cases hti
            · obtain ⟨ti, hti⟩ := inv.own k hw (Or.inl hrs)
              rw [htr] at hti; cases hti
    | some ti =>
      right
      obtain ⟨o, r, hho, _, hrk, hm, hv, hlast, _⟩ := inv.slot _ _ htr
      have how : o ∈ x.t.written := by rw [← hrk]; exact written_of_mem_log hash inv hm
      have hok' : o = k := by
        cases hd : decide (o = k) with
        | true => simpa using hd
        | false =>
          have hne : o ≠ k := by simpa using hd
          have := others_mem hash x.t how hho hne
          rw [hoth] at this; cases this
      subst hok'
      exact ⟨ti, ti.pos, r, rfl, hlast (Or.inr hnr), hv⟩

theorem writeOK_of_delete_ok (t : Trk) (k : Key) (hok : k ∈ t.reg ∨ t.others hash k = []) : t.writeOK hash k = true := by
  unfold Trk.writeOK
  rcases hok with h | h
  · have : t.det hash (hash k) = true := by
      unfold Trk.det; rw [List.any_eq_true]; exact ⟨k, h, by simp⟩
    simp [this]
  · simp [h]

theorem delete_safeR {cfg : Collide.Cfg} (hcv : cfg.s.checkVHash = false) (hdf : cfg.s.dataFileMax < 4294967296) (hcap : 1 ≤ cfg.cap)
    {st : State} {x : TrkR} {n : Nat} (hn : n + 1 < 2147483647) (inv : RInv hash cfg st x n)
    (k : Key) (size wts : Nat) (hsz : 0 < size) (hok : k ∈ x.t.reg ∨ x.t.others hash k = []) :
    StepOKR hash cfg st x n (.delete k size wts)
      { x with t := (if liveIn x.t.m k then x.t.afterWrite hash k (Spec.step {} x.t.m (.delete k)).1
                     else { x.t with m := (Spec.step {} x.t.m (.delete k)).1 }) } := by
  have hs := inv.spec k
  unfold StepOKR
  simp only [Collide.cmdOf, Collide.step]
  rcases memMeta_ownR hash inv k hok with ⟨hm, hl⟩ | ⟨mm, p, r, hm, hl, hv⟩
  · -- nothing to delete
    have hsp : Spec.step {} x.t.m (.delete k) = (x.t.m, .notFound) ∧ liveIn x.t.m k = false := by
      rcases hl with hl | ⟨p, r, hl, hd⟩
      · rw [hl] at hs
        cases he : AMap.get x.t.m k with
        | some e => rw [he] at hs; exact hs.elim
        | none => exact ⟨by unfold Spec.step; simp [he], by unfold liveIn; rw [he]⟩
      · rw [hl] at hs
        cases he : AMap.get x.t.m k with
        | none => rw [he] at hs; exact hs.elim
        | some e =>
          rw [he] at hs
          obtain ⟨_, h1, _, _, he0⟩ := hs
          simp only at h1
          have hneg : e.ver < 0 := by
            have : ¬ e.ver > 0 := fun c => by have := h1.mpr c; omega
            omega
          refine ⟨by unfold Spec.step; simp [he, hneg], ?_⟩
          unfold liveIn; rw [he]
          have : ¬ e.ver > 0 := by omega
          simp [this]
    rw [cas_del_none hash cfg st k size wts hm, hsp.1, hsp.2]
    simp only [coarse, Bool.false_eq_true, if_false, and_self, and_true]
    exact inv_monoR hash (Nat.le_succ n) inv
  · rw [hl] at hs
    cases he : AMap.get x.t.m k with
    | none => rw [he] at hs; exact hs.elim
    | some e =>
      rw [he] at hs
      obtain ⟨h0, h1, _, _, he0⟩ := hs
      simp only at h0 h1
      have hb := memMeta_boundR hash inv k mm hm
      by_cases hpos : r.ver > 0
      · have hev : e.ver > 0 := h1.mp hpos
        have hsp : Spec.step {} x.t.m (.delete k) = (AMap.set x.t.m k { ver := -(e.ver.natAbs : Int) - 1, flag := 0, body := [], ts := none }, .deleted) := by
          unfold Spec.step
          have : ¬ e.ver < 0 := by omega
          simp [he, this]
        have hlv : liveIn x.t.m k = true := by unfold liveIn; rw [he]; simp [hev]
        rw [cas_del_live hash cfg hcv st k size wts mm hm (by omega) (by omega), hsp, hlv]
        simp only [coarse, if_true, and_self, and_true]
        refine ⟨?_, rfl⟩
        apply put_invR hash hdf hcap inv _ hsz
        · simp only; omega
        · intro k' hk'
          exact AMap.get_set_ne _ _ _ _ (Ne.symm hk')
        · simp only [AMap.get_set_self, LogSpec]
          refine ⟨by omega, ⟨fun c => by omega, fun c => by omega⟩, fun c => by omega, by simp, by omega⟩
        · intro _; exact writeOK_of_delete_ok hash x.t k hok
      · have hneg : r.ver < 0 := by omega
        have hev : ¬ e.ver > 0 := fun c => hpos (h1.mpr c)
        have hsp : Spec.step {} x.t.m (.delete k) = (x.t.m, .notFound) := by
          unfold Spec.step
          have : e.ver < 0 := by omega
          simp [he, this]
        have hlv : liveIn x.t.m k = false := by unfold liveIn; rw [he]; simp [hev]
        rw [cas_del_dead hash cfg hcv st k size wts mm hm (by omega) (by omega), hsp, hlv]
        simp only [coarse, Bool.false_eq_true, if_false, and_self, and_true]
        exact inv_monoR hash (Nat.le_succ n) inv

end
end CollideLemmas
