/-
  The last record of a key, file by file (`lastIn`, `lastDown`) — the shape in which `hintMgr.getItem` finds it
  (data files from the newest down) — and its agreement with `lastOf k b.log`.
-/
import GoBeans.Model.Collide
import GoBeans.Lemmas.Log
set_option linter.unusedSimpArgs false
set_option linter.unusedVariables false
namespace CollideLemmas
open Store Spec HintIndex Collide StoreLemmas

/-- the last record of key `k` in one data file -/
def lastIn (k : Key) (recs : List (Nat × Rec)) : Option (Nat × Rec) := (recs.filter (fun p => p.2.key = k)).getLast?

/-- the last record of `k` in the files `n-1, …, 0`, searched from the newest file down -/
def lastDown (b : Bucket) (k : Key) : Nat → Option (Pos × Rec)
  | 0 => none
  | i + 1 =>
    match lastIn k (b.chunks i).recs with
    | some p => some (⟨i, p.1⟩, p.2)
    | none => lastDown b k i

theorem lastDown_succ (b : Bucket) (k : Key) (i : Nat) :
    lastDown b k (i + 1) = (match lastIn k (b.chunks i).recs with
      | some p => some (⟨i, p.1⟩, p.2)
      | none => lastDown b k i) := rfl

theorem lastOf_append (k : Key) (l1 l2 : List (Pos × Rec)) :
    lastOf k (l1 ++ l2) = (lastOf k l2).or (lastOf k l1) := by
  unfold lastOf
  rw [List.filter_append, List.getLast?_append]

theorem lastOf_recsAt (b : Bucket) (k : Key) (i : Nat) :
    lastOf k (recsAt b i) = (lastIn k (b.chunks i).recs).map (fun p => (⟨i, p.1⟩, p.2)) := by
  unfold lastOf recsAt lastIn
  rw [List.filter_map, List.getLast?_map]
  rfl

theorem lastOf_range (b : Bucket) (k : Key) (n : Nat) :
    lastOf k ((List.range n).flatMap (recsAt b)) = lastDown b k n := by
  induction n with
  | zero => rfl
  | succ n ih =>
    rw [List.range_succ, List.flatMap_append, lastOf_append, ih]
    simp only [List.flatMap_cons, List.flatMap_nil, List.append_nil]
    rw [lastOf_recsAt, lastDown_succ]
    cases lastIn k (b.chunks n).recs with
    | none => simp
    | some p => simp

/-- the last record of a key in the whole log = in the newest file that holds one -/
theorem lastOf_log (b : Bucket) (k : Key) : lastOf k b.log = lastDown b k (b.head + 1) := by
  rw [log_eq]; exact lastOf_range b k _

theorem lastDown_extend (b : Bucket) (k : Key) (n m : Nat) (hnm : n ≤ m) (he : ∀ c, n ≤ c → (b.chunks c).recs = []) :
    lastDown b k m = lastDown b k n := by
  induction m with
  | zero => have : n = 0 := by omega
            subst this; rfl
  | succ m ih =>
    by_cases hc : n = m + 1
    · subst hc; rfl
    · have hle : n ≤ m := by omega
      rw [lastDown_succ, he m hle]
      simp only [lastIn, List.filter_nil, List.getLast?_nil]
      exact ih hle

theorem lastIn_append_single (k : Key) (recs : List (Nat × Rec)) (x : Nat × Rec) :
    lastIn k (recs ++ [x]) = if x.2.key = k then some x else lastIn k recs := by
  unfold lastIn
  rw [List.filter_append]
  by_cases h : x.2.key = k
  · simp [List.filter, h]
  · simp [List.filter, h]

theorem lastIn_mem {k : Key} {recs : List (Nat × Rec)} {p : Nat × Rec} (h : lastIn k recs = some p) : p ∈ recs ∧ p.2.key = k := by
  unfold lastIn at h
  have := List.mem_of_getLast? h
  rw [List.mem_filter] at this
  exact ⟨this.1, by simpa using this.2⟩

theorem lastIn_none {k : Key} {recs : List (Nat × Rec)} : lastIn k recs = none ↔ ∀ p ∈ recs, p.2.key ≠ k := by
  unfold lastIn
  rw [List.getLast?_eq_none_iff, List.filter_eq_nil_iff]
  constructor
  · intro h p hp hk; exact h p hp (by simpa using hk)
  · intro h p hp hk; exact h p hp (by simpa using hk)

theorem lastDown_some {b : Bucket} {k : Key} {n : Nat} {p : Pos} {r : Rec} (h : lastDown b k n = some (p, r)) :
    p.chunk < n ∧ lastIn k (b.chunks p.chunk).recs = some (p.off, r) := by
  induction n with
  | zero => simp [lastDown] at h
  | succ n ih =>
    rw [lastDown_succ] at h
    cases hl : lastIn k (b.chunks n).recs with
    | some q =>
      rw [hl] at h
      simp only [Option.some.injEq, Prod.mk.injEq] at h
      obtain ⟨h1, h2⟩ := h
      subst h1; subst h2
      exact ⟨by simp, hl⟩
    | none =>
      rw [hl] at h
      obtain ⟨a, b'⟩ := ih h
      exact ⟨by omega, b'⟩

theorem lastDown_none {b : Bucket} {k : Key} {n : Nat} (h : lastDown b k n = none) : ∀ c, c < n → lastIn k (b.chunks c).recs = none := by
  induction n with
  | zero => intro c hc; omega
  | succ n ih =>
    rw [lastDown_succ] at h
    cases hl : lastIn k (b.chunks n).recs with
    | some q => rw [hl] at h; simp at h
    | none =>
      rw [hl] at h
      intro c hc
      by_cases hcn : c = n
      · subst hcn; exact hl
      · exact ih h c (by omega)

end CollideLemmas
