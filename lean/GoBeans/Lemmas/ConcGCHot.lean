/-
  GC beside clients: a GC micro-step leaves every chunk outside the GC range alone, hence preserves the clients'
  layout invariant `HotLay`.  Core-only.
-/
import GoBeans.Lemmas.ConcGCDInv

namespace ConcGC
open ConcFine

theorem gmicro_hot_chunks {cfg : GCfg} {s s' : State} (hc : GCtl s) (h : gmicro cfg s = some s') (c : Nat)
    (hx : ¬ X s c) : s'.base.chunks c = s.base.chunks c := by
  have hst : s.gc.started = true := by
    cases hs : s.gc.started with
    | true => rfl
    | false => simp [gmicro, hc.idle hs] at h
  have hcd : c ≠ s.gc.dst := by
    intro e
    apply hx; rw [X_iff]
    refine ⟨hst, ?_⟩
    have := (hc.rng hst).1
    rcases hc.dst hst with h1 | ⟨_, h1⟩ <;> omega
  have hcs : procPC s.gc.pc = true → c ≠ s.gc.src := by
    intro hp e
    apply hx; rw [X_iff]
    exact ⟨hst, by rw [e]; exact hc.srcp (Or.inl hp)⟩
  cases hpc : s.gc.pc with
  | gBegin =>
    simp only [gmicro, hpc, beginW] at h
    obtain rfl := Option.some.inj h
    split <;> simp [State.setChunk, ConcFine.State.setChunk, hcd]
  | gBeginW r f =>
    simp only [gmicro, hpc, beginW] at h
    obtain rfl := Option.some.inj h
    split <;> simp [State.setChunk, ConcFine.State.setChunk, hcd]
  | gEndW r f =>
    simp only [gmicro, hpc] at h
    obtain rfl := Option.some.inj h
    rw [endW_norew hc.norew]
  | gFinal =>
    simp only [gmicro, hpc] at h
    obtain rfl := Option.some.inj h
    rw [endW_norew hc.norew]; rfl
  | gCheck r =>
    simp only [gmicro, hpc, afterCheck] at h
    repeat' (split at h)
    all_goals (obtain rfl := Option.some.inj h; rfl)
  | gTail => exact absurd hpc hc.notail
  | gClearMem =>
    have hcs := hcs (by rw [hpc]; rfl)
    simp only [gmicro, hpc] at h
    obtain rfl := Option.some.inj h; simp [State.gcGoto, State.setChunk, ConcFine.State.setChunk, hcs]
  | gRemove =>
    have hcs := hcs (by rw [hpc]; rfl)
    simp only [gmicro, hpc] at h
    obtain rfl := Option.some.inj h; simp [State.gcGoto, State.setChunk, ConcFine.State.setChunk, hcs]
  | _ =>
    simp only [gmicro, hpc] at h
    repeat' (split at h)
    all_goals (first | contradiction | (obtain rfl := Option.some.inj h; simp [State.gcGoto, State.setChunk, ConcFine.State.setChunk, hcd]))

theorem flushOK_congr' {ch ch' : Nat → Chunk} {pc : PC} (h : ∀ c, flushTarget pc = some c → ch' c = ch c)
    (hf : FlushOK ch pc) : FlushOK ch' pc := by
  cases pc <;> simp_all [FlushOK, flushTarget]

theorem slotOK_congr' {ch ch' : Nat → Chunk} {hd : Nat} {pc : PC} (h : ch' hd = ch hd) (hs : SlotOK ch hd pc) :
    SlotOK ch' hd pc := by
  cases pc <;> simp_all [SlotOK]

theorem gmicro_hotlay {cfg : GCfg} {s s' : State} (hc : GCtl s) (hd : DInv s) (hh : HotLay (X s) s.base)
    (h : gmicro cfg s = some s') : HotLay (X s') s'.base := by
  obtain ⟨c1, c2, c3⟩ := gmicro_const h
  obtain ⟨t1, t2, _, _, t5, _⟩ := gmicro_thr h
  have hX : ∀ c, X s' c ↔ X s c := X_congr c1 c2
  have hst : s.gc.started = true := by
    cases hs : s.gc.started with
    | true => rfl
    | false => simp [gmicro, hc.idle hs] at h
  have hhot := gmicro_hot_chunks hc h
  have hxn : ∀ c, s.base.newHead ≤ c → ¬ X s c := by
    intro c hle hx; rw [X_iff] at hx; have := (hc.rng hst).2; omega
  have hprog : ∀ c, progress s'.base c = progress s.base c := by
    intro c; unfold progress; rw [t5, t1]
  refine ⟨?_, ?_, ?_, ?_⟩
  · intro c hx
    have hx' : ¬ X s c := fun e => hx ((hX c).2 e)
    rw [hhot c hx', hprog]; exact hh.ok c hx'
  · intro c hlt
    rw [t2] at hlt
    rw [hhot c (hxn c (by omega))]; exact hh.above c hlt
  · intro u
    rw [t1]
    exact flushOK_congr' (fun c hf => hhot c (hd.fltg u c hf)) (hh.fl u)
  · intro u
    rw [t1, t2]
    exact slotOK_congr' (hhot _ (hxn _ (Nat.le_refl _))) (hh.slot u)

end ConcGC
