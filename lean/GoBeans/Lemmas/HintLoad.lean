/-
  From the code's hint machinery to "some cut of the record sequence, one split file per run":
   * a hint chunk fed with ANY interleaving of `setItem` (one per record, in record order) and split closings
     (`HChunk.run`, capacity `SplitCap ≥ 1`) holds, split by split, the last item per key of consecutive runs of
     the records, with `maxoffset` between the end of its own records and the start of the next (`run_inv`);
   * after ANY subset of the split files has been removed, `checkHintWithData` (keep the gap-free prefix, rescan
     the data file from the largest `datasize` kept) yields split files of a cut of the whole record sequence
     (`load_fileHints`), and they again satisfy the on-disk invariant (`load_diskInv`: restarts can be repeated).
-/
import GoBeans.Lemmas.HintBuffer
import GoBeans.Lemmas.HintIndexCore
set_option linter.unusedSimpArgs false
set_option linter.unusedVariables false
namespace HintLoadLemmas
open Store Spec HintIndex HintBufferLemmas HintIndexLemmas

/-! ### `Set` calls and "last item per key" -/

theorem dedupLast_append_single (l : List Item) (x : Item) :
    dedupLast (l ++ [x]) = (dedupLast l).filter (fun y => !sameKey y x) ++ [x] := by
  induction l with
  | nil => simp [dedupLast]
  | cons y l ih =>
    have e : (y :: l) ++ [x] = y :: (l ++ [x]) := rfl
    rw [e]
    unfold dedupLast
    rw [List.any_append]
    by_cases h1 : l.any (sameKey y) = true
    · simp only [h1, Bool.true_or, if_true]; exact ih
    · simp only [h1, Bool.false_or, List.any_cons, List.any_nil, Bool.or_false]
      by_cases h2 : sameKey y x = true
      · simp only [h2, if_true, Bool.false_eq_true, if_false, List.filter_cons, Bool.not_true]
        exact ih
      · simp only [h2, Bool.false_eq_true, if_false, List.filter_cons, Bool.not_false, if_true]
        rw [ih]; rfl

theorem dedupLast_eq_nil {l : List Item} (h : dedupLast l = []) : l = [] := by
  induction l with
  | nil => rfl
  | cons x l ih =>
    unfold dedupLast at h
    by_cases hd : l.any (sameKey x) = true
    · simp only [hd, if_true] at h
      have := ih h
      subst this
      simp at hd
    · simp [hd] at h

theorem set_perm_filter {items : List Item} (hn : NodupKey items) {it : Item} :
    ∀ {i : Nat}, items.findIdx? (sameKey it) = some i →
      (items.set i it).Perm (items.filter (fun y => !sameKey y it) ++ [it]) := by
  induction items with
  | nil => intro i h; simp at h
  | cons y rest ih =>
    intro i h
    unfold NodupKey at hn
    rw [List.pairwise_cons] at hn
    rw [List.findIdx?_cons] at h
    by_cases hs : sameKey it y = true
    · simp only [hs, if_true, Option.some.injEq] at h
      subst h
      have hy : sameKey y it = true := by rw [sameKey_comm]; exact hs
      have hrest : rest.filter (fun z => !sameKey z it) = rest := by
        rw [List.filter_eq_self]
        intro z hz
        have h1 := hn.1 z hz
        cases h2 : sameKey z it with
        | false => rfl
        | true =>
          have : sameKey y z = true := sameKey_trans hy (by rw [sameKey_comm]; exact h2)
          rw [this] at h1; cases h1
      simp only [List.set_cons_zero, List.filter_cons, hy, Bool.not_true, Bool.false_eq_true, if_false, hrest]
      exact (List.perm_append_singleton it rest).symm
    · simp only [hs, Bool.false_eq_true, if_false] at h
      cases hf : rest.findIdx? (sameKey it) with
      | none => rw [hf] at h; simp at h
      | some j =>
        rw [hf] at h
        simp only [Option.map_some, Option.some.injEq] at h
        subst h
        have hy : sameKey y it = false := by rw [sameKey_comm]; simpa using hs
        simp only [List.set_cons_succ, List.filter_cons, hy, Bool.not_false, if_true, List.cons_append]
        exact (ih hn.2 hf).cons y

theorem slotSet_perm {cap : Nat} {items items' : List Item} {it : Item} (hn : NodupKey items)
    (h : slotSet cap items it = some items') :
    items'.Perm (items.filter (fun y => !sameKey y it) ++ [it]) := by
  unfold slotSet at h
  cases hf : items.findIdx? (sameKey it) with
  | some i =>
    rw [hf] at h
    simp only [Option.some.injEq] at h
    subst h
    exact set_perm_filter hn hf
  | none =>
    rw [hf] at h
    by_cases hc : items.length ≥ cap
    · simp [hc] at h
    · simp only [hc, if_false, Option.some.injEq] at h
      subst h
      rw [List.findIdx?_eq_none_iff] at hf
      have : items.filter (fun y => !sameKey y it) = items := by
        rw [List.filter_eq_self]
        intro z hz
        have := hf z hz
        rw [sameKey_comm] at this
        simp [this]
      rw [this]

/-- one accepted `Set` = "the last item per key" of the sequence extended by that item -/
theorem buf_perm_step {cap : Nat} {items items' l : List Item} {it : Item} (hn : NodupKey items)
    (hp : items.Perm (dedupLast l)) (h : slotSet cap items it = some items') :
    items'.Perm (dedupLast (l ++ [it])) := by
  rw [dedupLast_append_single]
  exact (slotSet_perm hn h).trans ((hp.filter _).append_right _)

/-! ### `Dump` writes a permutation of the slots -/

theorem insertSorted_perm (x : Item) (l : List Item) : (insertSorted x l).Perm (x :: l) := by
  induction l with
  | nil => exact List.Perm.refl _
  | cons y ys ih =>
    unfold insertSorted
    by_cases h : hintLess x y = true
    · simp [h]
    · simp only [h, Bool.false_eq_true, if_false]
      exact (ih.cons y).trans (List.Perm.swap x y ys)

theorem sortItems_perm (l : List Item) : (sortItems l).Perm l := by
  induction l with
  | nil => exact List.Perm.refl _
  | cons x l ih =>
    have e : sortItems (x :: l) = insertSorted x (sortItems l) := rfl
    rw [e]
    exact (insertSorted_perm x _).trans (ih.cons x)

/-! ### record offsets -/

/-- offsets inside a data file: a record ends (offset + padded size) at or before the start of the next one, and no
    record is empty.  `Store.Bucket.pushRec` writes every record at the writing head = end of the previous one. -/
def Contig (recs : FileRecs) : Prop :=
  recs.Pairwise (fun p q => p.1 + p.2.size ≤ q.1) ∧ ∀ p ∈ recs, 0 < p.2.size

theorem contig_tail {a b : FileRecs} (h : Contig (a ++ b)) : Contig b := by
  obtain ⟨h1, h2⟩ := h
  rw [List.pairwise_append] at h1
  exact ⟨h1.2.1, fun p hp => h2 p (by simp [hp])⟩

/-! ### the splits of a running chunk -/

section Run
variable (hash : Key → Nat)

/-- what split buffer `b` knows about its run `seg` of the records `all`; `after` = every record behind the run -/
structure SplitInv (scan : Bool) (all seg after : FileRecs) (b : Buf) : Prop where
  binv : BufInv b
  perm : b.items.Perm (dedupLast (seg.map (mkItem hash scan)))
  lower : ∀ p ∈ seg, p.1 + p.2.size ≤ b.maxoffset
  upper : ∀ q ∈ after, b.maxoffset ≤ q.1
  bound : b.maxoffset = 0 ∨ ∃ p ∈ all, b.maxoffset ≤ p.1 + p.2.size

def ClosedInv (scan : Bool) (all : FileRecs) : List FileRecs → List Buf → FileRecs → Prop
  | [], [], _ => True
  | s :: ss, b :: bs, tail => SplitInv hash scan all s (ss.flatten ++ tail) b ∧ ClosedInv scan all ss bs tail
  | _, _, _ => False

theorem closedInv_snoc (scan : Bool) (all : FileRecs) (s : FileRecs) (b : Buf) (tail : FileRecs) :
    ∀ (segs : List FileRecs) (bufs : List Buf), ClosedInv hash scan all segs bufs (s ++ tail) →
      SplitInv hash scan all s tail b → ClosedInv hash scan all (segs ++ [s]) (bufs ++ [b]) tail := by
  intro segs
  induction segs with
  | nil =>
    intro bufs h hs
    cases bufs with
    | nil => simpa [ClosedInv] using hs
    | cons _ _ => simp [ClosedInv] at h
  | cons s0 ss ih =>
    intro bufs h hs
    cases bufs with
    | nil => simp [ClosedInv] at h
    | cons b0 bs =>
      simp only [ClosedInv, List.cons_append] at h ⊢
      refine ⟨?_, ih bs h.2 hs⟩
      have : (ss ++ [s]).flatten ++ tail = ss.flatten ++ (s ++ tail) := by simp
      rw [this]; exact h.1

/-- state of a chunk after the records `pre`, before the records `rest` -/
def ChunkInv (scan : Bool) (all pre rest : FileRecs) (ck : HChunk) : Prop :=
  ∃ (segs : List FileRecs) (segLast : FileRecs), segs.flatten ++ segLast = pre ∧
    ClosedInv hash scan all segs ck.closed (segLast ++ rest) ∧ SplitInv hash scan all segLast rest ck.last

theorem splitInv_empty (scan : Bool) (all rest : FileRecs) : SplitInv hash scan all [] rest {} :=
  ⟨bufInv_empty, by simp [dedupLast], by simp, by simp, Or.inl rfl⟩

theorem chunkInv_init (scan : Bool) (all : FileRecs) : ChunkInv hash scan all [] all {} :=
  ⟨[], [], rfl, by simp [ClosedInv], splitInv_empty hash scan all all⟩

theorem step_rotate (scan : Bool) {all pre rest : FileRecs} {ck : HChunk} (cap : Nat)
    (inv : ChunkInv hash scan all pre rest ck) : ChunkInv hash scan all pre rest (ck.step cap .rotate) := by
  obtain ⟨segs, segLast, hfl, hc, hl⟩ := inv
  refine ⟨segs ++ [segLast], [], by simpa using hfl, ?_, splitInv_empty hash scan all rest⟩
  exact closedInv_snoc hash scan all segLast ck.last ([] ++ rest) segs ck.closed (by simpa using hc) (by simpa using hl)

theorem slotSet_nil (cap : Nat) (hcap : 1 ≤ cap) (it : Item) : slotSet cap [] it = some [it] := by
  unfold slotSet
  have : ¬ (([] : List Item).length ≥ cap) := by simp; omega
  simp only [List.findIdx?_nil, this, if_false, List.nil_append]

theorem step_set (scan : Bool) {all pre rest : FileRecs} {ck : HChunk} (cap : Nat) (hcap : 1 ≤ cap) (p : Nat × Rec)
    (hpa : p ∈ all) (hps : 0 < p.2.size) (hnext : ∀ q ∈ rest, p.1 + p.2.size ≤ q.1)
    (inv : ChunkInv hash scan all pre (p :: rest) ck) :
    ChunkInv hash scan all (pre ++ [p]) rest (ck.step cap (.set (mkItem hash scan p) p.2.size)) := by
  obtain ⟨segs, segLast, hfl, hc, hl⟩ := inv
  have hoff : (mkItem hash scan p).off = p.1 := by cases scan <;> rfl
  have hsi := set_items cap ck.last hl.binv (mkItem hash scan p) p.2.size
  have hmo := set_maxoffset cap ck.last (mkItem hash scan p) p.2.size
  have hbi := set_inv cap ck.last hl.binv (mkItem hash scan p) p.2.size
  rw [hoff] at hmo
  have hstep : ck.step cap (.set (mkItem hash scan p) p.2.size) = ck.setItem cap (mkItem hash scan p) p.2.size := rfl
  rw [hstep]
  unfold HChunk.setItem
  cases hss : slotSet cap ck.last.items (mkItem hash scan p) with
  | some items' =>
    -- accepted by the newest split
    rw [hss] at hsi
    simp only [Option.getD_some, Option.isSome_some] at hsi
    simp only [hsi.2, if_true]
    rw [hsi.2] at hmo
    simp only [if_true] at hmo
    refine ⟨segs, segLast ++ [p], by rw [← hfl]; simp, ?_, ?_⟩
    · have : (segLast ++ [p]) ++ rest = segLast ++ p :: rest := by simp
      rw [this]; exact hc
    · refine ⟨hbi, ?_, ?_, ?_, ?_⟩
      · rw [hsi.1, List.map_append]
        exact buf_perm_step hl.binv.nodup hl.perm hss
      · intro q hq
        rw [hmo]
        rcases List.mem_append.mp hq with hq | hq
        · have := hl.lower q hq
          split <;> omega
        · simp at hq; subst hq
          split <;> omega
      · intro q hq
        rw [hmo]
        have h1 := hl.upper q (List.mem_cons_of_mem _ hq)
        have h2 := hnext q hq
        split <;> omega
      · rw [hmo]
        split
        · exact Or.inr ⟨p, hpa, Nat.le_refl _⟩
        · exact hl.bound
  | none =>
    -- refused: the split is closed as it is (with `maxoffset` raised to the START of the record), a fresh one takes it
    rw [hss] at hsi
    simp only [Option.getD_none, Option.isSome_none] at hsi
    simp only [hsi.2, Bool.false_eq_true, if_false]
    rw [hsi.2] at hmo
    simp only [Bool.false_eq_true, if_false] at hmo
    have hnew := set_items cap {} bufInv_empty (mkItem hash scan p) p.2.size
    have hnmo := set_maxoffset cap {} (mkItem hash scan p) p.2.size
    have hnbi := set_inv cap {} bufInv_empty (mkItem hash scan p) p.2.size
    have hnil : ({} : Buf).items = [] := rfl
    have hz : ({} : Buf).maxoffset = 0 := rfl
    rw [hnil, slotSet_nil cap hcap] at hnew
    simp only [Option.getD_some, Option.isSome_some] at hnew
    rw [hnew.2, hoff, hz] at hnmo
    simp only [if_true] at hnmo
    refine ⟨segs ++ [segLast], [p], by rw [← hfl]; simp, ?_, ?_⟩
    · apply closedInv_snoc hash scan all segLast _ ([p] ++ rest) segs ck.closed (by simpa using hc)
      refine ⟨hbi, by rw [hsi.1]; exact hl.perm, ?_, ?_, ?_⟩
      · intro q hq
        rw [hmo]
        have := hl.lower q hq
        split <;> omega
      · intro q hq
        rw [hmo]
        have h1 := hl.upper q (by simpa using hq)
        simp at hq
        rcases hq with rfl | hq
        · split <;> omega
        · have h2 := hnext q hq
          split <;> omega
      · rw [hmo]
        split
        · exact Or.inr ⟨p, hpa, by omega⟩
        · exact hl.bound
    · refine ⟨hnbi, ?_, ?_, ?_, ?_⟩
      · rw [hnew.1]; simp [dedupLast]
      · intro q hq
        simp at hq; subst hq
        rw [hnmo]; split <;> omega
      · intro q hq
        have := hnext q hq
        rw [hnmo]; split <;> omega
      · rw [hnmo]
        split
        · exact Or.inr ⟨p, hpa, Nat.le_refl _⟩
        · exact Or.inl rfl

/-- an event: a record is indexed (`some`), or the newest split is closed (`none`) -/
def evOf (scan : Bool) : Option (Nat × Rec) → Ev
  | some p => .set (mkItem hash scan p) p.2.size
  | none => .rotate

/-- the chunk invariant holds after EVERY interleaving of per-record `setItem`s and split closings -/
theorem run_inv (scan : Bool) (cap : Nat) (hcap : 1 ≤ cap) (all : FileRecs) (hall : Contig all) :
    ∀ (es : List (Option (Nat × Rec))) (pre : FileRecs) (ck : HChunk), pre ++ es.filterMap id = all →
      ChunkInv hash scan all pre (es.filterMap id) ck →
      ChunkInv hash scan all all [] ((es.map (evOf hash scan)).foldl (HChunk.step cap) ck) := by
  intro es
  induction es with
  | nil =>
    intro pre ck hpre inv
    simp at hpre
    subst hpre
    simpa using inv
  | cons e es ih =>
    intro pre ck hpre inv
    cases e with
    | none =>
      simp only [List.filterMap_cons, id] at hpre inv
      simp only [List.map_cons, List.foldl_cons]
      exact ih pre _ hpre (step_rotate hash scan cap inv)
    | some p =>
      simp only [List.filterMap_cons, id] at hpre inv
      simp only [List.map_cons, List.foldl_cons]
      have hpa : p ∈ all := by rw [← hpre]; simp
      have hct : Contig (p :: es.filterMap id) := contig_tail (a := pre) (by rw [hpre]; exact hall)
      have hps : 0 < p.2.size := hct.2 p (by simp)
      have hnext : ∀ q ∈ es.filterMap id, p.1 + p.2.size ≤ q.1 := by
        have := hct.1
        rw [List.pairwise_cons] at this
        exact this.1
      apply ih (pre ++ [p]) _ (by rw [← hpre]; simp)
      exact step_set hash scan cap hcap p hpa hps hnext inv

theorem run_closed (scan : Bool) (cap : Nat) (hcap : 1 ≤ cap) (es : List (Option (Nat × Rec)))
    (hall : Contig (es.filterMap id)) :
    let ck := HChunk.run cap (es.map (evOf hash scan))
    ∃ segs : List FileRecs, segs.flatten = es.filterMap id ∧
      ClosedInv hash scan (es.filterMap id) segs (ck.closed ++ [ck.last]) [] := by
  intro ck
  have := run_inv hash scan cap hcap _ hall es [] {} (by simp) (chunkInv_init hash scan _)
  obtain ⟨segs, segLast, hfl, hc, hl⟩ := this
  refine ⟨segs ++ [segLast], by simpa using hfl, ?_⟩
  have hck : ck = (es.map (evOf hash scan)).foldl (HChunk.step cap) {} := rfl
  rw [hck]
  exact closedInv_snoc hash scan _ segLast _ [] segs _ (by simpa using hc) hl

end Run

/-! ### what is on disk -/

section Disk
variable (hash : Key → Nat)

/-- the split files of a chunk (`none` = no such file) against a cut `segs` of the records `all`: a file that exists
    holds the items of its non-empty run, and its `datasize` lies between the end of the run and the start of the
    next record; `tail` = the records behind the last run -/
def DiskInv (all : FileRecs) : List FileRecs → List (Option SplitFile) → FileRecs → Prop
  | [], [], _ => True
  | s :: ss, f :: fs, tail =>
    (match f with
     | none => True
     | some f => SplitFileOf hash s f.items ∧ s ≠ [] ∧ (∀ p ∈ s, p.1 + p.2.size ≤ f.datasize) ∧
        (∀ q ∈ ss.flatten ++ tail, f.datasize ≤ q.1) ∧ (f.datasize = 0 ∨ ∃ p ∈ all, f.datasize ≤ p.1 + p.2.size))
    ∧ DiskInv all ss fs tail
  | _, _, _ => False

/-- `HChunk.disk` of one buffer -/
def fileOfBuf (b : Buf) : Option SplitFile := if b.items.isEmpty then none else some b.dump

theorem disk_eq (ck : HChunk) : ck.disk = (ck.closed ++ [ck.last]).map fileOfBuf := rfl

theorem closed_disk (scan : Bool) (all : FileRecs) :
    ∀ (segs : List FileRecs) (bufs : List Buf) (tail : FileRecs), ClosedInv hash scan all segs bufs tail →
      DiskInv hash all segs (bufs.map fileOfBuf) tail := by
  intro segs
  induction segs with
  | nil =>
    intro bufs tail h
    cases bufs with
    | nil => simp [DiskInv]
    | cons _ _ => simp [ClosedInv] at h
  | cons s ss ih =>
    intro bufs tail h
    cases bufs with
    | nil => simp [ClosedInv] at h
    | cons b bs =>
      simp only [ClosedInv] at h
      simp only [List.map_cons, DiskInv]
      refine ⟨?_, ih bs tail h.2⟩
      unfold fileOfBuf
      by_cases he : b.items.isEmpty = true
      · simp [he]
      · simp only [he, Bool.false_eq_true, if_false]
        have hp : (sortItems b.items).Perm (dedupLast (s.map (mkItem hash scan))) :=
          (sortItems_perm _).trans h.1.perm
        refine ⟨⟨scan, hp⟩, ?_, h.1.lower, h.1.upper, h.1.bound⟩
        intro hs
        subst hs
        have := h.1.perm
        simp [dedupLast] at this
        simp [this] at he

/-- removing any subset of the files keeps the invariant -/
inductive Masked : List (Option SplitFile) → List (Option SplitFile) → Prop
  | nil : Masked [] []
  | keep {a l₁ l₂} : Masked l₁ l₂ → Masked (a :: l₁) (a :: l₂)
  | drop {a l₁ l₂} : Masked l₁ l₂ → Masked (a :: l₁) (none :: l₂)

theorem diskInv_masked (all : FileRecs) {d0 d : List (Option SplitFile)} (hm : Masked d0 d) :
    ∀ (segs : List FileRecs) (tail : FileRecs), DiskInv hash all segs d0 tail → DiskInv hash all segs d tail := by
  induction hm with
  | nil => intro segs tail h; exact h
  | keep _ ih =>
    intro segs tail h
    cases segs with
    | nil => simp [DiskInv] at h
    | cons s ss => simp only [DiskInv] at h ⊢; exact ⟨h.1, ih ss tail h.2⟩
  | drop _ ih =>
    intro segs tail h
    cases segs with
    | nil => simp [DiskInv] at h
    | cons s ss => simp only [DiskInv] at h ⊢; exact ⟨trivial, ih ss tail h.2⟩

theorem forall2_append {α β : Type} {R : α → β → Prop} {a₁ a₂ : List α} {b₁ b₂ : List β}
    (h1 : Forall2 R a₁ b₁) (h2 : Forall2 R a₂ b₂) : Forall2 R (a₁ ++ a₂) (b₁ ++ b₂) := by
  induction h1 with
  | nil => exact h2
  | cons hr _ ih => exact Forall2.cons hr ih

/-- kept prefix: `loadPrefix ∘ validPrefix` against the cut -/
theorem load_prefix (all : FileRecs) (dataSize : Nat) (hds : ∀ p ∈ all, p.1 + p.2.size ≤ dataSize) :
    ∀ (segs : List FileRecs) (disk : List (Option SplitFile)) (tail : FileRecs) (d0 : Nat),
      DiskInv hash all segs disk tail → (∀ q ∈ segs.flatten ++ tail, d0 ≤ q.1) →
      (d0 = 0 ∨ ∃ p ∈ all, d0 ≤ p.1 + p.2.size) →
      ∃ (segsA : List FileRecs) (R : FileRecs),
        Forall2 (SplitFileOf hash) segsA ((loadPrefix dataSize (validPrefix disk) d0).1.map (·.items)) ∧
        segsA.flatten ++ R = segs.flatten ∧
        (∀ p ∈ segsA.flatten, p.1 + p.2.size ≤ (loadPrefix dataSize (validPrefix disk) d0).2) ∧
        (∀ q ∈ R ++ tail, (loadPrefix dataSize (validPrefix disk) d0).2 ≤ q.1) ∧
        d0 ≤ (loadPrefix dataSize (validPrefix disk) d0).2 ∧
        ((loadPrefix dataSize (validPrefix disk) d0).2 = 0 ∨
          ∃ p ∈ all, (loadPrefix dataSize (validPrefix disk) d0).2 ≤ p.1 + p.2.size) ∧
        DiskInv hash all (segsA ++ [R]) ((loadPrefix dataSize (validPrefix disk) d0).1.map some ++ [none]) tail := by
  intro segs
  induction segs with
  | nil =>
    intro disk tail d0 h hup hb
    cases disk with
    | nil =>
      refine ⟨[], [], ?_⟩
      simp only [validPrefix, loadPrefix, List.map_nil]
      exact ⟨Forall2.nil, rfl, by simp, by simpa using hup, Nat.le_refl _, hb, by simp [DiskInv]⟩
    | cons _ _ => simp [DiskInv] at h
  | cons s ss ih =>
    intro disk tail d0 h hup hb
    cases disk with
    | nil => simp [DiskInv] at h
    | cons f fs =>
      simp only [DiskInv] at h
      cases f with
      | none =>
        refine ⟨[], (s :: ss).flatten, ?_⟩
        simp only [validPrefix, loadPrefix, List.map_nil]
        refine ⟨Forall2.nil, rfl, by simp, hup, Nat.le_refl _, hb, ?_⟩
        simp [DiskInv]
      | some f =>
        obtain ⟨⟨hsf, hne, hlo, hupf, hbf⟩, hrest⟩ := h
        have hle : ¬ f.datasize > dataSize := by
          rcases hbf with h0 | ⟨p, hp, hle⟩
          · omega
          · have := hds p hp; omega
        have hvp : validPrefix (some f :: fs) = f :: validPrefix fs := rfl
        have hlp : loadPrefix dataSize (f :: validPrefix fs) d0 =
            (f :: (loadPrefix dataSize (validPrefix fs) (if f.datasize < d0 then d0 else f.datasize)).1,
             (loadPrefix dataSize (validPrefix fs) (if f.datasize < d0 then d0 else f.datasize)).2) := by
          simp [loadPrefix, hle]
        rw [hvp, hlp]
        have hup1 : ∀ q ∈ ss.flatten ++ tail, (if f.datasize < d0 then d0 else f.datasize) ≤ q.1 := by
          intro q hq
          have h1 := hupf q hq
          have h2 := hup q (by simp at hq ⊢; rcases hq with hq | hq <;> simp [hq])
          split <;> omega
        have hb1 : (if f.datasize < d0 then d0 else f.datasize) = 0 ∨
            ∃ p ∈ all, (if f.datasize < d0 then d0 else f.datasize) ≤ p.1 + p.2.size := by
          split
          · exact hb
          · exact hbf
        obtain ⟨segsA, R, h1, h2, h3, h4, h5, h6, h7⟩ := ih fs tail _ hrest hup1 hb1
        refine ⟨s :: segsA, R, ?_, ?_, ?_, h4, ?_, h6, ?_⟩
        · exact Forall2.cons hsf h1
        · simp [← h2]
        · intro p hp
          simp at hp
          rcases hp with hp | hp
          · have := hlo p hp
            have : f.datasize ≤ (if f.datasize < d0 then d0 else f.datasize) := by split <;> omega
            simp only at h5 ⊢; omega
          · exact h3 p (by simpa using hp)
        · have : d0 ≤ (if f.datasize < d0 then d0 else f.datasize) := by split <;> omega
          simp only at h5 ⊢; omega
        · simp only [List.map_cons, List.cons_append, DiskInv]
          refine ⟨⟨hsf, hne, hlo, ?_, hbf⟩, h7⟩
          have : (segsA ++ [R]).flatten = ss.flatten := by simp [h2]
          rw [this]; exact hupf

/-- the split files built by a run: empty runs have no file -/
theorem closed_files (scan : Bool) (all : FileRecs) :
    ∀ (segs : List FileRecs) (bufs : List Buf) (tail : FileRecs), ClosedInv hash scan all segs bufs tail →
      ∃ segs' : List FileRecs, segs'.flatten = segs.flatten ∧
        Forall2 (SplitFileOf hash) segs' (((bufs.map fileOfBuf).filterMap id).map (·.items)) ∧
        DiskInv hash all segs' (((bufs.map fileOfBuf).filterMap id).map some) tail := by
  intro segs
  induction segs with
  | nil =>
    intro bufs tail h
    cases bufs with
    | nil => exact ⟨[], rfl, Forall2.nil, by simp [DiskInv]⟩
    | cons _ _ => simp [ClosedInv] at h
  | cons s ss ih =>
    intro bufs tail h
    cases bufs with
    | nil => simp [ClosedInv] at h
    | cons b bs =>
      simp only [ClosedInv] at h
      obtain ⟨segs', h1, h2, h3⟩ := ih bs tail h.2
      by_cases he : b.items.isEmpty = true
      · -- no item, no file, no record
        have hs : s = [] := by
          have := h.1.perm
          have hb : b.items = [] := by simpa using he
          rw [hb] at this
          have := dedupLast_eq_nil this.nil_eq.symm
          simpa using this
        refine ⟨segs', by simp [h1, hs], ?_, ?_⟩
        · simpa [fileOfBuf, he] using h2
        · simpa [fileOfBuf, he] using h3
      · have hd := closed_disk hash scan all [s] [b] (ss.flatten ++ tail) (by simp [ClosedInv]; exact h.1)
        simp only [List.map_cons, List.map_nil, DiskInv, fileOfBuf, he, Bool.false_eq_true, if_false,
          List.flatten_nil, List.nil_append, and_true] at hd
        refine ⟨s :: segs', by simp [h1], ?_, ?_⟩
        · simp only [List.map_cons, fileOfBuf, he, Bool.false_eq_true, if_false, List.filterMap_cons, id]
          exact Forall2.cons hd.1 h2
        · simp only [List.map_cons, fileOfBuf, he, Bool.false_eq_true, if_false, List.filterMap_cons, id, DiskInv]
          refine ⟨⟨hd.1, hd.2.1, hd.2.2.1, ?_, hd.2.2.2.2⟩, h3⟩
          rw [h1]; exact hd.2.2.2.1

theorem diskInv_mono {all all' : FileRecs} (hsub : ∀ p ∈ all, p ∈ all') :
    ∀ (segs : List FileRecs) (disk : List (Option SplitFile)) (tail : FileRecs),
      DiskInv hash all segs disk tail → DiskInv hash all' segs disk tail := by
  intro segs
  induction segs with
  | nil =>
    intro disk tail h
    cases disk with
    | nil => simp [DiskInv]
    | cons _ _ => simp [DiskInv] at h
  | cons s ss ih =>
    intro disk tail h
    cases disk with
    | nil => simp [DiskInv] at h
    | cons f fs =>
      simp only [DiskInv] at h ⊢
      refine ⟨?_, ih fs tail h.2⟩
      cases f with
      | none => trivial
      | some f =>
        obtain ⟨a1, a2, a3, a4, a5⟩ := h.1
        refine ⟨a1, a2, a3, a4, ?_⟩
        rcases a5 with a5 | ⟨p, hp, hle⟩
        · exact Or.inl a5
        · exact Or.inr ⟨p, hsub p hp, hle⟩

/-- the placeholder for "the records not covered by the kept files" is replaced by the files rebuilt for them -/
theorem diskInv_glue (all R : FileRecs) (segsR : List FileRecs) (filesR : List (Option SplitFile)) (tail : FileRecs)
    (hR : segsR.flatten = R) (hdr : DiskInv hash all segsR filesR tail) :
    ∀ (segsA : List FileRecs) (filesA : List (Option SplitFile)),
      DiskInv hash all (segsA ++ [R]) (filesA ++ [none]) tail →
      DiskInv hash all (segsA ++ segsR) (filesA ++ filesR) tail := by
  intro segsA
  induction segsA with
  | nil =>
    intro filesA h
    cases filesA with
    | nil => simpa using hdr
    | cons f fs =>
      simp only [List.nil_append, List.cons_append, DiskInv] at h
      cases fs <;> simp [DiskInv] at h
  | cons s ss ih =>
    intro filesA h
    cases filesA with
    | nil =>
      simp only [List.nil_append, List.cons_append, DiskInv] at h
      cases ss <;> simp [DiskInv] at h
    | cons f fs =>
      simp only [List.cons_append, DiskInv] at h ⊢
      refine ⟨?_, ih fs h.2⟩
      have e : (ss ++ segsR).flatten = (ss ++ [R]).flatten := by simp [hR]
      rw [e]; exact h.1

end Disk

/-! ### `checkHintWithData`: kept prefix + rescan of the rest -/

section Load
variable (hash : Key → Nat)

theorem scanEvents_eq (recs : FileRecs) : scanEvents hash recs = (recs.map some).map (evOf hash true) := by
  simp [scanEvents, List.map_map, Function.comp_def, evOf, mkItem]

theorem writeEvents_eq (recs : FileRecs) : writeEvents hash recs = (recs.map some).map (evOf hash false) := by
  simp [writeEvents, List.map_map, Function.comp_def, evOf, mkItem]

theorem filterMap_map_some (recs : FileRecs) : (recs.map some).filterMap id = recs := by
  induction recs with
  | nil => rfl
  | cons p l ih => simp [List.filterMap_cons, ih]

/-- Whatever subset of a chunk's split files is left (`DiskInv` tolerates any missing file), `checkHintWithData`
    produces split files of SOME cut of the whole record sequence of the data file — and they satisfy the on-disk
    invariant again, so the argument can be repeated at the next start. -/
theorem load_fileHints (cap : Nat) (hcap : 1 ≤ cap) (all : FileRecs) (hall : Contig all) (dataSize : Nat)
    (hds : ∀ p ∈ all, p.1 + p.2.size ≤ dataSize) (segs : List FileRecs) (disk : List (Option SplitFile))
    (hfl : segs.flatten = all) (hd : DiskInv hash all segs disk []) :
    ∃ segs' : List FileRecs, segs'.flatten = all ∧
      Forall2 (SplitFileOf hash) segs' ((checkHintWithData hash cap all dataSize disk).map (·.items)) ∧
      DiskInv hash all segs' ((checkHintWithData hash cap all dataSize disk).map some) [] := by
  unfold checkHintWithData
  by_cases h0 : dataSize = 0
  · have : all = [] := by
      cases all with
      | nil => rfl
      | cons p l =>
        have h1 := hds p (by simp)
        have h2 := hall.2 p (by simp)
        omega
    subst this
    simp only [h0, if_true, List.map_nil]
    exact ⟨[], rfl, Forall2.nil, by simp [DiskInv]⟩
  · simp only [h0, if_false]
    obtain ⟨segsA, R, h1, h2, h3, h4, _, _, h7⟩ :=
      load_prefix hash all dataSize hds segs disk [] 0 hd (fun _ _ => Nat.zero_le _) (Or.inl rfl)
    rw [hfl] at h2
    by_cases hlt : (loadPrefix dataSize (validPrefix disk) 0).2 < dataSize
    · simp only [hlt, if_true]
      -- the scan starts exactly at the first record not covered by a kept file
      have hscan : scanFrom (loadPrefix dataSize (validPrefix disk) 0).2 all = R := by
        unfold scanFrom
        rw [← h2, List.dropWhile_append_of_pos]
        · cases R with
          | nil => rfl
          | cons q l =>
            have := h4 q (by simp)
            rw [List.dropWhile_cons_of_neg]
            simp; omega
        · intro a ha
          have h5 := h3 a ha
          have h6 := hall.2 a (by rw [← h2]; simp [ha])
          simp; omega
      rw [hscan, scanEvents_eq]
      have hcR : Contig R := contig_tail (a := segsA.flatten) (by rw [h2]; exact hall)
      have hfm := filterMap_map_some R
      obtain ⟨segsR, hr1, hr2⟩ := run_closed hash true cap hcap (R.map some) (by rw [hfm]; exact hcR)
      rw [hfm] at hr1 hr2
      obtain ⟨segsR', hr3, hr4, hr5⟩ := closed_files hash true R segsR _ [] hr2
      rw [disk_eq]
      have hsubR : ∀ p ∈ R, p ∈ all := fun p hp => by rw [← h2]; simp [hp]
      refine ⟨segsA ++ segsR', by simp [hr3, hr1, h2], ?_, ?_⟩
      · rw [List.map_append]
        exact forall2_append h1 hr4
      · rw [List.map_append]
        exact diskInv_glue hash all R segsR' _ [] (by rw [hr3, hr1]) (diskInv_mono hash hsubR _ _ _ hr5) segsA _ h7
    · simp only [hlt, if_false]
      have hR : R = [] := by
        cases R with
        | nil => rfl
        | cons q l =>
          have a1 := h4 q (by simp)
          have a2 := hds q (by rw [← h2]; simp)
          have a3 := hall.2 q (by rw [← h2]; simp)
          omega
      subst hR
      refine ⟨segsA, by simpa using h2, h1, ?_⟩
      have := diskInv_glue hash all [] [] [] [] rfl (by simp [DiskInv]) segsA _ h7
      simpa using this

/-- the same for split files as the WRITE PATH left them: any interleaving of record writes and split closings,
    all splits dumped at close, then any subset of the files removed -/
theorem written_diskInv (cap : Nat) (hcap : 1 ≤ cap) (es : List (Option (Nat × Rec)))
    (hall : Contig (es.filterMap id)) (disk : List (Option SplitFile))
    (hm : Masked (HChunk.run cap (es.map (evOf hash false))).disk disk) :
    ∃ segs : List FileRecs, segs.flatten = es.filterMap id ∧ DiskInv hash (es.filterMap id) segs disk [] := by
  obtain ⟨segs, h1, h2⟩ := run_closed hash false cap hcap es hall
  refine ⟨segs, h1, diskInv_masked hash _ hm segs [] ?_⟩
  rw [disk_eq]
  exact closed_disk hash false _ segs _ [] h2

/-! `Bucket.open` dereferences `sp.file` of every split but the newest (bucket.go:224-225).  A split closed by a
    refused `Set` holds `cap ≥ 1` items, so it was dumped and has its file; with `SplitCap = 0` the rebuild leaves empty
    closed splits without a file and the start panics there (observed on the real store). -/

theorem set_refused (cap : Nat) (b : Buf) (it : Item) (sz : Nat) (h : (b.set cap it sz).2 = false) :
    cap ≤ b.items.length ∧ (b.set cap it sz).1.items = b.items := by
  unfold Buf.set at h ⊢
  cases hs : b.slot it with
  | none =>
    rw [hs] at h
    by_cases hc : b.items.length ≥ cap
    · refine ⟨hc, ?_⟩
      simp only [if_pos hc]
    · simp [hc] at h
  | some i => rw [hs] at h; simp at h

theorem scan_closed_nonempty (cap : Nat) (hcap : 1 ≤ cap) (recs : FileRecs) :
    ∀ b ∈ (HChunk.run cap (scanEvents hash recs)).closed, b.items ≠ [] := by
  unfold HChunk.run scanEvents
  suffices hgen : ∀ (ck : HChunk), (∀ b ∈ ck.closed, b.items ≠ []) →
      ∀ b ∈ ((recs.map (fun p => Ev.set (itemOfScan hash p) p.2.size)).foldl (HChunk.step cap) ck).closed, b.items ≠ [] by
    exact hgen {} (by intro b hb; simp [HChunk.closed] at hb)
  induction recs with
  | nil => intro ck h; simpa using h
  | cons p l ih =>
    intro ck h
    simp only [List.map_cons, List.foldl_cons]
    apply ih
    intro b hb
    have hstep : ck.step cap (.set (itemOfScan hash p) p.2.size) = ck.setItem cap (itemOfScan hash p) p.2.size := rfl
    rw [hstep] at hb
    unfold HChunk.setItem at hb
    by_cases hacc : (ck.last.set cap (itemOfScan hash p) p.2.size).2 = true
    · simp only [hacc, if_true] at hb; exact h b hb
    · simp only [hacc, Bool.false_eq_true, if_false, List.mem_append, List.mem_singleton] at hb
      rcases hb with hb | hb
      · exact h b hb
      · subst hb
        have := set_refused cap ck.last _ _ (by simpa using hacc)
        rw [this.2]
        intro he
        rw [he] at this
        simp at this
        omega

end Load
end HintLoadLemmas
