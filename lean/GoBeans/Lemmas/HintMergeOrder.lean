/- C14 hint merge, part 1: the order `mergeHeap.Less` of store/hintmerge.go is a strict weak order that refines the
   (khash, key) order of a hint file.  Core-only. -/
import GoBeans.Model.HintMerge
set_option linter.unusedSimpArgs false
set_option linter.unusedVariables false
namespace HintMergeLemmas
open Hint HintMerge

/-! ## the order -/

theorem bytes_lt_irrefl (a : Bytes) : ¬ a < a := List.lt_irrefl a
theorem bytes_lt_trans {a b c : Bytes} (h1 : a < b) (h2 : b < c) : a < c := List.lt_trans h1 h2
theorem bytes_lt_tri (a b : Bytes) : a < b ∨ a = b ∨ b < a := Std.lt_trichotomy a b

/-- `Less` of the code, as a proposition -/
def ILt (a b : Item) : Prop :=
  a.khash < b.khash ∨ (a.khash = b.khash ∧ (a.key < b.key ∨ (a.key = b.key ∧ posKey a < posKey b)))

theorem itemLt_iff (a b : Item) : itemLt a b = true ↔ ILt a b := by
  unfold itemLt ILt
  by_cases h1 : a.khash = b.khash
  · by_cases h2 : a.key = b.key
    · simp [h1, h2, bytes_lt_irrefl]
    · simp [h1, h2]
  · simp [h1]

/-- "not after": `b` is not `Less` than `a` -/
def ILe (a b : Item) : Prop := ¬ ILt b a

theorem itemLt_false_iff (a b : Item) : itemLt a b = false ↔ ILe b a := by
  unfold ILe; rw [← itemLt_iff]; simp

/-- same (khash, key) -/
def SameKey (a b : Item) : Prop := a.khash = b.khash ∧ a.key = b.key

/-- the (khash, key) order of a hint file -/
def KLt (a b : Item) : Prop := a.khash < b.khash ∨ (a.khash = b.khash ∧ a.key < b.key)

theorem keyLt_iff (a b : Item) : keyLt a b = true ↔ KLt a b := by
  unfold keyLt KLt
  by_cases h1 : a.khash = b.khash
  · simp [h1]
  · simp [h1]

theorem ILt_irrefl (a : Item) : ¬ ILt a a := by
  unfold ILt; intro h
  rcases h with h | ⟨_, h | ⟨_, h⟩⟩
  · omega
  · exact bytes_lt_irrefl _ h
  · omega

theorem ILe_refl (a : Item) : ILe a a := ILt_irrefl a

theorem ILe_total (a b : Item) : ILe a b ∨ ILe b a := by
  unfold ILe ILt
  rcases Nat.lt_trichotomy a.khash b.khash with h | h | h
  · left; intro h'; rcases h' with h' | ⟨h', _⟩ <;> omega
  · rcases bytes_lt_tri a.key b.key with k | k | k
    · left; intro h'; rcases h' with h' | ⟨_, h' | ⟨h', _⟩⟩
      · omega
      · exact bytes_lt_irrefl _ (bytes_lt_trans k h')
      · rw [h'] at k; exact bytes_lt_irrefl _ k
    · by_cases p : posKey a ≤ posKey b
      · left; intro h'; rcases h' with h' | ⟨_, h' | ⟨_, h'⟩⟩
        · omega
        · rw [k] at h'; exact bytes_lt_irrefl _ h'
        · omega
      · right; intro h'; rcases h' with h' | ⟨_, h' | ⟨_, h'⟩⟩
        · omega
        · rw [k] at h'; exact bytes_lt_irrefl _ h'
        · omega
    · right; intro h'; rcases h' with h' | ⟨_, h' | ⟨h', _⟩⟩
      · omega
      · exact bytes_lt_irrefl _ (bytes_lt_trans k h')
      · rw [h'] at k; exact bytes_lt_irrefl _ k
  · right; intro h'; rcases h' with h' | ⟨h', _⟩ <;> omega

theorem ILt_trans {a b c : Item} (h1 : ILt a b) (h2 : ILt b c) : ILt a c := by
  unfold ILt at *
  rcases h1 with h1 | ⟨e1, h1⟩
  · rcases h2 with h2 | ⟨e2, _⟩
    · left; omega
    · left; omega
  · rcases h2 with h2 | ⟨e2, h2⟩
    · left; omega
    · right; refine ⟨by omega, ?_⟩
      rcases h1 with h1 | ⟨k1, h1⟩
      · rcases h2 with h2 | ⟨k2, _⟩
        · left; exact bytes_lt_trans h1 h2
        · left; rw [← k2]; exact h1
      · rcases h2 with h2 | ⟨k2, h2⟩
        · left; rw [k1]; exact h2
        · right; exact ⟨k1.trans k2, by omega⟩

/-- an explicit form of "not after" -/
theorem ILe_iff (a b : Item) : ILe a b ↔
    a.khash < b.khash ∨ (a.khash = b.khash ∧ (a.key < b.key ∨ (a.key = b.key ∧ posKey a ≤ posKey b))) := by
  unfold ILe ILt
  constructor
  · intro h
    rcases Nat.lt_trichotomy a.khash b.khash with e | e | e
    · left; exact e
    · right; refine ⟨e, ?_⟩
      rcases bytes_lt_tri a.key b.key with k | k | k
      · left; exact k
      · right; refine ⟨k, ?_⟩
        by_cases p : posKey a ≤ posKey b
        · exact p
        · exact absurd (Or.inr ⟨e.symm, Or.inr ⟨k.symm, by omega⟩⟩) h
      · exact absurd (Or.inr ⟨e.symm, Or.inl k⟩) h
    · exact absurd (Or.inl e) h
  · intro h h'
    rcases h with h | ⟨e, h⟩
    · rcases h' with h' | ⟨h', _⟩ <;> omega
    · rcases h' with h' | ⟨_, h'⟩
      · omega
      · rcases h with h | ⟨k, h⟩
        · rcases h' with h' | ⟨h', _⟩
          · exact bytes_lt_irrefl _ (bytes_lt_trans h h')
          · rw [h'] at h; exact bytes_lt_irrefl _ h
        · rcases h' with h' | ⟨_, h'⟩
          · rw [k] at h'; exact bytes_lt_irrefl _ h'
          · omega

theorem ILe_trans {a b c : Item} (h1 : ILe a b) (h2 : ILe b c) : ILe a c := by
  rw [ILe_iff] at *
  rcases h1 with h1 | ⟨e1, h1⟩
  · rcases h2 with h2 | ⟨e2, _⟩
    · left; omega
    · left; omega
  · rcases h2 with h2 | ⟨e2, h2⟩
    · left; omega
    · right; refine ⟨by omega, ?_⟩
      rcases h1 with h1 | ⟨k1, h1⟩
      · rcases h2 with h2 | ⟨k2, _⟩
        · left; exact bytes_lt_trans h1 h2
        · left; rw [← k2]; exact h1
      · rcases h2 with h2 | ⟨k2, h2⟩
        · left; rw [k1]; exact h2
        · right; exact ⟨k1.trans k2, by omega⟩

theorem ILe_of_ILt {a b : Item} (h : ILt a b) : ILe a b := by
  intro h'; exact ILt_irrefl a (ILt_trans h h')

theorem ILt_of_KLt {a b : Item} (h : KLt a b) : ILt a b := by
  unfold KLt at h; unfold ILt
  rcases h with h | ⟨e, h⟩
  · left; exact h
  · right; exact ⟨e, Or.inl h⟩

theorem ILe_of_KLt {a b : Item} (h : KLt a b) : ILe a b := ILe_of_ILt (ILt_of_KLt h)

theorem KLt_irrefl (a : Item) : ¬ KLt a a := by
  unfold KLt; intro h
  rcases h with h | ⟨_, h⟩
  · omega
  · exact bytes_lt_irrefl _ h

/-- `a` not after `b`: strictly before in (khash, key), or the same (khash, key) at a position not above -/
theorem ILe_cases {a b : Item} (h : ILe a b) : KLt a b ∨ (SameKey a b ∧ posKey a ≤ posKey b) := by
  rw [ILe_iff] at h; unfold KLt SameKey
  rcases h with h | ⟨e, h | ⟨k, p⟩⟩
  · left; left; exact h
  · left; right; exact ⟨e, h⟩
  · right; exact ⟨⟨e, k⟩, p⟩

theorem KLt_of_KLt_of_ILe {a b c : Item} (h1 : KLt a b) (h2 : ILe b c) : KLt a c := by
  rw [ILe_iff] at h2; unfold KLt at *
  rcases h1 with h1 | ⟨e1, h1⟩
  · rcases h2 with h2 | ⟨e2, _⟩
    · left; omega
    · left; omega
  · rcases h2 with h2 | ⟨e2, h2⟩
    · left; omega
    · right; refine ⟨by omega, ?_⟩
      rcases h2 with h2 | ⟨k2, _⟩
      · exact bytes_lt_trans h1 h2
      · rw [← k2]; exact h1

theorem KLt_trans {a b c : Item} (h1 : KLt a b) (h2 : KLt b c) : KLt a c :=
  KLt_of_KLt_of_ILe h1 (ILe_of_KLt h2)

theorem SameKey.symm {a b : Item} (h : SameKey a b) : SameKey b a := ⟨h.1.symm, h.2.symm⟩
theorem SameKey.trans {a b c : Item} (h1 : SameKey a b) (h2 : SameKey b c) : SameKey a c :=
  ⟨h1.1.trans h2.1, h1.2.trans h2.2⟩
theorem SameKey.refl (a : Item) : SameKey a a := ⟨rfl, rfl⟩

theorem not_KLt_of_SameKey {a b : Item} (h : SameKey a b) : ¬ KLt a b := by
  unfold KLt; intro h'
  rcases h' with h' | ⟨_, h'⟩
  · have := h.1; omega
  · rw [h.2] at h'; exact bytes_lt_irrefl _ h'

/-- both ways "not after" = a tie of the code's `Less` -/
theorem tie_of_ILe_ILe {a b : Item} (h1 : ILe a b) (h2 : ILe b a) : posTie a b = true := by
  rw [ILe_iff] at h1 h2
  unfold posTie
  rcases h1 with h1 | ⟨e1, h1⟩
  · rcases h2 with h2 | ⟨e2, _⟩ <;> omega
  · rcases h2 with h2 | ⟨e2, h2⟩
    · omega
    · rcases h1 with h1 | ⟨k1, p1⟩
      · rcases h2 with h2 | ⟨k2, _⟩
        · exact absurd (bytes_lt_trans h1 h2) (bytes_lt_irrefl _)
        · rw [k2] at h1; exact absurd h1 (bytes_lt_irrefl _)
      · rcases h2 with h2 | ⟨k2, p2⟩
        · rw [k1] at h2; exact absurd h2 (bytes_lt_irrefl _)
        · simp [e1, k1]; omega

/-- the position order is the order of (chunk, offset) pairs when offsets are uint32 -/
theorem posKey_lt_iff (a b : Item) (ha : a.off < 2^32) (hb : b.off < 2^32) :
    posKey a < posKey b ↔ a.chunk < b.chunk ∨ (a.chunk = b.chunk ∧ a.off < b.off) := by
  unfold posKey
  omega

end HintMergeLemmas
