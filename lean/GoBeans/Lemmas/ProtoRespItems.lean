/-
  Reply round trip (C11), part 5: distinct keys (what GetMulti returns) — the parsed item list IS the list sent;
  literal bodies — byte for byte; the `stats` listing on the wire; non-vacuity.
-/
import GoBeans.Lemmas.ProtoRespWire

namespace Proto

theorem putItem_fresh (acc : List PItem) (p : PItem) (h : ∀ x ∈ acc, x.key ≠ p.key) : putItem acc p = acc ++ [p] := by
  unfold putItem
  have : acc.any (fun x => x.key == p.key) = false := by
    rw [List.any_eq_false]
    intro x hx
    simpa using h x hx
  simp [this]

theorem foldl_putItem_nodup (ps acc : List PItem) (h : ((acc ++ ps).map (·.key)).Nodup) :
    ps.foldl putItem acc = acc ++ ps := by
  induction ps generalizing acc with
  | nil => simp
  | cons p ps ih =>
    have hfresh : ∀ x ∈ acc, x.key ≠ p.key := by
      intro x hx e
      simp only [List.map_append, List.map_cons, List.nodup_append, List.mem_map, List.mem_cons] at h
      exact h.2.2 x.key ⟨x, hx, rfl⟩ p.key (Or.inl rfl) e
    simp only [List.foldl_cons, putItem_fresh acc p hfresh]
    rw [ih (acc ++ [p]) (by simpa [List.append_assoc] using h)]
    simp

@[simp] theorem PItem.norm_key (cas : Bool) (p : PItem) : (p.norm cas).key = p.key := by
  cases cas <;> rfl

theorem Carries_keys : ∀ (its : List RItem) (ps : List PItem), Carries its ps → ps.map (·.key) = its.map (·.key)
  | [], [], _ => rfl
  | it :: its, p :: ps, h => by
    simp only [List.map_cons, h.1.1, Carries_keys its ps h.2]
  | [], _ :: _, h => h.elim
  | _ :: _, [], h => h.elim

theorem Carries_length : ∀ (its : List RItem) (ps : List PItem), Carries its ps → ps.length = its.length
  | [], [], _ => rfl
  | it :: its, p :: ps, h => by simp [Carries_length its ps h.2]
  | [], _ :: _, h => h.elim
  | _ :: _, [], h => h.elim

/-- **VALUE replies with distinct keys** (every `get`/`gets` reply: GetMulti skips repeated keys): the parsed item list
    is exactly the list of items sent, in the order they travelled -/
theorem readResp_wire_value_nodup (cfg : Cfg) (hmax : cfg.bodyMax < 9223372036854775808) (cas : Bool) (items : List RItem)
    (hit : ∀ it ∈ items, it.OK cfg) (hnd : (items.map (·.key)).Nodup) (w : Bytes) (hw : (Resp.value cas items).Wire w) :
    ∃ (its : List RItem) (ps : List PItem), its.Perm items ∧ Carries its ps ∧
      ∀ (rest : Bytes) (fuel : Nat), items.length + 1 ≤ fuel →
        readResp cfg fuel (w ++ rest) []
          = some ({ status := ascii "END", msg := [], items := ps.map (PItem.norm cas) }, rest) := by
  obtain ⟨its, ps, hperm, hc, h⟩ := readResp_wire_value cfg hmax cas items hit w hw
  refine ⟨its, ps, hperm, hc, fun rest fuel hf => ?_⟩
  rw [h rest fuel [] hf, foldl_putItem_nodup]
  · simp
  · have : (ps.map (PItem.norm cas)).map (·.key) = its.map (·.key) := by
      rw [← Carries_keys its ps hc]; simp [List.map_map, Function.comp_def]
    simp only [List.nil_append, this]
    exact (hperm.map _).nodup_iff.mpr hnd

/-! ### literal bodies: byte for byte -/

/-- the reply item of an ordinary key: the stored bytes as they are -/
def RItem.ofLit (p : PItem) : RItem := { key := p.key, flag := p.flag, cas := p.cas, body := [.lit p.body], len := p.body.length }

theorem RItem.ofLit_OK (cfg : Cfg) (p : PItem) (h : ItemOK cfg p) : (RItem.ofLit p).OK cfg :=
  ⟨h.1, h.2.1, h.2.2.1, h.2.2.2, fun b hb => by rw [SegsBytes.single_lit_inv hb]; rfl⟩

theorem Carries_lit : ∀ (vs ps : List PItem), Carries (vs.map RItem.ofLit) ps → ps = vs
  | [], [], _ => rfl
  | v :: vs, p :: ps, h => by
    have ht := Carries_lit vs ps h.2
    obtain ⟨k1, k2, k3, k4⟩ := h.1
    have k4' : p.body = v.body := SegsBytes.single_lit_inv k4
    have : p = v := by
      cases p; cases v; simp only [RItem.ofLit] at k1 k2 k3 k4'; simp_all
    rw [this, ht]
  | [], _ :: _, h => h.elim
  | _ :: _, [], h => h.elim

/-- **binary-safe transfer of a whole reply**: items with literal bodies (arbitrary bytes: CR, LF, NUL, "END\r\n",
    "VALUE …" look-alikes) and distinct keys, written in any order, followed by anything: the client recovers exactly
    these items — a permutation `ps` of the list `vs` that was sent — and stops exactly behind the reply -/
theorem readResp_wire_value_lit (cfg : Cfg) (hmax : cfg.bodyMax < 9223372036854775808) (cas : Bool) (vs : List PItem)
    (hv : ∀ p ∈ vs, ItemOK cfg p) (hnd : (vs.map (·.key)).Nodup) (w : Bytes)
    (hw : (Resp.value cas (vs.map RItem.ofLit)).Wire w) :
    ∃ ps : List PItem, ps.Perm vs ∧
      ∀ (rest : Bytes) (fuel : Nat), vs.length + 1 ≤ fuel →
        readResp cfg fuel (w ++ rest) []
          = some ({ status := ascii "END", msg := [], items := ps.map (PItem.norm cas) }, rest) := by
  have hit : ∀ it ∈ vs.map RItem.ofLit, it.OK cfg := by
    intro it h
    obtain ⟨p, hp, rfl⟩ := List.mem_map.mp h
    exact RItem.ofLit_OK cfg p (hv p hp)
  have hnd' : ((vs.map RItem.ofLit).map (·.key)).Nodup := by
    simpa [List.map_map, Function.comp_def, RItem.ofLit] using hnd
  obtain ⟨its, ps, hperm, hc, h⟩ := readResp_wire_value_nodup cfg hmax cas _ hit hnd' w hw
  obtain ⟨vs', hp', rfl⟩ := perm_map_inv RItem.ofLit hperm vs rfl
  have := Carries_lit vs' ps hc
  subst this
  exact ⟨ps, hp', fun rest fuel hf => h rest fuel (by simpa using hf)⟩

/-- the in-order writing is one of the wire forms (so the theorems above are not vacuous) -/
theorem wire_value_lit (cas : Bool) (vs : List PItem) : (Resp.value cas (vs.map RItem.ofLit)).Wire (valueWire cas vs) := by
  refine ⟨vs.map (fun p => (valueSegs cas (RItem.ofLit p), valueBlock cas p)), endLine, ?_, ?_, ?_, ?_⟩
  · rw [write_value]; simp [List.map_map, Function.comp_def]
  · intro q hq
    obtain ⟨p, _, rfl⟩ := List.mem_map.mp hq
    show SegsBytes (valueSegs cas (RItem.ofLit p)) (valueBlock cas p)
    have hv : ascii "VALUE " = ascii "VALUE" ++ sp := by decide
    have e : valueBlock cas p
        = (ascii "VALUE " ++ p.key ++ sp ++ itoa p.flag ++ sp ++ itoa p.body.length ++ (if cas then sp ++ itoa p.cas else []) ++ crlf)
          ++ p.body ++ crlf := by
      rw [valueBlock, valueHead, hv]
      cases cas <;> simp [joinSp, List.append_assoc]
    rw [e]
    exact SegsBytes.append (SegsBytes.append (SegsBytes.single_lit _) (SegsBytes.single_lit _)) (SegsBytes.single_lit _)
  · rw [write_value]; exact SegsBytes.single_lit _
  · simp [valueWire, List.map_map, Function.comp_def]

end Proto
